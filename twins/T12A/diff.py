# ---------------------------------------------------------------------------
# Shared fixture code (copied verbatim into every diffX.py so that each script
# is self contained).
# ---------------------------------------------------------------------------
import hashlib
import io
import math
import sys

from atsim.potentials import EAMPotential, Potential
from atsim.potentials import writeFuncFL, writeSetFL, writeSetFLFinnisSinclair
from atsim.potentials import writeTABEAM, writeTABEAMFinnisSinclair
from atsim.potentials import eam_tabulation
from atsim.potentials.config import Configuration


class RecordingFile(object):
  """File like object remembering every chunk passed to write()."""

  def __init__(self):
    self.chunks = []

  def write(self, s):
    if not isinstance(s, str):
      raise TypeError("string argument expected, got %r" % type(s).__name__)
    self.chunks.append(s)
    return len(s)

  def getvalue(self):
    return "".join(self.chunks)


RESULTS = []


def record(label, thunk):
  """Run thunk(out), store (label, outcome) where outcome is made of plain data only"""
  out = RecordingFile()
  try:
    retval = thunk(out)
    outcome = ("ok", repr(retval), len(out.chunks), hashlib.sha256(out.getvalue().encode("utf-8")).hexdigest(),
               hashlib.sha256(repr(out.chunks).encode("utf-8")).hexdigest())
  except Exception as e:  # noqa
    outcome = ("exc", type(e).__name__, str(e), len(out.chunks), hashlib.sha256(repr(out.chunks).encode("utf-8")).hexdigest())
  RESULTS.append((label, outcome))
  print("%-58s %s" % (label, hashlib.sha256(repr(outcome).encode("utf-8")).hexdigest()[:16]), outcome[0], outcome[1] if outcome[0] == "exc" else "")


def finish():
  print("TOTAL_CASES", len(RESULTS))
  print("DIGEST", hashlib.sha256(repr(RESULTS).encode("utf-8")).hexdigest())


# -- python level models ------------------------------------------------------
def embed_sqrt(a):
  def f(rho):
    return -a * math.sqrt(rho)
  return f

def embed_poly(a, b):
  def f(rho):
    return a * rho - b * rho ** 2 + 1e-7 * rho ** 3
  return f

def dens_exp(a, b):
  def f(r):
    return a * math.exp(-b * r)
  return f

def dens_pow(a, n):
  def f(r):
    if r == 0.0:
      return 0.0
    return (a / r) ** n
  return f

def pair_buck(A, rho, C):
  def f(r):
    if r == 0.0:
      return 0.0
    return A * math.exp(-r / rho) - C / r ** 6
  return f

def pair_morse(D, g, r0):
  def f(r):
    return D * (math.exp(-2.0 * g * (r - r0)) - 2.0 * math.exp(-g * (r - r0)))
  return f

def bad_log(r):
  # raises ValueError (math domain error) at r == 0.0
  return math.log(r)

def bad_after(limit):
  def f(r):
    if r > limit:
      raise RuntimeError("function evaluated beyond %r" % limit)
    return 1.0 / (1.0 + r)
  return f


def model_single():
  eam = [EAMPotential("Ag", 47, 107.8682, embed_sqrt(2.5415e-3 * 144.41), dens_pow(4.09, 6), 4.09, "fcc")]
  pair = [Potential("Ag", "Ag", pair_morse(0.3, 1.4, 2.9))]
  return eam, pair

def model_binary(order=("Al", "Cu"), drop=None, pairorder=0):
  table = {
    "Al": EAMPotential("Al", 13, 26.98, embed_poly(0.7, 0.003), dens_exp(1.3, 1.1), 4.05, "fcc"),
    "Cu": EAMPotential("Cu", 29, 63.55, embed_sqrt(1.9), dens_exp(2.1, 0.9), 3.61, "fcc")}
  pairs = [
    Potential("Al", "Al", pair_morse(0.27, 1.16, 3.25)),
    Potential("Cu", "Al", pair_buck(1200.0, 0.31, 11.0)),
    Potential("Cu", "Cu", pair_morse(0.34, 1.36, 2.87))]
  if pairorder:
    pairs = pairs[pairorder:] + pairs[:pairorder]
  if drop is not None:
    pairs = [p for p in pairs if sorted([p.speciesA, p.speciesB]) != sorted(drop)]
  return [table[s] for s in order], pairs

def model_ternary(order=("Zr", "Al", "Cu")):
  table = {
    "Al": EAMPotential("Al", 13, 26.98, embed_poly(0.7, 0.003), dens_exp(1.3, 1.1), 4.05, "fcc"),
    "Cu": EAMPotential("Cu", 29, 63.55, embed_sqrt(1.9), dens_exp(2.1, 0.9), 3.61, "fcc"),
    "Zr": EAMPotential("Zr", 40, 91.224, embed_poly(1.1, 0.0007), dens_pow(3.2, 4), 3.23, "hcp")}
  pairs = [
    Potential("Zr", "Cu", pair_buck(900.0, 0.33, 3.0)),
    Potential("Al", "Al", pair_morse(0.27, 1.16, 3.25)),
    Potential("Zr", "Zr", pair_morse(0.7, 1.2, 3.1)),
    Potential("Al", "Cu", pair_buck(1200.0, 0.31, 11.0)),
    # duplicate definition: last one wins
    Potential("Cu", "Zr", pair_buck(950.0, 0.30, 2.0))]
  return [table[s] for s in order], pairs

def model_fs(order=("Al", "Fe"), missing=None, extra=False):
  dens = {
    ("Al", "Al"): dens_exp(1.3, 1.1), ("Al", "Fe"): dens_exp(0.4, 1.7),
    ("Fe", "Al"): dens_pow(2.2, 4), ("Fe", "Fe"): dens_exp(2.9, 1.3),
    ("Al", "Ni"): dens_exp(0.1, 0.2), ("Fe", "Ni"): dens_exp(0.2, 0.3),
    ("Ni", "Al"): dens_exp(0.3, 0.4), ("Ni", "Fe"): dens_exp(0.4, 0.5), ("Ni", "Ni"): dens_pow(2.0, 5)}
  embeds = {"Al": embed_poly(0.7, 0.003), "Fe": embed_sqrt(1.0), "Ni": embed_sqrt(1.7)}
  numbers = {"Al": (13, 26.98, 4.05, "fcc"), "Fe": (26, 55.845, 2.87, "bcc"), "Ni": (28, 58.69, 3.52, "fcc")}
  species = list(order)
  eam = []
  for a in species:
    # insertion order of the density dictionary deliberately reversed
    others = list(reversed(species))
    if extra:
      others = others + [s for s in ("Ni",) if s not in others]
    d = {}
    for b in others:
      if missing == (a, b):
        continue
      d[b] = dens[(a, b)]
    z, m, lc, lt = numbers[a]
    eam.append(EAMPotential(a, z, m, embeds[a], d, lc, lt))
  pairs = [
    Potential("Fe", "Al", pair_buck(1000.0, 0.3, 5.0)),
    Potential("Fe", "Fe", pair_morse(0.41, 1.39, 2.85)),
    Potential("Al", "Al", pair_morse(0.27, 1.16, 3.25)),
    Potential("Ni", "Ni", pair_morse(0.42, 1.42, 2.78))]
  return eam, pairs


# -- .ini level models ----------------------------------------------------------
INI_BODY_EAM = u"""
[Pair]
Al-Al = as.morse 1.16 3.25 0.27
Cu-Al = as.buck 1200.0 0.31 11.0
Cu-Cu = as.morse 1.36 2.87 0.34

[EAM-Embed]
Cu = as.sqrt -1.9
Al = as.polynomial 0.0 0.7 -0.003

[EAM-Density]
Cu = dens 2.1 0.9
Al = dens 1.3 1.1

[Potential-Form]
dens(r, A, B) = A*exp(-B*r)
"""

INI_BODY_FS = u"""
[Pair]
Fe-Al = as.buck 1000.0 0.3 5.0
Fe-Fe = as.morse 1.39 2.85 0.41
Al-Al = as.morse 1.16 3.25 0.27

[EAM-Embed]
Fe = as.sqrt -1.0
Al = as.polynomial 0.0 0.7 -0.003

[EAM-Density]
Fe->Fe = dens 2.9 1.3
Al->Fe = dens 0.4 1.7
Fe->Al = dens 2.2 0.8
Al->Al = dens 1.3 1.1

[Potential-Form]
dens(r, A, B) = A*exp(-B*r)
"""

INI_BODY_ADP = INI_BODY_EAM + u"""
[EAM-ADP-Dipole]
Al-Cu = dens 0.1 0.5
Cu-Cu = as.zero

[EAM-ADP-Quadrupole]
Al-Al = dens 0.2 0.7
Cu-Al = dens 0.3 0.4
"""

def ini(target, body, nr=17, nrho=13, cutoff=6.0, cutoff_rho=40.0):
  return u"[Tabulation]\ntarget : %s\nnr : %d\nnrho : %d\ncutoff : %s\ncutoff_rho : %s\n%s" % (target, nr, nrho, cutoff, cutoff_rho, body)

def read_ini(text):
  return Configuration().read(io.StringIO(text))

def workbook_dump(wb):
  dump = []
  for ws in wb.worksheets:
    rows = [tuple(repr(c) for c in row) for row in ws.iter_rows(values_only=True)]
    dump.append((ws.title, rows))
  return dump
# ---------------------------------------------------------------------------
# Twin A: atsim/potentials/eam_tabulation.py  (all tabulation classes)
# ---------------------------------------------------------------------------
import os
import tempfile

from atsim.potentials.pair_tabulation import PairTabulation_AbstractBase

ET = eam_tabulation

def props(tab):
  return (type(tab).__name__, tab.type, tab.target, tab.nr, tab.nrho, tab.cutoff, tab.cutoff_rho)

def steps(tab):
  return (tab.dr, tab.drho)

def tab_case(label, cls, model, cutoff, nr, cutoff_rho, nrho, extra=()):
  eam, pair = model
  def make():
    if extra:
      return cls(pair, eam, extra[0], extra[1], cutoff, nr, cutoff_rho, nrho)
    return cls(pair, eam, cutoff, nr, cutoff_rho, nrho)
  def thunk(out):
    tab = make()
    ident = (tab.eam_potentials is eam, tab.potentials is pair)
    if extra:
      ident += (tab.dipole_potentials is extra[0], tab.quadrupole_potentials is extra[1])
    return (props(tab), ident, steps(tab), tab.write(out))
  record(label, thunk)
  # properties must be readable even when the steps are not computable
  record(label + "/props", lambda out: props(make()))

GRIDS = [(6.0, 17, 40.0, 13), (5.5, 6, 3.0, 4), (7.25, 2, 10.0, 2), (4.0, 23, 100.0, 31)]

TEXT_CLASSES = [ET.SetFL_EAMTabulation, ET.TABEAM_EAMTabulation]
FS_CLASSES = [ET.SetFL_FS_EAMTabulation, ET.TABEAM_FinnisSinclair_EAMTabulation]

plain_models = [
  ("single", model_single()),
  ("binary", model_binary()),
  ("binary-rev-drop", model_binary(order=("Cu", "Al"), drop=("Al", "Cu"), pairorder=1)),
  ("binary-nopairs", (model_binary()[0], [])),
  ("ternary", model_ternary()),
  ("ternary-sorted", model_ternary(order=("Al", "Cu", "Zr"))),
  ("empty", ([], []))]

fs_models = [
  ("fs", model_fs()),
  ("fs-rev", model_fs(order=("Fe", "Al"))),
  ("fs-3", model_fs(order=("Ni", "Al", "Fe"))),
  ("fs-extra", model_fs(extra=True)),
  ("fs-missing", model_fs(missing=("Fe", "Al"))),
  ("fs-missing-self", model_fs(order=("Fe", "Al"), missing=("Al", "Al"))),
  ("fs-notdict", model_binary()),
  ("fs-empty", ([], []))]

for cls in TEXT_CLASSES:
  for mname, model in plain_models:
    for g in GRIDS:
      tab_case("A/%s/%s/%r" % (cls.__name__, mname, g), cls, model, *g)
  # FS style (dictionary) densities handed to the non-FS classes
  tab_case("A/%s/dict-density" % cls.__name__, cls, model_fs(), *GRIDS[0])

for cls in FS_CLASSES:
  for mname, model in fs_models:
    for g in GRIDS:
      tab_case("A/%s/%s/%r" % (cls.__name__, mname, g), cls, model, *g)

# Degenerate grids and failing functions
for cls in TEXT_CLASSES + FS_CLASSES:
  model = model_fs() if cls in FS_CLASSES else model_binary()
  tab_case("A/%s/nrho=1" % cls.__name__, cls, model, 6.0, 10, 40.0, 1)
  tab_case("A/%s/nr=1" % cls.__name__, cls, model, 6.0, 1, 40.0, 10)
  tab_case("A/%s/nr=0" % cls.__name__, cls, model, 6.0, 0, 40.0, 0)
  tab_case("A/%s/str-grid" % cls.__name__, cls, model, "6.0", 10, 40.0, 10)
  tab_case("A/%s/None-pots" % cls.__name__, cls, (None, None), 6.0, 10, 40.0, 10)

def failing_binary(where):
  eam, pair = model_binary()
  if where == "embed":
    eam[1].embeddingFunction = bad_after(20.0)
  elif where == "embed0":
    eam[0].embeddingFunction = bad_log
  elif where == "density":
    eam[0].electronDensityFunction = bad_after(3.0)
  elif where == "pair":
    pair[2] = Potential("Cu", "Cu", bad_after(4.0))
  elif where == "notcallable":
    eam[1].electronDensityFunction = 3.0
  elif where == "nospecies":
    del eam[1].species
  return eam, pair

for cls in TEXT_CLASSES + [ET.ADP_EAMTabulation]:
  for where in ("embed", "embed0", "density", "pair", "notcallable", "nospecies"):
    extra = ()
    if cls is ET.ADP_EAMTabulation:
      extra = ([], [])
    tab_case("A/%s/fail-%s" % (cls.__name__, where), cls, failing_binary(where), 6.0, 17, 40.0, 13, extra)

# ADP
dip_full = [Potential("Al", "Cu", dens_exp(0.1, 0.5)), Potential("Cu", "Cu", dens_exp(0.0, 1.0)), Potential("Al", "Al", dens_exp(0.05, 0.5))]
quad_part = [Potential("Cu", "Al", dens_exp(0.3, 0.4))]
dip_bad = [Potential("Al", "Cu", bad_after(2.0))]
for mname, model in plain_models:
  for g in GRIDS[:3]:
    tab_case("A/ADP/%s/%r/full-part" % (mname, g), ET.ADP_EAMTabulation, model, *g, extra=(dip_full, quad_part))
    tab_case("A/ADP/%s/%r/none" % (mname, g), ET.ADP_EAMTabulation, model, *g, extra=([], []))
tab_case("A/ADP/bad-dipole", ET.ADP_EAMTabulation, model_binary(), *GRIDS[0], extra=(dip_bad, quad_part))
tab_case("A/ADP/bad-quadrupole", ET.ADP_EAMTabulation, model_binary(), *GRIDS[0], extra=(dip_full, dip_bad))
tab_case("A/ADP/None-dipole", ET.ADP_EAMTabulation, model_binary(), *GRIDS[0], extra=(None, quad_part))
tab_case("A/ADP/nrho=1", ET.ADP_EAMTabulation, model_binary(), 6.0, 10, 40.0, 1, extra=(dip_full, quad_part))

# Excel
def excel_case(label, cls, model, cutoff, nr, cutoff_rho, nrho):
  eam, pair = model
  def thunk(out):
    tab = cls(pair, eam, cutoff, nr, cutoff_rho, nrho)
    res = [props(tab), tab._excel_tab_name]
    # access twice: second access must give the very same workbook; when the
    # first access fails the outcome of the second is recorded too.
    for attempt in range(2):
      try:
        wb = tab.workbook
        res.append(("ok", workbook_dump(wb), wb is tab.workbook))
      except Exception as e:  # noqa
        res.append(("exc", type(e).__name__, str(e)))
    bio = io.BytesIO()
    try:
      res.append(("write", tab.write(bio), bio.getvalue()[:2]))
    except Exception as e:  # noqa
      res.append(("write-exc", type(e).__name__, str(e)))
    return res
  record(label, thunk)

for mname, model in plain_models:
  for g in GRIDS:
    excel_case("A/Excel/%s/%r" % (mname, g), ET.Excel_EAMTabulation, model, *g)
for mname, model in fs_models:
  for g in GRIDS[:2]:
    excel_case("A/ExcelFS/%s/%r" % (mname, g), ET.Excel_FinnisSinclair_EAMTabulation, model, *g)
excel_case("A/Excel/dict-density", ET.Excel_EAMTabulation, model_fs(), *GRIDS[0])
excel_case("A/Excel/fail-density", ET.Excel_EAMTabulation, failing_binary("density"), *GRIDS[0])
excel_case("A/Excel/fail-embed", ET.Excel_EAMTabulation, failing_binary("embed"), *GRIDS[0])
excel_case("A/Excel/nospecies", ET.Excel_EAMTabulation, failing_binary("nospecies"), *GRIDS[0])
excel_case("A/Excel/nrho=1", ET.Excel_EAMTabulation, model_binary(), 6.0, 10, 40.0, 1)

# class relationships / open_fp
def hierarchy(out):
  names = ["SetFL_EAMTabulation", "SetFL_FS_EAMTabulation", "TABEAM_EAMTabulation", "TABEAM_FinnisSinclair_EAMTabulation",
           "Excel_EAMTabulation", "Excel_FinnisSinclair_EAMTabulation", "ADP_EAMTabulation"]
  res = []
  for n in names:
    c = getattr(ET, n)
    res.append((n, issubclass(c, ET._EAMTabulationAbstractbase), issubclass(c, PairTabulation_AbstractBase),
                [issubclass(c, getattr(ET, m)) for m in names], c.write.__doc__, c.__doc__, c.__init__.__doc__))
  return res
record("A/hierarchy", hierarchy)

def open_fp_modes(out):
  res = []
  d = tempfile.mkdtemp()
  for n in ["SetFL_EAMTabulation", "SetFL_FS_EAMTabulation", "TABEAM_EAMTabulation", "TABEAM_FinnisSinclair_EAMTabulation",
            "Excel_EAMTabulation", "Excel_FinnisSinclair_EAMTabulation", "ADP_EAMTabulation"]:
    with getattr(ET, n).open_fp(os.path.join(d, n)) as fp:
      res.append((n, fp.mode))
  return res
record("A/open_fp", open_fp_modes)

def abstract_write(out):
  t = ET._EAMTabulationAbstractbase([], [], 1.0, 2, 1.0, 2, "x")
  return (props(t), steps(t), t.write(out))
record("A/abstract-write", abstract_write)

# .ini level (potable code path)
for tgt, body in [("setfl", INI_BODY_EAM), ("DL_POLY_EAM", INI_BODY_EAM), ("setfl_fs", INI_BODY_FS),
                  ("DL_POLY_EAM_fs", INI_BODY_FS), ("eam_adp", INI_BODY_ADP)]:
  for kw in (dict(), dict(nr=8, nrho=5, cutoff=4.5, cutoff_rho=7.0)):
    def thunk(out, tgt=tgt, body=body, kw=kw):
      tab = read_ini(ini(tgt, body, **kw))
      return (props(tab), steps(tab), [p.species for p in tab.eam_potentials], tab.write(out))
    record("A/ini/%s/%r" % (tgt, sorted(kw.items())), thunk)
for tgt, body in [("excel_eam", INI_BODY_EAM), ("excel_eam_fs", INI_BODY_FS)]:
  def thunk(out, tgt=tgt, body=body):
    tab = read_ini(ini(tgt, body))
    return (props(tab), workbook_dump(tab.workbook))
  record("A/ini/%s" % tgt, thunk)

finish()

"""Differential script for twin A (DatReader._populate / TableReaderBase.__init__)."""
import hashlib, io, os, sys
from atsim.potentials import _tablereaders, TableReader, writePotentials, Potential
from atsim.potentials import EAMPotential, writeFuncFL

out = []
def rec(tag, thunk):
  try:
    out.append("%s => %r" % (tag, thunk()))
  except BaseException as e:
    out.append("%s !! %s" % (tag, type(e).__name__))

RES = os.path.join("tests", "lammps_resources")
TEXTS = {
 "simple": "0.0 1.0\n1.0 2.0\n2.0 4.0\n",
 "comments": "# header\n\n  0.5   1.5  \n#mid\n\t1.5\t-2.5\t9 9\n   \n2.5 3.25 extra\n",
 "unsorted": "3 9\n1 1\n2 4\n0 0\n",
 "dups": "1 5\n1 2\n0 0\n2 1\n1 3\n",
 "sci": "1e-3 -1.5E+2\n2.5e-3 +3.0e1\n.5 7.\n",
 "leadinghash_ws": "   # indented comment\n1 2\n3 4\n",
 "crlf": "0 1\r\n1 3\r\n\r\n2 5\r\n",
 "single": "1.0 2.0\n",
 "empty": "",
 "onlycomments": "# a\n# b\n",
 "onecol": "1.0\n2.0\n",
 "onecol_late": "1 2\n3\n",
 "nonnumeric": "1 2\na b\n",
 "nonnumeric_y": "1 2\n3 x\n",
 "commas": "1,2\n3,4\n",
 "nan": "0 1\nnan 5\n2 3\n",
 "inf": "0 1\ninf 5\n-inf 3\n",
 "hash_inline": "1 #2\n",
}
XS = [-1.0, 0.0, 0.25, 0.5, 1.0, 1.25, 1.5, 2.0, 2.5, 2.75, 3.0, 1e-3, 2e-3, 10.0, float("inf"), float("nan")]

def safe(f, *a):
  try:
    return repr(f(*a))
  except Exception as e:
    return "!" + type(e).__name__

def probe(r):
  return (list(r), [safe(r.getValue, x) for x in XS], [safe(r._findIndex, x) for x in XS],
          len(r.xproxy), [r.xproxy[i] for i in range(len(r))])

for k in sorted(TEXTS):
  t = TEXTS[k]
  rec("dat:" + k, lambda: probe(_tablereaders.DatReader(io.StringIO(t))))
  rec("datlist:" + k, lambda: list(_tablereaders.DatReader(t.splitlines(True))))
  rec("daticonv:" + k, lambda: probe(_tablereaders.DatReader(io.StringIO(t), inputConvert=lambda x: x * 2.0)))
  rec("datoconv:" + k, lambda: probe(_tablereaders.DatReader(io.StringIO(t), outputConvert=lambda y: y - 1.0)))
  rec("datboth:" + k, lambda: probe(_tablereaders.DatReader(io.StringIO(t), lambda x: x / 3.0, lambda y: y * y)))
  rec("TableReader:" + k, lambda: (list(TableReader(io.StringIO(t)).datReader), [safe(TableReader(io.StringIO(t)), x) for x in XS]))

# bytes lines, None, non-iterables
rec("bytes", lambda: list(_tablereaders.DatReader(io.BytesIO(b"1 2\n3 4\n"))))
rec("bytes_comment", lambda: list(_tablereaders.DatReader(io.BytesIO(b"# c\n"))))
rec("bytes_empty", lambda: list(_tablereaders.DatReader(io.BytesIO(b"\n\n"))))
rec("none", lambda: list(_tablereaders.DatReader(None)))
rec("int", lambda: list(_tablereaders.DatReader(5)))
rec("listofint", lambda: list(_tablereaders.DatReader([1, 2])))
rec("base", lambda: _tablereaders.TableReaderBase(io.StringIO("1 2\n")))

# call ordering of converters and behaviour when they raise
calls = []
def ic(x):
  calls.append(("i", x)); return x + 1
def oc(y):
  calls.append(("o", y))
  if y == 4.0: raise KeyError("boom")
  return -y
rec("convorder", lambda: (list(_tablereaders.DatReader(io.StringIO("2 2\n1 1\n3 3\n"), ic, oc)), list(calls)))
del calls[:]
rec("convraise", lambda: list(_tablereaders.DatReader(io.StringIO(TEXTS["unsorted"]), ic, oc)))
out.append("convraise calls %r" % (calls,))

class MyReader(_tablereaders.DatReader):
  def _populate(self, fileobj):
    _tablereaders.DatReader._populate(self, fileobj)
    self.n_after_populate = len(self)
rec("subclass", lambda: (lambda r: (list(r), r.n_after_populate))(MyReader(io.StringIO(TEXTS["dups"]), lambda x: 10 * x)))

# Populate called twice extends
def twice():
  r = _tablereaders.DatReader(io.StringIO("1 2\n0 1\n"))
  r._populate(io.StringIO("0.5 9\n-1 3\n"))
  return list(r), r.getValue(0.75)
rec("twice", twice)

# real resource tables through public tabulation API
for name in sorted(os.listdir(RES)):
  if name.endswith(".table"):
    p = os.path.join(RES, name)
    def real():
      with open(p) as f:
        tr = TableReader(f)
      d = tr.datReader
      lo, hi = d[0][0], d[-1][0]
      n = 57
      return (len(d), d[0], d[-1], [tr(lo + (hi - lo) * i / n) for i in range(-2, n + 3)])
    rec("real:" + name, real)

def tab(fmt):
  with open(os.path.join(RES, "setfl_AlAlPair.table")) as f:
    a = TableReader(f)
  with open(os.path.join(RES, "setfl_CuAlPair.table")) as f:
    b = TableReader(f)
  sio = io.StringIO()
  writePotentials(fmt, [Potential("Al", "Al", a), Potential("Cu", "Al", b)], 6.0, 60, sio)
  return hashlib.sha256(sio.getvalue().encode()).hexdigest()
for fmt in ("LAMMPS", "DL_POLY", "GULP"):
  rec("tab:" + fmt, lambda: tab(fmt))

def funcfl():
  with open(os.path.join(RES, "AgU3embedding.table")) as f: e = TableReader(f)
  with open(os.path.join(RES, "AgU3effectivecharge.table")) as f: z = TableReader(f)
  with open(os.path.join(RES, "AgU3density.table")) as f: d = TableReader(f)
  sio = io.StringIO()
  writeFuncFL(50, 0.005, 50, 0.1, [EAMPotential("Ag", 47, 107.8682, e, d, 4.09, "FCC")], [Potential("Ag", "Ag", z)], out=sio, title="x")
  return hashlib.sha256(sio.getvalue().encode()).hexdigest()
rec("funcfl", funcfl)

blob = "\n".join(out)
if "-v" in sys.argv: print(blob)
print(len(out), "records; errors:", sum(1 for l in out if " !! " in l))
print("DIGEST", hashlib.sha256(blob.encode()).hexdigest())

"""Differential script for twin B (pair_tabulation.py / eam_tabulation.py).

Builds tabulation objects for every tabulation target (through .ini models and
directly through the constructors), queries dr/drho in different orders, writes
every table twice and prints a sha256 digest of all that was observed."""
import hashlib
import io
import re
import sys

from atsim.potentials import Potential, EAMPotential, potentialforms, Multi_Range_Defn, create_Multi_Range_Potential_Form
from atsim.potentials import pair_tabulation, eam_tabulation
from atsim.potentials.config import Configuration

OUT = []


def rec(*items):
  OUT.append(re.sub(r"0x[0-9a-fA-F]+", "0xADDR", " | ".join(repr(i) for i in items)))


def attempt(label, func, *args, **kwargs):
  try:
    v = func(*args, **kwargs)
    rec(label, "ok", v)
    return v
  except Exception as e:  # noqa
    rec(label, "EXC", type(e).__name__, str(e))
    return None


def sha(s):
  if not isinstance(s, bytes):
    s = s.encode("utf-8")
  return hashlib.sha256(s).hexdigest()


def dump_workbook(wb):
  rows = []
  for ws in wb.worksheets:
    rows.append(("sheet", ws.title, ws.max_row, ws.max_column))
    for row in ws.iter_rows(values_only=True):
      rows.append(row)
  return sha(repr(rows)), len(rows)


def write_text(tab):
  sio = io.StringIO()
  tab.write(sio)
  return sio.getvalue()


def write_excel(tab):
  from openpyxl import load_workbook
  bio = io.BytesIO()
  tab.write(bio)
  bio.seek(0)
  return dump_workbook(load_workbook(bio))


def grid_props(tab, order):
  names = ["dr", "nr", "cutoff", "drho", "nrho", "cutoff_rho", "type", "target"]
  if order:
    names = list(reversed(names))
  vals = []
  for n in names + names:
    if hasattr(type(tab), n):
      try:
        vals.append((n, getattr(tab, n)))
      except Exception as e:  # noqa
        vals.append((n, "EXC", type(e).__name__))
  return sorted(vals, key=repr)


PAIR_SECTION = u"""
[Pair]
O-O : as.buck 22764.0 0.149 27.88
Mg-O : >=0 as.polynomial 1000.0 -20.0 0.5 >3 as.buck 500.0 0.4 2.0 >8 as.zero
Al-O : pot 2.0
Mg-Al : as.zero

[Potential-Form]
pot(r, A) = A/(r+1)^2
"""

PAIR_SECTION_REORDERED = u"""
[Pair]
Mg-Al : as.zero
O-Al : pot 2.0
O-Mg : >=0 as.polynomial 1000.0 -20.0 0.5 >3 as.buck 500.0 0.4 2.0 >8 as.zero
O-O : as.buck 22764.0 0.149 27.88

[Potential-Form]
pot(r, A) = A/(r+1)^2
"""

EAM_COMMON = u"""
[Species]
A.atomic_mass = 1
A.atomic_number = 1
B.atomic_mass = 2.5
B.atomic_number = 2
B.lattice_type = bcc
B.lattice_constant = 3.1

[EAM-Embed]
A = as.polynomial 0 1 0.25
B = as.sqrt -1.5

[Pair]
A-A = as.buck 100.0 0.3 1.0 >3 as.zero
B-A = as.bornmayer 50.0 0.4
B-B = >=0 as.polynomial 1.0 -0.2
"""

EAM_DENS = u"""
[EAM-Density]
A = >=0 as.polynomial 0 2
B = >=0 as.exponential 3.0 2 >=4.0 as.zero
"""

EAM_DENS_FS = u"""
[EAM-Density]
A->A = >=0 as.polynomial 0 1
A->B = >=0 as.polynomial 0 3
B->A = >=0 as.polynomial 0 2
B->B = >=0 as.polynomial 0 5 0.5
"""

ADP_EXTRA = u"""
[EAM-ADP-Dipole]
A-A : >=0 as.polynomial 0.5 0.1
A-B : as.bornmayer 2.0 0.5
B-B : >=0 as.zero

[EAM-ADP-Quadrupole]
A-A : >=0 as.polynomial -0.5 0.2
A-B : >=0 as.exponential 0.3 2
B-B : >=0 as.constant 1.0
"""


def tab_section(target, **kwargs):
  lines = [u"[Tabulation]", u"target : {}".format(target)]
  for k in sorted(kwargs):
    lines.append(u"{} : {}".format(k, kwargs[k]))
  return u"\n".join(lines) + u"\n"


PAIR_GRIDS = [
  dict(cutoff=10.0, nr=101),
  dict(cutoff=6.5, dr=0.05),
  dict(nr=7, dr=0.3),
  dict(cutoff=2.0, nr=2),
  dict(cutoff=1.0, nr=3),
]

EAM_GRIDS = [
  dict(cutoff=5.0, dr=0.1, cutoff_rho=50.0, drho=0.5),
  dict(nr=33, dr=0.17, nrho=21, drho=0.3),
  dict(cutoff=3.0, nr=11, cutoff_rho=7.0, nrho=5),
]


def models():
  for target in ["LAMMPS", "DLPOLY", "GULP", "excel"]:
    for i, g in enumerate(PAIR_GRIDS):
      for j, ps in enumerate([PAIR_SECTION, PAIR_SECTION_REORDERED]):
        yield ("pair", target, i, j), tab_section(target, **g) + ps
  for target, dens, extra in [("setfl", EAM_DENS, u""), ("DL_POLY_EAM", EAM_DENS, u""), ("excel_eam", EAM_DENS, u""),
                              ("eam_adp", EAM_DENS, ADP_EXTRA),
                              ("setfl_fs", EAM_DENS_FS, u""), ("DL_POLY_EAM_fs", EAM_DENS_FS, u""), ("excel_eam_fs", EAM_DENS_FS, u"")]:
    for i, g in enumerate(EAM_GRIDS):
      yield ("eam", target, i), tab_section(target, **g) + EAM_COMMON + dens + extra
  # Malformed
  yield ("bad", "nr1"), tab_section("LAMMPS", cutoff=10.0, nr=1) + PAIR_SECTION
  yield ("bad", "gulp-nr1"), tab_section("GULP", cutoff=10.0, nr=1) + PAIR_SECTION
  yield ("bad", "nr0"), tab_section("GULP", cutoff=10.0, nr=0) + PAIR_SECTION
  yield ("bad", "negative"), tab_section("DLPOLY", cutoff=10.0, nr=-4) + PAIR_SECTION
  yield ("bad", "nogrid"), tab_section("LAMMPS") + PAIR_SECTION
  yield ("bad", "overspecified"), tab_section("LAMMPS", cutoff=10.0, nr=10, dr=0.3) + PAIR_SECTION
  yield ("bad", "target"), tab_section("NOTHING", cutoff=10.0, nr=10) + PAIR_SECTION
  yield ("bad", "setfl-nrho1"), tab_section("setfl", cutoff=3.0, nr=11, cutoff_rho=7.0, nrho=1) + EAM_COMMON + EAM_DENS


def is_excel(tab):
  return tab.target.startswith("excel")


def exercise(label, make, order):
  tab = attempt((label, "build"), lambda: make())
  if tab is None:
    return
  tab = make()
  rec(label, "class", type(tab).__name__)
  if order == 0:
    rec(label, "props-before", grid_props(tab, 0))
  writer = write_excel if is_excel(tab) else (lambda t: (sha(write_text(t)), len(write_text(t))))
  first = attempt((label, "write1"), writer, tab)
  second = attempt((label, "write2"), writer, tab)
  rec(label, "twice-same", first == second)
  rec(label, "props-after", grid_props(tab, order))
  # An independent object, properties asked for in the other order, nothing asked beforehand
  other = make()
  if order == 1:
    rec(label, "other-props", grid_props(other, 1))
  third = attempt((label, "write-other"), writer, other)
  rec(label, "other-same", first == third)
  if is_excel(tab):
    attempt((label, "workbook"), lambda: dump_workbook(tab.workbook))
    attempt((label, "workbook-identity"), lambda: tab.workbook is tab.workbook)


def config_checks():
  for order in [0, 1]:
    for label, cfg in models():
      exercise((label, order), lambda cfg=cfg: Configuration().read(io.StringIO(cfg)), order)


def direct_checks():
  """Constructors called directly, including odd values for nr and cutoff"""
  pots = [Potential("A", "B", create_Multi_Range_Potential_Form(Multi_Range_Defn(">", 0, potentialforms.buck(1000.0, 0.3, 3.0)))),
          Potential("B", "B", potentialforms.polynomial(1.0, 0.5)),
          Potential("A", "A", lambda r: 3.0 * r)]
  eampots = [EAMPotential("A", 1, 1.0, lambda rho: -rho ** 0.5, lambda r: 2.0 * r),
             EAMPotential("B", 2, 2.0, potentialforms.polynomial(0.0, 1.0), potentialforms.polynomial(0.0, 3.0), 2.5, "bcc")]
  eampots_fs = [EAMPotential("A", 1, 1.0, lambda rho: -rho ** 0.5, {"A": lambda r: 2.0 * r, "B": lambda r: 0.5 * r}),
                EAMPotential("B", 2, 2.0, potentialforms.polynomial(0.0, 1.0), {"A": potentialforms.polynomial(0.0, 3.0), "B": potentialforms.zero()}, 2.5, "bcc")]

  pair_classes = [pair_tabulation.LAMMPS_PairTabulation, pair_tabulation.DLPoly_PairTabulation,
                  pair_tabulation.GULP_PairTabulation, pair_tabulation.Excel_PairTabulation]
  grids = [(10.0, 11), (10, 11), (3.3, 4), (1.0, 2), (5.0, 1), (5.0, 0), (5.0, -3), (5.0, 6.0), (5.0, None),
           (5.0, "7"), (None, 5), ("5.0", 5), (0.0, 5), (-2.0, 5), (float("inf"), 4), (1e-300, 3), (10 ** 400, 3), (5.0, True)]
  for cls in pair_classes:
    for cutoff, nr in grids:
      for order in [0, 1]:
        exercise(("direct", cls.__name__, cutoff, nr, order), lambda: cls(pots, cutoff, nr), order)
    # No potentials
    exercise(("direct-empty", cls.__name__), lambda: cls([], 5.0, 6), 0)

  # Base class
  base = pair_tabulation.PairTabulation_AbstractBase(pots, 4.0, 5, "thing")
  rec("base", grid_props(base, 0), grid_props(base, 1))
  attempt("base-write", base.write, io.StringIO())
  rec("r-values", [list(pair_tabulation._r_value_iterator(cls(pots, c, n))) for c, n in [(10.0, 11), (3.3, 4), (1.0, 2), (5.0, 0)]])
  attempt("r-values-nr1", lambda: list(pair_tabulation._r_value_iterator(pair_tabulation.GULP_PairTabulation(pots, 5.0, 1))))
  attempt("r-values-float", lambda: list(pair_tabulation._r_value_iterator(pair_tabulation.GULP_PairTabulation(pots, 5.0, 4.0))))
  attempt("r-values-str", lambda: list(pair_tabulation._r_value_iterator(pair_tabulation.GULP_PairTabulation(pots, 5.0, "4"))))
  attempt("r-values-nocutoff", lambda: list(pair_tabulation._r_value_iterator(pair_tabulation.GULP_PairTabulation(pots, None, 4))))
  attempt("r-values-nocutoff0", lambda: list(pair_tabulation._r_value_iterator(pair_tabulation.GULP_PairTabulation(pots, None, 0))))
  # Interleaved consumption of two generators over the same and different objects
  t1 = pair_tabulation.GULP_PairTabulation(pots, 5.0, 6)
  t2 = pair_tabulation.GULP_PairTabulation(pots, 7.0, 4)
  g1, g2, g3 = pair_tabulation._r_value_iterator(t1), pair_tabulation._r_value_iterator(t2), pair_tabulation._r_value_iterator(t1)
  inter = []
  for g in [g1, g2, g3, g1, g1, g2, g3, g2, g1, g3, g2, g1, g3, g3, g1]:
    inter.append(next(g, "END"))
  rec("interleaved", inter, t1.dr, t2.dr, t1.dr)

  eam_classes = [(eam_tabulation.SetFL_EAMTabulation, eampots), (eam_tabulation.TABEAM_EAMTabulation, eampots),
                 (eam_tabulation.Excel_EAMTabulation, eampots),
                 (eam_tabulation.SetFL_FS_EAMTabulation, eampots_fs), (eam_tabulation.TABEAM_FinnisSinclair_EAMTabulation, eampots_fs),
                 (eam_tabulation.Excel_FinnisSinclair_EAMTabulation, eampots_fs)]
  eam_grids = [(5.0, 6, 10.0, 11), (3.3, 4, 2.0, 3), (5.0, 6, 10.0, 1), (5.0, 1, 10.0, 5), (5.0, 6, None, 5), (5.0, 6, 10.0, 0),
               (5.0, 6, 10.0, "5"), (5.0, 3, 10.0, 2.0)]
  for cls, ep in eam_classes:
    for cutoff, nr, cutoff_rho, nrho in eam_grids:
      for order in [0, 1]:
        exercise(("direct-eam", cls.__name__, cutoff, nr, cutoff_rho, nrho, order), lambda: cls(pots, ep, cutoff, nr, cutoff_rho, nrho), order)
    attempt(("rho-values", cls.__name__), lambda: list(eam_tabulation._rho_value_iterator(cls(pots, ep, 5.0, 6, 10.0, 5))))
    attempt(("rho-values-1", cls.__name__), lambda: list(eam_tabulation._rho_value_iterator(cls(pots, ep, 5.0, 6, 10.0, 1))))
    attempt(("rho-values-0", cls.__name__), lambda: list(eam_tabulation._rho_value_iterator(cls(pots, ep, 5.0, 6, None, 0))))

  dip = [Potential("A", "A", potentialforms.polynomial(0.5, 0.1)), Potential("A", "B", potentialforms.zero()), Potential("B", "B", lambda r: r)]
  quad = [Potential("A", "A", potentialforms.polynomial(0.25, 0.1)), Potential("B", "A", potentialforms.constant(2.0)), Potential("B", "B", lambda r: -r)]
  for cutoff, nr, cutoff_rho, nrho in eam_grids:
    for order in [0, 1]:
      exercise(("direct-adp", cutoff, nr, cutoff_rho, nrho, order),
               lambda: eam_tabulation.ADP_EAMTabulation(pots, eampots, dip, quad, cutoff, nr, cutoff_rho, nrho), order)


def main():
  config_checks()
  direct_checks()
  blob = "\n".join(OUT)
  print("records:", len(OUT))
  print("digest:", sha(blob))
  if len(sys.argv) > 1:
    with open(sys.argv[1], "w") as f:
      f.write(blob)


main()

"""Differential script for twin C (ConfigParser._init_config_parser: one loop over lazily
generated (method, item) edits, existence of an item detected from defaults()/options()
instead of has_option(), `section not in cp` for section creation).

Exercises override / removal / addition sequences through the public
ConfigParser constructor and through potable's _make_config_parser, prints a
sha256 digest of everything observed (section order, item order, raw values,
parsed views, tabulated output bytes, exception types and messages).
"""
import hashlib
import io
import itertools
import logging
import random
import sys

from atsim.potentials.config import ConfigParser, ConfigParserOverrideTuple, Configuration
from atsim.potentials.tools.potable import _make_config_parser

O = ConfigParserOverrideTuple

logging.disable(logging.CRITICAL)

PAIR_DLPOLY = u"""[Tabulation]
target :  DL_POLY
cutoff : 6.5
nr : 652

[Pair]
O-O = as.buck 1633.010242995040 0.327022 3.948787
U-U = as.buck 294.640906285709 0.327022 0.0
O-U = sum(as.buck 693.650933805978 0.327022 0.0,
      as.morse 1.65 2.369 0.577189831995)
"""

PAIR_LAMMPS_VARS = u"""[Variables]
A_OO = 1633.010242995040
rho = 0.327022

[Tabulation]
target :  LAMMPS
cutoff : 6.5
nr : 66

[Pair]
Gd-Ce = as.buck 1000.0 ${rho} 1.5
O-O = as.buck ${A_OO} ${rho} 3.948787
Ce-O = as.buck 1176.3 0.381 0.0
Ce-Ce = as.zero

[Potential-Form]
soft(r, a, b) = a*exp(-r/b)
hard(r,a) = a/r
"""

PAIR_GULP_TABLE = u"""[Tabulation]
target : GULP
cutoff : 3.0
dr : 0.5

[Pair]
Si-O = tabbed
O-O = as.buck 1633.0 0.327022 3.9

[Table-Form:tabbed]
interpolation : cubic_spline
xy : 0.0 10.0 1.0 5.0 2.0 1.0 3.0 0.0

[Species]
Si.charge = 4.0
"""

EAM_SETFL = u"""[Tabulation]
target : setfl
cutoff = 5.0
dr = 0.1
cutoff_rho = 50.0
drho = 0.1

[Species]
A.atomic_mass = 1
A.atomic_number = 1
B.atomic_mass = 2
B.atomic_number = 2

[EAM-Embed]
A = as.polynomial 0 1
B = as.zero

[EAM-Density]
A = as.polynomial 0 2
B = as.polynomial 0 3

[Pair]
A-A = as.polynomial 0 4
B-B = as.polynomial 0 5
B-A = as.polynomial 0 6
"""

MODELS = [("dlpoly", PAIR_DLPOLY), ("lammps_vars", PAIR_LAMMPS_VARS), ("gulp_table", PAIR_GULP_TABLE), ("setfl", EAM_SETFL)]

OUT = []

def emit(*parts):
  OUT.append(" | ".join(str(p) for p in parts))

def exc_repr(e):
  return "EXC {} {!r}".format(type(e).__name__, str(e))

def attempt(fn):
  try:
    return "OK {!r}".format(fn())
  except Exception as e:
    return exc_repr(e)

def dump(cp):
  raw = cp.raw_config_parser
  lines = []
  lines.append("defaults={!r}".format(list(raw.defaults().items())))
  for s in raw.sections():
    items = [(k, raw.get(s, k, raw=True)) for k in raw.options(s)]
    # NB. the parser's proxy table normalises whitespace in section names, so raw[s] can
    # be missing or belong to a differently spelled section: record what is observed.
    lines.append("[{!r}] {!r} proxy={}".format(s, items, attempt(lambda: (raw[s].name, len(raw[s])))))
  lines.append("parsed_sections=" + attempt(lambda: cp.parsed_sections))
  lines.append("orphans=" + attempt(lambda: cp.orphan_sections))
  lines.append("pair=" + attempt(lambda: cp.pair))
  lines.append("potential_form=" + attempt(lambda: cp.potential_form))
  lines.append("table_form=" + attempt(lambda: cp.table_form))
  lines.append("species=" + attempt(lambda: sorted(cp.species.items())))
  lines.append("tabulation=" + attempt(lambda: repr(cp.tabulation)))
  lines.append("embed=" + attempt(lambda: cp.eam_embed))
  lines.append("density=" + attempt(lambda: cp.eam_density))
  return "\n".join(lines)

def tabulate(cp):
  tabulation = Configuration().read_from_parser(cp)
  sio = io.StringIO()
  tabulation.write(sio)
  return hashlib.sha256(sio.getvalue().encode("utf-8")).hexdigest()

def run_case(label, text, overrides=(), additional=(), do_tabulate=False):
  try:
    cp = ConfigParser(io.StringIO(text), overrides=list(overrides), additional=list(additional))
  except Exception as e:
    emit(label, exc_repr(e))
    return
  emit(label, dump(cp))
  if do_tabulate:
    emit(label, "tabulated", attempt(lambda: tabulate(cp)))

def run_cli_case(label, text, override_item, add_item, remove_item, do_tabulate=True):
  try:
    cp = _make_config_parser(io.StringIO(text), override_item, add_item, remove_item, None, False)
  except Exception as e:
    emit(label, exc_repr(e))
    return
  emit(label, dump(cp))
  if do_tabulate:
    emit(label, "tabulated", attempt(lambda: tabulate(cp)))

# ---------------------------------------------------------------------------
# 1. Hand written sequences
# ---------------------------------------------------------------------------
def hand_written():
  run_case("plain-dlpoly", PAIR_DLPOLY, do_tabulate=True)
  run_case("plain-vars", PAIR_LAMMPS_VARS, do_tabulate=True)
  run_case("plain-gulp", PAIR_GULP_TABLE, do_tabulate=True)
  run_case("plain-setfl", EAM_SETFL, do_tabulate=True)

  # override keeps position, remove + add moves to the end
  run_case("ovr-keeps-order", PAIR_DLPOLY, [O("Pair", "O-O", "as.buck 1.0 0.3 0.0")], do_tabulate=True)
  run_case("remove-then-add", PAIR_DLPOLY, [O("Pair", "O-O", None)], [O("Pair", "O-O", "as.buck 1.0 0.3 0.0")], do_tabulate=True)
  run_case("remove-then-add-reversed", PAIR_DLPOLY, [O("Pair", "O-U", None)], [O("Pair", "U-O", "as.buck 2.0 0.3 0.0")], do_tabulate=True)
  run_case("add-reversed-dup", PAIR_DLPOLY, [], [O("Pair", "U-O", "as.buck 2.0 0.3 0.0")])
  run_case("add-exact-dup", PAIR_DLPOLY, [], [O("Pair", "O-U", "as.buck 2.0 0.3 0.0")])
  run_case("add-spaced-dup", PAIR_DLPOLY, [], [O("Pair", " O - U ", "as.buck 2.0 0.3 0.0")])
  run_case("add-tabbed-dup", PAIR_DLPOLY, [], [O("Pair", "O\t-\tU", "as.buck 2.0 0.3 0.0")])
  run_case("ovr-spaced", PAIR_DLPOLY, [O("Pair", " O - U", "as.buck 2.0 0.3 0.0")], do_tabulate=True)
  run_case("ovr-twice", PAIR_DLPOLY, [O("Pair", "O-U", "as.zero"), O("Pair", "O -U", "as.buck 3.0 0.3 0.0")], do_tabulate=True)
  run_case("ovr-remove-ovr", PAIR_DLPOLY, [O("Pair", "O-U", "as.zero"), O("Pair", "O-U", None), O("Pair", "O - U", "as.zero")])
  run_case("remove-twice", PAIR_DLPOLY, [O("Pair", "O-U", None), O("Pair", "O - U", None)])
  run_case("remove-missing", PAIR_DLPOLY, [O("Pair", "Th-O", None)])
  run_case("ovr-missing-section", PAIR_DLPOLY, [O("EAM-Embed", "A", "as.zero")])
  run_case("ovr-missing-key", PAIR_DLPOLY, [O("Pair", "Th-O", "as.zero")])
  run_case("add-twice", PAIR_DLPOLY, [], [O("Pair", "Th-O", "as.zero"), O("Pair", "Th - O", "as.zero")])
  run_case("add-twice-reversed", PAIR_DLPOLY, [], [O("Pair", "Th-O", "as.zero"), O("Pair", "O-Th", "as.zero")])
  run_case("add-multichar-reversed", PAIR_LAMMPS_VARS, [], [O("Pair", "Ce-Gd", "as.zero")])
  run_case("add-multichar-charreversed", PAIR_LAMMPS_VARS, [], [O("Pair", "eC-dG", "as.zero")], do_tabulate=True)
  run_case("add-multichar-anagram", PAIR_LAMMPS_VARS, [], [O("Pair", "dG-eC", "as.zero"), O("Pair", "O-Gd", "as.zero"), O("Pair", "Gd-Gd", "as.zero")], do_tabulate=True)
  run_case("remove-all-pairs", PAIR_DLPOLY, [O("Pair", "O-O", None), O("Pair", "U-U", None), O("Pair", "O-U", None)])
  run_case("remove-all-then-add", PAIR_DLPOLY, [O("Pair", "O-O", None), O("Pair", "U-U", None), O("Pair", "O-U", None)],
           [O("Pair", "U-O", "as.zero"), O("Pair", "O-O", "as.buck 1633.0 0.327 3.9")], do_tabulate=True)
  run_case("remove-all-then-ovr", PAIR_DLPOLY, [O("Pair", "O-O", None), O("Pair", "U-U", None), O("Pair", "O-U", None), O("Pair", "O-O", "as.zero")])
  run_case("new-section", PAIR_DLPOLY, [], [O("Species", "O.charge", "-2.0"), O("Species", "U.charge", "4.0"), O("Junk", "a", "b")], do_tabulate=True)
  run_case("new-table-form", PAIR_GULP_TABLE, [], [O("Table-Form: tabbed", "xy", "0 1 1 0")])
  run_case("new-table-form-2", PAIR_GULP_TABLE, [], [O("Table-Form:other", "x", "0 1 2"), O("Table-Form:other", "y", "3 2 1"), O("Pair", "Si-Si", "other")], do_tabulate=True)
  run_case("remove-table-form", PAIR_GULP_TABLE, [O("Table-Form:tabbed", "xy", None), O("Table-Form:tabbed", "interpolation", None)],
           [O("Table-Form: tabbed ", "xy", "0 1 1 0 3.0 0.0")], do_tabulate=True)
  run_case("remove-table-form-partial", PAIR_GULP_TABLE, [O("Table-Form:tabbed", "xy", None)], [O("Table-Form:tabbed", "x", "0 1"), O("Table-Form:tabbed", "y", "1 0")], do_tabulate=True)

  # [Variables]
  run_case("var-ovr", PAIR_LAMMPS_VARS, [O("Variables", "rho", "0.4")], do_tabulate=True)
  run_case("var-remove-one", PAIR_LAMMPS_VARS, [O("Variables", "A_OO", None)], do_tabulate=True)
  run_case("var-remove-all", PAIR_LAMMPS_VARS, [O("Variables", "A_OO", None), O("Variables", "rho", None)], do_tabulate=True)
  run_case("var-remove-all-readd", PAIR_LAMMPS_VARS, [O("Variables", "A_OO", None), O("Variables", "rho", None)],
           [O("Variables", "rho", "0.3"), O("Variables", "A_OO", "1000.0")], do_tabulate=True)
  run_case("var-add", PAIR_DLPOLY, [], [O("Variables", "x", "1.0"), O("Pair", "Th-O", "as.buck ${x} 0.3 0.0")], do_tabulate=True)
  run_case("var-add-dup", PAIR_LAMMPS_VARS, [], [O("Variables", " rho", "1.0")])
  run_case("var-key-in-pair-ovr", PAIR_LAMMPS_VARS, [O("Pair", "rho", "1.0")])
  run_case("var-key-in-pair-add", PAIR_LAMMPS_VARS, [], [O("Pair", "rho", "as.zero")])
  run_case("pair-key-in-var-ovr", PAIR_LAMMPS_VARS, [O("Variables", "O-O", "1.0")])
  run_case("empty-section-name-ovr", PAIR_LAMMPS_VARS, [O("", "rho", "0.5")])
  run_case("empty-section-name-remove", PAIR_LAMMPS_VARS, [O("", "rho", None)])
  run_case("empty-section-name-add", PAIR_LAMMPS_VARS, [], [O("", "zzz", "0.5")])
  run_case("empty-section-name-add-dup", PAIR_LAMMPS_VARS, [], [O("", "rho", "0.5")])
  run_case("none-section-name-add", PAIR_LAMMPS_VARS, [], [O(None, "zzz", "0.5")])
  run_case("none-section-name-ovr", PAIR_LAMMPS_VARS, [O(None, "rho", "0.5")])

  # section names that differ only by whitespace share an entry in the parser's proxy table
  run_case("spaced-section-add", PAIR_DLPOLY, [], [O("Pa ir", "Th-O", "as.zero"), O("Pair", "Zr-O", "as.zero"), O("Pair", "O-O", "as.zero")])
  run_case("spaced-section-add-remove", PAIR_DLPOLY, [O("Pair", "O-O", None)], [O(" Pair", "Th-O", "as.zero"), O("Pair", "O-O", "as.zero"), O(" Pair", "O-O", "as.zero")])
  run_case("spaced-section-ovr", PAIR_GULP_TABLE + u"[Table-Form: tabbed]\nxy : 0 1 1 0\n", [O("Table-Form:tabbed", "xy", "0 2 2 0"), O("Table-Form: tabbed", "xy", None), O("Table-Form:tabbed", "interpolation", None)])
  run_case("spaced-section-ovr-2", PAIR_GULP_TABLE + u"[Table-Form: tabbed]\nxy : 0 1 1 0\n", [O("Table-Form:tabbed", "xy", None), O("Table-Form:tabbed", "interpolation", None)], [O("Table-Form:tabbed", "xy", "0 3 3 0")])
  run_case("spaced-variables", PAIR_LAMMPS_VARS, [O("Variables ", "rho", "0.5")], [O("Variables ", "rho", "0.5"), O("Variables", "q", "0.5")])

  # bad values
  run_case("bad-dollar-ovr", PAIR_LAMMPS_VARS, [O("Pair", "O-O", "as.buck $rho 1 2")])
  run_case("bad-dollar-add", PAIR_LAMMPS_VARS, [], [O("Pair", "Th-O", "as.buck $rho 1 2")])
  run_case("unknown-var-add", PAIR_LAMMPS_VARS, [], [O("Pair", "Th-O", "as.buck ${nope} 1 2")])
  run_case("empty-value-ovr", PAIR_LAMMPS_VARS, [O("Pair", "O-O", "")])
  run_case("int-value-ovr", PAIR_LAMMPS_VARS, [O("Pair", "O-O", 5)])
  run_case("int-value-add", PAIR_LAMMPS_VARS, [], [O("Pair", "Th-O", 5)])
  run_case("none-value-add", PAIR_LAMMPS_VARS, [], [O("Pair", "Th-O", None)])
  run_case("int-key-ovr", PAIR_LAMMPS_VARS, [O("Pair", 5, "as.zero")])
  run_case("int-key-add", PAIR_LAMMPS_VARS, [], [O("Pair", 5, "as.zero")])
  run_case("int-section-add", PAIR_LAMMPS_VARS, [], [O(5, "a", "as.zero")])
  run_case("list-section-add", PAIR_LAMMPS_VARS, [], [O(["x"], "a", "as.zero")])
  run_case("list-section-ovr", PAIR_LAMMPS_VARS, [O(["x"], "a", "as.zero")])
  run_case("plain-tuple-ovr", PAIR_LAMMPS_VARS, [("Pair", "O-O", "as.zero")])
  run_case("plain-tuple-add", PAIR_LAMMPS_VARS, [], [("Pair", "Th-O", "as.zero")])
  run_case("bad-pair-key-add", PAIR_LAMMPS_VARS, [], [O("Pair", "Th-O-X", "as.zero")])
  run_case("bad-pair-key-add-after-dup", PAIR_LAMMPS_VARS, [], [O("Pair", "O-Ce", "as.zero"), O("Pair", "Th", "as.zero")])
  run_case("bad-pair-key-add-before-dup", PAIR_LAMMPS_VARS, [], [O("Pair", "Th", "as.zero"), O("Pair", "O-Ce", "as.zero")])

  # generators as inputs are consumed lazily one after the other
  def gen(items, log, name):
    for i in items:
      log.append(name)
      yield i
  log = []
  try:
    ConfigParser(io.StringIO(PAIR_DLPOLY), overrides=gen([O("Pair", "O-O", None), O("Pair", "X-X", None)], log, "o"),
                 additional=gen([O("Pair", "Z-Z", "as.zero")], log, "a"))
  except Exception as e:
    emit("generator-inputs", exc_repr(e), log)
  log = []
  cp = ConfigParser(io.StringIO(PAIR_DLPOLY), overrides=gen([O("Pair", "O-O", None)], log, "o"),
               additional=gen([O("Pair", "Z-Z", "as.zero"), O("Pair", "O-O", "as.zero")], log, "a"))
  emit("generator-inputs-ok", dump(cp), log)

  # file level problems
  run_case("file-dup-option", PAIR_DLPOLY + u"O - O = as.zero\n", [O("Pair", "O-O", None)])
  run_case("file-dup-section", PAIR_DLPOLY + u"[Pair]\nTh-Th = as.zero\n")
  run_case("file-garbage", u"this is not a config\n")
  run_case("file-reversed-pair", PAIR_DLPOLY + u"U-O = as.zero\n")
  run_case("file-reversed-pair-removed", PAIR_DLPOLY + u"U-O = as.zero\n", [O("Pair", "O-U", None)], do_tabulate=True)
  run_case("file-dup-table-form", PAIR_GULP_TABLE + u"[Table-Form: tabbed]\nxy : 0 1 1 0\n")
  run_case("file-dup-table-form-removed", PAIR_GULP_TABLE + u"[Table-Form: tabbed]\nxy : 0 1 1 0\n", [O("Table-Form: tabbed", "xy", None)], do_tabulate=True)

# ---------------------------------------------------------------------------
# 2. potable style command line handling (string splitting, last-one-wins merging of -e / -r)
# ---------------------------------------------------------------------------
def cli_cases():
  run_cli_case("cli-none", PAIR_DLPOLY, None, None, None)
  run_cli_case("cli-ovr", PAIR_DLPOLY, [["Pair:O-O=as.zero"], ["Tabulation:nr=101", "Tabulation:target=LAMMPS"]], None, None)
  run_cli_case("cli-remove-add", PAIR_DLPOLY, None, [["Pair:U-O=as.buck 5.0 0.3 0.0"]], [["Pair:O-U"]])
  run_cli_case("cli-ovr-then-remove-same", PAIR_DLPOLY, [["Pair:O-U=as.zero"]], None, [["Pair:O-U"]])
  run_cli_case("cli-ovr-and-remove-spellings", PAIR_DLPOLY, [["Pair:O-U=as.zero"]], None, [["Pair:O - U"]])
  run_cli_case("cli-remove-then-ovr-spellings", PAIR_DLPOLY, [["Pair: O-U=as.zero"]], [["Pair:O-U =as.buck 1.0 0.2 0.0"]], [["Pair:O-U"]])
  run_cli_case("cli-table-form", PAIR_GULP_TABLE, [["Table-Form:tabbed:xy=0.0 5.0 1.5 2.0 3.0 0.0"]], [["Table-Form:extra:xy=0 1 3 0", "Pair:Si-Si=extra"]], None)
  run_cli_case("cli-empty-section", PAIR_LAMMPS_VARS, [[":rho=0.5"]], None, None)
  run_cli_case("cli-empty-section-remove", PAIR_LAMMPS_VARS, None, None, [[":rho"]])
  run_cli_case("cli-empty-section-add", PAIR_LAMMPS_VARS, None, [[":new=0.5"]], None)
  run_cli_case("cli-setfl-order", EAM_SETFL, None, [["Pair:A-B=as.polynomial 0 7"]], [["Pair:B-A"]])
  run_cli_case("cli-setfl-species-order", EAM_SETFL, None, [["EAM-Embed:A=as.polynomial 0 9", "EAM-Density:A=as.polynomial 0 8"]], [["EAM-Embed:A", "EAM-Density:A"]])
  run_cli_case("cli-setfl-remove-section", EAM_SETFL, None, None, [["EAM-Embed:A", "EAM-Embed:B"]])
  run_cli_case("cli-malformed", PAIR_DLPOLY, [["Pair"]], None, None)

# ---------------------------------------------------------------------------
# 3. Random edit sequences over several models
# ---------------------------------------------------------------------------
SPELLINGS = [lambda k: k, lambda k: " " + k, lambda k: k.replace("-", " - "), lambda k: k.replace("-", "\t-"), lambda k: k + "  "]
NEW_KEYS = ["Th-O", "O-Th", "U-O", "Ce-Gd", "eC-dG", "Gd-Gd", "A-B", "Si-Si", "O-Si", "rho", "x", "A", "B", "xy", "interpolation", "Zr-Zr-O"]
VALUES = ["as.zero", "as.buck 1000.0 0.3 0.0", "as.polynomial 0 1", "1.0", "", "tabbed", "0 1 2 0.5 3.0 0.0"]
NEW_SECTIONS = ["Species", "Junk", "Table-Form:tabbed", "Table-Form: tabbed", "Table-Form:new", "Variables", "", "EAM-Embed", "Pair"]

def existing_items(text):
  cp = ConfigParser(io.StringIO(text))
  raw = cp.raw_config_parser
  items = [("Variables", k) for k in raw.defaults()]
  for s in raw.sections():
    items.extend((s, k) for k in raw.options(s))
  return items

def _norm(k):
  return k.replace(" ", "").replace("\t", "")

def random_sequences(n=300, seed=20240611):
  rng = random.Random(seed)
  for i in range(n):
    name, text = MODELS[i % len(MODELS)]
    # rough simulation of which items are present, only used to steer the random choices
    present = list(existing_items(text))
    removed = []
    overrides = []
    for _j in range(rng.randint(0, 5)):
      if present and rng.random() < 0.93:
        s, k = rng.choice(present)
      elif removed and rng.random() < 0.5:
        s, k = rng.choice(removed)
      else:
        s, k = rng.choice(NEW_SECTIONS), rng.choice(NEW_KEYS)
      v = None if rng.random() < 0.6 else rng.choice(VALUES)
      if v is None and (s, k) in present:
        present.remove((s, k))
        removed.append((s, k))
      overrides.append(O(s, rng.choice(SPELLINGS)(k), v))
    additional = []
    for _j in range(rng.randint(0, 5)):
      r = rng.random()
      if r < 0.5 and removed:
        s, k = rng.choice(removed)
      elif r < 0.57 and present:
        s, k = rng.choice(present)
      else:
        s, k = rng.choice(NEW_SECTIONS + [it[0] for it in present]), rng.choice(NEW_KEYS)
      if (s, k) in removed:
        removed.remove((s, k))
      if (s, k) not in present:
        present.append((s, k))
      elif rng.random() < 0.8:
        continue
      additional.append(O(s, rng.choice(SPELLINGS)(k), rng.choice(VALUES)))
    run_case("rand-{}-{}".format(i, name), text, overrides, additional, do_tabulate=(i % 3 == 0))

# ---------------------------------------------------------------------------
# 4. Existence detection corner cases
# ---------------------------------------------------------------------------
class Item(object):
  """Duck typed override: only has the three attributes"""
  def __init__(self, section, key, value):
    self.section = section
    self.key = key
    self.value = value

class NoValue(object):
  def __init__(self, section, key):
    self.section = section
    self.key = key

def existence_cases():
  sections = ["Pair", " Pair", "Pa ir", "pair", "Variables", "Variables ", "variables", "", None, 0, "DEFAULT", "Tabulation", "Nope", "Table-Form:tabbed", "Table-Form: tabbed"]
  keys = ["O-O", " O - O ", "O\t-O", "o-o", "rho", " r h o", "RHO", "target", "xy", "", " ", "nr", "Si-O", "O-Si"]
  n = 0
  for name, text in MODELS[1:3]:
    for sec, key in itertools.product(sections, keys):
      n += 1
      run_case("exist-ovr-{}-{}".format(name, n), text, [O(sec, key, "as.zero")])
      run_case("exist-rem-{}-{}".format(name, n), text, [O(sec, key, None)])
      run_case("exist-add-{}-{}".format(name, n), text, [], [O(sec, key, "as.zero")])
      if n % 5 == 0:
        run_case("exist-rem-add-{}-{}".format(name, n), text, [O(sec, key, None)], [O(sec, key, "as.zero"), O(sec, key, "as.zero")])

  # whitespace spellings of a section share one proxy: repeated additions do not see each other
  run_case("proxy-repeat-add", PAIR_DLPOLY, [], [O("Pa ir", "Th-O", "as.zero"), O("Pair", "Zr-O", "as.zero"), O("Pair", "Zr-O", "as.buck 1 2 3"), O("Pa ir", "Zr-O", "as.zero")])
  run_case("proxy-repeat-add-2", PAIR_DLPOLY, [], [O("Pa ir", "Th-O", "as.zero"), O("Pair", "Zr-O", "as.zero"), O("Pair", "O-O", "as.buck 1 2 3")])
  run_case("proxy-remove-other", PAIR_DLPOLY + u"[ Pair]\nTh-O = as.zero\n", [O("Pair", "O-O", None), O("Pair", "U-U", None), O("Pair", "O-U", None)])
  run_case("proxy-remove-other-2", PAIR_DLPOLY + u"[ Pair]\nTh-O = as.zero\n", [O(" Pair", "Th-O", None)], [O("Pair", "Th-O", "as.zero")])
  run_case("proxy-remove-other-3", PAIR_DLPOLY + u"[ Pair]\nTh-O = as.zero\n", [O(" Pair", "Th-O", None), O("Pair", "O-O", "as.zero")])
  run_case("proxy-ovr-other", PAIR_DLPOLY + u"[ Pair]\nTh-O = as.zero\nO-O = as.zero\n", [O("Pair", "O-O", "as.buck 9 9 9"), O("Pair", "U-U", "as.buck 8 8 8")])
  run_case("section-removed-then-recreated", EAM_SETFL, [O("EAM-Embed", "A", None), O("EAM-Embed", "B", None)], [O("EAM-Embed", "B", "as.zero"), O("EAM-Embed", "A", "as.polynomial 0 1")], do_tabulate=True)
  run_case("section-removed-then-ovr", EAM_SETFL, [O("EAM-Embed", "A", None), O("EAM-Embed", "B", None), O("EAM-Embed", "B", "as.zero")])
  run_case("variables-emptied-then-ovr", PAIR_LAMMPS_VARS, [O("Variables", "rho", None), O("Variables", "A_OO", None), O("Variables", "rho", "1.0")])
  run_case("variables-emptied-then-add", PAIR_LAMMPS_VARS, [O("Variables", "rho", None), O("Variables", "A_OO", None)], [O("Variables", "rho", "0.2"), O("", "A_OO", "5.0"), O("Variables", " rho", "0.2")], do_tabulate=True)
  run_case("add-section-named-like-default", PAIR_DLPOLY, [], [O("Variables", "a", "1"), O("Variables ", "b", "2"), O("Variables", "b", "3"), O("Variables", "b", "4")])

  # duck typed and defective items
  run_case("duck-items", PAIR_DLPOLY, [Item("Pair", "O-O", None)], [Item("Pair", "O-O", "as.zero"), Item("New", "k", "v")], do_tabulate=True)
  run_case("novalue-ovr-found", PAIR_DLPOLY, [NoValue("Pair", "O-O")])
  run_case("novalue-ovr-missing", PAIR_DLPOLY, [NoValue("Pair", "Th-O")])
  run_case("novalue-add-found", PAIR_DLPOLY, [], [NoValue("Pair", "O-O")])
  run_case("novalue-add-missing", PAIR_DLPOLY, [], [NoValue("Pair", "Th-O")])
  run_case("short-tuple-ovr", PAIR_DLPOLY, [("Pair", "O-O")])
  run_case("none-item-add", PAIR_DLPOLY, [], [None])

  # inputs that are not lists
  for n, (ov, ad) in enumerate([
      ([O("Pair", "Th-O", None)], None), (None, [O("Pair", "Th-O", "as.zero")]), ([O("Pair", "O-O", None)], None), ((), ()),
      ((O("Pair", "O-O", None),), (O("Pair", "O-O", "as.zero"),)), ([O("Pair", "Th-O", None)], 5), (5, None)]):
    try:
      cp = ConfigParser(io.StringIO(PAIR_DLPOLY), overrides=ov, additional=ad)
      emit("nonlist-{}".format(n), dump(cp))
    except Exception as e:
      emit("nonlist-{}".format(n), exc_repr(e))
  # the same one-shot iterator given for both
  it = iter([O("Pair", "O-O", None), O("Pair", "O-O", "as.zero")])
  try:
    cp = ConfigParser(io.StringIO(PAIR_DLPOLY), overrides=it, additional=it)
    emit("shared-iterator", dump(cp))
  except Exception as e:
    emit("shared-iterator", exc_repr(e))
  # default arguments
  emit("defaults-call", dump(ConfigParser(io.StringIO(PAIR_DLPOLY))))
  emit("defaults-call-2", dump(ConfigParser(io.StringIO(PAIR_DLPOLY), [O("Pair", "O-O", None)])))

def main():
  hand_written()
  existence_cases()
  cli_cases()
  random_sequences()
  blob = "\n".join(OUT)
  if "--dump" in sys.argv:
    sys.stdout.write(blob + "\n")
  ok = sum(1 for l in OUT if " | EXC " not in l)
  print("records={} without-exception={}".format(len(OUT), ok))
  print("sha256=" + hashlib.sha256(blob.encode("utf-8")).hexdigest())

main()

"""Differential script for twin B (plotToFile / plot / plotPotentialObject(ToFile) in atsim.potentials)."""
import hashlib, io, math, os, shutil, sys, tempfile
import numpy
import atsim.potentials as P
from atsim.potentials import Potential, TableReader, potentialforms as pf

out = []
def rec(tag, thunk):
  try:
    out.append("%s => %r" % (tag, thunk()))
  except BaseException as e:
    out.append("%s !! %s" % (tag, type(e).__name__))

class Sink(object):
  """File like object recording each write call separately"""
  def __init__(self, failat=None):
    self.chunks = []
    self.failat = failat
  def write(self, s):
    if self.failat is not None and len(self.chunks) == self.failat:
      raise IOError("disk full")
    self.chunks.append(s)

class Tracer(object):
  def __init__(self, f, log):
    self.f = f; self.log = log
  def __call__(self, r):
    self.log.append(("call", r))
    return self.f(r)

def boom_at(n):
  state = [0]
  def f(r):
    state[0] += 1
    if state[0] > n:
      raise OverflowError("boom")
    return r * r
  return f

tmpdir = tempfile.mkdtemp()
RES = os.path.join("tests", "lammps_resources")
with open(os.path.join(RES, "setfl_AlAlPair.table")) as fh:
  table = TableReader(fh)

FUNCS = [
 ("buck", pf.buck(1388.773, 0.3623, 175.0)),
 ("morse", pf.morse(1.5, 2.0, 0.3)),
 ("plus", P.plus(pf.buck(1000.0, 0.3, 32.0), pf.hbnd(10.0, 5.0))),
 ("int", lambda r: 3),
 ("str", lambda r: "s%r" % r),
 ("none", lambda r: None),
 ("np", lambda r: numpy.float64(r) / 3.0),
 ("np32", lambda r: numpy.float32(r)),
 ("sin", math.sin),
 ("table", table),
 ("complex", lambda r: complex(r, -r)),
]
RANGES = [
 (0.1, 10.0, 7), (1, 10, 9), (0, 1, 3), (-2.5, 2.5, 10), (5.0, 1.0, 4), (1.0, 1.0, 2),
 (0.1, 12.0, 1), (1e-8, 1e8, 13), (numpy.float64(0.5), 3, 6), (0.3, 6.5, 101),
]
for fname, f in FUNCS:
  for lo, hi, n in RANGES:
    def run():
      s = Sink()
      r = P.plotToFile(s, lo, hi, f, n)
      return r, s.chunks
    rec("plotToFile:%s:%r:%r:%r" % (fname, lo, hi, n), run)

def default_steps():
  s = io.StringIO()
  P.plotToFile(s, 0.5, 8.0, pf.buck(1388.773, 0.3623, 175.0))
  v = s.getvalue()
  return v.count("\n"), hashlib.sha256(v.encode()).hexdigest()
rec("default_steps", default_steps)

# odd / malformed arguments
for tag, args in [
  ("steps0", (0.0, 1.0, math.sin, 0)), ("stepsneg", (0.0, 1.0, math.sin, -3)),
  ("stepsfloat", (0.0, 1.0, math.sin, 4.0)), ("stepsstr", (0.0, 1.0, math.sin, "4")),
  ("stepsbadstr", (0.0, 1.0, math.sin, "x")), ("stepsnone", (0.0, 1.0, math.sin, None)),
  ("stepsbool", (0.0, 1.0, math.sin, True)),
  ("lostr", ("0", 1.0, math.sin, 3)), ("hinone", (0.0, None, math.sin, 3)),
  ("funcnone", (0.0, 1.0, None, 3)), ("funcnone0", (0.0, 1.0, None, 0)),
  ("domain", (-1.0, 1.0, math.sqrt, 4)), ("zerodiv", (0.0, 1.0, lambda r: 1.0 / r, 4)),
  ("complexx", (0j, 1.0, lambda r: r, 3)),
]:
  def run():
    s = Sink()
    try:
      return P.plotToFile(s, *args), s.chunks
    except Exception as e:
      return "raised " + type(e).__name__, s.chunks
  rec("odd:" + tag, run)

# interleaving of func calls and writes; failure part-way through
def interleave(fileobj, func, steps, lo=1.0, hi=2.0):
  log = []
  class LogSink(object):
    def write(self, s):
      log.append(("write", s))
      return fileobj.write(s)
  try:
    P.plotToFile(LogSink() if fileobj is not None else None, lo, hi, Tracer(func, log), steps)
    status = "ok"
  except Exception as e:
    status = type(e).__name__
  return status, log
rec("interleave:ok", lambda: interleave(Sink(), math.exp, 4))
rec("interleave:funcboom", lambda: interleave(Sink(), boom_at(3), 6))
rec("interleave:writeboom", lambda: interleave(Sink(failat=2), math.exp, 6))
rec("interleave:nofile", lambda: interleave(None, math.exp, 3))
rec("interleave:nofile0", lambda: interleave(None, math.exp, 0))
rec("nowrite_attr", lambda: P.plotToFile(object(), 0.0, 1.0, math.sin, 2))
rec("nowrite_attr0", lambda: P.plotToFile(object(), 0.0, 1.0, math.sin, 0))
rec("closedfile", lambda: (lambda f: (f.close(), P.plotToFile(f, 0.0, 1.0, math.sin, 2)))(io.StringIO()))

# plot() / plotPotentialObject() to real files
def readback(name):
  p = os.path.join(tmpdir, name)
  if not os.path.exists(p):
    return "<missing>"
  with open(p, "rb") as f:
    return f.read()

def fileplot(tag, fn, name, *args):
  def run():
    p = os.path.join(tmpdir, name)
    try:
      r = fn(p, *args)
    except Exception as e:
      r = "raised " + type(e).__name__
    return r, readback(name)
  rec(tag, run)

pots = [
 ("OU", Potential("O", "U", pf.buck(1761.775, 0.35642, 0.0))),
 ("AlAl", Potential("Al", "Al", table)),
 ("bks", Potential("Si", "O", P.plus(pf.buck(18003.7572, 1.0 / 4.87318, 133.5381), pf.coul(2.4, -1.2)))),
]
for i, (fname, f) in enumerate(FUNCS):
  fileplot("plot:" + fname, P.plot, "plot%d.dat" % i, 0.2, 7.0, f, 11)
fileplot("plot:steps0", P.plot, "plot_s0.dat", 0.2, 7.0, math.sin, 0)
fileplot("plot:boom", P.plot, "plot_boom.dat", 0.2, 7.0, boom_at(2), 5)
fileplot("plot:baddir", P.plot, os.path.join("nodir", "x.dat"), 0.2, 7.0, math.sin, 5)
fileplot("plot:overwrite", P.plot, "plot0.dat", 1.0, 2.0, math.sin, 2)
for name, pot in pots:
  for lo, hi, n in [(0.5, 6.0, 12), (1, 3, 5), (0.0, 2.0, 4)]:
    fileplot("ppo:%s:%r:%r:%r" % (name, lo, hi, n), P.plotPotentialObject, "ppo_%s_%d.dat" % (name, n), lo, hi, pot, n)
    def run():
      s = Sink()
      try:
        return P.plotPotentialObjectToFile(s, lo, hi, pot, n), s.chunks
      except Exception as e:
        return "raised " + type(e).__name__, s.chunks
    rec("ppotf:%s:%r:%r:%r" % (name, lo, hi, n), run)
fileplot("ppo:steps0", P.plotPotentialObject, "ppo_s0.dat", 0.5, 6.0, pots[0][1], 0)
fileplot("ppo:noenergy", P.plotPotentialObject, "ppo_noen.dat", 0.5, 6.0, object(), 3)
fileplot("ppo:noenergy0", P.plotPotentialObject, "ppo_noen0.dat", 0.5, 6.0, object(), 0)
fileplot("ppo:none", P.plotPotentialObject, "ppo_none.dat", 0.5, 6.0, None, 2)
fileplot("ppo:baddir", P.plotPotentialObject, os.path.join("nodir", "y.dat"), 0.5, 6.0, pots[0][1], 2)
rec("ppotf:noenergy", lambda: P.plotPotentialObjectToFile(Sink(), 0.5, 6.0, object(), 3))
rec("ppotf:noenergy0", lambda: P.plotPotentialObjectToFile(Sink(), 0.5, 6.0, object(), 0))
rec("ppotf:nofile0", lambda: P.plotPotentialObjectToFile(None, 0.5, 6.0, object(), 0))

class LateEnergy(object):
  """energy attribute looked up at each call"""
  def __init__(self):
    self.lookups = 0
  def __getattr__(self, name):
    if name == "energy":
      self.lookups += 1
      n = self.lookups
      return lambda r: r + n
    raise AttributeError(name)
def late():
  o = LateEnergy(); s = Sink()
  P.plotPotentialObjectToFile(s, 0.0, 1.0, o, 4)
  return o.lookups, s.chunks
rec("ppotf:late", late)

# default keyword usage and keyword calling conventions
rec("kw:plotToFile", lambda: (lambda s: (P.plotToFile(fileobj=s, lowx=0.0, highx=1.0, func=math.cos, steps=3), s.chunks))(Sink()))
rec("kw:ppotf", lambda: (lambda s: (P.plotPotentialObjectToFile(fileobj=s, lowx=0.5, highx=1.0, potentialObject=pots[0][1], steps=3), s.chunks))(Sink()))
fileplot("kw:sig", lambda p: P.plot(filename=p, lowx=0.0, highx=1.0, func=math.cos, steps=3), "kw1.dat")
fileplot("kw:sig2", lambda p: P.plotPotentialObject(filename=p, lowx=0.5, highx=1.0, potentialObject=pots[1][1], steps=3), "kw2.dat")
import inspect
for n in ("plotToFile", "plot", "plotPotentialObject", "plotPotentialObjectToFile"):
  rec("sig:" + n, lambda: str(inspect.signature(getattr(P, n))))
rec("TableReader", lambda: ([table(x / 7.0) for x in range(-3, 60)], type(table.datReader).__name__, len(table.datReader)))

shutil.rmtree(tmpdir)
blob = "\n".join(out)
if "-v" in sys.argv: print(blob)
print(len(out), "records; errors:", sum(1 for l in out if " !! " in l))
print("DIGEST", hashlib.sha256(blob.encode()).hexdigest())

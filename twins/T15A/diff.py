"""Differential script for twin A (atsim/potentials/config/_tabulation_factories.py).

Drives Configuration.read() / TABULATION_FACTORIES over varied models and targets,
records every log record (logger name, level, message), produced file contents,
factory return values and exception types/messages and prints a sha256 digest.
"""
import hashlib
import io
import logging
import os
import sys

if os.environ.get("PYTHONHASHSEED") != "0":
  os.environ["PYTHONHASHSEED"] = "0"
  # set iteration order depends on the str hash seed: pin it so that digests are reproducible.
  # (wtpy.py has already chdir()ed into the worktree)
  os.execv(sys.executable, [sys.executable, "-W", "ignore", "/tmp/wtpy.py", os.getcwd(), os.path.abspath(sys.argv[0])] + sys.argv[1:])

from atsim.potentials.config import Configuration, ConfigParser
from atsim.potentials.config import _tabulation_factories as tf
from atsim.potentials.config._potential_form_registry import Potential_Form_Registry
from atsim.potentials.config._modifier_registry import Modifier_Registry

OUT = []

def emit(*args):
  OUT.append(" | ".join(str(a) for a in args))

class Capture(logging.Handler):
  def emit(self, record):
    emit("LOG", record.name, record.levelname, record.getMessage())

root = logging.getLogger()
root.setLevel(logging.DEBUG)
root.handlers[:] = [Capture()]

PAIR = """
[Pair]
O-O = as.buck 1633.010242995040 0.327022 3.948787
U-U = as.buck 294.640906285709 0.327022 0.0
O-U = as.buck 693.648700 0.327022 0.0 >3.0 as.zero
"""

PAIR2 = """
[Pair]
Mg-O = as.buck 3.0 0.2 0.75
Al-O = as.bornmayer 15.0 0.2
O-O = sum(as.buck 1.0 0.2 0.0, as.constant 0.25)
"""

EAM = """
[Species]
A.atomic_mass = 1
A.atomic_number = 1
B.atomic_mass = 2
B.atomic_number = 2

[EAM-Embed]
A = as.polynomial 0 1
B = as.zero

[EAM-Density]
A = as.polynomial 0 2
B = as.polynomial 0 3

[Pair]
A-B = as.buck 100.0 0.3 1.0
B-B = as.polynomial 0 1 0.5
"""

EAM_REAL = """
[Pair]
O-O = as.buck 1.0 0.2 0.0
Ga-O = as.buck 70.0 0.2 0.0
In-O = as.buck 36.0 0.20 0.0

[EAM-Density]
O : density 80000.0

[EAM-Embed]
Ga : as.sqrt -0.15449392139449653
In : as.sqrt -0.010691242237852016

[Potential-Form]
density(r, C) = r/(C^12)
"""

EAM_FS = """
[Pair]
O-O = as.buck 1.0 0.2 0.0
Ga-O = as.buck 70.0 0.2 0.0
In-O = as.buck 36.0 0.20 0.0

[EAM-Density]
Ga->O : density 80000.0
In->O : density 70000.0
O->Ga : as.zero

[EAM-Embed]
Ga : as.sqrt -0.15449392139449653
In : as.sqrt -0.010691242237852016

[Potential-Form]
density(r, C) = r/(C^12)
"""

ADP = """
[EAM-Embed]
Al : as.sqrt -0.5
Cu : as.polynomial 0 0.1 0.2

[EAM-Density]
Al : as.exponential 1.0 -0.5
Cu : as.polynomial 0.0 1.0

[Pair]
Al-Al : as.buck 100.0 0.3 1.0
Cu-Al : as.buck 200.0 0.3 2.0
Cu-Cu : as.buck 300.0 0.3 3.0

[EAM-ADP-Dipole]
Al-Cu : as.polynomial 0.0 0.25
Al-Al : as.zero

[EAM-ADP-Quadrupole]
Al-Cu : as.polynomial 0.0 0.0 0.125
"""

def tab(**kwargs):
  lines = ["[Tabulation]"]
  for k, v in kwargs.items():
    lines.append("{} : {}".format(k, v))
  return "\n".join(lines) + "\n"

CASES = [
  ("pair-lammps", tab(target="LAMMPS", cutoff=6.5, nr=66) + PAIR),
  ("pair-lammps-defaults", tab(target="LAMMPS") + PAIR),
  ("pair-notarget", tab(cutoff=4.0, nr=21) + PAIR2),
  ("pair-nocutoff", tab(target="LAMMPS", nr=11) + PAIR2),
  ("pair-nonr", tab(target="GULP", cutoff=3.0) + PAIR2),
  ("pair-lammps-nr2", tab(target="LAMMPS", cutoff=6.5, nr=2) + PAIR),
  ("pair-dlpoly", tab(target="DLPOLY", cutoff=6.5, nr=68) + PAIR),
  ("pair-dlpoly-bad", tab(target="DLPOLY", cutoff=6.5, nr=66) + PAIR),
  ("pair-dlpoly-4", tab(target="DLPOLY", cutoff=6.5, nr=4) + PAIR),
  ("pair-dlpoly-default", tab(target="DLPOLY") + PAIR2),
  ("pair-gulp", tab(target="GULP", cutoff=5.0, dr=0.25) + PAIR2),
  ("pair-unknown-target", tab(target="NOPE", cutoff=5.0, nr=10) + PAIR2),
  ("pair-bad-form", tab(target="LAMMPS", cutoff=5.0, nr=10) + "[Pair]\nA-B = as.nothing 1 2\n"),
  ("pair-bad-modifier", tab(target="LAMMPS", cutoff=5.0, nr=10) + "[Pair]\nA-B = blah(as.buck 1 2 3)\n"),
  ("eam-setfl", tab(target="setfl", cutoff=5.0, dr=0.5, cutoff_rho=50.0, drho=2.5) + EAM),
  ("eam-setfl-defaults-rho", tab(target="setfl", cutoff=5.0, nr=12) + EAM),
  ("eam-setfl-defaults-all", tab(target="setfl") + EAM),
  ("eam-setfl-nonrho", tab(target="setfl", cutoff=5.0, nr=12, cutoff_rho=20.0) + EAM),
  ("eam-setfl-nocutoffrho", tab(target="DL_POLY_EAM", cutoff=5.0, nr=12, nrho=15) + EAM),
  ("eam-real", tab(target="setfl", cutoff=10.0, nr=20, cutoff_rho=0.01, nrho=25) + EAM_REAL),
  ("eam-tabeam", tab(target="DL_POLY_EAM", cutoff=10.0, nr=20, cutoff_rho=0.01, nrho=25) + EAM_REAL),
  ("eam-fs", tab(target="setfl_fs", cutoff=10.0, nr=20, cutoff_rho=0.01, nrho=25) + EAM_FS),
  ("eam-fs-default", tab(target="setfl_fs", nr=14) + EAM_FS),
  ("eam-tabeam-fs", tab(target="DL_POLY_EAM_fs", cutoff=10.0, nr=20, cutoff_rho=0.01, nrho=25) + EAM_FS),
  ("eam-fs-as-std", tab(target="setfl", cutoff=10.0, nr=20, cutoff_rho=0.01, nrho=25) + EAM_FS),
  ("eam-std-as-fs", tab(target="setfl_fs", cutoff=10.0, nr=20, cutoff_rho=0.01, nrho=25) + EAM_REAL),
  ("eam-missing-mass", tab(target="setfl", cutoff=5.0, nr=12).replace("[Tabulation]", "[Tabulation]") + EAM.replace("B.atomic_mass = 2\n", "")),
  ("adp", tab(target="eam_adp", cutoff=6.0, nr=16, cutoff_rho=3.0, nrho=11) + ADP),
  ("adp-defaults", tab(target="eam_adp", nr=16, nrho=11) + ADP),
  ("adp-as-setfl", tab(target="setfl", cutoff=6.0, nr=16, cutoff_rho=3.0, nrho=11) + ADP),
]

def run_case(label, text):
  emit("CASE", label)
  try:
    tabulation = Configuration().read(io.StringIO(text))
  except Exception as e:
    emit("EXC", type(e).__name__, e)
    return
  emit("TABTYPE", type(tabulation).__name__)
  buf = io.StringIO()
  try:
    tabulation.write(buf)
  except Exception as e:
    emit("WRITE-EXC", type(e).__name__, e)
  data = buf.getvalue()
  emit("OUTPUT", len(data), hashlib.sha256(data.encode("utf-8")).hexdigest())

for label, text in CASES:
  run_case(label, text)

# Drive the factory methods directly.
for label, text in CASES:
  emit("FACTORY", label)
  try:
    cp = ConfigParser(io.StringIO(text))
    target = cp.tabulation.target or "LAMMPS"
    factory = tf.TABULATION_FACTORIES.get(target)
    if factory is None:
      emit("NOFACTORY")
      continue
    emit("ATTRS", factory.tabulation_target, factory.tabulation_class.__name__, factory.tabulation_type, type(factory).__name__)
    cut = factory.extract_cutoffs(cp)
    emit("CUTOFFS", type(cut).__name__, repr(cut), tuple(cut))
    pfr = Potential_Form_Registry(cp, register_standard = True, register_pymath_functions = True)
    mr = Modifier_Registry()
    pots = factory.extract_potential_objects(cp, pfr, mr)
    emit("POTS", [(type(p).__name__, p.speciesA, p.speciesB, repr(p.energy(1.5))) for p in pots])
    factory._log_tabulation_details(cut, pots)
    args = factory.extract_tabulation_args(cp, cut, pots, pfr, mr)
    emit("ARGS", len(args), [type(a).__name__ for a in args], [a for a in args if isinstance(a, (int, float))])
    if len(args) > 3:
      emit("EAMSPECIES", [(e.species, e.atomicNumber, e.mass, e.latticeConstant, e.latticeType, type(e.electronDensityFunction).__name__) for e in args[1]])
    if hasattr(factory, "extract_dipoles"):
      emit("DIPOLES", [(p.speciesA, p.speciesB) for p in factory.extract_dipoles(cp, pfr, mr)])
      emit("QUADRUPOLES", [(p.speciesA, p.speciesB) for p in factory.extract_quadrupoles(cp, pfr, mr)])
  except Exception as e:
    emit("EXC", type(e).__name__, e)

emit("KEYS", sorted(tf.TABULATION_FACTORIES.keys()))
emit("TUPLES", tf.RCutoffTuple._fields, tf.R_Rho_CutoffTuple._fields)

text = "\n".join(OUT)
if "-v" in sys.argv or os.environ.get("TWIN_VERBOSE"):
  print(text)
print("lines", len(OUT))
print("digest", hashlib.sha256(text.encode("utf-8")).hexdigest())

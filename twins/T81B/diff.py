"""Differential script for twin B (docs/reference editorial maintenance).

Run from the worktree root (the /tmp/wtpy.py wrapper chdirs there):

    /venv/bin/python -W ignore /tmp/wtpy.py /tmp/wt_r8_1 _twins/diffB.py [-v]

Prints a deterministic digest made of two independent parts:

  PACKAGE : behaviour of the atsim.potentials package through its public API
            (registries, tabulations of several models for several targets,
            every runnable example found in the reference documentation,
            malformed inputs -> exception type names, potable CLI queries).
  DOCS    : facts extracted from docs/reference by a small, independent
            reStructuredText reader written here (no docutils available):
            potential forms with their signature lines / parameter orders /
            features / formulas, modifiers and spline types, tabulation
            fields and formats, valid targets, interpolation types, pymath
            function list, command line options, literal examples, resolved
            cross references of the whole documentation tree, section tree
            and the per-section word stream.

The reader is insensitive to exactly the things editorial maintenance may
change: line wrapping, heading adornment characters, list marker style
(bullet / definition list), label names (references are resolved to the title
of the section they point at), files pulled in through ``.. include::``, order
of the comma separated ``Valid Options`` and the prose typos listed in TYPOS.
"""
import hashlib
import io
import json
import logging
import os
import re
import sys

TWIN = "B"

# Prose typos that a twin is allowed to fix.  The map is applied to the word
# stream of BOTH trees, so that the stream is identical before and after.
TYPOS = {
    "disprsion": "dispersion",
    "paair": "pair",
    "thiese": "these",
    "cental": "central",
}

WT = os.getcwd()
DOCS = os.path.join(WT, "docs")
REF = os.path.join(DOCS, "reference")

VERBOSE = "-v" in sys.argv[1:]


def sha(obj):
    if not isinstance(obj, (bytes, str)):
        obj = json.dumps(obj, sort_keys=True, ensure_ascii=True)
    if isinstance(obj, str):
        obj = obj.encode("utf-8")
    return hashlib.sha256(obj).hexdigest()


###############################################################################
# Part 1: a small reStructuredText reader
###############################################################################

PUNCT = set("=-~+*#^\"'`:.<>_")
INCLUDE_RE = re.compile(r"^(\s*)\.\.\s+include\s*::\s*(\S+)\s*$")
LABEL_RE = re.compile(r"^\.\.\s+_([^:`]+):\s*$")
FIELD_RE = re.compile(r"^(\s*):([A-Za-z][^:`]*):(?:\s+(.*))?$")
DIRECTIVE_RE = re.compile(r"^(\s*)\.\.\s+([A-Za-z][\w-]*)\s*::\s*(.*)$")
MARKER_RE = re.compile(r"^(\s*)(?:[*+\-]|#\.|\d+\.)\s+")
REF_RE = re.compile(r":ref:`([^`]+)`", re.S)


def read_lines(path, stack=()):
    """Lines of `path` with ``.. include::`` directives expanded in place."""
    path = os.path.normpath(path)
    if path in stack:
        raise RuntimeError("recursive include " + path)
    with io.open(path, encoding="utf-8") as infile:
        raw = infile.read().split("\n")
    out = []
    for line in raw:
        m = INCLUDE_RE.match(line)
        if m:
            inc = os.path.join(os.path.dirname(path), m.group(2))
            for l in read_lines(inc, stack + (path,)):
                out.append((m.group(1) + l) if l.strip() else l)
        else:
            out.append(line.rstrip())
    return out if stack else strip_comments(out)


COMMENT_RE = re.compile(r"^(\s*)\.\.(?:\s+(?![A-Za-z][\w-]*\s*::)(?!_)(?!\[)(?!\|)\S.*)?$")


def strip_comments(lines):
    """Remove reST comments (``.. text`` that is neither a directive, a target,
    a footnote / citation nor a substitution) together with their indented
    continuation lines: comments are not part of what is documented."""
    out = []
    i = 0
    while i < len(lines):
        m = COMMENT_RE.match(lines[i])
        if not m:
            out.append(lines[i])
            i += 1
            continue
        base = indent_of(lines[i])
        i += 1
        while i < len(lines) and (
                (lines[i].strip() and indent_of(lines[i]) > base)
                or (not lines[i].strip() and i + 1 < len(lines) and lines[i + 1].strip()
                    and indent_of(lines[i + 1]) > base)):
            i += 1
    return out


def indent_of(line):
    return len(line.expandtabs(8)) - len(line.expandtabs(8).lstrip())


def is_adornment(line):
    s = line.rstrip()
    return len(s) >= 1 and s[0] in PUNCT and s == s[0] * len(s) and not line[:1].isspace()


def toctree_entries(lines):
    entries = []
    i = 0
    while i < len(lines):
        m = DIRECTIVE_RE.match(lines[i])
        if m and m.group(2) == "toctree":
            base = indent_of(lines[i])
            i += 1
            while i < len(lines) and (not lines[i].strip() or indent_of(lines[i]) > base):
                s = lines[i].strip()
                if s and not s.startswith(":"):
                    mm = re.match(r"^.*<(.+)>$", s)
                    entries.append(mm.group(1) if mm else s)
                i += 1
        else:
            i += 1
    return entries


def reachable_documents(root):
    """Documents reachable from `root` through toctree directives."""
    seen = []

    def visit(path):
        path = os.path.normpath(path)
        if path in seen or not os.path.isfile(path):
            return
        seen.append(path)
        for e in toctree_entries(read_lines(path)):
            visit(os.path.join(os.path.dirname(path), e + ".rst"))
    visit(root)
    return seen


class Section(object):
    def __init__(self, title, level, parent, labels):
        self.title = title
        self.level = level
        self.parent = parent
        self.labels = labels
        self.body = []

    @property
    def path(self):
        bits = []
        s = self
        while s is not None and s.title is not None:
            bits.append(s.title)
            s = s.parent
        return " / ".join(reversed(bits))


def split_sections(lines):
    """Return the list of sections (document order) of an expanded document."""
    root = Section(None, 0, None, [])
    sections = [root]
    styles = []
    current = root
    pending_labels = []
    i = 0
    n = len(lines)

    def blank_before(j):
        return j == 0 or not lines[j - 1].strip() or LABEL_RE.match(lines[j - 1])

    while i < n:
        line = lines[i]
        title = style = None
        if (is_adornment(line) and len(line) >= 3 and i + 2 < n and lines[i + 1].strip()
                and not is_adornment(lines[i + 1]) and is_adornment(lines[i + 2])
                and lines[i + 2][0] == line[0] and blank_before(i)):
            title, style, used = lines[i + 1].strip(), (line[0], True), 3
        elif (line.strip() and not line[:1].isspace() and not is_adornment(line)
              and not line.startswith("..") and i + 1 < n and is_adornment(lines[i + 1])
              and len(lines[i + 1]) >= len(line) and blank_before(i)):
            title, style, used = line.strip(), (lines[i + 1][0], False), 2
        if title is not None:
            if style not in styles:
                styles.append(style)
            level = styles.index(style) + 1
            parent = current
            while parent.level >= level:
                parent = parent.parent
            current = Section(title, level, parent, pending_labels)
            pending_labels = []
            sections.append(current)
            i += used
            continue
        m = LABEL_RE.match(line)
        if m:
            pending_labels.append(m.group(1).strip())
            i += 1
            continue
        if line.strip() and pending_labels:
            # label that points at something other than a section title
            # (an option directive, a paragraph ...): belongs to the section.
            current.body.append("@anchor")
            current.anchors = getattr(current, "anchors", []) + pending_labels
            pending_labels = []
        current.body.append(line)
        i += 1
    return sections


def collapse(text):
    return " ".join(text.split())


def fields_of(body):
    """Field list entries [(name, value)] of a section body (value collapsed)."""
    out = []
    i = 0
    while i < len(body):
        m = FIELD_RE.match(body[i])
        if not m:
            i += 1
            continue
        base = indent_of(body[i])
        chunks = [m.group(3) or ""]
        j = i + 1
        while j < len(body):
            if body[j].strip():
                if indent_of(body[j]) > base and not FIELD_RE.match(body[j]):
                    chunks.append(body[j].strip())
                    j += 1
                    continue
                break
            # blank: continue only if the next non blank line is still indented
            k = j
            while k < len(body) and not body[k].strip():
                k += 1
            if k < len(body) and indent_of(body[k]) > base and not FIELD_RE.match(body[k]):
                j = k
                continue
            break
        out.append((collapse(m.group(2)), collapse(" ".join(chunks))))
        i = j
    return out


def directive_blocks(body, name):
    """[(argument, collapsed content)] for every ``.. name::`` directive."""
    out = []
    i = 0
    while i < len(body):
        m = DIRECTIVE_RE.match(body[i])
        if m and m.group(2) == name:
            base = indent_of(body[i])
            j = i + 1
            content = []
            while j < len(body) and (not body[j].strip() or indent_of(body[j]) > base):
                content.append(body[j])
                j += 1
            out.append((collapse(m.group(3)), collapse(" ".join(content))))
            i = j
        else:
            i += 1
    return out


def literal_blocks(body):
    """Literal blocks (introduced by '::'), dedented, as tuples of lines."""
    out = []
    i = 0
    while i < len(body):
        line = body[i]
        if line.rstrip().endswith("::") and not DIRECTIVE_RE.match(line):
            base = indent_of(line) if line.strip() != "::" else indent_of(line)
            j = i + 1
            block = []
            while j < len(body) and (not body[j].strip() or indent_of(body[j]) > base):
                block.append(body[j].expandtabs(8))
                j += 1
            while block and not block[0].strip():
                block.pop(0)
            while block and not block[-1].strip():
                block.pop()
            if block:
                ind = min(indent_of(b) for b in block if b.strip())
                out.append(tuple(b[ind:] if b.strip() else "" for b in block))
            i = j
        else:
            i += 1
    return out


class Docs(object):
    """All the documents of the documentation tree and their labels."""

    def __init__(self):
        self.documents = {}          # relative path -> [Section]
        self.labels = {}             # label -> resolved description
        for dirpath, _dirs, files in sorted(os.walk(DOCS)):
            for f in sorted(files):
                if f.endswith(".rst"):
                    p = os.path.join(dirpath, f)
                    rel = os.path.relpath(p, DOCS)
                    self.documents[rel] = split_sections(read_lines(p))
        for rel, sections in self.documents.items():
            for s in sections:
                for l in s.labels:
                    self._add_label(l, "section:" + s.path)
                for l in getattr(s, "anchors", []):
                    self._add_label(l, "anchor-in:" + s.path)

    def _add_label(self, label, what):
        label = label.lower()
        if label in self.labels:
            what = "DUPLICATE"
        self.labels[label] = what

    def resolve(self, label):
        return self.labels.get(collapse(label).lower(), "UNRESOLVED:" + collapse(label))

    def resolve_refs(self, text):
        def repl(m):
            inner = m.group(1)
            mm = re.match(r"^(.*?)\s*<([^<>]+)>\s*$", inner, re.S)
            if mm:
                return ":ref:`%s <@%s>`" % (collapse(mm.group(1)), self.resolve(mm.group(2)))
            return ":ref:`@%s`" % self.resolve(inner)
        return REF_RE.sub(repl, text)

    def words(self, body):
        """Normalised word stream of a section body."""
        lines = []
        for line in body:
            if line == "@anchor":
                continue
            while True:
                m = MARKER_RE.match(line)
                if not m:
                    break
                line = m.group(1) + line[m.end():]
            m = DIRECTIVE_RE.match(line)
            if m:
                line = ".. %s:: %s" % (m.group(2), m.group(3))
            lines.append(line)
        text = self.resolve_refs("\n".join(lines))
        # 'Valid Options' is a set: order of the comma separated entries is free
        out = []
        for name, value in fields_of(text.split("\n")):
            if name == "Valid Options":
                out.append(sorted(collapse(v) for v in value.split(",")))
        toks = [TYPOS.get(t, t) for t in text.split()]
        if out:
            # remove the option tokens from the ordered stream, append the set
            flat = set(t for o in out for v in o for t in v.split())
            toks = [t for t in toks if t.rstrip(",") not in flat]
            toks.append("VALID-OPTIONS=" + json.dumps(out))
        return toks


def docs_facts():
    docs = Docs()
    facts = {}

    reach = [os.path.relpath(p, DOCS) for p in reachable_documents(os.path.join(REF, "reference.rst"))]
    facts["reference_documents"] = sorted(reach)
    # every reference document must also be reachable from the master document
    master = [os.path.relpath(p, DOCS) for p in reachable_documents(os.path.join(DOCS, "index.rst"))]
    facts["all_documents"] = sorted(master)

    forms = []
    modifiers = []
    splines = []
    items = []
    options = []
    pymath = []
    targets = []
    interpolation = []
    literals = []
    added_in = []
    defaults = []
    tree = []
    streams = {}
    for rel in sorted(reach):
        sections = docs.documents[rel]
        doc_title = sections[1].title if len(sections) > 1 else None
        for s in sections:
            flds = fields_of(s.body)
            fdict = {}
            for k, v in flds:
                fdict.setdefault(k, []).append(v)
            maths = [c for _a, c in directive_blocks(s.body, "math")]
            toks = docs.words(s.body)
            tree.append((doc_title, s.path, s.level))
            streams.setdefault(s.path, []).append(sha(toks))
            if VERBOSE:
                print("  [%s] %-70s %s" % (rel, s.path, sha(toks)[:12]))
            for k, v in flds:
                if "signature" in k.lower() and k.lower() != "spline signature":
                    name = re.findall(r"`+(as\.\w+)`+", v)
                    params = re.findall(r":math:`([^`]+)`", v)
                    forms.append({
                        "title": s.path, "field": k, "line": v,
                        "name": name, "params": params,
                        "after_name": collapse(re.sub(r"^`+as\.\w+`+", "", v)),
                        "features": fdict.get("Features"), "math": maths,
                        "target_of": sorted(l for l in s.labels if l.startswith("potform-")),
                    })
                if k.lower() == "spline signature":
                    splines.append({"title": s.path, "line": v,
                                    "description": docs.resolve_refs(" ".join(fdict.get("Description", []))),
                                    "see": docs.resolve_refs(" ".join(fdict.get("See also", [])))})
            if "Item" in fdict:
                items.append({"title": s.path, "item": fdict["Item"], "format": fdict.get("Format"),
                              "description": [docs.resolve_refs(d) for d in fdict.get("Description", [])],
                              "valid": [sorted(re.findall(r"``([^`]+)``", v)) for v in fdict.get("Valid Options", [])],
                              "example": fdict.get("Example")})
            for v in fdict.get("Valid Options", []):
                for grp in re.findall(r"``([^`]+)``", v):
                    targets.append(sorted(grp.split("|")))
            if s.title == "interpolation":
                interpolation.append(sorted(re.findall(r"``([^`]+)``", " ".join(fdict.get("Format", [])))))
            if s.title and "Python maths functions" in s.title:
                text = "\n".join(s.body)
                pymath.extend(re.findall(r"`(\w+)\(([^)]*)\)\s*<([^>]+)>`_", text))
            if rel.endswith("potential_modifiers.rst") and s.level == 2:
                modifiers.append(s.title)
            for arg, content in directive_blocks(s.body, "option"):
                options.append((arg, content))
            for blk in literal_blocks(s.body):
                literals.append((s.path, blk))
            for line in s.body:
                if "Added in" in line:
                    added_in.append((s.path, collapse(line)))
                if "default" in line.lower():
                    defaults.append((s.path, collapse(line)))

    facts["forms"] = sorted(forms, key=lambda d: d["title"])
    facts["form_order"] = [d["title"] for d in forms]
    facts["modifiers"] = sorted(modifiers)
    facts["splines"] = sorted(splines, key=lambda d: d["title"])
    facts["items"] = sorted(items, key=lambda d: d["title"])
    facts["options"] = sorted(options)
    facts["pymath"] = sorted(pymath)
    facts["pymath_n"] = len(pymath)
    facts["targets"] = sorted(targets)
    facts["interpolation"] = interpolation
    facts["literals"] = sorted(literals)
    facts["added_in"] = sorted(added_in)
    facts["defaults"] = sorted(defaults)
    facts["section_tree"] = sorted(tree)
    facts["section_streams"] = {k: sorted(v) for k, v in streams.items()}

    # every cross reference of the whole documentation (and of the docstrings
    # of the package): which file it is in and what it resolves to.
    refs = []
    unresolved = []
    for rel in sorted(docs.documents):
        # the expanded text: references in included files count for the
        # document that includes them
        text = "\n".join(read_lines(os.path.join(DOCS, rel)))
        for m in REF_RE.finditer(text):
            inner = m.group(1)
            mm = re.match(r"^(.*?)\s*<([^<>]+)>\s*$", inner, re.S)
            label = mm.group(2) if mm else inner
            res = docs.resolve(label)
            shown = collapse(mm.group(1)) if mm else None
            refs.append((rel, shown, res))
            if res.startswith("UNRESOLVED") or res == "DUPLICATE":
                unresolved.append((rel, collapse(label), res))
    for dirpath, _dirs, files in sorted(os.walk(os.path.join(WT, "atsim"))):
        for f in sorted(files):
            if f.endswith(".py"):
                p = os.path.join(dirpath, f)
                with io.open(p, encoding="utf-8") as infile:
                    text = infile.read()
                for m in REF_RE.finditer(text):
                    inner = m.group(1)
                    mm = re.match(r"^(.*?)\s*<([^<>]+)>\s*$", inner, re.S)
                    label = mm.group(2) if mm else inner
                    refs.append((os.path.relpath(p, WT), None, docs.resolve(label)))
    facts["refs"] = sorted(refs, key=repr)
    facts["unresolved_refs"] = sorted(unresolved)
    facts["duplicate_labels"] = sorted(k for k, v in docs.labels.items() if v == "DUPLICATE")
    # sections of the reference that are the target of a label (by title)
    facts["labelled_reference_sections_in_use"] = sorted(
        set(r[2] for r in refs if r[2].startswith("section:")))
    return facts


###############################################################################
# Part 2: behaviour of the package
###############################################################################

PAIR_BASAK = u"""[Tabulation]
target : %(target)s
%(grid)s

[Pair]
O-O : as.buck 1633.00510 0.327022 3.948790
U-U : as.buck 294.640000 0.327022 0.0
O-U : sum(as.buck 693.648700 0.327022 0.0,
          as.morse 1.6500 2.36900 0.577190)
"""

PAIR_REORDERED = u"""[Pair]
U-O : sum(as.morse 1.6500 2.36900 0.577190, as.buck 693.648700 0.327022 0.0)
U-U : as.buck 294.640000 0.327022 0.0
O-O : as.buck 1633.00510 0.327022 3.948790

[Tabulation]
%(grid)s
target : %(target)s
"""

PAIR_FORMS = u"""[Tabulation]
target : %(target)s
%(grid)s

[Pair]
A-A : as.bornmayer 1000.0 0.3
A-B : as.buck4 11272.6 0.1363 134.0 1.2 2.1 2.6
A-C : as.constant 2.0
A-D : as.coul 2.0 -1.0
B-B : as.exponential 2.0 3
B-C : as.exp_spline 1.0 0.1 0.01 0.001 0.0001 0.00001 -1.0
B-D : as.hbnd 10.0 20.0
C-C : as.lj 0.1 2.5
C-D : as.morse 1.65 2.369 0.57719
D-D : as.polynomial 1.0 2.0 3.0
A-E : as.sqrt 3.0
B-E : as.tang_toennies 143.1 2.295 80.41 1184.0 28125.0
C-E : as.zero
D-E : >0 as.zbl 92 8 >=1.5 as.zero
"""

MODIFIERS = u"""[Tabulation]
target : %(target)s
%(grid)s

[Pair]
A-B : pow(sum(as.constant -1, as.constant 0.1, as.constant 0.5), as.constant 2)
A-A : product(as.constant 2.0, as.constant 2.0, as.constant 4.0)
B-B : product(as.buck 1000.0 0.2 32.0, truncate 2.5)
Si-O : spline(>0 as.zbl 14 8 >=0.8 exp_spline >=1.4 as.buck 180003 0.3 32.0)
O-O : spline(>0 as.bornmayer 11272.6 0.1363 >=1.2 buck4_spline 2.1 >=2.6 as.buck 0 1.0 134.0)
A-C : trans(as.buck 1000.0 0.1 32.0, as.constant 2)
C-C : pymix 2.0

[Potential-Form]
truncate(rij, cutoff) = erfc(4*(rij-cutoff))/2.0
pymix(r, a) = pymath.fsum(a, pymath.hypot(r, a), pymath.log(r+1, 2)) + pymath.pow(r, a) - pymath.degrees(pymath.atan2(r, a))
"""

TABLE_FORM = u"""[Tabulation]
target : %(target)s
%(grid)s

[Pair]
Si-O : tabulated
O-O : linear

[Table-Form:tabulated]
interpolation: cubic_spline
x : 0.0 1.0 2.0 3.0
y : 0.0 2.0 3.0 4.0

[Table-Form:linear]
xy: 0.0 0.0
    1.0 2.0
    2.0 3.0
    3.0 4.0
"""

EAM = u"""[Tabulation]
target : %(target)s
%(grid)s

[Pair]
Al-Al : as.buck 1000.0 0.3 10.0
Al-Cu : as.morse 1.2 2.5 0.3
Cu-Cu : as.lj 0.2 2.3

[EAM-Embed]
Al : as.sqrt -1.5
Cu : product(as.constant -0.7, as.sqrt 1.0)

[EAM-Density]
%(density)s
"""

EAM_DENS = u"Al : as.exponential 1.2 -2\nCu : as.bornmayer 3.0 0.8"
EAM_DENS_FS = u"Al->Al : as.exponential 1.2 -2\nAl->Cu : as.bornmayer 3.0 0.8\nCu->Al : as.bornmayer 2.0 0.7\nCu->Cu : as.exponential 0.9 -3"

ADP = EAM + u"""
[EAM-ADP-Dipole]
Al-Al : as.bornmayer 0.1 0.5
Al-Cu : as.bornmayer 0.2 0.5
Cu-Cu : as.zero

[EAM-ADP-Quadrupole]
Al-Al : as.bornmayer 0.3 0.4
Al-Cu : as.zero
Cu-Cu : as.polynomial 0.0 0.01
"""

VARIABLES = u"""[Variables]
nsteps : 200
rho : 0.32

[Tabulation]
target : %(target)s
nr : ${nsteps}
dr : 0.1

[Species]
Gd.atomic_number : 64
O.atomic_number : 8

[Pair]
Gd-O : spline(
                as.zbl ${Species:Gd.atomic_number} ${Species:O.atomic_number}
                >=0.8
                    as.buck 1000.0 ${rho} 0.0)
O-O : as.buck 500 ${rho} 32.0
"""

GRIDS = [u"nr : 52\ndr : 0.1", u"cutoff : 6.0\nnr : 121", u"dr : 0.05\ncutoff : 3.0"]
EAM_GRIDS = [u"nr : 60\ndr : 0.1\nnrho : 40\ndrho : 0.05",
             u"cutoff : 5.0\nnr : 51\ncutoff_rho : 3.0\nnrho : 31"]

BAD = [
    ("bad target", PAIR_BASAK % dict(target="NOT_A_TARGET", grid=GRIDS[0])),
    ("lower case target", PAIR_BASAK % dict(target="lammps", grid=GRIDS[0])),
    ("alias DL_POLY", PAIR_BASAK % dict(target="DL_POLY", grid=GRIDS[0])),
    ("alias LAMMPS_eam_alloy", EAM % dict(target="LAMMPS_eam_alloy", grid=EAM_GRIDS[0], density=EAM_DENS)),
    ("all of nr dr cutoff", PAIR_BASAK % dict(target="LAMMPS", grid=u"nr : 10\ndr : 0.1\ncutoff : 2.0")),
    ("dr only", PAIR_BASAK % dict(target="LAMMPS", grid=u"dr : 0.1")),
    ("nr zero", PAIR_BASAK % dict(target="LAMMPS", grid=u"nr : 0\ndr : 0.1")),
    ("unknown form", u"[Tabulation]\ntarget : LAMMPS\nnr : 10\ndr : 0.1\n[Pair]\nA-B : as.nothing 1 2\n"),
    ("too few params", u"[Tabulation]\ntarget : LAMMPS\nnr : 10\ndr : 0.1\n[Pair]\nA-B : as.buck 1 2\n"),
    ("unknown modifier", u"[Tabulation]\ntarget : LAMMPS\nnr : 10\ndr : 0.1\n[Pair]\nA-B : blah(as.buck 1 2 3)\n"),
    ("bad interpolation", TABLE_FORM.replace(u"cubic_spline", u"linear_interp") % dict(target="LAMMPS", grid=GRIDS[0])),
    ("x without y", u"[Tabulation]\ntarget : LAMMPS\nnr : 10\ndr : 0.1\n[Pair]\nA-B : t\n[Table-Form:t]\nx : 0 1 2\n"),
    ("xy odd", u"[Tabulation]\ntarget : LAMMPS\nnr : 10\ndr : 0.1\n[Pair]\nA-B : t\n[Table-Form:t]\nxy : 0 1 2\n"),
    ("duplicate pair", u"[Tabulation]\ntarget : LAMMPS\nnr : 10\ndr : 0.1\n[Pair]\nA-B : as.zero\nB-A : as.zero\n"),
    ("bad pymath", u"[Tabulation]\ntarget : LAMMPS\nnr : 10\ndr : 0.1\n[Pair]\nA-B : f\n[Potential-Form]\nf(r) = pymath.frexp(r)\n"),
    ("eam target, pair only", PAIR_BASAK % dict(target="setfl", grid=GRIDS[0])),
    ("no tabulation section", u"[Pair]\nA-B : as.buck 1000.0 0.3 10.0\n"),
    ("empty", u""),
]


def run_config(text):
    """Tabulate the model in `text`, returning a short description of the result."""
    from atsim.potentials.config import Configuration
    try:
        tab = Configuration().read(io.StringIO(text))
        out = io.StringIO()
        tab.write(out)
        data = out.getvalue()
        return "ok %s %d %s" % (type(tab).__name__, len(data), sha(data))
    except Exception as e:  # noqa - the type name is what is compared
        return "EXC %s: %s" % (type(e).__name__, sha(str(e))[:16])


def potable_cli(argv):
    """Run the potable command line front end, capturing stdout / exit status."""
    from atsim.potentials.tools import potable
    old = sys.argv, sys.stdout, sys.stderr
    out, err = io.StringIO(), io.StringIO()
    status = None
    try:
        sys.argv = ["potable"] + argv
        sys.stdout, sys.stderr = out, err
        try:
            potable.main()
        except SystemExit as e:
            status = e.code
        except Exception as e:  # noqa
            status = "EXC " + type(e).__name__
    finally:
        sys.argv, sys.stdout, sys.stderr = old
    return (status, sha(out.getvalue()), sha(err.getvalue()))


def package_facts(doc_literals):
    import inspect
    import tempfile
    logging.disable(logging.CRITICAL)
    from atsim.potentials.config import ConfigParser
    from atsim.potentials.config._potential_form_registry import Potential_Form_Registry
    from atsim.potentials.config._modifier_registry import Modifier_Registry
    from atsim.potentials.config._tabulation_factories import TABULATION_FACTORIES
    from atsim.potentials.config._table_form_builder import Table_Form_Builder
    from atsim.potentials.config import _pymath
    from atsim.potentials import potentialfunctions

    facts = {}
    cp = ConfigParser(io.StringIO(PAIR_BASAK % dict(target="LAMMPS", grid=GRIDS[0])))
    reg = Potential_Form_Registry(cp, register_standard=True, register_pymath_functions=True)
    facts["registered_forms"] = reg.registered
    sigs = {}
    for name in reg.registered:
        pf = reg[name] if hasattr(reg, "__getitem__") else None
        try:
            sig = pf.signature
            sigs[name] = [sig.label, list(sig.parameter_names), sig.is_varargs]
        except Exception as e:  # noqa
            sigs[name] = "EXC " + type(e).__name__
    facts["form_signatures"] = sigs
    facts["modifiers"] = sorted(Modifier_Registry()._modifiers.keys())
    facts["targets"] = sorted(TABULATION_FACTORIES.keys())
    facts["interpolation"] = sorted(Table_Form_Builder()._table_forms.keys())
    facts["pymath"] = sorted(
        (n, str(inspect.signature(f))) for n, f in inspect.getmembers(_pymath, inspect.isfunction)
        if not n.startswith("_"))
    facts["potentialfunctions"] = sorted(n for n in dir(potentialfunctions) if not n.startswith("_"))

    runs = {}
    for ti, target in enumerate(["LAMMPS", "DLPOLY", "GULP"]):
        for gi, grid in enumerate(GRIDS):
            d = dict(target=target, grid=grid)
            for label, tmpl in [("basak", PAIR_BASAK), ("reordered", PAIR_REORDERED), ("forms", PAIR_FORMS),
                                ("modifiers", MODIFIERS), ("table", TABLE_FORM)]:
                runs["%s/%s/%d" % (label, target, gi)] = run_config(tmpl % d)
        runs["variables/%s" % target] = run_config(VARIABLES % dict(target=target))
    for target, dens in [("setfl", EAM_DENS), ("setfl_fs", EAM_DENS_FS), ("DL_POLY_EAM", EAM_DENS),
                         ("DL_POLY_EAM_fs", EAM_DENS_FS), ("eam_adp", EAM_DENS)]:
        for gi, grid in enumerate(EAM_GRIDS):
            tmpl = ADP if target == "eam_adp" else EAM
            runs["eam/%s/%d" % (target, gi)] = run_config(tmpl % dict(target=target, grid=grid, density=dens))
    for label, text in BAD:
        runs["bad/" + label] = run_config(text)
    facts["runs"] = runs

    # every literal example of the reference documentation that looks like a
    # potable input is run (a [Tabulation] section is supplied if missing)
    examples = {}
    for path, blk in doc_literals:
        text = u"\n".join(blk) + u"\n"
        if "[Pair]" not in text:
            continue
        if "[Tabulation]" not in text:
            text = u"[Tabulation]\ntarget : LAMMPS\nnr : 40\ndr : 0.1\n\n" + text
        examples.setdefault(sha(text)[:12], []).append(run_config(text))
    facts["doc_examples"] = examples

    # potable command line: the options documented in tools.rst
    cli = {}
    with tempfile.TemporaryDirectory() as tmp:
        cfg = os.path.join(tmp, "in.aspot")
        with io.open(cfg, "w", encoding="utf-8") as outfile:
            outfile.write(PAIR_BASAK % dict(target="LAMMPS", grid=GRIDS[0]))
        outp = os.path.join(tmp, "out.table")
        for label, argv in [
            ("list-items", ["--list-items", cfg]),
            ("l", ["-l", cfg]),
            ("list-item-labels", ["--list-item-labels", cfg]),
            ("item-value", ["--item-value", "Tabulation:target", cfg]),
            ("item-value-missing", ["--item-value", "Tabulation:nothing", cfg]),
            ("include", ["--include-species", "O", "--list-items", cfg]),
            ("exclude", ["--exclude-species", "O", "--list-items", cfg]),
            ("override", ["--override-item", "Tabulation:target=GULP", "--list-items", cfg]),
            ("e", ["-e", "Tabulation:target=DL_POLY", "--list-items", cfg]),
            ("add", ["--add-item", "Pair:U-Gd=as.zero", "--list-items", cfg]),
            ("a", ["-a", "Pair:U-Gd=as.zero", "--list-items", cfg]),
            ("remove", ["--remove-item", "Pair:U-U", "--list-items", cfg]),
            ("r", ["-r", "Pair:U-U", "--list-items", cfg]),
            ("bad override", ["--override-item", "nonsense", "--list-items", cfg]),
            ("no output", [cfg]),
            ("help", ["--help"]),
        ]:
            cli[label] = potable_cli(argv)
        for target in ["LAMMPS", "DL_POLY", "GULP", "NOPE"]:
            st = potable_cli([cfg, outp, "-e", "Tabulation:target=" + target])
            data = None
            if os.path.exists(outp):
                with open(outp, "rb") as infile:
                    data = sha(infile.read())
                os.remove(outp)
            cli["tabulate/" + target] = (st[0], data)
    facts["cli"] = cli
    return facts


def crosscheck(doc, pkg):
    """Documented facts against the package (printed; must not change either)."""
    doc_targets = sorted(set(t for grp in doc["targets"] for t in grp))
    doc_forms = sorted(set(n for f in doc["forms"] for n in f["name"]))
    doc_pymath = sorted(set(n for n, _a, _u in doc["pymath"]))
    doc_mod = sorted(m.strip("`").rstrip("()") for m in doc["modifiers"])
    return {
        "targets documented but unknown": sorted(set(doc_targets) - set(pkg["targets"])),
        "targets undocumented": sorted(set(pkg["targets"]) - set(doc_targets)),
        "forms documented but unknown": sorted(set(doc_forms) - set(pkg["registered_forms"])),
        "forms undocumented": sorted(n for n in set(pkg["registered_forms"]) - set(doc_forms) if n.startswith("as.")),
        "pymath documented but unknown": sorted(set(doc_pymath) - set(n for n, _s in pkg["pymath"])),
        "pymath undocumented": sorted(set(n for n, _s in pkg["pymath"]) - set(doc_pymath)),
        "modifiers documented but unknown": sorted(set(doc_mod) - set(pkg["modifiers"])),
        "modifiers undocumented": sorted(set(pkg["modifiers"]) - set(doc_mod)),
        "interpolation": [doc["interpolation"], pkg["interpolation"]],
    }


def main():
    doc = docs_facts()
    pkg = package_facts(doc["literals"])
    cross = crosscheck(doc, pkg)
    print("twin %s differential digest" % TWIN)
    print("DOCS")
    for k in sorted(doc):
        print("  %-40s %s" % (k, sha(doc[k])))
        if VERBOSE and k not in ("section_streams", "literals", "refs", "section_tree"):
            print("      " + json.dumps(doc[k], sort_keys=True)[:2000])
    print("PACKAGE")
    for k in sorted(pkg):
        print("  %-40s %s" % (k, sha(pkg[k])))
        if VERBOSE:
            print("      " + json.dumps(pkg[k], sort_keys=True)[:3000])
    print("CROSSCHECK")
    for k in sorted(cross):
        print("  %-40s %s" % (k, json.dumps(cross[k])))
    print("counts: forms=%d modifiers=%d splines=%d items=%d options=%d pymath=%d targets=%d literals=%d refs=%d unresolved=%d" % (
        len(doc["forms"]), len(doc["modifiers"]), len(doc["splines"]), len(doc["items"]), len(doc["options"]),
        doc["pymath_n"], len(doc["targets"]), len(doc["literals"]), len(doc["refs"]), len(doc["unresolved_refs"])))
    print("DOCS    digest: " + sha(doc))
    print("PACKAGE digest: " + sha(pkg))
    print("TOTAL   digest: " + sha([doc, pkg, cross]))


if __name__ == "__main__":
    main()

"""Differential script for twin C (spline/__init__.py and config/_potential_form_registry.py).

Exercises Spline_Point / Exp_Spline / Buck4_Spline / Custom_SplinePotential /
SplinePotential / Buck4_SplinePotential / potentialforms.buck4 and the spline()
modifier of .ini models, together with Potential_Form_Registry.registered, in
several call orders and prints a sha256 digest of everything observed."""
import hashlib
import io
import re
import sys

from atsim.potentials import potentialforms, Potential
from atsim.potentials.spline import (Spline_Point, Exp_Spline, Buck4_Spline, Custom_SplinePotential,
                                     SplinePotential, Buck4_SplinePotential)
from atsim.potentials.config import Configuration, ConfigParser, Potential_Form_Registry

OUT = []


def rec(*items):
  OUT.append(re.sub(r"0x[0-9a-fA-F]+", "0xADDR", " | ".join(repr(i) for i in items)))


def attempt(label, func, *args, **kwargs):
  try:
    v = func(*args, **kwargs)
    rec(label, "ok", v)
    return v
  except Exception as e:  # noqa
    rec(label, "EXC", type(e).__name__, str(e))
    return None


def sha(s):
  if not isinstance(s, bytes):
    s = s.encode("utf-8")
  return hashlib.sha256(s).hexdigest()


class Recording(object):
  """Wraps a callable and remembers the arguments of every call made to it (and to deriv/deriv2 if present)"""

  def __init__(self, name, wrapped, log, with_deriv=True):
    self._name = name
    self._wrapped = wrapped
    self._log = log
    if with_deriv and hasattr(wrapped, "deriv"):
      self.deriv = self._deriv
    if with_deriv and hasattr(wrapped, "deriv2"):
      self.deriv2 = self._deriv2

  def __call__(self, r):
    self._log.append((self._name, "call", r))
    return self._wrapped(r)

  def _deriv(self, r):
    self._log.append((self._name, "deriv", r))
    return self._wrapped.deriv(r)

  def _deriv2(self, r):
    self._log.append((self._name, "deriv2", r))
    return self._wrapped.deriv2(r)


def plain_start(r):
  return 20.0 * (3.0 - r) ** 2 + 1.0


def plain_end(r):
  return -4.0 / (r * r)


RS = [0.1, 0.5, 0.8, 1.0, 1.2, 1.2000001, 1.3, 1.7, 2.1, 2.5999, 2.6, 2.600001, 3.0, 5.0, 10.0]

PROPS = ["detachmentX", "attachmentX", "splineCoefficients", "startPotential", "endPotential", "interpolationFunction"]


def prop_values(sp, names):
  vals = []
  for n in names:
    v = getattr(sp, n)
    if callable(v):
      v = type(v).__name__
    vals.append((n, v))
  return sorted(vals)


def evaluate(label, sp, order):
  """Evaluate every part of a Custom_SplinePotential, order selects what gets asked first"""
  rec(label, "class", type(sp).__name__, hasattr(sp, "deriv"), hasattr(sp, "deriv2"))
  if order == 0:
    rec(label, "props-first", prop_values(sp, PROPS))
  rs = RS if order != 2 else list(reversed(RS))
  for r in rs:
    attempt((label, "call", r), sp, r)
    if hasattr(sp, "deriv"):
      attempt((label, "deriv", r), sp.deriv, r)
    if hasattr(sp, "deriv2"):
      attempt((label, "deriv2", r), sp.deriv2, r)
    attempt((label, "_deriv", r), sp._deriv, r)
    attempt((label, "_deriv2", r), sp._deriv2, r)
  rec(label, "props-last", prop_values(sp, list(reversed(PROPS))), prop_values(sp, PROPS))
  interp = sp.interpolationFunction
  rec(label, "interp", type(interp).__name__, interp.spline_coefficients, interp.spline_coefficients == sp.splineCoefficients,
      interp.detach_point.r, interp.attach_point.r, getattr(interp, "r_min", None))
  for r in [1.0, 1.5, 2.0, 2.1, 2.2, 3.0]:
    attempt((label, "interp-call", r), interp, r)
    attempt((label, "interp-deriv", r), interp.deriv, r)
    attempt((label, "interp-deriv2", r), interp.deriv2, r)
  if hasattr(interp, "spline5"):
    rec(label, "buck4-parts", interp.spline5.args, interp.spline3.args,
        interp.spline5.args + interp.spline3.args == interp.spline_coefficients, type(interp.spline_coefficients).__name__)


def spline_cases():
  """Yields (label, factory) - each factory builds a fresh spline potential and returns (object, call log)"""
  def forms(kind, log):
    if kind == "analytic":
      return potentialforms.bornmayer(11272.6, 0.1363), potentialforms.buck(0.0, 1.0, 134.0)
    if kind == "plain":
      return plain_start, plain_end
    if kind == "mixed":
      return potentialforms.zbl(14, 8), plain_end
    if kind == "recording":
      return (Recording("start", potentialforms.bornmayer(11272.6, 0.1363), log),
              Recording("end", potentialforms.buck(0.0, 1.0, 134.0), log))
    if kind == "recording-noderiv":
      return (Recording("start", potentialforms.bornmayer(11272.6, 0.1363), log, False),
              Recording("end", potentialforms.buck(0.0, 1.0, 134.0), log, False))
    raise ValueError(kind)

  for kind in ["analytic", "plain", "mixed", "recording", "recording-noderiv"]:
    for dx, ax, rmin in [(1.2, 2.6, 2.1), (0.8, 1.4, 1.0), (1.0, 3.0, 1.5)]:
      def exp_factory(kind=kind, dx=dx, ax=ax):
        log = []
        s, e = forms(kind, log)
        return SplinePotential(s, e, dx, ax), log

      def buck4_factory(kind=kind, dx=dx, ax=ax, rmin=rmin):
        log = []
        s, e = forms(kind, log)
        return Buck4_SplinePotential(s, e, dx, ax, rmin), log

      def custom_exp_factory(kind=kind, dx=dx, ax=ax):
        log = []
        s, e = forms(kind, log)
        return Custom_SplinePotential(Exp_Spline(Spline_Point(s, dx), Spline_Point(e, ax))), log

      def custom_buck4_factory(kind=kind, dx=dx, ax=ax, rmin=rmin):
        log = []
        s, e = forms(kind, log)
        return Custom_SplinePotential(Buck4_Spline(Spline_Point(s, dx), Spline_Point(e, ax), rmin)), log

      yield ("exp", kind, dx, ax), exp_factory
      yield ("buck4", kind, dx, ax, rmin), buck4_factory
      yield ("custom-exp", kind, dx, ax), custom_exp_factory
      yield ("custom-buck4", kind, dx, ax, rmin), custom_buck4_factory


def spline_checks():
  for label, factory in spline_cases():
    for order in [0, 1, 2]:
      sp, log = factory()
      rec(label, order, "construction-calls", list(log))
      evaluate((label, order), sp, order)
      rec(label, order, "all-calls", sha(repr(log)), len(log))
    # Two objects used alternately
    (sp1, log1), (sp2, log2) = factory(), factory()
    inter = []
    for r in RS:
      inter.append((sp1(r), sp2.detachmentX, sp2(r), sp1.attachmentX, sp1.splineCoefficients == sp2.splineCoefficients))
    rec(label, "alternate", inter, log1 == log2)

  # buck4 potential form
  b4 = potentialforms.buck4(11272.6, 0.1363, 134.0, 1.2, 2.1, 2.6)
  evaluate("potentialforms.buck4", b4, 1)
  pot = Potential("O", "O", b4)
  rec("buck4-potential", [(pot.energy(r), pot.force(r)) for r in RS])


class DuckPoint(object):
  def __init__(self, func, **kwargs):
    self.potential_function = func
    self.deriv_callable = lambda r: 1.0
    self.deriv2_callable = lambda r: 2.0
    self.__dict__.update(kwargs)


class DuckSpline(object):
  def __init__(self, dp, ap):
    self.detach_point = dp
    self.attach_point = ap
    self.spline_coefficients = (1, 2, 3)

  def __call__(self, r):
    return 99.0


def malformed_checks():
  bm = potentialforms.bornmayer(11272.6, 0.1363)
  disp = potentialforms.buck(0.0, 1.0, 134.0)
  cases = [
    ("reversed", lambda: SplinePotential(bm, disp, 2.6, 1.2)),
    ("equal", lambda: SplinePotential(bm, disp, 2.0, 2.0)),
    ("equal-buck4", lambda: Buck4_SplinePotential(bm, disp, 2.0, 2.0, 2.0)),
    ("rmin-outside", lambda: Buck4_SplinePotential(bm, disp, 1.2, 2.6, 5.0)),
    ("rmin-at-detach", lambda: Buck4_SplinePotential(bm, disp, 1.2, 2.6, 1.2)),
    ("negative-values", lambda: SplinePotential(lambda r: -5.0 + r, lambda r: -1.0 / r, 1.0, 2.0)),
    ("zero-detach", lambda: SplinePotential(bm, disp, 0.0, 2.0)),
    ("none-detach", lambda: SplinePotential(bm, disp, None, 2.0)),
    ("str-attach", lambda: Buck4_SplinePotential(bm, disp, 1.0, "2.0", 1.5)),
    ("none-func", lambda: SplinePotential(None, disp, 1.0, 2.0)),
    ("int-points", lambda: Buck4_SplinePotential(bm, disp, 1, 3, 2)),
    ("no-args", lambda: Custom_SplinePotential(None)),
    ("duck-ok", lambda: Custom_SplinePotential(DuckSpline(DuckPoint(bm, r=1.0), DuckPoint(disp, r=2.0)))),
    ("duck-no-r", lambda: Custom_SplinePotential(DuckSpline(DuckPoint(bm), DuckPoint(disp)))),
    ("duck-no-attach-r", lambda: Custom_SplinePotential(DuckSpline(DuckPoint(bm, r=1.0), DuckPoint(disp)))),
    ("duck-none-r", lambda: Custom_SplinePotential(DuckSpline(DuckPoint(bm, r=None), DuckPoint(disp, r=2.0)))),
  ]
  for label, factory in cases:
    sp = attempt(("malformed", label, "build"), lambda: type(factory()).__name__)
    if sp is None:
      continue
    sp = factory()
    for r in [0.5, 1.0, 1.5, 2.0, 2.2, 3.0]:
      attempt(("malformed", label, "call", r), sp, r)
      attempt(("malformed", label, "_deriv", r), sp._deriv, r)
    for p in ["detachmentX", "attachmentX", "splineCoefficients"]:
      attempt(("malformed", label, p), getattr, sp, p)
      attempt(("malformed", label, p, "again"), getattr, sp, p)


CFGS = {
"lammps_splines": u"""[Tabulation]
target : LAMMPS
cutoff : 10.0
nr : 201

[Potential-Form]
bks(r, qi, qj, A, rho, C) = as.coul(r, qi,qj) + as.buck(r, A, rho, C)
zz(r, A) = A*r

[Pair]
Si-O = spline(as.zbl 14 8 >=0.8 exp_spline >=1.4 bks 2.4 -1.2 18003.7572 0.2052048149 133.5381)
O-O : spline( as.bornmayer 11272.6 0.1363 >1.2 buck4_spline 2.1 >2.6 as.buck 0.0 1.0 134.0 )
Si-Si : as.buck4 11272.6 0.1363 134.0 1.2 2.1 2.6
""",
"gulp_splines": u"""[Tabulation]
target : GULP
cutoff : 5.0
dr : 0.05

[Pair]
Si-O : spline( as.zbl 14 8 >=0.8 exp_spline >=1.4 as.buck 18003.7572 0.205204 133.5381 ) >4.0 as.zero
O-O : sum(spline( as.bornmayer 11272.6 0.1363 >1.2 buck4_spline 2.1 >2.6 as.buck 0.0 1.0 134.0 ), as.constant 1.0)
""",
"dlpoly_splines": u"""[Tabulation]
target : DL_POLY
cutoff : 6.0
nr : 120

[Pair]
O-U : spline(as.polynomial 10.0 -2.0 >1.0 exp_spline >2.0 as.polynomial 1.0 -0.1)
U-U : spline(as.polynomial 10.0 -2.0 >1.0 buck4_spline 1.5 >2.0 as.polynomial 1.0 -0.1)
""",
"bad_spline_order": u"""[Tabulation]
target : LAMMPS
cutoff : 6.0
nr : 12

[Pair]
O-U : spline(as.polynomial 10.0 -2.0 >2.0 exp_spline >1.0 as.polynomial 1.0 -0.1)
""",
"bad_spline_type": u"""[Tabulation]
target : LAMMPS
cutoff : 6.0
nr : 12

[Pair]
O-U : spline(as.polynomial 10.0 -2.0 >1.0 as.zero >2.0 as.polynomial 1.0 -0.1)
""",
"bad_buck4_args": u"""[Tabulation]
target : LAMMPS
cutoff : 6.0
nr : 12

[Pair]
O-U : spline(as.polynomial 10.0 -2.0 >1.0 buck4_spline >2.0 as.polynomial 1.0 -0.1)
""",
}


def config_checks():
  for name in sorted(CFGS):
    def build():
      return Configuration().read(io.StringIO(CFGS[name]))
    if attempt(("cfg-build", name), lambda: type(build()).__name__) is None:
      continue
    tab = build()
    outs = []
    for i in range(2):
      sio = io.StringIO()
      tab.write(sio)
      outs.append(sio.getvalue())
    sio = io.StringIO()
    build().write(sio)
    outs.append(sio.getvalue())
    rec("cfg", name, [sha(o) for o in outs], len(outs[0]))
    for p in tab.potentials:
      rec("cfg-pot", name, p.speciesA, p.speciesB, [p.energy(r) for r in RS], [p.force(r) for r in RS])


REGISTRY_CFGS = [
  u"",
  u"""[Potential-Form]
buck(r, A, rho, C) : A*exp(-r/rho) - C/r^6
""",
  u"""[Potential-Form]
zeta(r, A) : A*r
buck(r, A, rho, C) : A*exp(-r/rho) - C/r^6
morse(r, gamma, r_star, D) : D*(exp(-2.0*gamma*(r-r_star)) - 2.0*exp(-gamma*(r-r_star)))
buck_morse(r, A, rho, C, gamma, r_star, D) : buck(r,A,rho,C) + morse(r, gamma, r_star, D)
Alpha(r) : r

[Table-Form:tabulated]
interpolation : cubic_spline
x : 0 1 2 3
y : 0 2 4 6
""",
  u"""[Potential-Form]
buck(r, A) : A*r
buck(r, A, B) : A*r+B
""",
  u"""[Potential-Form]
tab(r, A) : A*r

[Table-Form:tab]
interpolation : cubic_spline
x : 0 1 2 3
y : 0 2 4 6
""",
]


def registry_checks():
  for i, cfg_string in enumerate(REGISTRY_CFGS):
    for kwargs in [{}, {"register_standard": True}, {"register_standard": True, "register_pymath_functions": True}]:
      label = ("registry", i, sorted(kwargs))
      def build():
        return Potential_Form_Registry(ConfigParser(io.StringIO(cfg_string)), **kwargs)
      if attempt((label, "build"), lambda: type(build()).__name__) is None:
        continue
      pfr = build()
      first = pfr.registered
      rec(label, "registered", first, type(first).__name__)
      # Callers may do what they like with the returned list
      first.append("ZZZ")
      first.reverse()
      second = pfr.registered
      rec(label, "registered-again", second, second == sorted(second), second is first, "ZZZ" in second)
      del second[:]
      rec(label, "registered-third", pfr.registered)
      for k in pfr.registered[:5] + ["nothing-here"]:
        attempt((label, "getitem", k), lambda: type(pfr[k]).__name__)
      # A second registry queried only once
      rec(label, "other", build().registered == pfr.registered)


def main():
  spline_checks()
  malformed_checks()
  config_checks()
  registry_checks()
  blob = "\n".join(OUT)
  print("records:", len(OUT))
  print("digest:", sha(blob))
  if len(sys.argv) > 1:
    with open(sys.argv[1], "w") as f:
      f.write(blob)


main()

"""Differential script for twin B (memoised lookup of the built-in reference data table in
atsim/potentials/referencedata/_reference_data.py).

Run with:
  /venv/bin/python -W ignore /tmp/wtpy.py /tmp/wt_r5_3 _twins/diffB.py

Everything is run twice (second time in a different order) so that cache misses and cache hits
are both compared with the uncached behaviour."""

import glob
import hashlib
import io
import logging
import os
import sys

logging.disable(logging.CRITICAL)

from atsim.potentials.config import Configuration, ConfigParser
from atsim.potentials.config._config_parser import ConfigParserOverrideTuple as OT
from atsim.potentials.referencedata import Reference_Data
from atsim.potentials.referencedata._data import reference_data as TABLE

ROOT = os.path.dirname(os.path.dirname(os.path.abspath(__file__)))
OUT = []

def emit(label, value):
  OUT.append("{} :: {}".format(label, value))

def sha(s):
  if not isinstance(s, bytes):
    s = s.encode("utf-8")
  return hashlib.sha256(s).hexdigest()

def guarded(label, func):
  try:
    v = func()
    emit(label, "OK {} {} {}".format(type(v).__name__, sha(repr(v)), repr(v)[:120]))
  except Exception as e:
    emit(label, "EXC {} {} {}".format(type(e).__name__, sha(str(e)), str(e)[:160]))

PROPERTIES = ["atomic_number", "atomic_mass", "covalent_radius", "lattice_constant", "lattice_type", "charge", "", "Atomic_Mass", None, 1]

def lookups(rep):
  species = sorted(TABLE.keys())
  if rep:
    species = list(reversed(species))
  species = species + ["Xx", "ag", " Ag", "Ag ", "", "U4+", "D", None, 47, 1.0, True, ("Ag",), ["Ag"], {"Ag" : 1}, b"Ag"]

  extra_variants = [
    ("default", None),
    ("empty", {}),
    ("override", {"Gd" : {"atomic_mass" : 924.0}, "Ag" : {"lattice_type" : "fcc", "lattice_constant" : 4.09}}),
    ("new_species", {"Xx" : {"atomic_mass" : 1.5, "atomic_number" : 150}, "U4+" : {"charge" : 4.0}, "" : {"atomic_mass" : 0.0}}),
    ("all_fields", {"Fe" : {"atomic_number" : 1, "atomic_mass" : 2.0, "covalent_radius" : 3.0, "extra" : "x"}}),
    ("none_value", {"Al" : {"atomic_mass" : None}, 47 : {"atomic_mass" : 47.0}}),
  ]

  for vlabel, extra in extra_variants:
    if extra is None:
      rd = Reference_Data()
    else:
      rd = Reference_Data(extra)
    for s in species:
      for p in PROPERTIES:
        guarded("get[{}][{!r}][{!r}]".format(vlabel, s, p), lambda : rd.get(s, p))
    # extra data must not have been altered by the lookups
    emit("extra_after[{}]".format(vlabel), repr(rd.extra_data))

  # The dictionaries involved in a lookup must be private to that lookup: mutate extra_data between calls.
  extra = {"Cu" : {"atomic_mass" : 1.0}}
  rd = Reference_Data(extra)
  guarded("mutate.0", lambda : rd.get("Cu", "atomic_mass"))
  extra["Cu"]["atomic_mass"] = 2.0
  guarded("mutate.1", lambda : rd.get("Cu", "atomic_mass"))
  del extra["Cu"]
  guarded("mutate.2", lambda : rd.get("Cu", "atomic_mass"))
  extra["Zz"] = {"atomic_number" : 200}
  guarded("mutate.3", lambda : rd.get("Zz", "atomic_number"))
  guarded("mutate.4", lambda : rd.get("Zz", "atomic_mass"))
  del extra["Zz"]
  guarded("mutate.5", lambda : rd.get("Zz", "atomic_number"))
  rd2 = Reference_Data()
  guarded("mutate.6", lambda : rd2.get("Cu", "atomic_mass"))
  emit("table", sha(repr(sorted(TABLE.items()))))

EAM_TEMPLATE = """
[Tabulation]
target : {target}
nr : 20
dr : 0.25
nrho : 20
drho : 0.5

[Pair]
{a}-{a} = as.buck 100.0 0.3 1.0
{a}-{b} = as.buck 200.0 0.3 2.0
{b}-{b} = as.buck 300.0 0.3 3.0

[EAM-Embed]
{a} = as.sqrt -1.0
{b} = as.sqrt -2.0

[EAM-Density]
{density}

{species}
"""

STD_DENSITY = "{a} = as.exponential 1.0 -2.0\n{b} = as.exponential 2.0 -3.0"
FS_DENSITY = "{a}->{a} = as.exponential 1.0 -2.0\n{a}->{b} = as.exponential 2.0 -2.0\n{b}->{a} = as.exponential 3.0 -2.0\n{b}->{b} = as.exponential 4.0 -2.0"

SPECIES_BLOCKS = [
  "",
  "[Species]\n{a}.lattice_type = bcc\n{b}.lattice_constant = 2.8\n{b}.atomic_mass = 55.0",
  "[Species]\n{a}.atomic_number = 120\n{a}.atomic_mass = 300.5\n{b}.charge = 2.0",
  "[Species]\n{a}.atomic_number = notanumber",
  "[Species]\n{a}.madeup = 1\nQq.atomic_mass = 12.0",
]

ELEMENT_PAIRS = [("Al", "Fe"), ("Fe", "Al"), ("Ag", "Cu"), ("U", "O"), ("Xx", "Ag"), ("Ag", "Yy"), ("ag", "Cu"), ("Gd", "Gd2")]

def tabulate(label, text, overrides = [], additional = []):
  def run():
    cp = ConfigParser(io.StringIO(text), overrides = overrides, additional = additional)
    tab = Configuration().read_from_parser(cp)
    sio = io.StringIO()
    tab.write(sio)
    return sha(sio.getvalue())
  guarded(label, run)

def eam_cases(rep):
  pairs = ELEMENT_PAIRS if not rep else list(reversed(ELEMENT_PAIRS))
  for a, b in pairs:
    for target, density in [("setfl", STD_DENSITY), ("DL_POLY_EAM", STD_DENSITY), ("setfl_fs", FS_DENSITY), ("DL_POLY_EAM_fs", FS_DENSITY)]:
      for i, block in enumerate(SPECIES_BLOCKS):
        text = EAM_TEMPLATE.format(target = target, a = a, b = b,
          density = density.format(a = a, b = b),
          species = block.format(a = a, b = b))
        tabulate("eam[{}-{}][{}][{}]".format(a, b, target, i), text)

def file_cases():
  files = sorted(glob.glob(os.path.join(ROOT, "tests", "**", "*.aspot"), recursive = True))
  files += sorted(glob.glob(os.path.join(ROOT, "docs", "**", "*.aspot"), recursive = True))
  for f in files:
    label = os.path.relpath(f, ROOT)
    with open(f) as infile:
      text = infile.read()
    cp = ConfigParser(io.StringIO(text))
    if not "eam_embed" in cp.parsed_sections:
      continue
    if cp.tabulation.target in ("excel", "excel_eam", "excel_eam_fs"):
      continue
    ovr = []
    add = []
    for k, v in [("nr", "24"), ("cutoff", "4.6"), ("nrho", "24"), ("cutoff_rho", "11.5")]:
      (ovr if cp.raw_config_parser.has_option("Tabulation", k) else add).append(OT("Tabulation", k, v))
    for k in ["dr", "drho"]:
      if cp.raw_config_parser.has_option("Tabulation", k):
        ovr.append(OT("Tabulation", k, None))
    tabulate("file[{}]".format(label), text, ovr, add)
    species = cp.eam_embed[0].species
    tabulate("file_species[{}]".format(label), text, ovr, add + [OT("Species", species + ".atomic_mass", "1.25"), OT("Species", species + ".lattice_type", "hcp")])

def main():
  for rep in range(2):
    lookups(rep)
    eam_cases(rep)
    file_cases()
  blob = "\n".join(OUT)
  if "-v" in sys.argv:
    print(blob)
  ok = len([l for l in OUT if ":: OK" in l])
  exc = len([l for l in OUT if ":: EXC" in l])
  print("lines={} ok={} exc={}".format(len(OUT), ok, exc))
  print("DIGEST", sha(blob))

main()

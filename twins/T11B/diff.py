"""Differential script for twin B (_lammps_writeTABLE.py / _dlpoly_writeTABLE.py: StringIO + print
building replaced by lists of lines / generator pipelines joined once).

Prints a deterministic digest per scenario and an overall sha256.
Run with: /venv/bin/python -W ignore /tmp/wtpy.py /tmp/twin_11 _twins/diffB.py
"""
import hashlib
import io
import math

import atsim.potentials as ap
from atsim.potentials import Potential, potentialforms, pair_tabulation, eam_tabulation, EAMPotential
from atsim.potentials.config import Configuration

RESULTS = []


def record(label, value):
  if isinstance(value, bytes):
    value = value.decode("latin-1")
  text = value if isinstance(value, str) else repr(value)
  digest = hashlib.sha256(text.encode("utf-8")).hexdigest()[:16]
  RESULTS.append((label, digest))
  print("{:55s} {} len={}".format(label, digest, len(text)))


def attempt(label, func):
  """Record either the result of func() or the exception type it raised"""
  try:
    value = func()
  except BaseException as e:  # noqa
    record(label, "EXC:" + type(e).__name__)
  else:
    record(label, value)


class Recorder(object):
  """File-like object which remembers every write call separately"""

  def __init__(self):
    self.calls = []

  def write(self, s):
    self.calls.append(s)


class BrokenOut(object):
  def write(self, s):
    raise IOError("cannot write")


def bad_energy_after(n, exc=ValueError):
  state = {"count": 0}

  def f(r):
    state["count"] += 1
    if state["count"] > n:
      raise exc("bad")
    return 1.0 / (1.0 + r)
  return f


def none_energy(r):
  return None


def potsets():
  buck = potentialforms.buck(1388.77, 0.36262, 175.0)
  bks = potentialforms.bornmayer(18003.7572, 1.0 / 4.87318)
  morse = potentialforms.morse(1.1, 2.0, 0.5)
  poly = potentialforms.polynomial(1.0, -2.0, 0.25)
  sets = {}
  sets["single"] = [Potential("O", "O", buck)]
  sets["three"] = [Potential("Si", "O", bks), Potential("O", "O", buck), Potential("Al", "Si", morse)]
  sets["reversed"] = [Potential("Al", "Si", morse), Potential("O", "O", buck), Potential("O", "Si", bks)]
  sets["dupkeys"] = [Potential("O", "Si", poly), Potential("Si", "O", bks), Potential("B", "A", morse)]
  sets["lambda"] = [Potential("Xe", "U", lambda r: math.cos(r) * 3.0 + r ** 2), Potential("U", "U", lambda r: -r)]
  sets["empty"] = []
  sets["safe"] = [Potential("Mg", "O", morse), Potential("O", "O", poly), Potential("Al", "Mg", lambda r: 5.0 * math.exp(-1.3 * r) - 0.25 * r)]
  sets["safe-rev"] = list(reversed(sets["safe"]))
  sets["intspecies"] = [Potential(2, 1, poly)]
  return sets


GRIDS = [(10.0, 12), (6.5, 100), (3.0, 8), (15.0, 504), (1.0, 4), (2.5, 2), (7, 21), (4.0, 1), (4.0, 0), (-2.0, 8)]

CLASSES = [
  ("LAMMPS", pair_tabulation.LAMMPS_PairTabulation),
  ("DLPOLY", pair_tabulation.DLPoly_PairTabulation),
  ("GULP", pair_tabulation.GULP_PairTabulation),
]


def write_calls(tab):
  rec = Recorder()
  tab.write(rec)
  return rec.calls


def exercise_classes():
  for setname, pots in sorted(potsets().items()):
    for cutoff, nr in GRIDS:
      for cname, cls in CLASSES:
        label = "cls/{}/{}/{}/{}".format(cname, setname, cutoff, nr)
        attempt(label, lambda: write_calls(cls(pots, cutoff, nr)))

  # Properties
  for cname, cls in CLASSES + [("excel", pair_tabulation.Excel_PairTabulation)]:
    pots = potsets()["three"]
    tab = cls(pots, 6.5, 101)
    attempt("props/" + cname, lambda: (tab.type, tab.target, tab.nr, tab.cutoff, tab.potentials is pots, tab.dr,
                                        [p.speciesA for p in tab.potentials]))
    attempt("props-types/" + cname, lambda: (type(tab.target).__name__, type(tab.nr).__name__, type(tab.cutoff).__name__))
    attempt("rvalues/" + cname, lambda: list(pair_tabulation._r_value_iterator(tab)))
    attempt("rvalues-partial/" + cname, lambda: [x for x, _ in zip(pair_tabulation._r_value_iterator(tab), range(5))])
    attempt("bad-nr-dr/" + cname, lambda: cls(pots, 6.5, 1).dr)
    attempt("bad-nr-str/" + cname, lambda: write_calls(cls(pots, 6.5, "12")))
    attempt("bad-cutoff-str/" + cname, lambda: write_calls(cls(pots, "6.5", 12)))
    attempt("bad-cutoff-none/" + cname, lambda: write_calls(cls(pots, None, 12)))
    attempt("bad-pots-none/" + cname, lambda: write_calls(cls(None, 6.5, 12)))
    attempt("gen-pots/" + cname, lambda: write_calls(cls((p for p in pots), 6.5, 12)))
    attempt("broken-out/" + cname, lambda: cls(pots, 6.5, 12).write(BrokenOut()))
    attempt("none-out/" + cname, lambda: cls(pots, 6.5, 12).write(None))

  attempt("rvalues-nr1", lambda: list(pair_tabulation._r_value_iterator(pair_tabulation.GULP_PairTabulation([], 3.0, 1))))
  attempt("rvalues-nr0", lambda: list(pair_tabulation._r_value_iterator(pair_tabulation.GULP_PairTabulation([], 3.0, 0))))
  attempt("rvalues-lazy", lambda: bool(pair_tabulation._r_value_iterator(object())))
  attempt("rvalues-obj", lambda: next(pair_tabulation._r_value_iterator(object())))
  it = pair_tabulation._r_value_iterator(pair_tabulation.GULP_PairTabulation([], 3.0, 3))
  attempt("rvalues-iter-self", lambda: iter(it) is it)
  attempt("rvalues-exhaust", lambda: (list(it), list(it)))
  attempt("abstract-write", lambda: pair_tabulation.PairTabulation_AbstractBase([], 1.0, 4, "x").write(io.StringIO()))
  attempt("abstract-props", lambda: (lambda t: (t.target, t.nr, t.cutoff, t.potentials, t.type))(
    pair_tabulation.PairTabulation_AbstractBase(["p"], 1.5, 4, "tgt")))
  attempt("base-kwargs", lambda: pair_tabulation.PairTabulation_AbstractBase(target="t", nr=3, cutoff=2.0, potentials=()).dr)
  attempt("base-missing-arg", lambda: pair_tabulation.PairTabulation_AbstractBase([], 1.0, 4))
  attempt("lammps-extra-arg", lambda: pair_tabulation.LAMMPS_PairTabulation([], 1.0, 4, "x"))


def exercise_failures():
  for cname, cls in CLASSES:
    for n in (0, 1, 5, 13):
      for exc in (ValueError, ZeroDivisionError, KeyError):
        def run():
          pots = [Potential("A", "B", potentialforms.morse(1.2, 1.9, 0.4)), Potential("C", "D", bad_energy_after(n, exc))]
          rec = Recorder()
          try:
            cls(pots, 5.0, 12).write(rec)
          except BaseException as e:  # noqa
            return ("EXC", type(e).__name__, rec.calls)
          return ("OK", rec.calls)
        attempt("fail/{}/{}/{}".format(cname, n, exc.__name__), run)

    def run_none():
      rec = Recorder()
      try:
        cls([Potential("A", "B", none_energy)], 5.0, 12).write(rec)
      except BaseException as e:  # noqa
        return ("EXC", type(e).__name__, rec.calls)
      return ("OK", rec.calls)
    attempt("fail-none/" + cname, run_none)


def exercise_writePotentials():
  for setname, pots in sorted(potsets().items()):
    for cutoff, nr in GRIDS:
      for otype in ("DL_POLY", "LAMMPS", "GULP"):
        def run():
          rec = Recorder()
          ap.writePotentials(otype, pots, cutoff, nr, rec)
          return rec.calls
        attempt("wp/{}/{}/{}/{}".format(otype, setname, cutoff, nr), run)
  pots = potsets()["three"]
  for otype in ("DLPOLY", "lammps", "", None, 3, ("GULP",), ["GULP"], {}, "excel"):
    def run():
      try:
        ap.writePotentials(otype, pots, 5.0, 12, io.StringIO())
      except BaseException as e:  # noqa
        return (type(e).__name__, type(e).__mro__[1].__name__, str(e) if isinstance(e, ap.UnsupportedTabulationType) else "")
    attempt("wp-bad/{!r}".format(otype), run)
  attempt("wp-lammps-helper", lambda: (lambda s: (ap._LAMMPS_writePotentials(pots, 5.0, 10, s), s.getvalue()))(io.StringIO()))
  attempt("wp-lammps-helper-zero", lambda: ap._LAMMPS_writePotentials(pots, 5.0, 0, io.StringIO()))


def workbook_dump(wb):
  out = []
  for name in wb.sheetnames:
    ws = wb[name]
    out.append((name, [[c.value for c in row] for row in ws.iter_rows()]))
  return out


def exercise_excel():
  for setname, pots in sorted(potsets().items()):
    for cutoff, nr in [(10.0, 12), (3.0, 8), (2.5, 2), (4.0, 1), (4.0, 0)]:
      def run():
        tab = pair_tabulation.Excel_PairTabulation(pots, cutoff, nr)
        wb = tab.workbook
        same = tab.workbook is wb
        return (same, workbook_dump(wb))
      attempt("excel/{}/{}/{}".format(setname, cutoff, nr), run)

  def roundtrip():
    from openpyxl import load_workbook
    tab = pair_tabulation.Excel_PairTabulation(potsets()["reversed"], 5.0, 11)
    bio = io.BytesIO()
    tab.write(bio)
    bio.seek(0)
    return workbook_dump(load_workbook(bio))
  attempt("excel/roundtrip", roundtrip)
  attempt("excel/open_fp-mode", lambda: (lambda f: (f.mode, f.close()))(pair_tabulation.Excel_PairTabulation.open_fp("/tmp/twin_11/_twins/_tmp.bin")))
  attempt("base/open_fp-mode", lambda: (lambda f: (f.mode, f.close()))(pair_tabulation.GULP_PairTabulation.open_fp("/tmp/twin_11/_twins/_tmp.txt")))

  # EAM excel tabulation re-uses _r_value_iterator and Excel_PairTabulation._populate_worksheet
  def eam():
    def embed(rho):
      return -math.sqrt(rho)

    def density(r):
      return math.exp(-r)
    eampots = [EAMPotential("Ag", 47, 107.8682, embed, density), EAMPotential("Cu", 29, 63.55, embed, lambda r: 2.0 * math.exp(-r))]
    pairs = [Potential("Ag", "Ag", potentialforms.morse(1.1, 2.0, 0.5)), Potential("Cu", "Ag", potentialforms.buck(1000.0, 0.3, 1.0)),
             Potential("Cu", "Cu", potentialforms.polynomial(1.0, 2.0))]
    tab = eam_tabulation.Excel_EAMTabulation(pairs, eampots, 5.0, 11, 10.0, 6)
    return (tab.target, tab.nr, tab.cutoff, tab.nrho, tab.cutoff_rho, tab.type, workbook_dump(tab.workbook))
  attempt("excel/eam", eam)


CONFIGS = {
  "pair-lammps": u"""[Tabulation]
target : LAMMPS
cutoff : 6.0
nr : 25

[Pair]
O-O : as.buck 1633.0 0.327 3.95
U-O : as.buck 693.6 0.327022 0.0
U-U : as.bornmayer 294.6 0.327
""",
  "pair-dlpoly": u"""[Tabulation]
target : DLPOLY
cutoff : 6.0
nr : 24

[Pair]
U-O : as.buck 693.6 0.327022 0.0
O-O : as.buck 1633.0 0.327 3.95
""",
  "pair-gulp": u"""[Tabulation]
target : GULP
cutoff : 4.0
dr : 0.25

[Pair]
Si-O : sum(as.buck 18003.7572 0.2052 133.5381, as.polynomial 0 0.1)
O-O : as.morse 1.1 2.0 0.5
""",
  "pair-excel": u"""[Tabulation]
target : excel
dr : 0.5
cutoff : 5

[Pair]
O-O : as.polynomial 0 1
Al-O : as.polynomial 0 2
""",
  "pair-dlpoly-bad": u"""[Tabulation]
target : DLPOLY
cutoff : 6.0
nr : 22

[Pair]
U-O : as.buck 693.6 0.327022 0.0
""",
}


def exercise_config():
  for name, cfg in sorted(CONFIGS.items()):
    def run():
      tab = Configuration().read(io.StringIO(cfg))
      head = (type(tab).__name__, tab.target, tab.nr, tab.cutoff, tab.type, [(p.speciesA, p.speciesB) for p in tab.potentials])
      if tab.target == "excel":
        return (head, workbook_dump(tab.workbook))
      rec = Recorder()
      tab.write(rec)
      return (head, rec.calls)
    attempt("config/" + name, run)


def exercise_writer_modules():
  from atsim.potentials import _lammps_writeTABLE as lmp
  from atsim.potentials import _dlpoly_writeTABLE as dlp

  class NoEnergy(object):
    speciesA = "X"
    speciesB = "Y"

  class StrEnergy(object):
    speciesA = "X"
    speciesB = "Y"

    def energy(self, r):
      return "1.0"

    def force(self, r):
      return 2.0

  def calls(func, *args):
    rec = Recorder()
    try:
      func(*(args + (rec,)))
    except BaseException as e:  # noqa
      return ("EXC", type(e).__name__, rec.calls)
    return ("OK", rec.calls)

  sets = potsets()
  sets["noenergy"] = [NoEnergy()]
  sets["strenergy"] = [StrEnergy()]
  sets["none-energy"] = [Potential("A", "B", none_energy)]
  sets["fails-late"] = [Potential("A", "B", potentialforms.morse(1.2, 1.9, 0.4)), Potential("C", "D", bad_energy_after(7))]
  for setname, pots in sorted(sets.items()):
    for minr, maxr, n in [(0.1, 5.1, 6), (0.5, 10.0, 20), (1.0, 1.0, 3), (0.25, 4.0, 1), (0.25, 4.0, 0), (0.25, 4.0, -3),
                          (0.25, 4.0, 6.0), (0.25, 4.0, "6"), (None, 4.0, 6), (2, 9, 5)]:
      attempt("lmp.writePotentials/{}/{}/{}/{}".format(setname, minr, maxr, n), lambda: calls(lmp.writePotentials, pots, minr, maxr, n))
      if pots:
        attempt("lmp._writeSinglePotential/{}/{}/{}/{}".format(setname, minr, maxr, n), lambda: calls(lmp._writeSinglePotential, pots[-1], minr, maxr, n))
        attempt("lmp._writeSinglePotential-noout/{}/{}/{}/{}".format(setname, minr, maxr, n), lambda: lmp._writeSinglePotential(pots[-1], minr, maxr, n, None))
    for cutoff, n in [(10.0, 12), (6.5, 100), (3.0, 8), (1.0, 4), (2.5, 2), (7, 20), (4.0, 0), (4.0, -4), (4.0, 8.0), (4.0, "8"), (None, 8), (-3.0, 8)]:
      attempt("dlp.writePotentials/{}/{}/{}".format(setname, cutoff, n), lambda: calls(dlp.writePotentials, pots, cutoff, n))
      if pots:
        attempt("dlp._writePotential/{}/{}/{}".format(setname, cutoff, n), lambda: calls(dlp._writePotential, pots[-1], cutoff, n, 0.125))
        attempt("dlp._writePotential-noout/{}/{}/{}".format(setname, cutoff, n), lambda: dlp._writePotential(pots[-1], cutoff, n, 0.125, None))
  for args in [(0.01, 10.0, 1004), (1.0 / 3.0, 6.5, 24), (1e-12, 1e12, 0), (0.1, 2.0, 8.0), (0.1, 2.0, "8"), (None, 2.0, 8)]:
    attempt("dlp._writeTableHeader/{}".format(args), lambda: calls(dlp._writeTableHeader, *args))
  attempt("dlp._calculateForce", lambda: [dlp._calculateForce(p, r) for p in potsets()["three"] for r in (0.5, 1.0, 2.75)])
  attempt("dlp.exception-class", lambda: (dlp.WritePotentialException.__mro__[1].__name__, dlp.WritePotentialException.__module__))

  def message():
    try:
      dlp.writePotentials(potsets()["single"], 5.0, 10, io.StringIO())
    except dlp.WritePotentialException as e:
      return str(e)
  attempt("dlp.exception-message", message)
  attempt("lmp.broken-out", lambda: lmp.writePotentials(potsets()["single"], 0.1, 5.0, 5, BrokenOut()))
  attempt("dlp.broken-out", lambda: dlp.writePotentials(potsets()["single"], 5.0, 8, BrokenOut()))
  attempt("lmp.none-out", lambda: lmp.writePotentials(sets["fails-late"], 0.1, 5.0, 50, None))
  attempt("dlp.none-out", lambda: dlp.writePotentials(sets["fails-late"], 5.0, 8, None))
  attempt("lmp.gen-pots", lambda: calls(lmp.writePotentials, (p for p in potsets()["three"]), 0.1, 5.0, 5))
  attempt("dlp.gen-pots", lambda: calls(dlp.writePotentials, (p for p in potsets()["three"]), 5.0, 8))

  # Order in which the potential callables are evaluated
  def call_order(writer, *args):
    log = []

    def mk(tag):
      def f(r):
        log.append((tag, r))
        return 1.0 / (0.5 + r)
      return f
    pots = [Potential("A", "B", mk("ab")), Potential("C", "D", mk("cd"))]
    writer(pots, *(args + (io.StringIO(),)))
    return log
  attempt("lmp.call-order", lambda: call_order(lmp.writePotentials, 0.1, 5.0, 7))
  attempt("dlp.call-order", lambda: call_order(dlp.writePotentials, 5.0, 12))


def main():
  exercise_writer_modules()
  exercise_classes()
  exercise_failures()
  exercise_writePotentials()
  exercise_excel()
  exercise_config()
  overall = hashlib.sha256(repr(RESULTS).encode("utf-8")).hexdigest()
  print("SCENARIOS", len(RESULTS))
  print("OVERALL", overall)


if __name__ == "__main__":
  main()

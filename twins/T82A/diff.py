"""Differential script for twin A (atsim/potentials/potentialfunctions.py text maintenance).

Prints a deterministic digest of: every potential function / derivative evaluated on
varied inputs (including bad input), the public namespace of the module, the names
registered by Potential_Form_Registry, the docstrings that must not change, and complete
tabulations made through the public Configuration API.
"""
import glob
import hashlib
import inspect
import io
import logging
import os
import sys
import warnings

warnings.simplefilter("ignore")

H = hashlib.sha256()
LINES = []

def emit(*items):
  line = " ".join(str(i) for i in items)
  LINES.append(line)
  H.update(line.encode("utf-8") + b"\n")

import atsim.potentials
from atsim.potentials import potentialfunctions as pf
from atsim.potentials import potentialforms
from atsim.potentials.config import Configuration, ConfigParser, Potential_Form_Registry

# -- 1. namespace
public = sorted(n for n in vars(pf) if not n.startswith("_"))
emit("public", public)
ns = {}
exec("from atsim.potentials.potentialfunctions import *", ns)
emit("star", sorted(k for k in ns if k != "__builtins__"))
emit("has_all", hasattr(pf, "__all__"), sorted(getattr(pf, "__all__", [])))
emit("callable_members", [n for n, _o in inspect.getmembers(pf, potentialforms._iscallable)])
emit("pkg_public", sorted(n for n in vars(atsim.potentials) if not n.startswith("_")))

# -- 2. evaluation
PARAMS = {
  "buck": [(1000.0, 0.2, 32.0), (1388.77, 0.3623, 175.0), (0.0, 1.0, 1.0)],
  "bornmayer": [(1000.0, 0.2), (22764.0, 0.149)],
  "coul": [(1.0, -2.0), (2.4, 2.4), (0, 1)],
  "constant": [(2.5,), (-1,)],
  "exponential": [(2.0, 3), (1.5, -2.0), (3.0, 0.5)],
  "hbnd": [(1000.0, 10.0), (3.0, 4.0)],
  "lj": [(0.25, 2.5), (1.0, 1.0), (0.0103, 3.4)],
  "morse": [(1.65, 2.369, 0.57), (0.5, 1.0, 2.0)],
  "polynomial": [(), (1.0,), (1.0, 2.0), (1.0, 2.0, 3.0), (5.0, -1.0, 0.5, 0.25, 2.0), (1, 2, 3)],
  "sqrt": [(2.0,), (-0.154,)],
  "tang_toennies": [(41.96, 2.523, 1.461, 14.11, 183.6), (1.0, 1.0, 1.0, 1.0, 1.0)],
  "zbl": [(92, 8), (8, 8), (1.0, 2.0)],
  "zero": [()],
  "exp_spline": [(1.0, 0.1, 0.01, 0.001, 0.0001, 0.00001, 2.0), (0, 0, 0, 0, 0, 0, 0)],
}
RVALS = [0.0, 0, 1e-3, 0.5, 1.0, 1, 1.6, 2.0, 3.3333333333, 10.0, 25, -1.0, -0.5, "x", None]

def call(f, *args):
  try:
    return repr(f(*args))
  except Exception as e:
    return "EXC:" + type(e).__name__ + ":" + str(e)

for name in sorted(PARAMS):
  obj = getattr(pf, name)
  emit("type", name, type(obj).__name__, getattr(obj, "is_potential", None))
  for params in PARAMS[name]:
    for r in RVALS:
      for meth in ("__call__", "deriv", "deriv2"):
        emit(name, meth, repr(r), repr(params), call(getattr(obj, meth), r, *params))
    # through potential form factories
    factory = getattr(potentialforms, name)
    try:
      form = factory(*params)
      for r in RVALS[:11]:
        emit("form", name, repr(r), call(form, r), call(form.deriv, r), call(form.deriv2, r))
    except Exception as e:
      emit("form", name, "EXC:" + type(e).__name__ + ":" + str(e))
  # wrong number of arguments
  emit(name, "badargs", call(obj, 1.0, 1.0, 2.0, 3.0, 4.0, 5.0, 6.0, 7.0, 8.0, 9.0) if name != "polynomial" else "-")
  emit(name, "signature", call(inspect.signature, obj), call(inspect.signature, obj.deriv), call(inspect.signature, obj.deriv2))

# -- 3. docstrings whose text must be preserved exactly (everything except the ones
#       deliberately reworded / converted by the twin)
REWORDED = {("_lj", "deriv"), ("_lj", "deriv2"), ("_morse", "deriv"), ("_morse", "deriv2"),
            ("_Potential_Function_Base", None)}
for cname, cls in sorted(inspect.getmembers(pf, inspect.isclass)):
  if (cname, None) not in REWORDED:
    emit("doc", cname, hashlib.sha256(repr(cls.__doc__).encode("utf-8")).hexdigest())
  for mname in ("__call__", "deriv", "deriv2"):
    m = cls.__dict__.get(mname)
    if m is None or (cname, mname) in REWORDED:
      continue
    emit("doc", cname, mname, hashlib.sha256(repr(m.__doc__).encode("utf-8")).hexdigest())
emit("moddoc", hashlib.sha256(repr(pf.__doc__).encode("utf-8")).hexdigest())

# -- 4. registry
cp = ConfigParser(io.StringIO(u"[Pair]\nA-B : as.lj 1.0 2.0\n"))
reg = Potential_Form_Registry(cp, register_standard=True, register_pymath_functions=True)
emit("registered", reg.registered)
for label in reg.registered:
  emit("sig", label, reg[label].signature)

# -- 5. full tabulations through the configuration API
class Capture(logging.Handler):
  def __init__(self):
    logging.Handler.__init__(self)
    self.records = []
  def emit(self, record):
    self.records.append((record.levelname, record.getMessage()))

capture = Capture()
root = logging.getLogger()
root.addHandler(capture)
root.setLevel(logging.INFO)

HERE = os.path.dirname(os.path.abspath(__file__))
TOP = os.path.dirname(HERE)
files = sorted(glob.glob(os.path.join(TOP, "tests", "*", "*.aspot")) +
               glob.glob(os.path.join(TOP, "tests", "config", "config_resources", "*.aspot")) +
               glob.glob(os.path.join(TOP, "docs", "user_guide", "example_files", "*.aspot")) +
               glob.glob(os.path.join(TOP, "docs", "quick_start", "*.aspot")))

INLINE = [
u"""[Tabulation]
target : LAMMPS
cutoff : 6.0
nr : 61

[Pair]
Ar-Ar : as.lj 0.0103 3.4
Ar-Kr : as.morse 1.65 2.369 0.57
Kr-Kr : sum(as.zbl 36 36, >1.0 as.polynomial 0.0 1.0 2.0 3.0, >=3.0 as.zero)
Xe-Xe : as.tang_toennies 41.96 2.523 1.461 14.11 183.6
""",
u"""[Tabulation]
target : DLPOLY
cutoff : 5.0
nr : 44

[Pair]
O-O : as.buck 1633.0 0.327 3.95
U-O : as.bornmayer 873.1 0.365 >= 2.0 as.hbnd 10.0 1.0
U-U : as.coul 4.0 4.0 >1.5 as.sqrt 2.0 >3.0 as.exponential 2.0 -2 >4.0 as.constant 1.0
""",
u"""[Tabulation]
target : GULP
cutoff : 4.0
nr : 9

[Pair]
B-A : as.exp_spline 1.0 0.1 0.01 0.001 0.0001 0.00001 2.0
A-A : as.nosuchform 1.0
""",
u"""[Tabulation]
target : DLPOLY
nr : 43

[Pair]
O-O : as.buck 1633.0 0.327 3.95
""",
]

def tabulate(label, fp):
  del capture.records[:]
  try:
    tab = Configuration().read(fp)
    out = io.StringIO()
    tab.write(out)
    data = out.getvalue()
    emit("tab", label, type(tab).__name__, len(data), hashlib.sha256(data.encode("utf-8")).hexdigest())
  except Exception as e:
    emit("tab", label, "EXC:" + type(e).__name__ + ":" + str(e))
  emit("log", label, hashlib.sha256(repr(capture.records).encode("utf-8")).hexdigest(), len(capture.records))

for f in files:
  if "excel" in open(f).read():
    continue
  with open(f) as fp:
    tabulate(os.path.relpath(f, TOP), fp)
for i, txt in enumerate(INLINE):
  tabulate("inline%d" % i, io.StringIO(txt))

if "-v" in sys.argv:
  print("\n".join(LINES))
print("lines", len(LINES))
print("DIGEST", H.hexdigest())

"""Differential script for twin B: LAMMPS EAM writers (funcfl, setfl, setfl Finnis-Sinclair, ADP).

Run:  /venv/bin/python -W ignore /tmp/wtpy.py /tmp/wt_r6_3 _twins/diffB.py
"""
import io
import os
import sys

sys.path.insert(0, os.path.dirname(os.path.abspath(__file__)))
from _harness import *  # noqa

import atsim.potentials
from atsim.potentials import Potential, EAMPotential
from atsim.potentials import writeFuncFL, writeSetFL, writeSetFLFinnisSinclair
from atsim.potentials import eam_tabulation
from atsim.potentials import _lammpsWriteEAM
from atsim.potentials.config import Configuration

assert atsim.potentials.__file__.startswith("/tmp/wt_r6_3/"), atsim.potentials.__file__

log = Log()

FD = dict(buck=f_buck, morse=f_morse, poly=f_poly, neg=f_neg, tiny=f_tiny, zero=f_zero, negzero=f_negzero,
          big=f_big, nan=f_nan, int=f_int, str=f_str, sqrt=f_sqrt,
          pos=lambda r: 0.5 + r * r, tup=lambda r: (r,), none=lambda r: None)

ELEMENTS = [("Al", 13, 26.98, 4.05, "fcc"), ("Cu", 29, 63.55, 3.615, "fcc"), ("Fe", 26, 55.845, 2.855, "bcc"), ("Ag", 47, 107.8682, 4.09, "fcc")]


class Fail(object):
  """which: label of the function that fails; at: call number; exc: exception class"""
  def __init__(self, which=None, at=None, exc=ArithmeticError):
    self.which, self.at, self.exc = which, at, exc

  def args(self, label):
    if self.which == label:
      return dict(fail_at=self.at, exc=self.exc)
    return {}


def rec(label, fname, fail, **kw):
  kw.update(fail.args(label))
  return Recorder(log, label, FD[fname], **kw)


def mkmodel(species, embed, dens, pair, fs=False, fail=Fail(), skip_pairs=(), extra_pairs=(), with_deriv=False):
  """species: indices into ELEMENTS (order matters); embed/dens/pair: lists of function names cycled over"""
  eampots = []
  els = [ELEMENTS[i] for i in species]
  for n, (sp, z, m, a, lt) in enumerate(els):
    ef = rec("embed:" + sp, embed[n % len(embed)], fail)
    if fs:
      df = {}
      for k, (sp2, _, _, _, _) in enumerate(els):
        df[sp2] = rec("dens:%s->%s" % (sp, sp2), dens[(n + k) % len(dens)], fail)
    else:
      df = rec("dens:" + sp, dens[n % len(dens)], fail)
    eampots.append(EAMPotential(sp, z, m, ef, df, a, lt))
  pairpots = []
  c = 0
  for i in range(len(els)):
    for j in range(i, len(els)):
      a, b = els[i][0], els[j][0]
      if (a, b) in skip_pairs:
        continue
      if c % 2:
        a, b = b, a   # species order within a pair should not matter
      pairpots.append(Potential(a, b, rec("pair:%s-%s" % (a, b), pair[c % len(pair)], fail, with_deriv=with_deriv)))
      c += 1
  for a, b, fname in extra_pairs:
    pairpots.append(Potential(a, b, rec("pair+:%s-%s" % (a, b), fname, fail)))
  return eampots, pairpots


GRIDS = [(5, 0.1, 7, 0.3), (1, 0.5, 1, 0.25), (12, 0.01, 9, 0.5), (3, 2.0, 11, 0.05), (0, 0.1, 4, 0.3), (4, 0.1, 0, 0.3), (6, -0.5, 6, -0.25), (7, 1, 5, 1)]
case = 0

# ---------------------------------------------------------------------------
# 1. setfl / setfl_fs, direct functions with different models, element orders, grids, comments, cutoffs
for nrho, drho, nr, dr in GRIDS:
  for species in [(0,), (0, 1), (1, 0), (2, 0, 1), (3, 2, 1, 0), ()]:
    for fs in [False, True]:
      for kw in [{}, dict(comments=["first", "second"]), dict(comments=("a", "b", "c", "d"), cutoff=3.3), dict(cutoff=0)]:
        case += 1
        eampots, pairpots = mkmodel(species, ["poly", "sqrt", "neg"], ["morse", "tiny", "negzero"], ["buck", "zero", "big"], fs=fs,
                                    skip_pairs=[("Al", "Cu")] if case % 3 == 0 else (),
                                    extra_pairs=[("Cu", "Cu", "int"), ("Xx", "Al", "poly")] if case % 4 == 0 else ())
        sink = Sink(log, "out%d" % case)
        fn = writeSetFLFinnisSinclair if fs else writeSetFL
        run(log, "setfl %r %r %r %r" % ((nrho, drho, nr, dr), species, fs, sorted(kw)),
            lambda: fn(nrho, drho, nr, dr, eampots, pairpots, out=sink, **kw))
        log.add("OUT", sink.getvalue())

# 2. funcfl
for nrho, drho, nr, dr in GRIDS:
  for el in [0, 2]:
    for names in [("poly", "morse", "pos"), ("neg", "tiny", "int"), ("sqrt", "zero", "zero"), ("poly", "morse", "buck"), ("nan", "big", "pos"), ("poly", "morse", "neg")]:
      for title in ["", "a title"]:
        case += 1
        eampots, pairpots = mkmodel((el,), [names[0]], [names[1]], [names[2]])
        sink = Sink(log, "out%d" % case)
        run(log, "funcfl %r %r %r" % ((nrho, drho, nr, dr), el, names),
            lambda: writeFuncFL(nrho, drho, nr, dr, eampots, pairpots, out=sink, title=title))
        log.add("OUT", sink.getvalue())
run(log, "funcfl nopots", lambda: writeFuncFL(3, 0.1, 3, 0.1, [], [], out=Sink(log, "x")))
run(log, "funcfl nopair", lambda: writeFuncFL(3, 0.1, 3, 0.1, mkmodel((0,), ["poly"], ["poly"], ["poly"])[0], [], out=Sink(log, "x")))

# 3. tabulation objects, including ADP (dipole and quadrupole blocks use _writeSetFLPairPots with scale_r = False)
def mkadp(species, fail=Fail()):
  els = [ELEMENTS[i][0] for i in species]
  dip, quad = [], []
  for i in range(len(els)):
    for j in range(i, len(els)):
      dip.append(Potential(els[j], els[i], rec("dip:%s-%s" % (els[j], els[i]), ["neg", "poly"][(i + j) % 2], fail)))
      if (i + j) % 3 != 1:
        quad.append(Potential(els[i], els[j], rec("quad:%s-%s" % (els[i], els[j]), ["morse", "tiny"][(i + j) % 2], fail)))
  return dip, quad

for cutoff, nr, cutoff_rho, nrho in [(6.0, 7, 50.0, 5), (2.5, 3, 1.0, 9), (4.0, 2, 3.0, 2), (4.0, 1, 3.0, 4), (4.0, 4, 3.0, 1)]:
  for species in [(0, 1), (1, 0), (2, 1, 0), (3,)]:
    for cls in ["SetFL_EAMTabulation", "SetFL_FS_EAMTabulation", "ADP_EAMTabulation"]:
      case += 1
      eampots, pairpots = mkmodel(species, ["poly", "neg"], ["morse", "pos"], ["buck", "neg", "tiny"], fs=(cls == "SetFL_FS_EAMTabulation"))
      sink = Sink(log, "out%d" % case)
      def do():
        if cls == "ADP_EAMTabulation":
          dip, quad = mkadp(species)
          tab = eam_tabulation.ADP_EAMTabulation(pairpots, eampots, dip, quad, cutoff, nr, cutoff_rho, nrho)
        else:
          tab = getattr(eam_tabulation, cls)(pairpots, eampots, cutoff, nr, cutoff_rho, nrho)
        log.add("TABOBJ", tab.type, tab.target, repr(tab.dr), repr(tab.drho))
        return tab.write(sink)
      run(log, "tab %s %r %r" % (cls, species, (cutoff, nr, cutoff_rho, nrho)), do)
      log.add("OUT", sink.getvalue())

# 4. failures in user functions (nothing may reach the sink) and values that cannot be formatted
EXCS = [ArithmeticError, ValueError, StopIteration, KeyError, ZeroDivisionError, GeneratorExit, KeyboardInterrupt]
labels = ["embed:Al", "embed:Cu", "dens:Al", "dens:Cu", "dens:Al->Cu", "dens:Cu->Al", "dens:Cu->Cu", "pair:Al-Al", "pair:Cu-Al", "pair:Cu-Cu", "dip:Cu-Al", "quad:Cu-Cu", "dip:Al-Al"]
n = 0
for lab in labels:
  for at in [1, 2, 4, 5]:
    n += 1
    fail = Fail(lab, at, EXCS[n % len(EXCS)])
    for cls in ["setfl", "setfl_fs", "adp", "funcfl"]:
      case += 1
      sink = Sink(log, "out%d" % case)
      def do():
        eampots, pairpots = mkmodel((0, 1), ["poly", "neg"], ["morse", "pos"], ["buck", "neg", "pos"], fs=(cls == "setfl_fs"), fail=fail)
        if cls == "adp":
          dip, quad = mkadp((0, 1), fail)
          return eam_tabulation.ADP_EAMTabulation(pairpots, eampots, dip, quad, 3.0, 5, 2.0, 4).write(sink)
        elif cls == "funcfl":
          return writeFuncFL(4, 0.5, 5, 0.75, eampots, pairpots, out=sink)
        fn = writeSetFLFinnisSinclair if cls == "setfl_fs" else writeSetFL
        return fn(4, 0.5, 5, 0.75, eampots, pairpots, out=sink)
      run(log, "fail %s %s %d" % (cls, lab, at), do)
      log.add("OUT", sink.getvalue())

for bad in ["str", "none", "tup", "nan"]:
  for where in range(3):
    for cls in ["setfl", "setfl_fs", "funcfl"]:
      case += 1
      sink = Sink(log, "out%d" % case)
      names = [["poly"], ["morse"], ["pos"]]
      names[where] = [bad]
      def do():
        eampots, pairpots = mkmodel((1, 0), names[0], names[1], names[2], fs=(cls == "setfl_fs"))
        if cls == "funcfl":
          return writeFuncFL(3, 0.5, 4, 0.75, eampots, pairpots, out=sink)
        fn = writeSetFLFinnisSinclair if cls == "setfl_fs" else writeSetFL
        return fn(3, 0.5, 4, 0.75, eampots, pairpots, out=sink)
      run(log, "fmt %s %s %d" % (cls, bad, where), do)
      log.add("OUT", sink.getvalue())

# 5. malformed arguments: grid sizes/steps of wrong type, FS density dictionary with a missing species,
#    conventional density given to FS writer and vice versa, unsortable species, tuple / generator containers
BADGRIDS = [(3.0, 0.1, 3, 0.1), (3, 0.1, 3.0, 0.1), (3, "0.1", 3, 0.1), (3, 0.1, 3, None), (None, 0.1, 3, 0.1), (3, 0.1, "3", 0.1), (-2, 0.1, -3, 0.1), (True, 0.1, False, 0.1), (2, float("inf"), 2, float("nan"))]
for grid in BADGRIDS:
  for cls in ["setfl", "setfl_fs", "funcfl"]:
    case += 1
    sink = Sink(log, "out%d" % case)
    def do():
      eampots, pairpots = mkmodel((1, 0), ["poly"], ["morse"], ["pos"], fs=(cls == "setfl_fs"))
      if cls == "funcfl":
        return writeFuncFL(grid[0], grid[1], grid[2], grid[3], eampots, pairpots, out=sink)
      fn = writeSetFLFinnisSinclair if cls == "setfl_fs" else writeSetFL
      return fn(grid[0], grid[1], grid[2], grid[3], eampots, pairpots, out=sink)
    run(log, "badgrid %s %r" % (cls, grid), do)
    log.add("OUT", sink.getvalue())

def gen(xs):
  for x in xs:
    log.add("GEN", getattr(x, "species", None) or (x.speciesA, x.speciesB))
    yield x

for variant in ["missing", "swap_fs", "swap_conv", "unsortable", "tuple", "gen_pairs", "gen_eam", "dup_pairs", "comments_gen", "comments_none", "comments_int"]:
  case += 1
  sink = Sink(log, "out%d" % case)
  def do():
    fs = variant in ("missing", "swap_conv")
    eampots, pairpots = mkmodel((0, 1, 2), ["poly"], ["morse", "pos"], ["pos", "buck"], fs=fs)
    fn = writeSetFLFinnisSinclair if variant in ("missing", "swap_fs") else writeSetFL
    kw = {}
    if variant == "missing":
      del eampots[1].electronDensityFunction["Al"]
    elif variant == "unsortable":
      eampots[1].species = None
    elif variant == "tuple":
      eampots, pairpots = tuple(eampots), tuple(pairpots)
    elif variant == "gen_pairs":
      pairpots = gen(pairpots)
    elif variant == "gen_eam":
      eampots = gen(eampots)
    elif variant == "dup_pairs":
      pairpots = pairpots + [Potential("Cu", "Al", rec("pair:dup", "neg", Fail())), Potential("Al", "Al", rec("pair:dup2", "poly", Fail()))]
    elif variant == "comments_gen":
      kw["comments"] = (c for c in ["x", "y"])
    elif variant == "comments_none":
      kw["comments"] = None
    elif variant == "comments_int":
      kw["comments"] = [1, 2, 3]
    return fn(3, 0.5, 4, 0.75, eampots, pairpots, out=sink, **kw)
  run(log, "variant %s" % variant, do)
  log.add("OUT", sink.getvalue())

class BadSink(Sink):
  def write(self, s):
    Sink.write(self, s)
    raise IOError("disk full")

for cls in ["setfl", "setfl_fs", "funcfl"]:
  sink = BadSink(log, "bad" + cls)
  def do():
    eampots, pairpots = mkmodel((1, 0), ["poly"], ["morse"], ["pos"], fs=(cls == "setfl_fs"))
    if cls == "funcfl":
      return writeFuncFL(3, 0.5, 4, 0.75, eampots, pairpots, out=sink)
    fn = writeSetFLFinnisSinclair if cls == "setfl_fs" else writeSetFL
    return fn(3, 0.5, 4, 0.75, eampots, pairpots, out=sink)
  run(log, "badsink %s" % cls, do)

# 6. private helpers that other modules import
for scale_r in [True, False]:
  sink = Sink(log, "pp%s" % scale_r)
  eampots, pairpots = mkmodel((2, 0, 1), ["poly"], ["morse"], ["pos", "buck", "neg"], skip_pairs=[("Fe", "Cu")])
  run(log, "pairpots %s" % scale_r, lambda: _lammpsWriteEAM._writeSetFLPairPots(4, 0.7, eampots, pairpots, sink, scale_r=scale_r))
  run(log, "pairpots default", lambda: _lammpsWriteEAM._writeSetFLPairPots(3, 0.7, eampots, pairpots, sink))
  log.add("OUT", sink.getvalue())
sink = Sink(log, "vb")
run(log, "valueblock", lambda: _lammpsWriteEAM._writeValueBlock(sink, [1.0, 2.0, None, 3.0, 4.0, 5.0, 6.0, 7.0, 8.0, None, None, 9.0]))
run(log, "valueblock gen", lambda: _lammpsWriteEAM._writeValueBlock(sink, (x for x in [1.0, None, 2.0])))
run(log, "densfunc", lambda: _lammpsWriteEAM._writeDensityFunction(rec("d", "poly", Fail()), 4, 0.3, sink))
log.add("OUT", sink.getvalue())

# 7. through the configuration layer
INIS = [u"""[Tabulation]
target : setfl
cutoff_rho : 10.0
nrho : 6
cutoff : 5.0
nr : 7

[Pair]
O-O = as.buck 1.0 0.2 0.0
Ga-O = as.buck 70.0 0.2 0.0
In-O = as.buck 36.0 0.20 0.0

[EAM-Density]
O : density 2.0
Ga : as.zero
In : as.exponential 1.5 -0.5

[EAM-Embed]
Ga : as.sqrt -0.15449392139449653
In : as.sqrt -0.010691242237852016
O : as.zero

[Potential-Form]
density(r, C) = r/(C^12)
""", u"""[Tabulation]
target : setfl_fs
nrho : 5
drho : 0.5
nr : 6
dr : 0.4

[Potential-Form]
dens4(r, A, B) : A * (B-r)^4

[EAM-Embed]
Al = as.sqrt -1.0
Fe = as.polynomial 0.0 1.0 0.5

[EAM-Density]
Al->Al = dens4 0.1 2.5
Fe->Fe = dens4 0.2 2.4
Fe->Al = as.exponential 0.3 -1.0
Al->Fe = as.zero

[Pair]
Al-Al = as.buck 1000.0 0.3 10.0
Fe-Al = as.morse 1.2 2.0 0.4
""", u"""[Tabulation]
target : eam_adp
drho : 0.25
nrho : 5
nr : 6
dr : 0.5

[EAM-Embed]
Al : as.sqrt -1.0
Cu : as.polynomial 0.0 -1.0 0.25

[EAM-Density]
Al : as.exponential 1.0 -0.5
Cu : as.exponential 2.0 -0.75

[Pair]
Al-Al : as.buck 1000.0 0.3 10.0
Cu-Al : as.morse 1.2 2.0 0.4
Cu-Cu : as.zero

[EAM-ADP-Dipole]
Al-Al : as.polynomial 0.1 0.2
Al-Cu : as.zero
Cu-Cu : as.exponential 0.3 -0.2

[EAM-ADP-Quadrupole]
Al-Al : as.zero
Al-Cu : as.polynomial 0.0 0.0 0.3
Cu-Cu : as.constant 0.25
"""]
for i, ini in enumerate(INIS):
  def do():
    tab = Configuration().read(io.StringIO(ini))
    log.add("TAB", type(tab).__name__, tab.nr, repr(tab.cutoff), tab.nrho, repr(tab.cutoff_rho))
    sink = Sink(log, "ini%d" % i)
    tab.write(sink)
    return sink.getvalue()
  run(log, "ini %d" % i, do)

print("events", len(log.events))
print("digest", log.digest())

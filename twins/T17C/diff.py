"""Edit C: new convenience form `bmh` (as.bmh A rho sigma C D), a thin wrapper
re-using the existing buck and exponential callables.

Run with:  /venv/bin/python -W ignore /tmp/wtpy.py /tmp/twin_17 _twins/diffC.py
Part (a) prints a digest of EXISTING behaviour (identical on clean and edited tree).
Part (b) exercises the new form (skipped with a message on a clean tree).
"""
import hashlib, io, logging, math, os, subprocess, sys
logging.disable(logging.CRITICAL)
sys.path.insert(0, os.path.join(os.getcwd(), "_twins"))
from _common_digest import existing_behaviour_digest, ConfigurationException

from atsim.potentials import potentialfunctions as pf, potentialforms as pforms
from atsim.potentials.config import Configuration

NAME = "bmh"

def reference(r, A, rho, sigma, C, D):
  return A*math.exp((sigma-r)/rho) - C/r**6 - D/r**8

def central(f, r, h=1e-5):
  return (f(r+h) - f(r-h))/(2.0*h)

def close(a, b, rel=1e-6, abs_=1e-9):
  return abs(a-b) <= max(abs_, rel*max(abs(a), abs(b)))

# Tosi-Fumi style NaCl numbers (eV, Angstrom)
NACL = (0.2637, 0.317, 2.755, 6.99, 8.68)

CFG = """[Tabulation]
target : %s
cutoff : 6.0
nr : %d

[Pair]
Na-Cl : as.bmh 0.2637 0.317 2.755 6.99 8.68
Na-Na : sum(as.bmh 0.4225 0.317 2.34 1.05 0.50, as.coul 1 1)
Cl-Cl : tosi 0.2637 0.317 2.755 6.99 8.68
K-Cl : sum(trans(as.bornmayer 0.2637 0.317, as.constant -2.755), as.buck 0 1 6.99, as.exponential -8.68 -8) >=2.755 as.bmh 0.2637 0.317 2.755 6.99 8.68 >2.755 sum(trans(as.bornmayer 0.2637 0.317, as.constant -2.755), as.buck 0 1 6.99, as.exponential -8.68 -8)

[Potential-Form]
tosi(r, A, rho, sigma, C, D) = as.bmh(r, A, rho, sigma, C, D)
"""

def tabulate(target, nr):
  tab = Configuration().read(io.StringIO(CFG % (target, nr)))
  sio = io.StringIO()
  tab.write(sio)
  return tab, sio.getvalue()

def new_feature():
  func = getattr(pf, NAME)
  fact = getattr(pforms, NAME)
  params = [NACL, (0.4225, 0.317, 2.34, 1.05, 0.50), (1000.0, 0.2, 0.0, 32.0, 0.0), (0.0, 1.0, 1.0, 0.0, 5.0),
            (-3.0, 1.5, -2.0, -4.0, 2.5), (1, 2, 3, 4, 5), (0.0, 0.3, 0.0, 0.0, 0.0)]
  rs = [0.5, 0.7, 1.0, 1.9, 2.755, 3.3, 7.5, 12.0, 30.0]
  n = 0
  for args in params:
    inst = fact(*args)
    A, rho, sigma, C, D = args
    for r in rs:
      # C06: documented formula, identical through function and factory routes
      assert close(func(r, *args), reference(r, *args), 1e-13, 1e-300), (args, r)
      assert func(r, *args) == inst(r)
      assert func.deriv(r, *args) == inst.deriv(r)
      assert func.deriv2(r, *args) == inst.deriv2(r)
      # exact closed-form derivatives (tolerance relative to the largest term: the terms may cancel)
      e = math.exp((sigma-r)/rho)
      t1 = [-A/rho*e, 6.0*C/r**7, 8.0*D/r**9]
      t2 = [A/rho**2*e, -42.0*C/r**8, -72.0*D/r**10]
      assert abs(func.deriv(r, *args) - sum(t1)) <= 1e-13*max(abs(t) for t in t1), (args, r)
      assert abs(func.deriv2(r, *args) - sum(t2)) <= 1e-13*max(abs(t) for t in t2), (args, r)
      # C07: analytic derivatives against central differences
      assert close(func.deriv(r, *args), central(lambda x: func(x, *args), r), 1e-6, 1e-8), (args, r)
      assert close(func.deriv2(r, *args), central(lambda x: func.deriv(x, *args), r), 1e-6, 1e-8), (args, r)
      n += 1
  print("new: %d (params, r) points: value == formula, deriv/deriv2 == closed form == finite differences" % n)
  # reduces to the forms it wraps
  for r in rs:
    assert close(func(r, 1000.0, 0.2, 0.0, 32.0, 0.0), pf.buck(r, 1000.0, 0.2, 32.0), 1e-14, 1e-300)
    assert close(func.deriv(r, 1000.0, 0.2, 0.0, 32.0, 0.0), pf.buck.deriv(r, 1000.0, 0.2, 32.0), 1e-14, 1e-300)
    assert close(func.deriv2(r, 1000.0, 0.2, 0.0, 32.0, 0.0), pf.buck.deriv2(r, 1000.0, 0.2, 32.0), 1e-14, 1e-300)
    assert func(r, 7.0, 0.4, 0.0, 0.0, 0.0) == pf.bornmayer(r, 7.0, 0.4)
  print("new: bmh(sigma=0, D=0) == buck, bmh(sigma=C=D=0) == bornmayer")

  # potable routes: as.NAME params ; as.NAME(r, params) in a formula ; inside sum() ; documented modifier equivalent
  tab, lammps = tabulate("LAMMPS", 13)
  pots = dict(((p.speciesA, p.speciesB), p) for p in tab.potentials)
  for r in [0.5, 1.5, 2.755, 2.9, 4.0, 5.5]:
    e = reference(r, *NACL)
    assert close(pots[("Na", "Cl")].energy(r), e, 1e-13)
    assert close(pots[("Cl", "Cl")].energy(r), e, 1e-13)
    if r >= 2.755:
      # hand-composed equivalent; only for r >= sigma because the as.bornmayer inside trans() is a potable
      # potential acting for (r - sigma) > 0 only (and as.bornmayer itself divides 0/0 at r - sigma == 0)
      assert close(pots[("K", "Cl")].energy(r), e, 1e-12)
      assert close(pots[("Na", "Na")].energy(r), reference(r, 0.4225, 0.317, 2.34, 1.05, 0.50) + pf.coul(r, 1, 1), 1e-13)
    # C01: force is minus the derivative of the same function
    assert close(pots[("Na", "Cl")].force(r), -func.deriv(r, *NACL), 1e-12)
    assert close(pots[("Na", "Na")].force(r), -(func.deriv(r, 0.4225, 0.317, 2.34, 1.05, 0.50) + pf.coul.deriv(r, 1, 1)), 1e-12)
  # C01: read the LAMMPS table back
  block = lammps.split("Na-Cl")[1].split("\n\n")[1].strip().splitlines()
  assert len(block) == 12
  for line in block:
    i, r, e, f = line.split()
    r = float(r)
    assert close(float(e), reference(r, *NACL), 1e-6, 1e-7) and close(float(f), -func.deriv(r, *NACL), 1e-6, 1e-7)
  print("new: potable routes (as.%s ... / as.%s(r,..) in formula / inside sum() / hand-composed sum(trans(as.bornmayer..), as.buck 0 1 C, as.exponential -D -8) for r >= sigma) agree; LAMMPS table read back OK" % (NAME, NAME))
  for target, nr in [("LAMMPS", 13), ("DL_POLY", 16), ("GULP", 13)]:
    _t, s1 = tabulate(target, nr)
    _t, s2 = tabulate(target, nr)
    assert s1 == s2
    print("new: %-8s sha256 %s" % (target, hashlib.sha256(s1.encode()).hexdigest()))

  # C16: wrong parameter counts / non numeric -> configuration errors
  for bad in ["as.bmh 1.0 2.0 3.0 4.0", "as.bmh 1 2 3 4 5 6", "as.bmh 1.0 rho 2.0 3 4", "as.bmh", "sum(as.bmh 1.0 2.0, as.zero)"]:
    cfg = "[Tabulation]\ntarget : LAMMPS\nnr : 5\n\n[Pair]\nA-B : %s\n" % bad
    try:
      Configuration().read(io.StringIO(cfg)).write(io.StringIO())
      raise AssertionError("accepted: " + bad)
    except ConfigurationException as e:
      print("new: '%s' -> %s" % (bad, type(e).__name__))
  cfg = "[Tabulation]\ntarget : LAMMPS\nnr : 5\n\n[Pair]\nA-B : f 1\n\n[Potential-Form]\nf(r, a) = as.bmh(r, a, 1, 2, 3)\n"
  try:
    Configuration().read(io.StringIO(cfg)).write(io.StringIO())
    raise AssertionError("accepted")
  except ConfigurationException as e:
    print("new: as.bmh(r, a, 1, 2, 3) in formula -> %s" % type(e).__name__)
  # C20: a table form may not take the built-in's name
  cfg = "[Tabulation]\ntarget : LAMMPS\nnr : 5\n\n[Pair]\nA-B : as.bmh 1 1 1 1 1\n\n[Table-Form:as.bmh]\nxy : 0 1 1 2 2 3 3 4 4 5\n"
  try:
    Configuration().read(io.StringIO(cfg)).write(io.StringIO())
    raise AssertionError("accepted")
  except ConfigurationException as e:
    print("new: [Table-Form:as.bmh] -> %s" % type(e).__name__)
  # C17: failed evaluation (r = 0 in a format that tabulates r = 0) leaves nothing behind
  cfg = "[Tabulation]\ntarget : GULP\nnr : 5\ncutoff : 2.0\n\n[Pair]\nA-B : >=0 as.bmh 1 1 1 1 1\n"
  sio = io.StringIO()
  try:
    Configuration().read(io.StringIO(cfg)).write(sio)
    print("new: r=0 evaluation did not fail")
  except Exception as e:
    print("new: r=0 in GULP table -> %s, bytes written: %d" % (type(e).__name__, len(sio.getvalue())))
    assert sio.getvalue() == ""


def main():
  digest, n = existing_behaviour_digest(new_names=[NAME])
  print("EXISTING-BEHAVIOUR DIGEST %s (%d records)" % (digest, n))
  if not hasattr(pf, NAME):
    print("new: form '%s' absent (clean tree)" % NAME)
    return
  new_feature()
  if "--child" not in sys.argv:
    outs = set()
    for seed in ["0", "1", "4242"]:
      env = dict(os.environ, PYTHONHASHSEED=seed)
      o = subprocess.check_output([sys.executable, "-W", "ignore", "/tmp/wtpy.py", os.getcwd(), "_twins/diffC.py", "--child"], env=env)
      outs.add(hashlib.sha256(o).hexdigest())
    assert len(outs) == 1, outs
    print("new: output of this script identical for PYTHONHASHSEED=0,1,4242 (sha256 %s)" % outs.pop()[:16])

main()

"""Differential script for twin C (FilteredConfigParser views through one shared
loop-based helper; [Pair] view read once by Pair_Potential_Builder; pair object
creation helpers of the tabulation factories inlined).

Exercises FilteredConfigParser through the public API: the four filtered
views with many include / exclude specifications (lists, tuples, sets, dict,
strings, empty, unknown labels, non-containers), independence of several views
of one parser, pass-through of unfiltered attributes, and whole tabulations
(pair, EAM, EAM Finnis-Sinclair, ADP) written through Configuration and the
potable command line.  Additionally drives Pair_Potential_Builder,
Pair_Potentials_From_Tuples_Builder and the factories' extract_* hooks directly,
including the error paths (unknown potential form / modifier, bad parameters).
Prints one sha256 digest of everything observed
(outputs, reprs, exception types + messages, log messages)."""
import hashlib
import io
import logging
import os
import sys
import tempfile

from atsim.potentials.config import ConfigParser, FilteredConfigParser, Configuration
from atsim.potentials.config._potential_form_registry import Potential_Form_Registry
from atsim.potentials.config._modifier_registry import Modifier_Registry
from atsim.potentials.config._pair_potential_builder import Pair_Potential_Builder, Pair_Potentials_From_Tuples_Builder
from atsim.potentials.config._tabulation_factories import TABULATION_FACTORIES

LOG = []


class _Collect(logging.Handler):
  def emit(self, record):
    LOG.append("%s|%s|%s" % (record.name, record.levelname, record.getMessage()))


root = logging.getLogger()
root.handlers[:] = [_Collect()]
root.setLevel(logging.DEBUG)

OUT = []


def emit(*args):
  OUT.append(" ".join(str(a) for a in args))


PAIR_CFG = u"""[Tabulation]
target : {target}
cutoff : 6.0
nr : {nr}

[Pair]
O-O = as.buck 9547.96 0.2192 32.0
U-O = as.buck 1761.775 0.35643 0.0
Th-O = as.buck 1144.6 0.3949 0.0
U-U = as.bornmayer 18600 0.2747
Th-U = as.bornmayer 18600.0 0.27468
Gd-O = >0 as.buck 1885.75 0.3399 20.34 >=3.0 as.zero
Th-Th = as.lj 0.01 2.5
O-Gd2 = as.constant 1.5
"""

EAM_CFG = u"""[Tabulation]
target : {target}
cutoff_rho : 50.0
nrho : 50
cutoff : 6.0
nr : 60

[Pair]
O-O = as.buck 1.0 0.2 0.0
Mg-O = as.buck 3.0 0.2 0.75
Al-O = as.buck 15.0 0.2 0.0
Ga-O = as.buck 70.0 0.2 0.0
In-O = as.buck 36.0 0.20 0.0

[EAM-Density]
O : density 8.0
Al : as.exponential 2.0 1.5
Ga : as.exponential 1.0 2.5

[EAM-Embed]
Ga : as.sqrt -0.15449392139449653
In : as.sqrt -0.010691242237852016
Al : as.polynomial 0.0 1.0 2.0

[Potential-Form]
density(r, C) = r/(C^12)
"""

FS_CFG = u"""[Tabulation]
target : {target}
cutoff_rho : 40.0
nrho : 40
cutoff : 5.0
nr : 50

[Pair]
Al-Al = as.buck 10.0 0.3 0.0
Al-Fe = as.buck 20.0 0.3 1.0
Fe-Fe = as.bornmayer 30.0 0.25
Cu-Fe = as.bornmayer 35.0 0.25

[EAM-Density]
Al->Al = as.exponential 1.0 2.0
Al->Fe = as.exponential 2.0 2.0
Fe->Al = as.exponential 3.0 1.0
Fe->Fe = as.exponential 4.0 1.0
Cu->Fe = as.exponential 5.0 1.0

[EAM-Embed]
Al : as.sqrt -1.0
Fe : as.sqrt -2.0
Ni : as.sqrt -3.0
"""

ADP_CFG = u"""[Tabulation]
target : eam_adp
cutoff_rho : 40.0
nrho : 40
cutoff : 5.0
nr : 50

[EAM-Embed]
Al : as.sqrt -1.0
Cu : as.sqrt -2.0

[EAM-Density]
Al : as.exponential 1.0 2.0
Cu : as.exponential 2.0 2.0

[Pair]
Al-Al : as.buck 10.0 0.3 0.0
Cu-Al : as.buck 20.0 0.3 0.0
Cu-Cu : as.buck 30.0 0.3 0.0

[EAM-ADP-Dipole]
Al-Al : as.constant 0.1
Al-Cu : as.constant 0.2
Cu-Cu : as.constant 0.3

[EAM-ADP-Quadrupole]
Al-Al : as.constant 0.4
Al-Cu : as.constant 0.5
Cu-Cu : as.constant 0.6
"""

CONFIGS = [
  ("pair-lammps", PAIR_CFG.format(target="LAMMPS", nr=40)),
  ("pair-dlpoly", PAIR_CFG.format(target="DLPOLY", nr=44)),
  ("pair-gulp", PAIR_CFG.format(target="GULP", nr=30)),
  ("eam-setfl", EAM_CFG.format(target="setfl")),
  ("eam-dlpoly", EAM_CFG.format(target="DL_POLY_EAM")),
  ("fs-setfl", FS_CFG.format(target="setfl_fs")),
  ("fs-dlpoly", FS_CFG.format(target="DL_POLY_EAM_fs")),
  ("adp", ADP_CFG),
]


class Labels(object):
  """Container that only supports `in` - counts look-ups."""

  def __init__(self, *labels):
    self.labels = labels
    self.lookups = []

  def __contains__(self, item):
    self.lookups.append(item)
    return item in self.labels


def filter_specs():
  """(name, kwargs) pairs - fresh objects on every call"""
  return [
    ("none", {}),
    ("ex-None-inc-None", dict(exclude=None, include=None)),
    ("ex-empty", dict(exclude=[])),
    ("ex-empty-tuple", dict(exclude=())),
    ("inc-empty", dict(include=[])),
    ("inc-empty-tuple", dict(include=())),
    ("inc-empty-set", dict(include=set())),
    ("inc-empty-ex-empty", dict(include=[], exclude=[])),
    ("inc-empty-ex-Th", dict(include=[], exclude=["Th"])),
    ("inc-U-ex-empty", dict(include=["U", "O"], exclude=[])),
    ("ex-Th", dict(exclude=["Th"])),
    ("ex-O", dict(exclude=["O"])),
    ("ex-unknown", dict(exclude=["Xx", "Zz"])),
    ("ex-Th-unknown", dict(exclude=("Th", "Xx"))),
    ("ex-Al", dict(exclude=["Al"])),
    ("ex-Fe", dict(exclude={"Fe"})),
    ("ex-Ga-In", dict(exclude=frozenset(["Ga", "In"]))),
    ("ex-Cu", dict(exclude=["Cu"])),
    ("inc-U-O", dict(include=["U", "O"])),
    ("inc-O-U", dict(include=("O", "U"))),
    ("inc-O-U-unknown", dict(include=["O", "U", "Xx"])),
    ("inc-unknown", dict(include=["Xx"])),
    ("inc-Al-O", dict(include={"Al", "O"})),
    ("inc-Al-Fe", dict(include=["Al", "Fe"])),
    ("inc-Al-Cu", dict(include=["Al", "Cu"])),
    ("inc-Al", dict(include=["Al"])),
    ("inc-dict", dict(include={"O": 1, "Ga": 2, "Al": 3, "Fe": 4})),
    ("inc-dupes", dict(include=["O", "O", "Th", "Th", "Gd"])),
    ("inc-string-UO", dict(include="UO")),
    ("inc-string-Th,O", dict(include="Th,O")),
    ("ex-string-Th", dict(exclude="Th")),
    ("ex-string-AlFe", dict(exclude="AlFe")),
    ("inc-lower", dict(include=["u", "o", "al"])),
    ("inc-int", dict(include=5)),
    ("ex-int", dict(exclude=5)),
    ("ex-zero", dict(exclude=0)),
    ("inc-zero", dict(include=0)),
    ("inc-mixed", dict(include=["O", None, 3, ("Al",), "Al"])),
    ("inc-unhashable-items", dict(include=[["O"], "O", "Ga"])),
    ("both", dict(include=["U", "O"], exclude=["Th"])),
    ("both-strings", dict(include="U", exclude="Th")),
    ("inc-counter", dict(include=Labels("O", "Al", "Fe", "U"))),
    ("ex-counter", dict(exclude=Labels("O", "Th"))),
  ]


VIEWS = ["pair", "eam_embed", "eam_density", "eam_density_fs"]


def describe(callable_):
  try:
    return "OK " + repr(callable_())
  except Exception as e:  # noqa
    return "EXC %s: %s" % (type(e).__name__, e)


def make_filtered(cfg, kwargs):
  cp = ConfigParser(io.StringIO(cfg))
  return cp, FilteredConfigParser(cp, **kwargs)


def check_views():
  for cfgname, cfg in CONFIGS:
    for specname, kwargs in filter_specs():
      tag = "%s/%s" % (cfgname, specname)
      try:
        cp, fcp = make_filtered(cfg, kwargs)
      except Exception as e:
        emit(tag, "CONSTRUCT-EXC", type(e).__name__, e)
        continue
      for view in VIEWS:
        emit(tag, view, describe(lambda: getattr(fcp, view)))
        # second read must be independent of and equal to the first
        emit(tag, view, "again", describe(lambda: getattr(fcp, view)))
        emit(tag, view, "wrapped", describe(lambda: getattr(cp, view)))
      for v in kwargs.values():
        if isinstance(v, Labels):
          emit(tag, "lookups", v.lookups)
      # results are fresh lists: mutating one must not leak into the next read
      try:
        first = fcp.pair
        n = len(first)
        del first[:]
        emit(tag, "fresh", n, len(fcp.pair), len(cp.pair))
      except Exception as e:
        emit(tag, "fresh-EXC", type(e).__name__)
      # pass through of everything else
      emit(tag, "tabulation", describe(lambda: fcp.tabulation.target),
           describe(lambda: fcp.tabulation.nr), describe(lambda: fcp.species),
           describe(lambda: fcp.potential_form), describe(lambda: fcp.parsed_sections),
           describe(lambda: fcp.orphan_sections),
           describe(lambda: fcp.parse_pair_like("EAM-ADP-Dipole")))
      emit(tag, "isinstance", isinstance(fcp, ConfigParser), type(fcp).__name__,
           fcp.__wrapped__ is cp)


def check_independent_views():
  """Several filtered views of one and the same parser do not influence each other"""
  for cfgname, cfg in CONFIGS:
    cp = ConfigParser(io.StringIO(cfg))
    excl = ["O"]
    incl = ["O", "U", "Al", "Fe"]
    a = FilteredConfigParser(cp, exclude=excl)
    b = FilteredConfigParser(cp, include=incl)
    c = FilteredConfigParser(cp)
    d = FilteredConfigParser(a, exclude=["Al", "U"])  # nested
    e = FilteredConfigParser(b, include=["O"])  # nested
    for rnd in range(2):
      for name, p in zip("abcde", (a, b, c, d, e)):
        for view in VIEWS:
          emit("indep", cfgname, rnd, name, view, describe(lambda: getattr(p, view)))
      # callers' lists are consulted live - mutate them between rounds
      excl.append("Fe")
      incl.pop(0)
    emit("indep", cfgname, "orig", describe(lambda: cp.pair))


def write_tabulation(tabulation):
  sio = io.StringIO()
  try:
    tabulation.write(sio)
    return sio.getvalue()
  except TypeError:
    bio = io.BytesIO()
    tabulation.write(bio)
    return repr(bio.getvalue())


def check_tabulations():
  for cfgname, cfg in CONFIGS:
    for specname, kwargs in filter_specs():
      if "counter" in specname:
        pass
      tag = "tab %s/%s" % (cfgname, specname)
      try:
        cp, fcp = make_filtered(cfg, kwargs)
      except Exception as e:
        emit(tag, "CONSTRUCT-EXC", type(e).__name__, e)
        continue
      del LOG[:]
      try:
        tabulation = Configuration().read_from_parser(fcp)
        text = write_tabulation(tabulation)
        emit(tag, "OK", type(tabulation).__name__, hashlib.sha256(text.encode("utf-8")).hexdigest(), len(text))
      except Exception as e:
        emit(tag, "EXC", type(e).__name__, e)
      emit(tag, "LOG", hashlib.sha256("\n".join(LOG).encode("utf-8")).hexdigest(), len(LOG))
      for v in kwargs.values():
        if isinstance(v, Labels):
          emit(tag, "lookups", v.lookups)


def check_potable():
  from atsim.potentials.tools.potable import main as potable_main
  tmpdir = tempfile.mkdtemp()
  argsets = [
    [],
    ["--include-species", "O", "U"],
    ["--include-species", "U", "O", "Xx"],
    ["--include-species"],
    ["--exclude-species"],
    ["--exclude-species", "Th"],
    ["--exclude-species", "Al", "Fe"],
    ["--include-species", "Al", "O", "Ga"],
    ["--include-species", "Al", "Fe"],
    ["--exclude-species", "Cu", "Ni"],
  ]
  for cfgname, cfg in CONFIGS:
    cfgpath = os.path.join(tmpdir, cfgname + ".aspot")
    with open(cfgpath, "w") as f:
      f.write(cfg)
    for i, extra in enumerate(argsets):
      outpath = os.path.join(tmpdir, "%s_%d.out" % (cfgname, i))
      tag = "potable %s %s" % (cfgname, " ".join(extra))
      del LOG[:]
      old_argv = sys.argv
      old_stdout, old_stderr = sys.stdout, sys.stderr
      sys.stdout, sys.stderr = io.StringIO(), io.StringIO()
      sys.argv = ["potable"] + [cfgpath, outpath] + extra
      # argparse: nargs='*' options would swallow the positionals when placed last
      sys.argv = ["potable"] + extra + (["--"] if extra else []) + [cfgpath, outpath]
      try:
        try:
          potable_main()
          status = "OK"
        except SystemExit as e:
          status = "EXIT %r" % (e.code,)
        except Exception as e:
          status = "EXC %s: %s" % (type(e).__name__, e)
        captured = sys.stdout.getvalue() + "|" + sys.stderr.getvalue()
      finally:
        sys.argv = old_argv
        sys.stdout, sys.stderr = old_stdout, old_stderr
        # potable installs its own logging configuration
        root.handlers[:] = [h for h in root.handlers if isinstance(h, _Collect)] or [_Collect()]
        root.setLevel(logging.DEBUG)
      if os.path.exists(outpath):
        with open(outpath, "rb") as f:
          content = hashlib.sha256(f.read()).hexdigest()
      else:
        content = "no-output"
      captured = captured.replace(tmpdir, "TMP")
      emit(tag, status, content, hashlib.sha256(captured.encode("utf-8")).hexdigest(),
           hashlib.sha256("\n".join(LOG).replace(tmpdir, "TMP").encode("utf-8")).hexdigest(), len(LOG))
    # query actions go through the filtered parser too
    for q in (["--list-items"], ["--list-item-labels"]):
      for extra in (["--exclude-species", "O"], ["--include-species", "O", "Al"]):
        old_argv = sys.argv
        old_stdout, old_stderr = sys.stdout, sys.stderr
        sys.stdout, sys.stderr = io.StringIO(), io.StringIO()
        sys.argv = ["potable"] + extra + q + [cfgpath]
        try:
          try:
            potable_main()
            status = "OK"
          except SystemExit as e:
            status = "EXIT %r" % (e.code,)
          except Exception as e:
            status = "EXC %s: %s" % (type(e).__name__, e)
          captured = sys.stdout.getvalue() + "|" + sys.stderr.getvalue()
        finally:
          sys.argv = old_argv
          sys.stdout, sys.stderr = old_stdout, old_stderr
          root.handlers[:] = [h for h in root.handlers if isinstance(h, _Collect)] or [_Collect()]
          root.setLevel(logging.DEBUG)
        emit("potable-query", cfgname, q, extra, status,
             hashlib.sha256(captured.replace(tmpdir, "TMP").encode("utf-8")).hexdigest())


BAD_PAIR_CFGS = [
  ("unknown-form", u"[Pair]\nO-O = as.buck 1.0 0.2 0.0\nU-O = as.nosuch 1.0\nTh-O = as.buck 1.0 0.2 0.0\n"),
  ("unknown-modifier", u"[Pair]\nO-O = as.buck 1.0 0.2 0.0\nTh-O = nosuchmod(as.buck 1.0 0.2 0.0)\n"),
  ("bad-args", u"[Pair]\nO-O = as.buck 1.0 0.2 0.0\nU-O = as.buck 1.0\n"),
  ("spline-bad", u"[Pair]\nU-O = >0 as.buck 1.0 0.2 0.0 >1.0 exp_spline >=2.0 as.zero\nO-O = as.zero\n"),
  ("sum-ok", u"[Pair]\nU-O = sum(as.buck 1.0 0.2 0.0, as.constant 2.0)\nO-O = as.zero\nTh-Th = as.constant 3.0\n"),
  ("custom-form", u"[Pair]\nU-O = mine 2.0\nTh-O = mine 3.0\nO-O = as.zero\n[Potential-Form]\nmine(r, A) = A*r\n"),
  ("no-pair", u"[Tabulation]\ntarget : LAMMPS\n"),
  ("empty-pair", u"[Pair]\n"),
]

PAIR_FILTERS = [
  ("none", None),
  ("ex-empty", dict(exclude=[])),
  ("inc-empty", dict(include=[])),
  ("ex-U", dict(exclude=["U"])),
  ("ex-Th", dict(exclude=("Th",))),
  ("ex-O", dict(exclude={"O"})),
  ("inc-O", dict(include=["O"])),
  ("inc-O-Th", dict(include=["Th", "O"])),
  ("inc-U-O-Xx", dict(include=["U", "O", "Xx"])),
]

RS = [0.5, 1.0, 1.5, 2.5, 4.0]


def describe_pots(tag, pots):
  emit(tag, "n", len(pots), [(p.speciesA, p.speciesB) for p in pots])
  for p in pots:
    vals = []
    for r in RS:
      try:
        vals.append(repr(p.energy(r)))
      except Exception as e:
        vals.append(type(e).__name__)
    emit(tag, p.speciesA, p.speciesB, vals)


def check_pair_builders():
  for cfgname, cfg in BAD_PAIR_CFGS + [(n, c) for (n, c) in CONFIGS]:
    for filtname, filt in PAIR_FILTERS:
      tag = "pairbuilder %s/%s" % (cfgname, filtname)
      del LOG[:]
      try:
        cp = ConfigParser(io.StringIO(cfg))
        if filt is not None:
          cp = FilteredConfigParser(cp, **filt)
        pfr = Potential_Form_Registry(cp, register_standard=True, register_pymath_functions=True)
        mr = Modifier_Registry()
      except Exception as e:
        emit(tag, "SETUP-EXC", type(e).__name__, e)
        continue
      try:
        builder = Pair_Potential_Builder(cp, pfr, mr)
        pots = builder.potentials
        emit(tag, "builder", pots is builder.potentials)
        describe_pots(tag, pots)
      except Exception as e:
        emit(tag, "builder-EXC", type(e).__name__, e)
      for section in ("Pair", "EAM-ADP-Dipole", "EAM-ADP-Quadrupole"):
        try:
          rows = cp.parse_pair_like(section)
          tb = Pair_Potentials_From_Tuples_Builder(rows, pfr, mr, section)
          describe_pots(tag + " tuples " + section, tb.potentials)
          emit(tag, section, tb.potential_tuples is rows, tb.log_section_name)
        except Exception as e:
          emit(tag, "tuples-EXC", section, type(e).__name__, e)
      for target in ("LAMMPS", "GULP", "setfl", "eam_adp"):
        factory = TABULATION_FACTORIES[target]
        try:
          describe_pots(tag + " factory " + target, factory.extract_potential_objects(cp, pfr, mr))
        except Exception as e:
          emit(tag, "factory-EXC", target, type(e).__name__, e)
      adp = TABULATION_FACTORIES["eam_adp"]
      for fname in ("extract_dipoles", "extract_quadrupoles"):
        try:
          describe_pots(tag + " " + fname, getattr(adp, fname)(cp, pfr, mr))
        except Exception as e:
          emit(tag, fname + "-EXC", type(e).__name__, e)
      emit(tag, "LOG", len(LOG), hashlib.sha256("\n".join(LOG).encode("utf-8")).hexdigest())


def main():
  check_pair_builders()
  check_views()
  check_independent_views()
  check_tabulations()
  check_potable()
  text = "\n".join(OUT)
  if "--dump" in sys.argv:
    sys.stdout.write(text + "\n")
  print("lines", len(OUT))
  print("digest", hashlib.sha256(text.encode("utf-8")).hexdigest())


main()

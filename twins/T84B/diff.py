"""Differential script for twin B (atsim.potentials.config lint clean-ups).

Run with:  /venv/bin/python -W ignore /tmp/wtpy.py /tmp/wt_r8_4 _twins/diffB.py
Prints one sha256 digest over everything that was produced (values, output, log records, exceptions).
"""
import contextlib
import hashlib
import io
import itertools
import logging
import os
import shutil
import sys
import tempfile

from atsim.potentials.config import Configuration, ConfigParser, ConfigParserOverrideTuple, FilteredConfigParser
from atsim.potentials.config import Potential_Form_Registry, Modifier_Registry
from atsim.potentials.config import _common, _config_parser, _eam_potential_builder, _potential_form_builder
from atsim.potentials.config._eam_potential_builder import EAM_Potential_Builder, EAM_Potential_Builder_FS
from atsim.potentials.config._pair_potential_builder import Pair_Potential_Builder
from atsim.potentials.referencedata import Reference_Data
from atsim.potentials.tools import potable

LOG = []

_log_stream = io.StringIO()
_handler = logging.StreamHandler(_log_stream)
_handler.setFormatter(logging.Formatter("%(name)s|%(levelname)s|%(message)s"))
logging.getLogger().addHandler(_handler)
logging.getLogger().setLevel(logging.DEBUG)


def _drain_log():
  v = _log_stream.getvalue()
  _log_stream.seek(0)
  _log_stream.truncate()
  return v


def rec(label, thunk):
  try:
    v = thunk()
    LOG.append("%s => %r" % (label, v))
  except BaseException as e:  # noqa
    LOG.append("%s !! %s: %s | cause=%s ctx=%s" % (label, type(e).__name__, e, type(e.__cause__).__name__, type(e.__context__).__name__))
  LOG.append("   log: %r" % _drain_log())


def O(s, k, v):
  return ConfigParserOverrideTuple(s, k, v)


# ------------------------------------------------------------------ [Tabulation] cut-off logic
def tab(body):
  return ConfigParser(io.StringIO(u"[Tabulation]\n" + body + u"\n[Pair]\nO-O : as.constant 1.0\n"))


VALS = [None, "0", "-1", "1", "2", "5", "0.1", "0.7", "-0.5", "10.0", "abc", "1e-3"]
for nr, dr, cutoff in itertools.product([None, "0", "-1", "1", "2", "8", "2.5", "x"], [None, "0", "-0.5", "0.1", "abc"], [None, "0", "-2", "0.7", "10.0", "q"]):
  body = []
  if nr is not None: body.append("nr : " + nr)
  if dr is not None: body.append("dr : " + dr)
  if cutoff is not None: body.append("cutoff : " + cutoff)
  rec("tab r %r" % (body,), lambda: (tab("\n".join(body)).tabulation.nr, tab("\n".join(body)).tabulation.cutoff))
  body2 = [b.replace("nr :", "nrho :").replace("dr :", "drho :").replace("cutoff :", "cutoff_rho :") for b in body]
  rec("tab rho %r" % (body2,), lambda: (tab("\n".join(body2)).tabulation.nrho, tab("\n".join(body2)).tabulation.cutoff_rho, repr(tab("\n".join(body2)).tabulation)))

rec("no tabulation", lambda: repr(ConfigParser(io.StringIO(u"[Pair]\nA-B: as.zero\n")).tabulation))
for target in ["LAMMPS", "lammps_eam_alloy", "LAMMPS_eam_alloy", "DL_POLY", "whatever", ""]:
  rec("target %r" % target, lambda: tab("target : " + target).tabulation.target)

# ------------------------------------------------------------------ general parsing
BIG = u"""[Variables]
A : 1000.0
rho = 0.3

[Tabulation]
target : setfl
nr : 10
dr : 0.5
nrho : 5
cutoff_rho : 20.0

[Pair]
O-O : as.buck ${A} ${rho} 32.0
Mg - O : >0 as.zbl 12 8 >=0.5 sum(as.buck 1280 0.3 0.0, pow(as.constant 2, as.constant 3)) >1.5 as.zero
U-U : myform 1.0  2.0
Gd-O : tabby

[Potential-Form]
myform(r, a , b) : a*r + b
other( r_ij,\tq ) = q/r_ij

[Table-Form:tabby]
interpolation : cubic_spline
x : 0 1 2 3 4
y : 5 4 3 2 1

[Table-Form: spacey ]
xy : 0 1 1 2 2 3 3 5

[EAM-Embed]
Al : as.sqrt -1.0
Cu : >=0 as.sqrt -2.0 >5 as.constant 1

[EAM-Density]
%s

[Species]
Al.lattice_constant : 4.05
Al.lattice_type : bcc
Xx.atomic_mass : 3.0
Xx.atomic_number : 200
Xx . charge : -1.5
Xx.other : hello

[Orphan]
k : v

[Another:One]
z = 1
"""
DENS_STD = u"Al : as.exponential 1.0 -1.0\nCu : as.exponential 2.0 -1.5"
DENS_FS = u"Al->Al : as.exponential 1.0 -1.0\nCu -> Al : as.exponential 2.0 -1.5\nAl->Cu : as.zero"
PROPS = ["pair", "potential_form", "table_form", "eam_embed", "eam_density", "eam_density_fs", "parsed_sections", "orphan_sections", "species"]


def props(cp):
  out = []
  for p in PROPS:
    try:
      out.append((p, getattr(cp, p)))
    except Exception as e:  # noqa
      out.append((p, type(e).__name__, str(e)))
  t = cp.tabulation
  out.append((t.target, t.nr, t.cutoff, t.nrho, t.cutoff_rho))
  return out


for dens in [DENS_STD, DENS_FS, u"", u"Al : as.zero\nCu->Al : as.zero", u"Al->Cu->Al : as.zero"]:
  rec("BIG props dens=%r" % dens, lambda: props(ConfigParser(io.StringIO(BIG % dens))))

cp = ConfigParser(io.StringIO(BIG % DENS_STD))
raw = cp.raw_config_parser
for section in ["Variables", "Pair", "Potential-Form", "Table-Form:tabby", "Table-Form: spacey ", "Species", "Nope", "", "Tabulation"]:
  rec("options(%r)" % section, lambda: raw.options(section))
  rec("section keys(%r)" % section, lambda: (list(raw[section]), len(raw[section]), bool(raw[section]), list(raw[section].items())))
  for opt in ["A", "rho", " A ", "O-O", "Mg-O", "Mg - O", "myform(r,a,b)", "myform(r, a, b)", "other(r_ij,q)", "x", "nr", "missing", "Xx.charge"]:
    rec("has_option(%r,%r)" % (section, opt), lambda: raw.has_option(section, opt))
    rec("get(%r,%r)" % (section, opt), lambda: raw.get(section, opt))
    rec("get(%r,%r,fallback)" % (section, opt), lambda: raw.get(section, opt, fallback="FB"))
rec("sections", lambda: raw.sections())
rec("defaults", lambda: list(raw.defaults().items()))

# dictionary type used by the raw parser
d = _config_parser._ConfigParserDict()
def dict_ops():
  d["a b"] = 1
  d[" a\tb "] = 2
  d["f(x, y)"] = 3
  out = [list(d.items()), d["ab"], d["f( x,y )"], "a b" in d, "ab" in d]
  del d["a  b"]
  out.append(list(d.keys()))
  try:
    d["nope "]
  except KeyError as e:
    out.append(("KeyError", e.args))
  try:
    del d["nope "]
  except KeyError as e:
    out.append(("KeyError", e.args))
  return out
rec("_ConfigParserDict", dict_ops)

BAD_FILES = {
  "dup option": u"[Pair]\nO-O : as.zero\nO-O : as.zero\n",
  "dup option ws": u"[Potential-Form]\nf(r, a) : 1\nf(r,a) : 2\n",
  "dup section": u"[Pair]\nO-O : as.zero\n[Pair]\nA-O : as.zero\n",
  "dup pair rev": u"[Pair]\nO-Mg : as.zero\nMg-O : as.zero\n",
  "bad pair key": u"[Pair]\nO-Mg-X : as.zero\n",
  "bad pair key2": u"[Pair]\nOMg : as.zero\n",
  "no header": u"O-Mg : as.zero\n",
  "bad interp": u"[Pair]\nO-O : as.buck ${missing} 1 2\n",
  "bad potential": u"[Pair]\nO-O : >>3 as.buck 1 2\n",
  "bad potential2": u"[Pair]\nO-O : sum(as.buck 1 2,\n",
  "dup table": u"[Table-Form:a]\nxy : 1 2\n[Table-Form: a ]\nxy: 2 3\n[Table-Form:b]\nxy: 1 2\n",
  "table x only": u"[Table-Form:a]\nx : 1 2\n",
  "table x y xy": u"[Table-Form:a]\nx : 1 2\ny: 2 3\nxy: 1 2\n",
  "table len": u"[Table-Form:a]\nx : 1 2\ny: 2 3 4\n",
  "table odd": u"[Table-Form:a]\nxy: 2 3 4\n",
  "table nan": u"[Table-Form:a]\nxy: 2 three\n",
  "table x nan": u"[Table-Form:a]\nx: 2 three\ny : 1 2\n",
  "table y nan": u"[Table-Form:a]\nx: 2 3\ny : 1 zz\n",
  "table none": u"[Table-Form:a]\ninterpolation: cubic_spline\n",
  "bad sig": u"[Potential-Form]\n1f(r) : 1\n",
  "bad species key": u"[Species]\nAl : 4\n",
  "bad species val": u"[Species]\nAl.atomic_number : 4.5\n",
  "embed bad": u"[EAM-Embed]\nAl : ))\n",
  "dens fs bad": u"[EAM-Density]\nAl->Cu : ((\n",
  "empty": u"",
}
for name, txt in sorted(BAD_FILES.items()):
  rec("bad file %s" % name, lambda: props(ConfigParser(io.StringIO(txt))))

# ------------------------------------------------------------------ overrides / additional
BASE = u"""[Tabulation]
target : LAMMPS
nr : 6
cutoff : 5.0

[Pair]
O-O : as.constant 1.0

[Single]
only : 1

[Variables]
V : 2
"""
OVERRIDES = [
  [],
  (),
  [O("Pair", "O-O", "as.constant 2.0")],
  (O("Pair", "O - O", "as.constant 3.0"),),
  [O("Single", "only", None)],
  [O("Single", "only", None), O("Pair", "O-O", None)],
  [O("Tabulation", "nr", None), O("Tabulation", "target", "GULP")],
  [O("Pair", "Mg-O", "as.zero")],
  [O("Nope", "x", "1")],
  [O("Variables", "V", "3")],
  [O("Variables", "V", None)],
  [O("Single", "V", "1")],
  iter([O("Pair", "O-O", "as.constant 4.0")]),
  None,
  5,
]
ADDITIONAL = [
  [],
  (),
  [O("Pair", "Mg-O", "as.constant 7.0")],
  [O("New", "a b", "1"), O("New", "ab", "2")],
  [O("New", "a", "1"), O("Variables", "W", "5"), O("Pair", "X-Y", "as.constant ${W}")],
  [O("Pair", "O-O", "as.zero")],
  [O("Variables", "V", "9")],
  None,
]


def dump_cp(cp):
  raw = cp.raw_config_parser
  return ([(s, list(raw[s].items())) for s in raw.sections()], list(raw.defaults().items()), cp.parsed_sections, cp.orphan_sections)


for ov, ad in itertools.product(range(len(OVERRIDES)), range(len(ADDITIONAL))):
  def run():
    o = OVERRIDES[ov]
    if ov == 12:
      o = iter([O("Pair", "O-O", "as.constant 4.0")])
    return dump_cp(ConfigParser(io.StringIO(BASE), overrides=o, additional=ADDITIONAL[ad]))
  rec("overrides %d additional %d" % (ov, ad), run)
rec("defaults call", lambda: dump_cp(ConfigParser(io.StringIO(BASE))))
rec("positional", lambda: dump_cp(ConfigParser(io.StringIO(BASE), [O("Single", "only", None)], [O("Z", "z", "1")])))

# ------------------------------------------------------------------ full tabulations through Configuration
def tabulate(txt, binary=False):
  tabulation = Configuration().read(io.StringIO(txt))
  out = io.BytesIO() if binary else io.StringIO()
  tabulation.write(out)
  v = out.getvalue()
  if binary:
    return (type(tabulation).__name__, len(v) > 0)
  return (type(tabulation).__name__, hashlib.sha256(v.encode()).hexdigest(), v[:60])


PAIR_CFG = u"""[Tabulation]
%s

[Pair]
O-O : as.morse 1.2 2.5 0.4
Mg-O : sum(as.morse 1.3 2.4 0.5, as.constant 2)
Mg-Mg : >=0 as.morse 1.2 2.5 0.4 >=0.8 as.polynomial 1 2 3
"""
for t in ["target : LAMMPS\nnr : 11\ncutoff : 5", "target : LAMMPS\nnr : 2\ncutoff : 5", "target : DL_POLY\nnr : 12\ncutoff : 6.0", "target : DLPOLY\nnr : 10", "target : DLPOLY\nnr : 4",
          "target : GULP\nnr : 5", "target : nonsense", "nr : 5\ncutoff : 2.0", "", "target : excel\nnr : 4\ncutoff : 2.0", "target : setfl\nnr : 4", "target : GULP\ndr : 0.5"]:
  rec("pair cfg %r" % t, lambda: tabulate(PAIR_CFG % t, binary="excel" in t))

EAM_CFG = u"""[Tabulation]
target : %s
cutoff : 5.0
nr : 9
%s

[EAM-Embed]
%s

[EAM-Density]
%s

[Pair]
Al-Al : as.morse 1.2 2.5 0.4
Cu-Al : as.morse 1.3 2.4 0.5
%s
[Species]
Al.lattice_constant : 4.05
Xx.atomic_mass : 3.0
"""
EMBED = [u"Al : as.sqrt -1.0\nCu : as.sqrt -2.0", u"Al : as.sqrt -1.0", u"Cu : as.sqrt -1.0\nAl : as.sqrt -1.0\nAg : as.zero", u"Xx : as.zero", u"Al : nosuch 1"]
DENS = {False: [DENS_STD, u"Cu : as.exponential 2.0 -1.5", u"Al : as.zero\nZz : as.zero", u"Al : bad(as.zero)"],
        True: [DENS_FS, u"Cu->Al : as.zero", u"Al->Al : as.zero\nAl->Al : as.constant 1", u"Al->Cu : as.zero\nAl -> Cu : as.constant 1"]}
for target, fs in [("setfl", False), ("DL_POLY_EAM", False), ("setfl_fs", True), ("DL_POLY_EAM_fs", True), ("excel_eam", False), ("excel_eam_fs", True), ("eam_adp", False)]:
  for rho in [u"cutoff_rho : 10.0\nnrho : 6", u"", u"nrho : 4", u"drho : 0.5\nnrho : 5"]:
    for embed in EMBED:
      for dens in DENS[fs]:
        extra = u""
        if target == "eam_adp":
          extra = u"\n[EAM-ADP-Dipole]\nAl-Al : as.constant 0.5\n\n[EAM-ADP-Quadrupole]\nCu-Al : as.constant 0.25\n"
        rec("eam cfg %s rho=%r embed=%r dens=%r" % (target, rho, embed, dens),
            lambda: tabulate(EAM_CFG % (target, rho, embed, dens, extra), binary="excel" in target))

# ------------------------------------------------------------------ builders used directly
def eam_builder(cls, dens, add_undefined, rd):
  cp = ConfigParser(io.StringIO(EAM_CFG % ("setfl", "", EMBED[2], dens, "")))
  pfr = Potential_Form_Registry(cp, True, True)
  kw = {}
  if rd is not None:
    kw["reference_data"] = rd
  b = cls(cp, pfr, Modifier_Registry(), add_undefined=add_undefined, **kw)
  return [(p.species, p.atomicNumber, p.mass, p.latticeConstant, p.latticeType,
           sorted(p.electronDensityFunction) if isinstance(p.electronDensityFunction, dict) else p.electronDensityFunction(1.0),
           p.embeddingFunction(2.0)) for p in b.eam_potentials]


for cls, dens in [(EAM_Potential_Builder, DENS_STD), (EAM_Potential_Builder_FS, DENS_FS), (EAM_Potential_Builder, u"Al : as.zero\nAg : as.zero\nCu : as.zero")]:
  for add_undefined in [True, False]:
    for rd in [None, Reference_Data({"Ag": {"atomic_mass": 1.0}}), Reference_Data({"Cu": {"lattice_type": "hcp", "lattice_constant": 3.6}})]:
      rec("eam builder %s %r %s %s" % (cls.__name__, dens[:12], add_undefined, rd is not None), lambda: eam_builder(cls, dens, add_undefined, rd))
rec("eam builder default rd shared", lambda: (
  EAM_Potential_Builder.__init__.__defaults__[0] is EAM_Potential_Builder.__init__.__defaults__[0],
  type(EAM_Potential_Builder.__init__.__defaults__[0]).__name__, EAM_Potential_Builder.__init__.__defaults__[1:]))

cp = ConfigParser(io.StringIO(BIG % DENS_STD))
rec("registry registered", lambda: Potential_Form_Registry(cp, True, True).registered)
rec("registry registered nostd", lambda: Potential_Form_Registry(cp, False, False).registered)
rec("registry std names", lambda: sorted(Potential_Form_Registry(cp, True)._standard_potentialforms_names()))
rec("registry clash", lambda: Potential_Form_Registry(ConfigParser(io.StringIO(u"[Table-Form:as.buck]\nxy: 1 2 3 4 5 6 7 8\n")), True).registered)
rec("registry clash2", lambda: Potential_Form_Registry(ConfigParser(io.StringIO(u"[Table-Form:as.buck4]\nxy: 1 2 3 4 5 6 7 8\n")), True).registered)
rec("registry noclash", lambda: Potential_Form_Registry(ConfigParser(io.StringIO(u"[Table-Form:as.buck4]\nxy: 1 2 3 4 5 6 7 8\n")), False).registered)
rec("pair builder", lambda: [(p.speciesA, p.speciesB, p.energy(1.0), p.energy(0.25), p.force(1.25)) for p in
                             Pair_Potential_Builder(cp, Potential_Form_Registry(cp, True, True), Modifier_Registry()).potentials])
rec("unknown modifier str", lambda: (str(_potential_form_builder.UnknownModifierException("abc")), str(_potential_form_builder.UnknownPotentialFormException("x", "y")),
                                    str(_potential_form_builder.UnknownModifierException())))
for txt in [u"[Pair]\nA-B : nosuch(as.zero)\n", u"[Pair]\nA-B : nosuch 1 2\n", u"[Pair]\nA-B : sum(as.buck 1)\n", u"[Pair]\nA-B : as.buck 1\n"]:
  rec("builder errors %r" % txt, lambda: tabulate(txt))

def varsig(*args): pass
def nosig(): pass
def mixed(a, *args): pass
def plain(a, b=2): pass
for fn in [varsig, nosig, mixed, plain, len, abs]:
  rec("make_potential_form_tuple %s" % fn.__name__, lambda: _common.make_potential_form_tuple_from_function("lbl", fn))

# ------------------------------------------------------------------ filtered parser and the potable front-end
for kw in [dict(exclude=["Al"]), dict(include=["Al"]), dict(include=[]), dict(exclude=[]), dict(), dict(include=["Al", "Cu"], exclude=["O"]), dict(exclude=["Cu", "O"])]:
  rec("filtered %r" % kw, lambda: props(FilteredConfigParser(ConfigParser(io.StringIO(BIG % DENS_FS)), **kw)))


def run_potable(args, txt):
  d = os.path.join(tempfile.gettempdir(), "twin_potable_work")  # fixed name: the path is logged
  shutil.rmtree(d, ignore_errors=True)
  os.makedirs(d)
  cfg = os.path.join(d, "in.aspot")
  outf = os.path.join(d, "out.tab")
  with open(cfg, "w") as f:
    f.write(txt)
  argv = ["potable", cfg] + [a.replace("@OUT@", outf) for a in args]
  so, se = io.StringIO(), io.StringIO()
  old = sys.argv
  sys.argv = argv
  code = None
  try:
    with contextlib.redirect_stdout(so), contextlib.redirect_stderr(se):
      try:
        potable.main()
      except SystemExit as e:
        code = e.code
  finally:
    sys.argv = old
  content = open(outf).read() if os.path.exists(outf) else None
  return (code, so.getvalue(), se.getvalue().replace(d, "<TMP>"), None if content is None else hashlib.sha256(content.encode()).hexdigest())


POT_ARGS = [
  ["--list-items"], ["--list-item-labels"], ["--item-value", "Pair:O-O"], ["--item-value", "Table-Form:tabby:x"], ["--item-value", "Nope:x"], ["--item-value", "nocolon"],
  ["@OUT@"], [], ["@OUT@", "-e", "Tabulation:target=LAMMPS"], ["@OUT@", "-e", "Tabulation:target=LAMMPS", "-r", "Pair:U-U", "Pair:Gd-O"],
  ["--list-items", "-r", "Orphan:k"], ["--list-items", "-a", "Orphan:k=2"], ["--list-items", "-a", "Orphan:j=2", "New:x=y=z"], ["--list-items", "-e", "Orphan:j=2"],
  ["--list-items", "-e", "Orphan"], ["--list-items", "-e", "Orphan=2"], ["--list-items", "--include-species", "O"], ["--list-item-labels", "--exclude-species", "Al"],
  ["@OUT@", "-e", "Tabulation:target=DL_POLY_EAM", "--exclude-species", "U", "Gd"],
]
for args in POT_ARGS:
  rec("potable %r" % (args,), lambda: run_potable(args, BIG % DENS_STD))
rec("potable fs", lambda: run_potable(["@OUT@", "-e", "Tabulation:target=setfl_fs", "-r", "Pair:U-U", "Pair:Gd-O"], BIG % DENS_FS))

blob = "\n".join(LOG)
print("records:", len(LOG) // 2)
print("errors :", sum(1 for l in LOG if " !! " in l))
print("digest :", hashlib.sha256(blob.encode("utf-8")).hexdigest())
if os.environ.get("TWIN_DUMP"):
  open(os.environ["TWIN_DUMP"], "w").write(blob)

# -*- coding: utf-8 -*-
"""Shared differential-test harness for the twin refactorings of the LAMMPS EAM writers.

Every case is run through the PUBLIC api (atsim.potentials.writeSetFL,
writeSetFLFinnisSinclair, writeFuncFL, the *_EAMTabulation classes and the
Configuration reader).  For each case one line is recorded:

   <case name> OK  <number of write() calls made on the user's file object> <sha256 of the written text>
   <case name> EXC <exception type> <message> <number of write() calls before failure> <sha256 of partial text>

plus a trace digest of the order in which the user supplied callables were
evaluated.  The final digest is the sha256 over all recorded lines.
"""
from __future__ import print_function

import hashlib
import io
import math
import os
import sys

import atsim.potentials
from atsim.potentials import (EAMPotential, Potential, writeFuncFL, writeSetFL,
                              writeSetFLFinnisSinclair)
from atsim.potentials.eam_tabulation import (ADP_EAMTabulation,
                                             SetFL_EAMTabulation,
                                             SetFL_FS_EAMTabulation)
from atsim.potentials.config import Configuration

WT = os.path.dirname(os.path.dirname(os.path.abspath(__file__)))


def sha(s):
  if not isinstance(s, bytes):
    s = s.encode("utf-8")
  return hashlib.sha256(s).hexdigest()


class RecOut(object):
  """File-like object that remembers each individual write() call."""

  def __init__(self):
    self.calls = []

  def write(self, s):
    self.calls.append(s)

  def text(self):
    return u"".join(self.calls)


class Recorder(object):

  def __init__(self):
    self.lines = []
    self.trace = []

  def run(self, name, fn):
    out = RecOut()
    del self.trace[:]
    try:
      ret = fn(out)
      status = "OK ret=%r" % (ret,)
    except Exception as e:  # noqa
      status = "EXC %s %s" % (type(e).__name__, e)
    line = "%s | %s | nwrite=%d | out=%s | trace=%d:%s" % (
        name, status, len(out.calls), sha(out.text()), len(self.trace), sha(repr(self.trace)))
    self.lines.append(line)

  def traced(self, label, f):
    def wrapper(x):
      self.trace.append((label, repr(x)))
      return f(x)
    return wrapper

  def digest(self):
    return sha("\n".join(self.lines))


# ---------------------------------------------------------------------------
# model building blocks

def embed_sqrt(rho):
  return -math.sqrt(rho)

def embed_poly(rho):
  return 0.3 * rho * rho - 1.7 * rho + 0.01

def dens_exp(r):
  return 2.5 * math.exp(-1.3 * r)

def dens_gauss(r):
  return 0.7 * math.exp(-0.5 * (r - 1.1) ** 2)

def dens_lin(r):
  return max(0.0, 4.0 - 0.9 * r)

def pair_born(r):
  return 1200.0 * math.exp(-r / 0.31)

def pair_morse(r):
  return 0.4 * ((1.0 - math.exp(-1.7 * (r - 2.1))) ** 2 - 1.0)

def pair_soft(r):
  return 5.0 / (r + 0.25) ** 3

def pair_inv(r):
  return 3.0 / r


def species_table(rec, trace=False):
  t = (lambda l, f: rec.traced(l, f)) if trace else (lambda l, f: f)
  return {
      "Al": EAMPotential("Al", 13, 26.98, t("F_Al", embed_sqrt), t("rho_Al", dens_exp), 4.05, "fcc"),
      "Cu": EAMPotential("Cu", 29, 63.55, t("F_Cu", embed_poly), t("rho_Cu", dens_gauss), 3.615, "fcc"),
      "Fe": EAMPotential("Fe", 26, 55.845, t("F_Fe", embed_sqrt), t("rho_Fe", dens_lin), 2.855, "bcc"),
      "U": EAMPotential("U", 92, 238.03, t("F_U", embed_poly), t("rho_U", dens_exp)),
  }


def fs_species_table(rec, names, trace=False):
  t = (lambda l, f: rec.traced(l, f)) if trace else (lambda l, f: f)
  dens = [dens_exp, dens_gauss, dens_lin]
  embeds = [embed_sqrt, embed_poly]
  pots = {}
  for i, a in enumerate(names):
    dd = {}
    for j, b in enumerate(names):
      dd[b] = t("rho_%s_%s" % (a, b), dens[(i + 2 * j) % 3])
    pots[a] = EAMPotential(a, 10 + i, 20.5 + i, t("F_" + a, embeds[i % 2]), dd, 3.0 + 0.1 * i, ["fcc", "bcc", "hcp"][i % 3])
  return pots


def pair_list(rec, spec, trace=False):
  """spec : list of (speciesA, speciesB, function)"""
  t = (lambda l, f: rec.traced(l, f)) if trace else (lambda l, f: f)
  return [Potential(a, b, t("V_%s_%s" % (a, b), f)) for (a, b, f) in spec]


GRIDS = [
    # nrho, drho, nr, dr
    (7, 0.5, 6, 0.4),
    (1, 1.0, 1, 1.0),
    (0, 0.1, 0, 0.1),
    (11, 0.013, 23, 0.17),
    (5, 1e-3, 5, 1.3),
    (3, 2.0, 0, 0.3),
    (0, 2.0, 4, 0.3),
]


# ---------------------------------------------------------------------------
# case groups

def cases_setfl(rec, writer, label, fs=False):
  """writeSetFL / writeSetFLFinnisSinclair through the functional api."""
  orders = [["Al"], ["Al", "Cu"], ["Cu", "Al"], ["Fe", "Cu", "Al"], ["U", "Al", "Fe", "Cu"]]
  pairspecs = [
      [],
      [("Al", "Al", pair_born)],
      [("Al", "Al", pair_born), ("Cu", "Al", pair_morse), ("Cu", "Cu", pair_soft)],
      [("Al", "Cu", pair_morse), ("Cu", "Al", pair_soft)],  # duplicate key, later one wins
      [("Fe", "Al", pair_soft), ("Al", "Fe", pair_born), ("Cu", "Fe", pair_morse), ("U", "U", pair_born), ("Zz", "Al", pair_born)],
  ]
  for oi, order in enumerate(orders):
    for pi, pspec in enumerate(pairspecs):
      for gi, (nrho, drho, nr, dr) in enumerate(GRIDS):
        if (oi + pi + gi) % 2 and gi > 1:
          continue
        def fn(out, order=order, pspec=pspec, nrho=nrho, drho=drho, nr=nr, dr=dr):
          tab = fs_species_table(rec, order, True) if fs else species_table(rec, True)
          eampots = [tab[s] for s in order]
          return writer(nrho, drho, nr, dr, eampots, pair_list(rec, pspec, True), out)
        rec.run("%s order=%d pairs=%d grid=%d" % (label, oi, pi, gi), fn)

  # comments / cutoff handling
  def mk(order=("Al", "Cu")):
    tab = fs_species_table(rec, list(order)) if fs else species_table(rec)
    return [tab[s] for s in order], pair_list(rec, [("Al", "Cu", pair_morse), ("Al", "Al", pair_born)])

  commentsets = [[], ["one"], ["one", "two"], ["a", "b", "c"], ["a", "b", "c", "d", "e"], ("t1", "t2"),
                 "xyz", ["multi\nline", "x"], [u"Ångström"], None, [1, 2, 3], ["ok", None], 5]
  for ci, comments in enumerate(commentsets):
    def fn(out, comments=comments):
      e, p = mk()
      return writer(4, 0.25, 5, 0.5, e, p, out, comments)
    rec.run("%s comments=%d" % (label, ci), fn)

  for ci, cutoff in enumerate([None, 0, 0.0, 2.0, 7, -1.5, 1e-30, float("inf"), "3.0", [], [1.0], False, True]):
    def fn(out, cutoff=cutoff):
      e, p = mk()
      return writer(4, 0.25, 5, 0.5, e, p, out, ["c"], cutoff)
    rec.run("%s cutoff=%d" % (label, ci), fn)
    def fn(out, cutoff=cutoff):
      e, p = mk(("Cu",))
      return writer(3, 0.25, 2, 0.5, e, p, out=out, cutoff=cutoff)
    rec.run("%s cutoff-kw=%d" % (label, ci), fn)

  # tuples rather than lists, generators, odd numeric types
  def fn(out):
    e, p = mk(("Cu", "Al"))
    return writer(3, 0.5, 3, 0.5, tuple(e), tuple(p), out)
  rec.run(label + " tuples", fn)
  def fn(out):
    e, p = mk(("Cu", "Al"))
    return writer(3, 0.5, 3, 0.5, e, iter(p), out)
  rec.run(label + " pair-iterator", fn)
  def fn(out):
    e, p = mk(("Cu", "Al"))
    return writer(3, 0.5, 3, 0.5, iter(e), p, out)
  rec.run(label + " eam-iterator", fn)
  def fn(out):
    e, p = mk(("Cu", "Al"))
    return writer(3, 0.5, 3, 0.5, (x for x in e), (x for x in p), out)
  rec.run(label + " generators", fn)
  for gi, grid in enumerate([(3.0, 0.5, 3, 0.5), (3, 0.5, 3.0, 0.5), (3, 1, 4, 2), (3, "0.5", 3, 0.5), (3, 0.5, 3, "0.5"),
                             (None, 0.5, 3, 0.5), (3, 0.5, None, 0.5), (3, None, 3, 0.5), (3, 0.5, 3, None), (-2, 0.5, -3, 0.5),
                             (True, 0.5, True, 0.5), (2, float("nan"), 2, float("inf"))]):
    def fn(out, grid=grid):
      e, p = mk(("Cu", "Al"))
      return writer(grid[0], grid[1], grid[2], grid[3], e, p, out)
    rec.run("%s oddgrid=%d" % (label, gi), fn)


class NoSpeciesPair(object):
  def energy(self, r):
    return 1.0

class OnlyAPair(object):
  speciesA = "Al"
  def energy(self, r):
    return 1.0

class NoEnergyPair(object):
  speciesA = "Al"
  speciesB = "Al"

class DuckPair(object):
  def __init__(self, a, b, v):
    self.speciesA = a
    self.speciesB = b
    self.v = v
  def energy(self, r):
    return self.v + r

class DuckEAM(object):
  pass


def cases_setfl_malformed(rec, writer, label, fs=False):
  def table(order, trace=True):
    tab = fs_species_table(rec, list(order), trace) if fs else species_table(rec, trace)
    return [tab[s] for s in order]

  def boom(exc):
    def f(x):
      if x > 0.6:
        raise exc("boom at %r" % x)
      return 1.0 + x
    return f

  badpairs = [
      ("none", None), ("int", 3), ("nospecies", [NoSpeciesPair()]), ("onlyA", [OnlyAPair()]),
      ("noenergy", [NoEnergyPair()]), ("listofnone", [None]), ("strings", ["AlAl"]),
      ("duck", [DuckPair("Cu", "Al", 2.0), DuckPair("Al", "Al", -1.0)]),
      ("mixedtypes", [DuckPair(1, "Al", 2.0)]), ("mixedtypes2", [DuckPair("Al", None, 2.0)]),
      ("inttypes", [DuckPair(2, 1, 2.0)]), ("tuplespecies", [DuckPair(("Al",), ("Al",), 2.0)]),
      ("unhashable", [DuckPair(["Al"], ["Al"], 2.0)]),
      ("energy-none", [Potential("Al", "Al", lambda r: None)]),
      ("energy-str", [Potential("Al", "Cu", lambda r: "1.0")]),
      ("energy-complex", [Potential("Al", "Cu", lambda r: 1j)]),
      ("energy-int", [Potential("Al", "Cu", lambda r: 3)]),
      ("energy-bool", [Potential("Cu", "Cu", lambda r: True)]),
      ("energy-nan", [Potential("Cu", "Cu", lambda r: float("nan")), Potential("Al", "Al", lambda r: float("-inf"))]),
      ("energy-raises-zde", [Potential("Al", "Cu", rec.traced("V", boom(ZeroDivisionError)))]),
      ("energy-raises-val", [Potential("Al", "Al", rec.traced("V", boom(ValueError)))]),
      ("energy-raises-key", [Potential("Cu", "Cu", rec.traced("V", boom(KeyError)))]),
      ("energy-div0", [Potential("Al", "Al", rec.traced("V", pair_inv))]),
  ]
  for name, pp in badpairs:
    def fn(out, pp=pp):
      return writer(3, 0.5, 4, 0.5, table(("Al", "Cu")), pp, out)
    rec.run("%s badpairs=%s" % (label, name), fn)

  def badeam(kind):
    e = table(("Al", "Cu"))
    if kind == "none":
      return None
    if kind == "empty":
      return []
    if kind == "int":
      return 4
    if kind == "containsnone":
      return [e[0], None]
    if kind == "duck-empty":
      return [DuckEAM()]
    if kind == "nomass":
      d = DuckEAM(); d.species = "Al"; d.atomicNumber = 13
      return [d]
    if kind == "nolattice":
      d = DuckEAM(); d.species = "Al"; d.atomicNumber = 13; d.mass = 1.0
      return [e[1], d]
    if kind == "noembed":
      d = DuckEAM(); d.species = "Al"; d.atomicNumber = 13; d.mass = 1.0; d.latticeConstant = 1.0; d.latticeType = "fcc"
      return [e[1], d]
    if kind == "nodens":
      d = DuckEAM(); d.species = "Al"; d.atomicNumber = 13; d.mass = 1.0; d.latticeConstant = 1.0; d.latticeType = "fcc"
      d.embeddingFunction = rec.traced("F", embed_poly)
      return [e[1], d]
    if kind == "speciesint":
      e[0].species = 7
      return e
    if kind == "speciesnone":
      e[1].species = None
      return e
    if kind == "speciesmixed":
      e[0].species = 7
      e[1].species = "Cu"
      return e
    if kind == "dupspecies":
      e[1].species = "Al"
      return e
    if kind == "atomicnumber-str":
      e[0].atomicNumber = "13"
      return e
    if kind == "atomicnumber-float":
      e[0].atomicNumber = 13.9
      return e
    if kind == "mass-str":
      e[1].mass = "63"
      return e
    if kind == "mass-int":
      e[1].mass = 63
      return e
    if kind == "lattice-none":
      e[1].latticeConstant = None
      return e
    if kind == "latticetype-int":
      e[1].latticeType = 12
      return e
    if kind == "embed-none":
      e[1].embeddingFunction = rec.traced("F", lambda rho: None)
      return e
    if kind == "embed-raises":
      e[1].embeddingFunction = rec.traced("F", boom(ArithmeticError))
      return e
    if kind == "embed-notcallable":
      e[0].embeddingFunction = 1.0
      return e
    if kind == "dens-none":
      e[0].electronDensityFunction = None
      return e
    if kind == "dens-swapkind":
      # FS density given to plain writer and vice versa
      if fs:
        e[0].electronDensityFunction = rec.traced("rho", dens_exp)
      else:
        e[0].electronDensityFunction = {"Al": rec.traced("rho", dens_exp), "Cu": rec.traced("rho", dens_exp)}
      return e
    if kind == "dens-missingkey":
      if fs:
        del e[1].electronDensityFunction["Al"]
      else:
        e[1].electronDensityFunction = rec.traced("rho", boom(OverflowError))
      return e
    if kind == "dens-returns-str":
      f = rec.traced("rho", lambda r: "x")
      if fs:
        e[1].electronDensityFunction["Cu"] = f
      else:
        e[1].electronDensityFunction = f
      return e
    raise AssertionError(kind)

  kinds = ["none", "empty", "int", "containsnone", "duck-empty", "nomass", "nolattice", "noembed", "nodens",
           "speciesint", "speciesnone", "speciesmixed", "dupspecies", "atomicnumber-str", "atomicnumber-float",
           "mass-str", "mass-int", "lattice-none", "latticetype-int", "embed-none", "embed-raises",
           "embed-notcallable", "dens-none", "dens-swapkind", "dens-missingkey", "dens-returns-str"]
  for kind in kinds:
    def fn(out, kind=kind):
      pp = pair_list(rec, [("Al", "Cu", pair_morse), ("Al", "Al", pair_born), (7, 7, pair_soft)], True)
      return writer(3, 0.5, 4, 0.5, badeam(kind), pp, out)
    rec.run("%s badeam=%s" % (label, kind), fn)

  # bad output objects
  def fn(out):
    return writer(3, 0.5, 4, 0.5, table(("Al",)), [], None)
  rec.run(label + " out=None", fn)
  def fn(out):
    return writer(3, 0.5, 4, 0.5, table(("Al",)), [], io.BytesIO())
  rec.run(label + " out=BytesIO", fn)
  def fn(out):
    class Failing(object):
      def write(self, s):
        out.write(s[:10])
        raise IOError("disk full")
    return writer(3, 0.5, 4, 0.5, table(("Al",)), [], Failing())
  rec.run(label + " out=failing", fn)
  def fn(out):
    so = sys.stdout
    try:
      sys.stdout = out
      # default 'out' was bound at import time so nothing should reach the replacement
      buf = io.StringIO()
      return writer(2, 0.5, 2, 0.5, table(("Al",)), [], buf)
    finally:
      sys.stdout = so
  rec.run(label + " stdout-untouched", fn)


def cases_funcfl(rec):
  label = "funcfl"
  tabs = ["Al", "Cu", "Fe", "U"]
  pairfs = [pair_born, pair_soft, lambda r: 2.0, lambda r: 0.0, lambda r: 1e-300, lambda r: 1e300]
  grids = GRIDS + [(5, 0.1, 5, 0.2), (10, 0.1, 10, 0.2), (4, 0.1, 6, 0.2), (6, 0.1, 4, 0.2), (9, 0.3, 16, 0.11),
                   (15, 0.3, 5, 0.11), (1, 0.3, 5, 0.11), (5, 0.3, 1, 0.11), (26, 0.07, 31, 0.09)]
  for si, s in enumerate(tabs):
    for pi, pf in enumerate(pairfs):
      for gi, (nrho, drho, nr, dr) in enumerate(grids):
        if (si + pi + gi) % 3 == 1:
          continue
        def fn(out, s=s, pf=pf, nrho=nrho, drho=drho, nr=nr, dr=dr):
          tab = species_table(rec, True)
          return writeFuncFL(nrho, drho, nr, dr, [tab[s]], pair_list(rec, [(s, s, pf)], True), out, "title %s" % s)
        rec.run("%s sp=%d pair=%d grid=%d" % (label, si, pi, gi), fn)

  def mk(trace=True):
    tab = species_table(rec, trace)
    return [tab["Cu"]], pair_list(rec, [("Cu", "Cu", pair_soft)], trace)

  for ti, title in enumerate(["", "x", "two\nlines", u"Å", None, 12, ["l"], b"bytes"]):
    def fn(out, title=title):
      e, p = mk()
      return writeFuncFL(4, 0.5, 7, 0.3, e, p, out, title)
    rec.run("%s title=%d" % (label, ti), fn)
  def fn(out):
    e, p = mk()
    return writeFuncFL(4, 0.5, 7, 0.3, e, p, out=out)
  rec.run(label + " default-title", fn)

  # only first of each list is used
  def fn(out):
    tab = species_table(rec, True)
    pp = pair_list(rec, [("Fe", "Fe", pair_born), ("Al", "Al", pair_soft)], True)
    return writeFuncFL(6, 0.5, 6, 0.3, [tab["Fe"], tab["Al"]], pp, out, "first only")
  rec.run(label + " first-only", fn)
  def fn(out):
    tab = species_table(rec, True)
    pp = pair_list(rec, [("Al", "Cu", pair_born)], True)
    return writeFuncFL(6, 0.5, 6, 0.3, (tab["Fe"],), tuple(pp), out, "tuples+mismatch")
  rec.run(label + " tuples", fn)

  def boom(exc, lim=0.35):
    def f(x):
      if x > lim:
        raise exc("boom at %r" % x)
      return 1.0 + x
    return f

  bad = [
      ("empty-eam", lambda: ([], mk()[1])),
      ("empty-pair", lambda: (mk()[0], [])),
      ("both-empty", lambda: ([], [])),
      ("none-eam", lambda: (None, mk()[1])),
      ("none-pair", lambda: (mk()[0], None)),
      ("none-eam-empty-pair", lambda: (None, [])),
      ("empty-eam-none-pair", lambda: ([], None)),
      ("int-eam", lambda: (5, mk()[1])),
      ("dict-eam", lambda: ({}, mk()[1])),
      ("dict0-eam", lambda: ({0: mk()[0][0]}, {0: mk()[1][0]})),
      ("gen-eam", lambda: (iter(mk()[0]), mk()[1])),
      ("eam-none-item", lambda: ([None], mk()[1])),
      ("pair-none-item", lambda: (mk()[0], [None])),
      ("pair-noenergy", lambda: (mk()[0], [NoEnergyPair()])),
      ("pair-nospecies", lambda: (mk()[0], [NoSpeciesPair()])),
      ("negative-pair", lambda: (mk()[0], pair_list(rec, [("Cu", "Cu", lambda r: -2.0)], True))),
      ("negative-late", lambda: (mk()[0], pair_list(rec, [("Cu", "Cu", lambda r: 0.5 - r)], True))),
      ("pair-raises", lambda: (mk()[0], pair_list(rec, [("Cu", "Cu", boom(ZeroDivisionError))], True))),
      ("pair-neg-then-raises", lambda: (mk()[0], pair_list(rec, [("Cu", "Cu", lambda r: -1.0 if r < 0.5 and r > 0 else boom(KeyError, 0.7)(r))], True))),
      ("pair-div0", lambda: (mk()[0], pair_list(rec, [("Cu", "Cu", pair_inv)], True))),
      ("pair-none", lambda: (mk()[0], pair_list(rec, [("Cu", "Cu", lambda r: None)], True))),
      ("pair-str", lambda: (mk()[0], pair_list(rec, [("Cu", "Cu", lambda r: "2")], True))),
      ("pair-complex", lambda: (mk()[0], pair_list(rec, [("Cu", "Cu", lambda r: 2j)], True))),
      ("pair-int", lambda: (mk()[0], pair_list(rec, [("Cu", "Cu", lambda r: 2)], True))),
      ("pair-nan", lambda: (mk()[0], pair_list(rec, [("Cu", "Cu", lambda r: float("nan"))], True))),
      ("pair-inf", lambda: (mk()[0], pair_list(rec, [("Cu", "Cu", lambda r: float("inf"))], True))),
      ("pair-neginf", lambda: (mk()[0], pair_list(rec, [("Cu", "Cu", lambda r: float("-inf"))], True))),
  ]
  for name, mkbad in bad:
    def fn(out, mkbad=mkbad):
      e, p = mkbad()
      return writeFuncFL(5, 0.5, 6, 0.2, e, p, out, "bad")
    rec.run("%s bad=%s" % (label, name), fn)

  def eam_variant(kind):
    e, p = mk()
    x = e[0]
    if kind == "embed-none":
      x.embeddingFunction = rec.traced("F", lambda rho: None)
    elif kind == "embed-none-late":
      x.embeddingFunction = rec.traced("F", lambda rho: None if rho > 1.2 else rho)
    elif kind == "embed-raises":
      x.embeddingFunction = rec.traced("F", boom(ArithmeticError))
    elif kind == "embed-str":
      x.embeddingFunction = rec.traced("F", lambda rho: "a")
    elif kind == "embed-int":
      x.embeddingFunction = rec.traced("F", lambda rho: 4)
    elif kind == "embed-nan":
      x.embeddingFunction = rec.traced("F", lambda rho: float("nan"))
    elif kind == "dens-none":
      x.electronDensityFunction = rec.traced("rho", lambda r: None)
    elif kind == "dens-none-some":
      x.electronDensityFunction = rec.traced("rho", lambda r: None if 0.3 < r < 0.7 else r)
    elif kind == "dens-raises":
      x.electronDensityFunction = rec.traced("rho", boom(LookupError))
    elif kind == "dens-raises+pair-negative":
      x.electronDensityFunction = rec.traced("rho", boom(LookupError))
      p = pair_list(rec, [("Cu", "Cu", lambda r: 0.05 - r)], True)
    elif kind == "embed-raises+dens-raises":
      x.embeddingFunction = rec.traced("F", boom(ArithmeticError))
      x.electronDensityFunction = rec.traced("rho", boom(LookupError))
    elif kind == "dens-dict":
      x.electronDensityFunction = {"Cu": dens_exp}
    elif kind == "dens-str":
      x.electronDensityFunction = rec.traced("rho", lambda r: "z")
    elif kind == "atomicnumber-str":
      x.atomicNumber = "29"
    elif kind == "atomicnumber-float":
      x.atomicNumber = 29.7
    elif kind == "atomicnumber-none":
      x.atomicNumber = None
    elif kind == "mass-none":
      x.mass = None
    elif kind == "mass-int":
      x.mass = 63
    elif kind == "lattice-str":
      x.latticeConstant = "3.6"
    elif kind == "latticetype-none":
      x.latticeType = None
    elif kind == "no-latticetype":
      del x.latticeType
    elif kind == "no-mass+pair-negative":
      del x.mass
      p = pair_list(rec, [("Cu", "Cu", lambda r: 0.05 - r)], True)
    else:
      raise AssertionError(kind)
    return e, p

  for kind in ["embed-none", "embed-none-late", "embed-raises", "embed-str", "embed-int", "embed-nan", "dens-none",
               "dens-none-some", "dens-raises", "dens-raises+pair-negative", "embed-raises+dens-raises", "dens-dict",
               "dens-str", "atomicnumber-str", "atomicnumber-float", "atomicnumber-none", "mass-none", "mass-int",
               "lattice-str", "latticetype-none", "no-latticetype", "no-mass+pair-negative"]:
    for gi, (nrho, drho, nr, dr) in enumerate([(5, 0.5, 6, 0.2), (7, 0.3, 11, 0.1), (0, 0.3, 0, 0.1)]):
      def fn(out, kind=kind, nrho=nrho, drho=drho, nr=nr, dr=dr):
        e, p = eam_variant(kind)
        return writeFuncFL(nrho, drho, nr, dr, e, p, out, kind)
      rec.run("%s eamvariant=%s grid=%d" % (label, kind, gi), fn)

  for gi, grid in enumerate([(3.0, 0.5, 3, 0.5), (3, 0.5, 3.0, 0.5), (3, 1, 4, 2), (3, "0.5", 3, 0.5), (3, 0.5, 3, "0.5"),
                             (None, 0.5, 3, 0.5), (3, 0.5, None, 0.5), (3, None, 3, 0.5), (3, 0.5, 3, None), (-2, 0.5, -3, 0.5),
                             (True, 0.5, True, 0.5), (2, float("nan"), 2, float("inf")), (2, 0.5, 2, -0.5), (2, -0.5, 3, 0.5)]):
    def fn(out, grid=grid):
      e, p = mk()
      return writeFuncFL(grid[0], grid[1], grid[2], grid[3], e, p, out, "oddgrid")
    rec.run("%s oddgrid=%d" % (label, gi), fn)

  def fn(out):
    e, p = mk()
    return writeFuncFL(3, 0.5, 4, 0.5, e, p, None)
  rec.run(label + " out=None", fn)
  def fn(out):
    e, p = mk()
    return writeFuncFL(3, 0.5, 4, 0.5, e, p, io.BytesIO())
  rec.run(label + " out=BytesIO", fn)


def cases_tabulation_classes(rec):
  """SetFL_EAMTabulation / SetFL_FS_EAMTabulation / ADP_EAMTabulation objects."""
  label = "tabclass"
  grids = [(2.0, 5, 3.0, 4), (6.5, 14, 50.0, 9), (1.0, 2, 1.0, 2), (3.0, 31, 0.2, 3)]
  orders = [["Al"], ["Cu", "Al"], ["Al", "Fe", "Cu"]]
  pairspec = [("Al", "Al", pair_born), ("Cu", "Al", pair_morse), ("Fe", "Cu", pair_soft)]
  dipspecs = [[], [("Al", "Cu", pair_morse)], [("Cu", "Cu", pair_soft), ("Al", "Fe", pair_born), ("Fe", "Al", pair_morse)]]
  quadspecs = [[("Al", "Al", pair_soft)], [], [("Cu", "Al", pair_born), ("Xx", "Yy", pair_born)]]
  for gi, (cutoff, nr, cutoff_rho, nrho) in enumerate(grids):
    for oi, order in enumerate(orders):
      def fn(out, order=order, cutoff=cutoff, nr=nr, cutoff_rho=cutoff_rho, nrho=nrho):
        tab = species_table(rec, True)
        t = SetFL_EAMTabulation(pair_list(rec, pairspec, True), [tab[s] for s in order], cutoff, nr, cutoff_rho, nrho)
        info = (t.type, t.target, t.nr, t.dr, t.nrho, t.drho, t.cutoff, t.cutoff_rho)
        return (info, t.write(out))
      rec.run("%s setfl grid=%d order=%d" % (label, gi, oi), fn)
      def fn(out, order=order, cutoff=cutoff, nr=nr, cutoff_rho=cutoff_rho, nrho=nrho):
        tab = fs_species_table(rec, order, True)
        t = SetFL_FS_EAMTabulation(pair_list(rec, pairspec, True), [tab[s] for s in order], cutoff, nr, cutoff_rho, nrho)
        info = (t.type, t.target, t.nr, t.dr, t.nrho, t.drho, t.cutoff, t.cutoff_rho)
        return (info, t.write(out))
      rec.run("%s setfl_fs grid=%d order=%d" % (label, gi, oi), fn)
      for di in range(3):
        def fn(out, order=order, cutoff=cutoff, nr=nr, cutoff_rho=cutoff_rho, nrho=nrho, di=di):
          tab = species_table(rec, True)
          t = ADP_EAMTabulation(pair_list(rec, pairspec, True), [tab[s] for s in order],
                                pair_list(rec, dipspecs[di], True), pair_list(rec, quadspecs[di], True),
                                cutoff, nr, cutoff_rho, nrho)
          info = (t.type, t.target, t.nr, t.dr, t.nrho, t.drho, t.cutoff, t.cutoff_rho)
          return (info, t.write(out))
        rec.run("%s adp grid=%d order=%d multipoles=%d" % (label, gi, oi, di), fn)

  # malformed ADP input: failures must leave fp untouched
  def boom(exc, lim=0.6):
    def f(x):
      if x > lim:
        raise exc("boom at %r" % x)
      return 1.0 + x
    return f

  def adp(dip, quad, pairs=None, order=("Al", "Cu"), nr=5, nrho=4, mod=None):
    tab = species_table(rec, True)
    e = [tab[s] for s in order]
    if mod:
      mod(e)
    if pairs is None:
      pairs = pair_list(rec, pairspec, True)
    return ADP_EAMTabulation(pairs, e, dip, quad, 2.0, nr, 3.0, nrho)

  def set_embed_raises(e):
    e[-1].embeddingFunction = rec.traced("F", boom(ArithmeticError))

  bad = [
      ("dip-none", lambda: adp(None, [])),
      ("quad-none", lambda: adp([], None)),
      ("both-none", lambda: adp(None, None)),
      ("dip-raises", lambda: adp(pair_list(rec, [("Al", "Cu", boom(ValueError))], True), pair_list(rec, [("Al", "Cu", pair_born)], True))),
      ("quad-raises", lambda: adp(pair_list(rec, [("Al", "Cu", pair_born)], True), pair_list(rec, [("Al", "Cu", boom(KeyError))], True))),
      ("both-raise", lambda: adp(pair_list(rec, [("Al", "Cu", boom(ValueError))], True), pair_list(rec, [("Al", "Cu", boom(KeyError))], True))),
      ("pair-raises+dip-none", lambda: adp(None, [], pairs=pair_list(rec, [("Al", "Al", boom(ZeroDivisionError))], True))),
      ("pairs-none+dip-none", lambda: adp(None, [], pairs=None if False else 5)),
      ("dip-nospecies", lambda: adp([NoSpeciesPair()], [])),
      ("quad-noenergy", lambda: adp([], [NoEnergyPair()])),
      ("dip-returns-none", lambda: adp(pair_list(rec, [("Al", "Al", lambda r: None)], True), [])),
      ("embed-raises+quad-none", lambda: adp([], None, mod=set_embed_raises)),
      ("nr0", lambda: adp(pair_list(rec, [("Al", "Cu", pair_born)], True), [], nr=0)),
      ("nr1", lambda: adp(pair_list(rec, [("Al", "Cu", pair_born)], True), [], nr=1)),
      ("nrho1", lambda: adp(pair_list(rec, [("Al", "Cu", pair_born)], True), [], nrho=1)),
      ("no-eam", lambda: adp(pair_list(rec, [("Al", "Cu", pair_born)], True), [], order=())),
  ]
  for name, mkbad in bad:
    def fn(out, mkbad=mkbad):
      return mkbad().write(out)
    rec.run("%s adp bad=%s" % (label, name), fn)

  for cls, name in [(SetFL_EAMTabulation, "setfl"), (SetFL_FS_EAMTabulation, "setfl_fs")]:
    for gname, (cutoff, nr, cutoff_rho, nrho) in [("nr1", (2.0, 1, 3.0, 4)), ("nrho1", (2.0, 4, 3.0, 1)), ("nr0", (2.0, 0, 3.0, 4)),
                                                    ("cutoff0", (0.0, 4, 0.0, 4)), ("nrho-none", (2.0, 4, 3.0, None)),
                                                    ("cutoffrho-none", (2.0, 4, None, 4)), ("nr-float", (2.0, 4.0, 3.0, 4))]:
      def fn(out, cls=cls, cutoff=cutoff, nr=nr, cutoff_rho=cutoff_rho, nrho=nrho, name=name):
        order = ["Cu", "Al"]
        tab = fs_species_table(rec, order, True) if name == "setfl_fs" else species_table(rec, True)
        t = cls(pair_list(rec, pairspec, True), [tab[s] for s in order], cutoff, nr, cutoff_rho, nrho)
        return t.write(out)
      rec.run("%s %s oddgrid=%s" % (label, name, gname), fn)
    def fn(out, cls=cls):
      t = cls(None, None, 2.0, 4, 3.0, 4)
      return t.write(out)
    rec.run("%s %s none-lists" % (label, name), fn)
    def fn(out, cls=cls, name=name):
      order = ["Cu", "Al"]
      tab = species_table(rec, True) if name == "setfl_fs" else fs_species_table(rec, order, True)
      t = cls(pair_list(rec, pairspec, True), [tab[s] for s in order], 2.0, 4, 3.0, 4)
      return t.write(out)
    rec.run("%s %s wrong-density-kind" % (label, name), fn)
    def fn(out, cls=cls):
      t = cls([], [], 2.0, 4, 3.0, 4)
      return t.write(None)
    rec.run("%s %s fp-none" % (label, name), fn)

  # subclass overriding hooks still sees the same protocol
  def fn(out):
    events = []
    class Sub(ADP_EAMTabulation):
      def _write_dipole(self, fp):
        events.append(("dipole", type(fp).__name__, fp is out, len(fp.getvalue())))
        return ADP_EAMTabulation._write_dipole(self, fp)
      def _write_quadrupole(self, fp):
        events.append(("quadrupole", type(fp).__name__, fp is out, len(fp.getvalue())))
        return ADP_EAMTabulation._write_quadrupole(self, fp)
    tab = species_table(rec, True)
    t = Sub(pair_list(rec, pairspec, True), [tab["Al"], tab["Cu"]], pair_list(rec, [("Al", "Cu", pair_born)], True),
            pair_list(rec, [("Cu", "Cu", pair_soft)], True), 2.0, 5, 3.0, 4)
    t.write(out)
    return events
  rec.run(label + " adp subclass-hooks", fn)


CONFIG_FILES = [
    "tests/config/config_resources/setfl.aspot",
    "tests/lammps_resources/CRG_U_Th.aspot",
    "docs/user_guide/example_files/finnis_sinclair_eam.aspot",
    "tests/lammps_resources/AlFe_setfl_fs.aspot",
    "tests/lammps_resources/Al_Cu_adp.aspot",
]


def cases_config(rec, big=True):
  """Tabulations driven through the potable Configuration reader."""
  import logging
  logging.disable(logging.CRITICAL)
  for f in CONFIG_FILES:
    def fn(out, f=f):
      from atsim.potentials.config import ConfigParser, ConfigParserOverrideTuple as OT
      with io.open(os.path.join(WT, f), encoding="utf-8") as infile:
        overrides = []
        if not big and ("AlFe" in f or "adp" in f):
          overrides = [OT("Tabulation", "nr", "500"), OT("Tabulation", "nrho", "400")]
        tab = Configuration().read_from_parser(ConfigParser(infile, overrides=overrides))
      tab.write(out)
      return type(tab).__name__
    rec.run("config %s" % f, fn)

  inline = [
      ("setfl-inline", u"""[Tabulation]
target : setfl
nr : 40
dr : 0.1
nrho : 30
drho : 0.05

[Potential-Form]
dens(r, A, B) = A*exp(-B*r)

[Pair]
Zr-Ni : as.buck 1000.0 0.3 2.0
Ni-Ni : as.bornmayer 500.0 0.25

[EAM-Density]
Ni : dens 1.5 1.1
Zr : dens 0.5 1.3

[EAM-Embed]
Zr : as.sqrt -1.0
Ni : as.polynomial 0.0 -1.0 0.25
"""),
      ("setfl_fs-inline", u"""[Tabulation]
target : setfl_fs
nr : 35
dr : 0.11
nrho : 20
drho : 0.5

[Potential-Form]
dens(r, A, B) = A*exp(-B*r)

[Pair]
Zr-Ni : as.buck 1000.0 0.3 2.0
Zr-Zr : as.bornmayer 500.0 0.25

[EAM-Density]
Ni->Ni : dens 1.5 1.1
Ni->Zr : dens 0.5 1.3
Zr->Ni : dens 2.5 1.2
Zr->Zr : dens 0.7 0.9

[EAM-Embed]
Ni : as.sqrt -1.0
Zr : as.sqrt -2.0
"""),
      ("adp-inline", u"""[Tabulation]
target : eam_adp
nr : 25
dr : 0.2
nrho : 12
drho : 0.5

[Potential-Form]
dens(r, A, B) = A*exp(-B*r)

[Pair]
Ni-Ni : as.bornmayer 500.0 0.25
Ni-Zr : as.bornmayer 700.0 0.21

[EAM-Density]
Ni : dens 1.5 1.1
Zr : dens 0.5 1.3

[EAM-Embed]
Ni : as.sqrt -1.0
Zr : as.sqrt -2.0

[EAM-ADP-Dipole]
Ni-Zr : dens 0.1 1.0
Zr-Zr : as.constant 0.25

[EAM-ADP-Quadrupole]
Zr-Ni : dens 0.2 2.0
Ni-Ni : as.polynomial 1.0 2.0
"""),
  ]
  for name, text in inline:
    def fn(out, text=text):
      tab = Configuration().read(io.StringIO(text))
      tab.write(out)
      return type(tab).__name__
    rec.run("config %s" % name, fn)


def report(rec, title, verbose):
  if verbose:
    for l in rec.lines:
      print(l)
  nexc = len([l for l in rec.lines if "| EXC " in l])
  print("%s: cases=%d ok=%d exc=%d" % (title, len(rec.lines), len(rec.lines) - nexc, nexc))
  print("%s DIGEST %s" % (title, rec.digest()))

"""Differential script for the Excel tabulation twins (public API only).

Prints one sha256 digest over: sheet names, every cell value, canonicalised
xlsx archive members (timestamps scrubbed), evaluation order of the tabulated
functions, exception type names of failing writes (first and later writes),
the bytes handed to fp on failure, and workbook identity/caching facts.
"""
import hashlib, io, re, sys, zipfile

from openpyxl import load_workbook

from atsim.potentials import Potential, EAMPotential
from atsim.potentials.config import Configuration
from atsim.potentials.pair_tabulation import Excel_PairTabulation
from atsim.potentials.eam_tabulation import Excel_EAMTabulation, Excel_FinnisSinclair_EAMTabulation

LOG = []
VERBOSE = "-v" in sys.argv

def log(*items):
  s = " | ".join(repr(i) for i in items)
  LOG.append(s)
  if VERBOSE:
    print(s if len(s) < 300 else s[:300] + "...")

_stamp = re.compile(rb"<dcterms:(created|modified)[^>]*>[^<]*</dcterms:\1>")

def canon(xlsx_bytes):
  """sha256 of archive member names + contents with the save time removed"""
  h = hashlib.sha256()
  with zipfile.ZipFile(io.BytesIO(xlsx_bytes)) as z:
    for info in z.infolist():
      data = z.read(info.filename)
      if info.filename == "docProps/core.xml":
        data = _stamp.sub(b"", data)
      h.update(info.filename.encode() + b"\0" + data + b"\0")
  return h.hexdigest()

def dump_wb(wb):
  out = []
  for ws in wb.worksheets:
    rows = [[(type(c.value).__name__, repr(c.value)) for c in row] for row in ws.iter_rows()]
    out.append((ws.title, ws.max_row, ws.max_column, hashlib.sha256(repr(rows).encode()).hexdigest(), rows[:3], rows[-1:] ))
  return out

class RecordingFP(object):
  def __init__(self, fail = None):
    self.chunks = []
    self.fail = fail
  def write(self, data):
    if self.fail is not None:
      raise self.fail
    self.chunks.append(bytes(data))
  def value(self):
    return b"".join(self.chunks)

def attempt(label, thunk):
  try:
    v = thunk()
    log(label, "ok", v if isinstance(v, (tuple, list, str, int, float, type(None))) else type(v).__name__)
    return v
  except BaseException as e:
    if isinstance(e, (KeyboardInterrupt, SystemExit)):
      raise
    log(label, "raised", type(e).__name__, str(e)[:120])
    return None

def exercise(label, tab, nwrites = 3, calls = None):
  """Write several times, read back, report everything observable"""
  log(label, "type", type(tab).__name__, tab.type, tab.target)
  digests = []
  for i in range(nwrites):
    fp = RecordingFP()
    try:
      rv = tab.write(fp)
    except Exception as e:
      log(label, "write", i, "raised", type(e).__name__, str(e)[:120], "nchunks", len(fp.chunks), "bytes", fp.value())
      digests.append(None)
    else:
      data = fp.value()
      d = canon(data)
      digests.append(d)
      log(label, "write", i, "returned", rv, "nchunks", len(fp.chunks), "canon", d)
      wb = load_workbook(io.BytesIO(data))
      log(label, "readback", i, wb.sheetnames, dump_wb(wb))
    if calls is not None:
      log(label, "calls after write", i, len(calls), hashlib.sha256(repr(calls).encode()).hexdigest(), calls[:6], calls[-3:])
  log(label, "same canon", len(set(digests)) == 1, digests)
  # the workbook property
  def wbfacts():
    wb1 = tab.workbook
    wb2 = tab.workbook
    return (wb1 is wb2, type(wb1).__name__, wb1.sheetnames, dump_wb(wb1))
  attempt(label + " workbook property", wbfacts)
  if calls is not None:
    log(label, "calls after workbook", len(calls))
  # writing to a bad file object, then to a good one again
  bad = RecordingFP(fail = IOError("disk full"))
  attempt(label + " bad fp", lambda: tab.write(bad))
  attempt(label + " text fp", lambda: tab.write(io.StringIO()))
  attempt(label + " fp without write()", lambda: tab.write(None))
  if calls is not None:
    log(label, "calls after fp without write()", len(calls))
  good = RecordingFP()
  attempt(label + " good fp again", lambda: (tab.write(good), len(good.chunks), canon(good.value()))[1:])

def exercise_wb_first(label, tab):
  """Touch .workbook before the first write"""
  def facts():
    wb = tab.workbook
    return (wb.sheetnames, dump_wb(wb))
  attempt(label + " workbook first", facts)
  def ident():
    wb = tab.workbook
    fp = RecordingFP()
    tab.write(fp)
    return (wb is tab.workbook, canon(fp.value()))
  attempt(label + " identity across write", ident)

# ---------------------------------------------------------------------------
# 1. models read through Configuration
CONFIGS = {}
CONFIGS["pair1"] = u"""[Tabulation]
target : excel
dr : 0.01
cutoff : 5

[Pair]
O-O : as.polynomial 0 1
Al-O : as.polynomial 0 2
"""
CONFIGS["pair2"] = u"""[Tabulation]
target : excel
nr : 37
cutoff : 7.5

[Pair]
Zr-O : as.buck 1000.0 0.3 27.0
O-Y : as.buck 2000.0 0.25 11.0
U-O : as.bornmayer 1761.775 0.356421
B-A : as.constant 2.5
O-O : >0 as.zero >=1.2 as.polynomial 1 2 3 >3 as.buck 1000.0 0.3 32.0
"""
CONFIGS["pair3"] = u"""[Tabulation]
target : excel
nr : 2
cutoff : 1.0

[Pair]
b-a : as.polynomial 3 0.5
"""
CONFIGS["pair_div0"] = u"""[Tabulation]
target : excel
nr : 11
cutoff : 2.0

[Pair]
A-B : as.coul 1 -1
C-D : as.polynomial 1 1
"""
CONFIGS["eam1"] = u"""[Tabulation]
target : excel_eam
dr : 0.01
cutoff : 5
drho : 0.01
cutoff_rho : 5

[Pair]
O-O : as.polynomial 0 1
Al-O : as.polynomial 0 2

[EAM-Density]
O : as.polynomial 0 3
Al : as.polynomial 0 4

[EAM-Embed]
O : as.polynomial 0 5
Al : as.polynomial 0 6
"""
CONFIGS["eam2"] = u"""[Tabulation]
target : excel_eam
nr : 21
cutoff : 6.5
nrho : 13
cutoff_rho : 40.0

[Pair]
Cu-Ag : as.morse 1.2 2.5 0.3
Ag-Ag : as.buck 1000.0 0.3 27.0
Cu-Cu : as.polynomial 0.5 0.25 0.125

[EAM-Density]
Cu : as.exp_spline 1 0.1 0.01 0.001 0 0.2 0.05
Ag : as.bornmayer 3.0 1.5

[EAM-Embed]
Cu : as.sqrt -1.5
Ag : as.polynomial 0 -1 0.02
"""
CONFIGS["eam_embed_fail"] = u"""[Tabulation]
target : excel_eam
nr : 11
cutoff : 6.5
nrho : 11
cutoff_rho : 10.0

[Pair]
Cu-Cu : as.polynomial 0.5 0.25 0.125

[EAM-Density]
Cu : as.bornmayer 3.0 1.5

[EAM-Embed]
Cu : as.coul 1 1
"""
CONFIGS["eam_density_fail"] = u"""[Tabulation]
target : excel_eam
nr : 11
cutoff : 6.5
nrho : 11
cutoff_rho : 10.0

[Pair]
Cu-Cu : as.polynomial 0.5 0.25 0.125

[EAM-Density]
Cu : as.coul 1 1

[EAM-Embed]
Cu : as.polynomial 1 2
"""
CONFIGS["eam_pair_fail"] = u"""[Tabulation]
target : excel_eam
nr : 11
cutoff : 6.5
nrho : 11
cutoff_rho : 10.0

[Pair]
Cu-Cu : as.coul 1 1

[EAM-Density]
Cu : as.polynomial 1 2

[EAM-Embed]
Cu : as.polynomial 1 2
"""
CONFIGS["fs1"] = u"""[Tabulation]
target : excel_eam_fs
dr : 0.01
cutoff : 5
drho : 0.01
cutoff_rho : 5

[Pair]
O-O : as.polynomial 0 1
Al-O : as.polynomial 0 2

[EAM-Density]
Al->O : as.polynomial 0 3
Al->Al : as.polynomial 0 4
O->Al : as.polynomial 0 7
O->O : as.polynomial 0 8

[EAM-Embed]
O : as.polynomial 0 5
Al : as.polynomial 0 6
"""
CONFIGS["fs2"] = u"""[Tabulation]
target : excel_eam_fs
nr : 9
cutoff : 4.0
nrho : 17
cutoff_rho : 3.0

[Pair]
Fe-Al : as.morse 1.2 2.5 0.3
Fe-Fe : as.buck 1000.0 0.3 27.0
Al-Al : as.zero

[EAM-Density]
Fe->Fe : as.bornmayer 3.0 1.5
Al->Fe : as.bornmayer 2.0 1.0
Fe->Al : as.bornmayer 1.0 0.5
Al->Al : as.polynomial 0.1 0.2

[EAM-Embed]
Fe : as.sqrt -1.5
Al : as.polynomial 0 -1 0.02
"""
CONFIGS["fs_density_fail"] = u"""[Tabulation]
target : excel_eam_fs
nr : 9
cutoff : 4.0
nrho : 17
cutoff_rho : 3.0

[Pair]
Fe-Fe : as.buck 1000.0 0.3 27.0

[EAM-Density]
Fe->Fe : as.coul 1 2

[EAM-Embed]
Fe : as.sqrt -1.5
"""

def read_cfg(text):
  return Configuration().read(io.StringIO(text))

for name in sorted(CONFIGS):
  tab = attempt("cfg %s read" % name, lambda: read_cfg(CONFIGS[name]))
  if tab is None:
    continue
  exercise("cfg " + name, tab)
  exercise_wb_first("cfg " + name, read_cfg(CONFIGS[name]))

# ---------------------------------------------------------------------------
# 2. direct API with recording python callables

class Boom(Exception):
  pass

class Func(object):
  """Callable that records evaluation order and can fail on chosen calls"""
  def __init__(self, name, calls, fn, fail_on = (), exc = Boom, fail_forever_from = None):
    self.name = name
    self.calls = calls
    self.fn = fn
    self.fail_on = set(fail_on)
    self.exc = exc
    self.fail_forever_from = fail_forever_from
    self.n = 0
  def __call__(self, x):
    self.n += 1
    self.calls.append((self.name, x))
    if self.n in self.fail_on or (self.fail_forever_from is not None and self.n >= self.fail_forever_from):
      raise self.exc("%s call %d" % (self.name, self.n))
    return self.fn(x)

def make_pair(calls, spec):
  pots = []
  for (a, b, fn, kw) in spec:
    pots.append(Potential(a, b, Func("pair %s-%s" % (a,b), calls, fn, **kw)))
  return pots

def make_eam(calls, spec, fs = False):
  eams = []
  for (sp, embed, ekw, dens, dkw) in spec:
    ef = Func("embed %s" % sp, calls, embed, **ekw)
    if fs:
      df = dict((k, Func("dens %s->%s" % (sp, k), calls, f, **dkw.get(k, {}))) for (k, f) in dens)
    else:
      df = Func("dens %s" % sp, calls, dens, **dkw)
    eams.append(EAMPotential(sp, 1, 1.0, ef, df))
  return eams

import math
f1 = lambda r: 1.0/(r+0.5)
f2 = lambda r: math.exp(-r) * 3.0
f3 = lambda r: r*r - 2.0*r
f4 = lambda r: -math.sqrt(r)

PAIR_SPECS = {
  "plain"   : [("B","A",f1,{}), ("A","A",f2,{}), ("C","B",f3,{})],
  "dupes"   : [("B","A",f1,{}), ("A","B",f2,{}), ("A","A",f3,{})],
  "empty"   : [],
  "one"     : [("Zr","O",f3,{})],
  "fail3"   : [("B","A",f1,{}), ("A","A",f2,dict(fail_forever_from=3))],
  "flaky1"  : [("B","A",f1,dict(fail_on=[1])), ("A","A",f2,{})],
  "flaky_last" : [("B","A",f1,{}), ("A","A",f2,dict(fail_on=[7]))],
  "flaky_twice": [("B","A",f1,dict(fail_on=[2, 5])), ("A","A",f2,{})],
  "zerodiv" : [("B","A",f1,dict(fail_forever_from=4, exc=ZeroDivisionError)), ("A","A",f2,{})],
  "odd_values" : [("A","A",lambda r: None,{}), ("B","B",lambda r: "s%g" % r,{}), ("C","C",lambda r: int(r*10),{}), ("D","D",lambda r: r > 1.0,{})],
  "bad_value"  : [("A","A",f1,{}), ("B","B",lambda r: [r] if r > 1.0 else r,{})],
}

GRIDS = [(4.0, 7), (2.5, 2), (1.0, 0), (3.0, 1), (6.0, 12)]

for pname in sorted(PAIR_SPECS):
  for (cutoff, nr) in GRIDS[:3] if pname in ("plain", "dupes", "empty", "one") else [GRIDS[0], GRIDS[3]]:
    calls = []
    tab = Excel_PairTabulation(make_pair(calls, PAIR_SPECS[pname]), cutoff, nr)
    exercise("pair %s %s %s" % (pname, cutoff, nr), tab, calls = calls)
  calls = []
  tab = Excel_PairTabulation(make_pair(calls, PAIR_SPECS[pname]), 4.0, 7)
  exercise_wb_first("pair %s" % pname, tab)
  log("pair", pname, "calls", len(calls))

EAM_SPECS = {
  "plain" : [("B", f3, {}, f1, {}), ("A", f4, {}, f2, {})],
  "one"   : [("Zr", f3, {}, f2, {})],
  "empty" : [],
  "dupes" : [("A", f3, {}, f1, {}), ("A", f4, {}, f2, {})],
  "dens_fail"  : [("B", f3, {}, f1, dict(fail_forever_from=2)), ("A", f4, {}, f2, {})],
  "embed_fail" : [("B", f3, dict(fail_forever_from=5), f1, {}), ("A", f4, {}, f2, {})],
  "embed_fail_first" : [("B", f3, {}, f1, {}), ("A", f4, dict(fail_forever_from=1, exc=ValueError), f2, {})],
  "dens_flaky" : [("B", f3, {}, f1, dict(fail_on=[3])), ("A", f4, {}, f2, {})],
  "embed_flaky": [("B", f3, dict(fail_on=[1]), f1, {}), ("A", f4, {}, f2, {})],
  "embed_flaky_late": [("B", f3, {}, f1, {}), ("A", f4, dict(fail_on=[5, 9]), f2, {})],
  "dens_bad_value" : [("B", f3, {}, lambda r: {1:2}, {})],
  "embed_bad_value" : [("B", lambda r: (r,), {}, f1, {})],
  "dict_density" : "DICT",
}

EAM_GRIDS = [(4.0, 7, 10.0, 5), (2.5, 2, 1.0, 2), (1.0, 0, 2.0, 3), (3.0, 5, 2.0, 1), (3.0, 1, 2.0, 4), (2.0, 3, 2.0, 0)]

for ename in sorted(EAM_SPECS):
  for pname in ("plain", "empty", "flaky1", "fail3"):
    if pname != "plain" and ename not in ("plain", "dens_flaky", "embed_fail"):
      continue
    for grid in (EAM_GRIDS if (ename in ("plain", "one") and pname == "plain") else EAM_GRIDS[:1]):
      calls = []
      pots = make_pair(calls, PAIR_SPECS[pname])
      if EAM_SPECS[ename] == "DICT":
        eams = make_eam(calls, [("B", f3, {}, [("A", f1), ("B", f2)], {})], fs = True)
      else:
        eams = make_eam(calls, EAM_SPECS[ename])
      tab = Excel_EAMTabulation(pots, eams, *grid)
      exercise("eam %s/%s %r" % (ename, pname, grid), tab, calls = calls)
  calls = []
  if EAM_SPECS[ename] != "DICT":
    tab = Excel_EAMTabulation(make_pair(calls, PAIR_SPECS["plain"]), make_eam(calls, EAM_SPECS[ename]), *EAM_GRIDS[0])
    exercise_wb_first("eam %s" % ename, tab)
    log("eam", ename, "calls", len(calls))

FS_SPECS = {
  "plain" : [("B", f3, {}, [("B", f1), ("A", f2)], {}), ("A", f4, {}, [("A", f3), ("B", f4)], {})],
  "one"   : [("Zr", f3, {}, [("Zr", f2)], {})],
  "missing" : [("B", f3, {}, [("A", f2)], {}), ("A", f4, {}, [], {})],
  "empty" : [],
  "dens_fail"  : [("B", f3, {}, [("B", f1), ("A", f2)], {"A" : dict(fail_forever_from=2)}), ("A", f4, {}, [("A", f3), ("B", f4)], {})],
  "dens_flaky" : [("B", f3, {}, [("B", f1), ("A", f2)], {"B" : dict(fail_on=[4])}), ("A", f4, {}, [("A", f3), ("B", f4)], {})],
  "embed_fail" : [("B", f3, {}, [("B", f1), ("A", f2)], {}), ("A", f4, dict(fail_forever_from=3, exc=OverflowError), [("A", f3), ("B", f4)], {})],
  "embed_flaky": [("B", f3, dict(fail_on=[2]), [("B", f1), ("A", f2)], {}), ("A", f4, {}, [("A", f3), ("B", f4)], {})],
  "callable_density" : "PLAIN",
}

for fname in sorted(FS_SPECS):
  for pname in ("plain", "flaky_last", "zerodiv"):
    if pname != "plain" and fname not in ("plain", "dens_flaky"):
      continue
    for grid in (EAM_GRIDS if (fname == "plain" and pname == "plain") else EAM_GRIDS[:1]):
      calls = []
      pots = make_pair(calls, PAIR_SPECS[pname])
      if FS_SPECS[fname] == "PLAIN":
        eams = make_eam(calls, EAM_SPECS["plain"])
      else:
        eams = make_eam(calls, FS_SPECS[fname], fs = True)
      tab = Excel_FinnisSinclair_EAMTabulation(pots, eams, *grid)
      exercise("fs %s/%s %r" % (fname, pname, grid), tab, calls = calls)
  if FS_SPECS[fname] != "PLAIN":
    calls = []
    tab = Excel_FinnisSinclair_EAMTabulation(make_pair(calls, PAIR_SPECS["plain"]), make_eam(calls, FS_SPECS[fname], fs = True), *EAM_GRIDS[0])
    exercise_wb_first("fs %s" % fname, tab)
    log("fs", fname, "calls", len(calls))

# ---------------------------------------------------------------------------
# 3. malformed constructor input and class level facts
for label, thunk in [
    ("pots None", lambda: Excel_PairTabulation(None, 4.0, 5)),
    ("pots not potentials", lambda: Excel_PairTabulation([1, 2], 4.0, 5)),
    ("cutoff str", lambda: Excel_PairTabulation(make_pair([], PAIR_SPECS["one"]), "x", 5)),
    ("nr float", lambda: Excel_PairTabulation(make_pair([], PAIR_SPECS["one"]), 4.0, 5.0)),
    ("eam None", lambda: Excel_EAMTabulation(make_pair([], PAIR_SPECS["one"]), None, 4.0, 5, 2.0, 3)),
    ("eam not eam", lambda: Excel_EAMTabulation(make_pair([], PAIR_SPECS["one"]), [object()], 4.0, 5, 2.0, 3)),
    ("eam pots None", lambda: Excel_EAMTabulation(None, make_eam([], EAM_SPECS["one"]), 4.0, 5, 2.0, 3)),
    ("eam nrho str", lambda: Excel_EAMTabulation(make_pair([], PAIR_SPECS["one"]), make_eam([], EAM_SPECS["one"]), 4.0, 5, 2.0, "3")),
    ("fs eam None", lambda: Excel_FinnisSinclair_EAMTabulation(make_pair([], PAIR_SPECS["one"]), None, 4.0, 5, 2.0, 3)),
  ]:
  tab = attempt("malformed %s construct" % label, thunk)
  if tab is not None:
    exercise("malformed " + label, tab, nwrites = 2)

for cls in (Excel_PairTabulation, Excel_EAMTabulation, Excel_FinnisSinclair_EAMTabulation):
  log(cls.__name__, [b.__name__ for b in cls.__mro__], sorted(n for n in dir(cls) if not n.startswith("_")),
      isinstance(cls.__dict__.get("workbook", Excel_EAMTabulation.__dict__.get("workbook")), property))

import tempfile, os
d = tempfile.mkdtemp()
for cls in (Excel_PairTabulation, Excel_EAMTabulation, Excel_FinnisSinclair_EAMTabulation):
  p = os.path.join(d, cls.__name__ + ".xlsx")
  with cls.open_fp(p) as fp:
    log(cls.__name__, "open_fp", fp.mode, type(fp).__name__)

print("lines %d" % len(LOG))
print("DIGEST " + hashlib.sha256("\n".join(LOG).encode()).hexdigest())

"""Differential script for twin C.

Exercises the trans() configuration-file modifier (alone, nested in / around the other
modifiers and multi-range definitions, and with malformed arguments), the discovery of modifiers
by the configuration sub-system and atsim.potentials.Potential.energy()/force(), then
prints a sha256 digest of everything that was observed.
"""
from __future__ import print_function

import collections
import hashlib
import io
import math
import os

import atsim.potentials as ap
from atsim.potentials import potentialforms as pforms
from atsim.potentials import gradient, Potential
from atsim.potentials.config import Configuration
from atsim.potentials import _modifiers  # must come after the config import (circular import otherwise)

LOG = []


def rec(*items):
  LOG.append(" | ".join(str(i) for i in items))


def attempt(label, f, *args, **kwargs):
  try:
    v = f(*args, **kwargs)
    rec(label, "OK", repr(v))
    return v
  except Exception as e:  # noqa
    rec(label, "EXC", type(e).__name__, str(e))
    return None


RS = [0.2, 0.75, 1.0, 1.3, 2.6, 4.4, 9.0]

# ---------------------------------------------------------------- Potential objects


def plain(r):
  return 4.0 / r**2 - 0.5 * r


class Analytic(object):
  def __call__(self, r):
    return r**3

  def deriv(self, r):
    return 3.0 * r**2 + 1000.0  # deliberately not the true derivative so the route shows


class Analytic2(Analytic):
  def deriv2(self, r):
    return 6.0 * r - 1000.0


class NotCallable(object):
  pass


pot_functions = [
    ("plain", plain),
    ("lambda", lambda r: math.exp(-r)),
    ("Analytic", Analytic()),
    ("Analytic2", Analytic2()),
    ("buck", pforms.buck(1000.0, 0.3, 32.0)),
    ("zbl", pforms.zbl(92, 8)),
    ("plus", ap.plus(pforms.buck(1000.0, 0.3, 32.0), plain)),
    ("gradient", gradient(pforms.morse(1.2, 1.8, 0.6))),
    ("NotCallable", NotCallable()),
    ("None", None),
]
for name, f in pot_functions:
  for h in [None, 1e-6, 1e-3, 0.5, 0.0]:
    try:
      p = Potential("Aa", "Bb", f) if h is None else Potential("Aa", "Bb", f, h)
    except Exception as e:  # noqa
      rec("Potential-exc", name, h, type(e).__name__, str(e))
      continue
    rec("Potential", name, h, p.speciesA, p.speciesB, p.potentialFunction is f,
        sorted(k for k in vars(p) if k in ("_speciesA", "_speciesB", "_potentialFunction")))
    for r in RS:
      attempt("energy %s h=%r r=%r" % (name, h, r), p.energy, r)
      attempt("force %s h=%r r=%r" % (name, h, r), p.force, r)
attempt("Potential no-func", lambda: Potential("A", "B"))
attempt("Potential kw", lambda: Potential(speciesB="B", speciesA="A", potentialFunction=plain, h=0.1).force(2.0))

# ---------------------------------------------------------------- modifier discovery
from atsim.potentials.config._modifier_registry import Modifier_Registry  # noqa
_reg = Modifier_Registry()
for _name in ["sum", "product", "pow", "spline", "trans", "modifier", "is_modifier", "plus", "logging",
              "Exp_Spline", "_sum", "_translated_method", "_DERIVATIVE_METHODS", "_modifier_from_func_reduce"]:
  try:
    rec("registry", _name, _reg[_name].__name__)
  except KeyError:
    rec("registry", _name, "KeyError")
for name in sorted(dir(_modifiers)):
  if name.startswith("_"):
    continue
  obj = getattr(_modifiers, name)
  rec("is_modifier", name, repr(_modifiers.is_modifier(obj)), bool(_modifiers.is_modifier(obj)))


class Flagged(object):
  def __init__(self, v):
    self.is_modifier = v


for v in [True, False, 0, 1, "", "yes", None, [], [0]]:
  rec("is_modifier-flag", repr(v), repr(_modifiers.is_modifier(Flagged(v))))
for v in [None, 1, "abc", len, Flagged, object()]:
  rec("is_modifier-other", type(v).__name__, repr(_modifiers.is_modifier(v)))

# ---------------------------------------------------------------- trans() called with stub builder
Form = collections.namedtuple("Form", ["potential_form", "parameters"])
ModForm = collections.namedtuple("ModForm", ["modifier", "parameters"])


class StubBuilder(object):
  def __init__(self, mapping):
    self.mapping = mapping
    self.calls = []

  def create_potential_function(self, pfi):
    self.calls.append(pfi)
    return self.mapping[pfi.potential_form]


class DerivOnly(object):
  def __call__(self, r):
    return r**2

  def deriv(self, r):
    return 2.0 * r + 500.0


class Deriv2Only(object):
  def __call__(self, r):
    return r**2

  def deriv2(self, r):
    return 2.0 + 500.0


class Mutable(object):
  """deriv/deriv2 are replaced after the modifier has been built"""

  def __call__(self, r):
    return r

  def deriv(self, r):
    return 1.0

  def deriv2(self, r):
    return 0.0


mapping = {
    "plain": plain,
    "deriv_only": DerivOnly(),
    "deriv2_only": Deriv2Only(),
    "both": Analytic2(),
    "buck": pforms.buck(1000.0, 0.3, 32.0),
    "mutable": Mutable(),
    "notcallable": NotCallable(),
}
for key in sorted(mapping):
  for shift in [0.0, 0.5, -0.1, 2]:
    builder = StubBuilder(mapping)
    forms = [Form(key, (1.0,)), Form("as.constant", (shift,))]
    try:
      t = _modifiers.trans(forms, builder)
    except Exception as e:  # noqa
      rec("stub-trans-exc", key, shift, type(e).__name__, str(e))
      continue
    rec("stub-trans", key, shift, hasattr(t, "deriv"), hasattr(t, "deriv2"), callable(t),
        [c.potential_form for c in builder.calls], sorted(k for k in vars(t)))
    g = gradient(t)
    gg = gradient(g)
    rec("stub-trans-grad", key, shift, hasattr(g, "deriv"), hasattr(gg, "deriv"))
    for r in RS:
      attempt("stub-trans %s %r (r=%r)" % (key, shift, r), t, r)
      if hasattr(t, "deriv"):
        attempt("stub-trans %s %r .deriv(r=%r)" % (key, shift, r), t.deriv, r)
      if hasattr(t, "deriv2"):
        attempt("stub-trans %s %r .deriv2(r=%r)" % (key, shift, r), t.deriv2, r)
      attempt("stub-trans %s %r grad(r=%r)" % (key, shift, r), g, r)
      attempt("stub-trans %s %r gradgrad(r=%r)" % (key, shift, r), gg, r)
      attempt("stub-trans %s %r force(r=%r)" % (key, shift, r), Potential("A", "B", t, 1e-4).force, r)

# mutate wrapped callable after construction
mut = Mutable()
t = _modifiers.trans([Form("mutable", ()), Form("as.constant", (0.25,))], StubBuilder({"mutable": mut}))
rec("mutable-before", repr(t(1.0)), repr(t.deriv(1.0)), repr(t.deriv2(1.0)))
mut.deriv = lambda r: 10.0 * r
mut.deriv2 = lambda r: 20.0 * r
rec("mutable-after", repr(t(1.0)), repr(t.deriv(1.0)), repr(t.deriv2(1.0)), hasattr(t, "deriv"), hasattr(t, "deriv2"))

# malformed argument lists given to trans()
bad_arglists = [
    ("empty", []),
    ("one", [Form("plain", ())]),
    ("three", [Form("plain", ()), Form("as.constant", (1.0,)), Form("as.constant", (1.0,))]),
    ("second-not-constant", [Form("plain", ()), Form("as.buck", (1.0, 2.0, 3.0))]),
    ("second-modifier", [Form("plain", ()), ModForm("sum", (1.0,))]),
    ("constant-two-params", [Form("plain", ()), Form("as.constant", (1.0, 2.0))]),
    ("constant-no-params", [Form("plain", ()), Form("as.constant", ())]),
    ("first-unknown", [Form("unknown", ()), Form("as.constant", (1.0,))]),
    ("string-shift", [Form("plain", ()), Form("as.constant", ("x",))]),
    ("None", None),
]
for label, forms in bad_arglists:
  builder = StubBuilder(mapping)
  try:
    t = _modifiers.trans(forms, builder)
    rec("bad-trans", label, "constructed", hasattr(t, "deriv"), hasattr(t, "deriv2"), len(builder.calls))
    attempt("bad-trans %s call" % label, t, 1.0)
  except Exception as e:  # noqa
    rec("bad-trans", label, "EXC", type(e).__name__, str(e), len(builder.calls))

# ---------------------------------------------------------------- trans() in configuration files
PAIRS = u"""
[Pair]
A-A = trans(as.buck 1000.0 0.2 32.0, as.constant 2.0)
A-B = trans(born_mayer 1000.0 0.2, as.constant -0.05)
A-C = trans(sum(as.buck 1000.0 0.2 32.0, as.constant 1.0), as.constant 0.1)
A-D = sum(trans(as.morse 1.2 1.8 0.6, as.constant 0.3), trans(born_mayer 10.0 0.5, as.constant 0.3))
A-E = trans(>0 as.zbl 8 8 >=1.0 as.buck 1000.0 0.3 32.0 >=3.0 born_mayer 10.0 0.5, as.constant 0.5)
A-F = trans(trans(as.lj 0.25 2.5, as.constant 0.5), as.constant 0.25)
A-G = product(trans(as.polynomial 0.0 1.0 2.0, as.constant 1.0), as.constant 0.5)
A-H = spline(trans(as.zbl 14 8, as.constant 0.01) >=0.8 exp_spline >=1.4 trans(as.buck 18003.7572 0.205204 133.5381, as.constant 0.01))
A-I = trans(sum(born_mayer 1000.0 0.2, born_mayer 10.0 0.5), as.constant 0)
A-J = >0 trans(as.buck 1000.0 0.3 32.0, as.constant 0.1) >=2.0 trans(born_mayer 10.0 0.5, as.constant 0.1)

[Potential-Form]
born_mayer(r, A, rho) = A * exp(-r/rho)
"""
TABS = [
    u"[Tabulation]\ntarget : LAMMPS\ncutoff : 6.0\nnr : 30\n",
    u"[Tabulation]\ntarget : DL_POLY\ncutoff : 8.0\nnr : 40\n",
    u"[Tabulation]\ntarget : GULP\ncutoff : 4.0\ndr : 0.2\n",
    u"[Tabulation]\ntarget : LAMMPS\ncutoff : 12.5\ndr : 0.125\n",
]
HEAD = u"[Tabulation]\ntarget : LAMMPS\ncutoff : 6.0\nnr : 30\n[Pair]\n"
BAD_CONFIGS = [
    HEAD + u"A-A = trans(as.buck 1000.0 0.3 32.0)\n",
    HEAD + u"A-A = trans(as.buck 1000.0 0.3 32.0, as.buck 1000.0 0.3 32.0)\n",
    HEAD + u"A-A = trans(as.buck 1000.0 0.3 32.0, as.constant 1.0 2.0)\n",
    HEAD + u"A-A = trans(as.buck 1000.0 0.3 32.0, as.constant 1.0, as.constant 1.0)\n",
    HEAD + u"A-A = trans(as.buck 1000.0 0.3 32.0, sum(as.constant 1.0, as.constant 2.0))\n",
    HEAD + u"A-A = trans(as.buck 1000.0 0.3, as.constant 1.0)\n",
    HEAD + u"A-A = trans(as.nosuch 1000.0 0.3, as.constant 1.0)\n",
    HEAD + u"A-A = trans()\n",
    HEAD + u"A-A = Trans(as.buck 1000.0 0.3 32.0, as.constant 1.0)\n",
    HEAD + u"A-A = trans(as.coul 1.0 1.0, as.constant -20.0)\n",
]

for i, cfg in enumerate([t + PAIRS for t in TABS] + BAD_CONFIGS):
  try:
    tab = Configuration().read(io.StringIO(cfg))
    for p in tab.potentials:
      pf_ = p.potentialFunction
      rec("cfg", i, p.speciesA, p.speciesB, hasattr(pf_, "deriv"), hasattr(pf_, "deriv2"))
      for r in RS:
        attempt("cfg %d %s-%s energy r=%r" % (i, p.speciesA, p.speciesB, r), p.energy, r)
        attempt("cfg %d %s-%s force r=%r" % (i, p.speciesA, p.speciesB, r), p.force, r)
        attempt("cfg %d %s-%s d2 r=%r" % (i, p.speciesA, p.speciesB, r), gradient(gradient(pf_)), r)
    out = io.StringIO()
    tab.write(out)
    rec("cfg-out", i, hashlib.sha256(out.getvalue().encode("utf-8")).hexdigest(), len(out.getvalue()))
  except Exception as e:  # noqa
    rec("cfg-exc", i, type(e).__name__, str(e))

# ---------------------------------------------------------------- writePotentials with Potential objects
pots = [Potential("O", "O", pforms.buck(1633.0, 0.327, 3.95)),
        Potential("U", "O", plain, 1e-3),
        Potential("U", "U", Analytic()),
        Potential("Gd", "U", Analytic2(), 0.25)]
for target in ["LAMMPS", "DL_POLY", "GULP"]:
  for cutoff, npts in [(6.5, 20), (10.0, 100), (3.0, 8)]:
    out = io.StringIO()
    try:
      ap.writePotentials(target, pots, cutoff, npts, out)
      rec("writePotentials", target, cutoff, npts, hashlib.sha256(out.getvalue().encode("utf-8")).hexdigest())
    except Exception as e:  # noqa
      rec("writePotentials-exc", target, cutoff, npts, type(e).__name__, str(e))

blob = "\n".join(LOG).encode("utf-8")
print("records:", len(LOG))
print("digest:", hashlib.sha256(blob).hexdigest())
if os.environ.get("TWIN_DUMP"):
  with open(os.environ["TWIN_DUMP"], "wb") as fh:
    fh.write(blob)

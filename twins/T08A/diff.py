"""Differential script for twin A (tabulation factories: extract_cutoffs / EAM species logging).

Exercises every entry of TABULATION_FACTORIES through Configuration.read(), the
factories' extract_cutoffs() directly, and the potable command line, on models with
complete, partial and missing grids, bad DL_POLY / LAMMPS row counts, plain EAM,
Finnis-Sinclair (Mapping densities -> extra log lines) and ADP models.
All return values, log records (logger name, level, text), exception types/messages and
output file bytes go into a single sha256 digest.
"""
import hashlib
import io
import os
import sys

sys.path.insert(0, os.path.dirname(os.path.abspath(__file__)))
import harness
from harness import res, run_cli, guarded, captured_logs, Digest

from atsim.potentials.config import Configuration, ConfigParser, ConfigParserOverrideTuple
from atsim.potentials.config._tabulation_factories import TABULATION_FACTORIES

PAIR = u"""[Tabulation]
{tab}

[Pair]
O-O = as.buck 1633.010242995040 0.327022 3.948787
U-O = as.buck 693.648700 0.327022 0.0
U-U = as.bornmayer 294.640906285709 0.327022
"""

PAIR_REORDERED = u"""[Pair]
U-U = as.bornmayer 294.640906285709 0.327022
O-U = as.buck 693.648700 0.327022 0.0
O-O = as.buck 1633.010242995040 0.327022 3.948787

[Tabulation]
{tab}
"""

EAM = u"""[Tabulation]
{tab}

[Species]
A.atomic_mass = 1
A.atomic_number = 1
B.atomic_mass = 2
B.atomic_number = 2

[EAM-Embed]
A = as.polynomial 0 1
B = as.sqrt -0.5

[EAM-Density]
A = as.polynomial 0 2
B = as.exponential 3.0 0.5

[Pair]
A-B = as.buck 1000.0 0.3 2.0
B-B = as.bornmayer 500 0.25
"""

EAM_FS = u"""[Tabulation]
{tab}

[Species]
A.atomic_mass = 1
A.atomic_number = 1
B.atomic_mass = 2
B.atomic_number = 2

[EAM-Embed]
B = as.polynomial 0 1
A = as.sqrt -0.25

[EAM-Density]
A->B = as.polynomial 0 3
B->A = as.polynomial 0 2
B->B = as.polynomial 0 5
A->A = as.exponential 2.0 0.5

[Pair]
B-A = as.buck 1000.0 0.3 2.0
"""

# Only one species has an explicit a->b density (mixed Mapping content)
EAM_FS_PARTIAL = EAM_FS.replace(u"A->B = as.polynomial 0 3\n", u"")

ADP = u"""[Tabulation]
{tab}

[Species]
A.atomic_mass = 1
A.atomic_number = 1
B.atomic_mass = 2
B.atomic_number = 2

[EAM-Embed]
A = as.polynomial 0 1
B = as.sqrt -0.5

[EAM-Density]
A = as.polynomial 0 2
B = as.exponential 3.0 0.5

[Pair]
A-A = as.buck 800.0 0.3 1.0
A-B = as.buck 1000.0 0.3 2.0
B-B = as.bornmayer 500 0.25

[EAM-ADP-Dipole]
A-B = as.polynomial 0 0.1
B-B = as.exponential 0.2 0.5

[EAM-ADP-Quadrupole]
A-A = as.polynomial 0 0.3
A-B = as.exponential 0.1 0.25
"""

GRIDS = [
  ("full", "cutoff : 6.0\nnr : 24\ncutoff_rho : 20.0\nnrho : 16"),
  ("dr", "cutoff : 5.0\ndr : 0.25\ncutoff_rho : 50.0\ndrho : 2.5"),
  ("nr_dr", "nr : 20\ndr : 0.2\nnrho : 12\ndrho : 0.5"),
  ("r_only", "cutoff : 4.0\nnr : 16"),
  ("rho_only", "cutoff_rho : 10.0\nnrho : 8"),
  ("none", ""),
  ("nr5", "cutoff : 4.0\nnr : 5\ncutoff_rho : 5.0\nnrho : 5"),
  ("nr4", "cutoff : 4.0\nnr : 4\ncutoff_rho : 5.0\nnrho : 4"),
  ("nr2", "cutoff : 4.0\nnr : 2\ncutoff_rho : 5.0\nnrho : 2"),
  ("nr1", "cutoff : 4.0\nnr : 1"),
  ("nr8", "cutoff : 4.0\nnr : 8\nnrho : 8"),
  ("nr0", "cutoff : 4.0\nnr : 0"),
]

PAIR_TARGETS = ["LAMMPS", "DLPOLY", "DL_POLY", "GULP", "excel", None, "bogus"]
EAM_TARGETS = ["setfl", "lammps_eam_alloy", "DL_POLY_EAM", "excel_eam"]
FS_TARGETS = ["setfl_fs", "DL_POLY_EAM_fs", "excel_eam_fs"]


def tab_section(target, grid):
  lines = []
  if target is not None:
    lines.append("target : {}".format(target))
  if grid:
    lines.append(grid)
  return "\n".join(lines)


def tabulate_via_configuration(text):
  """Configuration.read() + write() -> digest of the produced bytes (text targets) or type name."""
  tabulation = Configuration().read(io.StringIO(text))
  info = [type(tabulation).__name__]
  for attr in ("cutoff", "nr", "cutoff_rho", "nrho", "dr", "drho"):
    info.append((attr, repr(getattr(tabulation, attr, "<missing>"))))
  if "Excel" in type(tabulation).__name__:
    return info
  buf = io.StringIO()
  tabulation.write(buf)
  data = buf.getvalue().encode("utf-8")
  info.append((len(data), hashlib.sha256(data).hexdigest()))
  return info


def cutoffs_via_factories(text):
  out = []
  for name in sorted(TABULATION_FACTORIES):
    cp = ConfigParser(io.StringIO(text))
    out.append((name, guarded(TABULATION_FACTORIES[name].extract_cutoffs, cp)))
  return out


def main():
  d = Digest()

  d.add("factory-keys", sorted(TABULATION_FACTORIES))
  for name in sorted(TABULATION_FACTORIES):
    f = TABULATION_FACTORIES[name]
    d.add("factory:" + name, (type(f).__name__, f.tabulation_target, f.tabulation_class.__name__, f.tabulation_type,
                              getattr(getattr(f, "eam_builder_class", None), "__name__", None)))

  families = [
    ("pair", PAIR, PAIR_TARGETS),
    ("pair_reordered", PAIR_REORDERED, ["LAMMPS", "GULP", "DLPOLY"]),
    ("eam", EAM, EAM_TARGETS),
    ("eam_fs", EAM_FS, FS_TARGETS),
    ("eam_fs_partial", EAM_FS_PARTIAL, FS_TARGETS),
    ("adp", ADP, ["eam_adp"]),
    # mismatched target/model families
    ("pair_as_eam", PAIR, ["setfl", "eam_adp"]),
    ("fs_as_plain", EAM_FS, ["setfl"]),
    ("plain_as_fs", EAM, ["setfl_fs"]),
    ("eam_as_pair", EAM, ["LAMMPS", "DLPOLY"]),
  ]

  for fam, template, targets in families:
    for target in targets:
      for gname, grid in GRIDS:
        text = template.format(tab=tab_section(target, grid))
        label = "{}/{}/{}".format(fam, target, gname)
        with captured_logs() as logs:
          r = guarded(tabulate_via_configuration, text)
        d.add("read:" + label, (r, logs))

  # extract_cutoffs of every factory on every grid
  for gname, grid in GRIDS:
    text = EAM.format(tab=tab_section("setfl", grid))
    with captured_logs() as logs:
      r = cutoffs_via_factories(text)
    d.add("cutoffs:" + gname, (r, logs))

  # No [Tabulation] section at all
  for fam, template in (("pair", PAIR), ("eam_fs", EAM_FS)):
    text = template.replace(u"[Tabulation]\n{tab}\n", u"")
    with captured_logs() as logs:
      r = (guarded(tabulate_via_configuration, text), cutoffs_via_factories(text))
    d.add("notab:" + fam, (r, logs))

  # Repository example files, with the grid coarsened through overrides
  def ov(s, k, v):
    return ConfigParserOverrideTuple(section=s, key=k, value=v)

  def read_file(path, overrides, additional):
    with open(path) as fp:
      cp = ConfigParser(fp, overrides=overrides, additional=additional)
    tabulation = Configuration().read_from_parser(cp)
    buf = io.StringIO()
    tabulation.write(buf)
    data = buf.getvalue().encode("utf-8")
    return (type(tabulation).__name__, len(data), hashlib.sha256(data).hexdigest())

  files = [
    (res("tests", "lammps_resources", "CRG_U_Th.aspot"), [ov("Tabulation", "nr", "30"), ov("Tabulation", "dr", "0.3"), ov("Tabulation", "nrho", "20"), ov("Tabulation", "drho", "0.5")], []),
    (res("tests", "dl_poly_resources", "CRG_Ce.aspot"), [ov("Tabulation", "nr", "32"), ov("Tabulation", "dr", "0.3"), ov("Tabulation", "nrho", "20"), ov("Tabulation", "drho", "0.5")], []),
    (res("tests", "lammps_resources", "AlFe_setfl_fs.aspot"), [ov("Tabulation", "nr", "40"), ov("Tabulation", "dr", "0.16"), ov("Tabulation", "nrho", "30"), ov("Tabulation", "drho", "10")], []),
    (res("tests", "lammps_resources", "Al_Cu_adp.aspot"), [ov("Tabulation", "nr", "50"), ov("Tabulation", "dr", "0.125"), ov("Tabulation", "nrho", "25"), ov("Tabulation", "drho", "0.9")], []),
    (res("tests", "config", "config_resources", "setfl.aspot"), [ov("Tabulation", "nrho", "25")], [ov("Tabulation", "nr", "40")]),
    (res("tests", "config", "config_resources", "spinel.aspot"), [ov("Tabulation", "nrho", "25")], [ov("Tabulation", "nr", "40")]),
    (res("docs", "user_guide", "example_files", "basak_table_form.aspot"), [ov("Tabulation", "nr", "64")], []),
    (res("docs", "user_guide", "example_files", "morelon.aspot"), [ov("Tabulation", "nr", "44"), ov("Tabulation", "target", "DLPOLY")], []),
    (res("docs", "user_guide", "example_files", "morelon.aspot"), [ov("Tabulation", "nr", "42"), ov("Tabulation", "target", "DLPOLY")], []),
    (res("docs", "user_guide", "example_files", "finnis_sinclair_eam.aspot"), [], []),
    (res("docs", "user_guide", "example_files", "standard_eam.aspot"), [], []),
  ]
  for path, overrides, additional in files:
    with captured_logs() as logs:
      r = guarded(read_file, path, overrides, additional)
    d.add("file:" + os.path.relpath(path, harness.WT) + repr([tuple(o) for o in overrides]), (r, logs))

  # Through the command line
  cli_cases = [
    ([res("docs", "user_guide", "example_files", "standard_eam.aspot")], "o.eam"),
    ([res("docs", "user_guide", "example_files", "finnis_sinclair_eam.aspot")], "o.eam"),
    ([res("docs", "user_guide", "example_files", "finnis_sinclair_eam.aspot"), "-e", "Tabulation:target=excel_eam_fs"], "o.xlsx"),
    ([res("docs", "user_guide", "example_files", "standard_eam.aspot"), "-r", "Tabulation:cutoff_rho", "Tabulation:drho", "-r", "Tabulation:dr"], "o.eam"),
    ([res("docs", "user_guide", "example_files", "morelon.aspot"), "-e", "Tabulation:target=DLPOLY", "Tabulation:nr=42"], "TABLE"),
    ([res("docs", "user_guide", "example_files", "morelon.aspot"), "-e", "Tabulation:target=DLPOLY", "Tabulation:nr=4"], "TABLE"),
    ([res("docs", "user_guide", "example_files", "morelon.aspot"), "-e", "Tabulation:nr=2"], "o.lmptab"),
    ([res("docs", "user_guide", "example_files", "morelon.aspot"), "-e", "Tabulation:nr=12", "-r", "Tabulation:cutoff"], "o.lmptab"),
    ([res("docs", "user_guide", "example_files", "morelon.aspot"), "-e", "Tabulation:nr=12", "Tabulation:target=excel"], "o.xlsx"),
    ([res("tests", "lammps_resources", "Al_Cu_adp.aspot"), "-e", "Tabulation:nr=50", "Tabulation:dr=0.125", "Tabulation:nrho=25", "Tabulation:drho=0.9"], "o.adp"),
  ]
  for argv, out_name in cli_cases:
    r = run_cli(argv, out_name=out_name)
    d.add("cli:" + repr(r["argv"]), sorted(r.items()))

  d.finish()


if __name__ == "__main__":
  main()

#!/usr/bin/env python
"""Usage (always through the worktree wrapper):

  /venv/bin/python -W ignore /tmp/wtpy.py /tmp/wt_r10_4 _twins/diffX.py            # both parts
  /venv/bin/python -W ignore /tmp/wtpy.py /tmp/wt_r10_4 _twins/diffX.py existing   # part (a) only - works on a clean tree
  /venv/bin/python -W ignore /tmp/wtpy.py /tmp/wt_r10_4 _twins/diffX.py new        # part (b) only - needs the edit

Part (a) prints 'EXISTING-DIGEST <sha256>' which must be identical on the clean
and on the edited tree.  Part (b) prints 'NEW-FEATURE OK' when every check of
the new feature passed.
"""
import glob
import hashlib
import io
import logging
import math
import os
import subprocess
import sys
import tempfile

logging.disable(logging.CRITICAL)

import atsim.potentials
from atsim.potentials import (EAMPotential, Potential, potentialforms,
                              writeFuncFL, writePotentials, writeSetFL,
                              writeSetFLFinnisSinclair, writeTABEAM,
                              writeTABEAMFinnisSinclair)
from atsim.potentials import eam_tabulation, pair_tabulation
from atsim.potentials.config import (ConfigParser, ConfigParserOverrideTuple,
                                     Configuration, FilteredConfigParser)
from atsim.potentials.config._common import ConfigurationException

WT = os.getcwd()


def _sha(b):
  if not isinstance(b, bytes):
    b = b.encode("utf-8")
  return hashlib.sha256(b).hexdigest()[:16]


class _Digest(object):
  def __init__(self, verbose):
    self.lines = []
    self.verbose = verbose

  def add(self, label, payload):
    flag = "EXC" if payload.startswith("EXC ") else "len=%d" % len(payload)
    line = "%s %s %s" % (label, _sha(payload), flag)
    self.lines.append(line)
    if self.verbose:
      print("  " + line)

  def guarded(self, label, f):
    try:
      payload = f()
    except Exception as e:
      payload = "EXC %s.%s: %s" % (type(e).__module__, type(e).__name__, e)
    self.add(label, payload)

  def total(self):
    return hashlib.sha256("\n".join(self.lines).encode("utf-8")).hexdigest()


def _workbook_text(wb):
  out = []
  for ws in wb.worksheets:
    out.append("SHEET " + ws.title)
    for row in ws.iter_rows(values_only=True):
      out.append(repr(tuple(row)))
  return "\n".join(out)


def _tabulate_cfg(text, target=None, extra_overrides=(), include=None, exclude=None):
  overrides = list(extra_overrides)
  additional = []
  if target is not None:
    has_target = False
    cp0 = ConfigParser(io.StringIO(text))
    has_target = cp0.tabulation.target is not None
    t = ConfigParserOverrideTuple("Tabulation", "target", target)
    if has_target:
      overrides.append(t)
    else:
      additional.append(t)
  cp = ConfigParser(io.StringIO(text), overrides=overrides, additional=additional)
  if include is not None:
    cp = FilteredConfigParser(cp, include=include)
  if exclude is not None:
    cp = FilteredConfigParser(cp, exclude=exclude)
  tab = Configuration().read_from_parser(cp)
  if hasattr(tab, "workbook"):
    return _workbook_text(tab.workbook)
  sio = io.StringIO()
  tab.write(sio)
  return sio.getvalue()


# ---------------------------------------------------------------- python API models
def _api_pair_model():
  # all of these are regular at r = 0 (GULP / excel tabulate the r = 0 row)
  return [
    Potential("O", "U", potentialforms.morse(1.2, 2.3, 0.6)),
    Potential("O", "O", atsim.potentials.plus(potentialforms.morse(1.9, 2.1, 0.7), potentialforms.polynomial(0.5, -0.2, 0.01))),
    Potential("Xe", "B", potentialforms.exponential(2.5, 1.5)),
    Potential("Gd", "O", lambda r: 3.0 * math.exp(-r) + 0.1 * r * r),
  ]


def _api_pair_model_singular():
  # singular at r = 0: fine for LAMMPS / DL_POLY, an error for GULP / excel
  return [
    Potential("O", "U", potentialforms.buck(1761.775, 0.35642, 0.0)),
    Potential("O", "O", atsim.potentials.plus(potentialforms.buck(9547.96, 0.2192, 32.0), potentialforms.lj(0.01, 2.5))),
  ]


def _api_eam_model():
  def dens(a, b):
    return lambda r: a * math.exp(-b * r)

  def embed(a):
    return lambda rho: -a * math.sqrt(rho) + 0.01 * a * rho

  eam = [
    EAMPotential("Cu", 29, 63.55, embed(1.0), dens(1.1, 0.7), latticeConstant=3.61, latticeType="fcc"),
    EAMPotential("Al", 13, 26.98, embed(2.0), dens(0.9, 0.9), latticeConstant=4.05, latticeType="fcc"),
    EAMPotential("Fe", 26, 55.845, embed(3.0), dens(1.7, 1.3), latticeConstant=2.86, latticeType="bcc"),
  ]
  species = ["Cu", "Al", "Fe"]
  fs = []
  for n, (s, e) in enumerate(zip(species, eam)):
    dd = {}
    for m, o in enumerate(species):
      dd[o] = dens(1.0 + n + 0.1 * m, 0.5 + 0.2 * m + 0.05 * n)
    fs.append(EAMPotential(s, e.atomicNumber, e.mass, e.embeddingFunction, dd, latticeConstant=e.latticeConstant, latticeType=e.latticeType))
  pairs = [
    Potential("Al", "Cu", potentialforms.morse(1.1, 2.6, 0.3)),     # reversed w.r.t. header order
    Potential("Fe", "Fe", potentialforms.morse(1.5, 2.4, 0.4)),
    Potential("Cu", "Cu", lambda r: 800.0 * math.exp(-r / 0.31)),
    Potential("Fe", "Cu", potentialforms.polynomial(0.3, -0.1, 0.02, 0.001)),
    # Al-Al and Al-Fe deliberately not declared: zero filled
  ]
  dipoles = [Potential("Cu", "Al", lambda r: 0.3 * math.exp(-0.5 * r)),
             Potential("Fe", "Fe", lambda r: 0.01 * r)]
  quadrupoles = [Potential("Al", "Fe", lambda r: -0.2 * math.exp(-0.25 * r)),
                 Potential("Cu", "Cu", lambda r: 0.5 - 0.01 * r * r)]
  return eam, fs, pairs, dipoles, quadrupoles


def _to_text(f, *args, **kwargs):
  sio = io.StringIO()
  kwargs["out"] = sio
  f(*args, **kwargs)
  return sio.getvalue()


def _tab_text(tab):
  sio = io.StringIO()
  tab.write(sio)
  return sio.getvalue()


def existing_digest(verbose=True):
  d = _Digest(verbose)

  # --- 1. every example model shipped with the project, as written and re-targeted
  files = sorted(glob.glob(os.path.join(WT, "docs/user_guide/example_files/*.aspot"))
                 + glob.glob(os.path.join(WT, "tests/lammps_resources/*.aspot"))
                 + glob.glob(os.path.join(WT, "tests/config/config_resources/*.aspot")))
  pair_targets = ["LAMMPS", "DLPOLY", "DL_POLY", "GULP", "excel"]
  eam_targets = ["setfl", "lammps_eam_alloy", "DL_POLY_EAM", "excel_eam", "eam_adp"]
  fs_targets = ["setfl_fs", "DL_POLY_EAM_fs", "excel_eam_fs"]
  for fn in files:
    rel = os.path.relpath(fn, WT)
    with open(fn) as infile:
      text = infile.read()
    d.guarded("file:%s:asis" % rel, lambda: _tabulate_cfg(text))
    if "EAM-Density" in text and "->" in text:
      targets = fs_targets
    elif "EAM-Embed" in text:
      targets = eam_targets
    else:
      targets = pair_targets
    for t in targets:
      d.guarded("file:%s:%s" % (rel, t), lambda: _tabulate_cfg(text, t))

  # --- 2. filtering and overrides
  with open(os.path.join(WT, "tests/config/config_resources/spinel.aspot")) as infile:
    spinel = infile.read()
  for t in ["LAMMPS", "GULP"]:
    d.guarded("spinel:include:%s" % t, lambda: _tabulate_cfg(spinel, t, include=["O", "Mg"]))
    d.guarded("spinel:exclude:%s" % t, lambda: _tabulate_cfg(spinel, t, exclude=["Al"]))
  with open(os.path.join(WT, "tests/lammps_resources/AlFe_setfl_fs.aspot")) as infile:
    alfe = infile.read()
  for t in fs_targets:
    d.guarded("alfe:include:%s" % t, lambda: _tabulate_cfg(alfe, t, include=["Al"]))
    d.guarded("alfe:exclude:%s" % t, lambda: _tabulate_cfg(alfe, t, exclude=["Al"]))

  # --- 3. error paths of the configuration layer
  bad = [
    ("unknown-target", u"[Tabulation]\ntarget : nonsense\n[Pair]\nA-B : as.buck 1 2 3\n"),
    ("case-target", u"[Tabulation]\ntarget : Excel\n[Pair]\nA-B : as.buck 1 2 3\n"),
    ("upper-csv-target", u"[Tabulation]\ntarget : CSV_TABLE\n[Pair]\nA-B : as.buck 1 2 3\n"),
    ("dlpoly-nr", u"[Tabulation]\ntarget : DL_POLY\nnr : 1001\n[Pair]\nA-B : as.buck 1 2 3\n"),
    ("lammps-nr", u"[Tabulation]\ntarget : LAMMPS\nnr : 2\n[Pair]\nA-B : as.buck 1 2 3\n"),
    ("gulp-nr1", u"[Tabulation]\ntarget : GULP\nnr : 1\n[Pair]\nA-B : as.buck 1 2 3\n"),
    ("three", u"[Tabulation]\ntarget : GULP\nnr : 10\ndr : 0.1\ncutoff : 0.9\n[Pair]\nA-B : as.buck 1 2 3\n"),
    ("dup-pair", u"[Tabulation]\ntarget : GULP\n[Pair]\nA-B : as.buck 1 2 3\nB-A : as.buck 1 2 3\n"),
    ("adp-missing", u"[Tabulation]\ntarget : eam_adp\n[EAM-Embed]\nAl : as.zero\n[EAM-Density]\nAl : as.zero\n[Pair]\nAl-Al : as.zero\n"),
    ("eam-unknown-form", u"[Tabulation]\ntarget : setfl\n[EAM-Embed]\nAl : as.nothing 1\n[EAM-Density]\nAl : as.zero\n"),
  ]
  for label, text in bad:
    d.guarded("bad:" + label, lambda: _tabulate_cfg(text))

  # --- 4. python API, pair
  pots = _api_pair_model()
  for cutoff, nr in [(10.0, 12), (6.5, 101), (3.3, 8)]:
    for otype in ["LAMMPS", "DL_POLY", "GULP", "DLPOLY", "csv", "CSV", "excel"]:
      d.guarded("writePotentials:%s:%s:%d" % (otype, cutoff, nr), lambda: _to_text(writePotentials, otype, pots, cutoff, nr))
    for cls in [pair_tabulation.LAMMPS_PairTabulation, pair_tabulation.DLPoly_PairTabulation, pair_tabulation.GULP_PairTabulation]:
      d.guarded("pairtab:%s:%s:%d" % (cls.__name__, cutoff, nr), lambda: _tab_text(cls(pots, cutoff, nr)))
    d.guarded("pairtab:excel:%s:%d" % (cutoff, nr), lambda: _workbook_text(pair_tabulation.Excel_PairTabulation(pots, cutoff, nr).workbook))

  spots = _api_pair_model_singular()
  for otype in ["LAMMPS", "DL_POLY", "GULP"]:
    d.guarded("writePotentials:singular:%s" % otype, lambda: _to_text(writePotentials, otype, spots, 8.0, 16))

  # --- 5. python API, EAM (every writer, several element orders and subsets)
  eam, fs, pairs, dipoles, quadrupoles = _api_eam_model()
  orders = [[0, 1, 2], [2, 0, 1], [1, 2], [0]]
  grids = [(7, 0.5, 6, 0.4), (21, 0.05, 33, 0.125)]
  for order in orders:
    e = [eam[i] for i in order]
    f = []
    for i in order:
      p = fs[i]
      f.append(EAMPotential(p.species, p.atomicNumber, p.mass, p.embeddingFunction,
                            dict((eam[j].species, p.electronDensityFunction[eam[j].species]) for j in order),
                            latticeConstant=p.latticeConstant, latticeType=p.latticeType))
    otag = "".join(str(i) for i in order)
    for nrho, drho, nr, dr in grids:
      gtag = "%d-%s-%d-%s" % (nrho, drho, nr, dr)
      d.guarded("writeSetFL:%s:%s" % (otag, gtag), lambda: _to_text(writeSetFL, nrho, drho, nr, dr, e, pairs))
      d.guarded("writeSetFL:comments:%s:%s" % (otag, gtag), lambda: _to_text(writeSetFL, nrho, drho, nr, dr, e, pairs, comments=["a", "b"], cutoff=2.5))
      d.guarded("writeSetFLFS:%s:%s" % (otag, gtag), lambda: _to_text(writeSetFLFinnisSinclair, nrho, drho, nr, dr, f, pairs))
      d.guarded("writeSetFLFS:comments:%s:%s" % (otag, gtag), lambda: _to_text(writeSetFLFinnisSinclair, nrho, drho, nr, dr, f, pairs, comments=["x"], cutoff=1.5))
      d.guarded("writeTABEAM:%s:%s" % (otag, gtag), lambda: _to_text(writeTABEAM, nrho, drho, nr, dr, e, pairs))
      d.guarded("writeTABEAMFS:%s:%s" % (otag, gtag), lambda: _to_text(writeTABEAMFinnisSinclair, nrho, drho, nr, dr, f, pairs))
      d.guarded("writeFuncFL:%s:%s" % (otag, gtag), lambda: _to_text(writeFuncFL, nrho, drho, nr, dr, [e[0]], [Potential("X", "X", lambda r: 800.0 * math.exp(-r / 0.31))], title="t"))
      cutoff = dr * (nr - 1)
      cutoff_rho = drho * (nrho - 1)
      for cls, ee in [(eam_tabulation.SetFL_EAMTabulation, e), (eam_tabulation.SetFL_FS_EAMTabulation, f),
                      (eam_tabulation.TABEAM_EAMTabulation, e), (eam_tabulation.TABEAM_FinnisSinclair_EAMTabulation, f)]:
        d.guarded("eamtab:%s:%s:%s" % (cls.__name__, otag, gtag), lambda: _tab_text(cls(pairs, ee, cutoff, nr, cutoff_rho, nrho)))
      d.guarded("eamtab:ADP:%s:%s" % (otag, gtag), lambda: _tab_text(eam_tabulation.ADP_EAMTabulation(pairs, e, dipoles, quadrupoles, cutoff, nr, cutoff_rho, nrho)))
      d.guarded("eamtab:ADP-empty:%s:%s" % (otag, gtag), lambda: _tab_text(eam_tabulation.ADP_EAMTabulation(pairs, e, [], [], cutoff, nr, cutoff_rho, nrho)))
      d.guarded("eamtab:excel:%s:%s" % (otag, gtag), lambda: _workbook_text(eam_tabulation.Excel_EAMTabulation(pairs, e, cutoff, nr, cutoff_rho, nrho).workbook))
      d.guarded("eamtab:excel_fs:%s:%s" % (otag, gtag), lambda: _workbook_text(eam_tabulation.Excel_FinnisSinclair_EAMTabulation(pairs, f, cutoff, nr, cutoff_rho, nrho).workbook))

  # --- 6. failed evaluation: what is left in the file object (C17)
  class _Boom(Exception):
    pass

  def bad_after(n):
    state = {"n": 0}
    def f(r):
      state["n"] += 1
      if state["n"] > n:
        raise _Boom("boom")
      return 1.0
    return f

  for cls in [pair_tabulation.LAMMPS_PairTabulation, pair_tabulation.DLPoly_PairTabulation, pair_tabulation.GULP_PairTabulation]:
    def run():
      sio = io.StringIO()
      try:
        cls([Potential("A", "B", lambda r: 1.0), Potential("A", "A", bad_after(5))], 4.0, 12).write(sio)
      except _Boom:
        return "boom;left=%r" % sio.getvalue()
      return "no failure"
    d.guarded("fail:%s" % cls.__name__, run)

  def run_adp():
    sio = io.StringIO()
    try:
      eam_tabulation.ADP_EAMTabulation(pairs, eam, dipoles, [Potential("Cu", "Cu", bad_after(3))], 2.0, 6, 3.0, 7).write(sio)
    except _Boom:
      return "boom;left=%r" % sio.getvalue()
    return "no failure"
  d.guarded("fail:ADP", run_adp)

  # --- 7. potable command line end to end (fresh processes)
  tmpdir = tempfile.mkdtemp()
  cli = [sys.executable, "-W", "ignore", "/tmp/wtpy.py", WT, "-c", "from atsim.potentials.tools.potable import main; main()"]
  def potable(args, outname=None, opts=()):
    a = list(cli) + list(args)
    if outname:
      outpath = os.path.join(tmpdir, outname)
      if os.path.exists(outpath):
        os.remove(outpath)
      a.append(outpath)
    a.extend(opts)   # options that take several values go after the positional arguments
    p = subprocess.run(a, stdout=subprocess.PIPE, stderr=subprocess.PIPE, cwd=WT, universal_newlines=True)
    res = "rc=%d\nstdout=%s\n" % (p.returncode, p.stdout)
    if p.returncode != 0:
      res += "stderr-tail=%s\n" % p.stderr.strip().split("\n")[-1].replace(tmpdir, "TMP")
    if outname and os.path.exists(outpath):
      with open(outpath, "rb") as infile:
        res += "file=" + _sha(infile.read())
    return res
  basak = "docs/user_guide/example_files/basak_custom_potential_form_a.aspot"
  d.add("cli:basak", potable([basak], "b1"))
  d.add("cli:basak:gulp", potable([basak], "b2", ["--override-item", "Tabulation:target=GULP"]))
  d.add("cli:basak:bad", potable([basak], "b3", ["--override-item", "Tabulation:target=nope"]))
  d.add("cli:basak:list", potable(["--list-items", basak]))
  d.add("cli:std-eam", potable(["docs/user_guide/example_files/standard_eam.aspot"], "e1"))
  d.add("cli:fs-eam", potable(["docs/user_guide/example_files/finnis_sinclair_eam.aspot"], "e2"))
  d.add("cli:adp", potable(["tests/lammps_resources/Al_Cu_adp.aspot"], "e3", ["--override-item", "Tabulation:nr=50", "Tabulation:nrho=40"]))

  total = d.total()
  print("EXISTING-DIGEST %s (%d items)" % (total, len(d.lines)))
  return total


CHECKS = []
def check(cond, what):
  CHECKS.append((bool(cond), what))
  print("  [%s] %s" % ("ok" if cond else "FAIL", what))


def finish_new():
  bad = [w for ok, w in CHECKS if not ok]
  if bad:
    print("NEW-FEATURE FAILED (%d of %d checks)" % (len(bad), len(CHECKS)))
    sys.exit(1)
  print("NEW-FEATURE OK (%d checks)" % len(CHECKS))


# ======================================================================== part (b): edit A
def new_feature():
  import csv
  from atsim.potentials.pair_tabulation import CSV_PairTabulation, GULP_PairTabulation, Excel_PairTabulation, _r_value_iterator
  from atsim.potentials.config._tabulation_factories import TABULATION_FACTORIES

  def parse(text):
    rows = list(csv.reader(io.StringIO(text)))
    return rows[0], rows[1:]

  print("A1. registration and python API output versus the model (C19, C01-style faithfulness)")
  check("csv" in TABULATION_FACTORIES and TABULATION_FACTORIES["csv"].tabulation_class is CSV_PairTabulation, "csv registered in TABULATION_FACTORIES")
  pots = _api_pair_model()
  for cutoff, nr in [(10.0, 12), (6.5, 101), (3.3, 8), (0.7, 2), (7.3, 1001)]:
    tab = CSV_PairTabulation(pots, cutoff, nr)
    check(tab.target == "csv" and tab.type == "Pair", "target/type for %s %d" % (cutoff, nr))
    text = _tab_text(tab)
    head, rows = parse(text)
    check(head == ["r", "B-Xe", "Gd-O", "O-O", "O-U"], "header sorted by label (%s, %d)" % (cutoff, nr))
    check(len(rows) == nr and text.endswith("\n") and text.count("\n") == nr + 1, "exactly nr rows + header")
    expect_r = list(_r_value_iterator(tab))
    check([float(r[0]) for r in rows] == expect_r and expect_r == [float(i) * cutoff / (float(nr) - 1) for i in range(nr)], "r column is exactly i*cutoff/(nr-1)")
    bylabel = {"B-Xe": pots[2], "Gd-O": pots[3], "O-O": pots[1], "O-U": pots[0]}
    ok = True
    for row, r in zip(rows, expect_r):
      for label, cell in zip(head[1:], row[1:]):
        ok = ok and float(cell) == bylabel[label].energy(r)
    check(ok, "every cell equals Potential.energy(r) exactly (17 significant digits round trip)")
    # same grid and same numbers as the GULP and excel targets
    gulp = [l.split() for l in _tab_text(GULP_PairTabulation([pots[0]], cutoff, nr)).split("\n")[2:] if l]
    col = head.index("O-U")
    check(all(abs(float(g[0]) - float(row[col])) < 1e-9 and abs(float(g[1]) - float(row[0])) < 1e-9 for g, row in zip(gulp, rows)) and len(gulp) == nr, "agrees with GULP target rows")
    xl = list(Excel_PairTabulation(pots, cutoff, nr).workbook["Pair"].iter_rows(values_only=True))
    check(list(xl[0]) == head and all([float(c) for c in row] == list(x) for row, x in zip(rows, xl[1:])), "agrees with excel target cells and column order")

  print("A2. through potable files: grid from any two of nr/dr/cutoff, defaults (C11), modifiers/custom forms (C09)")
  body = u"""
[Pair]
Si-O : sum(as.morse 1.2 2.3 0.6, as.polynomial 0.1 0.2)
O-O : as.exponential 2.0 1.5
Al-O : >=0 mine 3.0 2.0 >2.0 as.constant 1.5
[Potential-Form]
mine(r, a, b) = a*exp(-r/b) + as.polynomial(r, 0.5, 0.25)
"""
  for tabsec, cutoff, nr in [(u"cutoff : 5.0\nnr : 11\n", 5.0, 11), (u"dr : 0.1\nnr : 8\n", 0.1 * 7, 8),
                             (u"cutoff : 0.7\ndr : 0.1\n", 0.7, 8), (u"", 10.0, 1001), (u"nr : 2\n", 10.0, 2)]:
    text = _tabulate_cfg(u"[Tabulation]\ntarget : csv\n" + tabsec + body)
    head, rows = parse(text)
    check(head == ["r", "Al-O", "O-O", "O-Si"], "potable header sorted %r" % tabsec)
    check(len(rows) == nr and [float(r[0]) for r in rows] == [float(i) * cutoff / (float(nr) - 1) for i in range(nr)], "potable grid for %r" % tabsec)
    def alo(r):
      if r > 2.0:
        return 1.5
      return 3.0 * math.exp(-r / 2.0) + 0.5 + 0.25 * r
    def sio(r):
      if r == 0.0:
        return 0.0   # a potable potential without a leading range marker acts for r > 0 only (C08)
      return 0.6 * (math.exp(-2.0 * 1.2 * (r - 2.3)) - 2.0 * math.exp(-1.2 * (r - 2.3))) + 0.1 + 0.2 * r   # as.morse gamma r_star D
    ok = all(abs(float(row[1]) - alo(float(row[0]))) < 1e-12 and abs(float(row[2]) - 2.0 * float(row[0]) ** 1.5) < 1e-9
             and abs(float(row[3]) - sio(float(row[0]))) < 1e-9 for row in rows)
    check(ok, "potable values equal the documented formulas %r" % tabsec)

  print("A3. overrides / filtering / variables equal the hand edited file (C13, C14, C15)")
  base = u"[Tabulation]\ntarget : GULP\ncutoff : 5.0\nnr : 11\n" + body
  hand = u"[Tabulation]\ntarget : csv\ncutoff : 5.0\nnr : 11\n" + body
  check(_tabulate_cfg(base, "csv") == _tabulate_cfg(hand), "--override-item Tabulation:target=csv == edited file")
  hand_f = hand.replace(u"Si-O : sum(as.morse 1.2 2.3 0.6, as.polynomial 0.1 0.2)\n", u"")
  check(_tabulate_cfg(hand, include=["O", "Al"]) == _tabulate_cfg(hand_f), "include-species == deleting entries")
  check(_tabulate_cfg(hand, exclude=["Si"]) == _tabulate_cfg(hand_f), "exclude-species == deleting entries")
  templ = hand.replace(u"cutoff : 5.0", u"cutoff : ${rc}").replace(u"as.exponential 2.0 1.5", u"as.exponential ${Variables:A} 1.5") + u"[Variables]\nrc = 5.0\nA = 2.0\n"
  check(_tabulate_cfg(templ) == _tabulate_cfg(hand), "[Variables] substitution == textual substitution")

  print("A4. malformed input with target csv gives configuration errors, valid input is accepted (C16, C20)")
  malformed = [
    ("nr=1", hand.replace(u"nr : 11", u"nr : 1")),
    ("nr=0", hand.replace(u"nr : 11", u"nr : 0")),
    ("cutoff<0", hand.replace(u"cutoff : 5.0", u"cutoff : -1")),
    ("three of nr/dr/cutoff", hand.replace(u"nr : 11", u"nr : 11\ndr : 0.5")),
    ("unknown form", hand.replace(u"as.exponential", u"as.nonesuch")),
    ("wrong arg count", hand.replace(u"as.exponential 2.0 1.5", u"as.exponential 2.0")),
    ("duplicate reversed pair", hand.replace(u"[Potential-Form]", u"O-Al : as.zero\n[Potential-Form]")),
    ("wrong case target", hand.replace(u"target : csv", u"target : CSV")),
    ("non numeric", hand.replace(u"nr : 11", u"nr : eleven")),
  ]
  for label, text in malformed:
    try:
      _tabulate_cfg(text)
      check(False, "malformed (%s) refused" % label)
    except ConfigurationException:
      check(True, "malformed (%s) -> ConfigurationException" % label)
    except Exception as e:
      check(False, "malformed (%s) -> %s" % (label, type(e).__name__))

  print("A5. all-or-nothing write for every position of the failing evaluation (C17)")
  class _Boom(Exception):
    pass
  nr = 6
  npots = 3
  for k in range(nr * npots):
    state = {"n": 0}
    def f(r):
      state["n"] += 1
      if state["n"] > k:
        raise _Boom()
      return 1.0
    sio = io.StringIO()
    try:
      CSV_PairTabulation([Potential("A", "B", f), Potential("A", "A", f), Potential("C", "A", f)], 3.0, nr).write(sio)
      raised = False
    except _Boom:
      raised = True
    if not (raised and sio.getvalue() == ""):
      check(False, "failure at evaluation %d leaves nothing" % k)
      break
  else:
    check(True, "failure at any of the %d evaluations raises and leaves fp untouched" % (nr * npots))
  tmpdir = tempfile.mkdtemp()
  cfgname = os.path.join(tmpdir, "bad.aspot")
  with open(cfgname, "w") as outfile:
    outfile.write(u"[Tabulation]\ntarget : csv\ncutoff : 5.0\nnr : 11\n[Pair]\nA-B : as.polynomial 1 2\nA-A : domain\n[Potential-Form]\ndomain(r) = pymath.sqrt(2.2 - r)\n")  # A-A leaves its domain at the 6th of 11 rows
  outname = os.path.join(tmpdir, "bad.csv")
  cli = [sys.executable, "-W", "ignore", "/tmp/wtpy.py", WT, "-c", "from atsim.potentials.tools.potable import main; main()"]
  p = subprocess.run(cli + [cfgname, outname], stdout=subprocess.PIPE, stderr=subprocess.PIPE, cwd=WT)
  check(p.returncode != 0 and (not os.path.exists(outname) or os.path.getsize(outname) == 0), "potable: failed csv tabulation exits non-zero and leaves an empty file")
  p = subprocess.run(cli + [cfgname, outname, "--override-item", "Tabulation:target=CSV"], stdout=subprocess.PIPE, stderr=subprocess.PIPE, cwd=WT, universal_newlines=True)
  check(p.returncode == 2 and "configuration error - " in p.stderr, "potable: unknown target spelling printed as 'configuration error - ...'")

  print("A6. determinism, no hidden state, hash-seed independence, awkward labels (C12)")
  tab = CSV_PairTabulation(pots, 6.5, 101)
  first = _tab_text(tab)
  [p.energy(1.234) for p in reversed(pots)]
  CSV_PairTabulation(list(reversed(pots)), 3.0, 7).write(io.StringIO())
  check(first == _tab_text(tab) == _tab_text(CSV_PairTabulation(pots, 6.5, 101)), "repeated writes / rebuilt tabulations are byte identical")
  check(first == _tab_text(CSV_PairTabulation(list(reversed(pots)), 6.5, 101)), "column order does not depend on the order of the potential list")
  head, rows = parse(_tab_text(CSV_PairTabulation([Potential("b,x", "A", lambda r: 1.0), Potential("A", "b,x", lambda r: 2.0), Potential('q"', "A", lambda r: 3.0)], 1.0, 2)))
  check(head == ["r", "A-b,x", "A-b,x", 'A-q"'] and rows[0][1:] == ["%.16e" % 1.0, "%.16e" % 2.0, "%.16e" % 3.0], "labels needing quotes survive a csv round trip; equal labels keep list order, none dropped")
  code = ("import io,hashlib;from atsim.potentials.config import Configuration;"
          "t=Configuration().read(io.StringIO(%r));s=io.StringIO();t.write(s);print(hashlib.sha256(s.getvalue().encode()).hexdigest())" % hand)
  digests = set()
  for seed in ["0", "1", "42", "1234", "random"]:
    env = dict(os.environ)
    env["PYTHONHASHSEED"] = seed
    p = subprocess.run([sys.executable, "-W", "ignore", "/tmp/wtpy.py", WT, "-c", code], stdout=subprocess.PIPE, stderr=subprocess.PIPE, env=env, cwd=WT, universal_newlines=True)
    digests.add(p.stdout.strip())
  print("  csv digests over 5 hash seeds: %s" % sorted(digests))
  check(len(digests) == 1 and hashlib.sha256(_tabulate_cfg(hand).encode()).hexdigest() in digests, "same bytes in fresh processes with different PYTHONHASHSEED")
  print("  NEW-OUTPUT-DIGEST %s" % hashlib.sha256((first + _tabulate_cfg(hand)).encode()).hexdigest())
  finish_new()


if __name__ == "__main__":
  mode = sys.argv[1] if len(sys.argv) > 1 else "both"
  if mode in ("existing", "both"):
    existing_digest(verbose="-v" in sys.argv)
  if mode in ("new", "both"):
    new_feature()

"""Differential script for twin A: key normalisation, _ConfigParserDict and the
_RawConfigParser options()/has_option()/get() overrides.

Run:  /venv/bin/python -W ignore /tmp/wtpy.py /tmp/twin_36 _twins/diffA.py [-v]
"""
import configparser
import io
import os
import sys

sys.path.insert(0, os.path.dirname(os.path.abspath(__file__)))
from _harness import rec, log, finish, potable, aspot_text, ASPOT_FILES, deep_repr, describe_exception

from atsim.potentials.config import ConfigParser, ConfigParserOverrideTuple
from atsim.potentials.config import _config_parser as cpmod
from atsim.potentials.config._config_parser import _RawConfigParser, _ConfigParserDict

OT = ConfigParserOverrideTuple

KEYS = ["f(x, y)", "f(x,y)", " f( x ,\ty ) ", "\tA - B\t", "A-B", "a-b", "", "   ", "\t", "x\ty z", "Al.charge", "Al . charge",
        "x\ny", "  k ", "${A}", "nr", "NR"]

def safe(fn):
  try:
    return fn()
  except Exception as e:
    return describe_exception(e)

# ---- 1. the dict class on its own
def dict_ops():
  out = []
  d = _ConfigParserDict()
  for i, k in enumerate(KEYS):
    d[k] = i
    out.append(("set", k, list(d.items())))
  for k in KEYS + ["missing", "mis sing"]:
    for name, op in [
        ("getitem", lambda k=k: d[k]),
        ("contains", lambda k=k: k in d),
        ("get", lambda k=k: d.get(k, "DEFAULT")),
        ]:
      try:
        out.append((name, k, op()))
      except Exception as e:
        out.append((name, k, type(e).__name__, str(e)))
  out.append(("keys", list(d.keys()), list(d.values()), len(d), repr(d)))
  e = _ConfigParserDict([(" p q ", 1), ("pq", 2), ("r\ts", 3)])
  out.append(("ctor", list(e.items())))
  e.update({" r s": 4, "t u": 5})
  out.append(("update", list(e.items())))
  out.append(("setdefault", e.setdefault(" p\tq", 99), e.setdefault("v w", 98), list(e.items())))
  for k in ["p q", " t u ", "nothere", "v w"]:
    try:
      del e[k]
      out.append(("del", k, list(e.items())))
    except Exception as ex:
      out.append(("del", k, type(ex).__name__, str(ex)))
  for k in ["r s", "rs", "zz"]:
    try:
      out.append(("pop", k, e.pop(k, "POPDEFAULT"), list(e.items())))
    except Exception as ex:
      out.append(("pop", k, type(ex).__name__, str(ex)))
  c = e.copy()
  out.append(("copy", type(c).__name__, list(c.items()), c == e))
  out.append(("mro", [k.__name__ for k in _ConfigParserDict.__mro__]))
  return out

rec("dict_ops", dict_ops)

# ---- 2. optionxform
p0 = _RawConfigParser()
for k in KEYS:
  rec("optionxform {!r}".format(k), p0.optionxform, k)
rec("optionxform None", p0.optionxform, None)
rec("optionxform int", p0.optionxform, 3)
rec("parser attrs", lambda: (p0.default_section, type(p0._dict).__name__, type(p0._sections).__name__,
                             type(p0._defaults).__name__, type(p0._interpolation).__name__, p0._strict,
                             [k.__name__ for k in type(p0).__mro__]))

# ---- 3. raw parser on inline texts
TEXTS = {
"basic" : u"""[Variables]
A = 1
B  B = 2
c\td = ${A}${B B}

[Species]
Al.charge = 1.2
Al . atomic_mass = ${A}

[Pair]
Al - Cu = ${A} + ${BB} + ${cd}
A-B = ${Species:Al.charge}
O\t-\tO : as.buck 1.0 ${Variables:A} 3.0

[Potential-Form]
f(x, y) = x+y
g( r,\tA ) : A*r

[Empty]
""",
"novars" : u"""[Pair]
A-B = as.zero
[Other Section]
key one = 1
KeyOne = 2
""",
"dup_option_ws" : u"""[Pair]
A-B = as.zero
A - B = as.zero
""",
"dup_option_tab" : u"""[Potential-Form]
f(x,y) = x
f(x,\ty) = y
""",
"dup_section" : u"""[Pair]
A-B = as.zero
[Pair]
C-D = as.zero
""",
"dup_variables" : u"""[Variables]
A = 1
[Variables]
B = 1
""",
"bad_interp" : u"""[Variables]
A = 1
[Pair]
A-B = ${NOPE}
C-D = ${Missing:NOPE}
E-F = ${A
G-H = ${a}
I-J = $A
""",
"vars_shadow" : u"""[Variables]
nr = 5
A-B = shadow
[Tabulation]
target = LAMMPS
cutoff = 10.0
[Pair]
C-D = as.constant ${nr}
""",
"no_header" : u"""A-B = 1
[Pair]
""",
"recursive" : u"""[Variables]
A = ${B}
B = ${A}
[Pair]
X-Y = ${A}
""",
}

def dump_parser(cp):
  out = []
  out.append(("sections", cp.sections(), list(cp.keys()), cp.defaults().__class__.__name__, list(cp.defaults().items())))
  for s in list(cp.sections()) + [cp.default_section, "Nope", "", None]:
    item = [s]
    for name, op in [
        ("has_section", lambda: cp.has_section(s)),
        ("options", lambda: cp.options(s)),
        ("iter", lambda: list(cp[s])),
        ("len", lambda: len(cp[s])),
        ("rawitems", lambda: cp.items(s, raw = True)),
        ]:
      try:
        item.append((name, op()))
      except Exception as e:
        item.append((name, type(e).__name__, str(e), type(e.__context__).__name__, e.__suppress_context__))
    out.append(item)
    try:
      opts = cp.options(s)
    except Exception:
      opts = []
    probe = list(opts) + ["A", "a", "B B", "BB", " c d", "nr", "missing", "A - B", "A-B", "f(x, y)", "f( x,y)", "key one", "keyone"]
    for o in probe:
      item = [s, o]
      for name, op in [
          ("has_option", lambda: cp.has_option(s, o)),
          ("get", lambda: cp.get(s, o)),
          ("get_raw", lambda: cp.get(s, o, raw = True)),
          ("get_fb", lambda: cp.get(s, o, fallback = "FB")),
          ("get_fb_none", lambda: cp.get(s, o, fallback = None)),
          ("get_vars", lambda: cp.get(s, o, vars = {"missing" : "fromvars", "A" : "varsA"})),
          ("proxy_get", lambda: cp[s].get(o, "PFB")),
          ("proxy_item", lambda: cp[s][o]),
          ("proxy_in", lambda: o in cp[s]),
          ("getint", lambda: cp.getint(s, o)),
          ("getfloat_fb", lambda: cp.getfloat(s, o, fallback = -1.0)),
          ]:
        try:
          item.append((name, op()))
        except Exception as e:
          item.append((name, type(e).__name__, str(e), type(e.__context__).__name__, e.__suppress_context__))
      out.append(item)
  return out

def read(text):
  cp = _RawConfigParser()
  cp.read_file(io.StringIO(text))
  return cp

for name, text in sorted(TEXTS.items()):
  def run(text = text):
    return dump_parser(read(text))
  rec("raw {}".format(name), run)

for f in ASPOT_FILES:
  def run(f = f):
    return dump_parser(read(aspot_text(f)))
  rec("raw file {}".format(f), run)

# ---- 4. mutation through the raw parser: set/remove_option/add_section/remove_section/write
def mutate():
  out = []
  cp = read(TEXTS["basic"])
  steps = [
    ("set Pair 'Al-Cu'", lambda: cp.set("Pair", "Al-Cu", "changed")),
    ("set Pair ' N - M '", lambda: cp.set("Pair", " N - M ", "new")),
    ("setitem Variables", lambda: cp["Variables"].__setitem__(" B\tB ", "22")),
    ("set '' key", lambda: cp.set("", "via empty", "vv")),
    ("set Nope", lambda: cp.set("Nope", "k", "v")),
    ("remove_option Pair 'A - B'", lambda: cp.remove_option("Pair", "A - B")),
    ("remove_option Pair again", lambda: cp.remove_option("Pair", "A-B")),
    ("remove_option Nope", lambda: cp.remove_option("Nope", "A-B")),
    ("remove_option Variables", lambda: cp.remove_option("Variables", "c d")),
    ("del proxy", lambda: cp["Species"].__delitem__("Al.atomic_mass")),
    ("del proxy missing", lambda: cp["Species"].__delitem__("Al.atomic_mass")),
    ("add_section New", lambda: cp.add_section("New")),
    ("add_section New again", lambda: cp.add_section("New")),
    ("add_section Variables", lambda: cp.add_section("Variables")),
    ("New k", lambda: cp["New"].__setitem__("k 1", "${A}")),
    ("remove_section Empty", lambda: cp.remove_section("Empty")),
    ("remove_section Empty again", lambda: cp.remove_section("Empty")),
    ("read_dict", lambda: cp.read_dict({"From Dict" : {"k k" : "1", "l\tl" : "2"}})),
    ("read_dict dup", lambda: cp.read_dict({"From Dict 2" : {"k k" : "1", "kk" : "2"}})),
  ]
  for label, op in steps:
    try:
      out.append((label, op()))
    except Exception as e:
      out.append((label, type(e).__name__, str(e), type(e.__context__).__name__, e.__suppress_context__))
    sio = io.StringIO()
    cp.write(sio)
    out.append(("state", sio.getvalue(), [(s, cp.options(s)) for s in cp.sections()], cp.options("Variables")))
  return out

rec("mutate", mutate)

# ---- 5. through the public ConfigParser + potable listing (which walks raw_config_parser)
for name, text in sorted(TEXTS.items()):
  def run(text = text):
    cp = ConfigParser(io.StringIO(text))
    return [cp.parsed_sections, cp.orphan_sections, safe(lambda: cp.species), safe(lambda: cp.pair), safe(lambda: cp.potential_form),
            [(s, safe(lambda: list(cp.raw_config_parser[s].items()))) for s in cp.raw_config_parser.sections()]]
  rec("ConfigParser {}".format(name), run)
  potable("potable -l {}".format(name), text, ["--list-items"])
  potable("potable labels {}".format(name), text, ["--list-item-labels"])
  for item in ["Pair:A - B", "Pair:A-B", "Variables:B B", "Variables:BB", "Pair:nr", "Potential-Form:f(x,  y)", "Nope:x", "Pair", ":A"]:
    potable("potable --item-value {} {}".format(item, name), text, ["--item-value", item])

for f in ASPOT_FILES:
  potable("potable -l {}".format(f), aspot_text(f), ["--list-items"])

# overrides / additions using differently spelled keys
for label, kwargs in [
    ("ov ws key", dict(overrides = [OT("Pair", " Al\t-  Cu", "as.zero")])),
    ("ov var", dict(overrides = [OT("Variables", "B B", "7")])),
    ("ov var as section key", dict(overrides = [OT("Pair", "A", "7")])),
    ("rm ws key", dict(overrides = [OT("Pair", "A - B", None)])),
    ("add existing ws", dict(additional = [OT("Pair", "Al -Cu", "as.zero")])),
    ("add new ws", dict(additional = [OT("Pair", " Q - R ", "as.zero"), OT("Variables", "N N", "1"), OT("Brand New", "k k", "${NN}")])),
    ("add var named like pair", dict(additional = [OT("Variables", "Al-Cu", "1")])),
    ("add empty section", dict(additional = [OT("", "k", "1")])),
    ]:
  def run(kwargs = kwargs):
    cp = ConfigParser(io.StringIO(TEXTS["basic"]), **kwargs)
    raw = cp.raw_config_parser
    return [[(s, list(raw[s].items())) for s in raw.sections()], list(raw.defaults().items()),
            safe(lambda: cp.pair), safe(lambda: cp.potential_form), safe(lambda: cp.species), safe(lambda: cp.parsed_sections)]
  rec("ConfigParser basic {}".format(label), run)

finish()

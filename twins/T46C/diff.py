"""Differential script for twin C.

Exercises the wiring done by Configuration (.read / .read_from_parser) and by the
tabulation factories (default target / cutoffs, unknown targets, per-target
checks, registries, pair + EAM + Finnis-Sinclair + ADP tabulations, filtered
parsers) and the `potable` command line which sits on top of it.  Prints a
sha256 digest of written tables, results, exception details and *all* log
records (logger name, level, message, in order).
"""
import hashlib
import io
import logging
import os
import re
import shutil
import subprocess
import sys
import tempfile
import zipfile

import atsim
from atsim.potentials.config import Configuration, ConfigParser, FilteredConfigParser
from atsim.potentials.config._config_parser import ConfigParserOverrideTuple
from atsim.potentials.config._tabulation_factories import TABULATION_FACTORIES
from atsim.potentials.config._potential_form_registry import Potential_Form_Registry
from atsim.potentials.config._modifier_registry import Modifier_Registry

WORKTREE = os.path.dirname(os.path.abspath(list(atsim.__path__)[0]))
OUT = []


def emit(*args):
  OUT.append(re.sub(r"0x[0-9a-fA-F]+", "0xADDR", " | ".join(repr(a) for a in args)))


class _ListHandler(logging.Handler):
  def __init__(self):
    logging.Handler.__init__(self, logging.DEBUG)
    self.records = []

  def emit(self, record):
    self.records.append((record.name, record.levelname, record.getMessage()))


def exc_chain(e):
  chain = []
  while e is not None and len(chain) < 6:
    chain.append((type(e).__module__, type(e).__name__, str(e), repr(e.args)))
    e = e.__context__
  return chain


def attempt(label, func):
  handler = _ListHandler()
  root = logging.getLogger()
  root.addHandler(handler)
  oldlevel = root.level
  root.setLevel(logging.DEBUG)
  try:
    try:
      emit(label, "OK", func())
    except Exception as e:
      emit(label, "EXC", exc_chain(e))
  finally:
    root.removeHandler(handler)
    root.setLevel(oldlevel)
  for rec in handler.records:
    emit(label, "LOG", rec)


def describe(tabulation):
  out = io.StringIO()
  try:
    tabulation.write(out)
    written = out.getvalue().encode("utf8")
  except TypeError:
    outb = io.BytesIO()
    tabulation.write(outb)
    written = outb.getvalue()
  if written[:2] == b"PK":
    # .xlsx output: the zip container holds time-stamps (zip headers, docProps/core.xml); digest the sheets themselves
    with zipfile.ZipFile(io.BytesIO(written)) as z:
      members = [(n, hashlib.sha256(z.read(n)).hexdigest()) for n in z.namelist() if n != "docProps/core.xml"]
    written = repr(members).encode("utf8")
  info = [type(tabulation).__name__, len(written), hashlib.sha256(written).hexdigest()]
  for attr in ("cutoff", "nr", "cutoff_rho", "nrho", "target"):
    if hasattr(tabulation, attr):
      info.append((attr, repr(getattr(tabulation, attr))))
  info.append([(p.speciesA, p.speciesB) for p in tabulation.potentials])
  if hasattr(tabulation, "eam_potentials"):
    eam = []
    for p in tabulation.eam_potentials:
      dens = p.electronDensityFunction
      eam.append((p.species, p.mass, p.atomicNumber, p.latticeConstant, p.latticeType,
                  sorted(dens.keys()) if hasattr(dens, "keys") else "callable"))
    info.append(eam)
  return info


# ---------------------------------------------------------------------------- inputs
POTFORMS = u"""[Potential-Form]
density(r, n) = (n/r^8) * 0.5 * (1+erf(20*(r-1.5)))
soft(r, A, rc) = if(r>rc, 0, A * (1+cos((pi*r)/rc)))
"""

PAIRS = {
  "UO": u"[Pair]\nO-O : as.buck 830.283 0.352856 3.884372\nU-U : as.buck 18600 0.2747 0.0\nU-O : as.buck 448.779 0.387758 0.0 >=4.5 as.zero\n",
  "OU": u"[Pair]\nU-O : as.bornmayer 448.779 0.387758\nO-O : sum(as.buck 830.283 0.352856 3.884372, soft 1.0 2.0)\n",
  "Si": u"[Pair]\nSi-O : soft 10.0 1.6\n",
  "none": u"",
  "emptypair": u"[Pair]\n",
  "badform": u"[Pair]\nO-O : as.nothere 1.0\n",
}

EAM_PARTS = {
  "std": u"[EAM-Embed]\nU = as.sqrt -1.806\nO = as.sqrt -0.690\n[EAM-Density]\nU = density 3450.995\nO = density 106.856\n",
  "std-rev": u"[EAM-Embed]\nO = as.sqrt -0.690\nU = as.sqrt -1.806\n[EAM-Density]\nO = density 106.856\nU = density 3450.995\n",
  "fs": u"[EAM-Embed]\nU = as.sqrt -1.806\nO = as.sqrt -0.690\n[EAM-Density]\nU->U = density 3450.995\nU->O = density 12.5\nO->U = density 9.25\nO->O = density 106.856\n",
  "fs-rev": u"[EAM-Embed]\nO = as.sqrt -0.690\nU = as.sqrt -1.806\n[EAM-Density]\nO->O = density 106.856\nO->U = density 9.25\nU->O = density 12.5\nU->U = density 3450.995\n",
  "single": u"[EAM-Embed]\nU = as.sqrt -1.806\n[EAM-Density]\nU = density 3450.995\n",
  "missing-density": u"[EAM-Embed]\nU = as.sqrt -1.806\nO = as.sqrt -0.690\n[EAM-Density]\nU = density 3450.995\n",
  "unknown-species": u"[EAM-Embed]\nXx = as.sqrt -1.806\n[EAM-Density]\nXx = density 3450.995\n",
  "adp": u"[EAM-Embed]\nU = as.sqrt -1.806\nO = as.sqrt -0.690\n[EAM-Density]\nU = density 3450.995\nO = density 106.856\n[EAM-ADP-Dipole]\nU-O : as.bornmayer 1.0 0.5\nO-O : as.zero\nU-U : as.constant 0.25\n[EAM-ADP-Quadrupole]\nU-O : as.zero\nO-O : as.bornmayer 2.0 0.25\nU-U : as.zero\n",
  "none": u"",
}

SPECIES = {
  "none": u"",
  "some": u"[Species]\nU.atomic_mass : 235\nU.lattice_constant : 5.678\nO.lattice_type : bcc\n",
  "xx": u"[Species]\nXx.atomic_mass : 2.5\nXx.atomic_number : 119\n",
  "bad": u"[Species]\nU.atomic_mass : heavy\n",
}

TABULATION_HEADERS = [
  ("full", u"nr : {nr}\ncutoff : 6.0\nnrho : 16\ncutoff_rho : 8.0\n"),
  ("dr", u"nr : {nr}\ndr : 0.25\nnrho : 12\ndrho : 0.5\n"),
  ("no-r", u"nrho : 16\ncutoff_rho : 8.0\n"),
  ("no-rho", u"nr : {nr}\ncutoff : 6.0\n"),
  ("only-nr", u"nr : {nr}\n"),
  ("empty", u""),
]


def make_input(target, header, pair, eam="none", species="none", nr=16):
  lines = u"[Tabulation]\n"
  if target is not None:
    lines += u"target : {}\n".format(target)
  lines += header.format(nr=nr)
  return lines + POTFORMS + PAIRS[pair] + EAM_PARTS[eam] + SPECIES[species]


# ---------------------------------------------------------------------------- checks
def configuration_checks():
  pair_targets = [None, u"LAMMPS", u"DLPOLY", u"DL_POLY", u"GULP", u"excel", u"lammps", u"NotATarget", u""]
  for ti, target in enumerate(pair_targets):
    for hi, (hlabel, header) in enumerate(TABULATION_HEADERS):
      for pi, pair in enumerate(["UO", "OU", "Si", "none", "emptypair", "badform"]):
        if (ti + hi + pi) % 3 and not (target is None or pair == "UO"):
          continue
        if hlabel in ("no-r", "empty", "only-nr") and pair in ("UO", "OU") and (ti + pi) % 2:
          continue  # default grids are large: keep the run short
        txt = make_input(target, header, pair)
        attempt("pair:{}:{}:{}".format(target, hlabel, pair),
                lambda: describe(Configuration().read(io.StringIO(txt))))

  # per-target row-count checks
  for target in (u"LAMMPS", u"DLPOLY", u"GULP"):
    for nr in (1, 2, 3, 4, 5, 8, 10, 12):
      txt = make_input(target, u"nr : {nr}\ncutoff : 6.0\n", "UO", nr=nr)
      attempt("nrcheck:{}:{}".format(target, nr), lambda: describe(Configuration().read(io.StringIO(txt))))

  eam_targets = [u"setfl", u"lammps_eam_alloy", u"setfl_fs", u"DL_POLY_EAM", u"DL_POLY_EAM_fs", u"excel_eam", u"excel_eam_fs", u"eam_adp"]
  for ti, target in enumerate(eam_targets):
    fs = target.endswith("fs")
    for hi, (hlabel, header) in enumerate(TABULATION_HEADERS):
      if hlabel in ("no-r", "no-rho", "only-nr", "empty") and (ti + hi) % 2:
        continue
      for ei, eam in enumerate(sorted(EAM_PARTS)):
        for si, species in enumerate(sorted(SPECIES)):
          if hlabel != "full" and not (eam in ("std", "fs", "adp") and species == "none"):
            continue
          if hlabel == "full" and (ti + ei + si) % 2 and not ((eam.startswith("fs") == fs) and species in ("none", "some")):
            continue
          if target.startswith("excel") and (ei + si) % 3:
            continue
          for pair in ("UO", "none"):
            if pair == "none" and (ei + si + ti) % 4:
              continue
            txt = make_input(target, header, pair, eam, species, nr=12)
            attempt("eam:{}:{}:{}:{}:{}".format(target, hlabel, eam, species, pair),
                    lambda: describe(Configuration().read(io.StringIO(txt))))


def parser_checks():
  config = Configuration()
  emit("fresh-configurations-independent", Configuration() is not config)

  # same Configuration instance used repeatedly, via read_from_parser, with filtered parsers
  base_pair = make_input(u"LAMMPS", TABULATION_HEADERS[0][1], "UO")
  base_fs = make_input(u"setfl_fs", TABULATION_HEADERS[0][1], "UO", "fs", "some", nr=12)
  base_adp = make_input(u"eam_adp", TABULATION_HEADERS[0][1], "UO", "adp", nr=12)
  filters = [dict(), dict(exclude=[u"U"]), dict(include=[u"U"]), dict(include=[u"O"]), dict(exclude=[u"O", u"U"]),
             dict(include=[]), dict(exclude=[])]
  for bi, base in enumerate((base_pair, base_fs, base_adp)):
    for fi, kw in enumerate(filters):
      def run():
        cp = ConfigParser(io.StringIO(base))
        if kw:
          cp = FilteredConfigParser(cp, **kw)
        first = describe(config.read_from_parser(cp))
        second = describe(config.read_from_parser(cp))
        return first, first == second
      attempt("filtered:{}:{}".format(bi, fi), run)

  # overrides changing the target after the fact
  for ti, target in enumerate([u"GULP", u"DLPOLY", u"setfl", u"nothing", None]):
    def run():
      cp = ConfigParser(io.StringIO(base_pair), overrides=[ConfigParserOverrideTuple(u"Tabulation", u"target", target)])
      return describe(config.read_from_parser(cp))
    attempt("override-target:{}".format(target), run)

  # bad arguments
  attempt("read-none", lambda: config.read(None))
  attempt("read-from-parser-none", lambda: config.read_from_parser(None))
  attempt("read-bytes", lambda: describe(config.read(io.BytesIO(base_pair.encode("utf8")))))
  attempt("read-garbage", lambda: describe(config.read(io.StringIO(u"this is not an ini file\n"))))
  attempt("read-bad-nr", lambda: describe(config.read(io.StringIO(u"[Tabulation]\ntarget : LAMMPS\nnr : many\ncutoff : 2\n"))))
  attempt("read-bad-target-section", lambda: describe(config.read(io.StringIO(u"[Tabulation]\ntarget : LAMMPS\nnr : 10\ncutoff : 2\ndr : 0.1\n"))))


def factory_checks():
  emit("factory-keys", list(TABULATION_FACTORIES.keys()))
  txt_pair = make_input(u"LAMMPS", u"nr : 12\ncutoff : 6.0\n", "UO")
  txt_nogrid = make_input(u"LAMMPS", u"", "Si")
  txt_eam = make_input(u"setfl", u"nr : 12\ncutoff : 6.0\n", "UO", "std", "some")
  txt_fs = make_input(u"setfl_fs", u"nr : 12\ncutoff : 6.0\nnrho : 12\n", "UO", "fs-rev")
  txt_adp = make_input(u"eam_adp", u"nr : 12\ncutoff : 6.0\nnrho : 12\ncutoff_rho : 5.0\n", "UO", "adp")
  for key, factory in TABULATION_FACTORIES.items():
    emit("factory", key, type(factory).__name__, factory.tabulation_target, factory.tabulation_type,
         factory.tabulation_class.__name__, getattr(getattr(factory, "eam_builder_class", None), "__name__", None))
    for li, txt in enumerate((txt_pair, txt_nogrid, txt_eam, txt_fs, txt_adp)):
      if li == 1 and key not in ("LAMMPS", "GULP", "setfl"):
        continue

      def cutoffs():
        c = factory.extract_cutoffs(ConfigParser(io.StringIO(txt)))
        return type(c).__name__, tuple(c), c._fields
      attempt("factory-cutoffs:{}:{}".format(key, li), cutoffs)

      def potobjs():
        cp = ConfigParser(io.StringIO(txt))
        pfr = Potential_Form_Registry(cp, register_standard=True, register_pymath_functions=True)
        mr = Modifier_Registry()
        pots = factory.extract_potential_objects(cp, pfr, mr)
        r_cutoff = factory.extract_cutoffs(cp)
        args = factory.extract_tabulation_args(cp, r_cutoff, pots, pfr, mr)
        summary = []
        for a in args:
          if isinstance(a, list):
            summary.append([type(x).__name__ for x in a])
          else:
            summary.append(repr(a))
        return [(p.speciesA, p.speciesB) for p in pots], summary, args[0] is pots
      attempt("factory-args:{}:{}".format(key, li), potobjs)

      if li != 1:
        attempt("factory-create:{}:{}".format(key, li),
                lambda: describe(factory.create_tabulation(ConfigParser(io.StringIO(txt)))))


# ---------------------------------------------------------------------------- command line
def cli_checks():
  tmpdir = tempfile.mkdtemp(prefix="r6diffC")
  try:
    inputs = {
      "pair.aspot": make_input(u"LAMMPS", u"nr : 12\ncutoff : 6.0\n", "UO"),
      "notarget.aspot": make_input(None, u"nr : 12\ncutoff : 6.0\n", "OU"),
      "dlpoly.aspot": make_input(u"DLPOLY", u"nr : 10\ncutoff : 6.0\n", "UO"),
      "fs.aspot": make_input(u"setfl_fs", u"nr : 12\ncutoff : 6.0\nnrho : 12\n", "UO", "fs", "some"),
      "adp.aspot": make_input(u"eam_adp", u"nr : 12\ncutoff : 6.0\nnrho : 12\ncutoff_rho : 5.0\n", "UO", "adp"),
      "unknown.aspot": make_input(u"whatever", u"nr : 12\ncutoff : 6.0\n", "UO"),
      "badspecies.aspot": make_input(u"setfl", u"nr : 12\ncutoff : 6.0\n", "UO", "std", "bad"),
    }
    for name, txt in inputs.items():
      with io.open(os.path.join(tmpdir, name), "w", encoding="utf8") as f:
        f.write(txt)
    runs = [
      ["pair.aspot", "out1"],
      ["notarget.aspot", "out2"],
      ["dlpoly.aspot", "out3"],
      ["fs.aspot", "out4"],
      ["adp.aspot", "out5"],
      ["unknown.aspot", "out6"],
      ["badspecies.aspot", "out7"],
      ["pair.aspot", "out8", "--exclude-species", "U"],
      ["fs.aspot", "out9", "--include-species", "O"],
      ["pair.aspot", "out10", "-e", "Tabulation:target=GULP"],
      ["pair.aspot", "out11", "-r", "Tabulation:cutoff", "Tabulation:nr", "-a", "Tabulation:dr=0.5", "Tabulation:nr=8"],
      ["fs.aspot", "out12", "-a", "Species:O.atomic_mass=17.5", "-e", "Tabulation:target=DL_POLY_EAM_fs"],
      ["pair.aspot"],
    ]
    code = "import sys; sys.argv[0]='potable'; from atsim.potentials.tools.potable import main; main()"
    for i, args in enumerate(runs):
      # the wrapper changes directory to the worktree: give absolute paths for the input and output files
      outname = args[1] if len(args) > 1 and not args[1].startswith("-") else None
      absargs = [os.path.join(tmpdir, args[0])] + ([os.path.join(tmpdir, outname)] if outname else []) + args[(2 if outname else 1):]
      proc = subprocess.run([sys.executable, "-W", "ignore", "/tmp/wtpy.py", WORKTREE, "-c", code] + absargs,
                            cwd=tmpdir, stdout=subprocess.PIPE, stderr=subprocess.PIPE)
      written = None
      if outname and os.path.exists(os.path.join(tmpdir, outname)):
        with open(os.path.join(tmpdir, outname), "rb") as f:
          written = hashlib.sha256(f.read()).hexdigest()
      emit("cli", i, args, proc.returncode, proc.stdout.decode("utf8").replace(tmpdir, "TMP"),
           proc.stderr.decode("utf8").replace(tmpdir, "TMP"), written)
  finally:
    shutil.rmtree(tmpdir)


configuration_checks()
parser_checks()
factory_checks()
cli_checks()

blob = "\n".join(OUT).encode("utf8")
print("lines", len(OUT))
print("ok", sum(1 for l in OUT if "| 'OK' |" in l), "exc", sum(1 for l in OUT if "| 'EXC' |" in l))
print("sha256", hashlib.sha256(blob).hexdigest())

"""Differential script for twin C.

Exercises FilteredConfigParser (include / exclude species filtering of pair and
EAM sections), Potential_Form_Registry construction (standard forms, custom
[Potential-Form]s calling each other, table forms, pymath functions, name
clashes) and make_potential_form_tuple_from_function, through parsing and
tabulation of inline and shipped models.
Prints a deterministic sha256 digest of everything observed.
"""
import glob
import hashlib
import io
import itertools
import os
import sys

from atsim.potentials.config import ConfigParser, Configuration, FilteredConfigParser
from atsim.potentials.config._potential_form_registry import Potential_Form_Registry
from atsim.potentials.config._common import make_potential_form_tuple_from_function
from atsim.potentials import potentialforms, potentialfunctions

ROOT = os.path.dirname(os.path.dirname(os.path.abspath(__file__)))

LOG = []


def rec(label, thunk):
  try:
    v = thunk()
    LOG.append("{} => OK {!r}".format(label, v))
  except Exception as e:  # noqa
    LOG.append("{} => EXC {} {} | {}".format(
      label, type(e).__name__,
      [c.__name__ for c in type(e).__mro__], str(e)))


def tabulate_parser(cp):
  tabulation = Configuration().read_from_parser(cp)
  out = io.StringIO()
  tabulation.write(out)
  return (tabulation.target, tabulation.nr, tabulation.dr, tabulation.cutoff,
          hashlib.sha256(out.getvalue().encode("utf8")).hexdigest())


# 1. make_potential_form_tuple_from_function ---------------------------------------
def f0():
  return 0.0

def f1(r):
  return r

def f3(r, a, b=2):
  return r

def fv(*args):
  return 0.0

def fmixed(r, *args):
  return 0.0

def fkw(r, **kwargs):
  return 0.0

def fkwonly(*args, k=1):
  return 0.0

class Callable_Object(object):
  def __call__(self, r, A):
    return r

for name, func in [("f0", f0), ("f1", f1), ("f3", f3), ("fv", fv), ("fmixed", fmixed), ("fkw", fkw),
                   ("fkwonly", fkwonly), ("lambda", lambda x, y: x), ("obj", Callable_Object()),
                   ("method", Callable_Object().__call__), ("builtin", len), ("notcallable", 3),
                   ("buck", potentialfunctions.buck), ("buck form", potentialforms.buck),
                   ("polynomial", potentialfunctions.polynomial), ("polynomial form", potentialforms.polynomial)]:
  rec("make tuple " + name, lambda: make_potential_form_tuple_from_function("ns." + name, func))


# 2. Potential_Form_Registry ----------------------------------------------------------
def registry_dump(text, register_standard, register_pymath):
  cp = ConfigParser(io.StringIO(text))
  pfr = Potential_Form_Registry(cp, register_standard, register_pymath)
  out = [pfr.registered]
  for label in pfr.registered:
    pf = pfr[label]
    out.append((label, type(pf).__name__, pf.signature,
                getattr(pf, "expression", None)))
  return out


def registry_eval(text, register_standard, register_pymath, calls):
  cp = ConfigParser(io.StringIO(text))
  pfr = Potential_Form_Registry(cp, register_standard, register_pymath)
  out = []
  for label, args, r in calls:
    def call():
      func = pfr[label](*args)
      v = [func(r)]
      for dname in ("deriv", "deriv2"):
        if hasattr(func, dname):
          v.append((dname, getattr(func, dname)(r)))
      return v
    try:
      out.append((label, args, r, call()))
    except Exception as e:
      out.append((label, args, r, type(e).__name__, str(e)))
  return out


registry_cases = {
  "empty": u"[Pair]\nA-B : as.zero\n",
  "custom": u"[Potential-Form]\nf(r, a) = a*r\ng(r, a, b) = f(r, a) + b\nh(r) = g(r, 1, 2) * f(r, 3)\n",
  "custom pymath": u"[Potential-Form]\nf(r, a) = pymath.floor(a*r) + pymath.fsum(1,2,r)\ng(r) = pymath.factorial(4) + f(r, 2.5) + as.buck(r, 1000.0, 0.3, 32.0)\n",
  "duplicate label": u"[Potential-Form]\nf(r, a) = a*r\nf(r, a, b) = a*r+b\n",
  "clash with standard": u"[Potential-Form]\nas.buck(r, a) = a*r\n",
  "table and form": u"[Table-Form:tab]\nxy : 0 10 1 8 2 5 3 2.5 4 1 5 0\n[Potential-Form]\nf(r, a) = a*tab(r)\n",
  "table clashes with form": u"[Table-Form:f]\nxy : 0 10 1 8 2 5 3 2.5 4 1 5 0\n[Potential-Form]\nf(r, a) = a*r\n",
  "table clashes with standard function": u"[Table-Form:as.buck]\nxy : 0 10 1 8 2 5 3 2.5 4 1 5 0\n",
  "table clashes with standard form": u"[Table-Form:as.buck4]\nxy : 0 10 1 8 2 5 3 2.5 4 1 5 0\n",
  "two tables": u"[Table-Form:t1]\nxy : 0 10 1 8 2 5 3 2.5 4 1 5 0\n[Table-Form:t2]\nx : 0 1 2 3 4\ny : 4 3 2 1 0\n",
  "bad signature": u"[Potential-Form]\nf r a = a*r\n",
  "shadows builtin": u"[Potential-Form]\nsin(r, a) = a*r\ng(r) = sin(r, 2)\n",
  "bad expression": u"[Potential-Form]\nf(r, a) = a*r +\ng(r) = f(r, 1)\n",
}

calls = [("f", (2.0,), 1.5), ("g", (2.0, 3.0), 1.5), ("g", (), 1.5), ("h", (), 1.5), ("tab", (), 2.5), ("t2", (), 2.5),
         ("as.buck", (1000.0, 0.3, 32.0), 1.5), ("as.buck", (1000.0, 0.3), 1.5), ("as.buck4", (11272.6, 0.1363, 134.0, 1.2, 2.1, 2.6), 1.5),
         ("as.polynomial", (1.0, 2.0, 3.0), 1.5), ("as.zero", (), 1.5), ("pymath.floor", (), 1.5), ("nothere", (), 1.5)]

for label, text in registry_cases.items():
  for std, pym in itertools.product([False, True], [False, True]):
    rec("registry[{}] std={} pymath={}".format(label, std, pym), lambda: registry_dump(text, std, pym))
    rec("registry eval[{}] std={} pymath={}".format(label, std, pym), lambda: registry_eval(text, std, pym, calls))

# 3. FilteredConfigParser ------------------------------------------------------------------
PAIR_MODEL = u"""[Tabulation]
target : LAMMPS
nr : 16
dr : 0.25

[Pair]
O-O : as.buck 1000.0 0.3 32.0
U-O : as.buck 2000.0 0.2 0.0
U-U : as.zero
Th-O : as.bornmayer 1500.0 0.25
Th-U : as.constant 1.0 >2 as.zero

[Species]
O.charge : -2
"""

EAM_MODEL = u"""[Tabulation]
target : setfl
nr : 16
dr : 0.25
nrho : 12
drho : 0.5

[EAM-Embed]
Al : as.sqrt -1.0
Cu : as.polynomial 0 1 2
Zr : as.zero

[EAM-Density]
Al : as.exp_decay 1.0 2.0
Cu : as.zero
Zr : as.constant 0.5

[Pair]
Al-Cu : as.zero
Al-Al : as.buck 1000.0 0.3 0.0
Zr-Cu : as.constant 2.0
"""

FS_MODEL = u"""[Tabulation]
target : setfl_fs
nr : 16
dr : 0.25
nrho : 12
drho : 0.5

[EAM-Embed]
Al : as.sqrt -1.0
Cu : as.polynomial 0 1 2

[EAM-Density]
Al->Al : as.exp_decay 1.0 2.0
Cu->Al : as.zero
Al->Cu : as.constant 0.5
Cu->Cu : as.exp_decay 2.0 1.0

[Pair]
Al-Cu : as.zero
Al-Al : as.buck 1000.0 0.3 0.0
"""

filters = [
  dict(), dict(exclude=None, include=None), dict(exclude=[]), dict(include=[]), dict(exclude=[], include=[]),
  dict(exclude=["O"]), dict(exclude=["U", "Th"]), dict(include=["U", "O"]), dict(include=["O"]),
  dict(include=["O", "U", "Th", "Pu"]), dict(exclude=("Pu",)), dict(include={"U"}), dict(exclude="U"),
  dict(exclude=["Al"]), dict(include=["Al"]), dict(include=["Al", "Cu"]), dict(exclude=["Cu", "Zr"]),
  dict(exclude=["Al"], include=["Cu"]), dict(exclude=["Al"], include=[]), dict(exclude=[], include=["Cu"]),
  dict(include=["Zr", "Cu"]), dict(exclude=["Zr"]),
]

for mname, model in [("pair", PAIR_MODEL), ("eam", EAM_MODEL), ("fs", FS_MODEL)]:
  for kw in filters:
    label = "filtered[{}] {}".format(mname, sorted((k, repr(sorted(v) if isinstance(v, set) else v)) for k, v in kw.items()))
    holder = []

    def construct():
      holder.append(FilteredConfigParser(ConfigParser(io.StringIO(model)), **kw))
      return "constructed"
    rec(label + " ctor", construct)
    if not holder:
      continue
    fcp = holder[0]
    for prop in ["pair", "eam_embed", "eam_density", "eam_density_fs", "parsed_sections", "orphan_sections",
                 "species", "tabulation", "potential_form", "table_form"]:
      rec("{} .{}".format(label, prop), lambda: getattr(fcp, prop))
    rec(label + " parse_pair_like", lambda: fcp.parse_pair_like("Pair"))
    rec(label + " isinstance", lambda: (isinstance(fcp, ConfigParser), type(fcp.__wrapped__).__name__))
    rec(label + " tabulate", lambda: tabulate_parser(fcp))

# 4. Real model files, filtered by each of their species --------------------------------------
files = sorted(glob.glob(os.path.join(ROOT, "tests", "**", "*.aspot"), recursive=True) +
               glob.glob(os.path.join(ROOT, "docs", "**", "*.aspot"), recursive=True))
for fn in files:
  rel = os.path.relpath(fn, ROOT)
  with open(fn) as infile:
    text = infile.read()
  rec("file registry " + rel, lambda: registry_dump(text, True, True)[0])
  rec("file plain " + rel, lambda: tabulate_parser(ConfigParser(io.StringIO(text))))
  try:
    cp = ConfigParser(io.StringIO(text))
    species = []
    for p in cp.pair:
      for s in p.species:
        if s not in species:
          species.append(s)
  except Exception as e:
    LOG.append("file species {} {}".format(rel, type(e).__name__))
    continue
  if len(species) > 1:
    first = species[0]
    rec("file exclude {} {}".format(first, rel),
        lambda: tabulate_parser(FilteredConfigParser(ConfigParser(io.StringIO(text)), exclude=[first])))
    rec("file include {} {}".format(first, rel),
        lambda: tabulate_parser(FilteredConfigParser(ConfigParser(io.StringIO(text)), include=[first])))

digest = hashlib.sha256("\n".join(LOG).encode("utf8")).hexdigest()
if "-v" in sys.argv:
  print("\n".join(LOG))
print("records:", len(LOG))
print("DIGEST", digest)

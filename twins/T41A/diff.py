"""Differential script for twin A (EAM_Potential_Builder helper merging).

Exercises EAM_Potential_Builder / EAM_Potential_Builder_FS and the EAM parts of
ConfigParser through the public API only (constructors, `eam_potentials`,
ConfigParser properties, Configuration.read + Tabulation.write) and prints a
deterministic digest.

Run with:
  PYTHONHASHSEED=0 /venv/bin/python -W ignore /tmp/wtpy.py /tmp/wt_r4_1 _twins/diffA.py
"""
import hashlib
import io
import logging
import sys

logging.disable(logging.CRITICAL)

from atsim.potentials.config import Configuration, ConfigParser, FilteredConfigParser
from atsim.potentials.config import Potential_Form_Registry, Modifier_Registry
from atsim.potentials.config._eam_potential_builder import EAM_Potential_Builder, EAM_Potential_Builder_FS
from atsim.potentials.referencedata import Reference_Data

TWIN = "A"

LINES = []


def emit(*parts):
  LINES.append(" ".join(str(p) for p in parts))


def exc_repr(e):
  return "EXC {}.{}: {}".format(type(e).__module__, type(e).__name__, e)


RHOS = [0.0, 0.001, 0.5, 1.0, 2.75, 10.0, 99.0]


def sample(func):
  out = []
  for x in RHOS:
    try:
      out.append(repr(float(func(x))))
    except Exception as e:
      out.append("EXC " + type(e).__name__)
  return ",".join(out)


def dump_eam_potential(tag, ep):
  emit(tag, "species", repr(ep.species), "Z", repr(ep.atomicNumber), "mass", repr(ep.mass),
       "lc", repr(ep.latticeConstant), "lt", repr(ep.latticeType))
  emit(tag, "embed", type(ep.embeddingFunction).__name__, sample(ep.embeddingFunction))
  dens = ep.electronDensityFunction
  if isinstance(dens, dict):
    # raw key order is recorded as well as contents
    emit(tag, "density-keys", repr(list(dens.keys())))
    for k in dens:
      emit(tag, "density", repr(k), type(dens[k]).__name__, sample(dens[k]))
  else:
    emit(tag, "density", type(dens).__name__, sample(dens))


def parser_from(text, **kwargs):
  return ConfigParser(io.StringIO(text), **kwargs)


def build(tag, text, builder_class, add_undefined=True, use_species=True, filter_kwargs=None, positional=False):
  """Directly instantiate a builder class and dump the `eam_potentials` property"""
  try:
    cp = parser_from(text)
    if filter_kwargs is not None:
      cp = FilteredConfigParser(cp, **filter_kwargs)
    pfr = Potential_Form_Registry(cp, register_standard=True, register_pymath_functions=True)
    mr = Modifier_Registry()
    if use_species:
      rd = Reference_Data(cp.species)
      if positional:
        builder = builder_class(cp, pfr, mr, rd, add_undefined)
      else:
        builder = builder_class(cp, pfr, mr, reference_data=rd, add_undefined=add_undefined)
    else:
      builder = builder_class(cp, pfr, mr, add_undefined=add_undefined)
    pots = builder.eam_potentials
    emit(tag, "type", type(pots).__name__, "n", len(pots), "same-object", pots is builder.eam_potentials,
         "add_undefined", builder.add_undefined)
    emit(tag, "order", repr([p.species for p in pots]))
    for i, ep in enumerate(pots):
      dump_eam_potential("{}[{}]".format(tag, i), ep)
  except Exception as e:
    emit(tag, exc_repr(e))


class StubParser(object):
  """Minimal duck-typed stand-in for ConfigParser, rows can be duplicated"""

  def __init__(self, cp, fs, dup_embed, dup_density):
    self.eam_embed = cp.eam_embed
    dens = cp.eam_density_fs if fs else cp.eam_density
    if dup_embed:
      # repeat first row at the end, with a different function
      first, last = self.eam_embed[0], self.eam_embed[-1]
      self.eam_embed = self.eam_embed + [type(first)(first.species, last.potential_form_instance)]
    if dup_density:
      first, last = dens[0], dens[-1]
      dens = dens + [type(first)(first.species, last.potential_form_instance)]
    if fs:
      self.eam_density_fs = dens
    else:
      self.eam_density = dens
    self.pair = cp.pair
    self.species = cp.species


def stub_build(tag, text, builder_class, add_undefined, dup_embed=False, dup_density=False):
  try:
    cp = parser_from(text)
    pfr = Potential_Form_Registry(cp, register_standard=True, register_pymath_functions=True)
    stub = StubParser(cp, builder_class is EAM_Potential_Builder_FS, dup_embed, dup_density)
    builder = builder_class(stub, pfr, Modifier_Registry(), add_undefined=add_undefined)
    pots = builder.eam_potentials
    emit(tag, "order", repr([p.species for p in pots]))
    for i, ep in enumerate(pots):
      dump_eam_potential("{}[{}]".format(tag, i), ep)
  except Exception as e:
    emit(tag, exc_repr(e))


def tabulate(tag, text):
  """Go through Configuration.read and write the table"""
  try:
    tab = Configuration().read(io.StringIO(text))
    emit(tag, "target", tab.target, "order", repr([p.species for p in tab.eam_potentials]))
    for i, ep in enumerate(tab.eam_potentials):
      dump_eam_potential("{}[{}]".format(tag, i), ep)
    out = io.StringIO()
    tab.write(out)
    data = out.getvalue()
    emit(tag, "bytes", len(data), "sha256", hashlib.sha256(data.encode("utf-8")).hexdigest())
  except Exception as e:
    emit(tag, exc_repr(e))


def parse_props(tag, text, **kwargs):
  """Dump the EAM related properties of ConfigParser"""
  try:
    cp = parser_from(text, **kwargs)
  except Exception as e:
    emit(tag, "ctor", exc_repr(e))
    return
  for prop in ["eam_embed", "eam_density", "eam_density_fs", "pair", "parsed_sections"]:
    try:
      v = getattr(cp, prop)
      emit(tag, prop, type(v).__name__, repr(v))
      if prop.startswith("eam"):
        for row in v:
          emit(tag, prop, "rowtype", type(row).__name__, type(row.species).__name__)
    except Exception as e:
      emit(tag, prop, exc_repr(e))
      ctx = e.__context__
      emit(tag, prop, "context", type(ctx).__name__ if ctx is not None else None)


# ----------------------------------------------------------------------------
# Models
# ----------------------------------------------------------------------------

POTFORMS = """
[Potential-Form]
density(r, C) = r/(C^12)
edens(r, A, B) = A*exp(-B*r)
fembed(rho, A, B) = -A*sqrt(rho) + B*rho^2
"""

STD_FULL = """
[Tabulation]
target : {target}
cutoff_rho : 50.0
nrho : 50
cutoff : 6.0
nr : 60

[Pair]
Cu-Cu = as.buck 1000.0 0.3 10.0
Al-Cu = as.buck 800.0 0.31 0.0
Al-Al = as.bornmayer 900.0 0.29

[EAM-Embed]
{e1}
{e2}

[EAM-Density]
{d1}
{d2}
""" + POTFORMS

E_CU = "Cu : fembed 1.1 0.002"
E_AL = "Al = as.sqrt -0.75"
D_CU = "Cu : edens 12.0 1.7"
D_AL = "Al = >0 edens 9.0 1.5 >=3.0 as.zero"

UNDERSPEC = """
[Tabulation]
target : {target}
cutoff_rho : 0.01
nrho : 40
cutoff : 10.0
nr : 40

[Pair]
O-O = as.buck 1.0 0.2 0.0
Mg-O = as.buck 3.0 0.2 0.75
Al-O = as.buck 15.0 0.2 0.0
Ga-O = as.buck 70.0 0.2 0.0
In-O = as.buck 36.0 0.20 0.0

[EAM-Density]
{density}

[EAM-Embed]
{embed}

[Potential-Form]
density(r, C) = r/(C^12)
"""

FS_FULL = """
[Tabulation]
target : {target}
cutoff_rho : 30.0
nrho : 36
cutoff : 5.0
nr : 48

[Pair]
Al-Al = as.buck 1000.0 0.3 10.0
Al-Fe = as.buck 800.0 0.31 0.0
Fe-Fe = as.bornmayer 900.0 0.29

[EAM-Embed]
{embed}

[EAM-Density]
{density}
""" + POTFORMS

FS_EMBED = "Al = fembed 1.0 0.001\nFe : fembed 1.3 0.0004"
FS_EMBED_REV = "Fe : fembed 1.3 0.0004\nAl = fembed 1.0 0.001"
FS_DENS = "Al->Al = edens 3.0 1.1\nFe->Fe = edens 4.0 1.2\nFe->Al = edens 5.0 1.3\nAl->Fe : edens 6.0 1.4"
FS_DENS_REV = "Al->Fe : edens 6.0 1.4\nFe->Al = edens 5.0 1.3\nFe -> Fe = edens 4.0 1.2\nAl ->Al = edens 3.0 1.1"
FS_DENS_PARTIAL = "Fe->Al = edens 5.0 1.3"

SPECIES = """
[Species]
Xx.atomic_number = 150
Xx.atomic_mass = 301.5
Yy.atomic_number = 151
Zz.atomic_mass = 12.5
Al.lattice_constant = 4.05
Al.lattice_type = bcc
Cu.atomic_mass = 64.0
"""


def std(target="setfl", e1=E_CU, e2=E_AL, d1=D_CU, d2=D_AL, extra=""):
  return STD_FULL.format(target=target, e1=e1, e2=e2, d1=d1, d2=d2) + extra


def fs(target="setfl_fs", embed=FS_EMBED, density=FS_DENS, extra=""):
  return FS_FULL.format(target=target, embed=embed, density=density) + extra


def under(target, density, embed, extra=""):
  return UNDERSPEC.format(target=target, density=density, embed=embed) + extra


def main():
  # -- full tabulations through Configuration.read ---------------------------
  for target in ["setfl", "DL_POLY_EAM"]:
    tabulate("tab-std-" + target, std(target))
    tabulate("tab-std-rev-" + target, std(target, e1=E_AL, e2=E_CU, d1=D_AL, d2=D_CU))
    tabulate("tab-std-mixed-" + target, std(target, e1=E_AL, e2=E_CU))
    tabulate("tab-std-species-" + target, std(target, extra=SPECIES))
    tabulate("tab-under-" + target, under(target, "O : density 80000.0",
             "Ga : as.sqrt -0.15449392139449653\nIn : as.sqrt -0.010691242237852016"))
    tabulate("tab-under2-" + target, under(target, "In : density 80000.0\nO : density 7.0\nMg : density 2.0",
             "Ga : as.sqrt -0.15449392139449653"))
  for target in ["setfl_fs", "DL_POLY_EAM_fs"]:
    tabulate("tab-fs-" + target, fs(target))
    tabulate("tab-fs-rev-" + target, fs(target, embed=FS_EMBED_REV, density=FS_DENS_REV))
    tabulate("tab-fs-partial-" + target, fs(target, density=FS_DENS_PARTIAL))
    tabulate("tab-fs-species-" + target, fs(target, extra=SPECIES))
    tabulate("tab-fs-under-" + target, under(target, "O->Ga : density 80000.0\nMg->O : density 3.0",
             "Ga : as.sqrt -0.15449392139449653\nIn : as.sqrt -0.010691242237852016"))

  # -- direct use of the builder classes --------------------------------------
  for add_undefined in [True, False]:
    sfx = "-au{}".format(int(add_undefined))
    build("b-std" + sfx, std(), EAM_Potential_Builder, add_undefined)
    build("b-std-pos" + sfx, std(), EAM_Potential_Builder, add_undefined, positional=True)
    build("b-std-rev" + sfx, std(e1=E_AL, e2=E_CU, d1=D_AL, d2=D_CU), EAM_Potential_Builder, add_undefined)
    build("b-std-nord" + sfx, std(), EAM_Potential_Builder, add_undefined, use_species=False)
    build("b-std-species" + sfx, std(extra=SPECIES), EAM_Potential_Builder, add_undefined)
    build("b-under" + sfx, under("setfl", "O : density 80000.0", "Ga : as.sqrt -0.1\nIn : as.sqrt -0.01"),
          EAM_Potential_Builder, add_undefined)
    build("b-under-emb-only" + sfx, under("setfl", "", "Ga : as.sqrt -0.1\nIn : as.sqrt -0.01"),
          EAM_Potential_Builder, add_undefined)
    build("b-under-dens-only" + sfx, under("setfl", "Ga : density 2.0\nAl : density 3.0\nO : density 4.0", ""),
          EAM_Potential_Builder, add_undefined)
    build("b-empty" + sfx, under("setfl", "", ""), EAM_Potential_Builder, add_undefined)
    build("b-fs" + sfx, fs(), EAM_Potential_Builder_FS, add_undefined)
    build("b-fs-rev" + sfx, fs(embed=FS_EMBED_REV, density=FS_DENS_REV), EAM_Potential_Builder_FS, add_undefined)
    build("b-fs-partial" + sfx, fs(density=FS_DENS_PARTIAL), EAM_Potential_Builder_FS, add_undefined)
    build("b-fs-species" + sfx, fs(extra=SPECIES), EAM_Potential_Builder_FS, add_undefined)
    build("b-fs-under" + sfx, under("setfl_fs", "O->Ga : density 80000.0\nMg->O : density 3.0",
          "Ga : as.sqrt -0.1\nIn : as.sqrt -0.01"), EAM_Potential_Builder_FS, add_undefined)
    build("b-fs-empty" + sfx, under("setfl_fs", "", ""), EAM_Potential_Builder_FS, add_undefined)
    # filtered parser
    build("b-std-filt-ex" + sfx, std(), EAM_Potential_Builder, add_undefined, filter_kwargs=dict(exclude=["Al"]))
    build("b-std-filt-in" + sfx, std(), EAM_Potential_Builder, add_undefined, filter_kwargs=dict(include=["Al"]))
    build("b-fs-filt-ex" + sfx, fs(), EAM_Potential_Builder_FS, add_undefined, filter_kwargs=dict(exclude=["Fe"]))
    build("b-fs-filt-in" + sfx, fs(), EAM_Potential_Builder_FS, add_undefined, filter_kwargs=dict(include=["Fe"]))
    # wrong builder class for the density section
    build("b-fs-with-std-builder" + sfx, fs(), EAM_Potential_Builder, add_undefined)
    build("b-std-with-fs-builder" + sfx, std(), EAM_Potential_Builder_FS, add_undefined)

    # -- reference data problems ----------------------------------------------
    # Xx has number and mass, Yy only number, Zz only mass, Qq nothing
    for sp in ["Xx", "Yy", "Zz", "Qq", "Al", "Cu", "U"]:
      txt = under("setfl", "{} : density 3.0".format(sp), "{} : as.sqrt -0.5".format(sp), extra=SPECIES)
      build("b-ref-{}".format(sp) + sfx, txt, EAM_Potential_Builder, add_undefined)
      txt = under("setfl_fs", "{0}->{0} : density 3.0".format(sp), "{} : as.sqrt -0.5".format(sp), extra=SPECIES)
      build("b-fs-ref-{}".format(sp) + sfx, txt, EAM_Potential_Builder_FS, add_undefined)
    # problem species only appears via a null (added) function
    build("b-ref-null-emb" + sfx, under("setfl", "Qq : density 3.0", "Al : as.sqrt -0.5", extra=SPECIES),
          EAM_Potential_Builder, add_undefined)
    build("b-ref-null-dens" + sfx, under("setfl", "Al : density 3.0", "Al : as.sqrt -0.5\nYy : as.sqrt -2", extra=SPECIES),
          EAM_Potential_Builder, add_undefined)
    build("b-ref-two-bad" + sfx, under("setfl", "Qq : density 3.0\nZz : density 3.0", "Zz : as.sqrt -0.5\nQq : as.sqrt -2", extra=SPECIES),
          EAM_Potential_Builder, add_undefined)

    # -- malformed sections ----------------------------------------------------
    build("b-bad-embed-form" + sfx, std(e1="Cu : nosuchform 1.0"), EAM_Potential_Builder, add_undefined)
    build("b-bad-dens-form" + sfx, std(d2="Al : nosuchform 1.0"), EAM_Potential_Builder, add_undefined)
    build("b-bad-embed-args" + sfx, std(e1="Cu : fembed 1.0"), EAM_Potential_Builder, add_undefined)
    build("b-bad-dens-syntax" + sfx, std(d1="Cu : >= edens 1.0 2.0"), EAM_Potential_Builder, add_undefined)
    build("b-bad-embed-syntax" + sfx, std(e1="Cu : >= fembed 1.0 2.0"), EAM_Potential_Builder, add_undefined)
    build("b-fs-dup" + sfx, fs(density=FS_DENS + "\nAl -> Fe : edens 1.0 2.0"), EAM_Potential_Builder_FS, add_undefined)
    build("b-fs-bad-key1" + sfx, fs(density="Al-Fe : edens 1.0 2.0"), EAM_Potential_Builder_FS, add_undefined)
    build("b-fs-bad-key2" + sfx, fs(density="Al->Fe->Al : edens 1.0 2.0"), EAM_Potential_Builder_FS, add_undefined)
    build("b-fs-bad-form" + sfx, fs(density="Al->Fe : nosuchform 1.0 2.0"), EAM_Potential_Builder_FS, add_undefined)
    build("b-fs-bad-syntax" + sfx, fs(density="Al->Fe : >= edens 1.0 2.0"), EAM_Potential_Builder_FS, add_undefined)
    nodens = std().replace("[EAM-Density]", "[Other-Section]")
    build("b-no-density-section" + sfx, nodens, EAM_Potential_Builder, add_undefined)
    build("b-fs-no-density-section" + sfx, nodens, EAM_Potential_Builder_FS, add_undefined)
    noembed = std().replace("[EAM-Embed]", "[Other-Section]")
    build("b-no-embed-section" + sfx, noembed, EAM_Potential_Builder, add_undefined)
    build("b-fs-no-embed-section" + sfx, fs().replace("[EAM-Embed]", "[Other-Section]"), EAM_Potential_Builder_FS, add_undefined)

  # -- duck-typed parser with duplicated rows (not reachable through ConfigParser,
  #    which rejects duplicate keys itself) ------------------------------------
  for add_undefined in [True, False]:
    sfx = "-au{}".format(int(add_undefined))
    stub_build("s-std-dup" + sfx, std(), EAM_Potential_Builder, add_undefined, dup_embed=True, dup_density=True)
    stub_build("s-std-dup-dens" + sfx, std(), EAM_Potential_Builder, add_undefined, dup_density=True)
    stub_build("s-fs-dup" + sfx, fs(), EAM_Potential_Builder_FS, add_undefined, dup_density=True)
    stub_build("s-fs-dup-embed" + sfx, fs(), EAM_Potential_Builder_FS, add_undefined, dup_embed=True)
    stub_build("s-fs-nodup" + sfx, fs(), EAM_Potential_Builder_FS, add_undefined)

  # -- ConfigParser EAM properties -------------------------------------------
  parse_props("p-std", std())
  parse_props("p-std-rev", std(e1=E_AL, e2=E_CU, d1=D_AL, d2=D_CU))
  parse_props("p-fs", fs())
  parse_props("p-fs-rev", fs(embed=FS_EMBED_REV, density=FS_DENS_REV))
  parse_props("p-under", under("setfl", "O : density 80000.0", "Ga : as.sqrt -0.1\nIn : as.sqrt -0.01"))
  parse_props("p-empty", under("setfl", "", ""))
  parse_props("p-bad-embed-syntax", std(e1="Cu : >= fembed 1.0 2.0"))
  parse_props("p-bad-dens-syntax", std(d1="Cu : >= edens 1.0 2.0"))
  parse_props("p-fs-bad-key1", fs(density="Al-Fe : edens 1.0 2.0"))
  parse_props("p-fs-bad-key2", fs(density="Al->Fe->Al : edens 1.0 2.0"))
  parse_props("p-fs-bad-key3", fs(density="->Fe : edens 1.0 2.0\n Al-> : edens 1 2"))
  parse_props("p-fs-bad-syntax", fs(density="Al->Fe : >= edens 1.0 2.0"))
  parse_props("p-pair-bad-key", std().replace("Al-Cu =", "Al-Cu-Al ="))
  parse_props("p-pair-bad-syntax", std().replace("Al-Cu = as.buck", "Al-Cu = >= as.buck"))
  parse_props("p-no-density", std().replace("[EAM-Density]", "[Other-Section]"))
  parse_props("p-no-embed", std().replace("[EAM-Embed]", "[Other-Section]"))
  parse_props("p-spaces", std(e1="  Cu   :   fembed   1.1   0.002  ", d1="Cu :    edens 12.0    1.7  "))
  parse_props("p-modifier", std(d1="Cu : sum(edens 12.0 1.7, >1 as.constant 2.0)", e1="Cu : product(fembed 1.1 0.002, as.constant 2)"))

  digest = hashlib.sha256("\n".join(LINES).encode("utf-8")).hexdigest()
  if "-v" in sys.argv:
    for l in LINES:
      print(l)
  print("twin {} lines={} digest={}".format(TWIN, len(LINES), digest))


main()

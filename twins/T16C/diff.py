"""Differential script for twin C (table forms, table form builder and reference data).

Run with:  /venv/bin/python -W ignore /tmp/wtpy.py <worktree> _twins/diffC.py
"""
import hashlib
import io
import math

from atsim.potentials import tableforms
from atsim.potentials.tableforms import Cubic_Spline_Table_Form
from atsim.potentials.config import Configuration, ConfigParser
from atsim.potentials.config._common import TableFormTuple
from atsim.potentials.config._table_form_builder import Table_Form_Builder, Table_Form, Table_Form_Factory
from atsim.potentials.config._potential_form_registry import Potential_Form_Registry
from atsim.potentials.referencedata import Reference_Data, Unknown_Species_Exception, Unknown_Property_Exception, Reference_Data_Exception
from atsim.potentials.referencedata._data import reference_data

records = []


def rec(tag, value):
  records.append("{}::{!r}".format(tag, value))


def attempt(tag, func):
  try:
    rec(tag, func())
  except Exception as e:  # noqa
    rec(tag, "EXC " + type(e).__name__ + " " + str(e))


nan = float("nan")
inf = float("inf")

# ---------------------------------------------------------------- Cubic_Spline_Table_Form
datasets = {
  "foiles": ([0.0, 0.00728, 0.01455, 0.02910, 0.03347], [0.0, -3.2170, -4.6278, -2.7699, 0.0]),
  "line": ([0, 1, 2, 3], [2, 4, 6, 8]),
  "parabola": ([0.5 * i for i in range(12)], [(0.5 * i - 2.0) ** 2 for i in range(12)]),
  "wiggle": ([0.1 * i for i in range(40)], [math.sin(0.37 * i) * math.exp(-0.05 * i) for i in range(40)]),
  "negx": ([-3.0, -2.0, -0.5, 0.0, 1.0, 4.0], [1.0, 0.0, 2.0, -1.0, 3.0, 3.0]),
  "tuples": ((1.0, 2.0, 3.0, 4.0, 5.0), (5.0, 4.0, 3.0, 2.0, 1.0)),
  "three": ([0, 1, 2], [0, 1, 4]),
  "two": ([0, 1], [0, 1]),
  "empty": ([], []),
  "mismatch": ([0, 1, 2, 3], [0, 1, 2]),
  "unsorted": ([0, 2, 1, 3], [0, 1, 2, 3]),
  "dupx": ([0, 1, 1, 2, 3], [0, 1, 2, 3, 4]),
  "nany": ([0, 1, 2, 3], [0, nan, 2, 3]),
  "strings": (["a", "b", "c", "d"], [0, 1, 2, 3]),
  "none": (None, None),
}

queries = [-10.0, -3.0, -1.0, -1e-9, 0.0, 0, 0.005, 0.00728, 0.02, 0.03347, 0.04, 0.5, 1, 1.0, 1.5, 2.25, 2.5, 3.0,
           3.0000001, 3.9, 4.0, 5.5, 100.0, inf, nan]


def public_state(obj):
  return sorted(n for n in dir(obj) if not n.startswith("_"))


for name, (x, y) in sorted(datasets.items()):
  def construct(x=x, y=y):
    tf = Cubic_Spline_Table_Form(x, y)
    interp = tf.interpolant
    return (type(tf).__name__, tf.config_label, tf.is_potential, public_state(tf), type(interp).__name__,
            interp is tf.interpolant, [float(v) for v in interp.get_knots()], [float(v) for v in interp.get_coeffs()])
  attempt("spline-construct " + name, construct)
  try:
    tf = Cubic_Spline_Table_Form(x, y)
  except Exception:
    continue
  for q in queries:
    attempt("spline-call {} {!r}".format(name, q), lambda: (tf(q), type(tf(q)).__name__))
    attempt("spline-deriv {} {!r}".format(name, q), lambda: (tf.deriv(q), type(tf.deriv(q)).__name__))
    attempt("spline-deriv2 {} {!r}".format(name, q), lambda: (tf.deriv2(q), type(tf.deriv2(q)).__name__))
  attempt("spline-call-list " + name, lambda: tf([1.0, 2.0]))
  attempt("spline-call-one-list " + name, lambda: tf([1.0]))
  attempt("spline-call-str " + name, lambda: tf("1.0"))
  attempt("spline-deriv-none " + name, lambda: tf.deriv(None))

import inspect
from atsim.potentials.potentialforms import is_potential
rec("module-potentials", [n for n, o in inspect.getmembers(tableforms, is_potential)])

# ---------------------------------------------------------------- Table_Form_Builder
tfb = Table_Form_Builder()
attempt("builder-lookup", lambda: tfb._config_name_to_class("cubic_spline").__name__)
attempt("builder-lookup-bad", lambda: tfb._config_name_to_class("linear"))
attempt("builder-populate", lambda: sorted((k, v.__name__) for k, v in tfb._populate().items()))

for name, (x, y) in sorted(datasets.items()):
  for interpolation in ["cubic_spline", "linear", None, "Cubic_Spline", ""]:
    def run(name=name, x=x, y=y, interpolation=interpolation):
      tup = TableFormTuple(name, interpolation, x, y)
      pf = tfb.create_potential_form(tup)
      func = pf()
      out = [type(pf).__name__, pf.signature.label, pf.signature.parameter_names, pf.signature.is_varargs,
             pf.potential_definition.name if hasattr(pf.potential_definition, "name") else None,
             type(func).__name__, func is pf(), func is pf.potential_function._function if hasattr(pf.potential_function, "_function") else None,
             type(pf.potential_function).__name__]
      out.extend(func(q) for q in [0.0, 0.01, 0.5, 1.0, 2.5, 10.0])
      out.extend(func.deriv(q) for q in [0.0, 0.01, 0.5, 1.0, 2.5, 10.0])
      out.extend(func.deriv2(q) for q in [0.0, 0.01, 0.5, 1.0, 2.5, 10.0])
      try:
        pf(1.0)
      except Exception as e:
        out.append(("EXC", type(e).__name__, str(e)))
      return out
    attempt("builder-create {} {!r}".format(name, interpolation), run)

attempt("builder-create-none", lambda: tfb.create_potential_form(None))
attempt("builder-create-tuple", lambda: tfb.create_potential_form(("a", "cubic_spline", [0, 1, 2, 3], [0, 1, 2, 3])))
attempt("builder-unhashable", lambda: tfb.create_potential_form(TableFormTuple("u", ["cubic_spline"], [0, 1, 2, 3], [0, 1, 2, 3])))


class Key_Error_Form(object):
  """Table form class with a constructor that fails with a KeyError / ValueError depending on data"""
  config_label = "failing"
  is_potential = True

  def __init__(self, x, y):
    if len(x) == 1:
      raise KeyError("one")
    if len(x) == 2:
      raise ValueError("two")
    if len(x) == 3:
      raise TypeError("three")
    self.x = x

  def __call__(self, r):
    return r * len(self.x)


for n in range(1, 5):
  def run(n=n):
    tup = TableFormTuple("kf", "cubic_spline", list(range(n)), list(range(n)))
    tf = Table_Form(tup, Key_Error_Form)
    fact = Table_Form_Factory(tup, Key_Error_Form)
    return (tf()(2.0), fact()(2.0), fact.potential_function is fact(), tf.signature.parameter_names)
  attempt("table-form-direct {}".format(n), run)

# ---------------------------------------------------------------- through configuration files
cfg_registry = u"""
[Potential-Form]
test(r) = tabulated(r) + 5

[Table-Form:tabulated]
interpolation : cubic_spline
x : 0 1 2 3
y : 0 1 2 3

[Table-Form:other]
xy : 0.0      0.0
     0.01370 -2.9239
     0.02740 -4.2953
     0.05481 -2.8523
     0.06303 0.0
"""


def registry():
  pfr = Potential_Form_Registry(ConfigParser(io.StringIO(cfg_registry)), register_standard=False)
  return (pfr.registered, [pfr[n]()(q) for n in pfr.registered for q in [0.0, 0.02, 0.5, 1.0, 2.9, 3.5]])


attempt("registry", registry)

for bad_name, bad_cfg in sorted({
    "unknown-interp": u"[Table-Form:t]\ninterpolation : quintic\nx : 0 1 2 3\ny : 0 1 2 3\n",
    "short": u"[Table-Form:t]\ninterpolation : cubic_spline\nx : 0 1 2\ny : 0 1 2\n",
    "unsorted": u"[Table-Form:t]\ninterpolation : cubic_spline\nx : 0 2 1 3\ny : 0 1 2 3\n",
    "ok": u"[Table-Form:t]\nx : 0 1 2 3\ny : 0 1 2 3\n",
    }.items()):
  def run(bad_cfg=bad_cfg):
    pfr = Potential_Form_Registry(ConfigParser(io.StringIO(bad_cfg)), register_standard=False)
    return pfr.registered
  attempt("registry-bad " + bad_name, run)

cfg_pair = u"""[Tabulation]
target : {target}
nr : {nr}
cutoff : 6.0

[Pair]
Au-Au : sum(tab_pair, >=3 tab_tail)
Au-Ag : >0 as.buck 1000.0 0.3 10.0 >=2.0 tab_tail
Ag-Ag : shifted 0.5

[Potential-Form]
shifted(r, s) = tab_pair(r) + s

[Table-Form:tab_pair]
interpolation : cubic_spline
x : 0.0 1.0 2.0 3.0 4.0 5.0 6.0
y : 20.0 5.0 -1.0 -0.5 -0.1 -0.01 0.0

[Table-Form:tab_tail]
xy : 0 0
     2 -0.25
     3 -0.125
     4.5 -0.0625
     6 0
"""

for target, nr in [("LAMMPS", 61), ("DL_POLY", 60), ("GULP", 25)]:
  def run(target=target, nr=nr):
    tab = Configuration().read(io.StringIO(cfg_pair.format(target=target, nr=nr)))
    sio = io.StringIO()
    tab.write(sio)
    return sio.getvalue()
  attempt("config-pair " + target, run)

cfg_eam = u"""[Tabulation]
target : {target}
nr : 40
cutoff : 6.0
nrho : 30
cutoff_rho : 0.03

[Pair]
Au-Au : tab_pair
{extra_pair}

[EAM-Density]
Au : as.exp_spline 1.0 -1.0 0.1 -0.1 0.01 -0.001 0.0
{extra_density}

[EAM-Embed]
Au : foiles
{extra_embed}

[Table-Form:foiles]
interpolation : cubic_spline
x : 0.0 0.00728 0.01455 0.02910 0.03347
y : 0.0 -3.2170 -4.6278 -2.7699 0.0

[Table-Form:tab_pair]
x : 0.0 1.0 2.0 3.0 4.0 5.0 6.0
y : 20.0 5.0 -1.0 -0.5 -0.1 -0.01 0.0

{species}
"""

eam_variants = {
  "plain": dict(extra_pair="", extra_density="", extra_embed="", species=""),
  "override": dict(extra_pair="", extra_density="", extra_embed="",
                   species="[Species]\nAu.atomic_mass : 200.5\nAu.lattice_constant : 4.08\nAu.lattice_type : fcc\n"),
  "newspecies": dict(extra_pair="Au-Xx : tab_pair\nXx-Xx : as.zero", extra_density="Xx : as.zero", extra_embed="Xx : foiles",
                     species="[Species]\nXx.atomic_mass : 12.5\nXx.atomic_number : 150\n"),
  "newspecies-partial": dict(extra_pair="Au-Xx : tab_pair\nXx-Xx : as.zero", extra_density="Xx : as.zero", extra_embed="Xx : foiles",
                             species="[Species]\nXx.atomic_mass : 12.5\n"),
  "unknownspecies": dict(extra_pair="Au-Xx : tab_pair\nXx-Xx : as.zero", extra_density="Xx : as.zero", extra_embed="Xx : foiles", species=""),
  "two": dict(extra_pair="Au-Ag : tab_pair\nAg-Ag : as.zero", extra_density="Ag : as.zero", extra_embed="Ag : foiles",
              species="[Species]\nAg.atomic_number : 99\n"),
}

for target in ["setfl", "DL_POLY_EAM"]:
  for vname, variant in sorted(eam_variants.items()):
    def run(target=target, variant=variant):
      tab = Configuration().read(io.StringIO(cfg_eam.format(target=target, **variant)))
      sio = io.StringIO()
      tab.write(sio)
      eampots = [(p.species, p.atomicNumber, p.mass, p.latticeConstant, p.latticeType) for p in tab.eam_potentials]
      return (eampots, sio.getvalue())
    attempt("config-eam {} {}".format(target, vname), run)

# ---------------------------------------------------------------- Reference_Data
props = ["atomic_number", "atomic_mass", "covalent_radius", "lattice_constant", "lattice_type", "", None, "Atomic_Mass", 1]
species_list = sorted(reference_data.keys()) + ["Xx", "", "au", "AU", None, 1]

extras = {
  "default": None,
  "empty": {},
  "override": {"Gd": {"atomic_mass": 924.0}, "Au": {"lattice_constant": 4.08, "lattice_type": "fcc", "atomic_number": 179}},
  "new": {"Xx": {"atomic_mass": 1.5, "colour": "blue"}, "": {"atomic_mass": 0.0}, None: {"atomic_number": -1}},
  "emptyspecies": {"Xx": {}, "Au": {}},
  "pairs": {"Xx": [("atomic_mass", 2.5)], "Au": [("atomic_mass", 3.5)]},
  "noneval": {"Xx": {"atomic_mass": None}, "Au": {"atomic_mass": None, "covalent_radius": 0}},
  "badval": {"Xx": 5, "Au": 6},
}

for ename, extra in sorted(extras.items()):
  def make(extra=extra):
    if extra is None:
      return Reference_Data()
    return Reference_Data(extra)
  rd = make()
  rec("rd-extra " + ename, rd.extra_data)
  for sp in species_list:
    for prop in props:
      attempt("rd-get {} {!r} {!r}".format(ename, sp, prop), lambda: rd.get(sp, prop))
  # The object must not have modified its inputs or the built-in table
  rec("rd-extra-after " + ename, rd.extra_data)

rec("rd-builtin-after", sorted((k, tuple(v)) for k, v in reference_data.items()))
attempt("rd-unhashable-species", lambda: Reference_Data().get(["Au"], "atomic_mass"))
attempt("rd-unhashable-prop", lambda: Reference_Data().get("Au", ["atomic_mass"]))
attempt("rd-exc-hierarchy", lambda: (issubclass(Unknown_Species_Exception, Reference_Data_Exception),
                                     issubclass(Unknown_Property_Exception, Reference_Data_Exception)))


def exc_args(func):
  try:
    func()
  except Reference_Data_Exception as e:
    return (type(e).__name__, e.args)


attempt("rd-exc-args-species", lambda: exc_args(lambda: Reference_Data().get("Xx", "atomic_mass")))
attempt("rd-exc-args-prop", lambda: exc_args(lambda: Reference_Data().get("Au", "colour")))

h = hashlib.sha256()
for r in records:
  h.update(r.encode("utf-8"))
  h.update(b"\n")
print("records", len(records))
print("excs", sum(1 for r in records if "EXC" in r))
print("digest", h.hexdigest())

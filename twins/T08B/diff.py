"""Differential script for twin B (potable command line: _make_config_parser / _do_tabulation).

Drives potable.main() with many combinations of --override-item / --add-item / --remove-item
(single and repeated options, duplicates, override+remove of the same item, malformed items),
--include-species / --exclude-species, the three query options, a missing OUTPUT_FILE, and
also calls _make_config_parser() directly, recording the resulting parser's contents.
Exit codes, stdout, stderr, log records, exception types and output-file bytes are digested.
"""
import io
import os
import sys

sys.path.insert(0, os.path.dirname(os.path.abspath(__file__)))
import harness
from harness import res, run_cli, guarded, captured_logs, Digest

from atsim.potentials.tools import potable
from atsim.potentials.tools.potable import _query_actions

MORELON = res("docs", "user_guide", "example_files", "morelon.aspot")
STD_EAM = res("docs", "user_guide", "example_files", "standard_eam.aspot")
FS_EAM = res("docs", "user_guide", "example_files", "finnis_sinclair_eam.aspot")
TABLE_FORM = res("docs", "user_guide", "example_files", "basak_table_form.aspot")
CRG = res("tests", "lammps_resources", "CRG_U_Th.aspot")
BASAK = res("docs", "quick_start", "basak.aspot")

SMALL_CRG = ["-e", "Tabulation:nr=30", "Tabulation:dr=0.3", "Tabulation:nrho=20", "Tabulation:drho=0.5"]

VARS = u"""[Variables]
A_OO = 1633.0
rho = 0.327

[Tabulation]
target : GULP
cutoff : 5.0
nr : 11

[Pair]
O-O = as.buck ${A_OO} ${rho} 3.948787
U-O = as.buck 693.6 ${rho} 0.0

[Table-Form:tf]
interpolation : cubic_spline
x : 0 1 2 3 4
y : 4 3 2 1 0

[Orphan]
k = v
"""

CLI_CASES = [
  # plain tabulation
  ([MORELON], "o.lmptab", True),
  ([BASAK], "o.lmptab", True),
  # no output file
  ([MORELON], "o.lmptab", False),
  ([MORELON, "-e", "Tabulation:nr=bad"], "o.lmptab", False),
  # overrides
  ([MORELON, "-e", "Tabulation:nr=21"], "o.lmptab", True),
  ([MORELON, "-e", "Tabulation:nr=21", "Tabulation:cutoff=6.0"], "o.lmptab", True),
  ([MORELON, "-e", "Tabulation:nr=21", "-e", "Tabulation:cutoff=6.0"], "o.lmptab", True),
  ([MORELON, "-e", "Tabulation:nr=21", "-e", "Tabulation:nr=31"], "o.lmptab", True),
  ([MORELON, "-e", "Tabulation:nr=21", "Tabulation:nr=31", "Tabulation:cutoff=3", "Tabulation:nr=17"], "o.lmptab", True),
  ([MORELON, "--override-item", "Tabulation:target=GULP", "Tabulation:nr=16"], "o.gulp", True),
  ([MORELON, "-e", "Tabulation:target=DLPOLY", "Tabulation:nr=44"], "TABLE", True),
  ([MORELON, "-e", "Tabulation:target=DLPOLY", "Tabulation:nr=42"], "TABLE", True),
  ([MORELON, "-e", "Tabulation:target=nonsense"], "o", True),
  ([MORELON, "-e", "Pair:O-U=as.buck 1000.0 0.3 1.0=2", "Tabulation:nr=11"], "o.lmptab", True),
  ([MORELON, "-e", "Pair:Th-O=as.buck 1000.0 0.3 1.0"], "o.lmptab", True),        # override of missing item
  ([MORELON, "-e", "Nosection:nr=11"], "o.lmptab", True),
  ([MORELON, "-e"], "o.lmptab", True),
  ([MORELON, "-e", "-e", "Tabulation:nr=13"], "o.lmptab", True),
  # malformed overrides
  ([MORELON, "-e", "Tabulation:nr"], "o.lmptab", True),
  ([MORELON, "-e", "Tabulation=11"], "o.lmptab", True),
  ([MORELON, "-e", "nr"], "o.lmptab", True),
  ([MORELON, "-e", ""], "o.lmptab", True),
  ([MORELON, "-e", "=", "-r", "alsobad"], "o.lmptab", True),
  ([MORELON, "-e", "Tabulation:nr=11", "-r", "bad", "-a", "worse"], "o.lmptab", True),
  ([MORELON, "-e", "Tabulation:nr=11", "-a", "worse", "-r", "bad"], "o.lmptab", True),
  ([MORELON, "-a", "worse=1", "-e", "Tabulation=3"], "o.lmptab", True),
  ([MORELON, "-a", "Pair:X-Y"], "o.lmptab", True),
  # removal
  ([MORELON, "-r", "Tabulation:cutoff", "-e", "Tabulation:nr=11"], "o.lmptab", True),
  ([MORELON, "-r", "Tabulation:cutoff", "Tabulation:nr"], "o.lmptab", True),
  ([MORELON, "-r", "Pair:O-U", "-e", "Tabulation:nr=11"], "o.lmptab", True),
  ([MORELON, "-r", "Pair:O-U=1"], "o.lmptab", True),
  ([MORELON, "-r", "Pair:Zr-O"], "o.lmptab", True),
  ([MORELON, "-r", "Tabulation"], "o.lmptab", True),
  # override + remove of the same item (both orders on the command line)
  ([MORELON, "-e", "Tabulation:nr=11", "-r", "Tabulation:nr"], "o.lmptab", True),
  ([MORELON, "-r", "Tabulation:nr", "-e", "Tabulation:nr=11"], "o.lmptab", True),
  ([MORELON, "-e", "Tabulation:nr=11", "Tabulation:cutoff=4", "-r", "Tabulation:nr", "-l"], "o.lmptab", False),
  ([MORELON, "-e", "Tabulation:cutoff=4", "Tabulation:nr=11", "-r", "Tabulation:nr", "-r", "Tabulation:target", "-l"], "o.lmptab", False),
  # additions
  ([MORELON, "-a", "Pair:Zr-O=as.buck 985.869 0.376 0.0", "-e", "Tabulation:nr=11"], "o.lmptab", True),
  ([MORELON, "-a", "Pair:Zr-O=as.buck 985.869 0.376 0.0", "Pair:Zr-Zr=as.zero", "-a", "Pair:Y-O=as.bornmayer 10 0.3", "-e", "Tabulation:nr=11"], "o.lmptab", True),
  ([MORELON, "-a", "Pair:O-U=as.zero"], "o.lmptab", True),                            # add of existing item
  ([MORELON, "-a", "Pair:Zr-O=as.zero", "Pair:Zr-O=as.zero", "-l"], "o.lmptab", False),   # duplicate add
  ([MORELON, "-a", "Newsection:k=v", "-l"], "o.lmptab", False),
  ([MORELON, "-a", "Table-Form:tf:interpolation=cubic_spline", "Table-Form:tf:x=0 1 2 3", "Table-Form:tf:y=3 2 1 0", "Pair:Zr-O=tf", "-l"], "o.lmptab", False),
  ([MORELON, "-a", "Table-Form:tf:interpolation=cubic_spline", "Table-Form:tf:x=0 1 2 3 10", "Table-Form:tf:y=3 2 1 0 0", "Pair:Zr-O=tf", "-e", "Tabulation:nr=11"], "o.lmptab", True),
  # species filters
  ([MORELON, "-e", "Tabulation:nr=11", "--include-species", "O"], "o.lmptab", True),
  ([MORELON, "-e", "Tabulation:nr=11", "--include-species", "O", "U"], "o.lmptab", True),
  ([MORELON, "-e", "Tabulation:nr=11", "--include-species", "U", "O"], "o.lmptab", True),
  ([MORELON, "-e", "Tabulation:nr=11", "--include-species"], "o.lmptab", True),
  ([MORELON, "-e", "Tabulation:nr=11", "--exclude-species"], "o.lmptab", True),
  ([MORELON, "-e", "Tabulation:nr=11", "--exclude-species", "U"], "o.lmptab", True),
  ([MORELON, "-e", "Tabulation:nr=11", "--exclude-species", "O"], "o.lmptab", True),
  ([MORELON, "-e", "Tabulation:nr=11", "--exclude-species", "O", "--include-species", "U"], "o.lmptab", True),
  ([CRG] + SMALL_CRG, "o.eam", True),
  ([CRG] + SMALL_CRG + ["--include-species", "U", "O"], "o.eam", True),
  ([CRG] + SMALL_CRG + ["--include-species", "O", "Th"], "o.eam", True),
  ([CRG] + SMALL_CRG + ["--exclude-species", "Th"], "o.eam", True),
  ([CRG] + SMALL_CRG + ["--exclude-species", "Th", "U", "O"], "o.eam", True),
  ([CRG] + SMALL_CRG + ["--exclude-species", "Th", "-r", "Pair:U-U"], "o.eam", True),
  ([CRG] + SMALL_CRG + ["--exclude-species", "Th", "-e", "Tabulation:target=DL_POLY_EAM"], "TABEAM", True),
  ([FS_EAM, "--include-species", "B"], "o.eam", True),
  ([FS_EAM, "--exclude-species", "B"], "o.eam", True),
  ([STD_EAM, "--exclude-species", "A", "-e", "Tabulation:target=excel_eam"], "o.xlsx", True),
  # queries (with and without output file, and in combination with edits and filters)
  ([MORELON, "-l"], "o", False),
  ([MORELON, "-l"], "o", True),
  ([MORELON, "--list-items", "--exclude-species", "U"], "o", False),
  ([MORELON, "--list-item-labels"], "o", False),
  ([MORELON, "--list-item-labels", "-r", "Pair:O-O", "-a", "Pair:Zr-O=as.zero"], "o", False),
  ([MORELON, "--item-value", "Tabulation:nr"], "o", False),
  ([MORELON, "--item-value", "Tabulation:nr", "-e", "Tabulation:nr=77"], "o", True),
  ([MORELON, "--item-value", "Tabulation:nr", "-r", "Tabulation:nr"], "o", False),
  ([MORELON, "--item-value", "Tabulation:missing"], "o", False),
  ([MORELON, "--item-value", "Missing:nr"], "o", False),
  ([MORELON, "--item-value", "nocolon"], "o", False),
  ([MORELON, "--item-value", "Pair:O-O"], "o", False),
  ([MORELON, "--item-value", "Tabulation:nr", "-l"], "o", False),
  ([MORELON, "-l", "--list-item-labels"], "o", False),
  ([CRG, "-l"], "o", False),
  ([CRG, "--list-item-labels", "--include-species", "U"], "o", False),
  ([TABLE_FORM, "-l"], "o", False),
  ([TABLE_FORM, "--item-value", "Table-Form:tabulated:interpolation"], "o", False),
  ([TABLE_FORM, "-e", "Table-Form:tabulated:interpolation=cubic_spline", "--item-value", "Table-Form:tabulated:interpolation"], "o", False),
  (["vars.aspot", "-l"], "o", False),
  (["vars.aspot", "--list-item-labels"], "o", False),
  (["vars.aspot", "--item-value", "Variables:rho"], "o", False),
  (["vars.aspot", "--item-value", "Orphan:k"], "o", False),
  (["vars.aspot"], "o.gulp", True),
  (["vars.aspot", "-e", "Variables:rho=0.4"], "o.gulp", True),
  (["vars.aspot", "-a", "Variables:extra=0.4", "-l"], "o.gulp", False),
  (["vars.aspot", "-r", "Orphan:k", "-l"], "o.gulp", False),
  # nonexistent input file / no arguments
  ([res("does_not_exist.aspot")], "o", True),
  ([], "o", False),
]


def describe_parser(cp):
  """Observable content of the parser returned by _make_config_parser."""
  out = [type(cp).__name__]
  out.append(("items", guarded(_query_actions._list_items, cp)))
  for attr in ("pair", "eam_embed", "eam_density", "eam_density_fs"):
    out.append((attr, guarded(lambda: [tuple(p.species) if not isinstance(p.species, str) else p.species for p in getattr(cp, attr)])))
  out.append(("tabulation", guarded(lambda: (cp.tabulation.target, cp.tabulation.cutoff, cp.tabulation.nr, cp.tabulation.cutoff_rho, cp.tabulation.nrho))))
  return out


def make_parser(path, overrides, additional, remove, species, exclude_flag):
  with open(path) as fp:
    cp = potable._make_config_parser(fp, overrides, additional, remove, species, exclude_flag)
    return describe_parser(cp)


DIRECT_CASES = [
  (MORELON, None, None, None, None, False),
  (MORELON, [], [], [], None, False),
  (MORELON, [[]], [[]], [[]], None, True),
  (MORELON, [["Tabulation:nr=5"], ["Tabulation:cutoff=2", "Tabulation:nr=6"]], None, None, None, False),
  (MORELON, [["Tabulation:nr=5", "Tabulation:cutoff=2"]], None, [["Tabulation:nr"]], None, False),
  (MORELON, [["Tabulation:cutoff=2", "Tabulation:nr=5"]], [["Pair:A-B=as.zero"], ["Pair:C-D=as.zero", "Pair:A-A=as.zero"]], [["Pair:O-O"], ["Tabulation:target"]], None, False),
  (MORELON, [["bad"]], [["alsobad"]], [["worse"]], None, False),
  (MORELON, None, [["alsobad"]], [["worse"]], None, False),
  (MORELON, None, [["alsobad"]], None, None, False),
  (MORELON, None, [["Pair:A-B"]], None, None, False),
  (MORELON, None, None, [["Pair:O-O=value"]], None, False),
  (MORELON, None, None, [["Table-Form:x:y"]], None, False),
  (MORELON, None, None, None, ["O"], False),
  (MORELON, None, None, None, ["O"], True),
  (MORELON, None, None, None, [], False),
  (MORELON, None, None, None, [], True),
  (MORELON, None, None, None, ("O", "U"), False),
  (CRG, [["Tabulation:nr=5"]], None, [["Pair:U-U"]], ["Th"], True),
  (CRG, None, None, None, ["Th", "O"], False),
  (FS_EAM, None, None, None, ["A"], False),
  (FS_EAM, None, None, None, ["A"], True),
  # non-list containers / wrong types
  (MORELON, (("Tabulation:nr=5",),), (), None, None, False),
  (MORELON, 5, None, None, None, False),
  (MORELON, [5], None, None, None, False),
  (MORELON, [[5]], None, None, None, False),
  (MORELON, None, None, [[None]], None, False),
  (MORELON, ["Tabulation:nr=5"], None, None, None, False),   # string iterated character by character
]

TUPLE_CASES = [
  ("Tabulation:nr=5", True), ("Tabulation:nr=5", False), ("Tabulation:nr", True), ("Tabulation:nr", False),
  ("Table-Form:a:b=c=d:e", True), ("Table-Form:a:b=c=d:e", False), ("nr=5", True), ("nr=Tabulation:5", True), ("", True), ("", False),
  (":", False), (":=", True), ("=:", True), ("a:=", True), (":b=", True), ("::", False), (" a : b = c ", True),
]


def main():
  d = Digest()
  for argv, out_name, want_out in CLI_CASES:
    r = run_cli(argv, out_name=out_name, want_out=want_out, tmp_files={"vars.aspot": VARS})
    d.add("cli:" + repr(r["argv"]), sorted(r.items()))

  for case in DIRECT_CASES:
    with captured_logs() as logs:
      r = guarded(make_parser, *case)
    d.add("direct:" + repr((os.path.basename(case[0]),) + case[1:]), (r, logs))

  for key, has_value in TUPLE_CASES:
    d.add("tuple:" + repr((key, has_value)), guarded(potable._create_override_tuple, key, has_value))
  d.add("tuple-default", guarded(potable._create_override_tuple, "A:b=c"))
  d.add("tuple-kw", guarded(potable._create_override_tuple, key="A:b", has_value=False))

  d.finish()


if __name__ == "__main__":
  main()

"""Differential script for twin B (EAM_Potential_Builder / EAM_Potential_Builder_FS
read each view once and pass the species along).

Builds EAM potentials through the public classes EAM_Potential_Builder,
EAM_Potential_Builder_FS, Configuration and the tabulation factories, for
standard and Finnis-Sinclair models that are complete, under-specified (null
functions have to be added), mismatched (add_undefined=False must raise),
duplicated, empty, lacking reference data, and seen through FilteredConfigParser
instances with include / exclude lists.

Prints
  digest      - everything order-independent (deterministic for any PYTHONHASHSEED)
  digest-raw  - additionally the raw insertion order of the density dictionaries,
                which follows set iteration order and is therefore only comparable
                between runs that use the same fixed PYTHONHASHSEED."""
import hashlib
import io
import logging
import sys

from atsim.potentials.config import ConfigParser, FilteredConfigParser, Configuration
from atsim.potentials.config._potential_form_registry import Potential_Form_Registry
from atsim.potentials.config._modifier_registry import Modifier_Registry
from atsim.potentials.config._eam_potential_builder import EAM_Potential_Builder, EAM_Potential_Builder_FS
from atsim.potentials.config._tabulation_factories import TABULATION_FACTORIES
from atsim.potentials.referencedata import Reference_Data

try:
  from collections.abc import Mapping
except ImportError:
  from collections import Mapping

LOG = []


class _Collect(logging.Handler):
  def emit(self, record):
    LOG.append("%s|%s|%s" % (record.name, record.levelname, record.getMessage()))


root = logging.getLogger()
root.handlers[:] = [_Collect()]
root.setLevel(logging.DEBUG)

OUT = []
RAW = []


def emit(*args):
  OUT.append(" ".join(str(a) for a in args))


def emit_raw(*args):
  RAW.append(" ".join(str(a) for a in args))


HEAD = u"""[Tabulation]
target : {target}
cutoff_rho : 50.0
nrho : 25
cutoff : 6.0
nr : 30

[Potential-Form]
density(r, C) = r/(C^12)
"""

STD_BODIES = {
  "complete": u"""
[Pair]
Al-Al = as.buck 10.0 0.3 0.0
Cu-Al = as.buck 20.0 0.3 0.0
Cu-Cu = as.buck 30.0 0.3 0.0
[EAM-Embed]
Al : as.sqrt -1.0
Cu : as.sqrt -2.0
[EAM-Density]
Al : as.exponential 1.0 2.0
Cu : as.exponential 2.0 2.0
""",
  "reversed": u"""
[Pair]
Cu-Cu = as.buck 30.0 0.3 0.0
Cu-Al = as.buck 20.0 0.3 0.0
Al-Al = as.buck 10.0 0.3 0.0
[EAM-Density]
Cu : as.exponential 2.0 2.0
Al : as.exponential 1.0 2.0
[EAM-Embed]
Cu : as.sqrt -2.0
Al : as.sqrt -1.0
""",
  "under": u"""
[Pair]
O-O = as.buck 1.0 0.2 0.0
Mg-O = as.buck 3.0 0.2 0.75
Al-O = as.buck 15.0 0.2 0.0
Ga-O = as.buck 70.0 0.2 0.0
In-O = as.buck 36.0 0.20 0.0
[EAM-Density]
O : density 8.0
Zn : as.exponential 3.0 1.0
Al : as.exponential 2.0 1.5
Ag : as.exponential 3.0 1.0
[EAM-Embed]
Ga : as.sqrt -0.15449392139449653
In : as.sqrt -0.010691242237852016
Al : as.polynomial 0.0 1.0 2.0
""",
  "embed-only": u"""
[Pair]
Ga-Ga = as.buck 70.0 0.2 0.0
[EAM-Embed]
Ga : as.sqrt -0.15
In : as.sqrt -0.01
""",
  "density-only": u"""
[Pair]
O-O = as.buck 1.0 0.2 0.0
[EAM-Density]
O : density 8.0
Ni : as.exponential 1.0 1.0
Fe : as.exponential 1.0 1.0
""",
  "nothing": u"""
[Pair]
O-O = as.buck 1.0 0.2 0.0
""",
  "empty-sections": u"""
[EAM-Embed]
[EAM-Density]
[Pair]
""",
  "no-reference": u"""
[Pair]
Al-Al = as.buck 10.0 0.3 0.0
[EAM-Embed]
Al : as.sqrt -1.0
Qq : as.sqrt -2.0
[EAM-Density]
Al : as.exponential 1.0 2.0
Qq : as.exponential 2.0 2.0
""",
  "no-reference-null": u"""
[Pair]
Al-Al = as.buck 10.0 0.3 0.0
[EAM-Embed]
Al : as.sqrt -1.0
[EAM-Density]
Al : as.exponential 1.0 2.0
Zz1 : as.exponential 2.0 2.0
Aa1 : as.exponential 2.0 2.0
""",
  "species-section": u"""
[Species]
Qq.atomic_mass = 12.5
Qq.atomic_number = 140
Qq.lattice_type = bcc
Qq.lattice_constant = 3.25
Al.lattice_constant = 4.05
[Pair]
Al-Qq = as.buck 10.0 0.3 0.0
[EAM-Embed]
Qq : as.sqrt -2.0
[EAM-Density]
Al : as.exponential 1.0 2.0
""",
  "bad-form": u"""
[Pair]
Al-Al = as.buck 10.0 0.3 0.0
[EAM-Embed]
Al : as.nosuchform -1.0
[EAM-Density]
Al : as.exponential 1.0 2.0
""",
  "duplicate-embed": u"""
[Pair]
Al-Al = as.buck 10.0 0.3 0.0
[EAM-Embed]
Al : as.sqrt -1.0
al : as.sqrt -3.0
[EAM-Density]
Al : as.exponential 1.0 2.0
""",
  "fs-keys-in-standard": u"""
[Pair]
Al-Al = as.buck 10.0 0.3 0.0
[EAM-Embed]
Al : as.sqrt -1.0
[EAM-Density]
Al->Al : as.exponential 1.0 2.0
Al->Cu : as.exponential 1.0 2.0
""",
}

FS_BODIES = {
  "complete": u"""
[Pair]
Al-Al = as.buck 10.0 0.3 0.0
Al-Fe = as.buck 20.0 0.3 1.0
Fe-Fe = as.bornmayer 30.0 0.25
[EAM-Density]
Al->Al = as.exponential 1.0 2.0
Al->Fe = as.exponential 2.0 2.0
Fe->Al = as.exponential 3.0 1.0
Fe->Fe = as.exponential 4.0 1.0
[EAM-Embed]
Al : as.sqrt -1.0
Fe : as.sqrt -2.0
""",
  "under": u"""
[Pair]
Al-Al = as.buck 10.0 0.3 0.0
Al-Fe = as.buck 20.0 0.3 1.0
Fe-Fe = as.bornmayer 30.0 0.25
Cu-Fe = as.bornmayer 35.0 0.25
[EAM-Density]
Fe->Al = as.exponential 3.0 1.0
Al->Al = as.exponential 1.0 2.0
Cu->Fe = as.exponential 5.0 1.0
Al->Fe = as.exponential 2.0 2.0
Ag->Zn = density 5.0
[EAM-Embed]
Ni : as.sqrt -3.0
Al : as.sqrt -1.0
Fe : as.sqrt -2.0
""",
  "duplicate": u"""
[Pair]
Al-Al = as.buck 10.0 0.3 0.0
[EAM-Density]
Al->Al = as.exponential 1.0 2.0
Al -> Al = as.exponential 2.0 2.0
[EAM-Embed]
Al : as.sqrt -1.0
""",
  "embed-only": u"""
[Pair]
Al-Al = as.buck 10.0 0.3 0.0
[EAM-Embed]
Fe : as.sqrt -2.0
Al : as.sqrt -1.0
""",
  "density-only": u"""
[Pair]
Al-Al = as.buck 10.0 0.3 0.0
[EAM-Density]
Fe->Al = as.exponential 3.0 1.0
Cu->Ni = as.exponential 3.0 1.0
""",
  "standard-keys-in-fs": u"""
[Pair]
Al-Al = as.buck 10.0 0.3 0.0
[EAM-Density]
Al = as.exponential 3.0 1.0
[EAM-Embed]
Al : as.sqrt -1.0
""",
  "nothing": u"""
[Pair]
Al-Al = as.buck 10.0 0.3 0.0
""",
  "no-reference": u"""
[Pair]
Al-Al = as.buck 10.0 0.3 0.0
[EAM-Density]
Al->Qq = as.exponential 3.0 1.0
[EAM-Embed]
Al : as.sqrt -1.0
""",
}

FILTERS = [
  ("none", None),
  ("ex-empty", dict(exclude=[])),
  ("inc-empty", dict(include=[])),
  ("ex-Al", dict(exclude=["Al"])),
  ("ex-Fe-Cu", dict(exclude=("Fe", "Cu"))),
  ("ex-O-Ga", dict(exclude={"O", "Ga"})),
  ("ex-unknown", dict(exclude=["Xx"])),
  ("inc-Al", dict(include=["Al"])),
  ("inc-Al-Fe", dict(include=["Al", "Fe"])),
  ("inc-Al-Cu-Xx", dict(include=["Cu", "Al", "Xx"])),
  ("inc-many", dict(include=["O", "Al", "Ga", "Zn", "Ni", "Ag", "Qq", "Fe"])),
  ("inc-string", dict(include="AlFeO")),
]

RHOS = [0.0, 0.5, 1.0, 2.75, 10.0]
RS = [0.1, 0.5, 1.0, 2.5, 5.0]


class Recorder(object):
  """Duck typed parser that forwards to a real one and notes which attributes are used"""

  def __init__(self, cp):
    self._cp = cp
    self.used = set()

  def __getattr__(self, name):
    self.used.add(name)
    return getattr(self._cp, name)


def fn_values(f, xs):
  vals = []
  for x in xs:
    try:
      vals.append(repr(f(x)))
    except Exception as e:
      vals.append(type(e).__name__)
  return vals


def describe_potentials(tag, pots):
  emit(tag, "n", len(pots), "order", [p.species for p in pots])
  for p in pots:
    emit(tag, p.species, p.atomicNumber, repr(p.mass), repr(p.latticeConstant), p.latticeType)
    emit(tag, p.species, "embed", fn_values(p.embeddingFunction, RHOS))
    edf = p.electronDensityFunction
    if isinstance(edf, Mapping):
      emit(tag, p.species, "density-keys", sorted(edf.keys()))
      emit_raw(tag, p.species, "density-keys-raw", list(edf.keys()))
      for k in sorted(edf.keys()):
        emit(tag, p.species, "->", k, fn_values(edf[k], RS))
    else:
      emit(tag, p.species, "density", fn_values(edf, RS))
  # identity structure of the null functions (one shared zero per kind)
  ids = {}

  def ident(f):
    return ids.setdefault(id(f), len(ids))
  struct = []
  for p in pots:
    edf = p.electronDensityFunction
    if isinstance(edf, Mapping):
      struct.append((ident(p.embeddingFunction), [ident(edf[k]) for k in sorted(edf.keys())]))
    else:
      struct.append((ident(p.embeddingFunction), ident(edf)))
  emit(tag, "identity", struct)


def make_cp(cfg, filt, record=False):
  cp = ConfigParser(io.StringIO(cfg))
  if filt is not None:
    cp = FilteredConfigParser(cp, **filt)
  return cp


def check_builders():
  for kind, bodies, cls, target in (("std", STD_BODIES, EAM_Potential_Builder, "setfl"),
                                    ("fs", FS_BODIES, EAM_Potential_Builder_FS, "setfl_fs"),
                                    # each builder on the other kind of input as well
                                    ("std-on-fs", FS_BODIES, EAM_Potential_Builder, "setfl"),
                                    ("fs-on-std", STD_BODIES, EAM_Potential_Builder_FS, "setfl_fs")):
    for bodyname in sorted(bodies):
      cfg = HEAD.format(target=target) + bodies[bodyname]
      for filtname, filt in FILTERS:
        for add_undefined in (True, False, None):
          tag = "builder %s/%s/%s/%s" % (kind, bodyname, filtname, add_undefined)
          del LOG[:]
          try:
            cp = make_cp(cfg, filt)
            pfr = Potential_Form_Registry(cp, register_standard=True, register_pymath_functions=True)
            mr = Modifier_Registry()
            rec = Recorder(cp)
            if add_undefined is None:
              # defaults: reference data and add_undefined
              builder = cls(rec, pfr, mr)
            else:
              rd = Reference_Data(cp.species)
              builder = cls(rec, pfr, mr, rd, add_undefined)
            pots = builder.eam_potentials
            emit(tag, "OK", builder.add_undefined, pots is builder.eam_potentials, sorted(rec.used))
            describe_potentials(tag, pots)
          except Exception as e:
            emit(tag, "EXC", type(e).__name__, e)
          emit(tag, "LOG", len(LOG), hashlib.sha256("\n".join(LOG).encode("utf-8")).hexdigest())


def write_tabulation(tabulation):
  sio = io.StringIO()
  tabulation.write(sio)
  return sio.getvalue()


def check_tabulations():
  targets = [("setfl", STD_BODIES), ("DL_POLY_EAM", STD_BODIES),
             ("setfl_fs", FS_BODIES), ("DL_POLY_EAM_fs", FS_BODIES),
             ("setfl_fs", STD_BODIES), ("DL_POLY_EAM", FS_BODIES), ("eam_adp", STD_BODIES)]
  for target, bodies in targets:
    for bodyname in sorted(bodies):
      cfg = HEAD.format(target=target) + bodies[bodyname]
      for filtname, filt in FILTERS:
        tag = "tab %s/%s/%s" % (target, bodyname, filtname)
        del LOG[:]
        try:
          cp = make_cp(cfg, filt)
          tabulation = Configuration().read_from_parser(cp)
          text = write_tabulation(tabulation)
          emit(tag, "OK", type(tabulation).__name__, len(text), hashlib.sha256(text.encode("utf-8")).hexdigest())
          describe_potentials(tag, tabulation.eam_potentials)
        except Exception as e:
          emit(tag, "EXC", type(e).__name__, e)
        emit(tag, "LOG", len(LOG), hashlib.sha256("\n".join(LOG).encode("utf-8")).hexdigest())
  # the excel factories build the same EAM objects (not written: binary workbook)
  for target, bodies in (("excel_eam", STD_BODIES), ("excel_eam_fs", FS_BODIES)):
    for bodyname in sorted(bodies):
      cfg = HEAD.format(target=target) + bodies[bodyname]
      tag = "tab %s/%s" % (target, bodyname)
      del LOG[:]
      try:
        tabulation = TABULATION_FACTORIES[target].create_tabulation(ConfigParser(io.StringIO(cfg)))
        emit(tag, "OK", type(tabulation).__name__)
        describe_potentials(tag, tabulation.eam_potentials)
      except Exception as e:
        emit(tag, "EXC", type(e).__name__, e)
      emit(tag, "LOG", len(LOG), hashlib.sha256("\n".join(LOG).encode("utf-8")).hexdigest())


def check_shared_parser():
  """Several builders + filtered views fed from one parser object stay independent"""
  cfg = HEAD.format(target="setfl_fs") + FS_BODIES["under"]
  cp = ConfigParser(io.StringIO(cfg))
  pfr = Potential_Form_Registry(cp, register_standard=True, register_pymath_functions=True)
  mr = Modifier_Registry()
  views = [("plain", cp), ("noAl", FilteredConfigParser(cp, exclude=["Al"])),
           ("AlFe", FilteredConfigParser(cp, include=["Al", "Fe"])), ("plain-again", cp)]
  for rnd in range(2):
    for name, v in views:
      for cls in (EAM_Potential_Builder_FS, EAM_Potential_Builder):
        tag = "shared %d %s %s" % (rnd, name, cls.__name__)
        try:
          b = cls(v, pfr, mr, Reference_Data(cp.species))
          describe_potentials(tag, b.eam_potentials)
        except Exception as e:
          emit(tag, "EXC", type(e).__name__, e)
  emit("shared views", [repr(v.eam_density_fs) for _n, v in views], [repr(v.eam_embed) for _n, v in views])


def main():
  check_builders()
  check_tabulations()
  check_shared_parser()
  text = "\n".join(OUT)
  raw = "\n".join(OUT + RAW)
  if "--dump" in sys.argv:
    sys.stdout.write(raw + "\n")
  print("lines", len(OUT), len(RAW))
  print("digest", hashlib.sha256(text.encode("utf-8")).hexdigest())
  print("digest-raw", hashlib.sha256(raw.encode("utf-8")).hexdigest())


main()

"""Shared helpers for the differential scripts diffA.py / diffB.py / diffC.py.

Everything is exercised through the public API (tabulation classes, module
level write* functions, plot*, the potable CLI) and folded into one sha256.
"""
import hashlib
import io
import logging
import math
import os
import shutil
import sys
import tempfile
import zipfile

import atsim.potentials as ap
from atsim.potentials import Potential, EAMPotential
from atsim.potentials import potentialforms as pf
from atsim.potentials import pair_tabulation as pt
from atsim.potentials import eam_tabulation as et
from atsim.potentials.config import ConfigParser, Configuration
from atsim.potentials.config._common import ConfigurationException
from atsim.potentials.tools import potable


class Digest(object):
  def __init__(self):
    self._h = hashlib.sha256()
    self.n = 0
    self.verbose = "-v" in sys.argv

  def add(self, label, value):
    if isinstance(value, bytes):
      value = "bytes:" + hashlib.sha256(value).hexdigest() + ":%d" % len(value)
    elif not isinstance(value, str):
      value = repr(value)
    rec = "%s\x00%s\x01" % (label, value)
    self._h.update(rec.encode("utf-8"))
    self.n += 1
    if self.verbose:
      short = value if len(value) < 70 else (hashlib.sha256(value.encode("utf-8")).hexdigest()[:16] + " len=%d" % len(value))
      print("  %-50s %s" % (label, short.replace("\n", "\\n")))

  def hexdigest(self):
    return self._h.hexdigest()


class Rec(object):
  """File stand-in that ONLY supports write(); records every call."""

  def __init__(self):
    self.chunks = []

  def write(self, s):
    self.chunks.append(s)

  def summary(self):
    return (len(self.chunks), [len(c) for c in self.chunks][:6], "".join(self.chunks))


class Boom(Exception):
  pass


class FailAfter(object):
  """Callable that behaves like `func` for `n` calls and raises on call n+1."""

  def __init__(self, func, n, exc = Boom):
    self.func = func
    self.n = n
    self.calls = 0
    self.exc = exc

  def __call__(self, r):
    self.calls += 1
    if self.calls > self.n:
      raise self.exc("call %d" % self.calls)
    return self.func(r)


class Counting(object):
  """Callable recording the order in which it was evaluated (shared log)."""

  def __init__(self, name, func, log):
    self.name = name
    self.func = func
    self.log = log

  def __call__(self, r):
    self.log.append((self.name, repr(r)))
    return self.func(r)


SCRUB = []   # run-specific path prefixes removed from exception messages

def run(d, label, thunk, message = True):
  """Run thunk, record its result or the type/message of the exception."""
  try:
    res = thunk()
  except SystemExit as e:
    d.add(label, "SystemExit:%r" % (e.code,))
  except BaseException as e:
    msg = str(e) if message else ""
    for prefix in SCRUB:
      msg = msg.replace(prefix, "<SCRATCH>")
    d.add(label, "EXC:%s:%s" % (type(e).__name__, msg))
  else:
    d.add(label, res)


# --------------------------------------------------------------------------
# Models built through the library API

def morse_like(r):
  return 0.5 * (math.exp(-2.0 * 1.3 * (r - 2.1)) - 2.0 * math.exp(-1.3 * (r - 2.1)))

def born_mayer(A, rho):
  """Plain python A*exp(-r/rho) (finite at r == 0, unlike pf.bornmayer)."""
  def f(r):
    return A * math.exp(-r / rho)
  return f

def pair_sets(finite_at_zero = False):
  """name -> list of Potential objects (several orders / sizes).

  With finite_at_zero the functions can be evaluated at r == 0 (GULP, Excel and
  the EAM formats start their grids there); otherwise two of them raise
  ZeroDivisionError at r == 0."""
  buck_oo = pf.buck(1633.00510, 0.327022, 3.948790)
  buck_uo = pf.buck(693.648, 0.327022, 0.0)
  bm = pf.bornmayer(1200.0, 0.3)
  lj = pf.lj(0.0103, 3.4)
  if finite_at_zero:
    lj = pf.morse(1.7, 2.3, 0.4)
    buck_oo = born_mayer(1633.00510, 0.327022)
    buck_uo = pf.polynomial(3.0, -0.5, 0.01)
    bm = born_mayer(1200.0, 0.3)
  def soft(r):
    return 3.0 / (r + 0.25) ** 2 - 0.01 * r
  sets = {}
  sets["one"] = [Potential("O", "O", buck_oo)]
  sets["three"] = [Potential("U", "O", buck_uo), Potential("O", "O", buck_oo), Potential("Ar", "Ar", lj)]
  sets["three_rev"] = list(reversed(sets["three"]))
  sets["mixed"] = [Potential("Zr", "Al", soft), Potential("Al", "Al", morse_like), Potential("B", "Zr", bm)]
  sets["none"] = []
  sets["nan"] = [Potential("X", "Y", lambda r: float("nan")), Potential("Y", "Y", lambda r: float("inf"))]
  return sets

def eam_sets():
  """name -> (eampots, pairpots) for the single-density (alloy) writers."""
  def embed_a(rho):
    return -math.sqrt(rho)
  def embed_b(rho):
    return -0.5 * math.sqrt(rho) + 0.01 * rho * rho
  def dens_a(r):
    return 2.5 * math.exp(-1.1 * r)
  def dens_b(r):
    return (1.0 / (1.0 + r)) ** 3
  al = EAMPotential("Al", 13, 26.98, embed_a, dens_a, 4.05, "fcc")
  cu = EAMPotential("Cu", 29, 63.55, embed_b, dens_b, 3.615, "fcc")
  fe = EAMPotential("Fe", 26, 55.845, embed_a, dens_b, 2.86, "bcc")
  p_alal = Potential("Al", "Al", morse_like)
  p_alcu = Potential("Cu", "Al", born_mayer(900.0, 0.29))
  p_cucu = Potential("Cu", "Cu", pf.morse(1.5, 2.0, 0.3))
  p_fefe = Potential("Fe", "Fe", lambda r: 1.0 / (0.5 + r))
  sets = {}
  sets["Al"] = ([al], [p_alal])
  sets["AlCu"] = ([al, cu], [p_alal, p_alcu, p_cucu])
  sets["CuAl_missing"] = ([cu, al], [p_cucu])
  sets["AlCuFe"] = ([al, cu, fe], [p_fefe, p_alcu, p_alal])
  sets["empty"] = ([], [])
  return sets

def eam_fs_sets():
  def embed(rho):
    return -math.sqrt(rho)
  def d1(r):
    return math.exp(-r)
  def d2(r):
    return 0.3 * math.exp(-0.5 * r)
  def d3(r):
    return 1.0 / (1.0 + r * r)
  al = EAMPotential("Al", 13, 26.98, embed, {"Al": d1, "Fe": d2}, 4.05, "fcc")
  fe = EAMPotential("Fe", 26, 55.845, embed, {"Al": d3, "Fe": d1}, 2.86, "bcc")
  fe_bad = EAMPotential("Fe", 26, 55.845, embed, {"Fe": d1}, 2.86, "bcc")
  pairs = [Potential("Al", "Al", morse_like), Potential("Al", "Fe", born_mayer(700.0, 0.31))]
  sets = {}
  sets["AlFe"] = ([al, fe], pairs)
  sets["FeAl"] = ([fe, al], list(reversed(pairs)))
  sets["missing_density"] = ([al, fe_bad], pairs)
  return sets


# --------------------------------------------------------------------------
# Configuration files for the potable / action_tabulate path

PAIR_CFG = u"""[Tabulation]
target : {target}
cutoff : {cutoff}
nr : {nr}

[Pair]
O-O = as.buck 1633.0 0.327 3.95
U-O = as.buck 693.6 0.327 0.0
Mg-O = as.bornmayer 1200.0 0.3 >=2.0 as.zero
Al-Mg = as.polynomial 1.0 2.0 -0.5
"""

EAM_CFG = u"""[Tabulation]
target : {target}
cutoff : {cutoff}
nr : {nr}
cutoff_rho : 50.0
nrho : {nrho}

[Pair]
Al-Al = as.buck 1000.0 0.3 1.0
Cu-Al = as.bornmayer 800.0 0.29
Cu-Cu = as.lj 0.01 2.5

[EAM-Density]
Al : density 8.0
Cu : density 6.0

[EAM-Embed]
Al : as.sqrt -0.5
Cu : as.sqrt -0.25

[Potential-Form]
density(r, C) = C*exp(-r)
"""

EAM_FS_CFG = u"""[Tabulation]
target : {target}
cutoff : {cutoff}
nr : {nr}
cutoff_rho : 50.0
nrho : {nrho}

[Pair]
Al-Al = as.buck 1000.0 0.3 1.0
Fe-Al = as.bornmayer 800.0 0.29

[EAM-Density]
Al->Al : density 8.0
Al->Fe : density 7.0
Fe->Al : density 6.0
Fe->Fe : density 5.0

[EAM-Embed]
Al : as.sqrt -0.5
Fe : as.sqrt -0.25

[Potential-Form]
density(r, C) = C*exp(-r)
"""

ADP_CFG = u"""[Tabulation]
target : eam_adp
cutoff : {cutoff}
nr : {nr}
cutoff_rho : 50.0
nrho : {nrho}

[Pair]
Al-Al = as.buck 1000.0 0.3 1.0
Cu-Al = as.bornmayer 800.0 0.29
Cu-Cu = as.lj 0.01 2.5

[EAM-Density]
Al : density 8.0
Cu : density 6.0

[EAM-Embed]
Al : as.sqrt -0.5
Cu : as.sqrt -0.25

[EAM-ADP-Dipole]
Al-Cu : as.bornmayer 0.5 0.7
Cu-Cu : as.polynomial 0.0 0.1

[EAM-ADP-Quadrupole]
Al-Al : as.bornmayer 0.25 0.9

[Potential-Form]
density(r, C) = C*exp(-r)
"""

# Raises ZeroDivisionError part-way through tabulation (python float division)
FAIL_CFG = u"""[Tabulation]
target : {target}
cutoff : 6.0
nr : {nr}
cutoff_rho : 50.0
nrho : 21

[Pair]
O-O = as.buck 1633.0 0.327 3.95
U-O = boom 3.0

[EAM-Density]
O : as.exponential 1.0 -1.0
U : as.exponential 2.0 -1.0

[EAM-Embed]
O : as.sqrt -0.5
U : as.sqrt -0.25

[Potential-Form]
boom(r, r0) = pymath.fmod(1.0, floor(r0 - r) )
"""


def xlsx_summary(data):
  """Deterministic description of xlsx bytes (zip timestamps and core.xml
  carry the wall clock, everything else is hashed byte for byte)."""
  from openpyxl import load_workbook
  out = []
  zf = zipfile.ZipFile(io.BytesIO(data))
  for info in zf.infolist():
    if info.filename == "docProps/core.xml":
      out.append((info.filename, "skipped"))
    else:
      out.append((info.filename, hashlib.sha256(zf.read(info.filename)).hexdigest()))
  wb = load_workbook(io.BytesIO(data))
  for ws in wb.worksheets:
    cells = [[c.value for c in row] for row in ws.iter_rows()]
    out.append((ws.title, hashlib.sha256(repr(cells).encode("utf-8")).hexdigest(), len(cells)))
  return out


class ListHandler(logging.Handler):
  def __init__(self):
    logging.Handler.__init__(self)
    self.records = []

  def emit(self, record):
    self.records.append((record.name, record.levelname, record.getMessage(), repr(record.msg), repr(record.args)))


def run_potable(d, label, cfg_text, extra_args = (), outname = "out.tab", binary = False, preexisting = None):
  """Run the potable CLI in-process into a temp dir; digest the produced file
  (existence, bytes) and the log records emitted by action_tabulate."""
  tmpdir = tempfile.mkdtemp(prefix = "twin35_")
  handler = ListHandler()
  act_logger = logging.getLogger("atsim.potentials.tools.potable._actions")
  act_logger.addHandler(handler)
  old_level = act_logger.level
  act_logger.setLevel(logging.INFO)
  old_argv = sys.argv
  old_err = sys.stderr
  try:
    cfg_path = os.path.join(tmpdir, "model.aspot")
    with open(cfg_path, "w") as f:
      f.write(cfg_text)
    out_path = os.path.join(tmpdir, outname)
    if preexisting is not None:
      with open(out_path, "w") as f:
        f.write(preexisting)
    sys.argv = ["potable", cfg_path, out_path] + list(extra_args)
    sys.stderr = io.StringIO()
    try:
      potable.main()
    except SystemExit as e:
      d.add(label + ":exit", "SystemExit:%r" % (e.code,))
    except BaseException as e:
      d.add(label + ":exit", "EXC:%s:%s" % (type(e).__name__, e))
    else:
      d.add(label + ":exit", "returned")
    d.add(label + ":stderr", sys.stderr.getvalue().replace(tmpdir, "<TMP>"))
    d.add(label + ":listing", sorted(os.listdir(tmpdir)))
    if os.path.exists(out_path):
      with open(out_path, "rb") as f:
        data = f.read()
      if binary and data:
        d.add(label + ":xlsx", xlsx_summary(data))
      else:
        d.add(label + ":bytes", data)
        d.add(label + ":head", data[:60])
    else:
      d.add(label + ":bytes", "NOFILE")
    d.add(label + ":log", [tuple(x.replace(tmpdir, "<TMP>") for x in rec) for rec in handler.records])
  finally:
    sys.argv = old_argv
    sys.stderr = old_err
    act_logger.removeHandler(handler)
    act_logger.setLevel(old_level)
    shutil.rmtree(tmpdir, ignore_errors = True)


def tabulation_from_cfg(cfg_text):
  return Configuration().read(io.StringIO(cfg_text))

"""Differential script for twin B (Exp_Spline / Buck4_Spline coefficient set-up).

Prints a sha256 digest over repr() of every result / exception produced."""
import hashlib, io, math, sys

from atsim.potentials import potentialforms, plus
from atsim.potentials.spline import (Spline_Point, Exp_Spline, Buck4_Spline,
  Custom_SplinePotential, SplinePotential, Buck4_SplinePotential)
from atsim.potentials.config import Configuration

LOG = []

def rec(label, thunk):
  try:
    v = thunk()
    LOG.append("%s = %r" % (label, v))
  except Exception as e:
    LOG.append("%s ! %s: %s" % (label, type(e).__name__, e))

CALLS = []
def traced(name, f):
  """Wrap f so the order in which the spline machinery evaluates it is recorded"""
  def wrapper(r):
    CALLS.append((name, r))
    return f(r)
  return wrapper

def py_pos(r):
  return 3.0*math.exp(-r/0.4) + 0.25
def py_neg(r):
  return -2.0/(r+0.5)**3
def py_zero(r):
  return 0.0
def py_int(r):
  return 3
def py_cross(r):
  return 1.5 - r
def py_nan(r):
  return float("nan")
def py_str(r):
  return "x"

FUNCS = [
  ("zbl", potentialforms.zbl(14, 8)),
  ("buck", potentialforms.buck(18003.7572, 1.0/4.87318, 133.5381)),
  ("bks", plus(potentialforms.buck(18003.7572, 1.0/4.87318, 133.5381), potentialforms.coul(2.4, -1.2))),
  ("coulneg", potentialforms.coul(2.0, -2.0)),
  ("bm", potentialforms.bornmayer(1822.0, 0.3)),
  ("disp", potentialforms.buck(0.0, 1.0, 27.0)),
  ("lj", potentialforms.lj(0.01, 2.5)),
  ("morse", potentialforms.morse(1.8, 1.2, 0.6)),
  ("const", potentialforms.constant(-3.0)),
  ("zero", potentialforms.zero()),
  ("py_pos", py_pos), ("py_neg", py_neg), ("py_zero", py_zero), ("py_int", py_int),
  ("py_cross", py_cross), ("py_nan", py_nan), ("py_str", py_str),
]

RANGES = [(0.8, 1.4, 1.1), (0.5, 3.0, 2.0), (1.0, 1.0, 1.0), (2.0, 1.0, 1.5), (1, 2, 1.5),
          (0.0, 1.0, 0.5), (1.0, 2.5, 1.0), (1.0, 2.5, 3.0), (1e-3, 40.0, 7.0)]
GRID = [0.1, 0.79, 0.8, 1.0, 1.1, 1.5, 2.0, 2.9, 3.5, 39.0, float("nan"), float("inf")]

def spline_report(sp):
  res = [tuple(sp.spline_coefficients), type(sp.spline_coefficients).__name__,
         [type(c).__name__ for c in sp.spline_coefficients]]
  for r in GRID:
    for f in (sp, sp.deriv, sp.deriv2):
      try:
        res.append(f(r))
      except Exception as e:
        res.append(type(e).__name__)
  return res

for i,(na, fa) in enumerate(FUNCS):
  for j,(nb, fb) in enumerate(FUNCS):
    # Thin the cross product a bit, but deterministically.
    if (i*7 + j*3) % 4 not in (0, 1):
      continue
    for (lo, hi, mid) in RANGES:
      label = "%s|%s|%r|%r" % (na, nb, lo, hi)
      def mk_exp():
        del CALLS[:]
        sp = Exp_Spline(Spline_Point(traced("a", fa), lo), Spline_Point(traced("b", fb), hi))
        order = list(CALLS)
        return order, spline_report(sp)
      rec("exp "+label, mk_exp)
      def mk_b4():
        del CALLS[:]
        sp = Buck4_Spline(Spline_Point(traced("a", fa), lo), Spline_Point(traced("b", fb), hi), mid)
        order = list(CALLS)
        extra = (sp.r_min, sp.spline5.args, sp.spline3.args, sp.spline5 is sp._which_spline(lo), sp.detach_point.r, sp.attach_point.r)
        return order, extra, spline_report(sp)
      rec("b4 %s|%r " % (label, mid), mk_b4)

# Bad constructor arguments
rec("exp none", lambda: Exp_Spline(None, None))
rec("b4 none", lambda: Buck4_Spline(None, None, 1.0))
rec("exp r=None", lambda: Exp_Spline(Spline_Point(py_pos, None), Spline_Point(py_pos, 2.0)))
rec("b4 r=str", lambda: Buck4_Spline(Spline_Point(py_pos, "1"), Spline_Point(py_pos, 2.0), 1.5))
rec("b4 rmin=None", lambda: Buck4_Spline(Spline_Point(py_pos, 1.0), Spline_Point(py_pos, 2.0), None))

# Convenience wrappers
rec("SplinePotential", lambda: SplinePotential(FUNCS[0][1], FUNCS[1][1], 0.8, 1.4).splineCoefficients)
rec("Buck4_SplinePotential", lambda: Buck4_SplinePotential(FUNCS[4][1], FUNCS[5][1], 1.2, 2.5, 2.0).splineCoefficients)

CFGS = {
"lammps_exp" : u"""[Tabulation]
target : LAMMPS
cutoff : 6.0
nr : 400

[Potential-Form]
bks(r, qi, qj, A, rho, C) = as.coul(r, qi,qj) + as.buck(r, A, rho, C)

[Pair]
Si-O = spline(as.zbl 14 8 >=0.8 exp_spline >=1.4 bks 2.4 -1.2 18003.7572 0.2052048149 133.5381)
O-O = spline(as.zbl 8 8 >=0.9 exp_spline >=1.9 as.buck 1388.7730 0.3623188 175.0)
Si-Si = spline(as.coul 1 -1 >=0.9 exp_spline >=1.9 as.coul 2 -2)
""",
"dlpoly_b4" : u"""[Tabulation]
target : DL_POLY
cutoff : 8.0
nr : 300

[Pair]
O-O = spline(as.bornmayer 11272.6 0.1363 >=1.2 buck4_spline 2.1 >=2.6 as.buck 0 1.0 134.0)
U-O = sum(as.constant 0.5, spline(>0 as.bornmayer 1000 0.3 >=1.0 exp_spline >=2.0 as.buck 0 1.0 20.0))
""",
"gulp_mixed" : u"""[Tabulation]
target : GULP
cutoff : 5.0
dr : 0.05

[Potential-Form]
pyf(r, a) = a * r^2 + 1

[Pair]
A-B = spline(pyf 2.0 >=1.0 exp_spline >=2.0 pyf 0.5)
B-B = spline(as.zbl 10 10 >=0.6 buck4_spline 1.0 >=1.5 pyf 0.1)
""",
"bad_equal" : u"""[Tabulation]
target : LAMMPS
cutoff : 5.0
nr : 10

[Pair]
A-B = spline(as.constant 1.0 >=1.0 buck4_spline 1.5 >=2.0 as.constant 1.0)
A-A = spline(as.zero >=1.0 exp_spline >=2.0 as.zero)
""",
}

for name in sorted(CFGS):
  def run(name = name):
    tab = Configuration().read(io.StringIO(CFGS[name]))
    out = io.StringIO()
    tab.write(out)
    return hashlib.sha256(out.getvalue().encode("utf8")).hexdigest(), len(out.getvalue())
  rec("cfg."+name, run)

text = "\n".join(LOG)
if "-v" in sys.argv:
  print(text)
print("records:", len(LOG))
print("sha256:", hashlib.sha256(text.encode("utf8")).hexdigest())

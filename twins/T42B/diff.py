"""Differential script for twin B: multi-range grammar and ConfigParser tree descent.

Feeds valid, malformed and randomly generated potential instance descriptions
through ConfigParser's public section properties (pair, eam_embed, eam_density,
eam_density_fs), through the grammar object used by it and through
Configuration.read()/write(). Prints a sha256 digest of everything seen."""
import hashlib
import io
import random
import sys

from atsim.potentials.config import ConfigParser, Configuration
from atsim.potentials.config._multi_range_parser import multi_range_parser

out = []

def emit(*args):
  out.append(" ".join(repr(a) for a in args))

def attempt(label, f):
  try:
    v = f()
    emit(label, "OK", v)
  except Exception as e:
    emit(label, "EXC", type(e).__name__, str(e))

def grammar_dump(expr):
  res = multi_range_parser.parseString(expr, parseAll = True)
  return (res.dump(), res.asList(), repr(res.asDict()))

def through_section(section, key, attr, expr):
  cfg = u"[%s]\n%s = %s\n" % (section, key, expr)
  cp = ConfigParser(io.StringIO(cfg))
  return getattr(cp, attr)

corpus = [
  # ... valid
  u"as.buck 1000.0 0.3 32.0",
  u"as.zero",
  u"potential 1 2 3",
  u"a.b.c.d 1.0",
  u">=0 as.buck 1000.0 0.3 32.0",
  u">0 as.buck 1000.0 0.3 32.0",
  u"> 0 as.buck 1000.0 0.3 32.0 >= 2.5 as.zero",
  u">=   1e-3 as.buck 1000.0 0.3 32.0 >2.5 as.zero >3 as.constant 1.0",
  u"as.zero >=1 as.buck 1000.0 0.3 32.0 >2 as.constant 3.0 >=2 as.constant 4.0",
  u"as.buck 1000.0 0.3 32.0 >=-1.5 as.zero",
  u"as.buck +1000.0 -0.3 3.2e1 >= +2 as.zero",
  u"sum(as.constant 1.0 >=1.0 as.constant 2.0, >1.5 as.constant 3.0)",
  u">=0 as.constant 2.0 >=1.0 sum(as.constant 1.0 >= 2.0 as.constant 0.5, >=1.5 as.constant 10.0) >= 3.0 as.zero",
  u"spline(as.zbl 14 8 >=0.8 exp_spline >=1.4 bks 2.4 -1.2 18003.7572 0.2052048149 133.5381)",
  u"sum( product(as.constant 1.0, as.constant 2.0), sum(as.zero, >=2 as.zero) >1 pow(as.constant 2, as.constant 3))",
  u">= 1 sum(as.zero) > 2 sum(as.zero, as.zero , as.zero)",
  u"trans(as.buck 1000 0.1 32, as.constant 1.0) >=4 as.zero",
  u"sum(sum(sum(sum(as.constant 1.0))))",
  u"mod.a(pot.b 1 2 3)",
  u"sum (as.zero)",
  u"sum( >1 as.zero )",
  u"x1_y.z2 1",
  u"as.buck 1000.0   0.3\t32.0",
  u"  as.buck 1 2 3  ",
  u"as.buck 1. 2. 3.",
  u"as.buck 1e3 2E-3 3e+3",
  # ... malformed
  u"",
  u"   ",
  u">",
  u">=",
  u">= 1",
  u">= foo",
  u">= 1 >= 2 as.zero",
  u"=> 1 as.zero",
  u"< 1 as.zero",
  u"== 1 as.zero",
  u"1.0 as.zero",
  u"1.0",
  u"as.zero >",
  u"as.zero >=",
  u"as.zero >= 1",
  u"as.zero >= 1 2",
  u"as.zero >= >= 1 as.zero",
  u"as.zero 1.0 foo",
  u"potential1 1.0 2.0 3.0 potential2 2.0",
  u"as.zero, as.zero",
  u"sum(",
  u"sum()",
  u"sum(as.zero",
  u"sum(as.zero,)",
  u"sum(,as.zero)",
  u"sum(as.zero,, as.zero)",
  u"sum(as.zero))",
  u"sum as.zero)",
  u"(as.zero)",
  u"sum(as.zero) 1.0",
  u"sum(as.zero) as.zero",
  u"sum(as.zero >= ) ",
  u"sum(>= as.zero)",
  u"sum(as.zero >=1)",
  u"as.zero >= 1 sum(",
  u"as. 1.0",
  u".as 1.0",
  u"as..buck 1.0",
  u"as.buck. 1.0",
  u"as.buck 1.0.0",
  u"as.buck 1e",
  u"as.buck 1,2,3",
  u"as.buck 0x10",
  u"as.buck nan",
  u"as.buck inf >= inf as.zero",
  u"as-buck 1 2",
  u"as.buck 1 2 ; 3",
  u"as.buck 1 2 # 3",
  u"$ as.buck",
  u"as.buck 1 > 2 > 3",
  u"as.buck >= 1e400 as.zero",
  u">=-0 as.zero > -0.0 as.zero",
]

# ... random token soup
rng = random.Random(987654321)
tokens = [u">", u">=", u"1.0", u"2", u"-3e5", u"+4.", u"as.buck", u"as.zero", u"sum", u"product", u"(", u")", u",", u"pot", u"a.b.c",
  u".", u"x1", u"+", u"=", u"<", u"1e", u"_u"]
for i in range(1500):
  n = rng.randint(1, 12)
  sep = rng.choice([u" ", u" ", u" ", u""])
  corpus.append(sep.join(rng.choice(tokens) for _ in range(n)))

# ... random well formed expressions
def gen_defn(depth):
  if depth < 3 and rng.random() < 0.3:
    nargs = rng.randint(1, 3)
    return u"%s(%s)" % (rng.choice([u"sum", u"product", u"spline", u"m.n"]), u", ".join(gen_multi(depth+1) for _ in range(nargs)))
  return u" ".join([rng.choice([u"as.buck", u"as.zero", u"p", u"q_1.r"])] + [rng.choice([u"1", u"2.5", u"-3e2", u"+7", u"0.0"]) for _ in range(rng.randint(0, 4))])

def gen_range():
  return u"%s%s%s" % (rng.choice([u">", u">="]), rng.choice([u"", u" "]), rng.choice([u"0", u"1.5", u"-2", u"3e0", u"10"]))

def gen_multi(depth):
  parts = []
  if rng.random() < 0.5:
    parts.append(gen_range())
  parts.append(gen_defn(depth))
  for _ in range(rng.randint(0, 3)):
    parts.append(gen_range())
    parts.append(gen_defn(depth))
  return u" ".join(parts)

for i in range(400):
  corpus.append(gen_multi(0))

emit("grammar-str", str(multi_range_parser), repr(multi_range_parser), multi_range_parser.resultsName)

for i, expr in enumerate(corpus):
  attempt(("grammar", i, expr), lambda: grammar_dump(expr))
  attempt(("pair", i, expr), lambda: through_section(u"Pair", u"A-B", "pair", expr))
  if i % 3 == 0:
    attempt(("embed", i, expr), lambda: through_section(u"EAM-Embed", u"Al", "eam_embed", expr))
    attempt(("density", i, expr), lambda: through_section(u"EAM-Density", u"Al", "eam_density", expr))
    attempt(("density_fs", i, expr), lambda: through_section(u"EAM-Density", u"Al->Cu", "eam_density_fs", expr))

# ... pair keys and multi-line sections
attempt("multi", lambda: ConfigParser(io.StringIO(u"""[Pair]
O-O = as.buck 1000.0 0.3 32.0
U-O : >=1 as.buck 2000.0 0.2 0.0 >3 sum(as.zero, as.constant 1)
Gd - O = as.zero
""")).pair)
attempt("badkey", lambda: ConfigParser(io.StringIO(u"[Pair]\nOO = as.zero\n")).pair)
attempt("badkey2", lambda: ConfigParser(io.StringIO(u"[Pair]\nO-O-O = as.zero\n")).pair)
attempt("nosection", lambda: ConfigParser(io.StringIO(u"[Tabulation]\ntarget: LAMMPS\n")).pair)
attempt("multiline-value", lambda: ConfigParser(io.StringIO(u"[Pair]\nO-O = as.buck 1000.0 0.3 32.0\n   >= 2.0 as.zero\n")).pair)

# ... whole models
models = {
"zbl_spline" : u"""[Tabulation]
target : LAMMPS
cutoff : 10.0
nr : 500

[Potential-Form]
bks(r, qi, qj, A, rho, C) = as.coul(r, qi,qj) + as.buck(r, A, rho, C)

[Pair]
Si-O = spline(as.zbl 14 8 >=0.8 exp_spline >=1.4 bks 2.4 -1.2 18003.7572 0.2052048149 133.5381)
O-O = >=0.5 bks -1.2 -1.2 1388.7730 0.3623188406 175.0 >= 8.0 as.zero
""",
"nested" : u"""[Tabulation]
target : DL_POLY
cutoff : 5.0
nr : 252

[Pair]
B-A = >=0 as.constant 2.0 >=1.0 sum(as.constant 1.0 >= 2.0 as.constant 0.5, >=1.5 as.constant 10.0) >= 3.0 as.zero
A-A = sum(as.buck 1000.0 0.3 32.0, sum(as.constant 1.0, >2 as.bornmayer 10 0.5)) >=4 as.zero
""",
"fs" : u"""[Tabulation]
target : setfl_fs
nr : 100
dr : 0.05
nrho : 100
drho : 0.05

[Pair]
Al-Al = as.buck 1000.0 0.3 32.0 >= 2.0 as.zero
Al-Cu = as.zero
Cu-Cu = >1 as.bornmayer 100.0 0.3

[EAM-Embed]
Al = as.sqrt -1.0 >=3.0 as.polynomial 0.0 -0.5
Cu = as.sqrt -2.0

[EAM-Density]
Al->Al = as.zero >=0.5 as.exponential 10.0 -2.0 >4 as.zero
Al->Cu = as.exponential 10.0 -2.0
Cu->Al = sum(as.exponential 10.0 -2.0, >1 as.constant 0.1)
Cu->Cu = as.exponential 1.0 -2.0
""",
"bad_nested" : u"""[Pair]
A-A = sum(as.buck 1000.0 0.3 32.0, sum(as.constant 1.0, >2 as.bornmayer 10 0.5) >=4 as.zero
""",
"unknown_modifier" : u"""[Pair]
A-A = nosuchmod(as.buck 1000.0 0.3 32.0)
""",
}
for label in sorted(models):
  def run():
    tab = Configuration().read(io.StringIO(models[label]))
    sio = io.StringIO()
    tab.write(sio)
    return (hashlib.sha256(sio.getvalue().encode("utf-8")).hexdigest(), len(sio.getvalue()))
  attempt(("model", label), run)

blob = "\n".join(out)
if len(sys.argv) > 1:
  with open(sys.argv[1], "w") as f:
    f.write(blob)
print("lines", len(out))
print("sha256", hashlib.sha256(blob.encode("utf-8")).hexdigest())

"""Differential script for twin C: DL_POLY TABEAM writers and Potential_Form_Builder.create_potential_function.

Run:  /venv/bin/python -W ignore /tmp/wtpy.py /tmp/wt_r6_3 _twins/diffC.py
"""
import io
import os
import sys

sys.path.insert(0, os.path.dirname(os.path.abspath(__file__)))
from _harness import *  # noqa

import atsim.potentials
from atsim.potentials import Potential, EAMPotential
from atsim.potentials import writeTABEAM, writeTABEAMFinnisSinclair
from atsim.potentials import eam_tabulation
from atsim.potentials import _dlpoly_writeTABEAM
from atsim.potentials.config import Configuration, ConfigParser
from atsim.potentials.config._potential_form_builder import Potential_Form_Builder
from atsim.potentials.config._potential_form_registry import Potential_Form_Registry
from atsim.potentials.config._modifier_registry import Modifier_Registry
from atsim.potentials.config._common import PotentialFormInstanceTuple, PotentialModifierTuple, MultiRangeDefinitionTuple

assert atsim.potentials.__file__.startswith("/tmp/wt_r6_3/"), atsim.potentials.__file__

log = Log()

FD = dict(buck=f_buck, morse=f_morse, poly=f_poly, neg=f_neg, tiny=f_tiny, zero=f_zero, negzero=f_negzero,
          big=f_big, nan=f_nan, int=f_int, str=f_str, sqrt=f_sqrt,
          pos=lambda r: 0.5 + r * r, tup=lambda r: (r,), none=lambda r: None, tup2=lambda r: (r, r))

ELEMENTS = [("Al", 13, 26.98, 4.05, "fcc"), ("Cu", 29, 63.55, 3.615, "fcc"), ("Fe", 26, 55.845, 2.855, "bcc"), ("Ag", 47, 107.8682, 4.09, "fcc")]


class Fail(object):
  def __init__(self, which=None, at=None, exc=ArithmeticError):
    self.which, self.at, self.exc = which, at, exc

  def args(self, label):
    if self.which == label:
      return dict(fail_at=self.at, exc=self.exc)
    return {}


def rec(label, fname, fail, **kw):
  kw.update(fail.args(label))
  return Recorder(log, label, FD[fname], **kw)


def mkmodel(species, embed, dens, pair, fs=False, fail=Fail(), skip_pairs=(), extra_pairs=()):
  eampots = []
  els = [ELEMENTS[i] for i in species]
  for n, (sp, z, m, a, lt) in enumerate(els):
    ef = rec("embed:" + sp, embed[n % len(embed)], fail)
    if fs:
      df = {}
      for k, (sp2, _, _, _, _) in enumerate(els):
        df[sp2] = rec("dens:%s->%s" % (sp, sp2), dens[(n + k) % len(dens)], fail)
    else:
      df = rec("dens:" + sp, dens[n % len(dens)], fail)
    eampots.append(EAMPotential(sp, z, m, ef, df, a, lt))
  pairpots = []
  c = 0
  for i in range(len(els)):
    for j in range(i, len(els)):
      a, b = els[i][0], els[j][0]
      if (a, b) in skip_pairs:
        continue
      if c % 2:
        a, b = b, a
      pairpots.append(Potential(a, b, rec("pair:%s-%s" % (a, b), pair[c % len(pair)], fail, with_deriv=bool(c % 2))))
      c += 1
  for a, b, fname in extra_pairs:
    pairpots.append(Potential(a, b, rec("pair+:%s-%s" % (a, b), fname, fail)))
  return eampots, pairpots


# every row length remainder (numpoints % 4 in 0..3), empty tables, one point tables
GRIDS = [(5, 0.1, 7, 0.3), (1, 0.5, 1, 0.25), (12, 0.01, 9, 0.5), (3, 2.0, 10, 0.05), (0, 0.1, 4, 0.3), (4, 0.1, 0, 0.3), (6, -0.5, 6, -0.25), (7, 1, 5, 1), (8, 0.25, 2, 1.5)]
case = 0

# 1. direct writer functions
for nrho, drho, nr, dr in GRIDS:
  for species in [(0,), (0, 1), (1, 0), (2, 0, 1), (3, 2, 1, 0), ()]:
    for fs in [False, True]:
      for kw in [{}, dict(title="A title"), dict(title="x" * 130)]:
        case += 1
        eampots, pairpots = mkmodel(species, ["poly", "sqrt", "neg"], ["morse", "tiny", "negzero"], ["buck", "zero", "big"], fs=fs,
                                    skip_pairs=[("Al", "Cu")] if case % 3 == 0 else (),
                                    extra_pairs=[("Cu", "Cu", "int"), ("Xx", "Al", "poly")] if case % 4 == 0 else ())
        sink = Sink(log, "out%d" % case)
        fn = writeTABEAMFinnisSinclair if fs else writeTABEAM
        run(log, "tabeam %r %r %r %r" % ((nrho, drho, nr, dr), species, fs, sorted(kw)),
            lambda: fn(nrho, drho, nr, dr, eampots, pairpots, out=sink, **kw))
        log.add("OUT", sink.getvalue())

# 2. tabulation objects
for cutoff, nr, cutoff_rho, nrho in [(6.0, 7, 50.0, 5), (2.5, 3, 1.0, 9), (4.0, 2, 3.0, 2), (4.0, 1, 3.0, 4), (4.0, 4, 3.0, 1), (9.0, 101, 20.0, 50)]:
  for species in [(0, 1), (1, 0), (2, 1, 0), (3,)]:
    for cls in ["TABEAM_EAMTabulation", "TABEAM_FinnisSinclair_EAMTabulation"]:
      case += 1
      eampots, pairpots = mkmodel(species, ["poly", "neg"], ["morse", "pos"], ["buck", "neg", "tiny"], fs=(cls != "TABEAM_EAMTabulation"))
      sink = Sink(log, "out%d" % case)
      def do():
        tab = getattr(eam_tabulation, cls)(pairpots, eampots, cutoff, nr, cutoff_rho, nrho)
        log.add("TABOBJ", tab.type, tab.target, repr(tab.dr), repr(tab.drho))
        return tab.write(sink)
      run(log, "tab %s %r %r" % (cls, species, (cutoff, nr, cutoff_rho, nrho)), do)
      log.add("OUT", sink.getvalue())

# 3. failing user functions and unformattable values
EXCS = [ArithmeticError, ValueError, StopIteration, KeyError, ZeroDivisionError, GeneratorExit, KeyboardInterrupt]
labels = ["embed:Al", "embed:Cu", "dens:Al", "dens:Cu", "dens:Al->Cu", "dens:Cu->Al", "dens:Cu->Cu", "dens:Al->Al", "pair:Al-Al", "pair:Cu-Al", "pair:Cu-Cu"]
n = 0
for lab in labels:
  for at in [1, 2, 4, 5, 6]:
    n += 1
    fail = Fail(lab, at, EXCS[n % len(EXCS)])
    for fs in [False, True]:
      case += 1
      sink = Sink(log, "out%d" % case)
      def do():
        eampots, pairpots = mkmodel((0, 1), ["poly", "neg"], ["morse", "pos"], ["buck", "neg", "pos"], fs=fs, fail=fail)
        fn = writeTABEAMFinnisSinclair if fs else writeTABEAM
        return fn(6, 0.5, 7, 0.75, eampots, pairpots, out=sink)
      run(log, "fail %s %s %d" % (fs, lab, at), do)
      log.add("OUT", sink.getvalue())

for bad in ["str", "none", "tup", "tup2", "nan", "int"]:
  for where in range(3):
    for fs in [False, True]:
      case += 1
      sink = Sink(log, "out%d" % case)
      names = [["poly"], ["morse"], ["pos"]]
      names[where] = [bad]
      def do():
        eampots, pairpots = mkmodel((1, 0), names[0], names[1], names[2], fs=fs)
        fn = writeTABEAMFinnisSinclair if fs else writeTABEAM
        return fn(6, 0.5, 7, 0.75, eampots, pairpots, out=sink)
      run(log, "fmt %s %s %d" % (fs, bad, where), do)
      log.add("OUT", sink.getvalue())

# 4. malformed arguments
BADGRIDS = [(3.0, 0.1, 3, 0.1), (3, 0.1, 3.0, 0.1), (3, "0.1", 3, 0.1), (3, 0.1, 3, None), (None, 0.1, 3, 0.1), (3, 0.1, "3", 0.1), (-2, 0.1, -3, 0.1), (True, 0.1, False, 0.1), (2, float("inf"), 2, float("nan")), (5, 0.1, 5, "x")]
for grid in BADGRIDS:
  for fs in [False, True]:
    case += 1
    sink = Sink(log, "out%d" % case)
    def do():
      eampots, pairpots = mkmodel((1, 0), ["poly"], ["morse"], ["pos"], fs=fs)
      fn = writeTABEAMFinnisSinclair if fs else writeTABEAM
      return fn(grid[0], grid[1], grid[2], grid[3], eampots, pairpots, out=sink)
    run(log, "badgrid %s %r" % (fs, grid), do)
    log.add("OUT", sink.getvalue())

def gen(xs):
  for x in xs:
    log.add("GEN", getattr(x, "species", None) or (x.speciesA, x.speciesB))
    yield x

class BadSink(Sink):
  def write(self, s):
    Sink.write(self, s)
    raise IOError("disk full")

for variant in ["missing", "missing_last", "swap_fs", "swap_conv", "unsortable", "tuple", "gen_pairs", "gen_eam", "dup_pairs", "dup_species", "title_none", "title_int", "badsink", "extra_density"]:
  for fs_default in [False, True]:
    case += 1
    sink = BadSink(log, "out%d" % case) if variant == "badsink" else Sink(log, "out%d" % case)
    def do():
      fs = fs_default
      if variant in ("missing", "missing_last", "extra_density"):
        fs = True
      usefs = fs
      if variant == "swap_fs":
        fs, usefs = False, True
      if variant == "swap_conv":
        fs, usefs = True, False
      eampots, pairpots = mkmodel((0, 1, 2), ["poly"], ["morse", "pos"], ["pos", "buck"], fs=fs)
      fn = writeTABEAMFinnisSinclair if usefs else writeTABEAM
      kw = {}
      if variant == "missing":
        del eampots[1].electronDensityFunction["Al"]
      elif variant == "missing_last":
        del eampots[2].electronDensityFunction["Fe"]
      elif variant == "extra_density":
        eampots[0].electronDensityFunction["Zz"] = rec("dens:extra", "poly", Fail())
      elif variant == "unsortable":
        eampots[1].species = None
      elif variant == "tuple":
        eampots, pairpots = tuple(eampots), tuple(pairpots)
      elif variant == "gen_pairs":
        pairpots = gen(pairpots)
      elif variant == "gen_eam":
        eampots = gen(eampots)
      elif variant == "dup_pairs":
        pairpots = pairpots + [Potential("Cu", "Al", rec("pair:dup", "neg", Fail())), Potential("Al", "Al", rec("pair:dup2", "poly", Fail()))]
      elif variant == "dup_species":
        eampots = eampots + [eampots[0]]
      elif variant == "title_none":
        kw["title"] = None
      elif variant == "title_int":
        kw["title"] = 12
      return fn(5, 0.5, 6, 0.75, eampots, pairpots, out=sink, **kw)
    run(log, "variant %s %s" % (variant, fs_default), do)
    log.add("OUT", sink.getvalue())

# 5. private helpers
for numpoints in range(0, 11):
  sink = Sink(log, "tf%d" % numpoints)
  run(log, "tabulateFunction %d" % numpoints, lambda: _dlpoly_writeTABEAM._tabulateFunction(sink, rec("tf", "poly", Fail()), numpoints, 0.3))
  log.add("OUT", sink.getvalue())
sink = Sink(log, "helpers")
eampots, pairpots = mkmodel((2, 0), ["poly"], ["morse"], ["pos", "buck", "neg"], skip_pairs=[("Fe", "Al")])
run(log, "writePairPotentials", lambda: _dlpoly_writeTABEAM._writePairPotentials(eampots, pairpots, 5, 0.4, sink))
run(log, "writePairPotential", lambda: _dlpoly_writeTABEAM._writePairPotential(pairpots[0], 6, 0.4, sink))
run(log, "writeEmbed", lambda: _dlpoly_writeTABEAM._writeEmbeddingFunction(eampots[0], 7, 0.4, sink))
run(log, "writeDens", lambda: _dlpoly_writeTABEAM._writeDensityFunction("A", "B", rec("x", "neg", Fail()), 3, 0.4, sink))
run(log, "writeDens1", lambda: _dlpoly_writeTABEAM._writeDensityFunction("A", None, rec("x", "neg", Fail()), 9, 0.4, sink))
log.add("OUT", sink.getvalue())

# 6. configuration layer: TABEAM targets, multi-range chains and modifiers go through Potential_Form_Builder
INIS = [u"""[Tabulation]
target : DL_POLY_EAM
cutoff_rho : 10.0
nrho : 6
cutoff : 5.0
nr : 7

[Pair]
O-O = as.buck 1.0 0.2 0.0 >=2.0 as.polynomial 0.1 0.2 >3.5 as.zero
Ga-O = >0.5 as.buck 70.0 0.2 0.0
In-O = sum(as.buck 36.0 0.20 0.0 >=1.0 as.zero, >=0.25 as.morse 1.0 2.0 0.3, as.constant 0.01)

[EAM-Density]
O : density 2.0
Ga : as.zero >=1 as.constant 2.0 >=2 as.constant 3.0 >=3 as.constant 4.0 >4 as.zero
In : as.exponential 1.5 -0.5

[EAM-Embed]
Ga : as.sqrt -0.15449392139449653
In : as.sqrt -0.010691242237852016 >=5.0 as.polynomial 0.0 0.1
O : as.zero

[Potential-Form]
density(r, C) = r/(C^12)
""", u"""[Tabulation]
target : DL_POLY_EAM_fs
nrho : 5
drho : 0.5
nr : 6
dr : 0.4

[Potential-Form]
dens4(r, A, B) : A * (B-r)^4

[EAM-Embed]
Al = as.sqrt -1.0
Fe = as.polynomial 0.0 1.0 0.5

[EAM-Density]
Al->Al = >=0 sum(>=0 dens4 0.1 2.5 >2.5 as.zero, >=0 dens4 0.2 2.0 >2.0 as.zero)
Fe->Fe = dens4 0.2 2.4 >2.4 as.zero
Fe->Al = as.exponential 0.3 -1.0
Al->Fe = as.zero

[Pair]
Al-Al = as.buck 1000.0 0.3 10.0
Fe-Al = as.morse 1.2 2.0 0.4 >=1.5 as.zero
""", u"""[Tabulation]
target : DL_POLY_EAM
cutoff_rho : 10.0
nrho : 6
cutoff : 5.0
nr : 7

[Pair]
O-O = as.buck 1.0 0.2 0.0 >=2.0 as.nosuchform 0.1 0.2 >3.5 as.zero

[EAM-Density]
O : as.zero

[EAM-Embed]
O : as.zero
""", u"""[Tabulation]
target : DL_POLY_EAM
cutoff_rho : 10.0
nrho : 6
cutoff : 5.0
nr : 7

[Pair]
O-O = as.buck 1.0 0.2 0.0 >=2.0 nomod(as.zero) >3.5 as.zero

[EAM-Density]
O : as.zero

[EAM-Embed]
O : as.zero
""", u"""[Tabulation]
target : DL_POLY_EAM
cutoff_rho : 10.0
nrho : 6
cutoff : 5.0
nr : 7

[Pair]
O-O = as.zero

[EAM-Density]
O : as.zero >=1.0 sum(as.constant 1.0, >=2.0 as.nosuchform 1.0)

[EAM-Embed]
O : as.buck 1.0
"""]
for i, ini in enumerate(INIS):
  def do():
    tab = Configuration().read(io.StringIO(ini))
    log.add("TAB", type(tab).__name__, tab.nr, repr(tab.cutoff), tab.nrho, repr(tab.cutoff_rho))
    sink = Sink(log, "ini%d" % i)
    tab.write(sink)
    return sink.getvalue()
  run(log, "ini %d" % i, do)

# 7. Potential_Form_Builder directly, with hand made chains of tuples
cp = ConfigParser(io.StringIO())
pfr = Potential_Form_Registry(cp, register_standard=True)
pfb = Potential_Form_Builder(pfr, Modifier_Registry())
MR = MultiRangeDefinitionTuple
PF = PotentialFormInstanceTuple
PM = PotentialModifierTuple
chain4 = PF("as.buck", [1000.0, 0.3, 32.0], None,
            PF("as.polynomial", [1.0, 2.0], MR(">=", 1.0),
               PF("as.constant", [3.0], MR(">", 2.0),
                  PF("as.zero", [], MR(">=", 3.0), None))))
CHAINS = [
  ("single", PF("as.buck", [1000.0, 0.3, 32.0], None, None)),
  ("start", PF("as.buck", [1000.0, 0.3, 32.0], MR(">", 1.0), None)),
  ("chain4", chain4),
  ("mod", PM("sum", [PF("as.constant", [1.0], None, None), chain4], MR(">=", 0.5), PF("as.constant", [7.0], MR(">", 2.5), None))),
  ("nested", PM("sum", [PM("product", [PF("as.constant", [2.0], None, None), PF("as.polynomial", [0.0, 1.0], None, None)], None, None), chain4], None, None)),
  ("unknown_first", PF("as.nope", [1.0], None, chain4)),
  ("unknown_second", PF("as.constant", [1.0], None, PF("as.nope", [1.0], MR(">", 1.0), None))),
  ("unknown_mod", PF("as.constant", [1.0], None, PM("nomod", [chain4], MR(">", 1.0), None))),
  ("badparams", PF("as.buck", [1.0], None, None)),
  ("badparams_second", PF("as.constant", [1.0], None, PF("as.buck", [1.0, 2.0, 3.0, 4.0], MR(">", 1.0), None))),
  ("none", None),
  ("nonext", ("as.buck", [1.0], None)),
  ("next_falsy", PF("as.constant", [1.0], None, ())),
  ("next_zero", PF("as.constant", [1.0], None, 0)),
  ("next_str", PF("as.constant", [1.0], None, "as.zero")),
  ("same_start", PF("as.constant", [1.0], MR(">", 1.0), PF("as.constant", [2.0], MR(">", 1.0), PF("as.constant", [3.0], MR(">=", 1.0), None)))),
]
for label, ch in CHAINS:
  def do():
    f = pfb.create_potential_function(ch)
    vals = []
    for r in [-1.0, 0.0, 0.5, 0.75, 1.0, 1.5, 2.0, 2.5, 2.75, 3.0, 10.0]:
      try:
        vals.append(repr(f(r)))
      except Exception as e:
        vals.append(type(e).__name__)
    d = getattr(f, "deriv", None)
    return (type(f).__name__, vals, d is not None and repr(d(1.25)))
  run(log, "chain %s" % label, do)

print("events", len(log.events))
print("digest", log.digest())

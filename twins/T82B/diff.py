"""Differential script for twin B (logging calls made lazy in atsim/potentials/config/_tabulation_factories.py,
_configuration.py, _modifier_registry.py and tools/potable/_actions.py).

Digest covers, for many configurations x tabulation targets x grids (including missing cutoffs, bad row
counts, unknown targets, custom factories): the bytes written by the tabulation, exception types and messages,
the INFO/WARNING/ERROR log messages (text after formatting, level) and the `potable` command line front-end
(exit status, files written, log text).  DEBUG records are reported separately and are not part of the digest
(the twin adds one DEBUG message).
"""
import glob
import hashlib
import io
import logging
import os
import shutil
import sys
import tempfile
import warnings

warnings.simplefilter("ignore")

H = hashlib.sha256()
LINES = []
def emit(*items):
  line = " ".join(str(i) for i in items)
  LINES.append(line)
  H.update(line.encode("utf-8") + b"\n")

from atsim.potentials.config import Configuration, ConfigParser, ConfigParserOverrideTuple, Modifier_Registry
from atsim.potentials.config import _tabulation_factories as tf
from atsim.potentials.config._common import ConfigurationException
from atsim.potentials.tools import potable

class Capture(logging.Handler):
  def __init__(self):
    logging.Handler.__init__(self)
    self.records = []
    self.debug_records = []
  def emit(self, record):
    item = (record.levelname, record.getMessage())
    if record.levelno >= logging.INFO:
      self.records.append(item)
    else:
      self.debug_records.append(item)
  def reset(self):
    del self.records[:]
    del self.debug_records[:]

capture = Capture()
root = logging.getLogger()
root.addHandler(capture)
NDEBUG = [0]

def logdigest(label):
  emit("log", label, len(capture.records), hashlib.sha256(repr(capture.records).encode("utf-8")).hexdigest())
  if "-vv" in sys.argv:
    for r in capture.records:
      emit("   ", r)
  NDEBUG[0] += len(capture.debug_records)

HERE = os.path.dirname(os.path.abspath(__file__))
TOP = os.path.dirname(HERE)
files = sorted(glob.glob(os.path.join(TOP, "tests", "*", "*.aspot")) +
               glob.glob(os.path.join(TOP, "tests", "config", "config_resources", "*.aspot")) +
               glob.glob(os.path.join(TOP, "docs", "user_guide", "example_files", "*.aspot")) +
               glob.glob(os.path.join(TOP, "docs", "quick_start", "*.aspot")))

PAIR_TARGETS = ["LAMMPS", "DLPOLY", "GULP", "nosuch", "lammps"]
EAM_TARGETS = ["setfl", "setfl_fs", "DL_POLY_EAM", "DL_POLY_EAM_fs", "eam_adp"]

def run(label, text, overrides=(), level=logging.INFO):
  capture.reset()
  root.setLevel(level)
  try:
    cp = ConfigParser(io.StringIO(text), overrides=list(overrides))
    tab = Configuration().read_from_parser(cp)
    out = io.StringIO()
    tab.write(out)
    data = out.getvalue()
    emit("tab", label, type(tab).__name__, len(data), hashlib.sha256(data.encode("utf-8")).hexdigest())
  except Exception as e:
    emit("tab", label, "EXC:" + type(e).__name__ + ":" + str(e))
  logdigest(label)

O = ConfigParserOverrideTuple
for f in files:
  text = open(f).read()
  rel = os.path.relpath(f, TOP)
  if "excel" in text:
    continue
  is_eam = "[EAM-Embed]" in text
  run(rel, text)
  run(rel + "@debug", text, level=logging.DEBUG)
  small = [O("Tabulation", "nr", "24"), O("Tabulation", "dr", None), O("Tabulation", "cutoff", "6.0")]
  if is_eam:
    small += [O("Tabulation", "nrho", "20"), O("Tabulation", "drho", None), O("Tabulation", "cutoff_rho", "10.0")]
  for target in (EAM_TARGETS if is_eam else PAIR_TARGETS):
    run(rel + "->" + target, text, [O("Tabulation", "target", target)] + small)
  # no target / no cutoffs at all: defaults and warnings
  drop = [O("Tabulation", k, None) for k in ("target", "nr", "dr", "cutoff", "nrho", "drho", "cutoff_rho")]
  if not is_eam:
    run(rel + "->defaults", text, drop)
    run(rel + "->dlpoly-bad-nr", text, [O("Tabulation", "target", "DLPOLY"), O("Tabulation", "nr", "43"), O("Tabulation", "dr", None), O("Tabulation", "cutoff", "6.0")])
    run(rel + "->dlpoly-nr4", text, [O("Tabulation", "target", "DLPOLY"), O("Tabulation", "nr", "4"), O("Tabulation", "dr", None), O("Tabulation", "cutoff", "6.0")])
    run(rel + "->lammps-nr2", text, [O("Tabulation", "target", "LAMMPS"), O("Tabulation", "nr", "2"), O("Tabulation", "dr", None), O("Tabulation", "cutoff", "6.0")])
  else:
    run(rel + "->eam-defaults", text, [O("Tabulation", k, None) for k in ("nr", "dr", "cutoff", "nrho", "drho", "cutoff_rho")] )

INLINE = [
u"[Pair]\nAr-Ar : as.lj 0.0103 3.4\nKr-Ar : as.morse 1.65 2.369 0.57\n",
u"[Tabulation]\ntarget : GULP\ncutoff : 3.5\nnr : 8\n[Pair]\n%-A : as.buck 1000.0 0.3 1.0\nB{}-A : as.zero\n",
u"[Tabulation]\ntarget : setfl\nnr : 10\nnrho : 12\ncutoff : 5\ncutoff_rho : 7.5\n[EAM-Embed]\nAg : as.sqrt -1.0\n[EAM-Density]\nAg : as.polynomial 0 1\n[Pair]\nAg-Ag : as.lj 1.0 2.0\n",
u"[Tabulation]\ntarget : setfl_fs\nnr : 10\nnrho : 12\ndr : 0.5\ndrho : 0.5\n[EAM-Embed]\nAl : as.sqrt -1.0\nFe : as.sqrt -2.0\n[EAM-Density]\nAl->Al : as.polynomial 0 1\nAl->Fe : as.polynomial 0 2\nFe->Al : as.polynomial 0 3\nFe->Fe : as.zero\n[Pair]\nAl-Fe : as.lj 1.0 2.0\n",
u"[Tabulation]\ntarget : DL_POLY_EAM\n[EAM-Embed]\nAg : as.sqrt -1.0\n[EAM-Density]\nAg : as.nosuch 0 1\n",
u"[Tabulation]\ntarget : \n[Pair]\nA-A : as.zero\n",
u"",
]
for i, txt in enumerate(INLINE):
  run("inline%d" % i, txt)
  run("inline%d@debug" % i, txt, level=logging.DEBUG)

# -- factories used directly, including a custom tabulation class that is not a class
class Recorder(object):
  def __init__(self):
    self.calls = []
  def __call__(self, *args):
    self.calls.append([type(a).__name__ if not isinstance(a, (int, float)) else repr(a) for a in args])
    return "made"

for level in (logging.INFO, logging.DEBUG):
  capture.reset()
  root.setLevel(level)
  rec = Recorder()
  fact = tf.PairTabulationFactory("custom-target", rec)
  cp = ConfigParser(io.StringIO(u"[Tabulation]\ncutoff : 2.5\n[Pair]\nA-B : as.constant 2.0\nC-D : as.zero\n"))
  emit("custom", repr(fact.create_tabulation(cp)), rec.calls, repr(fact.extract_cutoffs(cp)))
  logdigest("custom")
  for which, kwargs in ((2, {}), (3, {}), (3, dict(eam_builder_class=tf.EAM_Potential_Builder_FS))):
    capture.reset()
    rec = Recorder()
    fact = tf.EAMTabulationFactory("custom-eam", rec, **kwargs)
    cp = ConfigParser(io.StringIO(INLINE[which]))
    try:
      emit("custom-eam", which, repr(fact.create_tabulation(cp)), rec.calls, repr(fact.extract_cutoffs(cp)))
    except Exception as e:
      emit("custom-eam", which, "EXC:" + type(e).__name__ + ":" + str(e))
    logdigest("custom-eam")
  capture.reset()
  mr = Modifier_Registry()
  emit("modifiers", sorted(mr._modifiers))
  logdigest("modifiers")

emit("factories", sorted(tf.TABULATION_FACTORIES), [(k, type(v).__name__, v.tabulation_target, v.tabulation_type, v.tabulation_class.__name__) for k, v in sorted(tf.TABULATION_FACTORIES.items())])
emit("tuples", tf.RCutoffTuple._fields, tf.R_Rho_CutoffTuple._fields)

# -- potable front-end (in process; logging already configured by the capture handler)
tmpdir = tempfile.mkdtemp()
def cli(label, argv):
  capture.reset()
  root.setLevel(logging.INFO)
  old = sys.argv, sys.stdout, sys.stderr
  sys.stdout, sys.stderr = io.StringIO(), io.StringIO()
  outname = os.path.join(tmpdir, "out_%s.tab" % label)
  sys.argv = ["potable"] + [a.replace("@OUT@", outname) for a in argv]
  try:
    try:
      potable.main()
      status = "returned"
    except SystemExit as e:
      status = "exit:%r" % (e.code,)
    except Exception as e:
      status = "EXC:" + type(e).__name__ + ":" + str(e)
    so, se = sys.stdout.getvalue(), sys.stderr.getvalue()
  finally:
    sys.argv, sys.stdout, sys.stderr = old
  written = None
  if os.path.exists(outname):
    with open(outname, "rb") as fh:
      written = hashlib.sha256(fh.read()).hexdigest()
  emit("cli", label, status, hashlib.sha256(so.encode()).hexdigest(), hashlib.sha256(se.replace(tmpdir, "TMP").encode()).hexdigest(), written)
  capture.records[:] = [(l, m.replace(tmpdir, "TMP")) for (l, m) in capture.records]
  logdigest("cli-" + label)

basak = os.path.join(TOP, "docs", "quick_start", "basak.aspot")
setfl = os.path.join(TOP, "tests", "config", "config_resources", "setfl.aspot")
cli("basak", [basak, "@OUT@"])
cli("basak-lammps", [basak, "@OUT@", "-e", "Tabulation:target=LAMMPS", "Tabulation:nr=12"])
cli("basak-bad", [basak, "@OUT@", "-e", "Tabulation:target=WRONG"])
cli("basak-dl43", [basak, "@OUT@", "-e", "Tabulation:nr=43", "-r", "Tabulation:dr"])
cli("basak-noout", [basak])
cli("basak-list", [basak, "--list-items"])
cli("basak-include", [basak, "@OUT@", "--include-species", "O"])
cli("setfl-override-missing", [setfl, "@OUT@", "-e", "Tabulation:dr=0.5", "Tabulation:drho=0.5"])
cli("setfl-adp", [setfl, "@OUT@", "-e", "Tabulation:target=eam_adp", "Tabulation:nrho=20", "-a", "Tabulation:nr=15"])
cli("setfl-nr", [setfl, "@OUT@", "-a", "Tabulation:nr=15"])
shutil.rmtree(tmpdir)

if "-v" in sys.argv or "-vv" in sys.argv:
  print("\n".join(LINES))
print("lines", len(LINES), "debug-records(not in digest)", NDEBUG[0])
print("DIGEST", H.hexdigest())

"""Differential script for twin C (EAMPotential record type in atsim/potentials/_eam_potential.py).

Run with:  /venv/bin/python -W ignore /tmp/wtpy.py /tmp/wt_r6_2 _twins/diffC.py
Prints a per-section digest and a final sha256 over everything that was observed."""
import copy
import glob
import hashlib
import inspect
import io
import logging
import math
import os
import re
import sys
import tempfile

logging.disable(logging.CRITICAL)

import atsim.potentials as potentials
from atsim.potentials import EAMPotential, Potential
from atsim.potentials import eam_tabulation
from atsim.potentials.config import ConfigParser, Configuration, ConfigParserOverrideTuple

OUT = []

def emit(section, *items):
  OUT.append(section + " | " + " | ".join(str(i) for i in items))

def noaddr(s):
  return re.sub(r"0x[0-9a-fA-F]+", "<addr>", s)

def attempt(section, label, func):
  try:
    emit(section, label, "OK", noaddr(repr(func())))
  except BaseException as e:
    emit(section, label, "EXC", type(e).__name__, noaddr(str(e)))

def sha(s):
  if not isinstance(s, bytes):
    s = s.encode("utf-8")
  return hashlib.sha256(s).hexdigest()

# ------------------------------------------------------------------ functions used to build models
def embed_sqrt(rho):
  return -math.sqrt(rho)

def embed_poly(rho):
  return -1.5 * rho + 0.01 * rho * rho

def make_density(a, n):
  def density(r):
    if r == 0:
      return 0.0
    return a / r ** n
  return density

class Density_With_Deriv(object):
  def __init__(self, a): self.a = a
  def __call__(self, r): return self.a * math.exp(-r)
  def deriv(self, r): return -self.a * math.exp(-r)

def zero_wrap(func):
  def f(r):
    if r == 0:
      return 0.0
    return func(r)
  return f

FIELDS = ["species", "atomicNumber", "mass", "embeddingFunction", "electronDensityFunction", "latticeConstant", "latticeType"]

def describe(pot):
  return [(f, noaddr(repr(getattr(pot, f)))) for f in FIELDS]

def record_checks():
  S = "record"
  dens = make_density(2.0, 3)
  attempt(S, "positional", lambda: describe(EAMPotential("Ag", 47, 107.8682, embed_sqrt, dens)))
  attempt(S, "positional all", lambda: describe(EAMPotential("Ag", 47, 107.8682, embed_sqrt, dens, 4.09, "FCC")))
  attempt(S, "kw lattice", lambda: describe(EAMPotential("Al", 13, 26.98, embed_sqrt, dens, latticeConstant = 4.05, latticeType = "bcc")))
  attempt(S, "kw type only", lambda: describe(EAMPotential("Al", 13, 26.98, embed_sqrt, dens, latticeType = "hcp")))
  attempt(S, "all kw shuffled", lambda: describe(EAMPotential(latticeType = "sc", mass = 1.0, species = "H", electronDensityFunction = {"H": dens},
    embeddingFunction = embed_poly, atomicNumber = 1)))
  attempt(S, "odd values", lambda: describe(EAMPotential(None, "x", [1, 2], None, None, None, None)))
  attempt(S, "missing 2", lambda: EAMPotential("Ag", 47, 107.8682))
  attempt(S, "missing 1", lambda: EAMPotential("Ag", 47, 107.8682, embed_sqrt))
  attempt(S, "none", lambda: EAMPotential())
  attempt(S, "too many", lambda: EAMPotential("Ag", 47, 107.8682, embed_sqrt, dens, 4.09, "FCC", 1))
  attempt(S, "bad kw", lambda: EAMPotential("Ag", 47, 107.8682, embed_sqrt, dens, lattice = 2))
  attempt(S, "dup kw", lambda: EAMPotential("Ag", 47, 107.8682, embed_sqrt, dens, species = "Au"))

  pot = EAMPotential("Ag", 47, 107.8682, embed_sqrt, dens)
  other = EAMPotential("Ag", 47, 107.8682, embed_sqrt, dens)
  emit(S, "vars", list(vars(pot).keys()), noaddr(repr(sorted(vars(pot).items(), key = lambda kv: kv[0]))))
  emit(S, "eq", pot == other, pot != other, pot == pot, hash(pot) == hash(pot), hash(pot) == id(pot) >> 4 or hash(pot) == object.__hash__(pot),
    len({pot, other, pot}), {pot: 1, other: 2}[pot], pot in [other], [pot, other].index(other))
  emit(S, "repr", noaddr(repr(pot)), noaddr(str(pot)), noaddr("{}".format(pot)), noaddr("%s" % pot))
  emit(S, "class", EAMPotential.__name__, EAMPotential.__qualname__, EAMPotential.__module__, [c.__name__ for c in EAMPotential.__mro__],
    EAMPotential.__eq__ is object.__eq__, EAMPotential.__hash__ is object.__hash__, EAMPotential.__repr__ is object.__repr__,
    EAMPotential.__setattr__ is object.__setattr__)
  sig = inspect.signature(EAMPotential)
  emit(S, "signature", [(p.name, str(p.kind), p.default if p.default is not inspect.Parameter.empty else "<empty>") for p in sig.parameters.values()])
  emit(S, "methods", pot.embeddingValue(4.0), pot.electronDensity(2.0), EAMPotential.embeddingValue.__doc__ is not None, EAMPotential.electronDensity.__doc__ is not None)
  # the attributes are plain, writable instance attributes
  pot.embeddingFunction = embed_poly
  pot.species = "Au"
  pot.latticeType = "bcc"
  pot.mass += 1
  pot.extra = "allowed"
  emit(S, "mutated", describe(pot), pot.embeddingValue(4.0), pot.extra, list(vars(pot).keys()))
  del pot.extra
  attempt(S, "deleted extra", lambda: pot.extra)
  c = copy.copy(pot)
  dc = copy.deepcopy(pot)
  emit(S, "copy", c is pot, c == pot, describe(c), type(dc).__name__, dc.species, dc.mass, dc.embeddingFunction is embed_poly)
  fs = EAMPotential("Al", 13, 26.98, embed_sqrt, {"Al": dens, "Cu": make_density(1.0, 2)})
  emit(S, "fs mapping", sorted(fs.electronDensityFunction.keys()), fs.electronDensityFunction["Cu"](2.0))
  attempt(S, "fs electronDensity", lambda: fs.electronDensity(1.0))
  class Sub(EAMPotential):
    def __init__(self, species):
      super(Sub, self).__init__(species, 1, 2.0, embed_sqrt, dens, latticeType = "sub")
      self.tag = "t"
  sub = Sub("X")
  emit(S, "subclass", describe(sub), sub.tag, isinstance(sub, EAMPotential), sub.embeddingValue(9.0))

# ------------------------------------------------------------------ writers
def models():
  ag = [EAMPotential("Ag", 47, 107.8682, embed_sqrt, make_density(2.0, 3))]
  ag_pair = [Potential("Ag", "Ag", zero_wrap(potentials.buck(1000.0, 0.3, 3.0)))]

  alcu = [EAMPotential("Al", 13, 26.98, embed_sqrt, make_density(1.5, 4), latticeConstant = 4.05, latticeType = "FCC"),
          EAMPotential("Cu", 29, 63.55, embed_poly, Density_With_Deriv(3.0), 3.61)]
  alcu_pair = [Potential("Al", "Al", zero_wrap(potentials.buck(900.0, 0.31, 1.0))),
               Potential("Cu", "Al", zero_wrap(potentials.bornmayer(800.0, 0.29))),
               Potential("Cu", "Cu", zero_wrap(potentials.buck(700.0, 0.33, 2.0)))]
  cual = list(reversed(alcu))

  fs = [EAMPotential("Al", 13, 26.98, embed_sqrt, {"Al": make_density(1.5, 4), "Cu": make_density(0.5, 2)}, 4.05, "fcc"),
        EAMPotential("Cu", 29, 63.55, embed_poly, {"Cu": Density_With_Deriv(3.0), "Al": make_density(2.5, 3)}, latticeType = "bcc")]
  fs_missing = [EAMPotential("Al", 13, 26.98, embed_sqrt, {"Al": make_density(1.5, 4)}),
        EAMPotential("Cu", 29, 63.55, embed_poly, {"Cu": Density_With_Deriv(3.0), "Al": make_density(2.5, 3)})]
  return dict(ag = (ag, ag_pair), alcu = (alcu, alcu_pair), cual = (cual, alcu_pair), cual_revpairs = (cual, list(reversed(alcu_pair))),
    fs = (fs, alcu_pair), fs_rev = (list(reversed(fs)), alcu_pair), fs_missing = (fs_missing, alcu_pair), nopairs = (alcu, []), std_as_fs = (alcu, alcu_pair))

def writer_checks():
  S = "writers"
  ms = models()
  grids = [(20, 0.05, 20, 0.1), (7, 0.5, 33, 0.2)]
  for name in sorted(ms):
    eampots, pairpots = ms[name]
    for nrho, drho, nr, dr in grids:
      label = "%s %s" % (name, (nrho, drho, nr, dr))
      def funcfl():
        out = io.StringIO()
        potentials.writeFuncFL(nrho, drho, nr, dr, eampots, pairpots, out, "title " + name)
        return sha(out.getvalue())
      def setfl():
        out = io.StringIO()
        potentials.writeSetFL(nrho, drho, nr, dr, eampots, pairpots, out, ["a", "b", name])
        return sha(out.getvalue())
      def setfl_cutoff():
        out = io.StringIO()
        potentials.writeSetFL(nrho, drho, nr, dr, eampots, pairpots, out, cutoff = 1.25)
        return sha(out.getvalue())
      def setfl_fs():
        out = io.StringIO()
        potentials.writeSetFLFinnisSinclair(nrho, drho, nr, dr, eampots, pairpots, out, ["a", "b", name], 2.5)
        return sha(out.getvalue())
      def tabeam():
        out = io.StringIO()
        potentials.writeTABEAM(nrho, drho, nr, dr, eampots, pairpots, out, "title " + name)
        return sha(out.getvalue())
      def tabeam_fs():
        out = io.StringIO()
        potentials.writeTABEAMFinnisSinclair(nrho, drho, nr, dr, eampots, pairpots, out, "title " + name)
        return sha(out.getvalue())
      for fn in (funcfl, setfl, setfl_cutoff, setfl_fs, tabeam, tabeam_fs):
        attempt(S, label + " " + fn.__name__, fn)
      for cls in (eam_tabulation.SetFL_EAMTabulation, eam_tabulation.SetFL_FS_EAMTabulation, eam_tabulation.TABEAM_EAMTabulation,
                  eam_tabulation.TABEAM_FinnisSinclair_EAMTabulation):
        def tab():
          t = cls(pairpots, eampots, dr * (nr - 1), nr, drho * (nrho - 1), nrho)
          out = io.StringIO()
          t.write(out)
          return sha(out.getvalue())
        attempt(S, label + " " + cls.__name__, tab)
  # Mutating a potential after construction is reflected in what is written
  eampots, pairpots = ms["alcu"]
  eampots[0].embeddingFunction = embed_poly
  eampots[1].latticeType = "hcp"
  eampots[1].atomicNumber = 30
  def mutated():
    out = io.StringIO()
    potentials.writeSetFL(10, 0.1, 10, 0.1, eampots, pairpots, out, ["", "", ""])
    return (sha(out.getvalue()), out.getvalue().splitlines()[3:6])
  attempt(S, "mutated setfl", mutated)

# ------------------------------------------------------------------ configuration files
INLINE = {
"eam" : u"""[Tabulation]
target : setfl
nr : 30
dr : 0.1
nrho : 30
drho : 0.1

[EAM-Embed]
U : as.sqrt -1.806 >= 3.0 as.polynomial 0 1
O : as.sqrt -0.690

[EAM-Density]
U : as.exponential 3450.995 -2 >2 as.zero
O : >= 0.5 as.exponential 106.856 -3

[Pair]
O-O : as.buck 830.283 0.352856 3.884372
U-O : as.buck 448.779 0.387758 0.0 > 2.5 as.zero
U-U : as.buck 18600 0.2747 0.0
""",
"eam_unknown_species" : u"""[Tabulation]
target : setfl
nr : 30
dr : 0.1
nrho : 30
drho : 0.1

[EAM-Embed]
Xx : as.sqrt -0.5

[EAM-Density]
Xx : as.zero

[Pair]
Xx-Xx : as.buck 830.283 0.352856 3.884372
""",
"eam_fs" : u"""[Tabulation]
target : setfl_fs
nr : 20
dr : 0.1
nrho : 20
drho : 0.1

[EAM-Embed]
Al : as.sqrt -1.0
Fe : as.sqrt -2.0

[EAM-Density]
Al->Al : as.exponential 1.0 -2
Al->Fe : as.exponential 2.0 -2 >= 1.5 as.zero
Fe->Al : as.exponential 3.0 -2
Fe->Fe : as.exponential 4.0 -2

[Pair]
Al-Al : as.buck 830.283 0.352856 3.884372
Fe-Al : as.buck 448.779 0.387758 0.0
Fe-Fe : as.buck 18600 0.2747 0.0
""",
"missing_density" : u"""[Tabulation]
target : setfl
nr : 20
dr : 0.1
nrho : 20
drho : 0.1

[EAM-Embed]
Al : as.sqrt -1.0
Fe : as.sqrt -2.0

[EAM-Density]
Al : as.exponential 1.0 -2

[Pair]
Al-Al : as.buck 830.283 0.352856 3.884372
""",
}

def tabulate_cp(cp):
  tabulation = Configuration().read_from_parser(cp)
  pots = [(noaddr(repr([(f, getattr(p, f)) for f in ("species", "atomicNumber", "mass", "latticeConstant", "latticeType")])),
           type(p).__name__, sorted(vars(p).keys())) for p in tabulation.eam_potentials]
  d = tempfile.mkdtemp()
  out = os.path.join(d, "out.tab")
  with tabulation.open_fp(out) as outfile:
    tabulation.write(outfile)
  with open(out, "rb") as f:
    return (sha(f.read()), pots)

def config_checks():
  S = "config"
  for label in sorted(INLINE):
    for target in (None, "setfl", "setfl_fs", "DL_POLY_EAM", "DL_POLY_EAM_fs"):
      overrides = []
      if target:
        overrides = [ConfigParserOverrideTuple("Tabulation", "target", target)]
      attempt(S, "%s %s" % (label, target), lambda: tabulate_cp(ConfigParser(io.StringIO(INLINE[label]), overrides = overrides)))
  small = [ConfigParserOverrideTuple("Tabulation", "nr", "200"), ConfigParserOverrideTuple("Tabulation", "nrho", "200")]
  for fname in ["tests/lammps_resources/CRG_U_Th.aspot", "tests/lammps_resources/AlFe_setfl_fs.aspot", "tests/lammps_resources/Al_Cu_adp.aspot",
                "tests/config/config_resources/setfl.aspot", "docs/user_guide/example_files/standard_eam.aspot", "docs/user_guide/example_files/finnis_sinclair_eam.aspot",
                "docs/user_guide/example_files/Ag_sutton.aspot"]:
    def run():
      with open(fname) as infile:
        return tabulate_cp(ConfigParser(infile))
    attempt(S, fname, run)
    def run_small():
      with open(fname) as infile:
        return tabulate_cp(ConfigParser(infile, overrides = small))
    attempt(S, fname + " small", run_small)
    for species in (["O"], ["Al"], ["Cu", "Al"]):
      def run_filtered():
        from atsim.potentials.config import FilteredConfigParser
        with open(fname) as infile:
          return tabulate_cp(FilteredConfigParser(ConfigParser(infile, overrides = small), include = species))
      attempt(S, fname + " include %s" % species, run_filtered)

def main():
  record_checks()
  writer_checks()
  config_checks()
  sections = {}
  for line in OUT:
    sections.setdefault(line.split(" | ", 1)[0], hashlib.sha256()).update((line + "\n").encode("utf-8"))
  if "-v" in sys.argv:
    for line in OUT:
      print(line)
  for k in sorted(sections):
    print("section %-10s lines=%5d sha256=%s" % (k, sum(1 for l in OUT if l.startswith(k + " | ")), sections[k].hexdigest()))
  print("TOTAL sha256=%s" % hashlib.sha256("\n".join(OUT).encode("utf-8")).hexdigest())

main()

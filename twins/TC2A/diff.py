"""Differential script for twin A: [Tabulation] cutoff handling, _get_or_none,
[Table-Form] data guards in atsim/potentials/config/_config_parser.py."""
import hashlib, io, itertools
from atsim.potentials.config import ConfigParser, Configuration
from atsim.potentials.config._config_parser import _TableFormSection

out = []
def rec(label, fn):
  try:
    r = repr(fn())
  except Exception as e:
    r = "EXC %s.%s: %s" % (type(e).__module__, type(e).__name__, e)
  out.append("%s => %s" % (label, r))

def tab_props(txt):
  t = ConfigParser(io.StringIO(txt)).tabulation
  return (repr(t), t.target, t.cutoff, t.nr, t.cutoff_rho, t.nrho)

vals_nr = [None, "0", "1", "2", "3", "11", "-4", "1.5", "abc", ""]
vals_dr = [None, "0", "0.0", "0.1", "-0.1", "0.25", "x", "1e-3"]
vals_cut = [None, "0", "0.7", "10", "-2.0", "6.5", "zz", "1e1"]
for nr, dr, cut in itertools.product(vals_nr, vals_dr, vals_cut):
  for names in (("nr", "dr", "cutoff"), ("nrho", "drho", "cutoff_rho")):
    lines = ["[Tabulation]", "target : DL_POLY"]
    for n, v in zip(names, (nr, dr, cut)):
      if v is not None:
        lines.append("%s : %s" % (n, v))
    txt = "\n".join(lines) + "\n"
    rec("tab %r" % (lines[2:],), lambda: tab_props(txt))

for tgt in ["LAMMPS", "lammps_eam_alloy", "LAMMPS_eam_alloy", "DL_POLY", "DLPOLY", "setfl", "", "nonsense"]:
  rec("target %r" % tgt, lambda: tab_props("[Tabulation]\ntarget : %s\n" % tgt))
rec("no tabulation", lambda: tab_props("[Pair]\nA-B : as.born 1 2\n"))
rec("empty tabulation", lambda: tab_props("[Tabulation]\n"))
rec("both grids", lambda: tab_props("[Tabulation]\nnr:5\ndr:0.5\nnrho : 7\ncutoff_rho : 3.0\n"))
rec("variables", lambda: tab_props("[Variables]\nN=4\n[Tabulation]\nnr:${N}\ndr:${Variables:N}\n"))

# Table-Form data guards
bodies = {
  "x_y": "x : 0 1 2\ny : 3 4 5",
  "xy": "xy : 0 3 1 4 2 5",
  "xy_multiline": "xy : 0 3\n  1 4\n  2 5",
  "x_only": "x : 0 1 2",
  "y_only": "y : 0 1 2",
  "x_xy": "x : 0 1\nxy : 0 1 2 3",
  "y_xy": "y : 0 1\nxy : 0 1 2 3",
  "all": "x : 0 1\ny : 1 2\nxy : 0 1 2 3",
  "none": "interpolation : cubic_spline",
  "bad_x": "x : 0 a 2\ny : 3 4 5",
  "bad_y": "x : 0 1 2\ny : 3 b 5",
  "bad_xy": "xy : 0 1 c 3",
  "odd_xy": "xy : 0 1 2",
  "len_mismatch": "x : 0 1 2\ny : 3 4",
  "empty_xy": "xy :",
  "empty_x_y": "x :\ny :",
  "interp": "interpolation : linear\nxy : 0 0 1 1",
}
for k, body in bodies.items():
  txt = "[Table-Form:tab_%s]\n%s\n" % (k, body)
  rec("tf " + k, lambda: ConfigParser(io.StringIO(txt)).table_form)

for name in ["Table-Form:a", "Table-Form: a ", "Table-Form", "Table-Forma:b", "xTable-Form:a", "Table-Form:", "Pair"]:
  rec("relevant %r" % name, lambda: _TableFormSection.is_relevant_section(name))

# End to end through Configuration
for tgt, extra in [("LAMMPS", "nr : 6\ncutoff : 5.0"), ("DLPOLY", "nr : 8\ndr : 0.5"), ("GULP", "cutoff : 2.0\ndr : 0.5"),
                   ("DLPOLY", "nr : 6\ncutoff : 5.0"), ("LAMMPS", "nr : 2\ncutoff : 1.0"), ("LAMMPS", "dr : 0.5")]:
  txt = "[Tabulation]\ntarget : %s\n%s\n[Pair]\nO-O : as.buck 1000.0 0.3 32.0\nMg-O : tf\n[Table-Form:tf]\nxy : 0 5 1 4 2 3 3 2 4 1 5 0 6 0\n" % (tgt, extra)
  def run():
    tab = Configuration().read(io.StringIO(txt))
    sio = io.StringIO()
    tab.write(sio)
    return hashlib.sha256(sio.getvalue().encode()).hexdigest()
  rec("e2e %s %r" % (tgt, extra), run)

blob = "\n".join(out)
print(len(out), "records")
print(hashlib.sha256(blob.encode()).hexdigest())

"""Part (b) helpers shared by diffA/B/C: demonstrate a new pair tabulation target
working and respecting the relevant properties.  Each diffX.py supplies
  TARGET   - the potable target name
  CLS_NAME - the tabulation class name in atsim.potentials.pair_tabulation
  parse    - function(text) -> list of (speciesA, speciesB, r[], energy[], force[] or None)
  tol      - absolute/relative tolerance implied by the printed precision (0 = exact)
"""
import hashlib
import io
import math
import os
import subprocess
import sys
import tempfile

from atsim.potentials import Potential, potentialforms, plus
from atsim.potentials import pair_tabulation
from atsim.potentials.config import Configuration, ConfigParser, FilteredConfigParser
from atsim.potentials.config._common import ConfigurationException
from atsim.potentials.config._config_parser import ConfigParserOverrideTuple as O

from _common_digest import PAIR_MODEL, ROOT

WTPY = ["/venv/bin/python", "-W", "ignore", "/tmp/wtpy.py", ROOT]
POTABLE = WTPY + [os.path.join(ROOT, "_twins", "_potable.py")]

def sha(text):
  if not isinstance(text, bytes):
    text = text.encode("utf-8")
  return hashlib.sha256(text).hexdigest()[:16]

def close(a, b, tol):
  if tol == 0:
    return a == b or (a != a and b != b)
  return abs(a - b) <= tol * max(1.0, abs(a), abs(b))

def build(target, nr, cutoff, model=PAIR_MODEL, extra=u""):
  cfg = u"[Tabulation]\ntarget : %s\n%s%s%s\n%s" % (
    target,
    u"" if nr is None else u"nr : %s\n" % nr,
    u"" if cutoff is None else u"cutoff : %r\n" % cutoff, extra, model)
  return Configuration().read(io.StringIO(cfg))

def text_of(tab):
  sio = io.StringIO()
  tab.write(sio)
  return sio.getvalue()

def check(cond, msg):
  if not cond:
    print("  FAILED: " + msg)
    check.failures += 1
check.failures = 0

def run_feature_checks(TARGET, CLS_NAME, parse, tol, has_force):
  cls = getattr(pair_tabulation, CLS_NAME)
  digest = hashlib.sha256()

  print("[b1] grid / faithfulness through potable input, several grids")
  for nr, cutoff in [(2, 3.0), (3, 1.0), (5, 2.0), (26, 5.0), (101, 6.5), (8, 0.7)]:
    tab = build(TARGET, nr, cutoff)
    check(type(tab) is cls and tab.target == TARGET and tab.type == "Pair", "class/target")
    text = text_of(tab)
    digest.update(text.encode("utf-8"))
    blocks = parse(text)
    check([(a, b) for a, b, _, _, _ in blocks] == [(p.speciesA, p.speciesB) for p in tab.potentials], "one block per potential in input order")
    for (a, b, rs, es, fs), pot in zip(blocks, tab.potentials):
      check(len(rs) == nr and len(es) == nr, "row count %d != nr %d" % (len(rs), nr))
      for i, r in enumerate(rs):
        rexp = float(i) * cutoff / (float(nr) - 1)
        check(close(r, rexp, tol), "r_%d %r != %r" % (i, r, rexp))
        check(close(es[i], pot.energy(rexp), tol), "energy %s-%s at %r: %r != %r" % (a, b, rexp, es[i], pot.energy(rexp)))
        if has_force:
          check(close(fs[i], pot.force(rexp), tol), "force %s-%s at %r" % (a, b, rexp))
      check(close(rs[-1], cutoff, tol), "last row at cutoff")
    print("   nr=%-4d cutoff=%-4r rows ok, sha=%s" % (nr, cutoff, sha(text)))

  if has_force:
    print("[b2] force column is minus the slope of the energy column's function (finite differences)")
    tab = build(TARGET, 41, 5.0)
    worst = 0.0
    for (a, b, rs, es, fs), pot in zip(parse(text_of(tab)), tab.potentials):
      for r, f in zip(rs, fs):
        # keep away from r=0, range boundaries / spline joins of PAIR_MODEL and table knots
        if r < 0.3 or any(abs(r - x) < 1e-3 for x in (0.1, 0.6, 1.0, 1.2, 2.5, 6.0)):
          continue
        h = 1e-5
        fd = -(pot.energy(r + h) - pot.energy(r - h)) / (2 * h)
        err = abs(fd - f) / max(1.0, abs(f))
        worst = max(worst, err)
        check(err < 1e-5, "force %s-%s at r=%r: table %r, finite difference %r" % (a, b, r, f, fd))
    print("   worst relative deviation from central difference: %.2e" % worst)

  print("[b3] Python API: callables with and without analytic derivatives")
  pots = [Potential("Xe", "B", lambda r: 3.0 * r * r - r),
          Potential("A", "B", potentialforms.morse(1.65, 2.369, 0.577)),
          Potential("A", "A", plus(potentialforms.morse(1.65, 2.369, 0.577), potentialforms.morse(0.5, 1.1, 2.0)))]
  tab = cls(pots, 4.0, 9)
  text = text_of(tab)
  digest.update(text.encode("utf-8"))
  blocks = parse(text)
  check(len(blocks) == 3, "three blocks")
  for (a, b, rs, es, fs), pot in zip(blocks, pots):
    check((a, b) == (pot.speciesA, pot.speciesB), "labels")
    check(len(rs) == 9, "rows")
    for i, r in enumerate(rs):
      rexp = i * 4.0 / 8
      check(close(r, rexp, tol) and close(es[i], pot.energy(rexp), tol), "api value")
      if has_force:
        check(close(fs[i], pot.force(rexp), tol), "api force")
  check(close(blocks[0][3][2], 3.0 * 1.0 - 1.0, tol), "3r^2-r at r=1")
  if has_force:
    check(abs(blocks[0][4][2] - (-(6.0 * 1.0 - 1.0))) < 1e-5, "force of 3r^2-r at r=1 is -5")
  print("   ok sha=%s" % sha(text))

  print("[b4] determinism: write twice, rebuild, interleave other models")
  tab = build(TARGET, 26, 5.0)
  t1 = text_of(tab)
  t2 = text_of(tab)
  build("LAMMPS", 11, 3.0)
  t3 = text_of(build(TARGET, 26, 5.0))
  [p.energy(1.234) for p in tab.potentials]
  t4 = text_of(tab)
  check(t1 == t2 == t3 == t4, "same bytes on every write/build")
  print("   sha=%s (x4 identical: %s)" % (sha(t1), t1 == t2 == t3 == t4))

  print("[b5] all-or-nothing: evaluation failing at the k-th call leaves fp untouched")
  class Boom(Exception):
    pass
  nr = 6
  for k in list(range(0, 3 * nr * (2 if has_force else 1), 1)):
    count = [0]
    def f(r, count=count, k=k):
      count[0] += 1
      if count[0] > k:
        raise Boom()
      return r
    f.deriv = lambda r: f(r) * 0 + 1.0
    plist = [Potential("A", "B", lambda r: 2 * r), Potential("C", "D", f), Potential("E", "F", lambda r: r)]
    sio = io.StringIO()
    try:
      cls(plist, 2.0, nr).write(sio)
      raised = False
    except Boom:
      raised = True
    if raised:
      check(sio.getvalue() == u"", "partial output after failure at evaluation %d: %r" % (k, sio.getvalue()[:40]))
    else:
      check(len(parse(sio.getvalue())) == 3, "complete output when nothing failed")
  print("   checked failure positions 0..%d" % k)

  print("[b6] configuration errors (type: message)")
  cases = [
    ("nr=1", dict(nr=1, cutoff=2.0)),
    ("nr=0", dict(nr=0, cutoff=2.0)),
    ("nr=-3", dict(nr=-3, cutoff=2.0)),
    ("nr=abc", dict(nr="abc", cutoff=2.0)),
    ("cutoff=0", dict(nr=5, cutoff=0.0)),
    ("nr,dr,cutoff", dict(nr=5, cutoff=2.0, extra=u"dr : 0.5\n")),
    ("dr only", dict(nr=None, cutoff=None, extra=u"dr : 0.5\n")),
    ("bad form", dict(nr=5, cutoff=2.0, model=u"[Pair]\nA-B : as.nothing 1\n")),
    ("duplicate pair", dict(nr=5, cutoff=2.0, model=u"[Pair]\nA-B : as.lj 1 2\nB-A : as.lj 1 2\n")),
  ]
  for label, kw in cases:
    try:
      build(TARGET, **kw)
      check(False, "%s accepted" % label)
    except ConfigurationException as e:
      print("   %-14s -> %s" % (label, type(e).__name__))
    except Exception as e:
      check(False, "%s gave %s %s" % (label, type(e).__name__, e))
  for bad_target in (TARGET.upper() if TARGET.upper() != TARGET else TARGET.lower(), TARGET + " x", TARGET + "_eam"):
    try:
      build(bad_target, 5, 2.0)
      check(False, "target %r accepted" % bad_target)
    except ConfigurationException as e:
      print("   target %-10r -> %s" % (bad_target, type(e).__name__))
  # every valid nr is accepted
  for nr in (2, 3, 4, 5, 7, 10):
    check(len(parse(text_of(build(TARGET, nr, 1.0)))[0][2]) == nr, "nr=%d accepted" % nr)

  print("[b7] nr/dr/cutoff combinations and defaults")
  for extra, nrexp, cutexp in [(u"dr : 0.1\ncutoff : 0.7\n", 8, 0.7), (u"dr : 0.25\nnr : 9\n", 9, 2.0), (u"cutoff : 1.0\n", 1001, 1.0), (u"nr : 11\n", 11, 10.0)]:
    tab = build(TARGET, None, None, extra=extra, model=u"[Pair]\nA-B : as.lj 1.0 2.0\n")
    rs = parse(text_of(tab))[0][2]
    check(tab.nr == nrexp and len(rs) == nrexp and close(rs[-1], cutexp, max(tol, 1e-12)), "grid for %r: nr=%r last=%r" % (extra, tab.nr, rs[-1]))
    print("   %-26r -> nr=%d cutoff=%r" % (extra, tab.nr, tab.cutoff))

  print("[b8] filters / overrides / variables equal the hand-edited file")
  base = u"[Tabulation]\ntarget : %s\nnr : 6\ncutoff : 2.5\n\n%s" % (TARGET, PAIR_MODEL)
  cp = FilteredConfigParser(ConfigParser(io.StringIO(base)), exclude=["Gd"])
  filtered = text_of(Configuration().read_from_parser(cp))
  hand = u"\n".join(l for l in base.split(u"\n") if not l.startswith(u"Gd-"))
  check(filtered == text_of(Configuration().read(io.StringIO(hand))), "exclude-species")
  viaov = text_of(Configuration().read_from_parser(ConfigParser(io.StringIO(base.replace(TARGET, "LAMMPS", 1)), overrides=[O("Tabulation", "target", TARGET)])))
  check(viaov == text_of(Configuration().read(io.StringIO(base))), "override target")
  var = base.replace(u"nr : 6", u"nr : ${N}") + u"\n[Variables]\nN : 6\nunused : 3\n"
  try:
    check(text_of(Configuration().read(io.StringIO(var))) == text_of(Configuration().read(io.StringIO(base))), "variables")
    print("   variables ok")
  except Exception as e:
    print("   variables: %s (same behaviour as existing targets: %s)" % (type(e).__name__, _same_as_gulp(var, TARGET)))
  print("   ok")

  print("[b9] potable command line, fresh processes with different PYTHONHASHSEED")
  tmpdir = tempfile.mkdtemp()
  infile = os.path.join(tmpdir, "in.aspot")
  with open(infile, "w") as fh:
    fh.write(base)
  shas = set()
  for seed in ("0", "1", "42", "31337"):
    out = os.path.join(tmpdir, "out_%s" % seed)
    env = dict(os.environ, PYTHONHASHSEED=seed)
    p = subprocess.run(POTABLE + [infile, out], env=env, stdout=subprocess.PIPE, stderr=subprocess.PIPE)
    check(p.returncode == 0, "potable exit %d: %s" % (p.returncode, p.stderr[-300:]))
    with open(out, "rb") as fh:
      data = fh.read()
    shas.add(sha(data))
  check(len(shas) == 1, "hash-seed dependent output %s" % shas)
  check(data.decode("utf-8") == text_of(Configuration().read(io.StringIO(base))), "CLI bytes equal API bytes")
  print("   seeds 0,1,42,31337 -> %s" % sorted(shas))
  # failing model through the CLI: output file empty, non-zero exit
  bad = os.path.join(tmpdir, "bad.aspot")
  with open(bad, "w") as fh:
    fh.write(u"[Tabulation]\ntarget : %s\nnr : 6\ncutoff : 2.5\n[Pair]\nA-B : as.lj 1.0 2.0\nC-D : boom 1.0\n[Potential-Form]\nboom(r, A) = if(r > 1.2, as.zbl(0*r, 1, 1), A)\n" % TARGET)
  out = os.path.join(tmpdir, "bad_out")
  p = subprocess.run(POTABLE + [bad, out], stdout=subprocess.PIPE, stderr=subprocess.PIPE)
  size = os.path.getsize(out) if os.path.exists(out) else -1
  print("   failing model: exit=%d output size=%d (%s)" % (p.returncode, size, p.stderr.decode().strip().split("\n")[-1][:70]))
  check(p.returncode != 0 and size <= 0, "failing model left %d bytes" % size)
  # configuration error through the CLI
  cfgerr = os.path.join(tmpdir, "cfgerr.aspot")
  with open(cfgerr, "w") as fh:
    fh.write(u"[Tabulation]\ntarget : %s\nnr : 1\ncutoff : 2.5\n[Pair]\nA-B : as.lj 1.0 2.0\n" % TARGET)
  p = subprocess.run(POTABLE + [cfgerr, os.path.join(tmpdir, "o2")], stdout=subprocess.PIPE, stderr=subprocess.PIPE)
  last = p.stderr.decode().strip().split("\n")[-1]
  check(p.returncode == 2 and "configuration error - " in last, "nr=1 via CLI: %d %s" % (p.returncode, last))
  print("   nr=1 via CLI: exit=%d, %s" % (p.returncode, last[:90]))

  print("NEW-FEATURE DIGEST %s  failures=%d" % (digest.hexdigest()[:32], check.failures))
  return check.failures

def _same_as_gulp(var, TARGET):
  try:
    Configuration().read(io.StringIO(var.replace(TARGET, "GULP", 1)))
    return False
  except Exception:
    return True

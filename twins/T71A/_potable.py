"""Runs the potable command line (atsim.potentials.tools.potable.main) - used through /tmp/wtpy.py"""
from atsim.potentials.tools.potable import main
main()

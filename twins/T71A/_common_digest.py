"""Part (a): deterministic digest of a broad sample of EXISTING behaviour.

Imported by diffA.py / diffB.py / diffC.py.  Nothing here touches the targets
added by the edits, so the digest must be identical on the clean and edited tree."""
import glob
import hashlib
import io
import os
import re
import logging
logging.disable(logging.CRITICAL)

from atsim.potentials import Potential, potentialforms, writePotentials, plus
from atsim.potentials import pair_tabulation
from atsim.potentials.config import Configuration, ConfigParser
from atsim.potentials.config._common import ConfigurationException

HERE = os.path.dirname(os.path.abspath(__file__))
ROOT = os.path.dirname(HERE)

PAIR_MODEL = u"""[Pair]
O-O : as.buck 1633.0 0.327 3.95
U-O : sum(as.buck 294.6 0.327 0.0, as.morse 1.65 2.369 0.577)
U-U : >=0.1 as.zbl 92 92 >1.0 as.bornmayer 100.0 0.3 >2.5 as.zero
Gd-O : spline(as.zbl 64 8 >0.6 exp_spline >1.2 as.buck 1000.0 0.3 10.0)
Gd-U : mine 3.0 2.0
Gd-Gd : tab

[Potential-Form]
mine(r, A, n) = A/r^n + as.bornmayer(r, 10.0, 0.5)

[Table-Form:tab]
interpolation : cubic_spline
x : 0.0 1.0 2.0 3.0 4.0 5.0 6.0
y : 9.0 4.0 2.0 1.0 0.5 0.1 0.0
"""

PAIR_TARGETS = [("LAMMPS", 26, 5.0), ("LAMMPS", 3, 1.0), ("DLPOLY", 24, 6.0), ("DL_POLY", 8, 2.5),
                ("GULP", 17, 4.0), ("GULP", 2, 3.0), ("excel", 6, 5.0)]

def _excel_text(tab):
  out = []
  for ws in tab.workbook.worksheets:
    out.append(ws.title)
    for row in ws.iter_rows(values_only=True):
      out.append(repr(row))
  return u"\n".join(out)

def _write(tab):
  if tab.target.startswith("excel"):
    return _excel_text(tab)
  sio = io.StringIO()
  tab.write(sio)
  return sio.getvalue()

def _run_cfg(text, **kwargs):
  try:
    cp = ConfigParser(io.StringIO(text), **kwargs)
    tab = Configuration().read_from_parser(cp)
    return u"OK\n" + _write(tab)
  except ConfigurationException as e:
    return u"CONFIGERR %s: %s" % (type(e).__name__, e)
  except Exception as e:
    return u"OTHERERR %s: %s" % (type(e).__name__, e)

def existing_behaviour_digest():
  h = hashlib.sha256()
  n = [0]
  def add(label, text):
    n[0] += 1
    h.update((u"%s\n%s\n" % (label, text)).encode("utf-8"))

  # potable route, every pre-existing pair target on several grids
  for target, nr, cutoff in PAIR_TARGETS:
    cfg = u"[Tabulation]\ntarget : %s\nnr : %d\ncutoff : %r\n\n%s" % (target, nr, cutoff, PAIR_MODEL)
    add("pair %s %d" % (target, nr), _run_cfg(cfg))
  # dr forms and defaults
  add("dr-cutoff", _run_cfg(u"[Tabulation]\ntarget : GULP\ndr : 0.1\ncutoff : 0.7\n[Pair]\nA-B : as.lj 1.0 2.0\n"))
  add("nr-dr", _run_cfg(u"[Tabulation]\ntarget : LAMMPS\ndr : 0.25\nnr : 9\n[Pair]\nA-B : as.lj 1.0 2.0\n"))
  add("no-target", _run_cfg(u"[Tabulation]\nnr : 5\ncutoff : 2.0\n[Pair]\nA-B : as.lj 1.0 2.0\n"))

  # error paths
  bad = [
    u"[Tabulation]\ntarget : nonsense\n[Pair]\nA-B : as.lj 1.0 2.0\n",
    u"[Tabulation]\ntarget : lammps\n[Pair]\nA-B : as.lj 1.0 2.0\n",
    u"[Tabulation]\ntarget : DLPOLY\nnr : 10\ncutoff : 2.0\n[Pair]\nA-B : as.lj 1.0 2.0\n",
    u"[Tabulation]\ntarget : DLPOLY\nnr : 4\ncutoff : 2.0\n[Pair]\nA-B : as.lj 1.0 2.0\n",
    u"[Tabulation]\ntarget : LAMMPS\nnr : 2\ncutoff : 2.0\n[Pair]\nA-B : as.lj 1.0 2.0\n",
    u"[Tabulation]\ntarget : GULP\nnr : 1\ncutoff : 2.0\n[Pair]\nA-B : as.lj 1.0 2.0\n",
    u"[Tabulation]\ntarget : GULP\nnr : 0\ncutoff : 2.0\n[Pair]\nA-B : as.lj 1.0 2.0\n",
    u"[Tabulation]\ntarget : GULP\nnr : 5\ndr : 0.1\ncutoff : 2.0\n[Pair]\nA-B : as.lj 1.0 2.0\n",
    u"[Tabulation]\ntarget : GULP\nnr : x\n[Pair]\nA-B : as.lj 1.0 2.0\n",
    u"[Tabulation]\ntarget : GULP\nnr : 5\ncutoff : -2.0\n[Pair]\nA-B : as.lj 1.0 2.0\n",
    u"[Tabulation]\ntarget : GULP\nnr : 5\n[Pair]\nA-B : as.nothing 1.0 2.0\n",
    u"[Tabulation]\ntarget : GULP\nnr : 5\n[Pair]\nA-B : as.lj 1.0\n",
    u"[Tabulation]\ntarget : GULP\nnr : 5\n[Pair]\nA-B : as.lj 1.0 2.0\nB-A : as.lj 1.0 2.0\n",
    u"[Tabulation]\ntarget : setfl\nnr : 5\n[Pair]\nA-B : as.lj 1.0 2.0\n",
  ]
  for i, cfg in enumerate(bad):
    add("bad %d" % i, _run_cfg(cfg))

  # overrides through ConfigParser
  from atsim.potentials.config._config_parser import ConfigParserOverrideTuple as O
  base = u"[Tabulation]\ntarget : LAMMPS\nnr : 6\ncutoff : 2.5\n\n" + PAIR_MODEL
  add("override target", _run_cfg(base, overrides=[O("Tabulation", "target", "GULP")]))
  add("override remove", _run_cfg(base, overrides=[O("Pair", "Gd-Gd", None)]))
  add("override missing", _run_cfg(base, overrides=[O("Tabulation", "nothere", "1")]))

  # every .aspot shipped with tests and docs (pair, EAM, FS, ADP ...), small grids
  files = sorted(glob.glob(os.path.join(ROOT, "tests", "*", "*.aspot"))
                 + glob.glob(os.path.join(ROOT, "tests", "config", "config_resources", "*.aspot"))
                 + glob.glob(os.path.join(ROOT, "docs", "*", "*.aspot"))
                 + glob.glob(os.path.join(ROOT, "docs", "*", "*", "*.aspot")))
  for f in files:
    with open(f) as infile:
      text = infile.read()
    ov = []
    for k, v in (("nr", "12"), ("nrho", "10")):
      if re.search(r"^\s*%s\s*[:=]" % k, text, re.M):
        ov.append(O("Tabulation", k, v))
    add("file " + os.path.relpath(f, ROOT), _run_cfg(text, overrides=ov))

  # Python API: tabulation classes and writePotentials
  pots = [Potential("O", "O", potentialforms.buck(1633.0, 0.327, 3.95)),
          Potential("U", "O", plus(potentialforms.buck(294.6, 0.327, 0.0), potentialforms.morse(1.65, 2.369, 0.577))),
          Potential("Xe", "B", lambda r: 3.0 * r * r - r)]
  # start away from r=0 is not possible through the classes, so use forms regular at 0
  pots0 = [Potential("A", "B", potentialforms.morse(1.65, 2.369, 0.577)),
           Potential("C", "A", lambda r: 3.0 * r * r - r)]
  for cls, nr in [(pair_tabulation.LAMMPS_PairTabulation, 11), (pair_tabulation.DLPoly_PairTabulation, 12),
                  (pair_tabulation.GULP_PairTabulation, 7), (pair_tabulation.Excel_PairTabulation, 5)]:
    tab = cls(pots0, 4.0, nr)
    add("api " + cls.__name__, "%s %s %r %r %r\n%s" % (tab.type, tab.target, tab.nr, tab.cutoff, tab.dr, _write(tab)))
    add("api again " + cls.__name__, _write(tab))
  sio = io.StringIO(); writePotentials("LAMMPS", pots, 5.0, 9, sio); add("wp lammps", sio.getvalue())
  for t in ["DL_POLY", "LAMMPS", "GULP"]:
    sio = io.StringIO(); writePotentials(t, pots0, 5.0, 8, sio); add("wp " + t, sio.getvalue())
  for t in ["json", "gnuplot", "markdown", "excel", "XX"]:
    try:
      writePotentials(t, pots0, 5.0, 8, io.StringIO()); add("wp " + t, "ok")
    except Exception as e:
      add("wp " + t, "%s %s" % (type(e).__name__, e))
  try:
    pair_tabulation.DLPoly_PairTabulation(pots0, 4.0, 10).write(io.StringIO()); add("dl10", "ok")
  except Exception as e:
    add("dl10", "%s %s" % (type(e).__name__, e))
  add("open_fp", "%s" % sorted(k for k in dir(pair_tabulation.PairTabulation_AbstractBase) if not k.startswith("__")))
  return h.hexdigest(), n[0]

"""Edit A: `json` pair tabulation target (JSON_PairTabulation).

Run on the clean tree:   prints the existing-behaviour digest only (feature absent).
Run on the edited tree:  same digest + demonstration of the new target.

  /venv/bin/python -W ignore /tmp/wtpy.py /tmp/wt_r7_1 _twins/diffA.py
"""
import json
import os
import sys
sys.path.insert(0, os.path.dirname(os.path.abspath(__file__)))

from _common_digest import existing_behaviour_digest

TARGET = "json"
CLS_NAME = "JSON_PairTabulation"

def parse(text):
  """JSON document -> [(speciesA, speciesB, r[], energy[], force[])] with structural checks"""
  assert text.endswith(u"\n") and text.count(u"\n") == 1
  doc = json.loads(text)
  assert sorted(doc.keys()) == ["cutoff", "dr", "nr", "potentials"], doc.keys()
  assert doc["dr"] == doc["cutoff"] / float(doc["nr"] - 1)
  out = []
  for rec in doc["potentials"]:
    assert sorted(rec.keys()) == ["energy", "force", "r", "speciesA", "speciesB"]
    assert len(rec["r"]) == len(rec["energy"]) == len(rec["force"]) == doc["nr"]
    assert rec["r"][0] == 0.0 and rec["r"][-1] == doc["cutoff"]
    out.append((rec["speciesA"], rec["speciesB"], rec["r"], rec["energy"], rec["force"]))
  return out

if __name__ == "__main__":
  digest, n = existing_behaviour_digest()
  print("EXISTING-BEHAVIOUR DIGEST %s (%d items)" % (digest, n))
  from atsim.potentials import pair_tabulation
  if not hasattr(pair_tabulation, CLS_NAME):
    print("feature not present in this tree")
    sys.exit(0)
  from _feature_checks import run_feature_checks
  # JSON floats are written with repr(): values must round-trip exactly (tol = 0)
  failures = run_feature_checks(TARGET, CLS_NAME, parse, 0, True)
  sys.exit(1 if failures else 0)

"""Differential script for twin C (atsim/potentials/eam_tabulation.py).

Builds every EAM tabulation class directly and through Configuration/.aspot
input, with several species orders / grids / malformed inputs, writes them and
prints a sha256 digest of the outputs (text tables verbatim, spreadsheets as
sheet names + cell values), the property values and any exception types."""
import hashlib
import io
import math
import os

import openpyxl

from atsim.potentials import EAMPotential, Potential
from atsim.potentials import eam_tabulation as et
from atsim.potentials.config import Configuration

H = hashlib.sha256()
RECORDS = []


def record(label, value):
  s = "%s => %r" % (label, value)
  RECORDS.append(s)
  H.update(s.encode("utf-8"))
  H.update(b"\0")


def attempt(label, func):
  try:
    v = func()
  except BaseException as e:  # noqa
    record(label, ("EXC", type(e).__name__, str(e)))
  else:
    record(label, v)


def embed_a(rho):
  return -math.sqrt(rho) + 0.01 * rho * rho


def embed_b(rho):
  return 0.5 * rho - 1.0 / (1.0 + rho)


def embed_c(rho):
  return 3


def dens_a(r):
  return 1.3 * math.exp(-0.7 * r)


def dens_b(r):
  return 2.0 / (1.0 + r) ** 3


def dens_c(r):
  return r * 1e-7 - 1e-9


def dens_fail(r):
  if r > 1.0:
    raise ArithmeticError("dens_fail at %r" % (r,))
  return 0.25


def pp_aa(r):
  return 1000.0 * math.exp(-r / 0.3) - 5.0 / (r + 0.1) ** 6


def pp_ab(r):
  return 1e5 * math.exp(-3.1 * r)


def pp_bb(r):
  return -12345.678901234 + r


EMBED = {"Al": embed_a, "Cu": embed_b, "Ag": embed_c}
DENS = {"Al": dens_a, "Cu": dens_b, "Ag": dens_c}
NUMS = {"Al": (13, 26.98, 4.05, "fcc"), "Cu": (29, 63.55, 3.61, "fcc"), "Ag": (47, 107.87, 4.09, "bcc")}


def eams(order, fail=None):
  out = []
  for k in order:
    z, m, a, lt = NUMS[k]
    out.append(EAMPotential(k, z, m, EMBED[k], dens_fail if fail == k else DENS[k], a, lt))
  return out


def eams_fs(order, drop=None, fail=None):
  out = []
  for k in order:
    z, m, a, lt = NUMS[k]
    # insertion order of the density dict deliberately differs from sorted order
    d = dict((o, DENS[o] if (len(o + k) % 2) else DENS[k]) for o in reversed(order))
    if fail == k:
      d[order[0]] = dens_fail
    if drop and drop[0] == k:
      del d[drop[1]]
    out.append(EAMPotential(k, z, m, EMBED[k], d, a, lt))
  return out


def pairpots(spec):
  funcs = {"aa": pp_aa, "ab": pp_ab, "bb": pp_bb}
  return [Potential(a, b, funcs[f]) for (a, b, f) in spec]


PAIRS = [
  [("Cu", "Al", "ab"), ("Al", "Al", "aa"), ("Cu", "Cu", "bb")],
  [("Al", "Al", "aa")],
  [("Ag", "Cu", "ab"), ("Al", "Ag", "bb"), ("Ag", "Ag", "aa"), ("Al", "Al", "aa")],
  [],
]
ORDERS = [["Al", "Cu"], ["Cu", "Al"], ["Ag", "Cu", "Al"], ["Al"]]
GRIDS = [(6.5, 14, 30.0, 11), (2.0, 5, 1.0, 3), (10.0, 2, 100.0, 2), (3.3, 9, 7.7, 1), (3.3, 1, 7.7, 6), (4.0, 0, 4.0, 0)]

PROPS = ["type", "target", "nr", "cutoff", "dr", "nrho", "cutoff_rho", "drho"]


def describe(tab):
  out = []
  for p in PROPS:
    try:
      out.append((p, getattr(tab, p)))
    except Exception as e:
      out.append((p, type(e).__name__, str(e)))
  out.append(("npots", len(tab.potentials), len(tab.eam_potentials)))
  out.append(("mro", [c.__name__ for c in type(tab).__mro__]))
  return out


def dump_wb(wb):
  out = []
  for ws in wb.worksheets:
    rows = [tuple(c.value for c in row) for row in ws.iter_rows()]
    out.append((ws.title, ws.max_row, ws.max_column, rows))
  return out


def text_write(tab):
  sio = io.StringIO()
  try:
    tab.write(sio)
  finally:
    record("   partial output", sio.getvalue()[:2000])
  return sio.getvalue()


def excel_write(tab):
  bio = io.BytesIO()
  tab.write(bio)
  bio.seek(0)
  via_write = dump_wb(openpyxl.load_workbook(bio))
  direct = dump_wb(tab.workbook)
  # second access must hand back the very same workbook object
  return via_write, direct, tab.workbook is tab.workbook


TEXT_CLASSES = [
  (et.SetFL_EAMTabulation, eams),
  (et.SetFL_FS_EAMTabulation, eams_fs),
  (et.TABEAM_EAMTabulation, eams),
  (et.TABEAM_FinnisSinclair_EAMTabulation, eams_fs),
]
EXCEL_CLASSES = [
  (et.Excel_EAMTabulation, eams),
  (et.Excel_FinnisSinclair_EAMTabulation, eams_fs),
]

# 1. direct construction of every class
for oi, order in enumerate(ORDERS):
  for pi, ps in enumerate(PAIRS):
    for gi, (cutoff, nr, cutoff_rho, nrho) in enumerate(GRIDS):
      for cls, mk in TEXT_CLASSES + EXCEL_CLASSES:
        label = "%s o%d p%d g%d" % (cls.__name__, oi, pi, gi)
        holder = []
        attempt(label + " ctor", lambda: holder.append(cls(pairpots(ps), mk(order), cutoff, nr, cutoff_rho, nrho)) or "ok")
        if not holder:
          continue
        tab = holder[0]
        attempt(label + " props", lambda: describe(tab))
        if (cls, mk) in EXCEL_CLASSES:
          if gi in (0, 1, 3) and pi in (0, 2):
            attempt(label + " excel", lambda: excel_write(tab))
        else:
          attempt(label + " write", lambda: text_write(tab))

      # ADP: dipole/quadrupole potentials
      label = "ADP o%d p%d g%d" % (oi, pi, gi)
      holder = []
      attempt(label + " ctor", lambda: holder.append(et.ADP_EAMTabulation(pairpots(ps), eams(order), pairpots(ps[:1]), pairpots(ps[1:]), cutoff, nr, cutoff_rho, nrho)) or "ok")
      if holder:
        tab = holder[0]
        attempt(label + " props", lambda: describe(tab) + [len(tab.dipole_potentials), len(tab.quadrupole_potentials)])
        attempt(label + " write", lambda: text_write(tab))

# 2. constructor arity / keyword use
attempt("ADP too few", lambda: et.ADP_EAMTabulation([], [], 1.0, 2, 1.0, 2))
attempt("SetFL too many", lambda: et.SetFL_EAMTabulation([], [], 1.0, 2, 1.0, 2, "setfl"))
attempt("SetFL kw", lambda: describe(et.SetFL_EAMTabulation(nrho=3, cutoff_rho=2.0, nr=4, cutoff=1.0, eam_potentials=eams(["Al"]), potentials=[])))
attempt("Excel kw", lambda: describe(et.Excel_EAMTabulation(nrho=3, cutoff_rho=2.0, nr=4, cutoff=1.0, eam_potentials=eams(["Al"]), potentials=[])))
attempt("ADP kw", lambda: describe(et.ADP_EAMTabulation(nrho=3, cutoff_rho=2.0, nr=4, cutoff=1.0, eam_potentials=eams(["Al"]), potentials=[], dipole_potentials=[], quadrupole_potentials=[])))


class SubSetFL(et.SetFL_EAMTabulation):
  def __init__(self, *args):
    super(SubSetFL, self).__init__(*args)
    self.extra = "x"


class SubADP(et.ADP_EAMTabulation):
  pass


class SubExcel(et.Excel_FinnisSinclair_EAMTabulation):
  _excel_tab_name = "sub_excel"


attempt("SubSetFL", lambda: describe(SubSetFL(pairpots(PAIRS[0]), eams(["Al", "Cu"]), 2.0, 5, 1.0, 3)))
attempt("SubSetFL write", lambda: text_write(SubSetFL(pairpots(PAIRS[0]), eams(["Al", "Cu"]), 2.0, 5, 1.0, 3)))
attempt("SubADP", lambda: describe(SubADP(pairpots(PAIRS[0]), eams(["Al", "Cu"]), [], [], 2.0, 5, 1.0, 3)))
attempt("SubADP write", lambda: text_write(SubADP(pairpots(PAIRS[0]), eams(["Al", "Cu"]), pairpots(PAIRS[1]), pairpots(PAIRS[0]), 2.0, 5, 1.0, 3)))
attempt("SubExcel", lambda: describe(SubExcel(pairpots(PAIRS[0]), eams_fs(["Cu", "Al"]), 2.0, 5, 1.0, 3)))
attempt("SubExcel write", lambda: excel_write(SubExcel(pairpots(PAIRS[0]), eams_fs(["Cu", "Al"]), 2.0, 5, 1.0, 3)))

# 3. malformed models
for cls, mk in TEXT_CLASSES + EXCEL_CLASSES:
  writer = excel_write if (cls, mk) in EXCEL_CLASSES else text_write
  attempt("%s failing density" % cls.__name__, lambda: writer(cls(pairpots(PAIRS[0]), mk(["Al", "Cu"], fail="Cu"), 6.5, 14, 30.0, 11)))
  attempt("%s wrong density kind" % cls.__name__, lambda: writer(cls(pairpots(PAIRS[0]), (eams_fs if mk is eams else eams)(["Al", "Cu"]), 6.5, 14, 30.0, 11)))
  attempt("%s nrho None" % cls.__name__, lambda: writer(cls(pairpots(PAIRS[0]), mk(["Al", "Cu"]), 6.5, 14, 30.0, None)))
  attempt("%s eam None" % cls.__name__, lambda: writer(cls(pairpots(PAIRS[0]), None, 6.5, 14, 30.0, 5)))
  attempt("%s dup species" % cls.__name__, lambda: writer(cls(pairpots(PAIRS[0]), mk(["Al", "Cu", "Al"]), 2.0, 5, 1.0, 3)))
for cls in (et.SetFL_FS_EAMTabulation, et.TABEAM_FinnisSinclair_EAMTabulation):
  attempt("%s missing fs density" % cls.__name__, lambda: text_write(cls(pairpots(PAIRS[0]), eams_fs(["Al", "Cu"], drop=("Cu", "Al")), 6.5, 14, 30.0, 11)))
attempt("excel fs missing density", lambda: excel_write(et.Excel_FinnisSinclair_EAMTabulation(pairpots(PAIRS[0]), eams_fs(["Al", "Cu"], drop=("Cu", "Al")), 2.0, 5, 1.0, 3)))


def excel_retry():
  """A failed build must not leave a half built workbook behind"""
  eam = eams(["Al", "Cu"], fail="Cu")
  tab = et.Excel_EAMTabulation(pairpots(PAIRS[0]), eam, 6.5, 14, 30.0, 11)
  out = []
  for i in range(2):
    try:
      tab.workbook
    except Exception as e:
      out.append((type(e).__name__, str(e), tab._inner_tabulation))
  eam[1].electronDensityFunction = dens_b
  out.append(dump_wb(tab.workbook))
  return out


attempt("excel retry", excel_retry)
attempt("open_fp", lambda: [(c.__name__, c.open_fp.__self__.__name__) for c in (et.Excel_EAMTabulation, et.Excel_FinnisSinclair_EAMTabulation, et.SetFL_EAMTabulation, et.ADP_EAMTabulation)])
attempt("rho iterator", lambda: [list(et._rho_value_iterator(et.SetFL_EAMTabulation([], [], 1.0, 2, c, n))) for c, n in ((30.0, 11), (1.0, 2), (0.3, 4), (5.0, 0))])
attempt("rho iterator nrho=1", lambda: list(et._rho_value_iterator(et.SetFL_EAMTabulation([], [], 1.0, 2, 1.0, 1))))

# 4. through Configuration / .aspot input
CFG = u"""[Tabulation]
target : %(target)s
nr : %(nr)s
dr : 0.05
nrho : %(nrho)s
drho : 0.5

[Potential-Form]
buck_morse(r_ij, A,rho,C,D,gamma,r0) : as.buck(r_ij,A,rho,C) + as.morse(r_ij, gamma,r0,D)
density(r_ij, n) : (n/r_ij^8) * 0.5 * (1+erf(20*(r_ij-1.5)))

[EAM-Embed]
%(embed)s

[EAM-Density]
%(density)s

[Pair]
%(pair)s
%(extra)s
"""
EMBED_L = {"Th": "Th = as.sqrt -1.185", "U": "U = as.sqrt -1.806", "O": "O = as.sqrt -0.690"}
DENS_L = {"Th": "Th = density 1742.622", "U": "U = density 3450.995", "O": "O = density 106.856"}
PAIR_L = {
  "Th-Th": "Th-Th = buck_morse 18600 0.2884 0.0 0.0 0.0 0.0",
  "U-U": "U-U = as.buck 18600 0.2747 0.0",
  "O-O": "O-O = buck_morse 830.283 0.352856 3.884372 0.0 0.0 0.0",
  "Th-O": "Th-O = buck_morse 315.544 0.395903 0.0 0.62614 1.85960 2.49788",
  "O-U": "O-U = buck_morse 448.779 0.387758 0.0 0.66080 2.05815 2.38051",
}
ADP_EXTRA = "\n[EAM-ADP-Dipole]\nTh-O : as.buck 10.0 0.3 0.0\n\n[EAM-ADP-Quadrupole]\nO-O : as.buck 20.0 0.2 1.0\nTh-O : as.zero\n"


def fs_density(species):
  lines = []
  for a in species:
    for b in species:
      lines.append("%s->%s = density %s" % (a, b, 1000.0 + 3 * len(lines)))
  return "\n".join(lines)


CASES = []
for target in ["setfl", "setfl_fs", "DL_POLY_EAM", "DL_POLY_EAM_fs", "excel_eam", "excel_eam_fs", "eam_adp"]:
  CASES.append((target, ["Th", "U", "O"], ["Th-Th", "U-U", "O-O", "Th-O", "O-U"], 12, 9))
  CASES.append((target, ["O", "Th"], ["Th-O", "O-O"], 7, 5))

for ci, (target, species, pairs, nr, nrho) in enumerate(CASES):
  def f(target=target, species=species, pairs=pairs, nr=nr, nrho=nrho):
    dens = fs_density(species) if target.endswith("_fs") else "\n".join(DENS_L[s] for s in species)
    cfg = CFG % dict(target=target, nr=nr, nrho=nrho,
                     embed="\n".join(EMBED_L[s] for s in species),
                     density=dens,
                     pair="\n".join(PAIR_L[p] for p in pairs),
                     extra=ADP_EXTRA if target == "eam_adp" else "")
    tab = Configuration().read(io.StringIO(cfg))
    desc = describe(tab)
    if target.startswith("excel"):
      return desc, excel_write(tab)
    return desc, text_write(tab)
  attempt("config %d %s" % (ci, target), f)

if os.environ.get("TWIN_VERBOSE"):
  for r in RECORDS:
    print(r[:300])
print("records: %d" % len(RECORDS))
print("digest: %s" % H.hexdigest())

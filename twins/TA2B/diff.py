"""diffB.py - checks for edit B (Potential_Form / Existing_Potential_Form remember the callable built for each parameter tuple).

Run against a tree with:
  /venv/bin/python -W ignore /tmp/wtpy.py <tree> /tmp/wt_r10_2/_twins/diffB.py          # digest (a) + feature checks (b)
  /venv/bin/python -W ignore /tmp/wtpy.py <tree> /tmp/wt_r10_2/_twins/diffB.py --digest # digest (a) only

Part (a) prints 'EXISTING-BEHAVIOUR DIGEST <sha256>' which must be the same for the clean and the edited tree.
Part (b) prints PASS/FAIL lines for the properties relevant to the edit and finishes with 'FEATURE CHECKS: all passed'.
(Part (b) also passes on the clean tree, apart from the lines marked [edit only] which look at the store itself.)
"""
# ---------------------------------------------------------------------------------------------
# Part (a): broad sample of EXISTING behaviour through the public API -> deterministic digest.
# (identical text in diffA.py, diffB.py and diffC.py)
# ---------------------------------------------------------------------------------------------
import glob
import hashlib
import io
import math
import os
import re
import subprocess
import sys
import logging
logging.disable(logging.CRITICAL)

import atsim.potentials as ap
from atsim.potentials import potentialforms as pf
from atsim.potentials import potentialfunctions as pfn
from atsim.potentials.config import Configuration, ConfigParser
from atsim.potentials.config._common import ConfigurationException

WT = os.getcwd()  # wtpy.py changes into the worktree before running the script

PAIR_CFG = u"""[Tabulation]
target : {target}
cutoff : 8.0
nr : {nr}

[Pair]
O-O = as.buck 1633.0 0.327 3.949
U-O = as.buck4 1761.775 0.35642 12.3 1.2 2.1 2.6
U-U = as.bornmayer 294.64 0.327022 >= 3.0 as.zero
Si-O = spline(>0 as.zbl 14 8 >=0.8 exp_spline >=1.4 as.buck 18003.7572 0.205204 133.5381)
Mg-O = spline(as.buck 1000.0 0.3 0.0 >1.0 buck4_spline 2.0 >3.0 as.buck 0 1 32.0)
Al-O = sum(as.bornmayer 1000.0 0.3, as.polynomial 0.1 -0.2 0 0.003, >2.0 as.constant 0.5)
Ga-O = product(as.morse 1.5 2.0 0.2, pow(as.coul 1 1, as.constant 2))
Fe-Fe = trans(as.lj 0.1 2.5, as.constant 0.2)
Ti-O = mypoly 1.5 -0.25
In-O = tf
Ca-O = as.tang_toennies 980.0 1.9 100.0 300.0 900.0
Na-O = as.hbnd 300.0 50.0 >2.5 as.exponential 0.5 1.5
K-O = as.sqrt 2.5 >1 as.polynomial 1.0 >2 as.polynomial 0 0 0 0 0 0 0 0 1e-3
Li-O = sum(as.buck4 900.0 0.3 20.0 1.0 1.75 2.5, as.buck4 900.0 0.3 20.0 1.0 1.5 2.5, as.buck4 500.0 0.3 20.0 1.0 1.75 2.5)
Cs-O = as.exp_spline 1.0 -0.5 0.1 -0.01 0.001 -0.0001 0.3

[Potential-Form]
mypoly(r, a, b) = as.polynomial(r, a, 0, b) + if(r>2, a*exp(-r), b/(r+1)) + pymath.floor(r) + other(r, a)
other(r, q) = q * as.buck(r+0.1, 10.0, 0.2, 1.0)

[Table-Form:tf]
interpolation : cubic_spline
x : 0 1 2 3 4 5
y : 5 3 1 0.5 0.2 0
"""

EAM_CFG = u"""[Tabulation]
target : {target}
cutoff : 6.0
nr : 60
cutoff_rho : 50.0
nrho : 50

[Pair]
Al-Al = as.morse 1.2 2.8 0.3
Al-Fe = as.buck4 800.0 0.3 15.0 1.1 1.9 2.7
Fe-Fe = sum(as.polynomial 0.5 -0.1 0.004, as.bornmayer 500.0 0.25)

[EAM-Embed]
Al = as.sqrt -1.5
Fe = as.polynomial 0 -0.3 0.001

[EAM-Density]
{density}
"""
EAM_DENS = u"Al = as.exponential 2.0 -1.5 >0.5 as.bornmayer 3.0 0.9\nFe = as.polynomial 1.0 -0.2 0.01\n"
EAM_DENS_FS = u"Al->Al = as.bornmayer 3.0 0.9\nAl->Fe = as.polynomial 1.0 -0.2 0.01\nFe->Al = as.bornmayer 2.0 0.8\nFe->Fe = as.polynomial 0.5 -0.05\n"

BAD_CFGS = [
  u"[Pair]\nA-B = as.buck 1.0 2.0\n",
  u"[Pair]\nA-B = as.nothing 1.0 2.0\n",
  u"[Pair]\nA-B = as.buck4 1.0 2.0 3.0 1.0 3.0\n",
  u"[Pair]\nA-B = spline(as.buck 1 2 3 >1 exp_spline 2 >3 as.zero)\n",
  u"[Pair]\nA-B = spline(as.buck 1 2 3 >1 buck4_spline 4 >3 as.zero)\n",
  u"[Pair]\nA-B = spline(as.buck 1 2 3 >1 buck4_spline >3 as.zero)\n",
  u"[Pair]\nA-B = spline(as.buck 1 2 3 >3 exp_spline >1 as.zero)\n",
  u"[Pair]\nA-B = as.polynomial\nA-B = as.zero\n",
  u"[Pair]\nA-B = as.zero 1\n",
  u"[Pair]\nA-B = f 1 2\n[Potential-Form]\nf(r, a) = a*r\n",
  u"[Pair]\nA-B = f 1\n[Potential-Form]\nf(r, a) = a*r +\n",
  u"[Pair]\nA-B = f 1\n[Potential-Form]\nf(r, a) = g(r, a, 1)\ng(r, a) = a\n",
  u"[Tabulation]\ntarget : nonsense\n[Pair]\nA-B = as.zero\n",
  u"[Tabulation]\ntarget : DL_POLY\nnr : 1001\n[Pair]\nA-B = as.zero\n",
  u"[Pair]\nA-B = tf 1\n[Table-Form:tf]\ninterpolation : cubic_spline\nx : 0 1 2 3\ny : 1 2 3 4\n",
  u"[Pair]\nA-B = sum(as.buck 1 2)\n",
]


def _tabulate(cfg_text):
  tab = Configuration().read(io.StringIO(cfg_text))
  out = io.StringIO()
  tab.write(out)
  return out.getvalue()


def _fmt(v):
  return "%.10g" % v


def existing_behaviour_lines(table_filter = None):
  """Return list of text lines describing existing behaviour. `table_filter` (text -> text) is applied to the
  tabulation files before they are hashed."""
  if table_filter is None:
    table_filter = lambda s: s
  lines = []
  rs = [0.3, 0.75, 1.0, 1.3, 2.0, 2.6, 3.7, 5.0, 9.25]

  # 1. potential functions / forms: value and derivatives through f(r, params) and factory(params)(r)
  params = dict(bornmayer=(1000.0, 0.3), buck=(1633.0, 0.327, 3.949), constant=(2.5,), coul=(2.0, -1.5),
    exp_spline=(1.0, -0.5, 0.1, -0.01, 0.001, -0.0001, 0.3), exponential=(0.5, 1.5), hbnd=(300.0, 50.0), lj=(0.1, 2.5),
    morse=(1.5, 2.0, 0.2), sqrt=(2.5,), tang_toennies=(980.0, 1.9, 100.0, 300.0, 900.0), zbl=(14, 8), zero=())
  for name in sorted(params):
    func = getattr(pfn, name)
    fact = getattr(pf, name)(*params[name])
    for r in rs:
      row = [name, _fmt(r), _fmt(func(r, *params[name])), _fmt(fact(r))]
      for dn in ("deriv", "deriv2"):
        if hasattr(func, dn):
          row.append(_fmt(getattr(func, dn)(r, *params[name])))
          row.append(_fmt(getattr(fact, dn)(r)))
      lines.append(" ".join(row))
  polys = [(), (2.0,), (0.0,), (1.0, -2.0), (0.5, 0.0, 0.25), (0.0, 0.0, 0.0, 1.0), (1, 2, 3),
    (3.0, -1.0, 0.0, 0.0, 0.5, 0.0, -0.01), (1.0, -1.0, 1.0, -1.0, 1.0, -1.0, 1.0, -1.0, 1.0), (0.0, 0.0), (-0.0, 0.0, -0.0)]
  for coefs in polys:
    for r in [0.0, 0, 2] + rs + [-1.5]:
      fact = pf.polynomial(*coefs)
      vals = [pfn.polynomial(r, *coefs), pfn.polynomial.deriv(r, *coefs), pfn.polynomial.deriv2(r, *coefs), fact(r), fact.deriv(r), fact.deriv2(r)]
      lines.append("polynomial %r %r %s %s" % (coefs, r, " ".join([_fmt(v) for v in vals]), " ".join([type(v).__name__ for v in vals])))

  # 2. python API: splines, buck4, combinators, multi-range
  bk = pf.buck4(1761.775, 0.35642, 12.3, 1.2, 2.1, 2.6)
  sp = ap.SplinePotential(pf.zbl(14, 8), pf.buck(18003.7572, 0.205204, 133.5381), 0.8, 1.4)
  from atsim.potentials.spline import Buck4_SplinePotential
  b4i = Buck4_SplinePotential(pf.bornmayer(1000.0, 0.3), pf.buck(0.0, 1.0, 32.0), 1, 3, 2)
  comb = ap.plus(ap.product(pf.morse(1.5, 2.0, 0.2), pf.polynomial(1.0, 0.0, -0.01)), ap.pow(pf.coul(1, 1), pf.constant(2)))
  mr = ap.create_Multi_Range_Potential_Form(ap.Multi_Range_Defn(">", 0.0, pf.polynomial(1.0, 2.0)), ap.Multi_Range_Defn(">=", 2.0, pf.lj(0.1, 2.5)))
  for label, f in [("buck4", bk), ("expspline", sp), ("buck4int", b4i), ("comb", comb), ("multirange", mr)]:
    for r in rs:
      lines.append("%s %s %s %s %s" % (label, _fmt(r), _fmt(f(r)), _fmt(f.deriv(r)), _fmt(f.deriv2(r))))
  for label, f in [("buck4", bk), ("expspline", sp), ("buck4int", b4i)]:
    lines.append("%s coefficients %s" % (label, " ".join(["%.6g" % c for c in f.splineCoefficients])))

  # 3. potable models to every pair target
  for target, nr in [("LAMMPS", 161), ("DL_POLY", 164), ("GULP", 161)]:
    text = _tabulate(PAIR_CFG.format(target = target, nr = nr))
    lines.append("pair %s %d %s" % (target, len(text.splitlines()), hashlib.sha256(table_filter(text).encode()).hexdigest()))
  for target, dens in [("setfl", EAM_DENS), ("DL_POLY_EAM", EAM_DENS), ("setfl_fs", EAM_DENS_FS), ("DL_POLY_EAM_fs", EAM_DENS_FS)]:
    text = _tabulate(EAM_CFG.format(target = target, density = dens))
    lines.append("eam %s %d %s" % (target, len(text.splitlines()), hashlib.sha256(table_filter(text).encode()).hexdigest()))
  for fname in sorted(glob.glob(os.path.join(WT, "docs", "user_guide", "example_files", "*.aspot")) + glob.glob(os.path.join(WT, "tests", "config", "config_resources", "*.aspot"))):
    with io.open(fname, encoding = "utf8") as infile:
      text = infile.read()
    text = re.sub(r"(?m)^nr\s*[:=].*$", "nr : 101", text)
    try:
      out = _tabulate(text)
      lines.append("file %s %d %s" % (os.path.basename(fname), len(out.splitlines()), hashlib.sha256(table_filter(out).encode()).hexdigest()))
    except Exception as e:
      lines.append("file %s raised %s" % (os.path.basename(fname), type(e).__name__))

  # 4. python tabulation API (writePotentials)
  pots = [ap.Potential("A", "B", bk), ap.Potential("B", "B", comb), ap.Potential("A", "A", pf.polynomial(1.0, -0.5, 0.0, 0.01))]
  for fmt, nr in [("LAMMPS", 41), ("DL_POLY", 44)]:
    out = io.StringIO()
    ap.writePotentials(fmt, pots, 6.0, nr, out = out)
    lines.append("writePotentials %s %s" % (fmt, hashlib.sha256(table_filter(out.getvalue()).encode()).hexdigest()))

  # 5. errors
  for cfg in BAD_CFGS:
    try:
      _tabulate(cfg)
      lines.append("bad %r -> no error" % cfg)
    except Exception as e:
      lines.append("bad %r -> %s %s %s" % (cfg, type(e).__name__, isinstance(e, ConfigurationException), str(e)))
  for call in ["pf.buck4(1000.0, 0.3, 32.0, 2.0, 2.0, 2.0)", "ap.SplinePotential(pf.zero(), pf.zero(), 1.0, 1.0)", "pfn.buck(1.0)", "pf.buck(1.0)(2.0)"]:
    try:
      eval(call)
      lines.append("call %s -> no error" % call)
    except Exception as e:
      lines.append("call %s -> %s %s" % (call, type(e).__name__, e))
  return lines


def digest(lines):
  return hashlib.sha256("\n".join(lines).encode()).hexdigest()

# ---------------------------------------------------------------------------------------------
# Part (b): remembered callables are transparent
# ---------------------------------------------------------------------------------------------
from atsim.potentials.config import Potential_Form_Registry
from atsim.potentials.config._common import Potential_Form_Exception
import atsim.potentials.config._potential_form as potential_form_module

EDITED = hasattr(potential_form_module, "_Built_Callables")
FAILED = []

def check(label, ok, detail = ""):
  print("%s %s %s" % ("PASS" if ok else "FAIL", label, detail))
  if not ok:
    FAILED.append(label)

FORMS_CFG = u"""[Potential-Form]
f(r, a) = g(r, a) + g(r, 2*a) + as.buck(r, 1000.0, 0.3, a)
g(r, q) = q / (r + 1) + as.polynomial(r, q, 0, 0.5*q)
h(r_ij, A, rho, C) = A*exp(-r_ij/rho) - C/r_ij^6

[Table-Form:tf]
interpolation : cubic_spline
x : 0 1 2 3 4 5
y : 5 3 1 0.5 0.2 0
"""

def registry():
  cp = ConfigParser(io.StringIO(FORMS_CFG))
  return Potential_Form_Registry(cp, True, True)

MODELS = [
  u"[Pair]\nO-O = as.buck 1633.0 0.327 3.949\nU-O = as.buck 1633.0 0.327 3.949\nU-U = as.buck 1633.0 0.327 3.9490000000000003\n",
  u"[Pair]\nO-O = as.buck 1633.0 0.327 0.0\nU-O = as.buck 1633.0 0.327 -0.0\nA-A = as.constant 0.0\nB-B = as.constant -0.0\nC-C = as.constant 1\nD-D=as.constant 1.0\n",
  u"[Pair]\nA-B = f 1.0\nB-B = f 2.0\nA-A = sum(f 1.0, g 2.0, f 2.0)\nC-C = g 1.0\n" + FORMS_CFG,
  u"[Pair]\nA-B = as.buck4 900.0 0.3 20.0 1.0 1.75 2.5\nB-B = as.buck4 900.0 0.3 20.0 1.0 1.5 2.5\nA-A = as.buck4 900.0 0.3 20.0 1.0 1.75 2.5 \nC-C = tf\nD-D = sum(tf, tf, as.polynomial 1 0 2, as.polynomial 1 2, as.polynomial 1 0 2)\n" + FORMS_CFG,
  u"[Tabulation]\ntarget : setfl\nnr : 50\nnrho : 50\n[Pair]\nAl-Al = as.morse 1.2 2.8 0.3\n[EAM-Embed]\nAl = as.sqrt -1.5\nFe = as.sqrt -1.5\n[EAM-Density]\nAl = as.bornmayer 3.0 0.9\nFe = as.bornmayer 3.0 0.8\n",
]

def model_text(i):
  text = MODELS[i]
  if not "[Tabulation]" in text:
    text = u"[Tabulation]\ntarget : LAMMPS\ncutoff : 6.0\nnr : 61\n" + text
  return text

def child(indices):
  for i in indices:
    print("%d %s" % (i, hashlib.sha256(_tabulate(model_text(i)).encode()).hexdigest()))

def run_child(indices, seed = "0"):
  env = dict(os.environ)
  env["PYTHONHASHSEED"] = seed
  out = subprocess.check_output([sys.executable, "-W", "ignore", "/tmp/wtpy.py", WT, os.path.abspath(__file__), "--child"] + [str(i) for i in indices], env = env)
  return dict([l.split() for l in out.decode().splitlines()])

def lammps_blocks(text):
  blocks = {}
  for b in re.split(r"\n(?=[A-Za-z]+-[A-Za-z]+\n)", text):
    blocks[b.split("\n")[0]] = "\n".join(b.rstrip("\n").split("\n")[1:])
  return blocks

def feature_checks():
  rs = [0.3, 0.75, 1.0, 1.3, 2.0, 2.6, 3.7, 5.0]
  reg = registry()

  # b1. C06/C12 - every parametrisation, asked for in any order and repeatedly, evaluates the form's formula with ITS parameters
  plist = [(1633.0, 0.327, 3.949), (1633.0, 0.327, 0.0), (1000.0, 0.3, 32.0), (1633.0, 0.327, 3.949), (1000.0, 0.3, 32.0), (3.949, 0.327, 1633.0)]
  ok = True
  made = []
  for p in plist + list(reversed(plist)):
    fn = reg["as.buck"](*p)
    made.append((p, fn))
    for (q, fq) in made:   # interleave evaluation of everything made so far
      for r in rs:
        ok = ok and fq(r) == pfn.buck(r, *q) and fq.deriv(r) == pfn.buck.deriv(r, *q) and fq.deriv2(r) == pfn.buck.deriv2(r, *q)
  check("b1 C06 C12 as.buck callables for six parameter tuples in mixed order: value/deriv/deriv2 exactly those of the formula", ok)

  # b2. parameters that compare equal but are not the same parameter give their own callable
  c = reg["as.constant"]
  got = [c(0.0)(1.0), c(-0.0)(1.0), c(1)(1.0), c(1.0)(1.0), c(True)(1.0), c(0.0)(1.0), c(-0.0)(1.0)]
  ok = [repr(v) for v in got] == ["0.0", "-0.0", "1", "1.0", "True", "0.0", "-0.0"]
  nan = float("nan")
  ok = ok and math.isnan(c(nan)(1.0)) and math.isnan(c(float("nan"))(1.0))
  p1, p2 = reg["as.polynomial"](1.0, 0.0, 2.0), reg["as.polynomial"](1.0, 2.0)
  p3, p4 = reg["as.polynomial"](1.0, 0.0, 2.0, 0.0), reg["as.polynomial"]()
  ok = ok and [p(2.0) for p in (p1, p2, p3, p4)] == [pfn.polynomial(2.0, 1.0, 0.0, 2.0), pfn.polynomial(2.0, 1.0, 2.0), pfn.polynomial(2.0, 1.0, 0.0, 2.0, 0.0), pfn.polynomial(2.0)]
  check("b2 C12 0.0/-0.0, 1/1.0/True and parameter lists of different length are kept apart", ok, str([repr(v) for v in got]))

  # b3. C09/C12 custom forms that share sub-forms with different arguments
  f1, f2, g1 = reg["f"](1.0), reg["f"](2.0), reg["g"](1.0)
  f1b = reg["f"](1.0)
  def g(r, q): return q / (r + 1) + pfn.polynomial(r, q, 0, 0.5*q)
  def f(r, a): return g(r, a) + g(r, 2*a) + pfn.buck(r, 1000.0, 0.3, a)
  ok = True
  for r in rs:
    seq = [f1(r), f2(r), g1(r), f1b(r), f2(r), f1(r)]
    want = [f(r, 1.0), f(r, 2.0), g(r, 1.0), f(r, 1.0), f(r, 2.0), f(r, 1.0)]
    ok = ok and all([abs(a - b) <= 1e-12*max(1.0, abs(b)) for (a, b) in zip(seq, want)])
  check("b3 C09 C12 custom forms f(1.0), f(2.0), g(1.0) interleaved evaluate their own formulas", ok)

  # b4. parameters that cannot be identified exactly are built every time and still work
  import numpy as np
  a, b = reg["as.constant"](np.float64(2.5)), reg["as.constant"](np.float64(2.5))
  ok = a(1.0) == 2.5 and b(1.0) == 2.5 and (a is not b)
  check("b4 other parameter types (numpy.float64) are built on each call", ok)

  # b5. C16 - wrong parameter counts are refused the same way before and after a callable has been remembered
  msgs = []
  for args in [(1.0, 2.0), (1.0, 2.0, 3.0), (1.0, 2.0), (1.0, 2.0, 3.0, 4.0)]:
    try:
      reg["as.buck"](*args)
      msgs.append("ok")
    except Potential_Form_Exception as e:
      msgs.append("Potential_Form_Exception")
  for name, args in [("f", ()), ("f", (1.0, 2.0)), ("tf", (1.0,)), ("as.buck4", (1.0,))]:
    try:
      reg[name](*args)
      msgs.append("ok")
    except Potential_Form_Exception as e:
      msgs.append("Potential_Form_Exception")
  check("b5 C16 wrong parameter counts raise Potential_Form_Exception", msgs == ["Potential_Form_Exception", "ok", "Potential_Form_Exception", "Potential_Form_Exception"] + ["Potential_Form_Exception"]*4, str(msgs))

  # b6. failed builds are not remembered; good builds after them are right
  names = []
  for args in [(1000.0, 0.3, 32.0, 2.0, 2.0, 2.0), (1000.0, 0.3, 32.0, 2.0, 2.0, 2.0), (1000.0, 0.3, 32.0, 1.0, 2.0, 3.0)]:
    try:
      fn = reg["as.buck4"](*args)
      names.append("%.6f" % fn(2.5))
    except Exception as e:
      names.append(type(e).__name__)
  check("b6 failing build raises each time", names == ["LinAlgError", "LinAlgError", "%.6f" % pf.buck4(1000.0, 0.3, 32.0, 1.0, 2.0, 3.0)(2.5)], str(names))

  # b7. C10/C07 as.buck4 through the registry: r_min is part of the parameter tuple; derivatives exact
  x, y, x2 = reg["as.buck4"](900.0, 0.3, 20.0, 1.0, 1.75, 2.5), reg["as.buck4"](900.0, 0.3, 20.0, 1.0, 1.5, 2.5), reg["as.buck4"](900.0, 0.3, 20.0, 1.0, 1.75, 2.5)
  ok = abs(x.deriv(1.75)) < 1e-9 and abs(y.deriv(1.5)) < 1e-9 and abs(y.deriv(1.75)) > 1e-3 and x2(1.6) == x(1.6) == pf.buck4(900.0, 0.3, 20.0, 1.0, 1.75, 2.5)(1.6)
  worst = 0.0
  for fn in [x, y, reg["f"](1.0), reg["h"](1633.0, 0.327, 3.949), reg["as.morse"](1.5, 2.0, 0.2), reg["tf"]()]:
    for r in [0.8, 1.2, 1.6, 2.2, 2.9, 4.1]:
      hh = 1e-5
      if hasattr(fn, "deriv"):
        fd = (fn(r+hh) - fn(r-hh))/(2*hh)
        worst = max(worst, abs(fd - fn.deriv(r))/max(1.0, abs(fd)))
      if hasattr(fn, "deriv2"):
        fd = (fn.deriv(r+hh) - fn.deriv(r-hh))/(2*hh)
        worst = max(worst, abs(fd - fn.deriv2(r))/max(1.0, abs(fd)))
  check("b7 C07 C10 buck4 r_min respected, offered derivatives agree with central differences", ok and worst < 1e-6, "worst %.3g" % worst)

  # b8. the store is per form object and bounded [edit only]
  if EDITED:
    reg2 = registry()
    for k in range(1300):
      reg2["as.lj"](0.1, 2.0 + k*1e-3)
    size = len(reg2["as.lj"]._functionfactory._built)
    other = len(reg2["as.buck"]._functionfactory._built)
    check("b8 [edit only] store bounded (%d entries), stores of other forms / registries untouched (%d)" % (size, other), size <= 512 and other == 0)
    same = reg["as.buck"](1.0, 2.0, 3.0) is reg["as.buck"](1.0, 2.0, 3.0)
    check("b8 [edit only] the same parametrisation is served from the store", same)

  # b9. C12 - models tabulated in one process in any order == each in a fresh process; hash seed irrelevant
  fresh = {}
  for i in range(len(MODELS)):
    fresh.update(run_child([i]))
  ok = True
  for order in [[0, 1, 2, 3, 4], [4, 3, 2, 1, 0, 0, 1, 2, 3, 4], [2, 0, 2, 1, 3, 3]]:
    for i in order:
      ok = ok and hashlib.sha256(_tabulate(model_text(i)).encode()).hexdigest() == fresh[str(i)]
  for seed, order in [("1", [4, 3, 2, 1, 0]), ("77", [1, 0, 3, 2, 4])]:
    ok = ok and all([fresh[k] == v for (k, v) in run_child(order, seed).items()])
  check("b9 C12 five models, any order, same process or fresh processes with other PYTHONHASHSEED: identical bytes", ok)

  # b10. C01/C12 - each block of a model equals the block obtained when that pair is the only entry of a model
  ok = True
  for i in [0, 1, 2, 3]:
    text = model_text(i)
    head, pair_and_rest = text.split(u"[Pair]\n")
    entries = pair_and_rest.split(u"[", 1)[0].strip().split(u"\n")
    rest = pair_and_rest[len(pair_and_rest.split(u"[", 1)[0]):]
    whole = lammps_blocks(_tabulate(text))
    for e in entries:
      single = lammps_blocks(_tabulate(head + u"[Pair]\n" + e + u"\n" + rest))
      for k in single:
        ok = ok and single[k] == whole[k]
  check("b10 C01 C12 every block equals the block of a model holding just that pair", ok)
  b = lammps_blocks(_tabulate(model_text(1)))
  energies = lambda block: set([l.split()[2] for l in block.split("\n") if len(l.split()) == 4 and l.split()[0].isdigit()])
  check("b10 C06 signed zero parameters keep their identity in the table", energies(b["A-A"]) == set(["0.00000000"]) and energies(b["B-B"]) == set(["-0.00000000"]), "%s %s" % (energies(b["A-A"]), energies(b["B-B"])))

  if FAILED:
    print("FEATURE CHECKS: FAILED %s" % FAILED)
    sys.exit(1)
  print("FEATURE CHECKS: all passed")


if __name__ == "__main__":
  if "--child" in sys.argv:
    child([int(a) for a in sys.argv[sys.argv.index("--child")+1:]])
  else:
    print("EXISTING-BEHAVIOUR DIGEST %s" % digest(existing_behaviour_lines()))
    if not "--digest" in sys.argv:
      feature_checks()

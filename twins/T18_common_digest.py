"""Deterministic digest of a broad sample of EXISTING behaviour of atsim.potentials.

Used by diffA.py / diffB.py / diffC.py : the digest must be identical on the clean
and on the edited tree."""
import contextlib
import glob
import hashlib
import io
import logging
import os
import sys

logging.disable(logging.CRITICAL)

import atsim.potentials as ap
from atsim.potentials import potentialforms as pforms
from atsim.potentials.config import Configuration, ConfigParser, FilteredConfigParser, ConfigParserOverrideTuple
from atsim.potentials.config._common import ConfigurationException
from atsim.potentials.tools import potable
from atsim.potentials.tools.potable import _query_actions

WT = os.path.dirname(os.path.dirname(os.path.abspath(__file__)))

PAIR_TARGETS = ["LAMMPS", "DLPOLY", "DL_POLY", "GULP"]
EAM_TARGETS = ["setfl", "lammps_eam_alloy", "LAMMPS_eam_alloy", "DL_POLY_EAM", "eam_adp"]
FS_TARGETS = ["setfl_fs", "DL_POLY_EAM_fs"]

RS = [0.05, 0.3, 0.8, 1.0, 1.3, 1.7, 2.0, 2.5, 3.3, 4.9, 7.2, 9.9, 12.0]

def fmt(v):
  return "%.12e" % v

def tabulate_text(text, overrides = [], additional = [], include = None, exclude = None):
  cp = ConfigParser(io.StringIO(text), overrides = overrides, additional = additional)
  if include is not None:
    cp = FilteredConfigParser(cp, include = include)
  if exclude is not None:
    cp = FilteredConfigParser(cp, exclude = exclude)
  tab = Configuration().read_from_parser(cp)
  out = io.StringIO()
  tab.write(out)
  return out.getvalue()

def outcome(func, *args, **kwargs):
  """Returns a string describing either output or the exception class + message"""
  try:
    v = func(*args, **kwargs)
    return "OK:" + hashlib.sha256(v.encode("utf-8")).hexdigest()
  except ConfigurationException as e:
    return "CFGERR:{}:{}".format(type(e).__name__, e)
  except SystemExit as e:
    return "EXIT:{}".format(e.code)
  except Exception as e:
    return "EXC:{}:{}".format(type(e).__name__, e)

def set_target(text, target, extra = ""):
  """Replace/insert the target and use a small grid"""
  cp_lines = []
  in_tab = False
  for line in text.splitlines():
    s = line.strip()
    if s.startswith("["):
      in_tab = s == "[Tabulation]"
      if in_tab:
        continue
    if in_tab:
      continue
    cp_lines.append(line)
  cp_lines.append("[Tabulation]")
  cp_lines.append("target : {}".format(target))
  cp_lines.append(extra)
  return "\n".join(cp_lines) + "\n"

def model_files():
  files = sorted(glob.glob(os.path.join(WT, "docs", "user_guide", "example_files", "*.aspot")))
  files.append(os.path.join(WT, "docs", "quick_start", "basak.aspot"))
  files.extend(sorted(glob.glob(os.path.join(WT, "tests", "config", "config_resources", "*.aspot"))))
  return files

MODIFIER_MODEL = u"""[Pair]
A-A : sum(as.buck 1000.0 0.3 32.0, as.constant 1.0, >2.0 as.morse 1.2 2.1 0.4)
A-B : product(as.buck 1000.0 0.2 32.0, as.polynomial 0.0 2.0, truncate 2.5)
A-C : pow(sum(as.constant 1.5, as.polynomial 0 0.1), as.constant 2)
B-B : trans(as.buck 1000.0 0.1 32.0, as.constant 2)
B-C : spline(>0 as.zbl 14 8 >=0.8 exp_spline >=1.4 as.buck 180003 0.3 32.0)
C-C : spline(as.buck 1000 0.3 0 >1.2 buck4_spline 2.1 >2.6 as.buck 0 1 27.0)
C-D : >0 as.lj 0.1 2.5 >=3.0 sum(born 800 0.25, as.coul 1 -1) >6 as.zero
D-D : as.buck4 11272.6 0.1363 134.0 1.2 2.1 2.6
D-E : tab
E-E : pow(as.constant 2, as.constant 3, as.constant 2)

[Potential-Form]
truncate(rij, cutoff) = erfc(4*(rij-cutoff))/2.0
born(r, A, rho) = A*exp(-r/rho)

[Table-Form:tab]
interpolation : cubic_spline
x : 0.0 1.0 2.0 3.5 5.0 8.0
y : 9.0 2.0 -1.0 -0.4 -0.1 0.0
"""

MALFORMED = [
  ("unknown_modifier", u"[Pair]\nA-B : nosuchmod(as.buck 1 0.2 3)\n"),
  ("unknown_form", u"[Pair]\nA-B : as.nosuch 1 0.2 3\n"),
  ("unknown_target", u"[Tabulation]\ntarget : nosuch\n[Pair]\nA-B : as.buck 1 0.2 3\n"),
  ("lower_lammps_target", u"[Tabulation]\ntarget : lammps\n[Pair]\nA-B : as.buck 1 0.2 3\n"),
  ("trans_one_arg", u"[Pair]\nA-B : trans(as.buck 1 0.2 3)\n"),
  ("trans_not_constant", u"[Pair]\nA-B : trans(as.buck 1 0.2 3, as.buck 1 0.2 3)\n"),
  ("trans_modifier_arg", u"[Pair]\nA-B : trans(as.buck 1 0.2 3, sum(as.constant 1))\n"),
  ("bad_param_count", u"[Pair]\nA-B : as.buck 1 0.2\n"),
  ("bad_pair_key", u"[Pair]\nA-B-C : as.buck 1 0.2 3\n"),
  ("dup_pair", u"[Pair]\nA-B : as.buck 1 0.2 3\nB-A : as.buck 1 0.2 3\n"),
  ("all_three", u"[Tabulation]\ntarget : LAMMPS\nnr : 10\ndr : 0.1\ncutoff : 0.9\n[Pair]\nA-B : as.buck 1 0.2 3\n"),
  ("dr_alone", u"[Tabulation]\ntarget : LAMMPS\ndr : 0.1\n[Pair]\nA-B : as.buck 1 0.2 3\n"),
  ("nr_text", u"[Tabulation]\ntarget : LAMMPS\nnr : ten\n[Pair]\nA-B : as.buck 1 0.2 3\n"),
  ("dlpoly_nr", u"[Tabulation]\ntarget : DL_POLY\nnr : 10\ncutoff : 5\n[Pair]\nA-B : as.buck 1 0.2 3\n"),
  ("spline_parts", u"[Pair]\nA-B : spline(as.buck 1 0.2 3 >1 exp_spline)\n"),
  ("spline_exp_params", u"[Pair]\nA-B : spline(as.buck 1 0.2 3 >1 exp_spline 1.0 >2 as.buck 1 0.2 3)\n"),
  ("spline_rmin", u"[Pair]\nA-B : spline(as.buck 1 0.2 3 >1 buck4_spline 5.0 >2 as.buck 1 0.2 3)\n"),
  ("table_xy_odd", u"[Pair]\nA-B : t\n[Table-Form:t]\nxy : 1 2 3\n"),
  ("no_pair", u"[Tabulation]\ntarget : LAMMPS\n"),
  ("not_ini", u"this is not an ini file\n"),
  ("placeholder", u"[Pair]\nA-B : as.buck ${nope} 0.2 3\n"),
  ("setfl_no_embed", u"[Tabulation]\ntarget : setfl\n[Pair]\nA-A : as.buck 1 0.2 3\n"),
  ("fs_bad_key", u"[Tabulation]\ntarget : setfl_fs\n[EAM-Embed]\nA : as.sqrt 1\n[EAM-Density]\nA>A : as.constant 1\n"),
]

def potable_cli(cli_args):
  """Run the body of potable's main() in-process, returning stdout + exit status"""
  out = io.StringIO()
  err = io.StringIO()
  status = "none"
  with contextlib.redirect_stdout(out), contextlib.redirect_stderr(err):
    try:
      p, args = potable._parse_command_line(cli_args)
      try:
        potable._do_tabulation(p, args)
      except ConfigurationException as e:
        p.error("configuration error - {}".format(e))
    except SystemExit as e:
      status = "exit:{}".format(e.code)
  errlines = [l for l in err.getvalue().splitlines() if not l.startswith("usage:") and not l.startswith(" ")]
  # argparse prefixes errors with the program name (sys.argv[0]) : remove it
  errlines = [l.split(": error: ", 1)[-1] for l in errlines]
  return "{}|{}|{}".format(status, out.getvalue(), "\n".join(errlines))

def digest_lines():
  lines = []
  add = lines.append

  # 1. Python API: combinators and forms with derivatives
  buck = pforms.buck(1000.0, 0.3, 32.0)
  morse = pforms.morse(1.2, 2.1, 0.4)
  poly = pforms.polynomial(1.0, -3.0, 0.5)
  combos = [
    ("plus", ap.plus(buck, morse)),
    ("product", ap.product(buck, poly)),
    ("pow", ap.pow(ap.plus(pforms.constant(6.0), poly), pforms.constant(2.5))),
    ("plus_noderiv", ap.plus(buck, lambda r: 1.0/r)),
    ("nested", ap.product(ap.plus(buck, morse), ap.pow(pforms.constant(2.0), poly))),
  ]
  for name, f in combos:
    for r in RS:
      vals = [f(r)]
      if hasattr(f, "deriv"):
        vals.append(f.deriv(r))
      if hasattr(f, "deriv2"):
        vals.append(f.deriv2(r))
      add("api {} {} {}".format(name, r, " ".join(fmt(v) for v in vals)))

  # 2. Modifier model through the config route: values, derivs, all pair targets
  tab = Configuration().read(io.StringIO(MODIFIER_MODEL))
  for p in tab.potentials:
    f = p.potentialFunction
    add("mod {}-{} deriv={} deriv2={}".format(p.speciesA, p.speciesB, hasattr(f, "deriv"), hasattr(f, "deriv2")))
    for r in RS:
      vals = [p.energy(r), p.force(r)]
      if hasattr(f, "deriv2"):
        vals.append(f.deriv2(r))
      add("mod {}-{} {} {}".format(p.speciesA, p.speciesB, r, " ".join(fmt(v) for v in vals)))
  for target in PAIR_TARGETS:
    text = set_target(MODIFIER_MODEL, target, "cutoff : 6.0\nnr : 24")
    add("modtab {} {}".format(target, outcome(tabulate_text, text)))
    text = set_target(MODIFIER_MODEL, target, "cutoff : 2.2\ndr : 0.1")
    add("modtab_dr {} {}".format(target, outcome(tabulate_text, text)))

  # 3. Documentation / test models, for each relevant target
  for fname in model_files():
    with open(fname) as infile:
      text = infile.read()
    short = os.path.basename(fname)
    add("file {} asis {}".format(short, outcome(tabulate_text, text)))
    for target in PAIR_TARGETS + EAM_TARGETS + FS_TARGETS:
      ttext = set_target(text, target, "cutoff : 6.0\nnr : 16\ncutoff_rho : 40.0\nnrho : 12")
      add("file {} {} {}".format(short, target, outcome(tabulate_text, ttext)))
    # filtering and overrides
    cp = ConfigParser(io.StringIO(text))
    add("items {} {}".format(short, hashlib.sha256(repr(_query_actions._list_items(cp)).encode("utf-8")).hexdigest()))
    add("sections {} {} {}".format(short, sorted(cp.parsed_sections), cp.orphan_sections))
    add("tabsection {} {!r}".format(short, cp.tabulation))
    add("file {} include_O_U {}".format(short, outcome(tabulate_text, text, include = ["O", "U", "Al", "A"])))
    add("file {} exclude_O {}".format(short, outcome(tabulate_text, text, exclude = ["O", "B"])))

  # 4. Malformed input: exception types and messages
  for name, text in MALFORMED:
    add("bad {} {}".format(name, outcome(tabulate_text, text)))

  # 5. Overrides through the API
  o = ConfigParserOverrideTuple
  base = u"[Tabulation]\ntarget : LAMMPS\nnr : 12\ncutoff : 5.5\n[Pair]\nA-B : as.buck 1000 0.2 3\nB-B : as.lj 0.2 2.0\n"
  add("override {}".format(outcome(tabulate_text, base, overrides = [o("Pair", "A-B", "as.buck 900 0.2 3")])))
  add("remove {}".format(outcome(tabulate_text, base, overrides = [o("Pair", "B-B", None)])))
  add("add {}".format(outcome(tabulate_text, base, additional = [o("Pair", "A-A", "as.constant 2")])))
  add("override_missing {}".format(outcome(tabulate_text, base, overrides = [o("Pair", "C-C", "as.constant 2")])))
  add("add_existing {}".format(outcome(tabulate_text, base, additional = [o("Pair", "A-B", "as.constant 2")])))

  # 6. potable command line (existing flags)
  basak = os.path.join(WT, "docs", "quick_start", "basak.aspot")
  fs = os.path.join(WT, "docs", "user_guide", "example_files", "finnis_sinclair_eam.aspot")
  for cli in [
    [basak, "--list-items"],
    [basak, "-l", "--include-species", "O"],
    [basak, "--list-item-labels"],
    [basak, "--item-value", "Tabulation:target"],
    [basak, "--item-value", "Tabulation:nosuch"],
    [basak, "--item-value", "nocolon"],
    [basak, "--list-items", "--override-item", "Tabulation:target=GULP"],
    [basak, "--list-items", "--override-item", "Tabulation:nosuch=GULP"],
    [basak, "--list-items", "--add-item", "Tabulation:target=GULP"],
    [basak, "--list-items", "--remove-item", "Tabulation:target"],
    [basak, "--list-items", "--list-item-labels"],
    [basak],
    [fs, "--list-items"],
    [fs, "--list-item-labels", "--exclude-species", "A"],
  ]:
    add("cli {} -> {}".format(" ".join(os.path.basename(c) for c in cli), hashlib.sha256(potable_cli(cli).encode("utf-8")).hexdigest()))

  # 7. writePotentials low level API
  pots = [ap.Potential("A", "B", buck), ap.Potential("B", "B", ap.plus(buck, morse))]
  for otype in ["LAMMPS", "DL_POLY"]:
    out = io.StringIO()
    ap.writePotentials(otype, pots, 6.0, 20, out)
    add("writePotentials {} {}".format(otype, hashlib.sha256(out.getvalue().encode("utf-8")).hexdigest()))
  return lines

def digest():
  lines = digest_lines()
  text = "\n".join(lines)
  return hashlib.sha256(text.encode("utf-8")).hexdigest(), lines

if __name__ == "__main__":
  d, lines = digest()
  if "-v" in sys.argv:
    print("\n".join(lines))
  print("EXISTING-BEHAVIOUR DIGEST:", d, "({} lines)".format(len(lines)))

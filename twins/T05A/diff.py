"""Differential script for twin A (Custom_SplinePotential region dispatch / _init_deriv).

Prints a sha256 digest over repr() of every result / exception produced."""
import hashlib, io, math, sys

import atsim.potentials
from atsim.potentials import potentialforms, plus
from atsim.potentials.spline import (Spline_Point, Exp_Spline, Buck4_Spline,
  Custom_SplinePotential, SplinePotential, Buck4_SplinePotential)
from atsim.potentials.config import Configuration

LOG = []

def rec(label, thunk):
  try:
    v = thunk()
    LOG.append("%s = %r" % (label, v))
  except Exception as e:
    LOG.append("%s ! %s: %s" % (label, type(e).__name__, e))

GRID = [0.0, 1e-9, 0.3, 0.7999999, 0.8, 0.8000001, 1.0, 1.2, 1.3999, 1.4, 1.4001, 2.0, 2.5, 3.0,
        3.0000001, 5.0, 9.99, float("inf"), float("-inf"), float("nan"), -1.0, 1, 2]

def pyfunc_a(r):
  return 3.0*math.exp(-r/0.4) + 0.25

def pyfunc_b(r):
  return -2.0/(r+0.5)**3

class WithDerivOnly(object):
  def __call__(self, r):
    return 0.5*r**2 + 1.0
  def deriv(self, r):
    return r

class WithDeriv2Only(object):
  def __call__(self, r):
    return 4.0/(r+1.0)
  def deriv2(self, r):
    return 8.0/(r+1.0)**3

def exercise(name, pot):
  rec(name+".type", lambda: type(pot).__name__)
  for attr in ("deriv", "deriv2", "_deriv", "_deriv2"):
    rec(name+".has_"+attr, lambda attr=attr: hasattr(pot, attr))
  rec(name+".detachmentX", lambda: pot.detachmentX)
  rec(name+".attachmentX", lambda: pot.attachmentX)
  rec(name+".coeffs", lambda: tuple(pot.splineCoefficients))
  rec(name+".start_is", lambda: pot.startPotential is pot._detach_point.potential_function)
  rec(name+".end_is", lambda: pot.endPotential is pot._attach_point.potential_function)
  rec(name+".interp_is", lambda: pot.interpolationFunction is pot._spline)
  for r in GRID:
    rec("%s(%r)" % (name, r), lambda: pot(r))
    rec("%s._deriv(%r)" % (name, r), lambda: pot._deriv(r))
    rec("%s._deriv2(%r)" % (name, r), lambda: pot._deriv2(r))
    if hasattr(pot, "deriv"):
      rec("%s.deriv(%r)" % (name, r), lambda: pot.deriv(r))
    if hasattr(pot, "deriv2"):
      rec("%s.deriv2(%r)" % (name, r), lambda: pot.deriv2(r))
  rec(name+"(str)", lambda: pot("abc"))
  rec(name+"(None)", lambda: pot(None))
  rec(name+"._deriv(None)", lambda: pot._deriv(None))
  rec(name+"._deriv2('x')", lambda: pot._deriv2("x"))

zbl = potentialforms.zbl(14, 8)
buck = potentialforms.buck(18003.7572, 1.0/4.87318, 133.5381)
bks = plus(buck, potentialforms.coul(2.4, -1.2))
bm = potentialforms.bornmayer(1822.0, 0.3)
disp = potentialforms.buck(0.0, 1.0, 27.0)

exercise("exp_zbl_buck", SplinePotential(zbl, buck, 0.8, 1.4))
exercise("exp_zbl_bks", SplinePotential(zbl, bks, 0.8, 1.4))
exercise("exp_py_py", SplinePotential(pyfunc_a, pyfunc_b, 1.0, 3.0))
exercise("exp_py_buck", SplinePotential(pyfunc_a, buck, 0.8, 2.5))
exercise("exp_derivonly", SplinePotential(WithDerivOnly(), pyfunc_a, 1.0, 2.0))
exercise("exp_deriv2only", SplinePotential(pyfunc_a, WithDeriv2Only(), 1.0, 2.0))
exercise("b4_bm_disp", Buck4_SplinePotential(bm, disp, 1.2, 2.5, 2.0))
exercise("b4_py_py", Buck4_SplinePotential(pyfunc_a, pyfunc_b, 1.0, 3.0, 1.7))
exercise("custom_exp", Custom_SplinePotential(Exp_Spline(Spline_Point(zbl, 0.5), Spline_Point(bks, 1.1))))
exercise("custom_b4", Custom_SplinePotential(Buck4_Spline(Spline_Point(bm, 1.0), Spline_Point(disp, 3.0), 2.2)))

# A plain python function used as the interpolating object - it has to quack like a spline.
class FakeSpline(object):
  def __init__(self, dp, ap):
    self.detach_point = dp
    self.attach_point = ap
    self.spline_coefficients = (1, 2, 3)
  def __call__(self, r):
    return 7.0 - r
exercise("custom_fake", Custom_SplinePotential(FakeSpline(Spline_Point(pyfunc_a, 1.0), Spline_Point(pyfunc_b, 2.0))))
rec("custom_bad", lambda: Custom_SplinePotential(object()))
rec("custom_none", lambda: Custom_SplinePotential(None))

# Subclass overriding the public properties - dispatch through overridden values must be unchanged.
class Shifted(SplinePotential):
  @property
  def detachmentX(self):
    return 1.0
  @property
  def attachmentX(self):
    return 1.2
exercise("shifted", Shifted(zbl, buck, 0.8, 1.4))

class SwapStart(SplinePotential):
  @property
  def startPotential(self):
    return pyfunc_a
  @property
  def endPotential(self):
    return pyfunc_b
exercise("swapstart", SwapStart(zbl, buck, 0.8, 1.4))

# Through the configuration system + tabulation writers.
CFGS = {
"lammps_exp" : u"""[Tabulation]
target : LAMMPS
cutoff : 6.0
nr : 400

[Potential-Form]
bks(r, qi, qj, A, rho, C) = as.coul(r, qi,qj) + as.buck(r, A, rho, C)

[Pair]
Si-O = spline(as.zbl 14 8 >=0.8 exp_spline >=1.4 bks 2.4 -1.2 18003.7572 0.2052048149 133.5381)
O-O = spline(as.zbl 8 8 >=0.9 exp_spline >=1.9 as.buck 1388.7730 0.3623188 175.0)
""",
"dlpoly_b4" : u"""[Tabulation]
target : DL_POLY
cutoff : 8.0
nr : 300

[Pair]
O-O = spline(as.bornmayer 11272.6 0.1363 >=1.2 buck4_spline 2.1 >=2.6 as.buck 0 1.0 134.0)
U-O = sum(as.constant 0.5, spline(>0 as.bornmayer 1000 0.3 >=1.0 exp_spline >=2.0 as.buck 0 1.0 20.0))
""",
"gulp_mixed" : u"""[Tabulation]
target : GULP
cutoff : 5.0
dr : 0.05

[Potential-Form]
pyf(r, a) = a * r^2 + 1

[Pair]
A-B = spline(pyf 2.0 >=1.0 exp_spline >=2.0 pyf 0.5)
B-B = spline(as.zbl 10 10 >=0.6 buck4_spline 1.0 >=1.5 pyf 0.1)
""",
}

for name in sorted(CFGS):
  def run(name = name):
    tab = Configuration().read(io.StringIO(CFGS[name]))
    out = io.StringIO()
    tab.write(out)
    return hashlib.sha256(out.getvalue().encode("utf8")).hexdigest(), len(out.getvalue())
  rec("cfg."+name, run)
  def derivs(name = name):
    tab = Configuration().read(io.StringIO(CFGS[name]))
    res = []
    for p in sorted(tab.potentials, key = lambda p: (p.speciesA, p.speciesB)):
      f = p.potentialFunction
      res.append((p.speciesA, p.speciesB, hasattr(f, "deriv"), hasattr(f, "deriv2"),
        [p.energy(r) for r in (0.5, 1.0, 1.5, 2.0, 2.6, 4.0)],
        [p.force(r) for r in (0.5, 1.0, 1.5, 2.0, 2.6, 4.0)]))
    return res
  rec("cfgvals."+name, derivs)

text = "\n".join(LOG)
if "-v" in sys.argv:
  print(text)
print("records:", len(LOG))
print("sha256:", hashlib.sha256(text.encode("utf8")).hexdigest())

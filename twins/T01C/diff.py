"""Differential script for twin C (pair_tabulation.py: _r_value_iterator, GULP/Excel/LAMMPS/DLPOLY
tabulation classes; atsim.potentials.writePotentials() dispatch).
Prints one sha256 digest over all outputs / exception type names."""
import hashlib, io, os, sys, types
from decimal import Decimal
from fractions import Fraction

import atsim.potentials as P
from atsim.potentials import pair_tabulation as PT
from atsim.potentials.config import Configuration

H = hashlib.sha256()
NCASE = [0]

def rec(label, thunk):
  NCASE[0] += 1
  try:
    v = thunk()
    s = "OK:" + repr(v)
  except BaseException as e:
    s = "EXC:" + type(e).__name__ + ":" + str(e)
  H.update(("%s=>%s\n" % (label, s)).encode("utf-8"))

class Rec(io.StringIO):
  def __init__(self):
    super().__init__()
    self.calls = []
  def write(self, s):
    self.calls.append(s)
    return super().write(s)

class Boom(Exception):
  pass

class Trace(object):
  def __init__(self, f, log, name, fail_at=None):
    self.f, self.log, self.name, self.fail_at = f, log, name, fail_at
    self.n = 0
  def __call__(self, r):
    self.n += 1
    self.log.append((self.name, "E", repr(r)))
    if self.fail_at is not None and self.n == self.fail_at:
      raise Boom("fail")
    return self.f(r)

class Duck(object):
  def __init__(self, a, b, log):
    self.speciesA, self.speciesB, self.log = a, b, log
  def energy(self, r):
    self.log.append(("duck", "E", repr(r)))
    return 1.0 / (r + 1.0)
  def force(self, r):
    self.log.append(("duck", "F", repr(r)))
    return 1.0 / (r + 1.0) ** 2

def safe(f):
  def w(r):
    return f(r) if r else 0.0
  return w

def pots(log=None, fail_at=None):
  log = [] if log is None else log
  return [
    P.Potential("Gd", "O", Trace(safe(P.buck(1000.0, 0.3, 32.0)), log, "buck", fail_at)),
    P.Potential("O", "O", Trace(lambda r: 4.0 / (0.5 + r) ** 2, log, "inv2")),
    P.Potential(u"Zr", 7, Trace(safe(P.plus(P.bornmayer(900.0, 0.25), P.coul(2.0, -2.0))), log, "bm")),
    P.Potential(u"Al", u"Al", Trace(lambda r: 3, log, "const")),
  ]

CUTOFFS = (6.5, 10, 0.0, -2.0, Fraction(13, 2), Decimal("6.5"), "6.5", None, float("nan"), float("inf"), 1e-30)
NRS = (1, 2, 3, 8, 9, 12, 101, 0, -1, 4.0, 2.5, "5", None, True)

# 1. _r_value_iterator directly
class FakeTab(object):
  def __init__(self, cutoff, nr):
    self.cutoff, self.nr = cutoff, nr
def rvals(cutoff, nr, use_class):
  tab = PT.GULP_PairTabulation([], cutoff, nr) if use_class else FakeTab(cutoff, nr)
  it = PT._r_value_iterator(tab)
  res = [type(it).__name__, isinstance(it, types.GeneratorType)]
  # laziness: mutate before first next()
  res.append(repr(list(it)))
  res.append(repr(list(it)))
  return res
for cutoff in CUTOFFS:
  for nr in NRS:
    rec("rv/%r/%r" % (cutoff, nr), lambda: rvals(cutoff, nr, False))
    rec("rvc/%r/%r" % (cutoff, nr), lambda: rvals(cutoff, nr, True))
def lazy():
  tab = FakeTab(4.0, 5)
  it = PT._r_value_iterator(tab)
  tab.nr = 3
  a = next(it)
  b = next(it)
  tab.cutoff = 8.0
  tab.nr = 9
  return [a, b] + list(it)
rec("lazy", lazy)
rec("lazy-noattr", lambda: type(PT._r_value_iterator(object())).__name__)
rec("lazy-noattr2", lambda: list(PT._r_value_iterator(object())))

# 2. tabulation classes: properties + write
CLASSES = (PT.GULP_PairTabulation, PT.LAMMPS_PairTabulation, PT.DLPoly_PairTabulation)
def props(cls, cutoff, nr):
  pl = pots()
  t = cls(pl, cutoff, nr)
  res = [t.type, t.target, t.nr, t.cutoff, t.potentials is pl]
  try:
    res.append(repr(t.dr))
  except BaseException as e:
    res.append(type(e).__name__ + ":" + str(e))
  return res
def run_write(cls, cutoff, nr, plist_factory):
  log = []
  out = Rec()
  try:
    cls(plist_factory(log), cutoff, nr).write(out)
    status = "ok"
  except BaseException as e:
    status = type(e).__name__ + ":" + str(e)
  return (status, out.calls, log)
for cls in CLASSES:
  for cutoff in CUTOFFS:
    for nr in NRS:
      rec("props/%s/%r/%r" % (cls.__name__, cutoff, nr), lambda: props(cls, cutoff, nr))
      rec("write/%s/%r/%r" % (cls.__name__, cutoff, nr), lambda: run_write(cls, cutoff, nr, lambda log: pots(log)))

G = PT.GULP_PairTabulation
for fail_at in (1, 2, 5, 6, 7):
  rec("fail/%d" % fail_at, lambda: run_write(G, 5.0, 6, lambda log: pots(log, fail_at)))
rec("duck", lambda: run_write(G, 5.0, 6, lambda log: [Duck("A", "B", log), Duck(1, None, log)]))
rec("gen", lambda: run_write(G, 5.0, 6, lambda log: (p for p in pots(log))))
rec("empty", lambda: run_write(G, 5.0, 6, lambda log: []))
rec("notiter", lambda: run_write(G, 5.0, 6, lambda log: 5))
rec("none", lambda: run_write(G, 5.0, 6, lambda log: None))
rec("badpot", lambda: run_write(G, 5.0, 6, lambda log: [object()]))
rec("badpot0", lambda: run_write(G, 5.0, 0, lambda log: [object()]))
rec("noenergy0", lambda: run_write(G, 5.0, 0, lambda log: [types.SimpleNamespace(speciesA="A", speciesB="B")]))
rec("noenergy", lambda: run_write(G, 5.0, 3, lambda log: [types.SimpleNamespace(speciesA="A", speciesB="B")]))
rec("returns-str", lambda: run_write(G, 5.0, 6, lambda log: [P.Potential("A", "B", lambda r: "x")]))
rec("returns-int", lambda: run_write(G, 5.0, 6, lambda log: [P.Potential("A", "B", lambda r: 3)]))
rec("returns-frac", lambda: run_write(G, 5.0, 6, lambda log: [P.Potential("A", "B", lambda r: Fraction(1, 3))]))
rec("returns-none", lambda: run_write(G, 5.0, 6, lambda log: [P.Potential("A", "B", lambda r: None)]))
rec("species-brace", lambda: run_write(G, 5.0, 3, lambda log: [P.Potential("{x}", "{0}", lambda r: r)]))

# _write_pot directly
def write_pot():
  res = []
  for cutoff, nr in ((5.0, 4), (5, 1), ("c", 0), ([1, 2], 3)):
    log = []
    out = Rec()
    t = G(None, cutoff, nr)
    for p in pots(log)[:2]:
      try:
        res.append(repr(t._write_pot(p, out)))
      except BaseException as e:
        res.append(type(e).__name__ + ":" + str(e))
    res.append(("".join(out.calls), log))
  return res
rec("write_pot", write_pot)

# base class
def base():
  t = PT.PairTabulation_AbstractBase(pots(), 4.0, 5, "X")
  res = [t.type, t.target, t.nr, t.cutoff, t.dr]
  try:
    t.write(Rec())
  except BaseException as e:
    res.append(type(e).__name__ + ":" + str(e))
  return res
rec("base", base)

# open_fp
def open_fp():
  import tempfile
  res = []
  d = tempfile.mkdtemp()
  for cls in CLASSES + (PT.Excel_PairTabulation,):
    fn = os.path.join(d, cls.__name__)
    with cls.open_fp(fn) as fp:
      res.append((cls.__name__, fp.mode))
  return res
rec("open_fp", open_fp)

# 3. Excel tabulation (uses _r_value_iterator)
def spots():
  return [p for p in pots() if isinstance(p.speciesB, str)]
def excel(cutoff, nr, plist):
  t = PT.Excel_PairTabulation(plist, cutoff, nr)
  wb = t.workbook
  res = [t.target, wb is t.workbook, wb.sheetnames]
  for ws in wb.worksheets:
    res.append([[c.value for c in row] for row in ws.iter_rows()])
  buf = io.BytesIO()
  t.write(buf)
  res.append(buf.getvalue()[:2])
  return res
for cutoff, nr in ((5.0, 6), (6.5, 1), (6.5, 0), (2, 3), ("a", 3), (5.0, "3"), (5.0, 2.5)):
  rec("excel/%r/%r" % (cutoff, nr), lambda: excel(cutoff, nr, spots()))
rec("excel-rev", lambda: excel(4.0, 4, list(reversed(spots()))))
rec("excel-dup", lambda: excel(4.0, 4, [P.Potential("B", "A", lambda r: 1.0), P.Potential("A", "B", lambda r: 2.0), P.Potential("C", "A", lambda r: 3.0)]))
rec("excel-mixed", lambda: excel(4.0, 4, pots()[2:3]))

# 4. public writePotentials() dispatch
def public(kind, cutoff, nr, *args):
  log = []
  out = Rec()
  try:
    r = P.writePotentials(kind, pots(log), cutoff, nr, out, *args)
    status = "ok:%r" % (r,)
  except BaseException as e:
    status = type(e).__name__ + ":" + str(e) + ":" + repr(isinstance(e, P.UnsupportedTabulationType))
  return (status, out.calls, log)
for kind in ("DL_POLY", "LAMMPS", "GULP", "gulp", "DLPOLY", "excel", "", None, 3, 2.5, ("GULP",), ["GULP"], {"GULP": 1}, b"GULP", u"GULP ", float("nan")):
  for cutoff, nr in ((6.5, 8), (5.0, 11), (5.0, 0), ("x", 8), (5.0, None)):
    rec("pub/%r/%r/%r" % (kind, cutoff, nr), lambda: public(kind, cutoff, nr))
class K(str):
  def __hash__(self):
    raise Boom("hash")
rec("pub/hashboom", lambda: public(K("GULP"), 5.0, 8))
class E(object):
  def __init__(self): self.n = 0
  def __hash__(self): return hash("GULP")
  def __eq__(self, o):
    self.n += 1
    return True
def eqcount():
  e = E()
  r = public(e, 5.0, 4)
  return (r[0][:40], e.n)
rec("pub/eqcount", eqcount)
import inspect
rec("pub/sig", lambda: (str(inspect.signature(P.writePotentials)).replace(repr(sys.stdout), "STDOUT"), P.writePotentials.__defaults__[0] is sys.stdout,
                        P.writePotentials.__name__, P.writePotentials.__doc__))
rec("pub/kw", lambda: P.writePotentials(outputType="GULP", potentialList=pots(), cutoff=3.0, gridPoints=4, out=Rec()))
rec("pub/toomany", lambda: public("GULP", 3.0, 4, 1))
def legacy(cutoff, nr):
  log = []
  out = Rec()
  try:
    r = P._LAMMPS_writePotentials(pots(log), cutoff, nr, out)
    status = "ok:%r" % (r,)
  except BaseException as e:
    status = type(e).__name__ + ":" + str(e)
  return (status, out.calls, log)
for cutoff, nr in ((6.5, 8), (5.0, 1), (5.0, 0), ("x", 8), (5.0, None), (5.0, "4"), (Fraction(5, 2), 3)):
  rec("legacy/%r/%r" % (cutoff, nr), lambda: legacy(cutoff, nr))
rec("exc", lambda: (issubclass(P.UnsupportedTabulationType, Exception), P.UnsupportedTabulationType.__mro__[1].__name__))

# 5. via .ini configuration
INI = u"""[Tabulation]
target : %s
cutoff : %s
nr : %s

[Pair]
O-O : as.zero >0.01 as.buck 9547.96 0.2192 32.0
U-O : sum(as.bornmayer 1761.775 0.35643, as.constant 1.5)
Zr-O : as.polynomial 1.0 -2.0 0.5 >2.0 as.zero
"""
def via_ini(target, cutoff, nr):
  tab = Configuration().read(io.StringIO(INI % (target, cutoff, nr)))
  if target == "excel":
    return (tab.target, tab.type, tab.nr, tab.cutoff, [[[c.value for c in row] for row in ws.iter_rows()] for ws in tab.workbook.worksheets])
  out = Rec()
  tab.write(out)
  return (tab.target, tab.type, tab.nr, tab.cutoff, tab.dr, out.calls)
for target in ("GULP", "LAMMPS", "DLPOLY", "excel"):
  for cutoff, nr in (("6.5", "12"), ("10.0", "500"), ("4", "7"), ("2.5", "2"), ("2.5", "1")):
    rec("ini/%s/%s/%s" % (target, cutoff, nr), lambda: via_ini(target, cutoff, nr))

print("cases", NCASE[0])
print("digest", H.hexdigest())

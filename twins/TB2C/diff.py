"""Differential script for twin C: the route from the parsed views to the builders.

Builds tabulations with Configuration().read_from_parser() from plain and from
filtered parsers (include and exclude sets, several element orders, several
tabulation targets selected through overrides), writes them to memory and hashes
the bytes; also records the four species keyed views of the parser that was
handed to the builders, the species lists of the resulting tabulations and the
error raised for malformed models.  Prints one sha256 digest of everything
observed.

Not part of the digest (the clean tree has no such method): when the parser has
the public method added by twin C, the script checks that it returns the same
thing as the properties, on plain and on filtered parsers."""
import hashlib
import io
import os
import sys

from atsim.potentials.config import Configuration, ConfigParser, FilteredConfigParser, ConfigParserOverrideTuple

ROOT = os.path.dirname(os.path.dirname(os.path.abspath(__file__)))
VIEWS = ["pair", "eam_embed", "eam_density", "eam_density_fs"]
NEW_METHOD = "species_entries"

INLINE = {
"pair_only": u"""
[Tabulation]
target : LAMMPS
cutoff : 6.5
nr : 131

[Pair]
O-O  = as.buck 1633.01 0.327022 3.94879 >=3.0 as.zero
Si - O = >0.1 sum(as.buck 1000.0 0.3 0.0, >=1.0 as.constant 2.0) >=5.0 as.zero
Si-Si: product(as.constant 2.0, as.polynomial 1.0 2.0 3.0)
Mg-O : as.buck 1000.0 0.3 0.0
Si-Mg : as.buck 100.0 0.3 0.0
Mg-Mg : as.zero
""",
"eam_std": u"""
[Tabulation]
target : setfl
nr : 200
dr : 0.02
nrho : 200
drho : 0.02

[Pair]
Al-Al = as.buck 100.0 0.3 1.0
Cu-Al = as.buck 200.0 0.3 2.0
Cu-Cu = as.buck 300.0 0.3 3.0
Ag-Cu = as.buck 300.0 0.3 3.0
Al-Ag = as.buck 350.0 0.3 3.0

[EAM-Embed]
Al = as.sqrt -1.0
Cu  = as.sqrt -2.0
Ag = as.polynomial 0.0 1.0 2.0

[EAM-Density]
Cu = dens 2.0 3.0
Al = dens 1.0 2.0
Ag = >=0 dens 1.0 2.0 >=3.0 as.zero

[Potential-Form]
dens(r, a, b) = a*exp(-b*r)

[Species]
Al.atomic_mass = 26.98
Cu.atomic_number = 29
""",
"eam_fs": u"""
[Tabulation]
target : setfl_fs
nr : 200
dr : 0.02
nrho : 150
drho : 0.02

[Pair]
Al-Al = as.buck 100.0 0.3 1.0
Al-Fe = as.buck 200.0 0.3 2.0
Fe-Fe = as.buck 300.0 0.3 3.0
Ni-Fe = as.buck 310.0 0.3 3.0
Ni-Al = as.buck 320.0 0.3 3.0
Ni-Ni = as.buck 330.0 0.3 3.0

[EAM-Embed]
Al = as.sqrt -1.0
Fe = as.sqrt -2.0
Ni = as.sqrt -3.0

[EAM-Density]
Al->Al = dens 1.0 2.0
Fe -> Al = dens 1.5 2.0
Al->Fe = dens 2.5 2.0
Fe->Fe = >=0.5 dens 3.0 2.0
Ni->Ni = dens 3.5 2.0
Ni->Al = dens 3.6 2.0
Al->Ni = dens 3.7 2.0
Fe->Ni = dens 3.8 2.0
Ni->Fe = dens 3.9 2.0

[Potential-Form]
dens(r, a, b) = a*exp(-b*r)
""",
"adp": u"""
[Tabulation]
target : eam_adp
nr : 150
dr : 0.04
nrho : 150
drho : 0.04

[Pair]
Al-Al = as.buck 100.0 0.3 1.0
Cu-Al = as.buck 200.0 0.3 2.0
Cu-Cu = as.buck 300.0 0.3 3.0

[EAM-Embed]
Al = as.sqrt -1.0
Cu = as.sqrt -2.0

[EAM-Density]
Al = dens 1.0 2.0
Cu = dens 2.0 3.0

[EAM-ADP-Dipole]
Al-Al = as.polynomial 0.0 0.1
Al-Cu = as.polynomial 0.0 0.2
Cu-Cu = as.polynomial 0.0 0.3

[EAM-ADP-Quadrupole]
Al-Al = as.polynomial 0.0 0.01
Cu-Al = as.polynomial 0.0 0.02
Cu-Cu = as.polynomial 0.0 0.03

[Potential-Form]
dens(r, a, b) = a*exp(-b*r)
""",
"odd_labels": u"""
[Pair]
A-AA = as.zero
AA-AA = as.zero
a-A = as.zero
A-A = as.zero

[EAM-Embed]
A = as.zero
AA = as.zero
a = as.zero

[EAM-Density]
AA = as.zero
A = as.zero
""",
"malformed_pair": u"""
[Pair]
A-B = as.buck 1.0 2.0 3.0
B-B = as.buck 1.0 ( 3.0
[EAM-Embed]
A = 1.0 as.sqrt
[EAM-Density]
A = as.zero
A->B->C = as.zero
""",
"no_sections": u"""
[Tabulation]
target : LAMMPS
""",
}


OT = ConfigParserOverrideTuple

def target(name):
  return [OT(u"Tabulation", u"target", name)]

# model -> list of (label, overrides, additional)
VARIANTS = {
  "pair_only": [
    ("LAMMPS", [], []),
    ("DL_POLY", target(u"DL_POLY") + [OT(u"Tabulation", u"nr", u"132")], []),
    ("GULP", target(u"GULP"), []),
    ("reversed_pairs", [OT(u"Pair", u"Si-Mg", None)], [OT(u"Pair", u"Mg-Si", u"as.buck 100.0 0.3 0.0")]),
  ],
  "eam_std": [
    ("setfl", [], []),
    ("DL_POLY_EAM", target(u"DL_POLY_EAM"), []),
    ("setfl+species", [], [OT(u"Species", u"Ag.atomic_mass", u"107.9"), OT(u"Species", u"Ag.lattice_type", u"fcc")]),
    ("as_fs_builder", target(u"setfl_fs"), []),
  ],
  "eam_fs": [
    ("setfl_fs", [], []),
    ("DL_POLY_EAM_fs", target(u"DL_POLY_EAM_fs"), []),
    ("as_std_builder", target(u"setfl"), []),
    ("missing_cross_density", [OT(u"EAM-Density", u"Ni->Fe", None), OT(u"EAM-Density", u"Fe->Ni", None)], []),
  ],
  "adp": [
    ("eam_adp", [], []),
    ("setfl", target(u"setfl"), []),
    ("no_dipole_for_Cu", [OT(u"EAM-ADP-Dipole", u"Cu-Cu", None)], []),
  ],
  "odd_labels": [
    ("LAMMPS", [], [OT(u"Tabulation", u"target", u"LAMMPS"), OT(u"Tabulation", u"cutoff", u"2.0"), OT(u"Tabulation", u"nr", u"21")]),
    ("setfl", [], [OT(u"Tabulation", u"target", u"setfl"), OT(u"Tabulation", u"cutoff", u"2.0"), OT(u"Tabulation", u"nr", u"21"), OT(u"Tabulation", u"cutoff_rho", u"2.0"), OT(u"Tabulation", u"nrho", u"21")]),
  ],
  "malformed_pair": [
    ("LAMMPS", [], [OT(u"Tabulation", u"target", u"LAMMPS"), OT(u"Tabulation", u"cutoff", u"2.0"), OT(u"Tabulation", u"nr", u"21")]),
    ("setfl", [], [OT(u"Tabulation", u"target", u"setfl"), OT(u"Tabulation", u"cutoff", u"2.0"), OT(u"Tabulation", u"nr", u"21"), OT(u"Tabulation", u"cutoff_rho", u"2.0"), OT(u"Tabulation", u"nrho", u"21")]),
    ("setfl_fs", [], [OT(u"Tabulation", u"target", u"setfl_fs"), OT(u"Tabulation", u"cutoff", u"2.0"), OT(u"Tabulation", u"nr", u"21"), OT(u"Tabulation", u"cutoff_rho", u"2.0"), OT(u"Tabulation", u"nrho", u"21")]),
  ],
  "no_sections": [
    ("LAMMPS", [], [OT(u"Tabulation", u"cutoff", u"2.0"), OT(u"Tabulation", u"nr", u"21")]),
    ("setfl", target(u"setfl"), [OT(u"Tabulation", u"cutoff", u"2.0"), OT(u"Tabulation", u"nr", u"21"), OT(u"Tabulation", u"cutoff_rho", u"2.0"), OT(u"Tabulation", u"nrho", u"21")]),
  ],
}

FILTERS = {
  "pair_only": [["O"], ["Si"], ["Si", "Mg"], ["Mg", "Si"], ["O", "Si"], ["Zz"], []],
  "eam_std": [["Al"], ["Cu"], ["Ag", "Al"], ["Al", "Ag"], ["Cu", "Al"], ["Ag", "Cu", "Al"], []],
  "eam_fs": [["Al"], ["Fe"], ["Ni", "Fe"], ["Fe", "Ni"], ["Al", "Fe"], ["Ni", "Al", "Fe"], []],
  "adp": [["Al"], ["Cu"], ["Cu", "Al"], []],
  "odd_labels": [["A"], ["AA"], ["a", "A"]],
  "malformed_pair": [["A"], ["B"]],
  "no_sections": [["A"]],
}

out = []
method_checks = []

def emit(*args):
  out.append(" | ".join(str(a) for a in args))

def attempt(thunk):
  try:
    return ("OK", thunk())
  except BaseException as e:
    return ("EXC", type(e).__module__ + "." + type(e).__name__ + ": " + str(e))

def species_of(tabulation):
  names = []
  for attr in ("potentials", "eam_potentials"):
    pots = getattr(tabulation, attr, None)
    if pots is None:
      continue
    for p in pots:
      if hasattr(p, "speciesA"):
        names.append((p.speciesA, p.speciesB))
      else:
        names.append(p.species)
  return names

def tabulate(cp):
  tabulation = Configuration().read_from_parser(cp)
  fp = io.StringIO()
  tabulation.write(fp)
  data = fp.getvalue().encode("utf8")
  return (type(tabulation).__name__, species_of(tabulation), len(data), hashlib.sha256(data).hexdigest())

def check_new_method(label, cp):
  if not hasattr(ConfigParser, NEW_METHOD):
    return
  for view in VIEWS:
    via_property = attempt(lambda: getattr(cp, view))
    via_method = attempt(lambda: getattr(cp, NEW_METHOD)(view))
    method_checks.append((label, view, via_property == via_method))
  method_checks.append((label, "bad-name", attempt(lambda: getattr(cp, NEW_METHOD)("potential_form"))[0] == "EXC"))

def observe(label, cp):
  for view in VIEWS:
    emit(label, view, repr(attempt(lambda: getattr(cp, view))))
  emit(label, "tabulate", repr(attempt(lambda: tabulate(cp))))
  # the parser can be used again after a tabulation was built from it
  emit(label, "tabulate#2", repr(attempt(lambda: tabulate(cp))))
  check_new_method(label, cp)

for name in VARIANTS:
  for vlabel, overrides, additional in VARIANTS[name]:
    status, cp = attempt(lambda: ConfigParser(io.StringIO(INLINE[name]), overrides=overrides, additional=additional))
    label = "{}/{}".format(name, vlabel)
    if status != "OK":
      emit(label, "construct", status, cp)
      continue
    observe(label + "/plain", cp)
    for species in FILTERS[name]:
      observe("{}/include={!r}".format(label, species), FilteredConfigParser(cp, include=species))
      observe("{}/exclude={!r}".format(label, species), FilteredConfigParser(cp, exclude=species))
    # filter of a filter
    if len(FILTERS[name]) > 2:
      first, second = FILTERS[name][0], FILTERS[name][1]
      observe("{}/exclude={!r}/exclude={!r}".format(label, first, second), FilteredConfigParser(FilteredConfigParser(cp, exclude=first), exclude=second))
      observe("{}/include={!r}/exclude={!r}".format(label, FILTERS[name][-2], second), FilteredConfigParser(FilteredConfigParser(cp, include=FILTERS[name][-2]), exclude=second))

# shipped models, filtered
SHIPPED = [
  ("tests/lammps_resources/CRG_U_Th.aspot", [["Th"], ["U", "O"], ["O"]]),
  ("tests/lammps_resources/AlFe_setfl_fs.aspot", [["Fe"], ["Al"]]),
  ("tests/lammps_resources/Al_Cu_adp.aspot", [["Cu"], ["Al"]]),
  ("tests/dl_poly_resources/CRG_Ce.aspot", [["Ce"], ["O"]]),
  ("tests/config/config_resources/setfl.aspot", [["Ga"], ["O", "Mg"]]),
]
SMALL = [OT(u"Tabulation", u"nr", u"24"), OT(u"Tabulation", u"nrho", u"20")]
for relpath, species_sets in SHIPPED:
  with io.open(os.path.join(ROOT, relpath), encoding="utf8") as infile:
    text = infile.read()
  base = ConfigParser(io.StringIO(text))
  overrides = [o for o in SMALL if base.raw_config_parser.has_option(o.section, o.key)]
  status, cp = attempt(lambda: ConfigParser(io.StringIO(text), overrides=overrides))
  if status != "OK":
    emit(relpath, "construct", status, cp)
    continue
  observe(relpath + "/plain", cp)
  for species in species_sets:
    observe("{}/include={!r}".format(relpath, species), FilteredConfigParser(cp, include=species))
    observe("{}/exclude={!r}".format(relpath, species), FilteredConfigParser(cp, exclude=species))

blob = "\n".join(out)
if "--dump" in sys.argv:
  print(blob)
print("observations:", len(out))
if method_checks:
  bad = [c for c in method_checks if not c[-1]]
  print("new method checks:", len(method_checks), "failed:", len(bad))
  for c in bad[:10]:
    print("  FAILED", c)
else:
  print("new method checks: method not present in this tree")
print("digest:", hashlib.sha256(blob.encode("utf8")).hexdigest())

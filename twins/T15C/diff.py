"""Differential script for twin C (atsim/potentials/tools/potable/__init__.py and _query_actions.py).

Runs the potable command line (main()) in-process for many argument combinations
capturing stdout, stderr, the exit status and the tabulated files, and calls the
query helpers directly on ConfigParser / FilteredConfigParser objects.
"""
import glob
import hashlib
import io
import logging
import os
import shutil
import sys
import tempfile

if os.environ.get("PYTHONHASHSEED") != "0":
  os.environ["PYTHONHASHSEED"] = "0"
  # set iteration order depends on the str hash seed: pin it so that digests are reproducible.
  # (wtpy.py has already chdir()ed into the worktree)
  os.execv(sys.executable, [sys.executable, "-W", "ignore", "/tmp/wtpy.py", os.getcwd(), os.path.abspath(sys.argv[0])] + sys.argv[1:])

from atsim.potentials.tools import potable
from atsim.potentials.tools.potable import _query_actions, _actions
from atsim.potentials.config import ConfigParser, FilteredConfigParser

WT = os.getcwd()
OUT = []

def emit(*args):
  OUT.append(" | ".join(str(a) for a in args))

def exc_chain(e):
  out = []
  while e is not None:
    out.append("{}:{}".format(type(e).__name__, e))
    e = e.__context__
  return out

MODELS = {}

MODELS["pair"] = """
[Tabulation]
target : LAMMPS
cutoff : 6.5
nr : 14

[Pair]
O-O = as.buck 1633.010242995040 0.327022 3.948787
U-U = as.buck 294.640906285709 0.327022 0.0
O-U = as.buck 693.648700 0.327022 0.0 >3.0 as.zero
Mg-O = mybuck 1.0 0.2

[Potential-Form]
mybuck(r, A, rho) = A*exp(-r/rho)

[Unrelated]
x = 1
y : two words

[Another Orphan]
k = v
"""

MODELS["variables"] = """
[Variables]
A_OO = 1633.0
rho = 0.327022

[Tabulation]
target : GULP
cutoff : 4.0
nr : 9

[Pair]
O-O = as.buck ${A_OO} ${rho} 3.948787
U-U = as.buck 294.640906285709 ${rho} 0.0
"""

MODELS["eam"] = """
[Tabulation]
target : setfl
cutoff : 5.0
nr : 11
cutoff_rho : 50.0
nrho : 13

[Species]
A.atomic_mass = 1
A.atomic_number = 1
Bq.atomic_mass = 2
Bq.atomic_number = 2

[EAM-Embed]
A = as.polynomial 0 1
Bq = as.zero

[EAM-Density]
A = as.polynomial 0 2
Bq = as.polynomial 0 3

[Pair]
A-Bq = as.buck 100.0 0.3 1.0
"""

MODELS["fs"] = """
[Tabulation]
target : setfl_fs
cutoff_rho : 0.01
nrho : 25
cutoff : 10.0
nr : 12

[Pair]
O-O = as.buck 1.0 0.2 0.0
Ga-O = as.buck 70.0 0.2 0.0
In-O = as.buck 36.0 0.20 0.0

[EAM-Density]
Ga->O : density 80000.0
In->O : density 70000.0

[EAM-Embed]
Ga : as.sqrt -0.15449392139449653
In : as.sqrt -0.010691242237852016

[Potential-Form]
density(r, C) = r/(C^12)
"""

MODELS["tableform"] = """
[Tabulation]
target :  LAMMPS
cutoff : 4.0
nr : 12

[Pair]
O-O = as.buck 1633.010242995040 0.327022 3.948787
O-U = tabulated
U-U = other

[Table-Form:tabulated]
interpolation : cubic_spline
xy :  0.0 1939.293892
      1.0 1188.215091
      2.0 726.7144999
      3.0 443.3947902
      4.5 269.6704607

[Table-Form:other]
interpolation : linear
x : 0.0 2.0 5.0
y : 10.0 5.0 0.0

[Misc]
note = hello
"""

MODELS["nopair"] = """
[Tabulation]
target : LAMMPS
"""

MODELS["empty"] = ""

MODELS["notarget"] = """
[Pair]
O-O = as.buck 1633.010242995040 0.327022 3.948787
"""

tmpdir = tempfile.mkdtemp(prefix = "twinC_")
PATHS = {}
for name, text in MODELS.items():
  PATHS[name] = os.path.join(tmpdir, name + ".aspot")
  with open(PATHS[name], "w") as f:
    f.write(text)
for name, rel in (("crg", "tests/lammps_resources/CRG_U_Th.aspot"), ("adp", "tests/lammps_resources/Al_Cu_adp.aspot"), ("zbl", "tests/lammps_resources/zbl_spline.aspot")):
  PATHS[name] = os.path.join(WT, rel)

OUTFILE = os.path.join(tmpdir, "out.table")

def scrub(s):
  return s.replace(tmpdir, "<TMP>").replace(WT, "<WT>")

def run_main(label, argv):
  emit("MAIN", label, scrub(" ".join(argv)))
  old = sys.argv, sys.stdout, sys.stderr
  so, se = io.StringIO(), io.StringIO()
  root = logging.getLogger()
  root.handlers[:] = []   # let potable's logging.basicConfig() bind to our stderr
  root.setLevel(logging.WARNING)
  if os.path.exists(OUTFILE):
    os.remove(OUTFILE)
  sys.argv = ["potable"] + list(argv)
  sys.stdout, sys.stderr = so, se
  try:
    try:
      potable.main()
      status = "returned"
    except SystemExit as e:
      status = "exit {!r}".format(e.code)
    except BaseException as e:
      status = "exc {}".format(exc_chain(e))
  finally:
    sys.argv, sys.stdout, sys.stderr = old
  emit("STATUS", scrub(status))
  emit("STDOUT", len(so.getvalue()), hashlib.sha256(scrub(so.getvalue()).encode()).hexdigest())
  emit("STDOUT-TEXT", repr(scrub(so.getvalue())[:1500]))
  emit("STDERR", repr(scrub(se.getvalue())))
  if os.path.exists(OUTFILE):
    with open(OUTFILE, "rb") as f:
      data = f.read()
    emit("FILE", len(data), hashlib.sha256(data).hexdigest())
  else:
    emit("FILE", None)

QUERY_FLAGS = [["--list-items"], ["-l"], ["--list-item-labels"]]

for name in sorted(PATHS):
  path = PATHS[name]
  for flags in QUERY_FLAGS:
    run_main(name, [path] + flags)
  if name != "adp":
    run_main(name, [path, OUTFILE])
  run_main(name, [path])

P = PATHS
CASES = [
  # item value
  ["--item-value", "Tabulation:target"],
  ["--item-value", "Pair:O-O"],
  ["--item-value", "Pair:o-o"],
  ["--item-value", "Pair:Nope"],
  ["--item-value", "Nope:x"],
  ["--item-value", "nocolon"],
  ["--item-value", "Unrelated:y"],
  ["--item-value", "Potential-Form:mybuck(r, A, rho)"],
  ["--item-value", "Table-Form:tabulated:interpolation"],
  ["--item-value", ""],
  # mutually exclusive
  ["--list-items", "--list-item-labels"],
  ["--list-items", "--item-value", "Pair:O-O"],
  # overrides
  ["-l", "-e", "Tabulation:nr=20"],
  ["-l", "-e", "Tabulation:nr=20", "Pair:O-O=as.zero", "-e", "Tabulation:nr=30"],
  ["-l", "--override-item", "Tabulation:nr=20", "-r", "Tabulation:nr"],
  ["-l", "-r", "Tabulation:nr", "-e", "Tabulation:nr=20"],
  ["-l", "-r", "Pair:O-O", "Pair:U-U", "-r", "Unrelated:x"],
  ["-l", "-r", "Pair:Nope"],
  ["-l", "-e", "Pair:Nope=as.zero"],
  ["-l", "-a", "Pair:Nope=as.zero"],
  ["-l", "-a", "Pair:O-O=as.zero"],
  ["-l", "-a", "Pair:Xe-Xe=as.zero", "Pair:Ar-Ar=as.buck 1 2 3", "-a", "New Section:key=value=more"],
  ["-l", "-a", "Pair:Xe-Xe=as.zero", "-e", "Pair:O-O=as.zero", "-r", "Pair:U-U"],
  ["-l", "-e"],
  ["-l", "-a", "-r"],
  ["-l", "-e", "Tabulation:nr"],
  ["-l", "-e", "nocolon=1"],
  ["-l", "-r", "nocolon"],
  ["-l", "-r", "Tabulation:nr=3"],
  ["-l", "-a", "Tabulation"],
  ["-l", "-a", "=1"],
  ["-l", "-e", "Bad:k=1", "-r", "alsobad", "-a", "worse"],
  ["-l", "-r", "alsobad", "-a", "worse"],
  ["--list-item-labels", "-e", "Table-Form:tabulated:interpolation=linear"],
  ["--item-value", "Tabulation:nr", "-e", "Tabulation:nr=77"],
  ["--item-value", "Tabulation:nr", "-r", "Tabulation:nr"],
  # species filters
  ["-l", "--include-species", "O"],
  ["-l", "--include-species", "O", "U"],
  ["-l", "--include-species"],
  ["-l", "--exclude-species", "O"],
  ["-l", "--exclude-species", "U", "Mg"],
  ["-l", "--exclude-species"],
  ["-l", "--exclude-species", "U", "--include-species", "O"],
  ["--list-item-labels", "--include-species", "Ga", "O", "-e", "Tabulation:nr=21"],
  ["--item-value", "Pair:U-U", "--exclude-species", "U"],
]

for name in ("pair", "tableform", "fs", "variables"):
  for case in CASES:
    run_main(name, [P[name]] + case)

TAB_CASES = [
  ("pair", ["-e", "Tabulation:nr=20"]),
  ("pair", ["-e", "Tabulation:target=DLPOLY", "Tabulation:nr=20"]),
  ("pair", ["-e", "Tabulation:target=DLPOLY", "Tabulation:nr=22"]),
  ("pair", ["-e", "Tabulation:target=GULP"]),
  ("pair", ["-e", "Tabulation:target=Unknown"]),
  ("pair", ["-r", "Tabulation:target", "Tabulation:nr"]),
  ("pair", ["-r", "Pair:Mg-O"]),
  ("pair", ["--include-species", "O", "U"]),
  ("pair", ["--exclude-species", "O"]),
  ("pair", ["-a", "Pair:Xe-Xe=as.nope 1"]),
  ("pair", ["-a", "Pair:Xe-Xe=mybuck 1"]),
  ("pair", ["-a", "Pair:Xe-Xe=what(as.zero)"]),
  ("pair", ["-e", "Pair:O-O=as.buck 1.0 0.5 0.25", "-a", "Pair:Ar-Ar=as.lj 0.1 2.0"]),
  ("variables", ["-e", "Variables:rho=0.5"]),
  ("variables", ["-r", "Variables:rho"]),
  ("eam", ["-e", "Tabulation:target=DL_POLY_EAM"]),
  ("eam", ["-r", "Species:Bq.atomic_mass"]),
  ("eam", ["--exclude-species", "Bq"]),
  ("eam", ["-r", "Tabulation:nrho", "Tabulation:cutoff_rho"]),
  ("fs", ["--include-species", "Ga", "O"]),
  ("fs", ["-e", "Tabulation:target=DL_POLY_EAM_fs"]),
  ("fs", ["-e", "Tabulation:target=setfl"]),
  ("tableform", ["-e", "Table-Form:tabulated:interpolation=linear"]),
  ("tableform", ["-e", "Table-Form:tabulated:interpolation=quadratic"]),
  ("tableform", ["-r", "Table-Form:other:y"]),
  ("crg", ["-e", "Tabulation:nr=12", "Tabulation:nrho=10", "--include-species", "U", "O"]),
  ("zbl", ["-e", "Tabulation:nr=15"]),
]
for name, extra in TAB_CASES:
  run_main(name + "-tab", [P[name], OUTFILE] + extra)
  run_main(name + "-tab-noout", [P[name]] + extra)

run_main("missing-file", [os.path.join(tmpdir, "does_not_exist.aspot"), OUTFILE])
run_main("no-args", [])
run_main("unwritable", [P["pair"], os.path.join(tmpdir, "no_such_dir", "out.table")])

# ---- direct calls of helper functions
def call(label, f, *args, **kwargs):
  try:
    r = f(*args, **kwargs)
    emit("CALL", label, type(r).__name__, repr(r))
  except BaseException as e:
    emit("CALLEXC", label, exc_chain(e))

for name in sorted(PATHS):
  for variant in ("plain", "include", "exclude"):
    try:
      with open(PATHS[name]) as infile:
        cp = ConfigParser(infile)
      if variant == "include":
        cp = FilteredConfigParser(cp, include = ["O", "U", "A"])
      elif variant == "exclude":
        cp = FilteredConfigParser(cp, exclude = ["O"])
    except Exception as e:
      emit("CPEXC", name, variant, exc_chain(e))
      continue
    tag = name + "/" + variant
    call(tag + " _list_items", _query_actions._list_items, cp)
    call(tag + " _list_item_labels", _query_actions._list_item_labels, cp)
    call(tag + " _list_plot_item_labels", _query_actions._list_plot_item_labels, cp)
    for fname in ("_list_pair", "_list_potential_form", "_list_tabulation", "_list_eam_dens", "_list_eam_embed", "_list_table_forms"):
      call(tag + " " + fname, getattr(_query_actions, fname), cp)
    call(tag + " _parse_raw", _query_actions._parse_raw, cp, cp.orphan_sections)
    call(tag + " _parse_raw[]", _query_actions._parse_raw, cp, [])
    call(tag + " _parse_raw-bad", _query_actions._parse_raw, cp, ["Tabulation", "No Such Section"])
    for section in ("Pair", "Tabulation", "Missing", "Table-Form:tabulated", "Variables", "DEFAULT"):
      call(tag + " _list_section " + section, _query_actions._list_section, cp, section)
    for key in ("Tabulation:target", "Pair:O-O", "Pair:zz", "zz:zz", "zz", ":", "Table-Form:other:x", "Variables:rho"):
      call(tag + " _item_value " + key, _query_actions._item_value, cp, key)

for key, has_value in (("A:b=c", True), ("A:b=c", False), ("A:b", True), ("A:b", False), ("A:B:c=d=e", True), ("Ab=c", True), ("Ab", False),
                       ("=", True), (":", False), (":=", True), ("", True), ("", False), ("a=b:c", True), ("a=b:c", False)):
  call("_create_override_tuple {!r} {}".format(key, has_value), potable._create_override_tuple, key, has_value)
  call("_create_override_tuple default {!r}".format(key), potable._create_override_tuple, key)

def mcp(label, name, *args):
  try:
    with open(PATHS[name]) as infile:
      cp = potable._make_config_parser(infile, *args)
      emit("MCP", label, type(cp).__name__, repr(_query_actions._list_items(cp)))
  except BaseException as e:
    emit("MCPEXC", label, exc_chain(e))

mcp("none", "pair", None, None, None, None, False)
mcp("empty-lists", "pair", [], [], [], None, False)
mcp("empty-inner", "pair", [[]], [[], []], [[]], [], True)
mcp("mix", "pair", [["Tabulation:nr=3", "Pair:O-O=as.zero"], ["Tabulation:nr=4"]], [["Pair:Kr-Kr=as.zero"]], [["Pair:U-U"], ["Tabulation:nr"]], ["O"], False)
mcp("mix-excl", "pair", [["Tabulation:nr=3", "Pair:O-O=as.zero"], ["Tabulation:nr=4"]], [["Pair:Kr-Kr=as.zero"]], [["Pair:U-U"]], ["O"], True)
mcp("bad-override", "pair", [["Tabulation:nr"]], [["alsobad"]], [["bad"]], None, False)
mcp("bad-remove", "pair", [["Tabulation:nr=1"]], [["alsobad"]], [["bad"]], None, False)
mcp("bad-add", "pair", [["Tabulation:nr=1"]], [["alsobad"]], [["Pair:O-O"]], None, False)
mcp("not-iterable", "pair", 5, None, None, None, False)
mcp("not-iterable-2", "pair", [["Tabulation:nr=1"]], None, 7, None, False)
mcp("not-nested", "pair", ["Tabulation:nr=1"], None, None, None, False)

shutil.rmtree(tmpdir)

text = "\n".join(OUT)
if "-v" in sys.argv or os.environ.get("TWIN_VERBOSE"):
  print(text)
print("lines", len(OUT))
print("digest", hashlib.sha256(text.encode("utf-8")).hexdigest())

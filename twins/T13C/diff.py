"""Differential script for twin C (atsim/potentials/_multi_range_potential_form.py).

Exercises Multi_Range_Defn, Multi_Range_Potential_Form(+_Deriv,+_Deriv2) and
create_Multi_Range_Potential_Form directly and through multi-range [Pair]/[EAM-*] definitions
in config files; prints a sha256 digest of everything observed."""
import collections, hashlib, io, math, inspect

import atsim.potentials as ap
from atsim.potentials import potentialforms as pf
from atsim.potentials import create_Multi_Range_Potential_Form, Multi_Range_Defn
from atsim.potentials._multi_range_potential_form import (Multi_Range_Potential_Form,
  Multi_Range_Potential_Form_Deriv, Multi_Range_Potential_Form_Deriv2)
from atsim.potentials.config import Configuration

out = []
def rec(*a):
  out.append(" ".join(repr(x) for x in a))

def attempt(label, f, *args, **kw):
  try:
    v = f(*args, **kw)
    rec(label, v)
    return v
  except Exception as e:
    rec(label, "EXC", type(e).__name__, str(e))

NINF = float("-inf")
GRID = [-100.0, -5.0, -1.0, 0.0, 0.1, 0.999, 1.0, 1.001, 2.0, 2.5, 3.0, 3.01, 5.0, 7.5, float("inf"), float("nan")]

def plain_a(r):
  return 1000.0*math.exp(-r/0.3)
def plain_b(r):
  return 2.0 + r*r
class OnlyDeriv(object):
  def __call__(self, r):
    return 3.0*r**2
  def deriv(self, r):
    return 6.0*r

F = {
  "buck": pf.buck(1000.0, 0.3, 32.0),
  "zbl": pf.zbl(92, 8),
  "const": pf.constant(2.5),
  "plain_a": plain_a,
  "plain_b": plain_b,
  "onlyd": OnlyDeriv(),
  "poly": pf.polynomial(1.0, -2.0, 0.5),
}

# --- Multi_Range_Defn
for args, kw in [((">", 0.0, F["buck"]), {}), ((">=", 1.5, plain_a), {}), ((), dict(range_type=">", start=NINF, potential_form=F["onlyd"])),
                 ((">=", 2, "text"), dict(extra=1, other=None))]:
  d = Multi_Range_Defn(*args, **kw)
  rec("defn", d.range_type, d.start, d.potential_form if isinstance(d.potential_form, str) else type(d.potential_form).__name__,
      d.has_deriv, d.has_deriv2, sorted(k for k in dir(d) if not k.startswith("_")))
  for r in (0.5, 1.0, 2.0):
    attempt("defn d", d.deriv, r)
    attempt("defn d2", d.deriv2, r)
  for name in ("range_type", "start", "potential_form", "has_deriv", "has_deriv2"):
    attempt("defn set "+name, setattr, d, name, 1)
    rec("defn doc", name, getattr(Multi_Range_Defn, name).__doc__)
attempt("defn bad0", lambda: Multi_Range_Defn())
attempt("defn bad1", lambda: Multi_Range_Defn(">", 1.0))
attempt("defn bad2", lambda: Multi_Range_Defn(">", 1.0, F["buck"], 4))
rec("defn sig", str(inspect.signature(Multi_Range_Defn.__init__)), str(inspect.signature(create_Multi_Range_Potential_Form)),
    str(inspect.signature(Multi_Range_Potential_Form.__init__)))

# --- range definitions
D = Multi_Range_Defn
RANGESETS = {
  "empty": [],
  "single>": [D(">", 0.0, F["buck"])],
  "single>=": [D(">=", 0.0, F["plain_b"])],
  "two": [D(">", NINF, F["plain_a"]), D(">", 2.0, F["plain_b"])],
  "unsorted": [D(">=", 2.0, F["buck"]), D(">", NINF, F["const"]), D(">=", -5.0, F["plain_b"]), D(">", 3.0, F["poly"]), D(">=", 3.0, F["zbl"])],
  "dups": [D(">", 1.0, F["buck"]), D(">=", 1.0, F["const"]), D(">", 1.0, F["poly"]), D(">=", 1.0, F["plain_b"]), D(">", 0, F["zbl"])],
  "onlyd": [D(">", 0.0, F["plain_a"]), D(">=", 1.0, F["onlyd"]), D(">", 3.0, F["plain_b"])],
  "noderiv": [D(">", 0.0, F["plain_a"]), D(">=", 2.5, F["plain_b"])],
  "ints": [D(">=", 0, F["const"]), D(">", 1, F["poly"]), D(">", 5, F["buck"])],
  "odd-type": [D("<", 1.0, F["const"]), D(">=", 1.0, F["poly"]), D("==", 1.0, F["buck"])],
}

def dump_form(label, m):
  rec(label, type(m).__name__, [c.__name__ for c in type(m).__mro__], hasattr(m, "deriv"), hasattr(m, "deriv2"), m.default_value)
  rec(label, "order", [(d.range_type, d.start, type(d.potential_form).__name__) for d in m.range_defns], type(m.range_defns).__name__)
  for r in GRID:
    s = m._range_search(r)
    rec(label, "search", r, None if s is None else m.range_defns.index(s))
    attempt(label+" U", m, r)
    if hasattr(m, "deriv"):
      attempt(label+" d", m.deriv, r)
    if hasattr(m, "deriv2"):
      attempt(label+" d2", m.deriv2, r)
  attempt(label+" Ustr", m, "x")
  g = ap.gradient(m)
  for r in GRID[3:13]:
    attempt(label+" g", g, r)

for k in sorted(RANGESETS):
  defs = RANGESETS[k]
  for kw in ({}, {"default_value": -7.25}):
    m = attempt("create "+k, lambda: type(create_Multi_Range_Potential_Form(*defs, **kw)).__name__) and create_Multi_Range_Potential_Form(*defs, **kw)
    if m:
      dump_form("create %s %s" % (k, sorted(kw)), m)
  for cls in (Multi_Range_Potential_Form, Multi_Range_Potential_Form_Deriv, Multi_Range_Potential_Form_Deriv2):
    dump_form("%s %s" % (cls.__name__, k), cls(*defs))

# range_defns setter re-sorts, accepts any iterable
m = Multi_Range_Potential_Form_Deriv2(*RANGESETS["two"], default_value=3.0)
m.range_defns = iter(RANGESETS["unsorted"][::-1])
dump_form("reset", m)
m.range_defns = ()
dump_form("reset-empty", m)
m.default_value = "dv"
rec("dv", m(1.0), m.deriv(1.0), m.deriv2(1.0))
attempt("setter bad", setattr, m, "range_defns", None)
attempt("setter bad2", setattr, m, "range_defns", [1, 2])

# keyword validation
for kw in ({"blah": 2.0}, {"default_value": 1.0, "blah": 2.0}, {"zeta": 1, "alpha": 2, "default_value": 0}, {"Default_value": 1}):
  for ctor in (Multi_Range_Potential_Form, Multi_Range_Potential_Form_Deriv, Multi_Range_Potential_Form_Deriv2, create_Multi_Range_Potential_Form):
    attempt("kw %s %s" % (ctor.__name__, sorted(kw)), lambda: type(ctor(*RANGESETS["two"], **kw)).__name__)

# duck-typed definitions (strings as potential forms, namedtuples)
NT = collections.namedtuple("NT", "range_type start potential_form")
mr = Multi_Range_Potential_Form(NT(">=", 2.0, F["const"]), NT(">", NINF, F["poly"]), NT(">", 2.0, F["plain_b"]))
rec("duck", [mr(r) for r in (-3.0, 2.0, 2.1)], [d.start for d in mr.range_defns])
attempt("duck create", lambda: create_Multi_Range_Potential_Form(NT(">=", 2.0, F["const"])))
attempt("duck deriv", lambda: Multi_Range_Potential_Form_Deriv(NT(">=", 2.0, F["const"])).deriv(3.0))
attempt("duck deriv below", lambda: Multi_Range_Potential_Form_Deriv2(NT(">=", 2.0, F["const"])).deriv2(1.0))
class Duck(object):
  def __init__(self, start, **kw):
    self.range_type = ">"
    self.start = start
    self.potential_form = F["const"]
    self.__dict__.update(kw)
  def deriv(self, r):
    return 11.0
  def deriv2(self, r):
    return 12.0
for label, ducks in [
    ("d2-only-first", [Duck(0.0, has_deriv2=True), Duck(1.0, has_deriv2=False, has_deriv=False)]),
    ("truthy", [Duck(0.0, has_deriv2=0, has_deriv="yes"), Duck(1.0, has_deriv2=[], has_deriv=None)]),
    ("truthy2", [Duck(0.0, has_deriv2=0, has_deriv=""), Duck(1.0, has_deriv2=[1], has_deriv=None)]),
    ("none", [Duck(0.0, has_deriv2=None, has_deriv=None)]),
    ("late-missing", [Duck(0.0, has_deriv2=True, has_deriv=True), Duck(1.0)]),
    ("missing-d", [Duck(0.0, has_deriv2=False, has_deriv=False), Duck(1.0, has_deriv2=False)]),
    ("missing-d2", [Duck(0.0, has_deriv2=False, has_deriv=True), Duck(1.0, has_deriv=False)]),
  ]:
  def mk():
    m = create_Multi_Range_Potential_Form(*ducks)
    return type(m).__name__, m(0.5), getattr(m, "deriv", lambda r: None)(0.5), getattr(m, "deriv2", lambda r: None)(1.5)
  attempt("duck create "+label, mk)
Rdt = Multi_Range_Defn
mrs = Multi_Range_Potential_Form(Rdt('>=', 2.0, "one"), Rdt('>', NINF, "two"), Rdt('>=', -5.0, "three"), Rdt('>', 3.0, "four"), Rdt('>=', 3.0, "five"))
rec("strs", [getattr(mrs._range_search(r), "potential_form", None) for r in GRID])
attempt("strs call", mrs, 1.0)
attempt("mixed start types", lambda: Multi_Range_Potential_Form(Rdt(">", "a", F["const"]), Rdt(">", 1.0, F["const"])))

# --- through config files
CFGS = [
u"""[Tabulation]
target : LAMMPS
cutoff : 5.0
nr : 40
[Pair]
A-B = born_mayer 1000.0 0.1 >=3.0 dispersion 32.0
B-C = as.bornmayer 1000.0 0.1 >=3.0 as.buck 0 1.0 32.0
C-D = as.bornmayer 1000.0 0.1 >2.0 as.constant 1.0 >=3.0 dispersion 32.0
D-D = >=1.0 as.buck 1000.0 0.3 32.0
[Potential-Form]
born_mayer(r, A, rho) = A * exp(-r/rho)
dispersion(r, C) = - C/r^6
""",
u"""[Tabulation]
target : DL_POLY
cutoff : 6.0
nr : 32
[Pair]
O-U = >0 as.zbl 92 8 >=0.8 as.polynomial 100.0 -80.0 10.0 >1.4 as.buck 1761.775 0.35642 0.0
O-O = >2.0 sum(as.buck 1000.0 0.3 0.0, >0 as.constant 1.0 >=3 as.constant -1.0)
""",
u"""[Tabulation]
target : setfl
nr : 20
dr : 0.25
nrho : 20
drho : 0.5
[EAM-Embed]
Ag = as.sqrt -1.0 >=4.0 as.polynomial -2.0 -0.1
[EAM-Density]
Ag = as.bornmayer 10.0 0.5 >2.0 as.zero
[Pair]
Ag-Ag = as.buck 1000.0 0.3 32.0 >=3.0 as.zero
[Species]
Ag.atomic_number = 47
Ag.atomic_mass = 107.8682
Ag.lattice_constant = 4.09
Ag.lattice_type = fcc
""",
u"""[Tabulation]
target : GULP
cutoff : 3.0
dr : 0.25
[Pair]
A-A = >1.0 as.buck 1000.0 0.3 32.0 >=1.0 as.constant 3.0 >=2 as.zero
""",
]
for i, cfg in enumerate(CFGS):
  try:
    tab = Configuration().read(io.StringIO(cfg))
    sio = io.StringIO()
    tab.write(sio)
    rec("cfg", i, hashlib.sha256(sio.getvalue().encode()).hexdigest(), len(sio.getvalue()))
    for p in tab.potentials:
      f = p.potentialFunction
      rec("cfg", i, p.speciesA, p.speciesB, type(f).__name__, hasattr(f, "deriv"), hasattr(f, "deriv2"),
          [p.energy(r) for r in (0.5, 1.0, 2.0, 2.5, 3.0, 4.0)], [p.force(r) for r in (0.5, 1.0, 2.0, 2.5, 3.0, 4.0)])
  except Exception as e:
    rec("cfg", i, "EXC", type(e).__name__, str(e))

txt = "\n".join(out)
print(len(out), "records")
print("DIGEST", hashlib.sha256(txt.encode()).hexdigest())
if __import__("sys").argv[1:] == ["-v"]:
  print(txt)

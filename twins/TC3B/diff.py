"""Differential script for twin B: range selection of Multi_Range_Potential_Form (values, deriv, deriv2, boundaries)."""
import hashlib
import io
import math
import random

import atsim.potentials as ap
from atsim.potentials import potentialforms as pforms
from atsim.potentials import create_Multi_Range_Potential_Form, Multi_Range_Defn
from atsim.potentials._multi_range_potential_form import Multi_Range_Potential_Form
from atsim.potentials.config import Configuration

out = []

def fmt(v):
  if isinstance(v, float):
    return "nan" if math.isnan(v) else v.hex()
  return repr(v)

def rec(label, thunk):
  try:
    out.append("%s=%s" % (label, fmt(thunk())))
  except Exception as e:
    out.append("%s!%s:%s" % (label, type(e).__name__, e))

def label_of(mrpf, r):
  t = mrpf._range_search(r)
  if t is None:
    return None
  # identify by identity-independent content: position in sorted list + description
  return (mrpf.range_defns.index(t), t.range_type, t.start, t.potential_form)

rng = random.Random(77001)
INF = float("inf")
start_pool = [-INF, -3.0, -1, 0.0, -0.0, 0, 0.5, 1.0, 1, 2.0, 2.5, 3, 1e-300, 7.25, INF]
probe_extra = [float("nan"), -INF, INF, -1e300, 1e300, 0.0, -0.0, 0, 1, True, 2.0000000000000004, 1.9999999999999998]

# 1. Label only range searches on many random range lists (strings as potential forms, as the test-suite does)
for case in range(400):
  n = rng.choice([0, 1, 1, 2, 2, 3, 4, 5, 7])
  markers = [">", ">="] if case % 5 else [">", ">=", ">=", "x", "=>"]
  defns = []
  for i in range(n):
    defns.append(Multi_Range_Defn(rng.choice(markers), rng.choice(start_pool), "pf%d" % i))
  kwargs = {} if case % 3 else {"default_value": -99.5}
  try:
    mrpf = Multi_Range_Potential_Form(*defns, **kwargs)
  except Exception as e:
    out.append("case%d ctor!%s" % (case, type(e).__name__))
    continue
  out.append("case%d order=%r" % (case, [(t.range_type, t.start, t.potential_form) for t in mrpf.range_defns]))
  probes = set()
  for t in defns:
    s = t.start
    probes.add(s)
    if not math.isinf(s):
      for d in (1e-9, 0.25, 1.0):
        probes.add(s - d)
        probes.add(s + d)
  probes = sorted(probes) + probe_extra + [rng.uniform(-5, 9) for _ in range(6)]
  for r in probes:
    rec("case%d r=%r" % (case, r), lambda: label_of(mrpf, r))

# 2. Bad probe values
mrpf = Multi_Range_Potential_Form(Multi_Range_Defn(">", 0.0, "a"), Multi_Range_Defn(">=", 1.0, "b"), Multi_Range_Defn(">", 1.0, "c"))
empty = Multi_Range_Potential_Form()
for bad in ["abc", None, 1+2j, [1.0], (), object]:
  rec("bad %r" % (bad,), lambda: label_of(mrpf, bad))
  rec("bad empty %r" % (bad,), lambda: label_of(empty, bad))
  rec("bad empty call %r" % (bad,), lambda: empty(bad))
import numpy as np
rec("np scalar", lambda: label_of(mrpf, np.float64(1.0)))
rec("np scalar2", lambda: label_of(mrpf, np.float32(0.5)))
rec("np int", lambda: label_of(mrpf, np.int64(1)))
rec("np arr1", lambda: label_of(mrpf, np.array([1.0])))
rec("np arr2", lambda: label_of(mrpf, np.array([1.0, 2.0])))
rec("bad kw", lambda: Multi_Range_Potential_Form(Multi_Range_Defn(">", 0.0, "a"), bogus=1, also=2))
rec("bad start", lambda: Multi_Range_Potential_Form(Multi_Range_Defn(">", 0.0, "a"), Multi_Range_Defn(">", "s", "b")))
rec("attrs", lambda: sorted(k for k in vars(mrpf)))
rec("attrs empty", lambda: sorted(k for k in vars(empty)))

# 3. Setter re-assignment and in-place edits of the list returned by the getter
mrpf.range_defns = [Multi_Range_Defn(">=", 5.0, "z"), Multi_Range_Defn(">", -2.0, "y")]
for r in (-3, -2.0, -1.0, 5.0, 4.999, 6.0):
  rec("reset r=%r" % r, lambda: label_of(mrpf, r))
mrpf.range_defns.append(Multi_Range_Defn(">", 8.0, "w"))
mrpf.range_defns.pop(0)
for r in (-3, -2.0, -1.0, 5.0, 4.999, 6.0, 8.0, 8.5):
  rec("mutated r=%r" % r, lambda: label_of(mrpf, r))

# 4. Real callables: values, deriv and deriv2 availability and numbers across boundaries
combos = [
  [(">", 0.0, pforms.zbl(92, 8)), (">=", 1.0, pforms.buck(1761.775, 0.35, 0.0)), (">", 2.5, pforms.zero())],
  [(">=", 0.0, lambda r: 3.0 * r * r), (">", 1.5, lambda r: 2.0 - r)],
  [(">", 1.0, lambda r: 3.0 * r * r), (">=", 1.0, pforms.polynomial(1.0, 2.0, 3.0)), (">=", 2.0, pforms.lj(0.2, 2.0)), (">", 2.0, pforms.constant(4.0))],
  [(">", -INF, pforms.morse(1.2, 1.5, 0.5)), (">", 2.0, pforms.coul(1.0, -2.0))],
  [],
]
class OnlyDeriv(object):
  def __call__(self, r): return r ** 3
  def deriv(self, r): return 3.0 * r ** 2
combos.append([(">", 0.0, OnlyDeriv()), (">=", 2.0, lambda r: 8.0 + 12.0 * (r - 2.0))])
for ci, combo in enumerate(combos):
  for kw in ({}, {"default_value": 7.5}):
    m = create_Multi_Range_Potential_Form(*[Multi_Range_Defn(*c) for c in combo], **kw)
    out.append("combo%d cls=%s deriv=%s deriv2=%s" % (ci, type(m).__name__, hasattr(m, "deriv"), hasattr(m, "deriv2")))
    rs = [-1.0, 0.0, 1e-6, 0.5, 1.0 - 1e-12, 1.0, 1.0 + 1e-12, 1.5, 2.0, 2.0 + 1e-9, 2.5, 2.5000001, 3.0, 10.0]
    for r in rs:
      rec("combo%d %r v" % (ci, r), lambda: m(r))
      rec("combo%d %r d" % (ci, r), lambda: m.deriv(r))
      rec("combo%d %r d2" % (ci, r), lambda: m.deriv2(r))
    # As used by plus/product and gradient
    g = ap.gradient(m)
    p = ap.plus(m, pforms.constant(1.0))
    for r in (0.75, 1.0, 2.0, 2.25):
      rec("combo%d %r grad" % (ci, r), lambda: g(r))
      rec("combo%d %r plus" % (ci, r), lambda: p(r))
      rec("combo%d %r plus d" % (ci, r), lambda: p.deriv(r))

# 5. Through the configuration machinery, three targets
cfg = u"""[Tabulation]
target : %s
cutoff : 6.0
%s

[Pair]
O-U : >0 as.zbl 92 8 >=0.8 as.polynomial 1.0 -2.0 0.5 >=1.4 as.buck 1761.775 0.35 0.0 >4.0 as.zero
U-U : >=0 as.constant 2.0 >1 as.bornmayer 1000.0 0.3 >=1 as.constant 3.0 >3 sum(as.buck 1000.0 0.3 32.0, >2 as.constant 1.0 >=3.5 as.constant 2.0)
O-O : >0.5 as.buck 0.0 1.0 32.0
"""
for target, grid in [("LAMMPS", "nr : 301"), ("DLPOLY", "nr : 252"), ("GULP", "dr : 0.05"), ("LAMMPS", "dr : 0.5")]:
  def tab():
    cp = Configuration()
    t = cp.read(io.StringIO(cfg % (target, grid)))
    o = io.StringIO()
    t.write(o)
    return hashlib.sha256(o.getvalue().encode("utf-8")).hexdigest()
  rec("potable %s %s" % (target, grid), tab)

blob = "\n".join(out)
print(len(out), sum("!" in o for o in out), hashlib.sha256(blob.encode("utf-8")).hexdigest())

"""Differential script for twin A: DL_POLY TABLE and LAMMPS TABLE pair writers.

Run:  /venv/bin/python -W ignore /tmp/wtpy.py /tmp/wt_r6_3 _twins/diffA.py
"""
import io
import os
import sys

sys.path.insert(0, os.path.dirname(os.path.abspath(__file__)))
from _harness import *  # noqa

import atsim.potentials
from atsim.potentials import Potential, writePotentials
from atsim.potentials import pair_tabulation
from atsim.potentials import _dlpoly_writeTABLE, _lammps_writeTABLE
from atsim.potentials.config import Configuration

assert atsim.potentials.__file__.startswith("/tmp/wt_r6_3/"), atsim.potentials.__file__

log = Log()

FUNCS = [("buck", f_buck), ("morse", f_morse), ("poly", f_poly), ("neg", f_neg), ("tiny", f_tiny),
         ("zero", f_zero), ("negzero", f_negzero), ("big", f_big), ("nan", f_nan), ("int", f_int)]


def mkpots(names, species, with_deriv=False, fail=None):
  """names: function labels; species: list of (a,b); fail: (index, ncall, exc)"""
  d = dict(FUNCS + [("str", f_str), ("sqrt", f_sqrt)])
  pots = []
  for i, (n, (a, b)) in enumerate(zip(names, species)):
    fail_at = None
    exc = ArithmeticError
    if fail is not None and fail[0] == i:
      fail_at, exc = fail[1], fail[2]
    rec = Recorder(log, "%s:%s-%s" % (n, a, b), d[n], fail_at=fail_at, exc=exc, with_deriv=with_deriv)
    pots.append(Potential(a, b, rec))
  return pots


SPECIES = [("Gd", "O"), ("O", "O"), ("U", "O"), ("Al", "Fe"), ("A", "B"), ("Xx", "Y"), ("LongName", "Other"), ("b", "a"), ("Q", "Q"), ("Z", "Z")]

# ---------------------------------------------------------------------------
# 1. Front-end writePotentials / tabulation objects, varied grids and models
case = 0
for otype in ["DL_POLY", "LAMMPS"]:
  for cutoff, npts in [(10.0, 8), (6.5, 12), (12.0, 100), (3.3, 4), (7.77, 36), (1e-3, 16), (-4.0, 8), (0.0, 8), (10, 20), (15.0, 1000)]:
    for names in [["buck"], ["morse", "poly"], ["neg", "tiny", "zero", "negzero"], ["big", "nan", "int"], []]:
      for wd in [False, True]:
        case += 1
        sink = Sink(log, "out%d" % case)
        pots = mkpots(names, SPECIES[case % 3:], with_deriv=wd)
        run(log, "front %s %r %r %r %r" % (otype, cutoff, npts, names, wd),
            lambda: writePotentials(otype, pots, cutoff, npts, sink))
        log.add("OUT", sink.getvalue())

# 2. Bad grids: not divisible by four, float / str / None / bool / negative grid sizes, one and two points
for otype in ["DL_POLY", "LAMMPS"]:
  for cutoff, npts in [(10.0, 7), (10.0, 10), (10.0, 8.0), (10.0, 6.0), (10.0, "8"), (10.0, None), (10.0, True), (10.0, False),
                       (10.0, 0), (10.0, -4), (10.0, -3), (10.0, 1), (10.0, 2), (10.0, 3), (10.0, 4), (10.0, 5), ("10", 8), (None, 8),
                       (float("inf"), 8), (float("nan"), 8), (-0.0, 8), (1e308, 8)]:
    for names in [["buck", "morse"], []]:
      case += 1
      sink = Sink(log, "out%d" % case)
      pots = mkpots(names, SPECIES[case % 4:])
      run(log, "bad %s %r %r %r" % (otype, cutoff, npts, names),
          lambda: writePotentials(otype, pots, cutoff, npts, sink))
      log.add("OUT", sink.getvalue())

# 3. Evaluation failures at different points (nothing may reach the sink); values that cannot be formatted
for otype in ["DL_POLY", "LAMMPS"]:
  for failspec in [(0, 1, ArithmeticError), (0, 3, ValueError), (1, 1, ZeroDivisionError), (1, 9, KeyError), (2, 5, OverflowError), (2, 40, StopIteration), (1, 17, RuntimeError),
                   (0, 2, StopIteration), (1, 6, StopIteration), (2, 11, StopIteration), (0, 1, GeneratorExit), (1, 4, KeyboardInterrupt), (2, 3, SystemExit)]:
    for wd in [False, True]:
      case += 1
      sink = Sink(log, "out%d" % case)
      pots = mkpots(["buck", "morse", "poly"], SPECIES[2:], with_deriv=wd, fail=failspec)
      run(log, "fail %s %r %r" % (otype, failspec[:2], wd),
          lambda: writePotentials(otype, pots, 8.0, 12, sink))
      log.add("OUT", sink.getvalue())
  for names in [["str"], ["buck", "str"], ["sqrt"]]:
    case += 1
    sink = Sink(log, "out%d" % case)
    pots = mkpots(names, SPECIES[1:])
    run(log, "fmt %s %r" % (otype, names), lambda: writePotentials(otype, pots, -8.0 if names == ["sqrt"] else 8.0, 12, sink))
    log.add("OUT", sink.getvalue())

# 4. Direct module level entry points (generators of potentials, tuples, odd separations, sink that fails)
def gen(pots):
  for p in pots:
    log.add("GEN", p.speciesA, p.speciesB)
    yield p

class BadSink(Sink):
  def write(self, s):
    Sink.write(self, s)
    raise IOError("disk full")

for cutoff, npts in [(10.0, 8), (5.0, 24), (2.5, 4)]:
  for container in [list, tuple, gen]:
    case += 1
    sink = Sink(log, "out%d" % case)
    pots = mkpots(["buck", "neg", "poly"], SPECIES[3:])
    run(log, "dl direct %r %r %s" % (cutoff, npts, container.__name__),
        lambda: _dlpoly_writeTABLE.writePotentials(container(pots), cutoff, npts, sink))
    log.add("OUT", sink.getvalue())
    case += 1
    sink = Sink(log, "out%d" % case)
    pots = mkpots(["buck", "neg", "poly"], SPECIES[3:])
    run(log, "lmp direct %r %r %s" % (cutoff, npts, container.__name__),
        lambda: _lammps_writeTABLE.writePotentials(container(pots), 0.1, cutoff, npts, sink))
    log.add("OUT", sink.getvalue())
  case += 1
  sink = BadSink(log, "out%d" % case)
  run(log, "dl badsink", lambda: _dlpoly_writeTABLE.writePotentials(mkpots(["buck"], SPECIES), cutoff, npts, sink))
  sink = BadSink(log, "out%db" % case)
  run(log, "lmp badsink", lambda: _lammps_writeTABLE.writePotentials(mkpots(["buck"], SPECIES), 1.0, cutoff, npts, sink))

for minr, maxr, npts in [(0.0, 10.0, 5), (1.0, 1.0, 3), (2.0, 1.0, 4), (1e-6, 1e6, 7), (1, 10, 10), (0.5, 9.5, 1), (0.5, 9.5, 0), (0.5, 9.5, -2), (0.5, 9.5, 2.0), (0.5, "9", 3), (None, 9.5, 3), (0.5, 9.5, None)]:
  case += 1
  sink = Sink(log, "out%d" % case)
  pots = mkpots(["morse", "big"], SPECIES[5:], with_deriv=True)
  run(log, "lmp grid %r %r %r" % (minr, maxr, npts), lambda: _lammps_writeTABLE.writePotentials(pots, minr, maxr, npts, sink))
  log.add("OUT", sink.getvalue())

# private single-potential helpers are used by name elsewhere in the package/tests: check they still behave
for npts in [4, 8, 6]:
  sink = Sink(log, "single%d" % npts)
  run(log, "dl single", lambda: _dlpoly_writeTABLE._writePotential(mkpots(["poly"], SPECIES)[0], 10.0, npts, 0.25, sink))
  run(log, "lmp single", lambda: _lammps_writeTABLE._writeSinglePotential(mkpots(["poly"], SPECIES)[0], 0.5, 10.0, npts, sink))
  run(log, "dl header", lambda: _dlpoly_writeTABLE._writeTableHeader(0.25, 10.0, npts, sink))
  log.add("OUT", sink.getvalue())
run(log, "force", lambda: _dlpoly_writeTABLE._calculateForce(mkpots(["poly"], SPECIES, with_deriv=True)[0], 1.5))

# 4b. numpy scalars / arrays as grid parameters
import numpy as np
for otype in ["DL_POLY", "LAMMPS"]:
  for cutoff, npts in [(np.float64(9.0), 8), (np.array(9.0), 8), (np.array([9.0]), 8), (np.float32(9.0), np.int64(8)), (9.0, np.int32(12)), (np.array([9.0, 10.0]), 8)]:
    case += 1
    sink = Sink(log, "out%d" % case)
    pots = mkpots(["buck", "morse"], SPECIES[case % 4:])
    run(log, "numpy %s %r %r" % (otype, cutoff, npts), lambda: writePotentials(otype, pots, cutoff, npts, sink))
    log.add("OUT", sink.getvalue())
for mesh in [np.array([0.25]), np.array(0.25), np.array([0.25, 0.5])]:
  sink = Sink(log, "npsingle")
  run(log, "dl single numpy %r" % (mesh,), lambda: _dlpoly_writeTABLE._writePotential(mkpots(["poly"], SPECIES)[0], 10.0, 8, mesh, sink))
  run(log, "lmp single numpy %r" % (mesh,), lambda: _lammps_writeTABLE._writeSinglePotential(mkpots(["poly"], SPECIES)[0], mesh, 10.0, 8, sink))
  log.add("OUT", sink.getvalue())

# 5. Whole models via the .ini configuration layer (as potable does)
INIS = [u"""[Tabulation]
target : DLPOLY
cutoff : 6.0
nr : 12

[Pair]
O-O : as.buck 22764.0 0.149 27.88
Gd-O : as.buck 1885.75 0.3399 20.34 >=2.0 as.zero
""", u"""[Tabulation]
target : LAMMPS
cutoff : 6.0
nr : 13

[Pair]
U-O : as.bornmayer 1761.775 0.356421 >1.5 as.polynomial 1.0 2.0 3.0 >=3 as.constant 0.5
O-O : sum(as.buck 1000.0 0.3 32.0, as.coul 1.0 -1.0)
""", u"""[Tabulation]
target : DL_POLY
dr : 0.5
nr : 10

[Pair]
Si-O : as.morse 2.0 1.6 0.3
""", u"""[Tabulation]
target : LAMMPS
cutoff : 5.0
nr : 6

[Pair]
Si-O : as.nosuchform 2.0 1.6 0.3
""", u"""[Tabulation]
target : LAMMPS
cutoff : 5.0
nr : 6

[Pair]
Si-O : nomod(as.buck 2.0 1.6 0.3)
"""]
for i, ini in enumerate(INIS):
  def do():
    cfg = Configuration()
    tab = cfg.read(io.StringIO(ini))
    log.add("TAB", type(tab).__name__, tab.nr, repr(tab.cutoff), [(p.speciesA, p.speciesB) for p in tab.potentials])
    sink = Sink(log, "ini%d" % i)
    tab.write(sink)
    return sink.getvalue()
  run(log, "ini %d" % i, do)

print("events", len(log.events))
print("digest", log.digest())

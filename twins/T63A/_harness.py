"""Shared helpers for the differential scripts diffA/B/C.py

Everything observable goes into one ordered event log:
  * every evaluation of a user function ("E", label, repr(arg))
  * every write()/writelines()/flush() that reaches the *real* output object ("W", data)
The digest is a sha256 over that log plus returned values / exception types & messages,
so it changes if bytes, evaluation order, evaluation count, write chunking relative to
evaluations, or raised exceptions change.
"""
import hashlib
import math


class Log(object):
  def __init__(self):
    self.events = []

  def add(self, *items):
    self.events.append(tuple(items))

  def digest(self):
    h = hashlib.sha256()
    for e in self.events:
      h.update(repr(e).encode("utf-8"))
      h.update(b"\x00")
    return h.hexdigest()


class Recorder(object):
  """Callable wrapper logging each evaluation. Optionally raises at the n-th call,
  optionally exposes deriv()."""

  def __init__(self, log, label, func, fail_at=None, exc=ArithmeticError, with_deriv=False):
    self.log = log
    self.label = label
    self.func = func
    self.fail_at = fail_at
    self.exc = exc
    self.ncalls = 0
    if with_deriv:
      self.deriv = self._deriv

  def __call__(self, r):
    self.ncalls += 1
    self.log.add("E", self.label, repr(r), type(r).__name__)
    if self.fail_at is not None and self.ncalls == self.fail_at:
      raise self.exc("%s failed at call %d" % (self.label, self.ncalls))
    return self.func(r)

  def _deriv(self, r):
    self.log.add("D", self.label, repr(r), type(r).__name__)
    return -2.0 * self.func(r) + 0.125 * r


class Sink(object):
  """The 'real' output file: logs everything that reaches it, in order."""

  def __init__(self, log, name):
    self.log = log
    self.name = name
    self.chunks = []

  def write(self, s):
    self.log.add("W", self.name, s)
    self.chunks.append(s)
    return len(s)

  def writelines(self, lines):
    for l in lines:
      self.log.add("WL", self.name, l)
      self.chunks.append(l)

  def flush(self):
    self.log.add("F", self.name)

  def getvalue(self):
    return "".join(self.chunks)


def run(log, label, thunk):
  """Run thunk, log result repr or exception type+message."""
  try:
    res = thunk()
    log.add("R", label, repr(res))
  except BaseException as e:  # noqa
    log.add("X", label, type(e).__name__, str(e))


# A few deterministic functions of separation
def f_buck(r):
  return 1388.77 * math.exp(-r / 0.362) - 175.0 / (r ** 6 + 1.0)

def f_morse(r):
  return 0.34 * (math.exp(-2 * 1.4 * (r - 2.1)) - 2.0 * math.exp(-1.4 * (r - 2.1)))

def f_poly(r):
  return -0.1 * r ** 3 + 2.5 * r ** 2 - 7.0 * r + 0.3

def f_neg(r):
  return -1.0 / (1.0 + r * r)

def f_sqrt(r):
  return math.sqrt(r) * 1.25

def f_tiny(r):
  return 1e-12 * r - 0.0

def f_zero(r):
  return 0.0

def f_negzero(r):
  return -0.0

def f_big(r):
  return 1e120 / (r + 1e-3)

def f_nan(r):
  return float("nan")

def f_int(r):
  return 3

def f_str(r):
  return "abc"

"""Differential script for twin B.

Exercises the LAMMPS `pair_style table` writer and the DL_POLY TABLE writer
(module level functions, tabulation classes, atsim.potentials.writePotentials
and the potable CLI): output text, the exact sequence of write() calls seen by
the destination, evaluation order of the user functions, failure atomicity and
the exceptions raised for malformed input.  Prints one sha256 digest.
"""
import contextlib
import io
import os
import sys

sys.path.insert(0, os.path.dirname(os.path.abspath(__file__)))
import harness as h
from harness import ap, pt, Rec, FailAfter, Boom, run, Potential

from atsim.potentials import _lammps_writeTABLE as lmp
from atsim.potentials import _dlpoly_writeTABLE as dlp

d = h.Digest()
pairs = h.pair_sets()
pairs_safe = h.pair_sets(finite_at_zero = True)


def rec_call(func, *args):
  rec = Rec()
  func(*(args + (rec,)))
  return rec.summary()


# ---- 1. module level writers over models x grids ---------------------------
for setname in sorted(pairs):
  pots = pairs[setname]
  for minr, maxr, n in [(0.01, 10.0, 1000), (0.5, 6.0, 12), (1.0, 2.0, 2), (0.0, 5.0, 6), (2.0, 2.0, 3), (0.25, 3.0, 1), (0.1, 1.0, 0), (3, 9, 4)]:
    run(d, "lmp:%s:%s:%s:%s" % (setname, minr, maxr, n), lambda: rec_call(lmp.writePotentials, pots, minr, maxr, n))
  for cutoff, n in [(10.0, 1000), (6.0, 12), (6.0, 8), (5.5, 4), (6.0, 0), (6.0, 10), (6.0, 7), (7, 16), (6.0, 12.0), (6.0, -4)]:
    run(d, "dlp:%s:%s:%s" % (setname, cutoff, n), lambda: rec_call(dlp.writePotentials, pots, cutoff, n))

# iterables that can only be consumed once
run(d, "lmp:generator", lambda: rec_call(lmp.writePotentials, (p for p in pairs["three"]), 0.5, 5.0, 5))
run(d, "dlp:generator", lambda: rec_call(dlp.writePotentials, (p for p in pairs["three"]), 5.0, 8))
run(d, "lmp:tuple", lambda: rec_call(lmp.writePotentials, tuple(pairs["mixed"]), 0.5, 5.0, 5))

# default destination is sys.stdout
def to_stdout(func, *args):
  buf = io.StringIO()
  with contextlib.redirect_stdout(buf):
    # the default was bound at import time, so pass sys.stdout explicitly too
    func(*args, out = sys.stdout)
  return buf.getvalue()
run(d, "lmp:stdout", lambda: to_stdout(lmp.writePotentials, pairs["one"], 0.5, 5.0, 4))
run(d, "dlp:stdout", lambda: to_stdout(dlp.writePotentials, pairs["one"], 5.0, 8))
d.add("defaults", (lmp.writePotentials.__defaults__ == (sys.__stdout__,) or lmp.writePotentials.__defaults__[0] is sys.stdout,
                   dlp.writePotentials.__defaults__[0] is lmp.writePotentials.__defaults__[0]))

# ---- 2. helpers used directly by the project's own tests -------------------
for setname in ["one", "mixed", "nan"]:
  for pot in pairs[setname]:
    run(d, "lmp_single:%s:%s" % (setname, pot.speciesA), lambda: rec_call(lmp._writeSinglePotential, pot, 0.1, 5.1, 6))
    sio = io.StringIO()
    run(d, "lmp_single_sio:%s:%s" % (setname, pot.speciesA), lambda: (lmp._writeSinglePotential(pot, 0.2, 3.0, 3, sio), sio.getvalue()))
    run(d, "dlp_force:%s:%s" % (setname, pot.speciesA), lambda: [dlp._calculateForce(pot, r) for r in (0.5, 1.0, 2.25)])
run(d, "dlp:exc_class", lambda: (dlp.WritePotentialException.__mro__[1].__name__, dlp.WritePotentialException.__module__))

# ---- 3. tabulation classes and the public writePotentials ------------------
for setname in ["one", "three", "three_rev", "mixed", "none"]:
  for cutoff, nr in [(10.0, 1000), (6.0, 12), (6.5, 16), (4.0, 3), (4.0, 5)]:
    run(d, "LAMMPS_tab:%s:%s:%s" % (setname, cutoff, nr), lambda: rec_call(pt.LAMMPS_PairTabulation(pairs[setname], cutoff, nr).write))
    run(d, "DLPoly_tab:%s:%s:%s" % (setname, cutoff, nr), lambda: rec_call(pt.DLPoly_PairTabulation(pairs[setname], cutoff, nr).write))
    for kind in ["LAMMPS", "DL_POLY", "lammps", "TABLE"]:
      def pub():
        sio = io.StringIO()
        ap.writePotentials(kind, pairs[setname], cutoff, nr, sio)
        return sio.getvalue()
      run(d, "pub:%s:%s:%s:%s" % (kind, setname, cutoff, nr), pub)

# ---- 4. evaluation order and failure atomicity ------------------------------
class LoggedPot(object):
  """Potential stand-in logging every attribute access and call in order."""
  def __init__(self, a, b, log, fail_at = None):
    self._a, self._b, self.log, self.fail_at, self.n = a, b, log, fail_at, 0
  @property
  def speciesA(self):
    self.log.append((self._a, "speciesA"))
    return self._a
  @property
  def speciesB(self):
    self.log.append((self._a, "speciesB"))
    return self._b
  def _tick(self, what, r):
    self.n += 1
    self.log.append((self._a, what, repr(r)))
    if self.fail_at is not None and self.n > self.fail_at:
      raise Boom("%s %s #%d" % (self._a, what, self.n))
  def energy(self, r):
    self._tick("energy", r)
    return h.morse_like(r)
  def force(self, r):
    self._tick("force", r)
    return -0.25 * r

def ordered(func, args, fail_at):
  log = []
  pots = [LoggedPot("A", "B", log), LoggedPot("C", "D", log, fail_at), LoggedPot("E", "F", log)]
  rec = Rec()
  try:
    func(*((pots,) + args + (rec,)))
  except Boom as e:
    return ("Boom", str(e), rec.summary(), log)
  return ("ok", rec.summary(), log)

for fail_at in [None, 0, 1, 2, 7, 8, 9, 15, 16]:
  run(d, "order:lmp:%s" % fail_at, lambda: ordered(lmp.writePotentials, (0.5, 4.0, 8), fail_at))
  run(d, "order:dlp:%s" % fail_at, lambda: ordered(dlp.writePotentials, (4.0, 8), fail_at))
  run(d, "order:dlp_bad:%s" % fail_at, lambda: ordered(dlp.writePotentials, (4.0, 6), fail_at))

# ---- 5. malformed inputs ---------------------------------------------------
class Partial(object):
  speciesA = "P"
  speciesB = "Q"
  def energy(self, r):
    return 1.0

bad_pots = {
  "no_force": [Partial()],
  "none_energy": [Potential("A", "B", lambda r: None)],
  "str_energy": [Potential("A", "B", lambda r: "1.0")],
  "complex_energy": [Potential("A", "B", lambda r: 1j)],
  "int_energy": [Potential("A", "B", lambda r: 3)],
  "int_species": [Potential(1, 2, lambda r: 0.5 * r)],
  "long_species": [Potential("Abcdefghijk", "Lmnopqrstuvw", lambda r: 0.5 * r)],
  "unicode_species": [Potential(u"Å", u"Ω", lambda r: 0.5 * r)],
  "not_a_pot": [42],
  "not_iterable": None,
}
for name in sorted(bad_pots):
  run(d, "bad:lmp:%s" % name, lambda: rec_call(lmp.writePotentials, bad_pots[name], 0.5, 4.0, 4))
  run(d, "bad:dlp:%s" % name, lambda: rec_call(dlp.writePotentials, bad_pots[name], 4.0, 8))
  run(d, "bad:dlp0:%s" % name, lambda: rec_call(dlp.writePotentials, bad_pots[name], 4.0, 0))
  run(d, "bad:lmp0:%s" % name, lambda: rec_call(lmp.writePotentials, bad_pots[name], 0.5, 4.0, 0))

for name, args in [("str_n", (0.5, 4.0, "4")), ("none_n", (0.5, 4.0, None)), ("float_n", (0.5, 4.0, 4.0)), ("str_r", ("0.5", 4.0, 4)), ("none_max", (0.5, None, 4))]:
  run(d, "badarg:lmp:%s" % name, lambda: rec_call(lmp.writePotentials, pairs["one"], *args))
for name, args in [("str_n", (4.0, "8")), ("none_n", (4.0, None)), ("n4", (4.0, 4)), ("str_cut", ("4.0", 8)), ("none_cut", (None, 8)), ("nan_cut", (float("nan"), 8))]:
  run(d, "badarg:dlp:%s" % name, lambda: rec_call(dlp.writePotentials, pairs["one"], *args))

class NoWrite(object):
  pass
run(d, "sink:lmp:nowrite", lambda: lmp.writePotentials(pairs["one"], 0.5, 4.0, 4, NoWrite()))
run(d, "sink:dlp:nowrite", lambda: dlp.writePotentials(pairs["one"], 4.0, 8, NoWrite()))
run(d, "sink:lmp:bytes", lambda: lmp.writePotentials(pairs["one"], 0.5, 4.0, 4, io.BytesIO()))
run(d, "sink:dlp:bytes", lambda: dlp.writePotentials(pairs["one"], 4.0, 8, io.BytesIO()))

# ---- 6. through the potable CLI ---------------------------------------------
for nr in [12, 16, 1000]:
  h.run_potable(d, "cli:LAMMPS:%d" % nr, h.PAIR_CFG.format(target = "LAMMPS", cutoff = 6.5, nr = nr), preexisting = "old")
  h.run_potable(d, "cli:DLPOLY:%d" % nr, h.PAIR_CFG.format(target = "DLPOLY", cutoff = 6.5, nr = nr), preexisting = "old")
h.run_potable(d, "cli:DLPOLY:bad_nr", h.PAIR_CFG.format(target = "DLPOLY", cutoff = 6.5, nr = 10), preexisting = "old")
h.run_potable(d, "cli:LAMMPS:bad_nr", h.PAIR_CFG.format(target = "LAMMPS", cutoff = 6.5, nr = 2), preexisting = "old")
h.run_potable(d, "cli:LAMMPS:exclude", h.PAIR_CFG.format(target = "LAMMPS", cutoff = 6.5, nr = 8), extra_args = ["--exclude-species", "Mg"])
h.run_potable(d, "cli:DLPOLY:override", h.PAIR_CFG.format(target = "DLPOLY", cutoff = 6.5, nr = 8), extra_args = ["-e", "Tabulation:nr=20"])
for target in ["LAMMPS", "DLPOLY"]:
  h.run_potable(d, "cli_fail:%s" % target, h.FAIL_CFG.format(target = target, nr = 12), preexisting = "old content")

print("records: %d" % d.n)
print("DIGEST B: %s" % d.hexdigest())

"""Differential script for twin C: duplicate detection / grouping / key splitting /
section discovery in atsim/potentials/config/_config_parser.py."""
import hashlib, io
from atsim.potentials.config import ConfigParser, Configuration
from atsim.potentials.config._config_parser import ConfigParserOverrideTuple as O

out = []
def rec(label, fn):
  try:
    r = repr(fn())
  except Exception as e:
    r = "EXC %s.%s: %s" % (type(e).__module__, type(e).__name__, e)
  out.append("%s => %s" % (label, r))

def everything(txt, **kw):
  cp = ConfigParser(io.StringIO(txt), **kw)
  r = []
  for attr in ("parsed_sections", "orphan_sections", "pair", "pair", "species", "table_form", "potential_form",
               "eam_embed", "eam_density", "eam_density_fs", "species", "parsed_sections"):
    try:
      v = getattr(cp, attr)
      r.append((attr, type(v).__name__, repr(v)))
      if attr == "species":
        r.append([(k, type(d).__name__, list(d.items())) for k, d in v.items()])
        # mutate the returned value: must not leak into later calls
        v.setdefault("ZZ", {})["q"] = 1
      if attr == "pair" and v:
        r.append([type(p.species).__name__ for p in v])
        v.pop()
    except Exception as e:
      r.append((attr, "EXC %s: %s" % (type(e).__name__, e)))
  return r

pair_bodies = {
  "simple": "O-O : as.buck 1 0.3 0\nMg-O : as.born 2 0.3 0\n",
  "spaces": " O - O  : as.buck 1 0.3 0\nMg -O : as.born 2 0.3 0\nO  -Al : as.zero\n",
  "dup_same": "O-Mg : as.buck 1 0.3 0\nO - Mg : as.born 2 0.3 0\n",
  "dup_rev": "O-Mg : as.buck 1 0.3 0\nAl-O : as.zero\nMg-O : as.born 2 0.3 0\n",
  "dup_rev_spaces": "O-Mg : as.buck 1 0.3 0\n Mg - O : as.born 2 0.3 0\n",
  "self_pair": "O-O : as.zero\nMg-Mg : as.zero\n",
  "case": "o-O : as.zero\nO-o : as.zero\n",
  "three_tokens": "O-Mg-Al : as.zero\n",
  "one_token": "O : as.zero\n",
  "empty_tokens": "- : as.zero\n",
  "half_empty": "O- : as.zero\n-O : as.zero\n",
  "fs_style": "A->B : as.zero\n",
  "bad_form": "O-O : 1 2 3\n",
  "multi": "O-O : >0 as.buck 1 0.3 0 >=2 as.zero\nMg-O : sum(as.buck 1 0.3 0, >1 as.born 2 0.3 0)\n",
  "many": "".join("%s-%s : as.zero\n" % (a, b) for i, a in enumerate("ABCDEFGH") for b in "ABCDEFGH"[i:]),
  "many_dup_late": "".join("%s-%s : as.zero\n" % (a, b) for i, a in enumerate("ABCDEFGH") for b in "ABCDEFGH"[i:]) + "H-A : as.zero\n",
  "empty": "",
}
for k, body in pair_bodies.items():
  rec("pair " + k, lambda: everything("[Pair]\n" + body))
  rec("pairlike " + k, lambda: ConfigParser(io.StringIO("[EAM-ADP-Dipole]\n" + body)).parse_pair_like("EAM-ADP-Dipole"))
rec("pairlike missing", lambda: ConfigParser(io.StringIO("[Pair]\n")).parse_pair_like("Nope"))

tf_cases = {
  "one": "[Table-Form:a]\nxy : 0 1 2 3\n",
  "two": "[Table-Form:a]\nxy : 0 1 2 3\n[Table-Form:b]\nx : 0 1\ny: 2 3\n",
  "dup_space": "[Table-Form:a]\nxy : 0 1 2 3\n[Table-Form: a]\nxy : 0 1\n",
  "dup_space2": "[Table-Form:b]\nxy : 0 1\n[Table-Form:a ]\nxy : 0 1 2 3\n[Pair]\n[Table-Form:  a]\nxy : 0 1\n[Table-Form: a  ]\nxy : 2 2\n",
  "two_dups": "[Table-Form:z]\nxy : 0 1\n[Table-Form:a]\nxy : 0 1\n[Table-Form: z]\nxy : 0 1\n[Table-Form: a]\nxy : 0 1\n",
  "exact_dup": "[Table-Form:a]\nxy : 0 1\n[Table-Form:a]\nxy : 0 1\n",
  "long_xy": "[Table-Form:L]\nxy : " + " ".join(str(i * 0.5) for i in range(41 * 2)) + "\n",
  "odd": "[Table-Form:L]\nxy : 1 2 3\n",
  "single": "[Table-Form:L]\nxy : 1 2\n",
  "empty": "[Table-Form:L]\nxy : \n",
  "orphans": "[Table-Form:L]\nxy : 1 2\n[Foo]\na : 1\n[Table-Form]\nb : 2\n[Tabulation]\ntarget : GULP\n[EAM-Density]\nA : as.zero\n[Bar]\n[Species]\nA.charge : 1\n[Table-Formx:y]\n",
}
for k, txt in tf_cases.items():
  rec("tf " + k, lambda: everything(txt))

species_cases = {
  "basic": "[Species]\nA.atomic_mass : 1.5\nB.charge : -2\nA.atomic_number : 3\nB.lattice_type : fcc\nA.custom : hello\nC.x.y : 1\n",
  "interleaved": "[Species]\nB.charge : -2\nA.atomic_mass : 1.5\nB.atomic_mass : 4\nA.charge : 0\n",
  "spaces": "[Species]\n A . atomic_mass : 1.5\nA.atomic_mass2 : 7\n",
  "bad_key": "[Species]\nAatomic_mass : 1.5\n",
  "bad_val": "[Species]\nA.atomic_mass : heavy\n",
  "bad_int": "[Species]\nA.atomic_number : 1.5\n",
  "empty": "[Species]\n",
  "none": "[Pair]\n",
  "zero": "[Species]\nA.charge : 0\nA.atomic_number : 0\nA.lattice_type :\n",
}
for k, txt in species_cases.items():
  rec("species " + k, lambda: everything(txt))

eam_cases = {
  "std": "[EAM-Density]\nA : as.zero\nB : as.polynomial 0 1\n[EAM-Embed]\nA : as.zero\n",
  "fs": "[EAM-Density]\nA->A : as.zero\nA -> B : as.polynomial 0 1\n[EAM-Embed]\nA : as.zero\n",
  "fs_late": "[EAM-Density]\nA : as.zero\nC : as.zero\nA -> B : as.polynomial 0 1\n",
  "fs_bad": "[EAM-Density]\nA->B->C : as.zero\n",
  "empty_density": "[EAM-Density]\n[EAM-Embed]\n",
  "all": "[Tabulation]\ntarget: setfl\n[Pair]\nA-B : as.zero\n[EAM-Embed]\nA : as.zero\n[Potential-Form]\nf(r, a) = r*a\ng( r ,b ) = f(r,b)\n[EAM-Density]\nA : f 2\n[Table-Form:t]\nxy : 0 0 1 1\n[Variables]\nq = 1\n",
  "bad_sig": "[Potential-Form]\n1f(r) = r\n",
  "bad_sig2": "[Potential-Form]\nf r = r\n",
}
for k, txt in eam_cases.items():
  rec("eam " + k, lambda: everything(txt))

# overrides / additional
base = "[Pair]\nO-O : as.buck 1 0.3 0\nMg-O : as.born 2 0.3 0\n[Table-Form:a]\nxy : 0 1 2 3\n[Species]\nO.charge : -2\n"
ov_cases = [
  dict(additional=[O("Pair", "O-Mg", "as.zero")]),
  dict(additional=[O("Pair", "Al-O", "as.zero")]),
  dict(additional=[O("Pair", "O - O", "as.zero")]),
  dict(additional=[O("Table-Form: a", "xy", "0 1")]),
  dict(additional=[O("Table-Form:b", "xy", "0 1")]),
  dict(overrides=[O("Pair", "O-O", None)]),
  dict(overrides=[O("Pair", "O-O", None), O("Pair", "Mg-O", None)]),
  dict(overrides=[O("Pair", "Mg - O", "as.zero")]),
  dict(overrides=[O("Pair", "Al-O", "as.zero")]),
  dict(overrides=[O("Species", "O.charge", "-1.5")], additional=[O("Species", "Mg.charge", "2"), O("Variables", "v", "3")]),
]
for i, kw in enumerate(ov_cases):
  rec("override %d" % i, lambda: everything(base, **kw))

# caching must not leak between parser instances / repeated keys with different config
for rep in range(3):
  rec("repeat %d" % rep, lambda: everything("[Pair]\nO-O : as.buck %d 0.3 0\nMg-O : as.born 2 0.3 0\n" % rep))

# end to end
for order in (["O-O", "Mg-O", "Mg-Mg"], ["Mg-Mg", "O-Mg", "O-O"]):
  txt = "[Tabulation]\ntarget : DL_POLY\nnr : 12\ncutoff : 3.0\n[Pair]\n" + "".join("%s : as.buck 100.0 0.3 1.0\n" % k for k in order) + "X-O : tf\n[Table-Form:tf]\nxy : 0 5 1 4 2 3 3 2 4 1\n"
  def run():
    tab = Configuration().read(io.StringIO(txt))
    sio = io.StringIO()
    tab.write(sio)
    return hashlib.sha256(sio.getvalue().encode()).hexdigest()
  rec("e2e %r" % order, run)

blob = "\n".join(out)
print(len(out), "records")
print(hashlib.sha256(blob.encode()).hexdigest())

"""Differential script for twin B (plus()/product()/pow() combinators of atsim.potentials).

Exercises the combinators directly, nested, through Potential / writePotentials and via the
sum()/product()/pow() config modifiers; prints a sha256 digest of everything observed."""
import hashlib, io, math, inspect

import atsim.potentials as ap
from atsim.potentials import potentialforms as pf
from atsim.potentials.config import Configuration

out = []
def rec(*a):
  out.append(" ".join(repr(x) for x in a))

def attempt(label, f, *args):
  try:
    rec(label, f(*args))
  except Exception as e:
    rec(label, "EXC", type(e).__name__, str(e))

GRID = [0.0, 0.25, 0.5, 1.0, 1.3, 2.0, 2.75, 4.0, 10.0, -1.0, float("inf"), float("nan"), "x"]

def plain_a(r):
  return 1000.0*math.exp(-r/0.3)
def plain_b(r):
  return 2.0 + r*r

class OnlyDeriv(object):
  def __call__(self, r):
    return 3.0*r**2
  def deriv(self, r):
    return 6.0*r

operands = {
  "buck": pf.buck(1000.0, 0.3, 32.0),
  "hbnd": pf.hbnd(10.0, 5.0),
  "const": pf.constant(2.0),
  "morse": pf.morse(1.8, 2.2, 0.6),
  "plain_a": plain_a,
  "plain_b": plain_b,
  "onlyd": OnlyDeriv(),
  "poly": pf.polynomial(1.0, -2.0, 0.5),
  "spline": ap.SplinePotential(pf.zbl(92, 8), pf.buck(1761.775, 0.35642, 0.0), 0.8, 1.4),
}
pairs = [("buck", "hbnd"), ("buck", "plain_b"), ("plain_a", "plain_b"), ("plain_b", "const"),
         ("onlyd", "plain_b"), ("plain_b", "onlyd"), ("onlyd", "onlyd"), ("morse", "poly"),
         ("spline", "const"), ("poly", "const"), ("buck", "const")]

def dump(label, f):
  rec(label, "kind", inspect.isfunction(f), f.__name__, hasattr(f, "deriv"), hasattr(f, "deriv2"),
      sorted(k for k in vars(f)))
  for name in ("deriv", "deriv2"):
    if hasattr(f, name):
      g = getattr(f, name)
      rec(label, name, inspect.isfunction(g), g.__name__, sorted(vars(g)))
  for r in GRID:
    attempt(label+" U", f, r)
    if hasattr(f, "deriv"):
      attempt(label+" d", f.deriv, r)
    if hasattr(f, "deriv2"):
      attempt(label+" d2", f.deriv2, r)
  g = ap.gradient(f)
  g2 = ap.gradient(g)
  rec(label, "grad", hasattr(g, "deriv"), hasattr(g2, "deriv"))
  for r in GRID[:9]:
    attempt(label+" g", g, r)
    attempt(label+" g2", g2, r)

for opname in ("plus", "product", "pow"):
  op = getattr(ap, opname)
  rec(opname, "sig", str(inspect.signature(op)), op.__name__, (op.__doc__ or "")[:60])
  for a, b in pairs:
    try:
      f = op(operands[a], operands[b])
    except Exception as e:
      rec(opname, a, b, "EXC", type(e).__name__)
      continue
    dump("%s(%s,%s)" % (opname, a, b), f)

# nested combinations
nested = {
  "plus(plus)": ap.plus(ap.plus(operands["buck"], operands["hbnd"]), operands["morse"]),
  "product(plus,const)": ap.product(ap.plus(operands["buck"], plain_b), operands["const"]),
  "pow(plus,const)": ap.pow(ap.plus(plain_b, operands["poly"]), operands["const"]),
  "plus(pow,product)": ap.plus(ap.pow(operands["buck"], operands["const"]), ap.product(operands["onlyd"], operands["hbnd"])),
  "pow(product,pow)": ap.pow(ap.product(plain_b, plain_b), ap.pow(operands["const"], operands["const"])),
}
for k in sorted(nested):
  dump(k, nested[k])

# bad arguments
attempt("bad plus", lambda: ap.plus(None, None)(1.0))
attempt("bad product", lambda: ap.product(1.0, 2.0)(1.0))
attempt("bad pow", lambda: ap.pow(operands["buck"], None).deriv(1.0))
attempt("bad arity", lambda: ap.plus(operands["buck"]))
attempt("kw", lambda: ap.pow(a=operands["plain_b"], b=operands["const"])(2.0))

# Potential objects + pair tabulations
pots = [ap.Potential("O", "U", nested["plus(plus)"]), ap.Potential("O", "O", ap.product(operands["buck"], operands["const"])),
        ap.Potential("U", "U", ap.pow(plain_b, operands["const"]))]
for p in pots:
  rec("Pot", p.speciesA, p.speciesB, [p.energy(r) for r in (0.5, 1.0, 2.0)], [p.force(r) for r in (0.5, 1.0, 2.0)])
for fmt, n in (("LAMMPS", 25), ("DL_POLY", 24), ("GULP", 20)):
  sio = io.StringIO()
  try:
    ap.writePotentials(fmt, pots, 6.0, n, out=sio)
    rec("write", fmt, hashlib.sha256(sio.getvalue().encode()).hexdigest(), len(sio.getvalue()))
  except Exception as e:
    rec("write", fmt, "EXC", type(e).__name__, str(e))

# config modifiers which reduce with plus/product/pow
CFGS = [
u"""[Tabulation]
target : LAMMPS
cutoff : 5.0
nr : 30
[Pair]
O-U = sum(as.buck 1000.0 0.3 32.0, as.hbnd 10.0 5.0, as.morse 1.8 2.2 0.6)
O-O = product(as.buck 1000.0 0.3 32.0, as.constant 2.0, sq 1.0)
U-U = pow(sq 2.0, as.constant 2.0)
[Potential-Form]
sq(r, A) = A + r^2
""",
u"""[Tabulation]
target : DL_POLY
cutoff : 6.0
nr : 32
[Pair]
A-B = sum(pow(as.buck 1000.0 0.3 0.0, as.constant 2.0), product(as.constant -1.0, as.hbnd 10.0 5.0))
B-B = pow(as.polynomial 1.0 0.5 0.25, as.polynomial 1.0 0.1)
""",
u"""[Tabulation]
target : GULP
cutoff : 4.0
dr : 0.2
[Pair]
Gd-O = sum(as.constant 1.0, >0 as.zbl 64 8 >=1.0 as.buck 1885.75 0.3399 20.34)
""",
u"""[Pair]
A-B = pow(as.constant 1.0)
""",
u"""[Pair]
A-B = product()
""",
]
for i, cfg in enumerate(CFGS):
  try:
    tab = Configuration().read(io.StringIO(cfg))
    sio = io.StringIO()
    tab.write(sio)
    rec("cfg", i, hashlib.sha256(sio.getvalue().encode()).hexdigest(), len(sio.getvalue()))
    for p in tab.potentials:
      f = p.potentialFunction
      rec("cfg", i, p.speciesA, p.speciesB, hasattr(f, "deriv"), hasattr(f, "deriv2"),
          [p.energy(r) for r in (0.5, 1.0, 1.3, 2.0, 3.0)], [p.force(r) for r in (0.5, 1.0, 1.3, 2.0, 3.0)])
  except Exception as e:
    rec("cfg", i, "EXC", type(e).__name__, str(e))

txt = "\n".join(out)
print(len(out), "records")
print("DIGEST", hashlib.sha256(txt.encode()).hexdigest())
if __import__("sys").argv[1:] == ["-v"]:
  print(txt)

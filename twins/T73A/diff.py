"""diffA.py - edit A: new potential modifier scale(f, as.constant C) = C*f(r).

Usage (always through the worktree wrapper):

  /venv/bin/python -W ignore /tmp/wtpy.py /tmp/wt_r7_3 _twins/diffA.py            # digest + feature demo
  /venv/bin/python -W ignore /tmp/wtpy.py /tmp/wt_r7_3 _twins/diffA.py digest     # digest of EXISTING behaviour only
  /venv/bin/python -W ignore /tmp/wtpy.py /tmp/wt_r7_3 _twins/diffA.py feature    # demo of the new modifier only
  /venv/bin/python -W ignore /tmp/wtpy.py /tmp/wt_r7_3 _twins/diffA.py featuredigest  # (internal) table digest for hash-seed runs

The "EXISTING DIGEST" line must be identical on the clean tree and on the tree with the edit applied.
"""
from __future__ import print_function

import glob
import hashlib
import io
import math
import os
import subprocess
import sys

WT = os.path.dirname(os.path.dirname(os.path.abspath(__file__)))

from atsim.potentials import Potential, plus, product, pow as ppow
from atsim.potentials import potentialforms as pf
from atsim.potentials.pair_tabulation import LAMMPS_PairTabulation, DLPoly_PairTabulation
from atsim.potentials.config import Configuration, ConfigParser, ConfigParserOverrideTuple
from atsim.potentials.config._common import ConfigurationException
from atsim.potentials.config._modifier_registry import Modifier_Registry

# ---------------------------------------------------------------------------
# (a) digest of existing behaviour
# ---------------------------------------------------------------------------

def _tabulate(text, overrides=(), additional=()):
  cp = ConfigParser(io.StringIO(text), overrides=list(overrides), additional=list(additional))
  tab = Configuration().read_from_parser(cp)
  out = io.StringIO()
  tab.write(out)
  return tab, out.getvalue()

def _outcome(text, overrides=(), additional=()):
  """Return the table text or a description of the exception raised."""
  try:
    return _tabulate(text, overrides, additional)[1]
  except Exception as e:
    kind = "ConfigurationException" if isinstance(e, ConfigurationException) else "OTHER"
    return "%s|%s|%s" % (kind, type(e).__name__, e)

EXISTING_MODELS = [
u"""[Tabulation]
target : {target}
cutoff : 6.0
nr : {nr}

[Pair]
O-O : as.buck 1633.00510 0.327022 3.948790
U-U : as.buck 294.640000 0.327022 0.0
O-U : sum(as.buck 693.648700 0.327022 0.0, as.morse 1.6500 2.36900 0.577190)
A-A : product(as.constant 2.5, as.bornmayer 1000.0 0.3, truncate 2.5)
A-B : pow(as.polynomial 3.0 2.0, as.constant 2)
A-C : trans(pow(as.polynomial 3.0 2.0, as.constant 2), as.constant -2.0)
B-B : sum(as.buck 1000.0 0.1 0, trans(as.buck 1000.0 0.1 0, as.constant 1.0))
B-C : >=0 as.constant 3.0 >1.5 as.lj 0.1 2.0 >=4 as.zero
C-C : spline(>0 as.zbl 14 8 >=0.8 exp_spline >=1.4 as.buck 18003.7572 0.205204 133.5381)
C-D : spline(>0 as.bornmayer 11272.6 0.1363 >1.2 buck4_spline 2.1 >2.6 as.buck 0 1 134.0)
D-D : as.buck4 11272.6 0.1363 134.0 1.2 2.1 2.6
D-E : sum(trans(truncate 3.0, as.constant 0.5), pow(soft 1.0 2.0, as.constant 2), product(tab, as.constant 0.5))
E-E : sum(>0 truncate 1.0 >=2 as.zbl 8 8, as.exponential 2.0 1.5)

[Potential-Form]
truncate(rij, cutoff) = erfc(4*(rij-cutoff))/2.0
soft(r, a, b) = a/(b + r^2)

[Table-Form:tab]
interpolation : cubic_spline
x : 0.0 1.0 2.0 3.0 4.0 5.0 6.0 7.0
y : 9.0 4.0 1.0 0.5 0.2 0.1 0.05 0.0
""",
]

MALFORMED = [
  u"A-B : nosuchmodifier(as.buck 1000.0 0.1 1.0)",
  u"A-B : trans(as.buck 1000.0 0.1 1.0)",
  u"A-B : trans(as.buck 1000.0 0.1 1.0, as.buck 1000.0 0.1 1.0)",
  u"A-B : trans(as.buck 1000.0 0.1 1.0, as.constant 1.0 2.0)",
  u"A-B : trans(as.buck 1000.0 0.1 1.0, sum(as.constant 1.0))",
  u"A-B : trans(as.buck 1000.0 0.1 1.0, as.constant 1.0, as.constant 1.0)",
  u"A-B : spline(as.buck 1000.0 0.1 1.0)",
  u"A-B : spline(as.buck 1000.0 0.1 1.0, as.constant 1)",
  u"A-B : spline(>0 as.zbl 14 8 >=0.8 exp_spline 1.0 >=1.4 as.buck 18003.7572 0.205204 133.5381)",
  u"A-B : spline(>0 as.zbl 14 8 >=0.8 buck4_spline 3.0 >=1.4 as.buck 18003.7572 0.205204 133.5381)",
  u"A-B : sum(as.nosuchform 1.0)",
  u"A-B : sum(as.buck 1000.0 0.1)",
  u"A-B : pow(as.buck 1000.0 0.1 1.0, nosuch 2)",
  u"A-B : product(as.buck 1000.0 0.1 1.0,)",
  u"A-B : sum(as.buck 1000.0 0.1 1.0",
]

def _malformed_text(pair_line, target=u"LAMMPS", nr=11):
  return u"[Tabulation]\ntarget : %s\ncutoff : 5.0\nnr : %d\n\n[Pair]\n%s\n" % (target, nr, pair_line)

def existing_digest(verbose=False):
  h = hashlib.sha256()
  def feed(label, text):
    if not isinstance(text, bytes):
      text = text.encode("utf-8")
    h.update(label.encode("utf-8") + b"\0" + text + b"\0")
    if verbose:
      print("   %-58s %s" % (label, hashlib.sha256(text).hexdigest()[:16]))

  # 1. every example model shipped with the project, with its own target
  files = sorted(glob.glob(os.path.join(WT, "docs", "user_guide", "example_files", "*.aspot")))
  files += sorted(glob.glob(os.path.join(WT, "docs", "quick_start", "*.aspot")))
  files += sorted(glob.glob(os.path.join(WT, "tests", "config", "config_resources", "*.aspot")))
  for fname in files:
    with io.open(fname, encoding="utf-8") as infile:
      text = infile.read()
    rel = os.path.relpath(fname, WT)
    feed("example:" + rel, _outcome(text))

  # 2. a pair model using every existing modifier, nesting, multi-range, custom and table forms, for each pair target
  for model in EXISTING_MODELS:
    for target, nr in [(u"LAMMPS", 61), (u"DL_POLY", 64), (u"GULP", 31), (u"DLPOLY", 13)]:
      feed("model:%s:%d" % (target, nr), _outcome(model.format(target=target, nr=nr)))

  # 3. value / deriv / deriv2 of each potential of that model, at many separations
  tab, _ = _tabulate(EXISTING_MODELS[0].format(target=u"LAMMPS", nr=11))
  for pot in tab.potentials:
    func = pot.potentialFunction
    rows = []
    for i in range(1, 60):
      r = 0.1 * i
      row = [repr(pot.energy(r)), repr(pot.force(r))]
      for attr in ("deriv", "deriv2"):
        row.append(repr(getattr(func, attr)(r)) if hasattr(func, attr) else "n/a")
      rows.append(" ".join(row))
    feed("values:%s-%s" % (pot.speciesA, pot.speciesB), "\n".join(rows))

  # 4. error behaviour for malformed modifier use
  for line in MALFORMED:
    feed("malformed:" + line, _outcome(_malformed_text(line)))

  # 5. python API combinators
  class NoDeriv(object):
    def __call__(self, r):
      return math.exp(-r) + 0.5*r
  combos = [
    ("plus", plus(pf.buck(1000.0, 0.3, 32.0), pf.morse(1.65, 2.369, 0.57719))),
    ("plus_nd", plus(pf.buck(1000.0, 0.3, 32.0), NoDeriv())),
    ("product", product(pf.bornmayer(1000.0, 0.3), pf.polynomial(1.0, 0.5, 0.25))),
    ("product_nd", product(NoDeriv(), pf.polynomial(1.0, 0.5, 0.25))),
    ("pow", ppow(pf.polynomial(3.0, 2.0), pf.constant(2.0))),
    ("nested", plus(product(pf.lj(0.1, 2.0), pf.constant(2.0)), ppow(pf.polynomial(1.0, 1.0), pf.constant(3.0)))),
  ]
  for name, func in combos:
    rows = []
    for i in range(1, 40):
      r = 0.15 * i
      rows.append(" ".join([repr(func(r)), repr(func.deriv(r)), repr(func.deriv2(r))]))
    feed("api:" + name, "\n".join(rows))
    out = io.StringIO()
    LAMMPS_PairTabulation([Potential("A", "B", func)], 5.0, 21).write(out)
    feed("api-lammps:" + name, out.getvalue())
    out = io.StringIO()
    DLPoly_PairTabulation([Potential("A", "B", func)], 5.0, 24).write(out)
    feed("api-dlpoly:" + name, out.getvalue())

  # 6. the pre-existing modifiers are still registered and are the same kind of object
  reg = Modifier_Registry()
  for name in ["pow", "product", "spline", "sum", "trans"]:
    feed("registry:" + name, "%s %s" % (reg[name].__name__, callable(reg[name])))

  return h.hexdigest()

# ---------------------------------------------------------------------------
# helpers for (b)
# ---------------------------------------------------------------------------

CHECKS = []

def check(label, ok, detail=""):
  CHECKS.append(bool(ok))
  print("   [%s] %s %s" % ("ok" if ok else "FAIL", label, detail))

def fd1(func, r, h=1e-5):
  # 4th order central difference
  return (-func(r+2*h) + 8*func(r+h) - 8*func(r-h) + func(r-2*h)) / (12*h)

def close(a, b, rtol=1e-6, atol=1e-7):
  return abs(a-b) <= atol + rtol*max(abs(a), abs(b))

def potentials_of(text):
  tab = Configuration().read(io.StringIO(text))
  return tab, dict(((p.speciesA, p.speciesB), p) for p in tab.potentials)

def expect_config_error(label, pair_line):
  try:
    _tabulate(_malformed_text(pair_line))
  except ConfigurationException as e:
    check("configuration error for: " + label, True, "-> %s: %s" % (type(e).__name__, str(e)[:90]))
  except Exception as e:
    check("configuration error for: " + label, False, "-> escaped as %s: %s" % (type(e).__name__, e))
  else:
    check("configuration error for: " + label, False, "-> accepted")

def potable_stderr(pair_line):
  """Run the potable command line tool on a malformed file, return (exit status, stderr)."""
  import tempfile
  d = tempfile.mkdtemp()
  infile = os.path.join(d, "in.aspot")
  outfile = os.path.join(d, "out.table")
  with io.open(infile, "w", encoding="utf-8") as f:
    f.write(_malformed_text(pair_line))
  code = "import sys; from atsim.potentials.tools.potable import main; sys.argv=['potable', %r, %r]; main()" % (infile, outfile)
  p = subprocess.Popen([sys.executable, "-W", "ignore", "/tmp/wtpy.py", WT, "-c", code], stdout=subprocess.PIPE, stderr=subprocess.PIPE)
  _, err = p.communicate()
  size = os.path.getsize(outfile) if os.path.exists(outfile) else -1
  return p.returncode, err.decode("utf-8", "replace").strip().splitlines()[-1:] , size

def hash_seed_runs(script):
  digests = set()
  for seed in ["0", "1", "2", "31337", "random"]:
    env = dict(os.environ)
    env["PYTHONHASHSEED"] = seed
    out = subprocess.check_output([sys.executable, "-W", "ignore", "/tmp/wtpy.py", WT, script, "featuredigest"], env=env)
    digests.add(out.decode("utf-8").strip())
  return digests

def feature_present(name):
  try:
    Modifier_Registry()[name]
    return True
  except KeyError:
    return False

# ---------------------------------------------------------------------------
# (b) the new scale() modifier
# ---------------------------------------------------------------------------

FEATURE_MODEL = u"""[Tabulation]
target : {target}
cutoff : 6.0
nr : {nr}

[Pair]
A-A : scale(as.buck 1000.0 0.3 32.0, as.constant 0.5)
A-B : scale(as.morse 1.65 2.369 0.57719, as.constant -1)
A-C : scale(soft 1.0 2.0, as.constant 3)
A-D : scale(>=0 as.constant 3.0 >1.5 as.lj 0.1 2.0 >=4 as.zero, as.constant 2.5)
B-B : sum(as.buck 1000.0 0.3 32.0, scale(pow(as.polynomial 3.0 2.0, as.constant 2), as.constant -0.25))
B-C : scale(spline(>0 as.zbl 14 8 >=0.8 exp_spline >=1.4 as.buck 18003.7572 0.205204 133.5381), as.constant 2)
B-D : >0 scale(as.lj 0.1 2.0, as.constant 4) >=3 scale(tab, as.constant 0.5)
C-C : scale(sum(soft 1.0 2.0, as.buck 1000.0 0.3 32.0), as.constant 1.5)
C-D : scale(scale(as.buck 1000.0 0.3 32.0, as.constant 2), as.constant 0)
D-D : trans(scale(as.buck 1000.0 0.3 32.0, as.constant 0.5), as.constant 1.0)

[Potential-Form]
soft(r, a, b) = a/(b + r^2)

[Table-Form:tab]
interpolation : cubic_spline
x : 0.0 1.0 2.0 3.0 4.0 5.0 6.0 7.0
y : 9.0 4.0 1.0 0.5 0.2 0.1 0.05 0.0
"""

# The same model without scale(): REFERENCE[pair] = (factor, definition of the unscaled potential)
REFERENCE_MODEL = u"""[Tabulation]
target : LAMMPS
cutoff : 6.0
nr : 11

[Pair]
A-A : as.buck 1000.0 0.3 32.0
A-B : as.morse 1.65 2.369 0.57719
A-C : soft 1.0 2.0
A-D : >=0 as.constant 3.0 >1.5 as.lj 0.1 2.0 >=4 as.zero
B-C : spline(>0 as.zbl 14 8 >=0.8 exp_spline >=1.4 as.buck 18003.7572 0.205204 133.5381)
C-C : sum(soft 1.0 2.0, as.buck 1000.0 0.3 32.0)
X-X : pow(as.polynomial 3.0 2.0, as.constant 2)
X-Y : as.lj 0.1 2.0
X-Z : tab

[Potential-Form]
soft(r, a, b) = a/(b + r^2)

[Table-Form:tab]
interpolation : cubic_spline
x : 0.0 1.0 2.0 3.0 4.0 5.0 6.0 7.0
y : 9.0 4.0 1.0 0.5 0.2 0.1 0.05 0.0
"""
FACTORS = {("A","A"): 0.5, ("A","B"): -1, ("A","C"): 3, ("A","D"): 2.5, ("B","C"): 2, ("C","C"): 1.5}

EAM_MODEL = u"""[Tabulation]
target : setfl
cutoff : 5.0
nr : 21
cutoff_rho : 10.0
nrho : 21

[Pair]
Ag-Ag : scale(as.lj 0.1 2.0, as.constant 2)

[EAM-Embed]
Ag : scale(as.sqrt 1.0, as.constant -2.5)

[EAM-Density]
Ag : scale(as.polynomial 0 0 0 0 0 0 1, as.constant 0.001)
"""
EAM_REFERENCE = EAM_MODEL.replace(u"scale(as.lj 0.1 2.0, as.constant 2)", u"product(as.lj 0.1 2.0, as.constant 2)") \
  .replace(u"scale(as.sqrt 1.0, as.constant -2.5)", u"as.sqrt -2.5") \
  .replace(u"scale(as.polynomial 0 0 0 0 0 0 1, as.constant 0.001)", u"as.polynomial 0 0 0 0 0 0 0.001")

RS = [0.05 + 0.173*i for i in range(40)] + [0.8, 1.4, 1.5, 3.0, 4.0]

def feature_digest():
  h = hashlib.sha256()
  for target, nr in [(u"LAMMPS", 61), (u"DL_POLY", 64), (u"GULP", 31)]:
    h.update(_outcome(FEATURE_MODEL.format(target=target, nr=nr)).encode("utf-8"))
  h.update(_outcome(EAM_MODEL).encode("utf-8"))
  return h.hexdigest()

def feature_demo():
  print("(b) scale() modifier")
  if not feature_present("scale"):
    print("   scale() is not registered in this tree (clean tree) - nothing to demonstrate")
    return
  tab, pots = potentials_of(FEATURE_MODEL.format(target=u"LAMMPS", nr=61))
  _, ref = potentials_of(REFERENCE_MODEL)

  # values and derivatives equal C * those of the argument - exactly
  for key in sorted(FACTORS):
    c = FACTORS[key]
    f = pots[key].potentialFunction
    g = ref[key].potentialFunction
    ok = all(f(r) == c*g(r) for r in RS)
    check("%s-%s value == C*f(r) at %d separations" % (key[0], key[1], len(RS)), ok)
    check("%s-%s offers deriv/deriv2 exactly when its argument does" % key,
      hasattr(f, "deriv") == hasattr(g, "deriv") and hasattr(f, "deriv2") == hasattr(g, "deriv2"),
      "(deriv %s, deriv2 %s)" % (hasattr(f, "deriv"), hasattr(f, "deriv2")))
    if hasattr(f, "deriv"):
      check("%s-%s deriv == C*f.deriv(r)" % key, all(f.deriv(r) == c*g.deriv(r) for r in RS))
    if hasattr(f, "deriv2"):
      check("%s-%s deriv2 == C*f.deriv2(r)" % key, all(f.deriv2(r) == c*g.deriv2(r) for r in RS))

  # analytic derivatives against finite differences (away from range boundaries / spline knots)
  smooth_r = [r for r in RS if min(abs(r-b) for b in (0.8, 1.4, 1.5, 3.0, 4.0)) > 1e-3 and r > 0.3]
  for key in sorted(pots):
    f = pots[key].potentialFunction
    if hasattr(f, "deriv"):
      bad = [(r, f.deriv(r), fd1(f, r)) for r in smooth_r if not close(f.deriv(r), fd1(f, r), 1e-5, 1e-6)]
      check("%s-%s deriv matches finite difference of the energy" % key, not bad, str(bad[:2]) if bad else "")
    if hasattr(f, "deriv2"):
      # C-C has a component without analytic derivatives: its second derivative is a nested central difference (noise ~1e-4)
      tol = 1e-3 if key == ("C","C") else 1e-5
      bad = [(r, f.deriv2(r), fd1(f.deriv, r)) for r in smooth_r if not close(f.deriv2(r), fd1(f.deriv, r), tol, tol/10)]
      check("%s-%s deriv2 matches finite difference of deriv" % key, not bad, str(bad[:2]) if bad else "")
    # Potential.force is minus the slope of the energy whether analytic or numerical
    bad = [r for r in smooth_r if not close(pots[key].force(r), -fd1(pots[key].energy, r), 1e-4, 1e-5)]
    check("%s-%s force == -dE/dr (%s)" % (key[0], key[1], "analytic" if hasattr(f, "deriv") else "numerical fallback"), not bad, str(bad[:3]))

  # nesting: inside sum(), as a range of a multi-range potential, inside trans(), scale of scale
  x = ref[("X","X")].potentialFunction; buck = ref[("A","A")].potentialFunction
  f = pots[("B","B")].potentialFunction
  check("B-B sum(buck, scale(pow(...), -0.25)) == buck + -0.25*pow", all(f(r) == buck(r) + -0.25*x(r) for r in RS))
  check("B-B deriv/deriv2 combine", all(close(f.deriv(r), buck.deriv(r) - 0.25*x.deriv(r), 1e-14, 0) and close(f.deriv2(r), buck.deriv2(r) - 0.25*x.deriv2(r), 1e-14, 0) for r in RS))
  f = pots[("B","D")].potentialFunction
  lj = ref[("X","Y")].potentialFunction; t = ref[("X","Z")].potentialFunction
  check("B-D multi-range of scaled parts selects by range", all(f(r) == (4*lj(r) if r < 3 else 0.5*t(r)) for r in RS))
  check("B-D derivs follow the selected range", all(f.deriv(r) == (4*lj.deriv(r) if r < 3 else 0.5*t.deriv(r)) for r in RS))
  f = pots[("C","D")].potentialFunction
  check("C-D scale(scale(f, 2), 0) is identically zero with zero derivatives", all(f(r) == 0 and f.deriv(r) == 0 and f.deriv2(r) == 0 for r in RS))
  f = pots[("D","D")].potentialFunction
  check("D-D trans(scale(buck, 0.5), 1) == 0.5*buck(r+1)", all(f(r) == 0.5*buck(r+1.0) and f.deriv(r) == 0.5*buck.deriv(r+1.0) and f.deriv2(r) == 0.5*buck.deriv2(r+1.0) for r in RS))
  f = pots[("A","D")].potentialFunction; g = ref[("A","D")].potentialFunction
  check("A-D multi-range argument passed through unchanged (boundaries 0, 1.5, 4)", all(f(r) == 2.5*g(r) for r in [1e-9, 1.5, 1.5+1e-9, 3.999, 4.0, 4.5])
    and f(0.0) == 0.0 and f(-1.0) == 0.0, "(the scale() entry itself acts for r > 0 only, like every potable entry)")

  # table rows: energy and force columns of the LAMMPS table agree with the model
  _, text = _tabulate(FEATURE_MODEL.format(target=u"LAMMPS", nr=61))
  lines = text.splitlines()
  ok = True; nrows = 0; i = 0
  while i < len(lines):
    if lines[i].startswith("N "):
      a, b = lines[i-1].split("-")
      p = pots[(a, b)]
      n = int(lines[i].split()[1])
      for row in lines[i+2:i+2+n]:
        k, rtxt, e, frc = row.split()
        # the separation the writer evaluated (the printed one is rounded to 8 places, which matters on a range boundary)
        r = 0.1 + float(int(k)-1) * (6.0 - 0.1) / (float(n) - 1)
        ok = ok and rtxt == "%.8f" % r
        ok = ok and close(float(e), p.energy(r), 1e-7, 1e-8) and close(float(frc), p.force(r), 1e-7, 1e-8)
        if min(abs(r-bnd) for bnd in (0.8, 1.4, 1.5, 3.0, 4.0)) > 1e-6:
          # away from range boundaries / spline knots the force column is minus the slope of the energy column's function
          ok = ok and close(float(frc), -fd1(p.energy, r), 1e-4, 1e-5)
        nrows += 1
      i += n
    i += 1
  check("LAMMPS table: %d rows, energy and force columns agree with model and -dE/dr" % nrows, ok and nrows == 10*60)

  # usable in EAM sections; equals the same model written with existing means
  check("setfl file using scale() in [Pair], [EAM-Embed], [EAM-Density] == file using product()/scaled parameters",
    _outcome(EAM_MODEL) == _outcome(EAM_REFERENCE) and not _outcome(EAM_MODEL).startswith(("ConfigurationException|", "OTHER|")))

  # purity / determinism
  t1 = _outcome(FEATURE_MODEL.format(target=u"LAMMPS", nr=61))
  f = pots[("A","C")].potentialFunction
  vals = [f(r) for r in RS]; [p.energy(1.0) for p in tab.potentials]; vals2 = [f(r) for r in reversed(RS)][::-1]
  out = io.StringIO(); tab.write(out); out2 = io.StringIO(); tab.write(out2)
  check("rebuilding / rewriting / re-evaluating in another order gives identical results", t1 == out.getvalue() == out2.getvalue() and vals == vals2)
  digests = hash_seed_runs(os.path.join("_twins", os.path.basename(__file__)))
  check("tables identical under PYTHONHASHSEED=0,1,2,31337,random", len(digests) == 1 and feature_digest() in digests, str(sorted(digests)))

  # error paths
  expect_config_error("one argument", u"A-B : scale(as.buck 1000.0 0.1 1.0)")
  expect_config_error("three arguments", u"A-B : scale(as.buck 1000.0 0.1 1.0, as.constant 1.0, as.constant 1.0)")
  expect_config_error("second argument not as.constant", u"A-B : scale(as.buck 1000.0 0.1 1.0, as.buck 1000.0 0.1 1.0)")
  expect_config_error("arguments in the wrong order", u"A-B : scale(as.constant 2.0, as.buck 1000.0 0.1 1.0)")
  expect_config_error("second argument is a modifier", u"A-B : scale(as.buck 1000.0 0.1 1.0, sum(as.constant 1.0))")
  expect_config_error("as.constant with two parameters", u"A-B : scale(as.buck 1000.0 0.1 1.0, as.constant 1.0 2.0)")
  expect_config_error("as.constant with no parameters", u"A-B : scale(as.buck 1000.0 0.1 1.0, as.constant)")
  expect_config_error("multi-range second argument", u"A-B : scale(as.buck 1000.0 0.1 1.0, as.constant 1.0 >2 as.constant 3.0)")
  expect_config_error("unknown form in first argument", u"A-B : scale(as.nosuch 1000.0 0.1 1.0, as.constant 1.0)")
  expect_config_error("wrong parameter count in first argument", u"A-B : scale(as.buck 1000.0 0.1, as.constant 1.0)")
  expect_config_error("unknown modifier in first argument", u"A-B : scale(nosuch(as.buck 1000.0 0.1 1.0), as.constant 1.0)")
  status, err, size = potable_stderr(u"A-B : scale(as.buck 1000.0 0.1 1.0, as.buck 1 1 1)")
  check("potable reports a configuration error, exit status != 0, no table", status != 0 and err and "configuration error" in err[0].lower() and size <= 0, "status=%s size=%s %s" % (status, size, err))

if __name__ == "__main__":
  mode = sys.argv[1] if len(sys.argv) > 1 else "all"
  if mode == "featuredigest":
    print(feature_digest())
    sys.exit(0)
  if mode in ("all", "digest"):
    print("(a) EXISTING DIGEST %s" % existing_digest(verbose="-v" in sys.argv))
  if mode in ("all", "feature"):
    feature_demo()
    if CHECKS:
      print("   %d/%d checks passed; FEATURE DIGEST %s" % (sum(CHECKS), len(CHECKS), feature_digest()))
      sys.exit(0 if all(CHECKS) else 1)

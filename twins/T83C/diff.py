"""Differential script for twin C (potable argument parsing moved to
potable/_cli.py and re-exported; explicit __all__ in atsim.potentials.config).

Part 1: drives atsim.potentials.tools.potable.main() in-process with patched
sys.argv over a varied set of command lines (tabulation to all targets, EAM
models, queries, filters, overrides, malformed input) and digests exit
status, stdout, stderr/log text and bytes of the files written.

Part 2: calls the re-exported potable._parse_command_line(cli_args) directly
(the way tests/config/test_potable.py does) for good and bad argument lists,
digesting the parsed namespace, the parser's usage/help text and the error
behaviour; checks that every name the potable package exposed before the
split is still there with the same kind of object.

Part 3: public names of atsim.potentials.config: `from ... import *`, the
non-underscore dir() and the identity of each exported object with the one in
its defining submodule.

Usage: /venv/bin/python -W ignore /tmp/wtpy.py /tmp/wt_r8_3 _twins/diffC.py
"""
import contextlib
import hashlib
import importlib
import io
import logging
import os
import shutil
import subprocess
import sys
import tempfile

WT = os.path.dirname(os.path.dirname(os.path.abspath(__file__)))
os.environ["COLUMNS"] = "80"
os.environ["LINES"] = "24"

EX = os.path.join(WT, "docs", "user_guide", "example_files")
BASAK = os.path.join(WT, "docs", "quick_start", "basak.aspot")
STD_EAM = os.path.join(EX, "standard_eam.aspot")
FS_EAM = os.path.join(EX, "finnis_sinclair_eam.aspot")
TABLE_FORM = os.path.join(EX, "basak_table_form.aspot")
SPLINE = os.path.join(EX, "morelon_buck4_spline.aspot")
CUSTOM = os.path.join(EX, "basak_custom_potential_form_a.aspot")
SPINEL = os.path.join(WT, "tests", "config", "config_resources", "spinel.aspot")
CRG = os.path.join(WT, "tests", "lammps_resources", "CRG_U_Th.aspot")

BROKEN = """[Tabulation]
target : NOT_A_TARGET
cutoff : 2.0
nr : 10

[Pair]
O-O = as.buck 1.0 0.3 0.0
"""

BROKEN2 = """[Tabulation]
target : LAMMPS
cutoff : 2.0
nr : 10

[Pair]
O-O = no_such_form 1.0 0.3 0.0
"""

SMALL = ["-e", "Tabulation:nr=40"]

CASES = [
  # plain tabulation, the three pair targets
  [BASAK, "TABLE"] + SMALL,
  [BASAK, "out.lmptab", "-e", "Tabulation:target=LAMMPS", "Tabulation:nr=25"],
  [BASAK, "out.gulp", "--override-item", "Tabulation:target=GULP", "--override-item", "Tabulation:nr=30"],
  [BASAK, "TABLE", "-e", "Tabulation:nr=36", "-e", "Tabulation:cutoff=4.25"],
  [TABLE_FORM, "tf.lmptab", "-e", "Tabulation:nr=50"],
  [SPLINE, "spl.lmptab", "-e", "Tabulation:dr=0.25"],
  [CUSTOM, "custom.out"] + SMALL,
  # EAM
  [STD_EAM, "std.eam"],
  [STD_EAM, "std_dl.eam", "-e", "Tabulation:target=DL_POLY_EAM"],
  [STD_EAM, "std_excl.eam", "--exclude-species", "B"],
  [FS_EAM, "fs.eam"],
  [FS_EAM, "fs_incl.eam", "--include-species", "B"],
  [SPINEL, "spinel.eam", "-e", "Tabulation:nrho=20", "-a", "Tabulation:nr=20"],
  [CRG, "crg.eam", "-e", "Tabulation:nr=20", "Tabulation:nrho=20", "--include-species", "U", "O"],
  [CRG, "crg2.eam", "-e", "Tabulation:nr=20", "Tabulation:nrho=20", "--include-species", "O", "U"],
  # filters, add, remove
  [BASAK, "TABLE", "--include-species", "O"] + SMALL,
  [BASAK, "TABLE", "--exclude-species", "O"] + SMALL,
  [BASAK, "TABLE", "--include-species", "U", "O", "-e", "Tabulation:nr=24"],
  [BASAK, "TABLE", "-r", "Pair:O-U"] + SMALL,
  [BASAK, "TABLE", "-r", "Tabulation:nr", "-a", "Tabulation:dr=0.5"],
  [BASAK, "TABLE", "-a", "Pair:U-Xe=as.buck 10.0 0.3 1.0"] + SMALL,
  [BASAK, "TABLE", "-a", "Pair:O-O=as.buck 10.0 0.3 1.0"] + SMALL,
  [BASAK, "TABLE", "-e", "Pair:Xe-Xe=as.buck 10.0 0.3 1.0"] + SMALL,
  [BASAK, "TABLE", "-r", "Pair:Xe-Xe"] + SMALL,
  [BASAK, "TABLE", "-e", "Tabulation:nr=40", "-r", "Tabulation:nr"],
  # queries
  [BASAK, "--list-items"],
  [BASAK, "-l", "-e", "Tabulation:nr=99", "-a", "Pair:Xe-Xe=as.zero"],
  [BASAK, "--list-item-labels"],
  [CRG, "-l"],
  [CRG, "--list-item-labels", "--exclude-species", "Th"],
  [TABLE_FORM, "-l"],
  [TABLE_FORM, "--item-value", "Table-Form:tabulated:interpolation"],
  [BASAK, "--item-value", "Pair:O-O"],
  [BASAK, "--item-value", "Tabulation:cutoff", "-e", "Tabulation:cutoff=9.5"],
  [BASAK, "ignored.out", "--item-value", "Tabulation:target"],
  [FS_EAM, "--item-value", "EAM-Density:A->B"],
  # malformed input
  [BASAK, "--item-value", "Pair"],
  [BASAK, "--item-value", "Pair:Zz-Zz"],
  [BASAK, "--item-value", "Nope:O-O"],
  [BASAK, "TABLE", "-e", "Tabulation:nr"],
  [BASAK, "TABLE", "-e", "nr=10"],
  [BASAK, "TABLE", "-a", "Tabulation"],
  [BASAK, "TABLE", "-r", "Tabulation"],
  [BASAK, "TABLE", "-r", "Tabulation:nr=10"],
  [BASAK, "TABLE", "-e", "Tabulation:target=WRONG"],
  [BASAK, "TABLE", "-e", "Tabulation:nr=abc"],
  [BASAK],
  [BASAK, "--list-items", "--list-item-labels"],
  [BASAK, "TABLE", "--include-species", "O", "--exclude-species", "U"],
  [BASAK, "TABLE", "extra_positional"],
  [BASAK, "TABLE", "--no-such-option"],
  ["/nonexistent/dir/missing.aspot", "TABLE"],
  ["@BROKEN@", "TABLE"],
  ["@BROKEN2@", "TABLE"],
  ["@BROKEN@", "-l"],
  ["@EMPTY@", "TABLE"],
  ["@EMPTY@", "-l"],
  [],
  ["--help"],
  ["-h", BASAK],
]


def _prepare(workdir):
  with open(os.path.join(workdir, "broken.aspot"), "w") as f:
    f.write(BROKEN)
  with open(os.path.join(workdir, "broken2.aspot"), "w") as f:
    f.write(BROKEN2)
  with open(os.path.join(workdir, "empty.aspot"), "w") as f:
    pass


def _subst(argv, workdir):
  m = {"@BROKEN@": os.path.join(workdir, "broken.aspot"),
       "@BROKEN2@": os.path.join(workdir, "broken2.aspot"),
       "@EMPTY@": os.path.join(workdir, "empty.aspot")}
  return [m.get(a, a) for a in argv]


def _collect_files(workdir):
  out = []
  for name in sorted(os.listdir(workdir)):
    if name.endswith(".aspot"):
      continue
    with open(os.path.join(workdir, name), "rb") as f:
      out.append((name, hashlib.sha256(f.read()).hexdigest()))
  return out


def _normalise(text, workdir):
  return text.replace(workdir, "<TMP>").replace(WT, "<WT>")


def _reset_logging():
  root = logging.getLogger()
  for h in list(root.handlers):
    root.removeHandler(h)


def in_process(argv, prog, call):
  """call(potable_module, argv) is run with sys.argv patched; returns record"""
  workdir = tempfile.mkdtemp(prefix="twin_")
  oldcwd = os.getcwd()
  old_argv = sys.argv
  try:
    _prepare(workdir)
    os.chdir(workdir)
    argv = _subst(argv, workdir)
    import atsim.potentials.tools.potable as potable
    _reset_logging()
    out, err = io.StringIO(), io.StringIO()
    status = None
    with contextlib.redirect_stdout(out), contextlib.redirect_stderr(err):
      try:
        status = ("returned", repr(call(potable, prog, argv)))
      except SystemExit as e:
        status = ("SystemExit", repr(e.code))
      except BaseException as e:  # noqa
        status = ("raised", type(e).__name__, _normalise(str(e), workdir))
    _reset_logging()
    return (status, _normalise(out.getvalue(), workdir), _normalise(err.getvalue(), workdir), _collect_files(workdir))
  finally:
    sys.argv = old_argv
    os.chdir(oldcwd)
    shutil.rmtree(workdir, ignore_errors=True)


def call_main(potable, prog, argv):
  sys.argv = [prog] + list(argv)
  return potable.main()


PARSE_CASES = [
  [BASAK, "OUT"],
  [BASAK],
  [BASAK, "OUT", "--override-item", "Tabulation:target=GULP"],
  [BASAK, "OUT", "--override-item", "Tabulation:target=GULP", "--override-item", "Tabulation:cutoff=20"],
  [BASAK, "OUT", "--override-item", "Tabulation:target=GULP", "Tabulation:cutoff=20"],
  [BASAK, "OUT", "-e", "a:b=c", "-a", "d:e=f", "g:h=i", "-r", "j:k", "-r"],
  [BASAK, "OUT", "--add-item"],
  [BASAK, "--include-species"],
  [BASAK, "--include-species", "U", "O", "Th"],
  [BASAK, "OUT", "--exclude-species", "Th"],
  [BASAK, "-l"],
  [BASAK, "--list-item-labels"],
  [BASAK, "--item-value", "Pair:O-O"],
  [BASAK, "--item-value"],
  [BASAK, "--item-value", "a", "b", "c"],
  [BASAK, "-l", "--item-value", "Pair:O-O"],
  [BASAK, "--include-species", "O", "--exclude-species", "U"],
  [BASAK, "--list", "OUT"],
  [BASAK, "--list-item", "OUT"],
  [BASAK, "-x"],
  ["/nonexistent/missing.aspot"],
  [],
  ["-h"],
]

# names bound in the potable package namespace before the split
POTABLE_NAMES = ['ConfigParser', 'ConfigParserOverrideTuple', 'ConfigurationException', 'FilteredConfigParser',
  '_actions', '_create_override_tuple', '_do_tabulation', '_make_config_parser', '_parse_command_line',
  '_query_actions', '_setup_logging', 'argparse', 'collections', 'itertools', 'logging', 'main', 'sys']


def call_parse(potable, prog, argv):
  sys.argv = [prog, "--this-is-ignored-when-cli_args-given"]
  p, args = potable._parse_command_line(list(argv))
  d = dict(vars(args))
  cf = d.pop("config_file")
  try:
    first = cf.readline()
  finally:
    cf.close()
  return (type(p).__name__, p.prog, p.description, p.format_usage(), p.format_help(),
          sorted(d.items()), type(cf).__name__, cf.name, cf.mode, first)


def call_parse_default(potable, prog, argv):
  # cli_args omitted: falls back on sys.argv[1:]
  sys.argv = [prog] + list(argv)
  p, args = potable._parse_command_line()
  d = dict(vars(args))
  d.pop("config_file").close()
  return sorted(d.items())


def public_names():
  import inspect
  import atsim.potentials.config as config
  import atsim.potentials.tools.potable as potable
  out = []
  ns = {}
  exec("from atsim.potentials.config import *", ns)
  ns.pop("__builtins__", None)
  out.append(("star", sorted(ns)))
  out.append(("dir", sorted(n for n in dir(config) if not n.startswith("_"))))
  for n in sorted(ns):
    obj = ns[n]
    defining = importlib.import_module(obj.__module__)
    out.append((n, type(obj).__name__, obj.__module__, getattr(defining, n) is obj, getattr(config, n) is obj))
  ns = {}
  exec("from atsim.potentials.tools.potable import *", ns)
  ns.pop("__builtins__", None)
  out.append(("potable star", sorted(ns)))
  for n in POTABLE_NAMES:
    obj = getattr(potable, n, None)
    sig = str(inspect.signature(obj)) if inspect.isfunction(obj) else None
    out.append((n, hasattr(potable, n), type(obj).__name__, sig))
  out.append(("argparse is argparse", potable.argparse is __import__("argparse")))
  return out


def main():
  verbose = "-v" in sys.argv[1:]
  h = hashlib.sha256()
  records = []
  for argv in CASES:
    rec = in_process(argv, "potable", call_main)
    records.append(rec)
    h.update(repr((argv, rec)).replace(WT, "<WT>").encode("utf-8"))
    if verbose:
      print(argv, rec[0], len(rec[1]), len(rec[2]), rec[3])
  n_ok = sum(1 for r in records if r[0] == ("SystemExit", "0"))
  print("cases: %d  (exit 0: %d, other: %d)" % (len(records), n_ok, len(records) - n_ok))
  print("DIGEST main() in-process:", h.hexdigest())

  h = hashlib.sha256()
  n = 0
  for prog in ("potable", "some/dir/other_prog.py"):
    for argv in PARSE_CASES:
      for call in (call_parse, call_parse_default):
        rec = in_process(argv, prog, call)
        n += 1
        h.update(repr((prog, argv, call.__name__, rec)).replace(WT, "<WT>").encode("utf-8"))
        if verbose:
          print(prog, argv, call.__name__, rec[0][:2], len(rec[1]), len(rec[2]))
  print("DIGEST _parse_command_line (%d calls):" % n, h.hexdigest())

  names = public_names()
  if verbose:
    for item in names:
      print(item)
  print("DIGEST public names:", hashlib.sha256(repr(names).encode("utf-8")).hexdigest())


if __name__ == "__main__":
  main()

"""Differential script for twin C (deriv/deriv2 forwarding helpers of _Python_Potential_Function and
potentialforms._FunctionFactory, _Check_Call classmethod constructors / early return).

Prints a sha256 digest of everything observed; run on clean and refactored trees."""
import hashlib
import inspect
import io
import sys

from atsim.potentials import potentialforms, potentialfunctions
from atsim.potentials.config import Configuration, ConfigParser
from atsim.potentials.config._common import PotentialFormSignatureTuple, PotentialFormTuple
from atsim.potentials.config._common import make_potential_form_tuple_from_function
from atsim.potentials.config._potential_form import _Check_Call, Potential_Form, Existing_Potential_Form
from atsim.potentials.config._python_potential_function import _Python_Potential_Function
from atsim.potentials.config._cexprtk_potential_function import _Cexptrk_Potential_Function
from atsim.potentials.config._potential_form_registry import Potential_Form_Registry

out = []

def rec(*items):
  out.append(" | ".join(str(i) for i in items))

def attempt(label, f):
  try:
    v = f()
    rec(label, "OK", repr(v), type(v).__name__)
  except Exception as e:
    rec(label, "EXC", type(e).__name__, str(e))

class Noisy(object):
  """argument whose str() is recorded, to observe the order of conversions"""
  log = []
  def __init__(self, v):
    self.v = v
  def __str__(self):
    Noisy.log.append(self.v)
    return "<{}>".format(self.v)

# 1. _Check_Call --------------------------------------------------------------------------------
sigs = [
  PotentialFormSignatureTuple("buck", ["r", "A", "rho", "C"], False),
  PotentialFormSignatureTuple("as.polynomial", [], True),
  PotentialFormSignatureTuple("one", ["r"], False),
  PotentialFormSignatureTuple("none", [], False),
  PotentialFormSignatureTuple("tup", ("r_ij", "x"), False),
]
argsets = [(), (1,), (1.0, 2.0), (1.0, "b", None), (1, 2, 3, 4), (1, 2, 3, 4, 5)]
for sig in sigs:
  for is_func in (False, True, 0, 1, None, "yes"):
    cc = _Check_Call(sig, is_func)
    rec("cc", sig, repr(is_func), cc.required_arg_len(), cc.recommended_usage(), repr(cc.is_func_call), cc.signature is sig)
    for args in argsets:
      attempt("cc call {} {!r} {}".format(sig.label, is_func, args), lambda: cc(*args))
      rec("cc valid/how", cc.args_valid(*args), repr(cc.how_used(*args)))
  cc = _Check_Call(sig)
  rec("cc default", repr(cc.is_func_call), cc.required_arg_len())
  Noisy.log = []
  attempt("cc noisy", lambda: _Check_Call(sig, True)(Noisy(1), Noisy(2), Noisy(3), Noisy(4), Noisy(5), Noisy(6)))
  attempt("cc noisy form", lambda: _Check_Call(sig)(Noisy(1), Noisy(2), Noisy(3), Noisy(4), Noisy(5), Noisy(6)))
  rec("noisy log", Noisy.log)

# 2. _Python_Potential_Function ---------------------------------------------------------------
def plain(r, a):
  return r*a

def with_deriv(r, a):
  return r*r*a
with_deriv.deriv = lambda r, a: 2*r*a

def with_both(r, a, b):
  return r*r*a + b
with_both.deriv = lambda r, a, b: 2*r*a
with_both.deriv2 = lambda r, a, b: 2*a

def only_deriv2(r):
  return r**3
only_deriv2.deriv2 = lambda r: 6*r

def varargs(*args):
  return sum(args)
varargs.deriv = lambda *args: len(args)

class Late(object):
  """deriv is replaced after wrapping: forwarding must look the attribute up at call time"""
  def __call__(self, r):
    return r
  def deriv(self, r):
    return 1.0

funcs = [("plain", plain), ("with_deriv", with_deriv), ("with_both", with_both), ("only_deriv2", only_deriv2), ("varargs", varargs),
         ("pf.buck", potentialfunctions.buck), ("pf.polynomial", potentialfunctions.polynomial), ("pf.zbl", potentialfunctions.zbl),
         ("pf.exp_spline", potentialfunctions.exp_spline), ("pf.constant", potentialfunctions.constant)]
for label, f in funcs:
  d = make_potential_form_tuple_from_function("ns." + label, f)
  ppf = _Python_Potential_Function(d, f)
  rec("ppf", label, d, sorted(k for k in vars(ppf)), hasattr(ppf, "deriv"), hasattr(ppf, "deriv2"), ppf.register_function(ppf))
  for m in ("deriv", "deriv2"):
    if hasattr(ppf, m):
      meth = getattr(ppf, m)
      rec("ppf method", label, m, meth.__name__, meth.__self__ is ppf, inspect.ismethod(meth), str(inspect.signature(meth)))
  for args in [(), (1.5,), (1.5, 2.0), (1.5, 2.0, 3.0), (1.5, 1000.0, 0.3, 32.0), (1.2, 1.0, 2.0, 3.0, 4.0, 5.0, 6.0, 7.0)]:
    attempt("ppf call {} {}".format(label, args), lambda: ppf(*args))
    attempt("ppf deriv {} {}".format(label, args), lambda: ppf.deriv(*args))
    attempt("ppf deriv2 {} {}".format(label, args), lambda: ppf.deriv2(*args))

late = Late()
ppf = _Python_Potential_Function(make_potential_form_tuple_from_function("late", late), late)
rec("late before", ppf.deriv(2.0), hasattr(ppf, "deriv2"))
late.deriv = lambda r: 42.0
late.deriv2 = lambda r: 43.0
rec("late after", ppf.deriv(2.0), hasattr(ppf, "deriv2"))
attempt("late arity", lambda: ppf.deriv(1.0, 2.0))

# 3. potentialforms._FunctionFactory ----------------------------------------------------------
rec("potentialforms potentials", [n for n, o in inspect.getmembers(potentialforms, potentialforms._iscallable)])
form_args = {
  "buck" : (1000.0, 0.3, 32.0), "bornmayer" : (1000.0, 0.3), "coul" : (1.0, -2.0), "constant" : (2.5,),
  "exponential" : (2.0, 0.5), "hbnd" : (10.0, 5.0), "lj" : (0.1, 2.0), "morse" : (1.2, 1.5, 0.8),
  "polynomial" : (1.0, 2.0, 3.0, 4.0), "sqrt" : (2.0,), "tang_toennies" : (1.0, 0.5, 2.0, 3.0, 4.0),
  "zbl" : (8, 14), "zero" : (), "exp_spline" : (1.0, 0.5, 0.25, 0.125, 0.01, 0.001, 3.0),
  "buck4" : (11272.6, 0.1363, 134.0, 1.2, 2.1, 2.6)}
for name in sorted(form_args):
  factory = getattr(potentialforms, name)
  for args in (form_args[name], form_args[name][:-1], form_args[name] + (1.0,)):
    def run():
      f = factory(*args)
      res = [type(f).__name__, hasattr(f, "deriv"), hasattr(f, "deriv2"), sorted(vars(f)) if hasattr(f, "__dict__") else None]
      res.append([f(r) for r in (0.6, 1.1, 1.9, 2.3, 3.7)])
      if hasattr(f, "deriv"):
        res.append([f.deriv(r) for r in (0.6, 1.1, 1.9, 2.3, 3.7)])
        res.append((type(f.deriv).__name__, getattr(f.deriv, "args", None)))
      if hasattr(f, "deriv2"):
        res.append([f.deriv2(r) for r in (0.6, 1.1, 1.9, 2.3, 3.7)])
        res.append((type(f.deriv2).__name__, getattr(f.deriv2, "args", None)))
      return res
    attempt("ff {} {}".format(name, args), run)

ff = potentialforms._FunctionFactory(with_deriv)
w = ff(3.0)
rec("ff custom", w(2.0), w.deriv(2.0), hasattr(w, "deriv2"), potentialforms._FunctionFactory.is_potential)
ff = potentialforms._FunctionFactory(only_deriv2)
w = ff()
rec("ff custom2", w(2.0), hasattr(w, "deriv"), w.deriv2(2.0))
ff = potentialforms._FunctionFactory(late)
w = ff()
rec("ff late", w(2.0), w.deriv(2.0), w.deriv2(2.0))

# 4. Potential_Form / Existing_Potential_Form ----------------------------------------------------
sig = PotentialFormSignatureTuple('buck', ["r", "A", "rho", "C"], False)
pf = Potential_Form(_Cexptrk_Potential_Function(PotentialFormTuple(sig, "A*exp(-r/rho) - C/r^6")))
for args in [(1000.0, 0.1, 2.0), (1000.0, 0.1, 2.0, 10.0), (2.0, 10.0), ()]:
  attempt("Potential_Form {}".format(args), lambda: [pf(*args)(r) for r in (1.0, 2.0)])
for name, args in [("buck4", form_args["buck4"]), ("buck4", (1.0,)), ("buck", form_args["buck"]), ("buck", ()), ("zero", ()), ("zero", (1,))]:
  epf = Existing_Potential_Form("as." + name, getattr(potentialforms, name))
  rec("epf", name, epf.signature, epf.potential_definition)
  attempt("Existing_Potential_Form {} {}".format(name, args), lambda: [epf(*args)(r) for r in (1.0, 2.0, 2.4)])

# 5. through configuration files ----------------------------------------------------------------
template = u"""
[Tabulation]
target : {target}
cutoff : {cutoff}
nr : {nr}

[Pair]
{pairs}

[Potential-Form]
good(r, A) : as.buck(r, A, 0.3, 0.0) + tabulated(r) + pymath.floor(r)
bad_std(r, A) : as.buck(r, A, 0.3)
bad_std2(r, A) : as.zero(r, A)
bad_tab(r, A) : tabulated(r, A)
bad_pymath(r, A) : pymath.pow(r)
bad_nested(r, A) : good(r, A, 1.0)
grad(r, A) : A * as.morse.deriv(r, 1.2, 1.5, 0.8)

[Table-Form:tabulated]
interpolation: cubic_spline
x : 0.0 1.0 2.0 3.0 12.0
y : 0.0 2.0 3.0 4.0 0.0
"""
pairsets = [
  "O-O : as.buck 1000.0 0.3 32.0\nMg-O : good 100.0",
  "Mg-O : good 100.0\nO-O : as.buck4 11272.6 0.1363 134.0 1.2 2.1 2.6\nAl-O : tabulated",
  "B-A : sum(as.morse 1.2 1.5 0.8, as.constant 1.0, good 3.0)\nA-A : product(as.lj 0.1 2.0, as.exponential 2.0 0.5)",
  "A-B : spline(as.zbl 8 8 >=1.0 exp_spline >1.5 as.buck 1000.0 0.3 32.0)\nB-B : pow(as.bornmayer 100.0 0.3, as.constant 2.0)",
  "A-B : as.polynomial 1.0 2.0 3.0\nC-C : as.hbnd 10.0 5.0\nD-D : as.coul 1.0 -2.0\nE-E: as.sqrt 2.0\nF-F : as.zbl 92 8",
  "A-B : as.buck 1.0", "A-B : as.buck 1.0 2.0 3.0 4.0", "A-B : as.buck4 1.0", "A-B : good", "A-B : good 1.0 2.0", "A-B : tabulated 1.0",
  "A-B : bad_std 1.0", "A-B : bad_std2 1.0", "A-B : bad_tab 1.0", "A-B : bad_pymath 1.0", "A-B : bad_nested 1.0", "A-B : grad 1.0",
  "A-B : sum(as.buck 1.0, as.zero)", "A-B : as.zero 1.0", "A-B : as.polynomial",
]
for target, cutoff, nr in [("LAMMPS", 6.0, 40), ("DL_POLY", 4.5, 32), ("GULP", 8.0, 21)]:
  for pairs in pairsets:
    def run():
      cfgobj = Configuration()
      tabulation = cfgobj.read(io.StringIO(template.format(target = target, cutoff = cutoff, nr = nr, pairs = pairs)))
      sio = io.StringIO()
      tabulation.write(sio)
      return hashlib.sha256(sio.getvalue().encode("utf-8")).hexdigest(), len(sio.getvalue())
    attempt("table {} {} {} {!r}".format(target, cutoff, nr, pairs), run)

eam_cfg = u"""
[Tabulation]
target : setfl
nr : 30
nrho : 30
cutoff : 5.0
cutoff_rho : 20.0

[EAM-Embed]
Al : as.polynomial 0.0 -1.5 0.01
Cu : product(as.sqrt -1.0, as.constant 1.1)

[EAM-Density]
Al : as.exponential 2.0 -0.5
Cu : dens 1.5 0.8

[Pair]
Al-Al : as.morse 1.2 2.5 0.3
Al-Cu : as.buck 1000.0 0.3 10.0
Cu-Cu : as.lj 0.1 2.2

[Potential-Form]
dens(r, a, b) : a * exp(-b*r) + pymath.fabs(as.zero(r))
"""
def run_eam():
  cfgobj = Configuration()
  tabulation = cfgobj.read(io.StringIO(eam_cfg))
  sio = io.StringIO()
  tabulation.write(sio)
  return hashlib.sha256(sio.getvalue().encode("utf-8")).hexdigest(), len(sio.getvalue())
attempt("eam", run_eam)

blob = "\n".join(out)
if "-v" in sys.argv:
  print(blob)
print("records:", len(out))
print("sha256:", hashlib.sha256(blob.encode("utf-8")).hexdigest())

"""Differential script for twin A (atsim/potentials/eam_tabulation.py).

Exercises every EAM tabulation class through the public API (direct
construction and atsim.potentials.config.Configuration) and prints a sha256
digest over everything observed: written text, spreadsheet cell contents,
property values, exception type names, state of the output file object after
a failed write.

Run:  /venv/bin/python -W ignore /tmp/wtpy.py /tmp/wt_r4_5 _twins/diffA.py
"""
import hashlib
import io
import os
import sys
import tempfile

from atsim.potentials import EAMPotential, Potential
from atsim.potentials import eam_tabulation as et
from atsim.potentials.config import Configuration

VERBOSE = "-v" in sys.argv
TOTAL = hashlib.sha256()


def rec(label, value):
  if isinstance(value, bytes):
    value = value.decode("latin-1")
  s = "{}={!r}\n".format(label, value)
  TOTAL.update(s.encode("utf-8"))
  if VERBOSE:
    print("{} :: {} :: {}".format(label, hashlib.sha256(s.encode("utf-8")).hexdigest()[:16], repr(value)[:70]))


TMPROOT = tempfile.gettempdir()

def clean(msg):
  import re
  return re.sub(re.escape(TMPROOT) + r"/[A-Za-z0-9_]+", "<TMP>", msg)


def attempt(label, func):
  try:
    v = func()
  except BaseException as e:  # noqa
    rec(label, "EXC:" + type(e).__name__ + ":" + clean(str(e)))
    return None
  if isinstance(v, (str, bytes, int, float, bool, type(None), list, tuple, dict)):
    rec(label, v)
  else:
    rec(label, "OBJ:" + type(v).__name__)
  return v


def dump_workbook(wb):
  out = []
  for ws in wb.worksheets:
    out.append(("SHEET", ws.title, ws.dimensions, ws.max_row, ws.max_column))
    for row in ws.iter_rows():
      for c in row:
        out.append((c.coordinate, c.data_type, repr(c.value)))
  return out


def dump_xlsx_bytes(b):
  from openpyxl import load_workbook
  wb = load_workbook(io.BytesIO(b))
  return dump_workbook(wb)


# ---------------------------------------------------------------------------
# Model functions

def pair_AA(r):
  return 1.5 * r * r - 0.25 * r + 0.125

def pair_AB(r):
  return 2.0 / (r + 1.0)

def pair_BB(r):
  return 0.75 * r

def dens_A(r):
  return 3.0 * r + 0.5

def dens_B(r):
  return 0.1 * r * r

def dens_AB(r):
  return r / 7.0

def dens_BA(r):
  return r / 3.0 + 2.0

def embed_A(rho):
  return -(rho ** 0.5)

def embed_B(rho):
  return -0.3 * rho

def dip(r):
  return 0.01 * r - 0.2

def quad(r):
  return 0.002 * r * r


class Boom(Exception):
  pass

def exploding(r):
  if r > 1.0:
    raise Boom("bang at %r" % r)
  return r


def std_pairs(order):
  pots = {
    "AA": Potential("A", "A", pair_AA),
    "AB": Potential("A", "B", pair_AB),
    "BA": Potential("B", "A", pair_AB),
    "BB": Potential("B", "B", pair_BB)}
  return [pots[k] for k in order]


def std_eam(order):
  pots = {
    "A": EAMPotential("A", 13, 26.98, embed_A, dens_A, latticeConstant=4.05, latticeType="fcc"),
    "B": EAMPotential("B", 29, 63.55, embed_B, dens_B, latticeConstant=3.61, latticeType="bcc")}
  return [pots[k] for k in order]


def fs_eam(order):
  pots = {
    "A": EAMPotential("A", 13, 26.98, embed_A, {"A": dens_A, "B": dens_AB}, latticeConstant=4.05, latticeType="fcc"),
    "B": EAMPotential("B", 29, 63.55, embed_B, {"B": dens_B, "A": dens_BA}, latticeConstant=3.61, latticeType="bcc")}
  return [pots[k] for k in order]


def props(label, tab):
  for name in ["type", "target", "nr", "cutoff", "dr", "nrho", "cutoff_rho", "drho"]:
    attempt(label + ".prop." + name, lambda: getattr(tab, name))
  attempt(label + ".prop.potentials", lambda: [(p.speciesA, p.speciesB) for p in tab.potentials])
  attempt(label + ".prop.eam_potentials", lambda: [p.species for p in tab.eam_potentials])
  for name in ["nr", "cutoff", "dr", "nrho", "cutoff_rho", "drho", "type", "target", "potentials", "eam_potentials", "workbook"]:
    def setter(name=name):
      setattr(tab, name, 3)
      return "set-ok"
    if name == "workbook" and not hasattr(type(tab), "workbook"):
      continue
    attempt(label + ".setprop." + name, setter)
  rec(label + ".mro", [c.__name__ for c in type(tab).__mro__ if not c.__name__.startswith("_")])
  rec(label + ".isinstance", [isinstance(tab, c) for c in (
    et.SetFL_EAMTabulation, et.SetFL_FS_EAMTabulation, et.TABEAM_EAMTabulation,
    et.TABEAM_FinnisSinclair_EAMTabulation, et.Excel_EAMTabulation,
    et.Excel_FinnisSinclair_EAMTabulation, et.ADP_EAMTabulation)])


def text_write(label, tab):
  fp = io.StringIO()
  attempt(label + ".write.ret", lambda: tab.write(fp))
  rec(label + ".write.out", fp.getvalue())
  # second write into the same object appends the same thing again
  attempt(label + ".write2.ret", lambda: tab.write(fp))
  rec(label + ".write2.len", len(fp.getvalue()))


def excel_write(label, tab):
  fp = io.BytesIO()
  attempt(label + ".write.ret", lambda: tab.write(fp))
  b = fp.getvalue()
  if b:
    attempt(label + ".write.cells", lambda: dump_xlsx_bytes(b))
  else:
    rec(label + ".write.cells", "EMPTY")
  attempt(label + ".workbook.cells", lambda: dump_workbook(tab.workbook))
  attempt(label + ".workbook.same", lambda: tab.workbook is tab.workbook)


def open_fp_check(label, cls_or_obj):
  d = tempfile.mkdtemp()
  path = os.path.join(d, "out.dat")
  def doit():
    with cls_or_obj.open_fp(path) as f:
      return (type(f).__name__, f.mode)
  attempt(label + ".open_fp", doit)
  attempt(label + ".open_fp.baddir", lambda: cls_or_obj.open_fp(os.path.join(d, "nodir", "x")))
  try:
    os.remove(path)
    os.rmdir(d)
  except OSError:
    pass


TEXT_CLASSES = [
  ("setfl", et.SetFL_EAMTabulation, std_eam),
  ("setfl_fs", et.SetFL_FS_EAMTabulation, fs_eam),
  ("tabeam", et.TABEAM_EAMTabulation, std_eam),
  ("tabeam_fs", et.TABEAM_FinnisSinclair_EAMTabulation, fs_eam),
]

GRIDS = [
  (6.0, 7, 20.0, 5),
  (2.5, 2, 1.0, 2),
  (10.0, 12, 100.0, 11),
  (3, 4, 7, 3),           # integer cutoffs
]

ORDERS = [
  (["AA", "AB", "BB"], ["A", "B"]),
  (["BB", "BA", "AA"], ["B", "A"]),
  (["AB"], ["A"]),
  ([], ["B", "A"]),
]


def direct_cases():
  for cname, cls, eamf in TEXT_CLASSES:
    open_fp_check("direct." + cname, cls)
    for gi, (cutoff, nr, cutoff_rho, nrho) in enumerate(GRIDS):
      for oi, (porder, eorder) in enumerate(ORDERS):
        label = "direct.{}.g{}.o{}".format(cname, gi, oi)
        tab = attempt(label + ".ctor", lambda: cls(std_pairs(porder), eamf(eorder), cutoff, nr, cutoff_rho, nrho))
        if tab is None:
          continue
        if oi == 0:
          props(label, tab)
        text_write(label, tab)

    # degenerate grids
    for gi, (cutoff, nr, cutoff_rho, nrho) in enumerate([(5.0, 1, 5.0, 4), (5.0, 4, 5.0, 1), (5.0, 0, 5.0, 0), (5.0, "x", 5.0, 3), (None, 3, 5.0, 3)]):
      label = "direct.{}.bad{}".format(cname, gi)
      tab = attempt(label + ".ctor", lambda: cls(std_pairs(["AA"]), eamf(["A"]), cutoff, nr, cutoff_rho, nrho))
      if tab is None:
        continue
      props(label, tab)
      text_write(label, tab)

    # function that raises part way through
    label = "direct.{}.boom".format(cname)
    tab = cls([Potential("A", "A", exploding)], eamf(["A"]), 6.0, 7, 20.0, 5)
    text_write(label, tab)

    # wrong kind of density for the class
    label = "direct.{}.wrongdens".format(cname)
    other = std_eam if eamf is fs_eam else fs_eam
    tab = cls(std_pairs(["AA", "AB", "BB"]), other(["A", "B"]), 6.0, 7, 20.0, 5)
    text_write(label, tab)

    # keyword construction and wrong arity
    label = "direct.{}.kw".format(cname)
    tab = attempt(label + ".ctor", lambda: cls(potentials=std_pairs(["AA"]), eam_potentials=eamf(["A"]), cutoff=4.0, nr=5, cutoff_rho=9.0, nrho=4))
    if tab is not None:
      text_write(label, tab)
    attempt(label + ".arity", lambda: cls(std_pairs(["AA"]), eamf(["A"]), 4.0, 5, 9.0))
    attempt(label + ".arity2", lambda: cls(std_pairs(["AA"]), eamf(["A"]), 4.0, 5, 9.0, 4, "extra"))


def adp_cases():
  cls = et.ADP_EAMTabulation
  open_fp_check("direct.adp", cls)
  for gi, (cutoff, nr, cutoff_rho, nrho) in enumerate(GRIDS):
    for oi, (porder, eorder) in enumerate(ORDERS):
      label = "direct.adp.g{}.o{}".format(gi, oi)
      dips = [Potential(p.speciesA, p.speciesB, dip) for p in std_pairs(porder)]
      quads = [Potential(p.speciesA, p.speciesB, quad) for p in reversed(std_pairs(porder))]
      tab = attempt(label + ".ctor", lambda: cls(std_pairs(porder), std_eam(eorder), dips, quads, cutoff, nr, cutoff_rho, nrho))
      if tab is None:
        continue
      if oi == 0:
        props(label, tab)
        rec(label + ".dipole_potentials", tab.dipole_potentials is dips)
        rec(label + ".quadrupole_potentials", tab.quadrupole_potentials is quads)
      text_write(label, tab)
      part = io.StringIO()
      attempt(label + "._write_dipole", lambda: tab._write_dipole(part))
      attempt(label + "._write_quadrupole", lambda: tab._write_quadrupole(part))
      rec(label + ".parts", part.getvalue())

  # failures in each of the three blocks must leave fp untouched
  for which in range(3):
    label = "direct.adp.boom{}".format(which)
    pairs = [Potential("A", "A", exploding if which == 0 else pair_AA)]
    dips = [Potential("A", "A", exploding if which == 1 else dip)]
    quads = [Potential("A", "A", exploding if which == 2 else quad)]
    tab = cls(pairs, std_eam(["A"]), dips, quads, 6.0, 7, 20.0, 5)
    text_write(label, tab)

  # attributes are plain and may be replaced
  label = "direct.adp.replace"
  tab = cls(std_pairs(["AA"]), std_eam(["A"]), [], [], 6.0, 7, 20.0, 5)
  tab.dipole_potentials = [Potential("A", "A", dip)]
  tab.quadrupole_potentials = [Potential("A", "A", quad)]
  text_write(label, tab)
  for gi, (cutoff, nr, cutoff_rho, nrho) in enumerate([(5.0, 1, 5.0, 4), (5.0, 4, 5.0, 1)]):
    label = "direct.adp.bad{}".format(gi)
    tab = cls(std_pairs(["AA"]), std_eam(["A"]), [Potential("A", "A", dip)], [Potential("A", "A", quad)], cutoff, nr, cutoff_rho, nrho)
    props(label, tab)
    text_write(label, tab)
  attempt("direct.adp.arity", lambda: cls(std_pairs(["AA"]), std_eam(["A"]), 6.0, 7, 20.0, 5))


def excel_cases():
  for cname, cls, eamf in [("excel_eam", et.Excel_EAMTabulation, std_eam), ("excel_eam_fs", et.Excel_FinnisSinclair_EAMTabulation, fs_eam)]:
    open_fp_check("direct." + cname, cls)
    for gi, (cutoff, nr, cutoff_rho, nrho) in enumerate(GRIDS):
      for oi, (porder, eorder) in enumerate(ORDERS):
        label = "direct.{}.g{}.o{}".format(cname, gi, oi)
        tab = attempt(label + ".ctor", lambda: cls(std_pairs(porder), eamf(eorder), cutoff, nr, cutoff_rho, nrho))
        if tab is None:
          continue
        if oi == 0:
          props(label, tab)
          tab = cls(std_pairs(porder), eamf(eorder), cutoff, nr, cutoff_rho, nrho)
        excel_write(label, tab)
        # fresh object: workbook first then write
        tab = cls(std_pairs(porder), eamf(eorder), cutoff, nr, cutoff_rho, nrho)
        attempt(label + ".wbfirst.cells", lambda: dump_workbook(tab.workbook))
        excel_write(label + ".wbfirst", tab)

    for gi, (cutoff, nr, cutoff_rho, nrho) in enumerate([(5.0, 1, 5.0, 4), (5.0, 4, 5.0, 1), (5.0, 0, 5.0, 0)]):
      label = "direct.{}.bad{}".format(cname, gi)
      tab = cls(std_pairs(["AA"]), eamf(["A"]), cutoff, nr, cutoff_rho, nrho)
      excel_write(label, tab)
      excel_write(label + ".again", tab)

    # exploding function: state after failure is observable through .workbook
    for which in range(3):
      label = "direct.{}.boom{}".format(cname, which)
      pairs = [Potential("A", "A", exploding if which == 0 else pair_AA)]
      if eamf is std_eam:
        dens = exploding if which == 1 else dens_A
      else:
        dens = {"A": exploding if which == 1 else dens_A}
      eam = [EAMPotential("A", 13, 26.98, exploding if which == 2 else embed_A, dens)]
      tab = cls(pairs, eam, 6.0, 7, 20.0, 5)
      excel_write(label, tab)
      excel_write(label + ".again", tab)

    # wrong kind of density
    label = "direct.{}.wrongdens".format(cname)
    other = std_eam if eamf is fs_eam else fs_eam
    tab = cls(std_pairs(["AA", "AB", "BB"]), other(["A", "B"]), 6.0, 7, 20.0, 5)
    excel_write(label, tab)
    excel_write(label + ".again", tab)

    # duplicate species (later entry wins) and non-string species labels
    label = "direct.{}.dups".format(cname)
    eam = eamf(["A", "B"]) + [EAMPotential("A", 1, 1.0, embed_B, dens_B if eamf is std_eam else {"A": dens_B, "C": dens_A})]
    tab = cls(std_pairs(["AB", "BA"]), eam, 6.0, 7, 20.0, 5)
    excel_write(label, tab)
    label = "direct.{}.mixedkeys".format(cname)
    eam = eamf(["A"]) + [EAMPotential(5, 1, 1.0, embed_B, dens_B if eamf is std_eam else {"A": dens_B})]
    tab = cls(std_pairs(["AA"]), eam, 6.0, 7, 20.0, 5)
    excel_write(label, tab)
    excel_write(label + ".again", tab)

  # sub-class hooks still honoured
  class MyExcel(et.Excel_EAMTabulation):
    _excel_tab_name = "my_excel"
    def _add_sheets(self, wb):
      self._add_eam_embed(wb)
      self._add_eam_density(wb)
  tab = MyExcel(std_pairs(["AA"]), std_eam(["A", "B"]), 6.0, 4, 20.0, 3)
  props("direct.subclass", tab)
  tab = MyExcel(std_pairs(["AA"]), std_eam(["A", "B"]), 6.0, 4, 20.0, 3)
  excel_write("direct.subclass", tab)


CFG_TEMPLATE = u"""[Tabulation]
target : {target}
{grid}

[Species]
{species}

[Pair]
{pair}

[EAM-Density]
{density}

[EAM-Embed]
{embed}
{extra}
"""

CFG_GRIDS = [
  "dr : 0.5\ncutoff : 5\ndrho : 0.25\ncutoff_rho : 2",
  "nr : 8\ncutoff : 3.5\nnrho : 4\ncutoff_rho : 30.0",
  "nr : 12\ndr : 0.1\nnrho : 6\ndrho : 2.0",
]

CFG_MODELS = [
  dict(species="Al.atomic_number = 13\nO.atomic_mass = 16.5",
       pair="O-O : as.buck 1000.0 0.3 10.0\nAl-O : as.polynomial 0 2\nAl-Al : as.zero",
       density="O : as.polynomial 0 3\nAl : as.exponential 2.0 1.5",
       density_fs="Al->O : as.polynomial 0 3\nAl->Al : as.polynomial 0 4\nO->O : as.exponential 0.5 2\nO->Al : as.zero",
       embed="O : as.polynomial 0 5\nAl : as.sqrt -1.5"),
  dict(species="Cu.lattice_type = bcc",
       pair="Cu-Cu : as.morse 1.2 2.5 0.4\nCu-Ag : as.lj 0.01 2.3\nAg-Ag : as.polynomial 1 0.5 0.25",
       density="Cu : as.exponential 2.0 1.5\nAg : as.polynomial 0 0 1",
       density_fs="Cu->Cu : as.exponential 2.0 1.5\nAg->Cu : as.polynomial 0 0 1\nCu->Ag : as.polynomial 1 1\nAg->Ag : as.constant 2.0",
       embed="Ag : as.sqrt -2.0\nCu : as.polynomial 0 -1 0.01"),
]

ADP_EXTRA = u"""
[EAM-ADP-Dipole]
{dipole}

[EAM-ADP-Quadrupole]
{quadrupole}
"""


def config_cases():
  targets = ["setfl", "setfl_fs", "DL_POLY_EAM", "DL_POLY_EAM_fs", "eam_adp", "excel_eam", "excel_eam_fs", "lammps_eam_alloy"]
  for target in targets:
    for gi, grid in enumerate(CFG_GRIDS):
      for mi, model in enumerate(CFG_MODELS):
        label = "cfg.{}.g{}.m{}".format(target, gi, mi)
        extra = ""
        if target == "eam_adp":
          first = model["pair"].split("\n")[0].split(":")[0].strip()
          last = model["pair"].split("\n")[-1].split(":")[0].strip()
          extra = ADP_EXTRA.format(dipole="{} : as.polynomial 0 0.1".format(first), quadrupole="{} : as.polynomial 0 0 0.2\n{} : as.zero".format(last, first))
        density = model["density_fs"] if target.endswith("_fs") else model["density"]
        cfg = CFG_TEMPLATE.format(target=target, grid=grid, species=model["species"], pair=model["pair"], density=density, embed=model["embed"], extra=extra)
        tab = attempt(label + ".read", lambda: type(Configuration().read(io.StringIO(cfg))).__name__)
        if tab is None:
          continue
        tab = Configuration().read(io.StringIO(cfg))
        for name in ["type", "target", "nr", "cutoff", "dr", "nrho", "cutoff_rho", "drho"]:
          attempt(label + ".prop." + name, lambda: getattr(tab, name))
        if target.startswith("excel"):
          excel_write(label, tab)
        else:
          text_write(label, tab)
          # through open_fp
          d = tempfile.mkdtemp()
          path = os.path.join(d, "table")
          with tab.open_fp(path) as f:
            tab.write(f)
          with open(path, "rb") as f:
            rec(label + ".file", f.read())
          os.remove(path)
          os.rmdir(d)

  # repository example files
  for path in ["tests/config/config_resources/setfl.aspot",
               "tests/lammps_resources/AlFe_setfl_fs.aspot",
               "docs/user_guide/example_files/finnis_sinclair_eam.aspot",
               "docs/user_guide/example_files/standard_eam.aspot",
               "docs/user_guide/example_files/Ag_sutton.aspot",
               "tests/lammps_resources/CRG_U_Th.aspot"]:
    label = "file." + os.path.basename(path)
    def run(path=path):
      with open(path) as f:
        tab = Configuration().read(f)
      out = io.StringIO()
      tab.write(out)
      return (type(tab).__name__, tab.target, tab.nr, tab.dr, tab.nrho, tab.drho, hashlib.sha256(out.getvalue().encode("utf-8")).hexdigest())
    attempt(label, run)


def main():
  rec("module.names", sorted(n for n in dir(et) if not n.startswith("_")))
  direct_cases()
  adp_cases()
  excel_cases()
  config_cases()
  print("DIGEST", TOTAL.hexdigest())


main()

"""Differential script for twin A.

Exercises atsim.potentials.config.ConfigParser.tabulation (the [Tabulation]
nr/dr/cutoff handling of _TabulationCutoff and _get_or_none) and
ConfigParser.table_form (x / y / xy parsing of [Table-Form:...] sections)
together with complete tabulations, for well formed and malformed input.

Prints one line per case and a sha256 digest of everything.
"""
import hashlib
import io
import itertools
import logging

from atsim.potentials.config import ConfigParser, Configuration

logging.disable(logging.CRITICAL)

LINES = []

def record(label, func):
  try:
    out = repr(func())
  except Exception as e:
    ctx = type(e.__context__).__name__ if e.__context__ is not None else None
    out = "EXC {}.{} args={!r} str={!r} ctx={}".format(type(e).__module__, type(e).__name__, e.args, str(e), ctx)
  LINES.append("{} -> {}".format(label, out))

def tab_repr(cfg):
  cp = ConfigParser(io.StringIO(cfg))
  t = cp.tabulation
  return (repr(t), t.target, t.nr, t.cutoff, t.nrho, t.cutoff_rho, type(t.nr).__name__, type(t.cutoff).__name__)

def table_forms(cfg):
  cp = ConfigParser(io.StringIO(cfg))
  return cp.table_form

def tabulate(cfg):
  tabulation = Configuration().read(io.StringIO(cfg))
  sio = io.StringIO()
  tabulation.write(sio)
  return hashlib.sha256(sio.getvalue().encode("utf-8")).hexdigest()

# --- [Tabulation] combinations ------------------------------------------------
values = {
  "nr" : [None, "10", "0", "-3", "1", "2", "ten", "1.5", "", " 7 "],
  "dr" : [None, "0.1", "0", "-0.5", "abc", "1e-2", "nan", "inf"],
  "cutoff" : [None, "0.7", "10.0", "0", "-1", "x1", "inf", "1e3"]}

for nr, dr, cutoff in itertools.product(values["nr"], values["dr"], values["cutoff"]):
  lines = ["[Tabulation]", "target : LAMMPS"]
  if nr is not None:
    lines.append("nr : {}".format(nr))
  if dr is not None:
    lines.append("dr : {}".format(dr))
  if cutoff is not None:
    lines.append("cutoff : {}".format(cutoff))
  cfg = "\n".join(lines) + "\n"
  record("tab nr={} dr={} cutoff={}".format(nr, dr, cutoff), lambda cfg=cfg: tab_repr(cfg))

rho_values = {
  "nrho" : [None, "50", "0", "1", "q"],
  "drho" : [None, "0.5", "-1", "0.0", "z"],
  "cutoff_rho" : [None, "25.0", "-2", "0", "bad"]}

for nrho, drho, cutoff_rho in itertools.product(rho_values["nrho"], rho_values["drho"], rho_values["cutoff_rho"]):
  lines = ["[Tabulation]", "target : setfl", "nr : 100", "dr : 0.01"]
  if nrho is not None:
    lines.append("nrho : {}".format(nrho))
  if drho is not None:
    lines.append("drho : {}".format(drho))
  if cutoff_rho is not None:
    lines.append("cutoff_rho : {}".format(cutoff_rho))
  cfg = "\n".join(lines) + "\n"
  record("rho nrho={} drho={} cutoff_rho={}".format(nrho, drho, cutoff_rho), lambda cfg=cfg: tab_repr(cfg))

# No tabulation section / synonyms / empty section
record("tab none", lambda: tab_repr("[Pair]\nA-B : as.buck 1000.0 0.1 3.0\n"))
record("tab empty", lambda: tab_repr("[Tabulation]\n"))
for target in ["DL_POLY", "lammps_eam_alloy", "LAMMPS_eam_alloy", "GULP", "excel", ""]:
  record("tab target={}".format(target), lambda target=target: tab_repr("[Tabulation]\ntarget : {}\nnr : 5\ncutoff : 2.0\n".format(target)))

# --- [Table-Form] parsing -----------------------------------------------------
table_cases = {
  "xy ok" : "[Table-Form:tab1]\ninterpolation : cubic_spline\nxy : 0 1 1 2 2 5 3 10\n",
  "xy default interp" : "[Table-Form: spaced ]\nxy : 0 1.5 1e0 2 2.5 5 3 -10\n",
  "xy odd" : "[Table-Form:tab1]\nxy : 0 1 1 2 2\n",
  "xy bad float" : "[Table-Form:tab1]\nxy : 0 1 1 two 2 5\n",
  "xy empty" : "[Table-Form:tab1]\nxy :\n",
  "x y ok" : "[Table-Form:tab2]\ninterpolation : linear\nx : 0 1 2 3\ny : 1 2 5 10\n",
  "x y multi line" : "[Table-Form:tab2]\nx : 0 1\n  2 3\ny : 1 2\n  5 10\n",
  "x bad" : "[Table-Form:tab2]\nx : 0 1 b 3\ny : 1 2 5 10\n",
  "y bad" : "[Table-Form:tab2]\nx : 0 1 2 3\ny : 1 2 5 1O\n",
  "x and y bad" : "[Table-Form:tab2]\nx : 0 k 2 3\ny : 1 2 5 1O\n",
  "x y length" : "[Table-Form:tab2]\nx : 0 1 2 3\ny : 1 2 5\n",
  "x only" : "[Table-Form:tab2]\nx : 0 1 2 3\n",
  "y only" : "[Table-Form:tab2]\ny : 0 1 2 3\n",
  "x y xy" : "[Table-Form:tab2]\nx : 0 1 2 3\ny : 1 2 5 10\nxy : 1 2\n",
  "x xy" : "[Table-Form:tab2]\nx : 0 1 2 3\nxy : 1 2\n",
  "nothing" : "[Table-Form:tab2]\ninterpolation : linear\n",
  "two tables" : "[Table-Form:a]\nxy : 0 1 1 2\n[Table-Form:b]\nx : 1 2\ny : 3 4\n",
  "two tables second bad" : "[Table-Form:a]\nxy : 0 1 1 2\n[Table-Form:b]\nx : 1 2\ny : 3 four\n",
  "duplicate tables" : "[Table-Form:a]\nxy : 0 1 1 2\n[Table-Form: a]\nx : 1 2\ny : 3 4\n",
  "variables" : "[Variables]\nV : 3.5\n[Table-Form:a]\nxy : 0 1 1 ${V}\n",
  "variables bad" : "[Variables]\nV : 3.5\n[Table-Form:a]\nxy : 0 1 1 ${W}\n",
  "nan inf" : "[Table-Form:a]\nx : 0 1 nan\ny : inf -inf 1e400\n",
}
for label, cfg in table_cases.items():
  record("table " + label, lambda cfg=cfg: table_forms(cfg))

# --- complete tabulations -----------------------------------------------------
pair_model = """[Tabulation]
target : {target}
{grid}

[Pair]
O-O : as.buck 1633.00510 0.327022 3.948790
U-O : tabulated
U-U : >0 as.buck 294.640000 0.327022 0.0 >=2.0 as.zero

[Table-Form:tabulated]
interpolation : {interp}
{data}
"""
grids = ["nr : 12\ncutoff : 6.0", "dr : 0.25\ncutoff : 5.0", "nr : 21\ndr : 0.2", "dr : 0.1\ncutoff : 0.7",
  "nr : 8", "cutoff : 6.0", "dr : 0.1", "nr : 8\ndr : 0.1\ncutoff : 0.7", "nr : 1\ncutoff : 3", "nr : 12\ncutoff : -6.0", "nr : 12\ndr : 0"]
datas = ["xy : 0 10 1 5 2 2.5 4 1 7 0", "x : 0 1 2 4 7\ny : 10 5 2.5 1 0", "x : 0 1 2 4\ny : 10 5 2.5 1 0", "xy : 0 10 1 5 2 2.5 4 1 7"]
for target, grid, interp, data in itertools.product(["LAMMPS", "DL_POLY", "GULP"], grids, ["cubic_spline", "linear"], datas):
  cfg = pair_model.format(target = target, grid = grid, interp = interp, data = data)
  record("tabulate {} {!r} {} {!r}".format(target, grid, interp, data), lambda cfg=cfg: tabulate(cfg))

eam_model = """[Tabulation]
target : setfl
{grid}

[Pair]
Al-Al : as.buck 1000.0 0.3 10.0
Al-Cu : as.buck 2000.0 0.25 12.0
Cu-Cu : as.buck 3000.0 0.2 14.0

[EAM-Embed]
Al : as.sqrt -1.5
Cu : as.sqrt -2.5

[EAM-Density]
Al : as.exponential 10.0 -1.0
Cu : dens

[Table-Form:dens]
xy : 0 0 1 2 2 1.5 5 0.5 12 0
"""
eam_grids = [
  "nr : 20\ndr : 0.25\nnrho : 20\ndrho : 0.5",
  "nr : 20\ncutoff : 5.0\nnrho : 15\ncutoff_rho : 10.0",
  "dr : 0.5\ncutoff : 5.0\ndrho : 0.5\ncutoff_rho : 10.0",
  "nr : 20\ndr : 0.25\nnrho : 20",
  "nr : 20\ndr : 0.25\ndrho : 0.5",
  "nr : 20\ndr : 0.25\nnrho : 0\ndrho : 0.5",
  "nr : 20\ndr : 0.25\nnrho : 20\ndrho : 0.5\ncutoff_rho : 5",
  "nr : 20\ndr : 0.25\nnrho : 2O\ndrho : 0.5",
]
for grid in eam_grids:
  cfg = eam_model.format(grid = grid)
  record("setfl {!r}".format(grid), lambda cfg=cfg: tabulate(cfg))

text = "\n".join(LINES)
n_exc = sum(1 for l in LINES if "-> EXC" in l)
print("cases: {} (exceptions: {})".format(len(LINES), n_exc))
print("sha256:", hashlib.sha256(text.encode("utf-8")).hexdigest())

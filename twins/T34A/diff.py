"""Differential script for twin A (table/factory generated wrappers of config/_pymath.py).

Prints a sha256 digest of everything observed; run on clean and refactored trees."""
import hashlib
import inspect
import io
import math
import sys

from atsim.potentials.config import Configuration, ConfigParser
from atsim.potentials.config import _pymath
from atsim.potentials.config._potential_form_registry import Potential_Form_Registry
from atsim.potentials.config._common import make_potential_form_tuple_from_function

out = []

def rec(*items):
  out.append(" | ".join(str(i) for i in items))

def attempt(label, f, with_message = True):
  try:
    v = f()
    rec(label, "OK", repr(v), type(v).__name__)
  except Exception as e:
    if with_message:
      rec(label, "EXC", type(e).__name__, str(e))
    else:
      rec(label, "EXC", type(e).__name__)

# 1. exported names, their order and signatures ----------------------------------------------
members = inspect.getmembers(_pymath, inspect.isfunction)
public = [(n, f) for (n, f) in members if not n.startswith("_")]
rec("public names", [n for n, f in public])
rec("public dir", sorted(n for n in vars(_pymath) if not n.startswith("_")))
for n, f in public:
  sig = inspect.signature(f)
  rec("sig", n, str(sig), f.__name__, f.__module__, [ (p.name, str(p.kind), p.default is p.empty) for p in sig.parameters.values()])
  rec("pft", n, make_potential_form_tuple_from_function("pymath." + n, f))

# 2. direct calls ------------------------------------------------------------------------------
values = [0, 1, -1, 2, 3, 0.5, -0.5, 0.9, 1.0, 2.9, 4.2, -3.3, 10, 100.0, 1e308, -1e308, 710.0,
          float("inf"), float("-inf"), float("nan"), 3.999999, 5.2, True, "a", None, 2**70]
for n, f in public:
  npar = len(inspect.signature(f).parameters)
  for a in values:
    attempt("call1 {} {!r}".format(n, a), lambda: f(a), with_message = not isinstance(a, (str, type(None))))
  for a in values[:14]:
    for b in [0, 1, 2, -10, 0.5, 4.0, 2.5, float("inf"), 10]:
      # TypeError for wrong arity: only the type is part of the behaviour compared
      # (the text contains the code object's name)
      attempt("call2 {} {!r} {!r}".format(n, a, b), lambda: f(a, b), with_message = (npar != 1))
  attempt("call0 {}".format(n), lambda: f(), with_message = False)
  attempt("call4 {}".format(n), lambda: f(1, 2, 3, 4), with_message = n in ("fsum",))
for n in ["ceil", "copysign", "pow", "atan2", "hypot", "fmod", "ldexp", "gcd", "factorial", "log2"]:
  f = getattr(_pymath, n)
  names = list(inspect.signature(f).parameters)
  kw = dict((p, 2.0) for p in names)
  attempt("kwcall {}".format(n), lambda: f(**kw))

# 3. through the registry ---------------------------------------------------------------------
cfp = ConfigParser(io.StringIO())
pfr = Potential_Form_Registry(cfp, register_pymath_functions = True)
rec("registered (pymath only)", pfr.registered)
pfr = Potential_Form_Registry(cfp, register_standard = True, register_pymath_functions = True)
rec("registered (std+pymath)", pfr.registered)

base_template = u"""
[Pair]
O-O : test_form

[Potential-Form]
test_form(r_ij) = {}
"""

expressions = [
  "pymath.ceil(4.2)", "pymath.copysign(3, -10)", "pymath.fabs(-3.3)", "pymath.factorial(4)",
  "pymath.factorial(4.7)", "pymath.floor(-3.1)", "pymath.fmod(2.1, 2)", "pymath.fsum(1,2,3,4)",
  "pymath.fsum(0.1,0.2,0.3,r_ij)", "pymath.gcd(100,10)", "pymath.gcd(100.9,10.9)", "pymath.ldexp(3.1, 4)",
  "pymath.ldexp(3.1, 4.9)", "pymath.trunc(5.2)", "pymath.exp(5.2)", "pymath.log(10)", "pymath.log(10, 10)",
  "pymath.log(r_ij, 3)", "pymath.log1p(10)", "pymath.log2(10)", "pymath.log10(10)", "pymath.pow(4,2)",
  "pymath.pow(r_ij,0.5)", "pymath.sqrt(4)", "pymath.acos(0.9)", "pymath.atan(0.9)", "pymath.atan2(5,2)",
  "pymath.atan2(r_ij,2)", "pymath.cos(2)", "pymath.hypot(3,4)", "pymath.sin(3)", "pymath.tan(0.5)",
  "pymath.radians(180)", "pymath.degrees(3.14)", "pymath.acosh(2.9)", "pymath.asinh(2.9)",
  "pymath.atanh(0.9)", "pymath.cosh(2.9)", "pymath.sinh(2.9)", "pymath.tanh(0.9)",
  "pymath.sin(r_ij) * pymath.cos(r_ij) + pymath.exp(-r_ij)/pymath.sqrt(r_ij)",
  "pymath.hypot(r_ij, pymath.fabs(-r_ij)) - pymath.copysign(r_ij, -1)",
  # bad usage: arity, domain, unknown names
  "pymath.ceil(4.2, 1)", "pymath.ceil()", "pymath.copysign(3)", "pymath.pow(1,2,3)", "pymath.atan2(1)",
  "pymath.hypot(1,2,3)", "pymath.ldexp(1)", "pymath.gcd(1)", "pymath.factorial(1,2)", "pymath.log2(1,2)",
  "pymath.fmod(1)", "pymath.sqrt(1,2)", "pymath.tanh()",
  "pymath.sqrt(-1)", "pymath.acos(2)", "pymath.log(-1)", "pymath.log(1,2,3)", "pymath.factorial(-1)",
  "pymath.acosh(0.5)", "pymath.atanh(1)", "pymath.exp(1000)", "pymath.fmod(1,0)", "pymath.log10(0)",
  "pymath.asin(0.5)", "pymath.frexp(2.1)", "pymath.isnan(1)", "pymath._gcd(4,2)", "pymath._wrap_x(1)",
  "pymath.wrapper(1)", "pymath.factory(1)", "pymath.name(1)", "pymath.math(1)", "pymath.pi",
  "pymath.log2(r_ij) + pymath.log1p(r_ij)",
]

for expr in expressions:
  def run():
    cfgobj = Configuration()
    tabulation = cfgobj.read(io.StringIO(base_template.format(expr)))
    pot = tabulation.potentials[0]
    return [pot.energy(r) for r in (0.5, 1.0, 1.7, 2.25, 9.0)]
  attempt("expr " + expr, run)

# 4. complete tabulations with pymath functions, several targets/grids ------------------------
table_template = u"""
[Tabulation]
target : {target}
cutoff : {cutoff}
nr : {nr}

[Pair]
{pairs}

[Potential-Form]
damped(r, A, k) = A * pymath.exp(-k*r) * pymath.cos(r) / pymath.sqrt(r+1)
mixed(r, a, b) = pymath.hypot(a, r) + pymath.atan2(b, r) - pymath.log(r+1, 2) + pymath.fsum(a,b,r)
"""
pairsets = [
  "O-O : damped 1000.0 2.5\nMg-O : mixed 1.5 2.5",
  "Mg-O : mixed 1.5 2.5\nO-O : damped 1000.0 2.5\nAl-O : as.buck 1000.0 0.3 32.0",
  "B-A : sum(damped 10.0 0.5, as.constant 1.0)\nA-A : product(mixed 0.1 0.2, damped 1.0 1.0)",
]
for target, cutoff, nr in [("LAMMPS", 6.0, 50), ("DL_POLY", 4.5, 32), ("DL_POLY", 4.5, 33), ("GULP", 8.0, 21), ("LAMMPS", 2.0, 7)]:
  for pairs in pairsets:
    def run():
      cfgobj = Configuration()
      tabulation = cfgobj.read(io.StringIO(table_template.format(target = target, cutoff = cutoff, nr = nr, pairs = pairs)))
      sio = io.StringIO()
      tabulation.write(sio)
      return hashlib.sha256(sio.getvalue().encode("utf-8")).hexdigest(), len(sio.getvalue())
    attempt("table {} {} {} {!r}".format(target, cutoff, nr, pairs), run)

blob = "\n".join(out)
if "-v" in sys.argv:
  print(blob)
print("records:", len(out))
print("sha256:", hashlib.sha256(blob.encode("utf-8")).hexdigest())

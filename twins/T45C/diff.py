"""Differential script for twin C (atsim/potentials/config/_tabulation_factories.py).

Checks the TABULATION_FACTORIES table (keys, order, factory classes, labels,
tabulation and builder classes, distinctness of the objects), runs every
tabulation target through atsim.potentials.config.Configuration with grids
that are fully specified, partly specified and missing (defaults + warnings),
captures every log record (logger name, level, message) emitted under the
`atsim` logger, exercises the public extract_* / create_tabulation methods of
the factories directly (including user sub-classes overriding the logging
hooks) and runs the `potable` command line.  Prints a sha256 digest.

Run:  /venv/bin/python -W ignore /tmp/wtpy.py /tmp/wt_r4_5 _twins/diffC.py
"""
import hashlib
import io
import logging
import os
import re
import subprocess
import sys
import tempfile

from atsim.potentials.config import Configuration, ConfigParser
from atsim.potentials.config import _tabulation_factories as tf
from atsim.potentials.config._potential_form_registry import Potential_Form_Registry
from atsim.potentials.config._modifier_registry import Modifier_Registry

VERBOSE = "-v" in sys.argv
TOTAL = hashlib.sha256()
TMPROOT = tempfile.gettempdir()


def rec(label, value):
  if isinstance(value, bytes):
    value = value.decode("latin-1")
  s = "{}={!r}\n".format(label, value)
  TOTAL.update(s.encode("utf-8"))
  if VERBOSE:
    print("{} :: {} :: {}".format(label, hashlib.sha256(s.encode("utf-8")).hexdigest()[:16], repr(value)[:90]))


def clean(msg):
  msg = re.sub(re.escape(TMPROOT) + r"/[A-Za-z0-9_]+", "<TMP>", msg)
  return re.sub(r" at 0x[0-9a-f]+", " at 0x?", msg)


class Capture(logging.Handler):
  def __init__(self):
    logging.Handler.__init__(self, level=logging.DEBUG)
    self.records = []
  def emit(self, record):
    self.records.append((record.name, record.levelname, clean(record.getMessage())))

CAPTURE = Capture()
_lg = logging.getLogger("atsim")
_lg.setLevel(logging.DEBUG)
_lg.addHandler(CAPTURE)
_lg.propagate = False


def attempt(label, func):
  del CAPTURE.records[:]
  try:
    v = func()
  except BaseException as e:  # noqa
    rec(label, "EXC:" + type(e).__name__ + ":" + clean(str(e)))
    rec(label + ".log", list(CAPTURE.records))
    return None
  if isinstance(v, (str, bytes, int, float, bool, type(None), list, tuple, dict)):
    rec(label, v)
  else:
    rec(label, "OBJ:" + type(v).__name__)
  rec(label + ".log", list(CAPTURE.records))
  return v


def dump_xlsx_bytes(b):
  from openpyxl import load_workbook
  wb = load_workbook(io.BytesIO(b))
  out = []
  for ws in wb.worksheets:
    out.append(("SHEET", ws.title, ws.dimensions))
    for row in ws.iter_rows():
      for c in row:
        out.append((c.coordinate, c.data_type, repr(c.value)))
  return out


def describe_tabulation(tab):
  d = [type(tab).__name__]
  for name in ["type", "target", "nr", "cutoff", "dr", "nrho", "cutoff_rho", "drho"]:
    try:
      d.append((name, getattr(tab, name)))
    except BaseException as e:  # noqa
      d.append((name, "EXC:" + type(e).__name__))
  d.append([(p.speciesA, p.speciesB) for p in tab.potentials])
  if hasattr(tab, "eam_potentials"):
    eam = []
    for p in tab.eam_potentials:
      dens = p.electronDensityFunction
      eam.append((p.species, p.atomicNumber, p.mass, p.latticeConstant, p.latticeType, sorted(dens.keys()) if isinstance(dens, dict) else "callable"))
    d.append(eam)
  for name in ["dipole_potentials", "quadrupole_potentials"]:
    if hasattr(tab, name):
      d.append((name, [(p.speciesA, p.speciesB) for p in getattr(tab, name)]))
  return d


def write_tabulation(tab):
  if hasattr(type(tab), "workbook"):
    fp = io.BytesIO()
    tab.write(fp)
    return dump_xlsx_bytes(fp.getvalue())
  fp = io.StringIO()
  tab.write(fp)
  return fp.getvalue()


# ---------------------------------------------------------------------------
# The table itself

def table_checks():
  table = tf.TABULATION_FACTORIES
  rec("table.type", type(table).__name__)
  rec("table.keys", list(table.keys()))
  rec("table.len", len(table))
  rec("table.distinct", len(set(id(v) for v in table.values())))
  for k, v in table.items():
    rec("table[{}]".format(k), (
      type(v).__name__, type(v).__module__, [c.__name__ for c in type(v).__mro__],
      v.tabulation_target, v.tabulation_class.__name__, v.tabulation_class.__module__, v.tabulation_type,
      getattr(v, "eam_builder_class", type(None)).__name__,
      sorted(vars(v).keys())))
  rec("module.names", sorted(n for n in dir(tf) if not n.startswith("_")))
  rec("module.doc", tf.__doc__)
  rec("tuples", (tf.RCutoffTuple._fields, tf.R_Rho_CutoffTuple._fields, tf.RCutoffTuple.__name__, tf.R_Rho_CutoffTuple.__name__))
  c1 = Configuration()
  c2 = Configuration()
  rec("configuration.copy", (c1._tabulation_factories is not tf.TABULATION_FACTORIES,
                             c1._tabulation_factories == tf.TABULATION_FACTORIES,
                             list(c1._tabulation_factories.keys()) == list(c2._tabulation_factories.keys())))


# ---------------------------------------------------------------------------
# Through Configuration

GRIDS = [
  "dr : 0.5\ncutoff : 6\ndrho : 0.25\ncutoff_rho : 2",
  "nr : 8\ncutoff : 3.5\nnrho : 4\ncutoff_rho : 30.0",
  "nr : 12\ndr : 0.1\nnrho : 6\ndrho : 2.0",
  "nr : 8\ncutoff : 2.0",             # density grid defaults
  "nrho : 4\ncutoff_rho : 3.0",       # r grid defaults
  "nr : 4\ncutoff : 2.0\nnrho : 1\ncutoff_rho : 3.0",
  "nr : 3\ncutoff : 2.0\nnrho : 3\ncutoff_rho : 3.0",
  "nr : 2\ncutoff : 2.0\nnrho : 2\ncutoff_rho : 3.0",
  "nr : 1\ncutoff : 2.0",
  "nr : 0\ncutoff : 2.0",
  "nr : 6\ncutoff : 2.0\nnrho : 4\ncutoff_rho : 1.0",
  "dr : 0.1",
  "nr : 4\ncutoff : 2.0\nnrho : 3\ncutoff_rho : 1.0",
  "nr : 5\ncutoff : 2.0\nnrho : 3\ncutoff_rho : 1.0",
  "",                                 # everything defaulted
]

MODELS = [
  dict(species="Al.atomic_number = 13\nO.atomic_mass = 16.5",
       pair="O-O : as.buck 1000.0 0.3 10.0\nAl-O : as.polynomial 0 2\nAl-Al : as.zero",
       density="O : as.polynomial 0 3\nAl : as.exponential 2.0 1.5",
       density_fs="Al->O : as.polynomial 0 3\nAl->Al : as.polynomial 0 4\nO->O : as.exponential 0.5 2\nO->Al : as.zero",
       embed="O : as.polynomial 0 5\nAl : as.sqrt -1.5",
       dipole="Al-O : as.polynomial 0 0.1", quadrupole="O-O : as.polynomial 0 0 0.2\nAl-O : as.zero"),
  dict(species="Cu.lattice_type = bcc",
       pair="Cu-Ag : as.lj 0.01 2.3\nAg-Ag : as.polynomial 1 0.5 0.25\nCu-Cu : as.morse 1.2 2.5 0.4",
       density="Cu : as.exponential 2.0 1.5\nAg : as.polynomial 0 0 1",
       density_fs="Cu->Cu : as.exponential 2.0 1.5\nAg->Cu : as.polynomial 0 0 1\nCu->Ag : as.polynomial 1 1\nAg->Ag : as.constant 2.0",
       embed="Ag : as.sqrt -2.0\nCu : as.polynomial 0 -1 0.01",
       dipole="Cu-Cu : as.constant 1.0\nAg-Cu : as.polynomial 0 1", quadrupole="Ag-Ag : as.polynomial 0 0 0.2"),
]

TARGETS = ["LAMMPS", "DLPOLY", "DL_POLY", "GULP", "excel", "setfl", "lammps_eam_alloy", "LAMMPS_eam_alloy", "setfl_fs",
           "DL_POLY_EAM", "DL_POLY_EAM_fs", "excel_eam", "excel_eam_fs", "eam_adp", None, "nonsense", "lammps", "Excel"]
PAIR_TARGETS = ("LAMMPS", "DLPOLY", "DL_POLY", "GULP", "excel", None)


def make_cfg(target, grid, model, drop=()):
  sections = []
  tab = "[Tabulation]\n"
  if target is not None:
    tab += "target : {}\n".format(target)
  tab += grid + "\n"
  sections.append(tab)
  fs = target is not None and target.endswith("_fs")
  parts = [("Species", model["species"]), ("Pair", model["pair"])]
  if target not in PAIR_TARGETS:
    parts += [("EAM-Density", model["density_fs"] if fs else model["density"]), ("EAM-Embed", model["embed"])]
  if target == "eam_adp":
    parts += [("EAM-ADP-Dipole", model["dipole"]), ("EAM-ADP-Quadrupole", model["quadrupole"])]
  for name, body in parts:
    if name in drop:
      continue
    sections.append("[{}]\n{}\n".format(name, body))
  return u"\n".join(sections)


def is_big(target, grid):
  """True when the default 1001 point grids would be used"""
  has_r = ("nr" in grid.split() or "dr" in grid.split()) and "cutoff :" in grid or ("nr : " in grid and "dr : " in grid)
  has_rho = "nrho" in grid and ("cutoff_rho" in grid or "drho" in grid)
  if target in PAIR_TARGETS:
    return not has_r
  return not (has_r and has_rho)


def config_cases():
  for target in TARGETS:
    for gi, grid in enumerate(GRIDS):
      for mi, model in enumerate(MODELS):
        label = "cfg.{}.g{}.m{}".format(target, gi, mi)
        cfg = make_cfg(target, grid, model)
        tab = attempt(label + ".read", lambda: Configuration().read(io.StringIO(cfg)))
        if tab is None:
          continue
        rec(label + ".desc", describe_tabulation(tab))
        if is_big(target, grid) and (mi > 0 or (target or "").startswith("excel")):
          continue
        attempt(label + ".write", lambda: write_tabulation(tab))

  # missing sections
  for target in ["LAMMPS", "setfl", "setfl_fs", "eam_adp", "excel_eam", "DL_POLY_EAM"]:
    for drop in [("Pair",), ("EAM-Density",), ("EAM-Embed",), ("EAM-ADP-Dipole",), ("EAM-ADP-Quadrupole",), ("Species",), ("Pair", "EAM-Density", "EAM-Embed")]:
      label = "cfg.{}.drop.{}".format(target, "+".join(drop))
      cfg = make_cfg(target, GRIDS[1], MODELS[0], drop=drop)
      tab = attempt(label + ".read", lambda: Configuration().read(io.StringIO(cfg)))
      if tab is None:
        continue
      rec(label + ".desc", describe_tabulation(tab))
      attempt(label + ".write", lambda: write_tabulation(tab))

  # wrong density style for target
  for target, key in [("setfl", "density_fs"), ("setfl_fs", "density"), ("eam_adp", "density_fs"), ("excel_eam_fs", "density")]:
    model = dict(MODELS[0])
    model["density"] = model["density_fs"] = MODELS[0][key]
    label = "cfg.{}.wrongdensity".format(target)
    cfg = make_cfg(target, GRIDS[1], model)
    tab = attempt(label + ".read", lambda: Configuration().read(io.StringIO(cfg)))
    if tab is not None:
      rec(label + ".desc", describe_tabulation(tab))
      attempt(label + ".write", lambda: write_tabulation(tab))

  # no [Tabulation] section at all
  attempt("cfg.notabulation", lambda: describe_tabulation(Configuration().read(io.StringIO(u"[Pair]\nA-B : as.zero\n"))))
  attempt("cfg.empty", lambda: describe_tabulation(Configuration().read(io.StringIO(u""))))

  for path in ["tests/config/config_resources/setfl.aspot",
               "tests/config/config_resources/spinel.aspot",
               "tests/lammps_resources/Al_Cu_adp.aspot",
               "tests/lammps_resources/AlFe_setfl_fs.aspot",
               "tests/dl_poly_resources/CRG_Ce.aspot",
               "docs/quick_start/basak.aspot",
               "docs/user_guide/example_files/finnis_sinclair_eam.aspot",
               "docs/user_guide/example_files/standard_eam.aspot"]:
    label = "file." + os.path.basename(path)
    def run(path=path):
      with open(path) as f:
        tab = Configuration().read(f)
      return describe_tabulation(tab)
    attempt(label, run)
  def run_small():
    with open("docs/user_guide/example_files/standard_eam.aspot") as f:
      tab = Configuration().read(f)
    return hashlib.sha256(write_tabulation(tab).encode("utf-8")).hexdigest()
  attempt("file.standard_eam.write", run_small)


# ---------------------------------------------------------------------------
# Direct use of the factory objects

class Tab(object):
  """Stand-in tabulation class recording its constructor arguments"""
  def __init__(self, *args):
    self.args = args


def summarise_args(args):
  out = []
  for a in args:
    if isinstance(a, list):
      out.append([type(x).__name__ + ":" + str(getattr(x, "species", None) or (x.speciesA, x.speciesB)) for x in a])
    else:
      out.append(a)
  return out


def direct_cases():
  for target in ["LAMMPS", "DLPOLY", "GULP", "setfl", "setfl_fs", "DL_POLY_EAM_fs", "eam_adp", "excel_eam"]:
    for gi in [0, 1, 3, 4, 8, 12, 14]:
      label = "factory.{}.g{}".format(target, gi)
      cfg = make_cfg(target, GRIDS[gi], MODELS[1])
      factory = tf.TABULATION_FACTORIES[target]
      def cutoffs():
        cp = ConfigParser(io.StringIO(cfg))
        c = factory.extract_cutoffs(cp)
        return (type(c).__name__, tuple(c), c._fields)
      attempt(label + ".extract_cutoffs", cutoffs)
      def pots():
        cp = ConfigParser(io.StringIO(cfg))
        pfr = Potential_Form_Registry(cp, register_standard=True, register_pymath_functions=True)
        return summarise_args([factory.extract_potential_objects(cp, pfr, Modifier_Registry())])
      attempt(label + ".extract_potential_objects", pots)
      def targs():
        cp = ConfigParser(io.StringIO(cfg))
        pfr = Potential_Form_Registry(cp, register_standard=True, register_pymath_functions=True)
        mr = Modifier_Registry()
        c = factory.extract_cutoffs(cp)
        p = factory.extract_potential_objects(cp, pfr, mr)
        a = factory.extract_tabulation_args(cp, c, p, pfr, mr)
        return (type(a).__name__, summarise_args(a))
      attempt(label + ".extract_tabulation_args", targs)
      attempt(label + ".create_tabulation", lambda: describe_tabulation(factory.create_tabulation(ConfigParser(io.StringIO(cfg)))))
      if target == "eam_adp":
        def multipoles():
          cp = ConfigParser(io.StringIO(cfg))
          pfr = Potential_Form_Registry(cp, register_standard=True, register_pymath_functions=True)
          mr = Modifier_Registry()
          return summarise_args([factory.extract_dipoles(cp, pfr, mr), factory.extract_quadrupoles(cp, pfr, mr)])
        attempt(label + ".multipoles", multipoles)

  # new factory objects built with public constructors
  for fname, fcls, extra in [("pair", tf.PairTabulationFactory, ()), ("lammps", tf.LAMMPS_PairTabulationFactory, ()), ("dlpoly", tf.DLPOLY_PairTabulationFactory, ()),
                             ("eam", tf.EAMTabulationFactory, ()), ("eam_fs", tf.EAMTabulationFactory, (tf.EAM_Potential_Builder_FS,)), ("adp", tf.ADP_EAMTabulationFactory, ())]:
    for gi in [1, 4, 7, 12, 14]:
      label = "newfactory.{}.g{}".format(fname, gi)
      target = {"eam": "setfl", "eam_fs": "setfl_fs", "adp": "eam_adp"}.get(fname, "LAMMPS")
      cfg = make_cfg(target, GRIDS[gi], MODELS[0])
      def run():
        f = fcls("my-label", Tab, *extra)
        t = f.create_tabulation(ConfigParser(io.StringIO(cfg)))
        return (f.tabulation_target, f.tabulation_type, f.tabulation_class.__name__, getattr(f, "eam_builder_class", type(None)).__name__, summarise_args(t.args))
      attempt(label, run)
  attempt("newfactory.kw", lambda: vars(tf.EAMTabulationFactory(tabulation_class=Tab, tabulation_target="t", eam_builder_class=None)) == dict(tabulation_class=Tab, tabulation_target="t", eam_builder_class=None, tabulation_type="EAM"))
  attempt("newfactory.arity", lambda: tf.PairTabulationFactory("x"))
  attempt("newfactory.arity2", lambda: tf.PairTabulationFactory("x", Tab, None))

  # user sub-classes overriding the documented hooks
  class Chatty(tf.PairTabulationFactory):
    def _log_extra_tabulation_details(self, logger, r_cutoff, potobjs, **kwargs):
      logger.info("extra {} {}".format(tuple(r_cutoff), len(potobjs)))
    def _log_more(self, logger, r_cutoff, potobjs, **kwargs):
      logger.info("more {}".format(sorted(kwargs)))
    def extract_cutoffs(self, cp):
      c = super(Chatty, self).extract_cutoffs(cp)
      return tf.RCutoffTuple(c.cutoff * 2, c.nr + 1)
  class ChattyEAM(tf.EAMTabulationFactory):
    def _log_cutoffs(self, logger, r_cutoff, **kwargs):
      logger.info("before")
      super(ChattyEAM, self)._log_cutoffs(logger, r_cutoff, **kwargs)
      logger.info("after")
    def _create_reference_data(self, cp):
      logger = logging.getLogger("atsim.test")
      logger.info("reference data requested")
      return super(ChattyEAM, self)._create_reference_data(cp)
    def extract_potential_objects(self, cp, pfr, mr):
      return list(reversed(super(ChattyEAM, self).extract_potential_objects(cp, pfr, mr)))
  class ChattyADP(tf.ADP_EAMTabulationFactory):
    def extract_dipoles(self, cp, pfr, mr):
      logging.getLogger("atsim.test").info("dipoles")
      return super(ChattyADP, self).extract_dipoles(cp, pfr, mr)
    def extract_quadrupoles(self, cp, pfr, mr):
      logging.getLogger("atsim.test").info("quadrupoles")
      return []
    def _extract_pots(self, cp, pfr, mr, section_name):
      logging.getLogger("atsim.test").info("section " + section_name)
      return super(ChattyADP, self)._extract_pots(cp, pfr, mr, section_name)
  for fname, fcls, target in [("chatty", Chatty, "GULP"), ("chattyeam", ChattyEAM, "setfl"), ("chattyadp", ChattyADP, "eam_adp")]:
    for gi in [1, 3, 14]:
      for mi, model in enumerate(MODELS):
        label = "subclass.{}.g{}.m{}".format(fname, gi, mi)
        cfg = make_cfg(target, GRIDS[gi], model)
        attempt(label, lambda: summarise_args(fcls("lbl", Tab).create_tabulation(ConfigParser(io.StringIO(cfg))).args))
  # FS sub-class
  for gi in [1, 4]:
    cfg = make_cfg("setfl_fs", GRIDS[gi], MODELS[1])
    attempt("subclass.chattyfs.g{}".format(gi), lambda: summarise_args(ChattyEAM("lbl", Tab, tf.EAM_Potential_Builder_FS).create_tabulation(ConfigParser(io.StringIO(cfg))).args))

  # a Configuration with an extra factory registered
  def custom():
    c = Configuration()
    c._tabulation_factories["custom"] = Chatty("custom", Tab)
    t = c.read(io.StringIO(make_cfg("custom", GRIDS[1], MODELS[0])))
    return (summarise_args(t.args), "custom" in tf.TABULATION_FACTORIES)
  attempt("configuration.custom", custom)


def cli_cases():
  d = tempfile.mkdtemp()
  for ti, (target, gi) in enumerate([("LAMMPS", 1), ("DLPOLY", 1), ("DLPOLY", 12), ("GULP", 3), ("setfl", 3), ("setfl_fs", 1), ("DL_POLY_EAM", 1),
                                      ("eam_adp", 1), ("excel", 1), ("excel_eam_fs", 1), ("nonsense", 1), ("LAMMPS", 7), (None, 1)]):
    cfgpath = os.path.join(d, "in{}.aspot".format(ti))
    outpath = os.path.join(d, "out{}.tab".format(ti))
    with open(cfgpath, "w") as f:
      f.write(make_cfg(target, GRIDS[gi], MODELS[ti % 2]))
    code = ("import sys; sys.argv = ['potable', %r, %r];"
            "from atsim.potentials.tools.potable import main; main()" % (cfgpath, outpath))
    p = subprocess.run([sys.executable, "-W", "ignore", "/tmp/wtpy.py", os.getcwd(), "-c", code],
                       stdout=subprocess.PIPE, stderr=subprocess.PIPE)
    label = "cli.{}.{}".format(ti, target)
    rec(label + ".rc", p.returncode)
    rec(label + ".stdout", clean(p.stdout.decode()))
    rec(label + ".stderr", clean(p.stderr.decode()))
    if os.path.exists(outpath):
      with open(outpath, "rb") as f:
        b = f.read()
      rec(label + ".out", dump_xlsx_bytes(b) if (target or "").startswith("excel") else b)
      os.remove(outpath)
    else:
      rec(label + ".out", "MISSING")
    os.remove(cfgpath)
  os.rmdir(d)


def main():
  table_checks()
  config_cases()
  direct_cases()
  cli_cases()
  print("DIGEST", TOTAL.hexdigest())


main()

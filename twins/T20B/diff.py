"""diffB.py - checks for twin B (defensive argument validation in the pure library API).

Usage (from the worktree root, through the wrapper):
  /venv/bin/python -W ignore /tmp/wtpy.py /tmp/twin_20 _twins/diffB.py [-v]

(a) COMMON DIGEST and EXTRA DIGEST must be identical on the clean and the edited tree.
    EXTRA DIGEST covers the things closest to the edit that must NOT change:
      - valid but unusual arguments to the validated functions (numpy/bool integers for nr,
        duck-typed range definitions, callable class instances/partials, detach > attach,
        placeholder (non-callable) potential forms in Multi_Range_Defn used only for range searches),
      - configuration files whose errors are detected on the potable path before/around
        the validated library code (they must stay configuration errors with the same text,
        or stay whatever they were).
(b) FEATURE TABLE: plainly invalid arguments to the library API.  On the clean tree these
    raise late and obscurely (TypeError "'float' object is not callable" at first evaluation,
    AttributeError, numpy LinAlgError); on the edited tree they raise TypeError / ValueError
    with a descriptive message at construction.  Nothing in the table is reachable from a
    potable configuration file.
"""
import functools
import io
import logging
import os
import sys

sys.path.insert(0, os.path.dirname(os.path.abspath(__file__)))
import common_digest as cd


def outcome(thunk):
  try:
    r = thunk()
    return "returned " + (repr(r) if isinstance(r, (float, int, str, tuple)) else type(r).__name__)
  except Exception as e:
    return "raised " + cd.describe_exception(e)


def extra_digest(verbose):
  import numpy
  import atsim.potentials as ap
  from atsim.potentials import potentialforms as pf
  from atsim.potentials.spline import SplinePotential, Buck4_SplinePotential
  from atsim.potentials.pair_tabulation import LAMMPS_PairTabulation, DLPoly_PairTabulation, GULP_PairTabulation
  from atsim.potentials._multi_range_potential_form import Multi_Range_Potential_Form

  f = pf.bornmayer(1000.0, 0.3)
  g = pf.buck(0, 1.0, 30.0)

  class CallableObj(object):
    def __call__(self, r):
      return 1.0/(r + 1.0)

  class DuckDefn(object):
    """Provides the Multi_Range_Defn interface without inheriting from it"""
    range_type = ">"
    start = 0.5
    has_deriv = False
    has_deriv2 = False
    def potential_form(self, r):
      return 2.0*r

  def write(cls, pots, cutoff, nr):
    sio = io.StringIO()
    cls(pots, cutoff, nr).write(sio)
    return cd.sha(sio.getvalue())

  items = []
  checks = [
    ("nr numpy.int64", lambda: write(LAMMPS_PairTabulation, [ap.Potential("A", "B", f)], 5.0, numpy.int64(11))),
    ("nr numpy.int32 dlpoly", lambda: write(DLPoly_PairTabulation, [ap.Potential("A", "B", f)], 5.0, numpy.int32(12))),
    ("nr bool (True == 1)", lambda: outcome(lambda: write(GULP_PairTabulation, [ap.Potential("A", "B", f)], 5.0, True))),
    ("nr plain int", lambda: write(GULP_PairTabulation, [ap.Potential("A", "B", lambda r: r)], 5.0, 6)),
    ("Potential callable object", lambda: ap.Potential("A", "B", CallableObj()).force(1.0)),
    ("Potential functools.partial", lambda: ap.Potential("A", "B", functools.partial(lambda a, r: a*r, 2.0)).energy(1.5)),
    ("Potential builtin", lambda: ap.Potential("A", "B", abs).energy(-1.5)),
    ("Potential class as callable", lambda: ap.Potential("A", "B", float).energy(2)),
    ("Potential TableReader", lambda: ap.Potential("A", "B", ap.TableReader(io.StringIO(u"0 1\n1 3\n"))).energy(0.5)),
    ("duck typed range defn", lambda: ap.create_Multi_Range_Potential_Form(DuckDefn(), ap.Multi_Range_Defn(">=", 2.0, f))(1.0)),
    ("no range defns", lambda: ap.create_Multi_Range_Potential_Form()(1.0)),
    ("placeholder potential_form, range search only", lambda: Multi_Range_Potential_Form(ap.Multi_Range_Defn(">", 0.0, "one"), ap.Multi_Range_Defn(">=", 1.0, "two"))._range_search(1.0).potential_form),
    ("placeholder through create_", lambda: type(ap.create_Multi_Range_Potential_Form(ap.Multi_Range_Defn(">", 0.0, "one"))).__name__),
    ("spline detach > attach", lambda: SplinePotential(f, g, 2.0, 1.5)(1.7)),
    ("spline normal", lambda: SplinePotential(f, g, 1.5, 2.0).splineCoefficients),
    ("spline callable objects", lambda: SplinePotential(CallableObj(), CallableObj(), 1.0, 2.0)(1.5)),
    ("buck4 spline equal detach/attach/rmin (unchanged LinAlgError)", lambda: outcome(lambda: Buck4_SplinePotential(f, g, 1.5, 1.5, 1.5))),
    ("buck4 spline callable objects", lambda: Buck4_SplinePotential(CallableObj(), CallableObj(), 1.0, 2.0, 1.5)(1.7)),
    ("spline start evaluation fails at detach (r=0) but detach != attach", lambda: outcome(lambda: SplinePotential(g, f, 0.0, 1.0))),
  ]
  for label, thunk in checks:
    items.append((label, outcome(thunk)))

  # potable path around the validated code
  P = cd.PAIR.format(target = "LAMMPS", nr = 31)
  cfgs = [
    ("cfg spline equal detach/attach", P.replace(">=0.8 exp_spline >=1.4", ">=1.4 exp_spline >=1.4")),
    ("cfg buck4_spline equal", P.replace(">1.0 buck4_spline 1.8 >2.5", ">1.0 buck4_spline 1.0 >1.0")),
    ("cfg as.buck4 equal detach/attach", P.replace("as.buck4 1000 0.3 30 1.2 2.0 2.6", "as.buck4 1000 0.3 30 1.2 1.2 1.2")),
    ("cfg as.buck4 too few", P.replace("as.buck4 1000 0.3 30 1.2 2.0 2.6", "as.buck4 1000 0.3 30 1.2 2.0")),
    ("cfg nr float", P.replace("nr : 31", "nr : 31.0")),
    ("cfg nr empty", P.replace("nr : 31", "nr : ")),
    ("cfg empty potential definition", P.replace("O-O = as.buck ${A_OO} 0.3623 175.0", "O-O = ")),
    ("cfg range only", P.replace("O-O = as.buck ${A_OO} 0.3623 175.0", "O-O = >0")),
    ("cfg number as form", P.replace("O-O = as.buck ${A_OO} 0.3623 175.0", "O-O = 5.0")),
    ("cfg pymath function as form", P.replace("O-O = as.buck ${A_OO} 0.3623 175.0", "O-O = pymath.floor")),
    ("cfg modifier without args", P.replace("O-O = as.buck ${A_OO} 0.3623 175.0", "O-O = sum()")),
  ]
  for label, text in cfgs:
    items.append((label, cd.try_tabulate(text)))
    code, err, logtext, stdout, outtext = cd.run_potable(["@CFG", "@OUT"], text)
    last = err.strip().splitlines()[-1] if err.strip() else ""
    items.append((label + " [potable]", "code={} out={} stderr-last-line={}".format(code, "ABSENT" if outtext is None else len(outtext), last)))

  if verbose:
    for k, v in items:
      print("  {:70s} {}".format(k, v[:230]))
  print("EXTRA DIGEST ({} items): {}".format(len(items), cd.sha("\n".join("{}={}".format(k, v) for k, v in items))))


def feature_table():
  import atsim.potentials as ap
  from atsim.potentials import potentialforms as pf
  from atsim.potentials import EAMPotential
  from atsim.potentials import eam_tabulation as et
  from atsim.potentials.spline import SplinePotential, Buck4_SplinePotential
  from atsim.potentials.pair_tabulation import LAMMPS_PairTabulation, DLPoly_PairTabulation, GULP_PairTabulation, Excel_PairTabulation

  f = pf.bornmayer(1000.0, 0.3)
  g = pf.buck(0, 1.0, 30.0)
  eam = [EAMPotential("Al", 13, 26.98, pf.sqrt(-1.0), pf.polynomial(1.0, -0.1))]

  def full_write(cls, nr, *extra):
    def thunk():
      fp = io.BytesIO() if "Excel" in cls.__name__ else io.StringIO()
      if extra:
        tab = cls([ap.Potential("Al", "Al", f)], eam, 5.0, nr, 10.0, 6)
      else:
        tab = cls([ap.Potential("Al", "Al", f)], 5.0, nr)
      tab.write(fp)
      return len(fp.getvalue())
    return thunk

  # (label, thunk, expected exception class on the edited tree, text expected in the message)
  rows = [
    ("Potential('A','B', 5.0).force(1.0)", lambda: ap.Potential("A", "B", 5.0).force(1.0), TypeError, "must be a callable"),
    ("Potential('A','B', None) + writePotentials", lambda: ap.writePotentials("LAMMPS", [ap.Potential("A", "B", None)], 5.0, 10, io.StringIO()), TypeError, "must be a callable"),
    ("Potential('A','B', 'as.buck 1 2 3').energy(1.0)", lambda: ap.Potential("A", "B", "as.buck 1 2 3").energy(1.0), TypeError, "must be a callable"),
    ("LAMMPS_PairTabulation nr=8.0 write", full_write(LAMMPS_PairTabulation, 8.0), TypeError, "must be an integer"),
    ("DLPoly_PairTabulation nr=8.0 write", full_write(DLPoly_PairTabulation, 8.0), TypeError, "must be an integer"),
    ("GULP_PairTabulation nr='8' write", full_write(GULP_PairTabulation, "8"), TypeError, "must be an integer"),
    ("Excel_PairTabulation nr=None write", full_write(Excel_PairTabulation, None), TypeError, "must be an integer"),
    ("SetFL_EAMTabulation nr=8.0 write", full_write(et.SetFL_EAMTabulation, 8.0, True), TypeError, "must be an integer"),
    ("TABEAM_EAMTabulation nr='8' write", full_write(et.TABEAM_EAMTabulation, "8", True), TypeError, "must be an integer"),
    ("writePotentials('GULP', ..., gridPoints=10.5)", lambda: ap.writePotentials("GULP", [ap.Potential("A", "B", f)], 5.0, 10.5, io.StringIO()), TypeError, "must be an integer"),
    ("SplinePotential(3.0, g, 1, 2)", lambda: SplinePotential(3.0, g, 1.0, 2.0), TypeError, "startPotential"),
    ("SplinePotential(f, None, 1, 2)", lambda: SplinePotential(f, None, 1.0, 2.0), TypeError, "endPotential"),
    ("Buck4_SplinePotential(f, 2, 1, 2, 1.5)", lambda: Buck4_SplinePotential(f, 2, 1.0, 2.0, 1.5), TypeError, "endPotential"),
    ("SplinePotential(f, g, 1.5, 1.5)", lambda: SplinePotential(f, g, 1.5, 1.5), ValueError, "must differ"),
    ("create_Multi_Range_Potential_Form(('>', 0.0, f))", lambda: ap.create_Multi_Range_Potential_Form((">", 0.0, f)), TypeError, "Multi_Range_Defn"),
    ("create_Multi_Range_Potential_Form(f)", lambda: ap.create_Multi_Range_Potential_Form(f), TypeError, "Multi_Range_Defn"),
  ]
  print("FEATURE TABLE (twin B): invalid arguments to the library API")
  ok = True
  raised_all = True
  for label, thunk, exc_cls, fragment in rows:
    try:
      thunk()
      got = None
      desc = "NO EXCEPTION"
    except Exception as e:
      got = e
      desc = "{}: {}".format(type(e).__name__, str(e)[:110])
    good = got is not None and type(got) is exc_cls and fragment in str(got)
    ok = ok and good
    raised_all = raised_all and got is not None
    print("  {:52s} -> {}".format(label, desc))
  print("  every row raises an exception on this tree (any kind)      : {}   (True expected on both trees)".format(raised_all))
  print("  every row raises the descriptive TypeError/ValueError       : {}   (False expected on the clean tree, True on the edited tree)".format(ok))


def main():
  verbose = "-v" in sys.argv
  items, overall = cd.common_digest(logging.INFO)
  cd.print_digest(items, overall, verbose = verbose)
  extra_digest(verbose)
  print("")
  feature_table()

main()

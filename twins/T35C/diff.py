"""Differential script for twin C.

Exercises plot()/plotToFile()/plotPotentialObject*(), action_tabulate (directly
and through the potable CLI), the setfl / funcfl / TABEAM writers and the
ADP tabulation: output text, the sequence of write() calls seen by the
destination, evaluation order of user functions, what is left in the output
file when a user function fails, and exceptions for malformed input.
Prints one sha256 digest.
"""
import io
import logging
import os
import shutil
import sys
import tempfile

sys.path.insert(0, os.path.dirname(os.path.abspath(__file__)))
import harness as h
from harness import ap, et, Rec, FailAfter, Boom, run, Potential, EAMPotential

from atsim.potentials import _dlpoly_writeTABEAM as tabeam
from atsim.potentials.tools.potable import _actions
from atsim.potentials.config import ConfigParser

d = h.Digest()
scratch = tempfile.mkdtemp(prefix = "twin35C_")
h.SCRUB.append(scratch)

pairs = h.pair_sets()
eams = h.eam_sets()
eam_fs = h.eam_fs_sets()


def rec_call(func, *args, **kwargs):
  rec = Rec()
  kwargs["out"] = rec
  func(*args, **kwargs)
  return rec.summary()


# ---- 1. plot family ---------------------------------------------------------
def read_back(name):
  path = os.path.join(scratch, name)
  if not os.path.exists(path):
    return "NOFILE"
  with open(path, "rb") as f:
    return f.read()

funcs = {
  "morse": h.morse_like,
  "int": lambda r: 3,
  "str": lambda r: "s%r" % r,
  "none": lambda r: None,
  "nan": lambda r: float("nan"),
  "buck": pairs["one"][0].potentialFunction,
}
for fname in sorted(funcs):
  f = funcs[fname]
  for lowx, highx, steps in [(0.1, 10.0, 50), (1.0, 2.0, 1), (0.0, 1.0, 0), (5.0, 1.0, 4), (1, 9, 8), (0.5, 0.5, 3)]:
    label = "%s:%s:%s:%s" % (fname, lowx, highx, steps)
    def tofile():
      rec = Rec()
      ap.plotToFile(rec, lowx, highx, f, steps)
      return rec.summary()
    run(d, "plotToFile:" + label, tofile)
    def plot():
      path = os.path.join(scratch, "plot.dat")
      with open(path, "w") as stale:
        stale.write("STALE")
      res = ap.plot(path, lowx, highx, f, steps)
      return (res, read_back("plot.dat"))
    run(d, "plot:" + label, plot)

run(d, "plot:default_steps", lambda: (ap.plot(os.path.join(scratch, "p2.dat"), 0.5, 4.0, h.morse_like), read_back("p2.dat")))
run(d, "plotToFile:default_steps", lambda: (lambda sio: (ap.plotToFile(sio, 0.5, 4.0, h.morse_like), sio.getvalue())[1])(io.StringIO()))
run(d, "plot:kwargs", lambda: (ap.plot(filename = os.path.join(scratch, "p3.dat"), lowx = 0.5, highx = 4.0, func = h.morse_like, steps = 3), read_back("p3.dat")))
run(d, "plotToFile:kwargs", lambda: (lambda sio: (ap.plotToFile(fileobj = sio, lowx = 0.5, highx = 4.0, func = h.morse_like, steps = 3), sio.getvalue())[1])(io.StringIO()))

for setname in ["one", "mixed"]:
  for pot in pairs[setname]:
    label = "%s:%s-%s" % (setname, pot.speciesA, pot.speciesB)
    def pobj():
      path = os.path.join(scratch, "pobj.dat")
      res = ap.plotPotentialObject(path, 0.2, 6.0, pot, 25)
      return (res, read_back("pobj.dat"))
    run(d, "plotPotentialObject:" + label, pobj)
    def pobj_file():
      rec = Rec()
      ap.plotPotentialObjectToFile(rec, 0.2, 6.0, pot, 7)
      return rec.summary()
    run(d, "plotPotentialObjectToFile:" + label, pobj_file)
run(d, "plotPotentialObject:kwargs", lambda: (ap.plotPotentialObject(filename = os.path.join(scratch, "p4.dat"), lowx = 1.0, highx = 2.0, potentialObject = pairs["one"][0], steps = 2), read_back("p4.dat")))
run(d, "plotPotentialObject:default_steps", lambda: (ap.plotPotentialObject(os.path.join(scratch, "p5.dat"), 1.0, 2.0, pairs["one"][0]), read_back("p5.dat")))

# failures part-way: plot writes incrementally, so rows before the failure stay
for n in [0, 1, 4, 9, 10]:
  def plot_fail():
    path = os.path.join(scratch, "fail.dat")
    with open(path, "w") as stale:
      stale.write("STALE")
    try:
      ap.plot(path, 0.5, 5.5, FailAfter(h.morse_like, n), 10)
    except Boom as e:
      return ("Boom", str(e), read_back("fail.dat"))
    return ("ok", read_back("fail.dat"))
  run(d, "plot_fail:%d" % n, plot_fail)
  def pobj_fail():
    path = os.path.join(scratch, "fail2.dat")
    try:
      ap.plotPotentialObject(path, 0.5, 5.5, Potential("A", "B", FailAfter(h.morse_like, n)), 10)
    except Boom as e:
      return ("Boom", str(e), read_back("fail2.dat"))
    return ("ok", read_back("fail2.dat"))
  run(d, "pobj_fail:%d" % n, pobj_fail)
  def tofile_fail():
    rec = Rec()
    try:
      ap.plotToFile(rec, 0.5, 5.5, FailAfter(h.morse_like, n), 10)
    except Boom as e:
      return ("Boom", str(e), rec.summary())
    return ("ok", rec.summary())
  run(d, "plotToFile_fail:%d" % n, tofile_fail)

run(d, "plot:nodir", lambda: ap.plot(os.path.join(scratch, "no", "dir.dat"), 0.1, 1.0, h.morse_like, 3))
run(d, "plotPotentialObject:nodir", lambda: ap.plotPotentialObject(os.path.join(scratch, "no", "dir.dat"), 0.1, 1.0, pairs["one"][0], 3))
run(d, "plot:float_steps", lambda: (ap.plot(os.path.join(scratch, "fs.dat"), 0.1, 1.0, h.morse_like, 3.0), None)[1])
d.add("plot:float_steps:file", read_back("fs.dat"))
run(d, "plot:zero_div", lambda: ap.plot(os.path.join(scratch, "zd.dat"), 0.0, 1.0, lambda r: 1.0 / r, 3))
d.add("plot:zero_div:file", read_back("zd.dat"))
run(d, "plot:str_low", lambda: ap.plot(os.path.join(scratch, "sl.dat"), "0.0", 1.0, h.morse_like, 3))
d.add("plot:str_low:file", read_back("sl.dat"))
run(d, "plot:none_name", lambda: ap.plot(None, 0.0, 1.0, h.morse_like, 3))
run(d, "plotPotentialObject:not_pot", lambda: ap.plotPotentialObject(os.path.join(scratch, "np.dat"), 0.1, 1.0, h.morse_like, 3))
d.add("plotPotentialObject:not_pot:file", read_back("np.dat"))
run(d, "plotToFile:nowrite", lambda: ap.plotToFile(object(), 0.1, 1.0, h.morse_like, 3))
run(d, "plotToFile:nowrite0", lambda: ap.plotToFile(object(), 0.1, 1.0, h.morse_like, 0))

# ---- 2. EAM writers: module level functions ---------------------------------
GRIDS = [(8, 2.5, 12, 0.5), (5, 1.0, 5, 0.25), (4, 0.5, 3, 1.0), (1, 1.0, 1, 1.0), (0, 1.0, 0, 1.0), (9, 0.3, 13, 0.4)]
for setname in sorted(eams):
  eampots, pairpots = eams[setname]
  for nrho, drho, nr, dr in GRIDS:
    label = "%s:%s:%s:%s:%s" % (setname, nrho, drho, nr, dr)
    run(d, "setfl:" + label, lambda: rec_call(ap.writeSetFL, nrho, drho, nr, dr, eampots, pairpots))
    run(d, "tabeam:" + label, lambda: rec_call(ap.writeTABEAM, nrho, drho, nr, dr, eampots, pairpots))
    if eampots:
      run(d, "funcfl:" + label, lambda: rec_call(ap.writeFuncFL, nrho, drho, nr, dr, eampots[:1], pairpots[:1]))
  run(d, "setfl_opts:" + setname, lambda: rec_call(ap.writeSetFL, 5, 1.0, 6, 0.5, eampots, pairpots, comments = ["one", "two"], cutoff = 2.75))
  run(d, "setfl_opts4:" + setname, lambda: rec_call(ap.writeSetFL, 5, 1.0, 6, 0.5, eampots, pairpots, comments = ("a", "b", "c", "d")))
  run(d, "tabeam_title:" + setname, lambda: rec_call(ap.writeTABEAM, 5, 1.0, 6, 0.5, eampots, pairpots, title = "A title " * 20))
  if eampots:
    run(d, "funcfl_title:" + setname, lambda: rec_call(ap.writeFuncFL, 5, 1.0, 6, 0.5, eampots[:1], pairpots[:1], title = "Funcfl title"))

for setname in sorted(eam_fs):
  eampots, pairpots = eam_fs[setname]
  for nrho, drho, nr, dr in GRIDS:
    label = "%s:%s:%s:%s:%s" % (setname, nrho, drho, nr, dr)
    run(d, "setfl_fs:" + label, lambda: rec_call(ap.writeSetFLFinnisSinclair, nrho, drho, nr, dr, eampots, pairpots))
    run(d, "tabeam_fs:" + label, lambda: rec_call(ap.writeTABEAMFinnisSinclair, nrho, drho, nr, dr, eampots, pairpots))
  run(d, "setfl_fs_opts:" + setname, lambda: rec_call(ap.writeSetFLFinnisSinclair, 5, 1.0, 6, 0.5, eampots, pairpots, comments = ["x"], cutoff = 9.0))
  run(d, "tabeam_fs_title:" + setname, lambda: rec_call(ap.writeTABEAMFinnisSinclair, 5, 1.0, 6, 0.5, eampots, pairpots, title = "T"))
# single-density model given to the FS writers and vice versa
run(d, "tabeam_fs:wrong_model", lambda: rec_call(ap.writeTABEAMFinnisSinclair, 5, 1.0, 6, 0.5, *eams["AlCu"]))
run(d, "setfl_fs:wrong_model", lambda: rec_call(ap.writeSetFLFinnisSinclair, 5, 1.0, 6, 0.5, *eams["AlCu"]))
run(d, "tabeam:wrong_model", lambda: rec_call(ap.writeTABEAM, 5, 1.0, 6, 0.5, *eam_fs["AlFe"]))
run(d, "setfl:wrong_model", lambda: rec_call(ap.writeSetFL, 5, 1.0, 6, 0.5, *eam_fs["AlFe"]))

# helper that the project's own tests call directly
for npoints in [0, 1, 3, 4, 5, 8, 9]:
  def tab():
    rec = Rec()
    tabeam._tabulateFunction(rec, lambda x: 0.5 * x - 1.0, npoints, 0.75)
    return rec.summary()
  run(d, "_tabulateFunction:%d" % npoints, tab)
run(d, "_tabulateFunction:str", lambda: tabeam._tabulateFunction(Rec(), lambda x: "a", 3, 1.0))
run(d, "_tabulateFunction:int", lambda: (lambda rec: (tabeam._tabulateFunction(rec, lambda x: 2, 6, 1.0), rec.summary())[1])(Rec()))

# ---- 3. evaluation order / failure atomicity for the EAM writers -------------
def logged_model(log, fail_name = None, fail_after = 0, fs = False):
  def mk(name, func):
    c = h.Counting(name, func, log)
    if name == fail_name:
      return FailAfter(c, fail_after)
    return c
  def dens(name):
    if fs:
      return {"Al": mk(name + ".dens.Al", lambda r: 1.0 / (1.0 + r)), "Cu": mk(name + ".dens.Cu", lambda r: 2.0 / (1.0 + r))}
    return mk(name + ".dens", lambda r: 1.0 / (1.0 + r))
  al = EAMPotential("Al", 13, 26.98, mk("Al.embed", lambda rho: -rho ** 0.5), dens("Al"), 4.05, "fcc")
  cu = EAMPotential("Cu", 29, 63.55, mk("Cu.embed", lambda rho: -0.5 * rho ** 0.5), dens("Cu"), 3.6, "fcc")
  pairpots = [Potential("Cu", "Al", mk("pair.CuAl", h.morse_like)), Potential("Al", "Al", mk("pair.AlAl", h.morse_like)), Potential("Cu", "Cu", mk("pair.CuCu", h.morse_like))]
  return [al, cu], pairpots

WRITERS = [("setfl", ap.writeSetFL, False), ("tabeam", ap.writeTABEAM, False), ("setfl_fs", ap.writeSetFLFinnisSinclair, True), ("tabeam_fs", ap.writeTABEAMFinnisSinclair, True)]
for wname, writer, fs in WRITERS:
  fail_names = [None, "Al.embed", "Cu.embed", "pair.CuAl", "pair.CuCu"] + (["Al.dens.Cu", "Cu.dens.Al"] if fs else ["Al.dens", "Cu.dens"])
  for fail_name in fail_names:
    for fail_after in [0, 2]:
      def ordered():
        log = []
        eampots, pairpots = logged_model(log, fail_name, fail_after, fs)
        rec = Rec()
        try:
          writer(4, 1.0, 5, 0.5, eampots, pairpots, out = rec)
        except Boom as e:
          return ("Boom", str(e), rec.summary(), log)
        return ("ok", rec.summary(), log)
      run(d, "order:%s:%s:%s" % (wname, fail_name, fail_after), ordered)

# ---- 4. tabulation classes incl. ADP ----------------------------------------
def adp_tab(eampots, pairpots, dip, quad, cutoff = 6.0, nr = 12, cutoff_rho = 20.0, nrho = 8):
  return et.ADP_EAMTabulation(pairpots, eampots, dip, quad, cutoff, nr, cutoff_rho, nrho)

for setname in ["Al", "AlCu", "CuAl_missing", "AlCuFe", "empty"]:
  eampots, pairpots = eams[setname]
  for cls in [et.SetFL_EAMTabulation, et.TABEAM_EAMTabulation]:
    run(d, "tab:%s:%s" % (cls.__name__, setname), lambda: (lambda rec: (cls(pairpots, eampots, 6.0, 12, 20.0, 8).write(rec), rec.summary())[1])(Rec()))
  for dname, dip, quad in [("none", [], []), ("both", pairpots[:1], pairpots[1:]), ("rev", list(reversed(pairpots)), pairpots)]:
    def adp():
      rec = Rec()
      adp_tab(eampots, pairpots, dip, quad).write(rec)
      return rec.summary()
    run(d, "adp:%s:%s" % (setname, dname), adp)
    def adp_small():
      sio = io.StringIO()
      adp_tab(eampots, pairpots, dip, quad, 2.0, 3, 1.0, 2).write(sio)
      return sio.getvalue()
    run(d, "adp_small:%s:%s" % (setname, dname), adp_small)
for setname in sorted(eam_fs):
  eampots, pairpots = eam_fs[setname]
  for cls in [et.SetFL_FS_EAMTabulation, et.TABEAM_FinnisSinclair_EAMTabulation]:
    run(d, "tab:%s:%s" % (cls.__name__, setname), lambda: (lambda rec: (cls(pairpots, eampots, 6.0, 12, 20.0, 8).write(rec), rec.summary())[1])(Rec()))

for fail_name in [None, "Al.embed", "Cu.dens", "pair.CuCu", "dip", "quad"]:
  for fail_after in [0, 3]:
    def adp_order():
      log = []
      eampots, pairpots = logged_model(log, fail_name, fail_after)
      dipf = h.Counting("dip", lambda r: 0.1 * r, log)
      quadf = h.Counting("quad", lambda r: 0.2 * r, log)
      if fail_name == "dip":
        dipf = FailAfter(dipf, fail_after)
      if fail_name == "quad":
        quadf = FailAfter(quadf, fail_after)
      rec = Rec()
      try:
        adp_tab(eampots, pairpots, [Potential("Al", "Cu", dipf)], [Potential("Cu", "Cu", quadf)], 2.0, 5, 3.0, 4).write(rec)
      except Boom as e:
        return ("Boom", str(e), rec.summary(), log)
      return ("ok", rec.summary(), log)
    run(d, "adp_order:%s:%s" % (fail_name, fail_after), adp_order)

class NoWrite(object):
  pass
for wname, writer, fs in WRITERS:
  model = eam_fs["AlFe"] if fs else eams["AlCu"]
  run(d, "sink:nowrite:" + wname, lambda: writer(4, 1.0, 5, 0.5, model[0], model[1], out = NoWrite()))
  run(d, "sink:bytes:" + wname, lambda: writer(4, 1.0, 5, 0.5, model[0], model[1], out = io.BytesIO()))
run(d, "sink:nowrite:adp", lambda: adp_tab(eams["AlCu"][0], eams["AlCu"][1], [], []).write(NoWrite()))

# ---- 5. action_tabulate directly and via the CLI -----------------------------
def direct_action(cfg_text, outname, binary = False):
  handler = h.ListHandler()
  logger = logging.getLogger("atsim.potentials.tools.potable._actions")
  logger.addHandler(handler)
  old_level = logger.level
  logger.setLevel(logging.INFO)
  out_path = os.path.join(scratch, outname)
  if os.path.isdir(os.path.dirname(out_path)):
    with open(out_path, "w") as stale:
      stale.write("STALE")
  try:
    try:
      res = _actions.action_tabulate(ConfigParser(io.StringIO(cfg_text)), out_path)
      status = ("returned", res)
    except BaseException as e:
      status = ("EXC", type(e).__name__, str(e).replace(scratch, "<SCRATCH>"))
  finally:
    logger.removeHandler(handler)
    logger.setLevel(old_level)
  data = read_back(outname)
  if binary and data[:2] == b"PK":
    data = h.xlsx_summary(data)
  return (status, data, [tuple(x.replace(scratch, "<SCRATCH>") for x in rec) for rec in handler.records])

run(d, "action:LAMMPS", lambda: direct_action(h.PAIR_CFG.format(target = "LAMMPS", cutoff = 5.0, nr = 6), "a1"))
run(d, "action:DLPOLY", lambda: direct_action(h.PAIR_CFG.format(target = "DLPOLY", cutoff = 5.0, nr = 8), "a2"))
run(d, "action:GULP", lambda: direct_action(h.PAIR_CFG.format(target = "GULP", cutoff = 5.0, nr = 6), "a3"))
run(d, "action:excel", lambda: direct_action(h.PAIR_CFG.format(target = "excel", cutoff = 5.0, nr = 6), "a4.xlsx", True))
run(d, "action:setfl", lambda: direct_action(h.EAM_CFG.format(target = "setfl", cutoff = 5.0, nr = 6, nrho = 5), "a5"))
run(d, "action:DL_POLY_EAM", lambda: direct_action(h.EAM_CFG.format(target = "DL_POLY_EAM", cutoff = 5.0, nr = 6, nrho = 5), "a6"))
run(d, "action:adp", lambda: direct_action(h.ADP_CFG.format(cutoff = 5.0, nr = 6, nrho = 5), "a7"))
run(d, "action:badtarget", lambda: direct_action(h.PAIR_CFG.format(target = "NOPE", cutoff = 5.0, nr = 6), "a8"))
run(d, "action:bad_nr", lambda: direct_action(h.PAIR_CFG.format(target = "DLPOLY", cutoff = 5.0, nr = 6), "a9"))
run(d, "action:fail", lambda: direct_action(h.FAIL_CFG.format(target = "setfl", nr = 12), "a10"))
run(d, "action:nodir", lambda: direct_action(h.PAIR_CFG.format(target = "GULP", cutoff = 5.0, nr = 6), os.path.join("a11", "x")))

for target, cfg in [("setfl", h.EAM_CFG), ("DL_POLY_EAM", h.EAM_CFG), ("setfl_fs", h.EAM_FS_CFG), ("DL_POLY_EAM_fs", h.EAM_FS_CFG)]:
  for nr, nrho in [(9, 7), (200, 150)]:
    h.run_potable(d, "cli:%s:%d" % (target, nr), cfg.format(target = target, cutoff = 6.5, nr = nr, nrho = nrho), preexisting = "old")
h.run_potable(d, "cli:adp", h.ADP_CFG.format(cutoff = 6.5, nr = 9, nrho = 7), preexisting = "old")
h.run_potable(d, "cli:adp:big", h.ADP_CFG.format(cutoff = 6.5, nr = 120, nrho = 90))
h.run_potable(d, "cli:adp:exclude", h.ADP_CFG.format(cutoff = 6.5, nr = 9, nrho = 7), extra_args = ["--exclude-species", "Cu"])
for target in ["LAMMPS", "DLPOLY", "GULP", "excel"]:
  h.run_potable(d, "cli:%s" % target, h.PAIR_CFG.format(target = target, cutoff = 6.5, nr = 12), outname = "o.dat", binary = (target == "excel"), preexisting = "old")
for target in ["setfl", "DL_POLY_EAM", "eam_adp", "LAMMPS", "excel_eam"]:
  h.run_potable(d, "cli_fail:%s" % target, h.FAIL_CFG.format(target = target, nr = 12), preexisting = "old content")
h.run_potable(d, "cli:unknown_target", h.PAIR_CFG.format(target = "NOPE", cutoff = 6.5, nr = 12), preexisting = "old content")

shutil.rmtree(scratch, ignore_errors = True)
print("records: %d" % d.n)
print("DIGEST C: %s" % d.hexdigest())

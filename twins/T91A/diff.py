"""Differential script for twin A (`_compat.py` gathering the import shims).

Run with:
  /venv/bin/python -W ignore /tmp/wtpy.py /tmp/wt_r9_1 _twins/diffA.py
Prints one line per probe and a final sha256 digest over all of them.
"""
import collections
import collections.abc
import hashlib
import inspect
import io
import logging

logging.disable(logging.CRITICAL)

import atsim.potentials
from atsim.potentials import (Potential, plus, pow, potentialforms,
                              potentialfunctions, product, writePotentials)
from atsim.potentials.config import (ConfigParser, ConfigParserOverrideTuple,
                                     Configuration, Modifier_Registry,
                                     Potential_Form_Registry)
from atsim.potentials.config import _common as cfg_common
from atsim.potentials.config import _tabulation_factories

RESULTS = []


def record(label, value):
  RESULTS.append("{} :: {}".format(label, value))


def sha(s):
  if isinstance(s, str):
    s = s.encode("utf-8")
  return hashlib.sha256(s).hexdigest()[:20]


def attempt(label, func):
  try:
    v = func()
  except Exception as e:  # noqa
    record(label, "EXC {} {}".format(type(e).__name__, sha(str(e))))
  else:
    record(label, v)


# ---------------------------------------------------------------------------
# potable models
# ---------------------------------------------------------------------------
TABLE_XY = """
[Table-Form:tabulated]
interpolation : cubic_spline
xy :  0.02 1939.29
      0.32 726.71
      0.92 98.35
      1.52 11.57
      2.12 0.648
      2.72 -0.296
      3.31 -0.189
      4.21 -0.052
      5.11 -0.0123
      6.5 0.0
"""

MODELS = collections.OrderedDict()
MODELS["basak_dlpoly"] = """
[Tabulation]
target :  DL_POLY
cutoff : 6.5
nr : 652

[Pair]
O-O = as.buck 1633.010242995040 0.327022 3.948787
U-U = as.buck 294.640906285709 0.327022 0.0
O-U = sum(as.buck 693.650933805978 0.327022 0.0,
      as.morse 1.65 2.369 0.577189831995)
"""
MODELS["basak_dlpoly_newname"] = MODELS["basak_dlpoly"].replace("DL_POLY", "DLPOLY")
MODELS["basak_lammps_table"] = """
[Tabulation]
target :  LAMMPS
cutoff : 6.5
nr : 131

[Pair]
U-U = as.buck 294.640906285709 0.327022 0.0
O-O = as.buck 1633.010242995040 0.327022 3.948787
O-U = tabulated
""" + TABLE_XY
MODELS["custom_forms"] = """
[Tabulation]
target :  LAMMPS
nr : 100
dr : 0.05

[Pair]
O-O : basak_buck 0.042203 3.82 0.327022 3.948787
U-U : basak_buck 0.042203 3.26 0.327022 0.0
O-U : basak_buckmorse 0.042203 3.54 0.327022 0.0 13.6765 1.65 2.369

[Potential-Form]
A_ij(f0, a,b) = f0*b*exp(a/b)
basak_buck(r,f0,a,b,c) = as.buck(r, A_ij(f0,a,b), b, c)
basak_morse(r, f0, d, gamma, r_star) = as.morse(r,gamma, r_star, f0*d)
basak_buckmorse(r,f0,a,b,c,d,gamma,r_star) = basak_buck(r,f0,a,b,c) + basak_morse(r, f0,d,gamma,r_star)
"""
MODELS["soft_gulp"] = """
[Tabulation]
target : GULP
cutoff : 4.0
dr : 0.05

[Pair]
Si-O : soft 10.0 1.6
O-O  : soft  5.0 2.4

[Potential-Form]
cos_form(r, A, rc) = A * (1+cos((pi*r)/rc))
soft(r, A, rc) = if(r>rc, 0, cos_form(r, A, rc))
"""
MODELS["exp_spline_gulp"] = """
[Tabulation]
target : GULP
cutoff : 5.0
dr : 0.05

[Pair]
Si-O : spline(
                    as.zbl 14 8
              >=0.8
                    exp_spline
              >=1.4
                    as.buck 18003.7572 0.205204 133.5381 )
"""
MODELS["buck4_spline_lammps"] = """
[Tabulation]
target : LAMMPS
cutoff : 6.0
dr : 0.05

[Pair]
O-U : as.bornmayer 566.498 0.42056
O-O : spline(
            as.bornmayer 11272.6 0.1363
             >1.2
               buck4_spline 2.1
             >2.6
               as.buck 0.0 1.0 134.0 )
"""
MODELS["multirange_modifiers"] = """
[Tabulation]
target : LAMMPS
cutoff : 4.0
nr : 41

[Pair]
A-B : as.zero >1.0 product(as.constant 2.0, as.lj 0.3 2.5) >=3.0 pow(as.polynomial 1.0 0.5, as.constant 2.0)
B-B : trans(as.coul 1.0 -2.0, as.constant 0.25)
A-A : as.hbnd 100.0 20.0 >2.0 as.exponential 3.0 -2.0
"""
MODELS["pymath"] = """
[Tabulation]
target : LAMMPS
cutoff : 3.0
nr : 31

[Pair]
A-A : pm 2.0

[Potential-Form]
pm(r, n) = pymath.factorial(pymath.floor(r)+1) + pymath.fabs(-r)*n + pymath.gcd(100,10)
"""
EAM_BODY = """
cutoff = 5.0
dr = 0.1
cutoff_rho = 50.0
drho = 0.1

[Species]
A.atomic_mass = 1
A.atomic_number = 1
B.atomic_mass = 2
B.atomic_number = 2

[EAM-Embed]
A = as.polynomial 0 1
B = as.sqrt -0.5

[EAM-Density]
A = as.polynomial 0 2
B = dens 3.0

[Pair]
A-A = as.buck 100.0 0.3 1.0
B-A = as.lj 0.1 2.0

[Potential-Form]
dens(r, C) = C*exp(-r)
"""
EAM_FS_BODY = """
cutoff = 5.0
dr = 0.1
cutoff_rho = 50.0
drho = 0.1

[Species]
A.atomic_mass = 1
A.atomic_number = 1
B.atomic_mass = 2
B.atomic_number = 2

[EAM-Embed]
A = as.zero
B = as.polynomial 0 1

[EAM-Density]
A->B = as.polynomial 0 3
B->A = as.polynomial 0 2
B->B = as.polynomial 0 5
A->A = as.exponential 2.0 -1

[Pair]
B-B = as.morse 1.5 2.0 0.3
"""
MODELS["eam_setfl"] = "[Tabulation]\ntarget : setfl" + EAM_BODY
MODELS["eam_tabeam"] = "[Tabulation]\ntarget : DL_POLY_EAM" + EAM_BODY
MODELS["eam_setfl_fs"] = "[Tabulation]\ntarget : setfl_fs" + EAM_FS_BODY
MODELS["eam_tabeam_fs"] = "[Tabulation]\ntarget : DL_POLY_EAM_fs" + EAM_FS_BODY
MODELS["sutton_ag"] = """
[Tabulation]
target : setfl
cutoff_rho : 6
drho : 0.05
cutoff : 6.0
dr : 0.05

[EAM-Embed]
Ag : product(as.constant 2.5415e-3, as.sqrt -144.41)

[EAM-Density]
Ag : as.exponential 4681.013008649 -6

[Pair]
Ag-Ag : product(as.constant 2.5415e-3, as.exponential 21911882.787 -12)
"""

# Malformed / erroneous inputs
MODELS["bad_target"] = MODELS["soft_gulp"].replace("GULP", "NOT_A_CODE")
MODELS["no_target"] = MODELS["soft_gulp"].replace("target : GULP\n", "")
MODELS["bad_form"] = MODELS["basak_dlpoly"].replace("as.morse", "as.nomorse")
MODELS["bad_modifier"] = MODELS["basak_dlpoly"].replace("sum(", "summ(")
MODELS["bad_argcount"] = MODELS["basak_dlpoly"].replace("0.327022 3.948787", "0.327022")
MODELS["bad_nr_dlpoly"] = MODELS["basak_dlpoly"].replace("nr : 652", "nr : 651")
MODELS["dup_form"] = MODELS["soft_gulp"] + "soft(r, B) = B*r\n"
MODELS["table_clash"] = MODELS["basak_lammps_table"].replace("tabulated", "as.buck")
MODELS["bad_expression"] = MODELS["soft_gulp"].replace("(1+cos((pi*r)/rc))", "(1+cos((pi*r)/rc)")
MODELS["no_pair"] = "[Tabulation]\ntarget : LAMMPS\ncutoff : 2.0\nnr : 5\n"
MODELS["empty"] = ""
MODELS["garbage"] = "this is not an ini file\n"
MODELS["eam_missing_density"] = MODELS["eam_setfl"].replace("B = dens 3.0\n", "")
MODELS["bad_pymath"] = MODELS["pymath"].replace("pymath.gcd(100,10)", "pymath.nosuch(1)")


def tabulate(ini, overrides=(), additional=()):
  cp = ConfigParser(io.StringIO(ini), overrides=list(overrides), additional=list(additional))
  tabulation = Configuration().read_from_parser(cp)
  out = io.StringIO()
  tabulation.write(out)
  pots = [(p.speciesA, p.speciesB) for p in tabulation.potentials]
  return "{} {} {} {} {}".format(type(tabulation).__name__, tabulation.type, tabulation.target, pots, sha(out.getvalue()))


for name, ini in MODELS.items():
  attempt("model " + name, lambda: tabulate(ini))

OT = ConfigParserOverrideTuple
GRIDS = [
  [OT("Tabulation", "nr", "24")],
  [OT("Tabulation", "cutoff", "3.25"), OT("Tabulation", "nr", "48")],
  [OT("Tabulation", "target", "LAMMPS"), OT("Tabulation", "nr", "17")],
  [OT("Tabulation", "target", "GULP")],
  [OT("Tabulation", "target", "DL_POLY"), OT("Tabulation", "nr", "28")],
  [OT("Tabulation", "target", "nonsense")],
]
for i, overrides in enumerate(GRIDS):
  for name in ["basak_dlpoly", "basak_lammps_table", "multirange_modifiers"]:
    attempt("override {} {}".format(i, name), lambda: tabulate(MODELS[name], overrides))
attempt("additional", lambda: tabulate(MODELS["exp_spline_gulp"],
                                       [OT("Tabulation", "target", "LAMMPS"), OT("Tabulation", "cutoff", "6.5")],
                                       [OT("Pair", "O-O", "as.buck 444.7686 0.402 0.0")]))
for target in ["setfl", "DL_POLY_EAM", "setfl_fs", "LAMMPS"]:
  for body_name in ["eam_setfl", "eam_setfl_fs"]:
    attempt("eam override {} {}".format(target, body_name),
            lambda: tabulate(MODELS[body_name], [OT("Tabulation", "target", target), OT("Tabulation", "drho", "0.5")]))


# ---------------------------------------------------------------------------
# Registries
# ---------------------------------------------------------------------------
def registry_probe(ini, std, pymath):
  cp = ConfigParser(io.StringIO(ini))
  reg = Potential_Form_Registry(cp, std, pymath)
  labels = reg.registered
  items = []
  for label in labels:
    pf = reg[label]
    sig = pf.signature
    items.append((label, type(pf).__name__, sig.label, list(sig.parameter_names), sig.is_varargs))
  return "{} {}".format(len(labels), sha(repr(items)))


for name in ["custom_forms", "basak_lammps_table", "soft_gulp", "pymath", "dup_form", "table_clash", "no_pair"]:
  for std in (False, True):
    for pymath in (False, True):
      attempt("registry {} {} {}".format(name, std, pymath), lambda: registry_probe(MODELS[name], std, pymath))


def registry_call():
  cp = ConfigParser(io.StringIO(MODELS["custom_forms"]))
  reg = Potential_Form_Registry(cp, True, True)
  vals = []
  for label, args in [("as.buck", (1000.0, 0.3, 32.0)), ("as.polynomial", (1.0, 2.0, 3.0)), ("basak_buck", (0.042203, 3.82, 0.327022, 3.948787)),
                      ("as.buck4", (1000.0, 0.3, 32.0, 1.0, 1.5, 2.0)), ("as.zbl", (14, 8)), ("as.buck", (1.0,))]:
    try:
      f = reg[label](*args)
      vals.append((label, [f(r) for r in (0.5, 1.25, 2.0, 3.5)], hasattr(f, "deriv"), hasattr(f, "deriv2")))
    except Exception as e:  # noqa
      vals.append((label, type(e).__name__, str(e)))
  return repr(vals)


attempt("registry call", registry_call)
attempt("modifier registry", lambda: repr(sorted(Modifier_Registry()._modifiers.keys())))
attempt("modifier missing", lambda: Modifier_Registry()["nosuch"])
attempt("members potentialfunctions",
        lambda: repr([n for n, _o in inspect.getmembers(potentialfunctions, potentialforms._iscallable)]))
attempt("members potentialforms",
        lambda: repr([n for n, _o in inspect.getmembers(potentialforms, potentialforms._iscallable)]))


# ---------------------------------------------------------------------------
# make_potential_form_tuple_from_function / signatures
# ---------------------------------------------------------------------------
class _WithCall(object):
  def __call__(self, r, alpha, beta=3):
    return r


def _f0():
  return 0


def _f3(r, a, b):
  return r


def _fvar(*args):
  return 0


def _fmixed(r, *args):
  return 0


def _fkw(r, **kwargs):
  return 0


for label, f in [("f0", _f0), ("f3", _f3), ("fvar", _fvar), ("fmixed", _fmixed), ("fkw", _fkw), ("withcall", _WithCall()),
                 ("lambda", lambda q, w: q), ("buck", potentialfunctions.buck), ("zbl", potentialfunctions.zbl),
                 ("polynomial", potentialfunctions.polynomial), ("builtin_len", len), ("notcallable", 3)]:
  attempt("pft " + label, lambda: repr(cfg_common.make_potential_form_tuple_from_function("x." + label, f)))


# ---------------------------------------------------------------------------
# Python API
# ---------------------------------------------------------------------------
def api_tabulate(kind, pots, cutoff, n):
  out = io.StringIO()
  writePotentials(kind, pots, cutoff, n, out)
  return sha(out.getvalue())


POTS = [
  Potential("O", "O", potentialforms.buck(1633.0, 0.327, 3.95)),
  Potential("U", "O", plus(potentialforms.buck(693.6, 0.327, 0.0), potentialforms.morse(1.65, 2.369, 0.577))),
  Potential("U", "U", product(potentialforms.constant(2.0), potentialforms.lj(0.2, 2.2))),
  Potential("Xe", "B", pow(potentialforms.polynomial(1.0, 0.5), potentialforms.constant(2.0))),
  Potential("B", "O", potentialforms.buck4(11272.6, 0.1363, 134.0, 1.2, 2.1, 2.6)),
  Potential("N", "N", lambda r: 1.0/(r+0.5)),
]
for kind in ["LAMMPS", "DL_POLY", "GULP", "DLPOLY", "lammps", None]:
  for pots, cutoff, n in [(POTS, 6.5, 652), (list(reversed(POTS)), 4.0, 24), (POTS[1:3], 10.0, 100), ([], 3.0, 12), (POTS[:1], 5.0, 7), (POTS[5:], 3.0, 12)]:
    attempt("writePotentials {} {} {} {}".format(kind, len(pots), cutoff, n), lambda: api_tabulate(kind, pots, cutoff, n))

for p in POTS:
  attempt("potential {}-{}".format(p.speciesA, p.speciesB),
          lambda: repr([(p.energy(r), p.force(r)) for r in (0.7, 1.3, 2.2, 3.9)]))

for fname in sorted(n for n, _o in inspect.getmembers(potentialforms, potentialforms._iscallable)):
  factory = getattr(potentialforms, fname)
  for args in [(), (1.5,), (2.0, 0.5), (14, 8), (1000.0, 0.3, 30.0), (1.0, 2.0, 3.0, 4.0), (100.0, 0.3, 30.0, 1.0, 1.5, 2.0), (1.0, 2.0, 3.0, 4.0, 5.0, 6.0, 7.0, 0.4, 0.5, 0.6, 0.7, 3.0)]:
    def call():
      f = factory(*args)
      r = [f(x) for x in (0.9, 1.7, 3.1)]
      if hasattr(f, "deriv"):
        r.extend(f.deriv(x) for x in (0.9, 1.7, 3.1))
      if hasattr(f, "deriv2"):
        r.extend(f.deriv2(x) for x in (0.9, 1.7, 3.1))
      return sha(repr(r))
    attempt("form {} {}".format(fname, len(args)), call)


# ---------------------------------------------------------------------------
# What the import paths offer
# ---------------------------------------------------------------------------
record("identity Callable", potentialforms.Callable is collections.abc.Callable)
record("identity pkg Callable", atsim.potentials.Callable is collections.abc.Callable)
record("identity signature", cfg_common.signature is inspect.signature)
record("identity Parameter", cfg_common.Parameter is inspect.Parameter)
record("identity Mapping", _tabulation_factories.Mapping is collections.abc.Mapping)
record("identity collections", _tabulation_factories.collections is collections and cfg_common.collections is collections)
# New private sub-modules necessarily appear as attributes of the package: compare the public names only.
record("names atsim.potentials", sha(repr(sorted(n for n in dir(atsim.potentials) if not n.startswith("_")))))
record("names potentialforms", sha(repr(sorted(n for n in dir(potentialforms) if not n.startswith("__")))))
record("names config._common", sha(repr(sorted(n for n in dir(cfg_common) if not n.startswith("__")))))
record("names config._tabulation_factories", sha(repr(sorted(n for n in dir(_tabulation_factories) if not n.startswith("__")))))
record("factories", repr(list(_tabulation_factories.TABULATION_FACTORIES.keys())))

for line in RESULTS:
  print(line)
print("PROBES", len(RESULTS))
print("DIGEST", hashlib.sha256("\n".join(RESULTS).encode("utf-8")).hexdigest())

"""Differential script for twin A ([Tabulation] section / _TabulationCutoff).

Exercises ConfigParser.tabulation through the public API with a wide grid of
nr/dr/cutoff (and nrho/drho/cutoff_rho) combinations, including malformed ones,
and tabulates a few full models. Prints a sha256 digest of everything observed.
"""
import hashlib, io, itertools, glob, os, sys

from atsim.potentials.config import ConfigParser, Configuration

out = []
def rec(*a):
  out.append(repr(a))

def probe(text):
  try:
    cp = ConfigParser(io.StringIO(text))
    t = cp.tabulation
    t2 = cp.tabulation
    return ("ok", t.target, t.nr, t.cutoff, t.nrho, t.cutoff_rho, repr(t), t is t2,
            type(t.nr).__name__, type(t.cutoff).__name__,
            type(t._r_cutoff).__name__, type(t._density_cutoff).__name__,
            t._r_cutoff._fields, t._density_cutoff._fields)
  except Exception as e:
    return ("exc", type(e).__name__, type(e).__mro__[1].__name__, str(e))

nr_vals = [None, "0", "1", "2", "-3", "11", "1001", "abc", "2.5", " 7 ", ""]
dr_vals = [None, "0", "0.0", "-0.1", "0.1", "0.01", "1e-3", "0.3", "x", "nan", "inf", "1"]
cut_vals = [None, "0", "-1.0", "0.7", "10", "10.0", "6.5", "1e2", "zz", "nan", "inf", "0.05"]

for nr, dr, cut in itertools.product(nr_vals, dr_vals, cut_vals):
  lines = ["[Tabulation]", "target : LAMMPS"]
  if nr is not None: lines.append("nr : " + nr)
  if dr is not None: lines.append("dr : " + dr)
  if cut is not None: lines.append("cutoff : " + cut)
  rec("r", nr, dr, cut, probe("\n".join(lines) + "\n"))

rho_n = [None, "0", "1", "2", "50", "q"]
rho_d = [None, "0", "-1", "0.1", "0.25", "bad"]
rho_c = [None, "0", "-2", "0.7", "100.0", "bad"]
for nr, dr, cut in itertools.product(rho_n, rho_d, rho_c):
  lines = ["[Tabulation]", "target : setfl", "nr : 10", "dr : 0.1"]
  if nr is not None: lines.append("nrho : " + nr)
  if dr is not None: lines.append("drho : " + dr)
  if cut is not None: lines.append("cutoff_rho : " + cut)
  rec("rho", nr, dr, cut, probe("\n".join(lines) + "\n"))

# Targets, synonyms, missing section, variables, odd spacing of keys
for tgt in ["LAMMPS", "DLPOLY", "DL_POLY", "lammps_eam_alloy", "LAMMPS_eam_alloy", "setfl",
            "setfl_fs", "GULP", "nonsense", "", None]:
  lines = ["[Tabulation]"]
  if tgt is not None: lines.append("target : " + tgt)
  lines += ["nr : 5", "cutoff : 2.0"]
  rec("target", tgt, probe("\n".join(lines) + "\n"))

extras = [
  "",
  "[Pair]\nA-B : as.buck 1 2 3\n",
  "[Tabulation]\n",
  "[Variables]\nN : 20\nD : 0.05\n[Tabulation]\nnr : ${N}\ndr : ${D}\n",
  "[Variables]\nN : 20\n[Tabulation]\nnr : ${M}\ndr : 0.1\n",
  "[Variables]\nnr : 20\ndr : 0.1\n[Tabulation]\ntarget : GULP\n",
  "[Tabulation]\nn r : 12\nd r : 0.5\n",
  "[Tabulation]\nnr : 12\nnr : 13\n",
  "[Tabulation]\nNR : 12\ndr : 0.5\n",
  "[Tabulation]\ncutoff : 0.7\ndr : 0.1\n",
  "[Tabulation]\ncutoff : 0.30000000000000004\ndr : 0.1\n",
  "[Tabulation]\ncutoff : 1.0\ndr : 3.0\n",
  "[Tabulation]\ncutoff : 1e-9\ndr : 1.0\n",
]
for e in extras:
  rec("extra", e, probe(e))

# Full tabulations through Configuration (tabulation section feeds the writers)
MODEL = """[Tabulation]
target : {target}
{grid}

[Pair]
O-O : as.buck 1633.0 0.327022 3.948
U-O : as.buck 1761.775 0.356421 0.0
U-U : as.buck 294.640 0.327022 0.0
"""
grids = ["nr : 50\ndr : 0.2", "cutoff : 6.5\ndr : 0.5", "cutoff : 6.5\nnr : 27", "dr : 0.3\ncutoff : 0.9",
         "nr : 1\ncutoff : 3", "dr : 0.1", "nr : 10", "cutoff : 4.0"]
for target in ["LAMMPS", "DL_POLY", "GULP"]:
  for g in grids:
    try:
      tab = Configuration().read(io.StringIO(MODEL.format(target=target, grid=g)))
      s = io.StringIO()
      tab.write(s)
      rec("tab", target, g, hashlib.sha256(s.getvalue().encode()).hexdigest(), tab.nr, tab.cutoff)
    except Exception as exc:
      rec("tab", target, g, "exc", type(exc).__name__, str(exc))

files = sorted(glob.glob("docs/user_guide/example_files/*.aspot") + glob.glob("tests/*/*.aspot")
               + glob.glob("tests/config/config_resources/*.aspot") + glob.glob("docs/quick_start/*.aspot"))
for f in files:
  with open(f) as fp:
    rec("file", f, probe(fp.read()))
for f in ["docs/user_guide/example_files/standard_eam.aspot", "docs/user_guide/example_files/finnis_sinclair_eam.aspot",
          "tests/config/config_resources/setfl.aspot"]:
  try:
    with open(f) as fp:
      tab = Configuration().read(fp)
    s = io.StringIO()
    tab.write(s)
    rec("eamtab", f, hashlib.sha256(s.getvalue().encode()).hexdigest())
  except Exception as exc:
    rec("eamtab", f, "exc", type(exc).__name__, str(exc))

n_exc = sum(1 for o in out if "'exc'" in o)
print("records", len(out), "with-exceptions", n_exc)
print("digest", hashlib.sha256("\n".join(out).encode()).hexdigest())

"""Differential script for twin C: _tablereaders (DatReader / TableReaderBase),
TableReader and the plot helpers of atsim.potentials."""
import hashlib, io, os, sys, tempfile, shutil, math, glob, random

WT = os.getcwd()
import atsim.potentials as P
from atsim.potentials import _tablereaders as T

h = hashlib.sha256()
lines = []
def rec(*a):
  s = " | ".join(str(x) for x in a)
  lines.append(s)
  h.update(s.encode("utf8") + b"\n")

TMPD = []
def attempt(tag, f, *args, **kw):
  try:
    r = f(*args, **kw)
    rec(tag, "ok", repr(r))
    return r
  except Exception as e:
    rec(tag, "exc", type(e).__name__, str(e).replace(TMPD[0] if TMPD else "\0", "<TMPD>"))

TABLES = {
 "sorted" : "0.0 1.0\n1.0 3.0\n2.0 2.0\n4.0 -1.5\n",
 "unsorted" : "4.0 -1.5\n0.0 1.0\n2.0 2.0\n1.0 3.0\n",
 "comments" : "# header\n\n   \n  0.5   10.0  extra columns 7\n#1.0 2.0\n\t1.5\t20.0\n2.5 5e-1\n",
 "duplicates" : "1.0 5.0\n1.0 2.0\n3.0 1.0\n0.0 0.0\n",
 "single" : "2.0 7.0\n",
 "empty" : "",
 "only-comments" : "# a\n# b\n",
 "negative" : "-3.0 9\n-1.0 1\n1 1\n3 9e0\n",
 "one-column" : "1.0 2.0\n3.0\n",
 "not-float" : "1.0 2.0\nabc 3.0\n",
 "not-float-y" : "1.0 2.0\n2.0 x\n3.0\n",
 "inf-nan" : "0 1\n1 inf\n2 3\n",
 "tiny-steps" : "".join("%r %r\n" % (0.1*i, math.sin(0.1*i)) for i in range(50)),
 "crlf" : "0.0 1.0\r\n1.0 2.0\r\n",
 "leading-hash-space" : " # indented comment\n0 1\n1 2\n",
}

XS = [-10.0, -3.0, -1.0000001, -1.0, 0.0, 1e-12, 0.25, 0.5, 0.75, 1.0, 1.2500000001, 1.5, 2.0, 2.25, 2.5, 3.0, 3.999999, 4.0, 4.000001, 4.9, 5.0, 100.0, float("inf"), float("-inf"), float("nan"), 1, 2]

CONVERTERS = [
  ("none", None, None),
  ("in", lambda x: x*2.0, None),
  ("out", None, lambda y: y/3.0),
  ("both", lambda x: x+0.1, lambda y: -y),
  ("raises", lambda x: 1.0/(x-1.0), None),
  ("decreasing", lambda x: -x, None),
]

for name in sorted(TABLES):
  for cname, ic, oc in CONVERTERS:
    tag = "Dat:%s:%s" % (name, cname)
    try:
      kw = {}
      if cname != "none":
        kw = dict(inputConvert = ic, outputConvert = oc)
      rdr = T.DatReader(io.StringIO(TABLES[name]), **kw)
    except Exception as e:
      rec(tag, "ctor-exc", type(e).__name__, str(e))
      continue
    rec(tag, "contents", repr(list(rdr)), len(rdr.xproxy), repr([rdr.xproxy[i] for i in range(len(rdr))]))
    for x in XS:
      attempt(tag+":getValue(%r)" % (x,), rdr.getValue, x)
      attempt(tag+":_findIndex(%r)" % (x,), rdr._findIndex, x)
    attempt(tag+":getValue('a')", rdr.getValue, "a")
    attempt(tag+":getValue(None)", rdr.getValue, None)
  # positional converters
  attempt("Dat:%s:positional" % name, lambda: list(T.DatReader(io.StringIO(TABLES[name]), lambda x: x*10)))
  # Public callable
  try:
    tr = P.TableReader(io.StringIO(TABLES[name]))
  except Exception as e:
    rec("TableReader:"+name, "ctor-exc", type(e).__name__, str(e))
    continue
  rec("TableReader:"+name, type(tr.datReader).__name__, tr.datReader is tr.datReader, repr(list(tr.datReader)))
  for x in XS:
    attempt("TableReader:%s(%r)" % (name, x), tr, x)

attempt("Base:abstract", T.TableReaderBase, io.StringIO("1 2\n"))
attempt("Dat:None-file", T.DatReader, None)
attempt("Dat:list-of-lines", lambda: list(T.DatReader(["3 4", "1 2 # c", "", "#"])))

# Real table files from the test-suite
rnd = random.Random(1234)
for f in sorted(glob.glob(os.path.join(WT, "tests", "*_resources", "*.table"))):
  with open(f) as infile:
    tr = P.TableReader(infile)
  dr = tr.datReader
  lo, hi = dr[0][0], dr[-1][0]
  vals = [tr(lo + (hi-lo)*rnd.random()*1.2 - 0.1*(hi-lo)) for i in range(200)]
  vals += [tr(x) for x, y in dr[:50]]
  rec("file", os.path.basename(f), len(dr), hashlib.sha256(repr(vals).encode()).hexdigest())

# ---- plot helpers
class Pot(object):
  def __init__(self, f): self.f = f; self.calls = []
  def energy(self, r):
    self.calls.append(r)
    return self.f(r)

class NoEnergy(object):
  pass

class Recorder(object):
  """File like object that records each write() call"""
  def __init__(self): self.writes = []
  def write(self, s): self.writes.append(s)

FUNCS = [
  ("buck", P.buck(1000.0, 0.3, 30.0)),
  ("sin", math.sin),
  ("const", lambda r: 1),
  ("str", lambda r: "v%r" % r),
  ("inv", lambda r: 1.0/r),
  ("tbl", P.TableReader(io.StringIO(TABLES["sorted"]))),
  ("sum", P.plus(P.buck(1000.0, 0.3, 30.0), P.coul(1.0, -2.0))),
]
RANGES = [(0.1, 10.0, 7), (0.0, 1.0, 10), (1.0, 15.0, 1000), (0.3, 0.1, 5), (-2.0, 2.0, 4), (1, 10, 3), (0.1, 0.7, 3),
          (1.0, 2.0, 1), (1.0, 2.0, 0), (1.0, 2.0, -3), (1.0, 1.0, 4), (1e-3, 1e3, 33), (0.1, 12.3456789, 977)]

tmpd = tempfile.mkdtemp()
TMPD.append(tmpd)
try:
  for fname, func in FUNCS:
    for (lo, hi, steps) in RANGES:
      tag = "plot:%s:%r:%r:%r" % (fname, lo, hi, steps)
      r = Recorder()
      try:
        res = P.plotToFile(r, lo, hi, func, steps)
        rec(tag, "plotToFile", repr(res), len(r.writes), hashlib.sha256("\x00".join(r.writes).encode()).hexdigest())
      except Exception as e:
        rec(tag, "plotToFile-exc", type(e).__name__, str(e), len(r.writes), hashlib.sha256("\x00".join(r.writes).encode()).hexdigest())
      path = os.path.join(tmpd, "plot.dat")
      if os.path.exists(path): os.remove(path)
      try:
        res = P.plot(path, lo, hi, func, steps)
        rec(tag, "plot", repr(res), hashlib.sha256(open(path, "rb").read()).hexdigest())
      except Exception as e:
        rec(tag, "plot-exc", type(e).__name__, str(e), os.path.exists(path) and hashlib.sha256(open(path, "rb").read()).hexdigest())
      pot = Pot(func)
      r = Recorder()
      try:
        res = P.plotPotentialObjectToFile(r, lo, hi, pot, steps)
        rec(tag, "ppoToFile", repr(res), len(r.writes), hashlib.sha256(repr((r.writes, pot.calls)).encode()).hexdigest())
      except Exception as e:
        rec(tag, "ppoToFile-exc", type(e).__name__, str(e), hashlib.sha256(repr((r.writes, pot.calls)).encode()).hexdigest())
      if os.path.exists(path): os.remove(path)
      pot = Pot(func)
      try:
        res = P.plotPotentialObject(path, lo, hi, pot, steps)
        rec(tag, "ppo", repr(res), hashlib.sha256(open(path, "rb").read()).hexdigest(), hashlib.sha256(repr(pot.calls).encode()).hexdigest())
      except Exception as e:
        rec(tag, "ppo-exc", type(e).__name__, str(e), os.path.exists(path) and hashlib.sha256(open(path, "rb").read()).hexdigest())
      # Real Potential object
      try:
        pobj = P.Potential("A", "B", func)
        out = io.StringIO()
        P.plotPotentialObjectToFile(out, lo, hi, pobj, steps)
        rec(tag, "Potential", hashlib.sha256(out.getvalue().encode()).hexdigest())
      except Exception as e:
        rec(tag, "Potential-exc", type(e).__name__, str(e))

  # default number of steps
  out = io.StringIO()
  P.plotToFile(out, 0.5, 9.5, P.buck(1000.0, 0.3, 30.0))
  rec("default-steps", out.getvalue().count("\n"), hashlib.sha256(out.getvalue().encode()).hexdigest())
  path = os.path.join(tmpd, "d.dat")
  P.plotPotentialObject(path, 0.5, 9.5, Pot(math.cos))
  rec("default-steps-ppo", hashlib.sha256(open(path, "rb").read()).hexdigest())

  # error ordering: object without energy(), zero steps, bad path, non-integer steps
  for steps in (0, 3):
    p = os.path.join(tmpd, "noenergy%d.dat" % steps)
    attempt("noenergy:tofile:%d" % steps, P.plotPotentialObjectToFile, Recorder(), 1.0, 2.0, NoEnergy(), steps)
    attempt("noenergy:file:%d" % steps, P.plotPotentialObject, p, 1.0, 2.0, NoEnergy(), steps)
    rec("noenergy:file-created", steps, os.path.exists(p), os.path.exists(p) and os.path.getsize(p))
  badpath = os.path.join(tmpd, "missing-dir", "x.dat")
  attempt("badpath:plot", P.plot, badpath, 1.0, 2.0, math.sin, 0)
  attempt("badpath:ppo", P.plotPotentialObject, badpath, 1.0, 2.0, NoEnergy(), 0)
  attempt("float-steps", P.plotToFile, Recorder(), 1.0, 2.0, math.sin, 4.0)
  attempt("str-steps", P.plotToFile, Recorder(), 1.0, 2.0, math.sin, "4")
  attempt("none-file", P.plotToFile, None, 1.0, 2.0, math.sin, 2)
  attempt("str-range", P.plotToFile, Recorder(), "a", 2.0, math.sin, 2)
  r = Recorder()
  def failing(v):
    if v > 1.5: raise RuntimeError("stop at %r" % v)
    return v
  attempt("failing-func", P.plotToFile, r, 1.0, 2.0, failing, 10)
  rec("failing-func-writes", repr(r.writes))
  p = os.path.join(tmpd, "partial.dat")
  attempt("failing-func-file", P.plot, p, 1.0, 2.0, failing, 10)
  rec("failing-func-file-content", repr(open(p).read()))
  # keyword arguments (public signatures)
  out = io.StringIO()
  P.plotToFile(fileobj = out, lowx = 0.1, highx = 0.9, func = math.exp, steps = 3)
  rec("kw:plotToFile", repr(out.getvalue()))
  out = io.StringIO()
  P.plotPotentialObjectToFile(fileobj = out, lowx = 0.1, highx = 0.9, potentialObject = Pot(math.exp), steps = 3)
  rec("kw:ppoToFile", repr(out.getvalue()))
  p = os.path.join(tmpd, "kw.dat")
  P.plot(filename = p, lowx = 0.1, highx = 0.9, func = math.exp, steps = 3)
  rec("kw:plot", repr(open(p).read()))
  P.plotPotentialObject(filename = p, lowx = 0.2, highx = 0.9, potentialObject = Pot(math.exp), steps = 3)
  rec("kw:ppo", repr(open(p).read()))
finally:
  shutil.rmtree(tmpd)

if "-v" in sys.argv:
  print("\n".join(lines))
print("records:", len(lines))
print("DIGEST", h.hexdigest())

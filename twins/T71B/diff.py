"""Edit B: `gnuplot` pair tabulation target (Gnuplot_PairTabulation).

Run on the clean tree:   prints the existing-behaviour digest only (feature absent).
Run on the edited tree:  same digest + demonstration of the new target.

  /venv/bin/python -W ignore /tmp/wtpy.py /tmp/wt_r7_1 _twins/diffB.py
"""
import os
import re
import sys
sys.path.insert(0, os.path.dirname(os.path.abspath(__file__)))

from _common_digest import existing_behaviour_digest

TARGET = "gnuplot"
CLS_NAME = "Gnuplot_PairTabulation"

def parse(text):
  """gnuplot file -> [(speciesA, speciesB, r[], energy[], force[])] with structural checks.
  Data-sets are split the way gnuplot does it: on two consecutive blank lines."""
  assert text.endswith(u"\n") and not text.endswith(u"\n\n")
  lines = text.split(u"\n")
  m = re.match(r"^# cutoff (\S+) nr (\d+)$", lines[0])
  assert m, lines[0]
  cutoff, nr = float(m.group(1)), int(m.group(2))
  body = u"\n".join(lines[1:])
  out = []
  if not body.strip():
    return out
  for idx, block in enumerate(body.split(u"\n\n\n")):
    blines = [l for l in block.split(u"\n") if l != u""]
    m = re.match(r"^# index (\d+) : (.*)$", blines[0])
    assert m and int(m.group(1)) == idx, blines[0]
    a, b = m.group(2).split(u"-")
    assert blines[1] == u"# r energy force"
    rows = [[float(x) for x in l.split()] for l in blines[2:]]
    assert all(len(r) == 3 for r in rows)
    assert len(rows) == nr, (len(rows), nr)
    assert rows[0][0] == 0.0 and abs(rows[-1][0] - cutoff) <= 1e-11 * cutoff
    # no stray blank lines inside a data-set (they would split it for gnuplot)
    assert u"\n\n" not in block.strip(u"\n")
    out.append((a, b, [r[0] for r in rows], [r[1] for r in rows], [r[2] for r in rows]))
  return out

if __name__ == "__main__":
  digest, n = existing_behaviour_digest()
  print("EXISTING-BEHAVIOUR DIGEST %s (%d items)" % (digest, n))
  from atsim.potentials import pair_tabulation
  if not hasattr(pair_tabulation, CLS_NAME):
    print("feature not present in this tree")
    sys.exit(0)
  from _feature_checks import run_feature_checks, build, text_of
  # values are printed with 12 decimals in exponent format: agree to the printed precision
  failures = run_feature_checks(TARGET, CLS_NAME, parse, 1e-12, True)
  tab = build(TARGET, 5, 2.0)
  order = [(p.speciesA, p.speciesB) for p in tab.potentials]
  print("data-set order follows [Pair] section:", order)
  assert order == [("O", "O"), ("U", "O"), ("U", "U"), ("Gd", "O"), ("Gd", "U"), ("Gd", "Gd")]
  print(text_of(build(TARGET, 3, 1.0, model=u"[Pair]\nA-B : as.lj 1.0 2.0\nC-D : as.constant 2.0\n")))
  sys.exit(1 if failures else 0)

"""diffA.py - checks for edit A (spline classes remember the LU factorisation of their coefficient matrix per set of radii).

Run against a tree with:
  /venv/bin/python -W ignore /tmp/wtpy.py <tree> /tmp/wt_r10_2/_twins/diffA.py          # digest (a) + feature checks (b)
  /venv/bin/python -W ignore /tmp/wtpy.py <tree> /tmp/wt_r10_2/_twins/diffA.py --digest # digest (a) only

Part (a) prints 'EXISTING-BEHAVIOUR DIGEST <sha256>' which must be the same for the clean and the edited tree.
Part (b) prints PASS/FAIL lines for the properties relevant to the edit and finishes with 'FEATURE CHECKS: all passed'.
"""
# ---------------------------------------------------------------------------------------------
# Part (a): broad sample of EXISTING behaviour through the public API -> deterministic digest.
# (identical text in diffA.py, diffB.py and diffC.py)
# ---------------------------------------------------------------------------------------------
import glob
import hashlib
import io
import math
import os
import re
import subprocess
import sys
import logging
logging.disable(logging.CRITICAL)

import atsim.potentials as ap
from atsim.potentials import potentialforms as pf
from atsim.potentials import potentialfunctions as pfn
from atsim.potentials.config import Configuration, ConfigParser
from atsim.potentials.config._common import ConfigurationException

WT = os.getcwd()  # wtpy.py changes into the worktree before running the script

PAIR_CFG = u"""[Tabulation]
target : {target}
cutoff : 8.0
nr : {nr}

[Pair]
O-O = as.buck 1633.0 0.327 3.949
U-O = as.buck4 1761.775 0.35642 12.3 1.2 2.1 2.6
U-U = as.bornmayer 294.64 0.327022 >= 3.0 as.zero
Si-O = spline(>0 as.zbl 14 8 >=0.8 exp_spline >=1.4 as.buck 18003.7572 0.205204 133.5381)
Mg-O = spline(as.buck 1000.0 0.3 0.0 >1.0 buck4_spline 2.0 >3.0 as.buck 0 1 32.0)
Al-O = sum(as.bornmayer 1000.0 0.3, as.polynomial 0.1 -0.2 0 0.003, >2.0 as.constant 0.5)
Ga-O = product(as.morse 1.5 2.0 0.2, pow(as.coul 1 1, as.constant 2))
Fe-Fe = trans(as.lj 0.1 2.5, as.constant 0.2)
Ti-O = mypoly 1.5 -0.25
In-O = tf
Ca-O = as.tang_toennies 980.0 1.9 100.0 300.0 900.0
Na-O = as.hbnd 300.0 50.0 >2.5 as.exponential 0.5 1.5
K-O = as.sqrt 2.5 >1 as.polynomial 1.0 >2 as.polynomial 0 0 0 0 0 0 0 0 1e-3
Li-O = sum(as.buck4 900.0 0.3 20.0 1.0 1.75 2.5, as.buck4 900.0 0.3 20.0 1.0 1.5 2.5, as.buck4 500.0 0.3 20.0 1.0 1.75 2.5)
Cs-O = as.exp_spline 1.0 -0.5 0.1 -0.01 0.001 -0.0001 0.3

[Potential-Form]
mypoly(r, a, b) = as.polynomial(r, a, 0, b) + if(r>2, a*exp(-r), b/(r+1)) + pymath.floor(r) + other(r, a)
other(r, q) = q * as.buck(r+0.1, 10.0, 0.2, 1.0)

[Table-Form:tf]
interpolation : cubic_spline
x : 0 1 2 3 4 5
y : 5 3 1 0.5 0.2 0
"""

EAM_CFG = u"""[Tabulation]
target : {target}
cutoff : 6.0
nr : 60
cutoff_rho : 50.0
nrho : 50

[Pair]
Al-Al = as.morse 1.2 2.8 0.3
Al-Fe = as.buck4 800.0 0.3 15.0 1.1 1.9 2.7
Fe-Fe = sum(as.polynomial 0.5 -0.1 0.004, as.bornmayer 500.0 0.25)

[EAM-Embed]
Al = as.sqrt -1.5
Fe = as.polynomial 0 -0.3 0.001

[EAM-Density]
{density}
"""
EAM_DENS = u"Al = as.exponential 2.0 -1.5 >0.5 as.bornmayer 3.0 0.9\nFe = as.polynomial 1.0 -0.2 0.01\n"
EAM_DENS_FS = u"Al->Al = as.bornmayer 3.0 0.9\nAl->Fe = as.polynomial 1.0 -0.2 0.01\nFe->Al = as.bornmayer 2.0 0.8\nFe->Fe = as.polynomial 0.5 -0.05\n"

BAD_CFGS = [
  u"[Pair]\nA-B = as.buck 1.0 2.0\n",
  u"[Pair]\nA-B = as.nothing 1.0 2.0\n",
  u"[Pair]\nA-B = as.buck4 1.0 2.0 3.0 1.0 3.0\n",
  u"[Pair]\nA-B = spline(as.buck 1 2 3 >1 exp_spline 2 >3 as.zero)\n",
  u"[Pair]\nA-B = spline(as.buck 1 2 3 >1 buck4_spline 4 >3 as.zero)\n",
  u"[Pair]\nA-B = spline(as.buck 1 2 3 >1 buck4_spline >3 as.zero)\n",
  u"[Pair]\nA-B = spline(as.buck 1 2 3 >3 exp_spline >1 as.zero)\n",
  u"[Pair]\nA-B = as.polynomial\nA-B = as.zero\n",
  u"[Pair]\nA-B = as.zero 1\n",
  u"[Pair]\nA-B = f 1 2\n[Potential-Form]\nf(r, a) = a*r\n",
  u"[Pair]\nA-B = f 1\n[Potential-Form]\nf(r, a) = a*r +\n",
  u"[Pair]\nA-B = f 1\n[Potential-Form]\nf(r, a) = g(r, a, 1)\ng(r, a) = a\n",
  u"[Tabulation]\ntarget : nonsense\n[Pair]\nA-B = as.zero\n",
  u"[Tabulation]\ntarget : DL_POLY\nnr : 1001\n[Pair]\nA-B = as.zero\n",
  u"[Pair]\nA-B = tf 1\n[Table-Form:tf]\ninterpolation : cubic_spline\nx : 0 1 2 3\ny : 1 2 3 4\n",
  u"[Pair]\nA-B = sum(as.buck 1 2)\n",
]


def _tabulate(cfg_text):
  tab = Configuration().read(io.StringIO(cfg_text))
  out = io.StringIO()
  tab.write(out)
  return out.getvalue()


def _fmt(v):
  return "%.10g" % v


def existing_behaviour_lines(table_filter = None):
  """Return list of text lines describing existing behaviour. `table_filter` (text -> text) is applied to the
  tabulation files before they are hashed."""
  if table_filter is None:
    table_filter = lambda s: s
  lines = []
  rs = [0.3, 0.75, 1.0, 1.3, 2.0, 2.6, 3.7, 5.0, 9.25]

  # 1. potential functions / forms: value and derivatives through f(r, params) and factory(params)(r)
  params = dict(bornmayer=(1000.0, 0.3), buck=(1633.0, 0.327, 3.949), constant=(2.5,), coul=(2.0, -1.5),
    exp_spline=(1.0, -0.5, 0.1, -0.01, 0.001, -0.0001, 0.3), exponential=(0.5, 1.5), hbnd=(300.0, 50.0), lj=(0.1, 2.5),
    morse=(1.5, 2.0, 0.2), sqrt=(2.5,), tang_toennies=(980.0, 1.9, 100.0, 300.0, 900.0), zbl=(14, 8), zero=())
  for name in sorted(params):
    func = getattr(pfn, name)
    fact = getattr(pf, name)(*params[name])
    for r in rs:
      row = [name, _fmt(r), _fmt(func(r, *params[name])), _fmt(fact(r))]
      for dn in ("deriv", "deriv2"):
        if hasattr(func, dn):
          row.append(_fmt(getattr(func, dn)(r, *params[name])))
          row.append(_fmt(getattr(fact, dn)(r)))
      lines.append(" ".join(row))
  polys = [(), (2.0,), (0.0,), (1.0, -2.0), (0.5, 0.0, 0.25), (0.0, 0.0, 0.0, 1.0), (1, 2, 3),
    (3.0, -1.0, 0.0, 0.0, 0.5, 0.0, -0.01), (1.0, -1.0, 1.0, -1.0, 1.0, -1.0, 1.0, -1.0, 1.0), (0.0, 0.0), (-0.0, 0.0, -0.0)]
  for coefs in polys:
    for r in [0.0, 0, 2] + rs + [-1.5]:
      fact = pf.polynomial(*coefs)
      vals = [pfn.polynomial(r, *coefs), pfn.polynomial.deriv(r, *coefs), pfn.polynomial.deriv2(r, *coefs), fact(r), fact.deriv(r), fact.deriv2(r)]
      lines.append("polynomial %r %r %s %s" % (coefs, r, " ".join([_fmt(v) for v in vals]), " ".join([type(v).__name__ for v in vals])))

  # 2. python API: splines, buck4, combinators, multi-range
  bk = pf.buck4(1761.775, 0.35642, 12.3, 1.2, 2.1, 2.6)
  sp = ap.SplinePotential(pf.zbl(14, 8), pf.buck(18003.7572, 0.205204, 133.5381), 0.8, 1.4)
  from atsim.potentials.spline import Buck4_SplinePotential
  b4i = Buck4_SplinePotential(pf.bornmayer(1000.0, 0.3), pf.buck(0.0, 1.0, 32.0), 1, 3, 2)
  comb = ap.plus(ap.product(pf.morse(1.5, 2.0, 0.2), pf.polynomial(1.0, 0.0, -0.01)), ap.pow(pf.coul(1, 1), pf.constant(2)))
  mr = ap.create_Multi_Range_Potential_Form(ap.Multi_Range_Defn(">", 0.0, pf.polynomial(1.0, 2.0)), ap.Multi_Range_Defn(">=", 2.0, pf.lj(0.1, 2.5)))
  for label, f in [("buck4", bk), ("expspline", sp), ("buck4int", b4i), ("comb", comb), ("multirange", mr)]:
    for r in rs:
      lines.append("%s %s %s %s %s" % (label, _fmt(r), _fmt(f(r)), _fmt(f.deriv(r)), _fmt(f.deriv2(r))))
  for label, f in [("buck4", bk), ("expspline", sp), ("buck4int", b4i)]:
    lines.append("%s coefficients %s" % (label, " ".join(["%.6g" % c for c in f.splineCoefficients])))

  # 3. potable models to every pair target
  for target, nr in [("LAMMPS", 161), ("DL_POLY", 164), ("GULP", 161)]:
    text = _tabulate(PAIR_CFG.format(target = target, nr = nr))
    lines.append("pair %s %d %s" % (target, len(text.splitlines()), hashlib.sha256(table_filter(text).encode()).hexdigest()))
  for target, dens in [("setfl", EAM_DENS), ("DL_POLY_EAM", EAM_DENS), ("setfl_fs", EAM_DENS_FS), ("DL_POLY_EAM_fs", EAM_DENS_FS)]:
    text = _tabulate(EAM_CFG.format(target = target, density = dens))
    lines.append("eam %s %d %s" % (target, len(text.splitlines()), hashlib.sha256(table_filter(text).encode()).hexdigest()))
  for fname in sorted(glob.glob(os.path.join(WT, "docs", "user_guide", "example_files", "*.aspot")) + glob.glob(os.path.join(WT, "tests", "config", "config_resources", "*.aspot"))):
    with io.open(fname, encoding = "utf8") as infile:
      text = infile.read()
    text = re.sub(r"(?m)^nr\s*[:=].*$", "nr : 101", text)
    try:
      out = _tabulate(text)
      lines.append("file %s %d %s" % (os.path.basename(fname), len(out.splitlines()), hashlib.sha256(table_filter(out).encode()).hexdigest()))
    except Exception as e:
      lines.append("file %s raised %s" % (os.path.basename(fname), type(e).__name__))

  # 4. python tabulation API (writePotentials)
  pots = [ap.Potential("A", "B", bk), ap.Potential("B", "B", comb), ap.Potential("A", "A", pf.polynomial(1.0, -0.5, 0.0, 0.01))]
  for fmt, nr in [("LAMMPS", 41), ("DL_POLY", 44)]:
    out = io.StringIO()
    ap.writePotentials(fmt, pots, 6.0, nr, out = out)
    lines.append("writePotentials %s %s" % (fmt, hashlib.sha256(table_filter(out.getvalue()).encode()).hexdigest()))

  # 5. errors
  for cfg in BAD_CFGS:
    try:
      _tabulate(cfg)
      lines.append("bad %r -> no error" % cfg)
    except Exception as e:
      lines.append("bad %r -> %s %s %s" % (cfg, type(e).__name__, isinstance(e, ConfigurationException), str(e)))
  for call in ["pf.buck4(1000.0, 0.3, 32.0, 2.0, 2.0, 2.0)", "ap.SplinePotential(pf.zero(), pf.zero(), 1.0, 1.0)", "pfn.buck(1.0)", "pf.buck(1.0)(2.0)"]:
    try:
      eval(call)
      lines.append("call %s -> no error" % call)
    except Exception as e:
      lines.append("call %s -> %s %s" % (call, type(e).__name__, e))
  return lines


def digest(lines):
  return hashlib.sha256("\n".join(lines).encode()).hexdigest()

# ---------------------------------------------------------------------------------------------
# Part (b): the remembered factorisations are transparent
# ---------------------------------------------------------------------------------------------
from atsim.potentials.spline import Buck4_SplinePotential, SplinePotential, Exp_Spline, Buck4_Spline, Spline_Point
import atsim.potentials.spline as spline_module

FAILED = []

def check(label, ok, detail = ""):
  print("%s %s %s" % ("PASS" if ok else "FAIL", label, detail))
  if not ok:
    FAILED.append(label)

# (kind, parameters) - several share detach and attach but differ in r_min, several share all radii but differ in potentials.
SPECS = [
  ("b4", 1761.775, 0.35642, 12.3, 1.2, 2.1, 2.6),
  ("b4", 1761.775, 0.35642, 12.3, 1.2, 1.9, 2.6),   # only r_min differs
  ("b4", 1761.775, 0.35642, 12.3, 1.2, 2.1000000000000005, 2.6),   # r_min differs in the last place
  ("b4",  900.0, 0.3, 20.0, 1.2, 2.1, 2.6),         # only potentials differ
  ("b4",  900.0, 0.3, 20.0, 1.2, 2.1, 2.7),         # only attach differs
  ("b4",  900.0, 0.3, 20.0, 1.1, 2.1, 2.6),         # only detach differs
  ("b4",  900.0, 0.3, 20.0, 1.2, 2.6, 2.1 + 1.0),   # r_min equal to other spline's attach
  ("ex", 14, 8, 18003.7572, 0.205204, 133.5381, 0.8, 1.4),
  ("ex", 14, 8, 18003.7572, 0.205204, 133.5381, 0.8, 1.5),
  ("ex", 92, 8, 1000.0, 0.3, 10.0, 0.8, 1.4),
  ("ex", 14, 8, 18003.7572, 0.205204, 133.5381, 1.2, 2.6), # same radii as a buck4 spline
]

def build(spec):
  if spec[0] == "b4":
    return pf.buck4(*spec[1:])
  z1, z2, A, rho, C, rd, ra = spec[1:]
  return SplinePotential(pf.zbl(z1, z2), pf.buck(A, rho, C), rd, ra)

def fingerprint(pot):
  rs = [0.5 + 0.0371*i for i in range(80)]
  vals = list(pot.splineCoefficients) + [pot(r) for r in rs] + [pot.deriv(r) for r in rs] + [pot.deriv2(r) for r in rs]
  return hashlib.sha256(" ".join([float(v).hex() for v in vals]).encode()).hexdigest()

def child(indices):
  # Builds the SPECS named in `indices` in that order, prints the exact fingerprint of each
  for i in indices:
    print("%d %s" % (i, fingerprint(build(SPECS[i]))))

def run_child(indices, seed = "0"):
  env = dict(os.environ)
  env["PYTHONHASHSEED"] = seed
  out = subprocess.check_output([sys.executable, "-W", "ignore", "/tmp/wtpy.py", WT, os.path.abspath(__file__), "--child"] + [str(i) for i in indices], env = env)
  return dict([l.split() for l in out.decode().splitlines()])

def feature_checks():
  n = len(SPECS)
  # Reference: every spec built on its own in a fresh process
  fresh = {}
  for i in range(n):
    fresh.update(run_child([i]))

  # b1. C12 - in-process, any order, repeated, interleaved == fresh process (bit for bit)
  import random
  rnd = random.Random(20)
  ok = True
  for trial in range(6):
    order = list(range(n)) * 2
    rnd.shuffle(order)
    for i in order:
      ok = ok and fingerprint(build(SPECS[i])) == fresh[str(i)]
  check("b1 C12 objects built in any order / repeatedly in one process equal fresh-process objects bit for bit", ok)

  # b2. C12 - after the store has been filled and emptied several times
  for k in range(700):
    Buck4_SplinePotential(pf.bornmayer(1000.0, 0.3), pf.buck(0.0, 1.0, 32.0), 1.0 + k*1e-3, 3.0, 2.0 + k*1e-4)
  ok = all([fingerprint(build(SPECS[i])) == fresh[str(i)] for i in range(n)])
  size = len(getattr(spline_module, "_factorised_matrices", {}))
  check("b2 C12 same after 700 other splines were built (store is bounded: %d entries)" % size, ok and size <= 256)

  # b3. C12 - other processes: different build orders and hash seeds
  ok = True
  for seed, order in [("0", list(range(n))), ("1", list(reversed(range(n)))), ("4242", [3, 0, 1, 0, 2, 7, 10, 8, 9, 4, 6, 5, 1])]:
    ok = ok and all([fresh[k] == v for (k, v) in run_child(order, seed).items()])
  check("b3 C12 same in fresh processes with other build orders and PYTHONHASHSEED values", ok)

  # b4. the key holds r_min: same detach/attach but other r_min gives another spline, each with its stationary point at its own r_min
  a, b, c = build(SPECS[0]), build(SPECS[1]), build(SPECS[2])
  ok = a.splineCoefficients != b.splineCoefficients and a.splineCoefficients != c.splineCoefficients
  ok = ok and abs(a.deriv(2.1)) < 1e-8 and abs(b.deriv(1.9)) < 1e-8 and abs(b.deriv(2.1)) > 1e-3
  check("b4 C10 splines sharing detach and attach but not r_min are distinct; dU/dr(r_min) = 0 for each", ok, "%g %g %g" % (a.deriv(2.1), b.deriv(1.9), b.deriv(2.1)))

  # b5. C10 - value, slope and curvature continuous at detach, r_min, attach for every spec (built when its matrix is already known)
  worst = 0.0
  for spec in SPECS:
    pot = build(spec)
    pot = build(spec)
    start, end = pot.startPotential, pot.endPotential
    rd, ra = pot.detachmentX, pot.attachmentX
    inter = pot.interpolationFunction
    for r, ref in [(rd, start), (ra, end)]:
      for got, want in [(inter(r), ref(r)), (inter.deriv(r), ref.deriv(r)), (inter.deriv2(r), ref.deriv2(r))]:
        worst = max(worst, abs(got - want)/max(1.0, abs(want)))
    if spec[0] == "b4":
      rm = inter.r_min
      for got, want in [(inter.spline5(rm), inter.spline3(rm)), (inter.spline5.deriv(rm), 0.0), (inter.spline3.deriv(rm), 0.0), (inter.spline5.deriv2(rm), inter.spline3.deriv2(rm))]:
        worst = max(worst, abs(got - want)/max(1.0, abs(want)))
    for r in [rd - 0.3, rd, ra, ra + 0.4]:
      ref = start if r <= rd else end
      worst = max(worst, abs(pot(r) - ref(r)), abs(pot.deriv(r) - ref.deriv(r)))
  check("b5 C10 end potentials kept and C2 continuity at detach, r_min, attach", worst < 1e-7, "worst mismatch %.3g" % worst)

  # b6. C07 - derivatives offered by the splined potentials are the derivatives of their energies
  worst = 0.0
  for spec in SPECS:
    pot = build(spec)
    rd, ra = pot.detachmentX, pot.attachmentX
    for k in range(1, 12):
      r = rd - 0.2 + (ra - rd + 0.4) * k / 12.0
      if min(abs(r - x) for x in [rd, ra] + ([pot.interpolationFunction.r_min] if spec[0] == "b4" else [])) < 1e-3:
        continue
      h = 1e-5
      fd1 = (pot(r+h) - pot(r-h))/(2*h)
      fd2 = (pot.deriv(r+h) - pot.deriv(r-h))/(2*h)
      worst = max(worst, abs(fd1 - pot.deriv(r))/max(1.0, abs(fd1)), abs(fd2 - pot.deriv2(r))/max(1.0, abs(fd2)))
  check("b6 C07 deriv and deriv2 agree with central differences", worst < 1e-6, "worst relative mismatch %.3g" % worst)

  # b7. coefficients are those of a direct solve of the full system (computed here independently with numpy)
  import numpy as np
  worst = 0.0
  for spec in SPECS:
    pot = build(spec)
    inter = pot.interpolationFunction
    rd, ra = pot.detachmentX, pot.attachmentX
    if spec[0] == "b4":
      rm = inter.r_min
      rows = []
      p5 = lambda r, d: [0.0]*d + [math.factorial(i)/math.factorial(i-d) * r**(i-d) for i in range(d, 6)]
      p3 = lambda r, d: [0.0]*d + [math.factorial(i)/math.factorial(i-d) * r**(i-d) for i in range(d, 4)]
      z4, z6 = [0.0]*4, [0.0]*6
      rows = [p5(rd,0)+z4, p5(rd,1)+z4, p5(rd,2)+z4, p5(rm,1)+z4, p5(rm,0)+[-x for x in p3(rm,0)], p5(rm,1)+[-x for x in p3(rm,1)], p5(rm,2)+[-x for x in p3(rm,2)], z6+p3(ra,0), z6+p3(ra,1), z6+p3(ra,2)]
      s, e = pot.startPotential, pot.endPotential
      rhs = [s(rd), s.deriv(rd), s.deriv2(rd), 0, 0, 0, 0, e(ra), e.deriv(ra), e.deriv2(ra)]
      want = np.linalg.solve(np.array(rows), np.array(rhs))
      got = np.array(pot.splineCoefficients)
      worst = max(worst, float(np.max(np.abs(got - want)/np.maximum(1.0, np.abs(want)))))
  check("b7 C10 buck4 coefficients equal an independent direct solve of the 10x10 system", worst < 1e-7, "worst relative difference %.3g" % worst)

  # b8. radii that are not python floats take the previous path and give the same function to rounding error
  fi = Buck4_SplinePotential(pf.bornmayer(1000.0, 0.3), pf.buck(0.0, 1.0, 32.0), 1, 3, 2)
  ff = Buck4_SplinePotential(pf.bornmayer(1000.0, 0.3), pf.buck(0.0, 1.0, 32.0), 1.0, 3.0, 2.0)
  worst = max([abs(fi(r) - ff(r)) for r in [1.0 + 0.1*i for i in range(21)]])
  check("b8 integer radii and float radii give the same function", worst < 1e-9, "%.3g" % worst)

  # b9. errors unchanged: singular systems still raise numpy's LinAlgError, and nothing is remembered for them
  before = len(getattr(spline_module, "_factorised_matrices", {}))
  names = []
  for f in [lambda: pf.buck4(1000.0, 0.3, 32.0, 2.0, 2.0, 2.0), lambda: SplinePotential(pf.zero(), pf.zero(), 1.5, 1.5), lambda: pf.buck4(1000.0, 0.3, 32.0, 2.0, 2.0, 2.0)]:
    try:
      f()
      names.append("none")
    except Exception as e:
      names.append("%s:%s" % (type(e).__name__, e))
  check("b9 singular systems raise LinAlgError (first and second time)", names == ["LinAlgError:Singular matrix"]*3 and len(getattr(spline_module, "_factorised_matrices", {})) == before, str(names))

  # b10. C16 / potable: spline errors are still configuration errors and a valid model tabulates to the same bytes twice and in a child process
  t1 = _tabulate(PAIR_CFG.format(target = "LAMMPS", nr = 161))
  t2 = _tabulate(PAIR_CFG.format(target = "LAMMPS", nr = 161))
  check("b10 C12 tabulating the pair model twice gives identical bytes", t1 == t2)

  if FAILED:
    print("FEATURE CHECKS: FAILED %s" % FAILED)
    sys.exit(1)
  print("FEATURE CHECKS: all passed")


if __name__ == "__main__":
  if "--child" in sys.argv:
    child([int(a) for a in sys.argv[sys.argv.index("--child")+1:]])
  else:
    print("EXISTING-BEHAVIOUR DIGEST %s" % digest(existing_behaviour_lines()))
    if not "--digest" in sys.argv:
      feature_checks()

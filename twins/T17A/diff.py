"""Edit A: new analytic pair-potential form `yukawa` (as.yukawa A kappa).

Run with:  /venv/bin/python -W ignore /tmp/wtpy.py /tmp/twin_17 _twins/diffA.py
Part (a) prints a digest of EXISTING behaviour (identical on clean and edited tree).
Part (b) exercises the new form (skipped with a message on a clean tree).
"""
import hashlib, io, logging, math, os, subprocess, sys
logging.disable(logging.CRITICAL)
sys.path.insert(0, os.path.join(os.getcwd(), "_twins"))
from _common_digest import existing_behaviour_digest, ConfigurationException

from atsim.potentials import potentialfunctions as pf, potentialforms as pforms
from atsim.potentials.config import Configuration
from atsim.potentials._util import num_deriv

NAME = "yukawa"

def reference(r, A, kappa):
  return A*math.exp(-kappa*r)/r

def central(f, r, h=1e-5):
  return (f(r+h) - f(r-h))/(2.0*h)

def close(a, b, rel=1e-6, abs_=1e-9):
  return abs(a-b) <= max(abs_, rel*max(abs(a), abs(b)))

CFG = """[Tabulation]
target : %s
cutoff : 6.0
nr : %d

[Pair]
Na-Cl : as.yukawa 14.4 0.8
Na-Na : sum(as.yukawa -3.0 0.25, as.bornmayer 500.0 0.3)
Cl-Cl : myyuk 14.4 1.25

[Potential-Form]
myyuk(r, A, lam) = as.yukawa(r, A, 1/lam)
"""

def tabulate(target, nr):
  tab = Configuration().read(io.StringIO(CFG % (target, nr)))
  sio = io.StringIO()
  tab.write(sio)
  return tab, sio.getvalue()

def new_feature():
  func = getattr(pf, NAME)
  fact = getattr(pforms, NAME)
  params = [(14.4, 0.8), (-3.0, 0.25), (2.0, 0.0), (0.0, 1.3), (5.5, -0.1), (1.0, 3)]
  rs = [0.3, 0.7, 1.0, 1.9, 3.3, 7.5, 12.0]
  n = 0
  for args in params:
    inst = fact(*args)
    for r in rs:
      # C06: documented formula, identical through function and factory routes
      assert close(func(r, *args), reference(r, *args), 1e-14, 0.0)
      assert func(r, *args) == inst(r)
      assert func.deriv(r, *args) == inst.deriv(r)
      assert func.deriv2(r, *args) == inst.deriv2(r)
      # C07: analytic derivatives against central differences
      assert close(func.deriv(r, *args), central(lambda x: func(x, *args), r)), (args, r)
      assert close(func.deriv2(r, *args), central(lambda x: func.deriv(x, *args), r)), (args, r)
      n += 1
  print("new: %d (params, r) points: value == formula, deriv/deriv2 == finite differences" % n)
  # kappa = 0 reduces to A/r, and to as.coul with A = 1/(4 pi eps0)
  k = 1.0/(4.0*math.pi*0.0055264)
  assert close(func(2.0, k*2*-1, 0.0), pf.coul(2.0, 2, -1), 1e-13)

  # potable routes: as.NAME params ; as.NAME(r, params) inside a formula ; inside a modifier
  tab, lammps = tabulate("LAMMPS", 13)
  pots = dict(((p.speciesA, p.speciesB), p) for p in tab.potentials)
  for r in [0.5, 1.5, 4.0]:
    assert close(pots[("Na", "Cl")].energy(r), reference(r, 14.4, 0.8), 1e-13)
    assert close(pots[("Cl", "Cl")].energy(r), reference(r, 14.4, 0.8), 1e-13)
    assert close(pots[("Na", "Na")].energy(r), reference(r, -3.0, 0.25) + pf.bornmayer(r, 500.0, 0.3), 1e-13)
    # C01: force is minus the derivative of the same function
    assert close(pots[("Na", "Cl")].force(r), -func.deriv(r, 14.4, 0.8), 1e-12)
    assert close(pots[("Na", "Na")].force(r), -(func.deriv(r, -3.0, 0.25) + pf.bornmayer.deriv(r, 500.0, 0.3)), 1e-12)
  # C01: read the LAMMPS table back
  block = lammps.split("Na-Cl")[1].split("\n\n")[1].strip().splitlines()
  assert len(block) == 12
  for line in block:
    i, r, e, f = line.split()
    r = float(r)
    assert close(float(e), reference(r, 14.4, 0.8), 1e-6, 1e-7) and close(float(f), -func.deriv(r, 14.4, 0.8), 1e-6, 1e-7)
  print("new: potable routes (as.%s A kappa / as.%s(r,..) in formula / inside sum()) agree; LAMMPS table read back OK" % (NAME, NAME))
  for target, nr in [("LAMMPS", 13), ("DL_POLY", 16), ("GULP", 13)]:
    _t, s1 = tabulate(target, nr)
    _t, s2 = tabulate(target, nr)
    assert s1 == s2
    print("new: %-8s sha256 %s" % (target, hashlib.sha256(s1.encode()).hexdigest()))

  # C16: wrong parameter counts / non numeric -> configuration errors
  for bad in ["as.yukawa 1.0", "as.yukawa 1.0 2.0 3.0", "as.yukawa A 2.0", "sum(as.yukawa 1.0, as.zero)"]:
    cfg = "[Tabulation]\ntarget : LAMMPS\nnr : 5\n\n[Pair]\nA-B : %s\n" % bad
    try:
      Configuration().read(io.StringIO(cfg)).write(io.StringIO())
      raise AssertionError("accepted: " + bad)
    except ConfigurationException as e:
      print("new: '%s' -> %s" % (bad, type(e).__name__))
  cfg = "[Tabulation]\ntarget : LAMMPS\nnr : 5\n\n[Pair]\nA-B : f 1\n\n[Potential-Form]\nf(r, a) = as.yukawa(r, a)\n"
  try:
    Configuration().read(io.StringIO(cfg)).write(io.StringIO())
    raise AssertionError("accepted")
  except ConfigurationException as e:
    print("new: as.yukawa(r, a) in formula -> %s" % type(e).__name__)
  # C20: a table form may not take the built-in's name
  cfg = "[Tabulation]\ntarget : LAMMPS\nnr : 5\n\n[Pair]\nA-B : as.yukawa 1 1\n\n[Table-Form:as.yukawa]\nxy : 0 1 1 2 2 3 3 4 4 5\n"
  try:
    Configuration().read(io.StringIO(cfg)).write(io.StringIO())
    raise AssertionError("accepted")
  except ConfigurationException as e:
    print("new: [Table-Form:as.yukawa] -> %s" % type(e).__name__)
  # C17: failed evaluation (r = 0 in a format that tabulates r = 0) leaves nothing behind
  cfg = "[Tabulation]\ntarget : GULP\nnr : 5\ncutoff : 2.0\n\n[Pair]\nA-B : >=0 as.yukawa 1 1\n"
  sio = io.StringIO()
  try:
    Configuration().read(io.StringIO(cfg)).write(sio)
    print("new: r=0 evaluation did not fail")
  except Exception as e:
    print("new: r=0 in GULP table -> %s, bytes written: %d" % (type(e).__name__, len(sio.getvalue())))
    assert sio.getvalue() == ""


def main():
  digest, n = existing_behaviour_digest(new_names=[NAME])
  print("EXISTING-BEHAVIOUR DIGEST %s (%d records)" % (digest, n))
  if not hasattr(pf, NAME):
    print("new: form '%s' absent (clean tree)" % NAME)
    return
  new_feature()
  if "--child" not in sys.argv:
    outs = set()
    for seed in ["0", "1", "4242"]:
      env = dict(os.environ, PYTHONHASHSEED=seed)
      o = subprocess.check_output([sys.executable, "-W", "ignore", "/tmp/wtpy.py", os.getcwd(), "_twins/diffA.py", "--child"], env=env)
      outs.add(hashlib.sha256(o).hexdigest())
    assert len(outs) == 1, outs
    print("new: output of this script identical for PYTHONHASHSEED=0,1,4242 (sha256 %s)" % outs.pop()[:16])

main()

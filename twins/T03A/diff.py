"""Differential script for twin A (_dlpoly_writeTABEAM.py helpers).

Exercises writeTABEAM / writeTABEAMFinnisSinclair (and the unit-tested
_tabulateFunction helper) on varied inputs and prints a sha256 digest of
everything observable: the exact sequence of write() calls on `out`,
the sequence of arguments at which user callables were invoked, and
exception type + message for malformed inputs.
"""
import hashlib
import io
import math

from atsim.potentials import EAMPotential, Potential
from atsim.potentials import writeTABEAM, writeTABEAMFinnisSinclair
from atsim.potentials import _dlpoly_writeTABEAM

LOG = []


def log(*args):
  LOG.append(repr(args))


class Recorder(object):
  """File like object that remembers each individual write call"""

  def __init__(self):
    self.calls = []

  def write(self, s):
    self.calls.append(s)
    return len(s)


class Traced(object):
  """Callable that records the arguments with which it is called"""

  def __init__(self, name, func, trace):
    self.name = name
    self.func = func
    self.trace = trace

  def __call__(self, x):
    self.trace.append((self.name, repr(x)))
    return self.func(x)


def run(label, func, *args, **kwargs):
  trace = kwargs.pop("trace", None)
  rec = Recorder()
  try:
    retval = func(*args, out=rec, **kwargs)
    log(label, "OK", repr(retval), rec.calls)
  except BaseException as e:
    log(label, "EXC", type(e).__name__, str(e), rec.calls)
  if trace is not None:
    log(label, "TRACE", trace)


def make_eam(species_list, trace, fs=False):
  pots = []
  for n, s in enumerate(species_list):
    embed = Traced("embed_%s" % (s,), lambda rho, n=n: -math.sqrt(rho) * (n + 1.5), trace)
    if fs:
      dens = dict(
        (t, Traced("dens_%s_%s" % (s, t), lambda r, n=n, m=m: math.exp(-r * (1 + 0.1 * n)) * (m + 1) / 3.0, trace))
        for m, t in enumerate(species_list))
    else:
      dens = Traced("dens_%s" % (s,), lambda r, n=n: (n + 1) * math.exp(-0.7 * r), trace)
    pots.append(EAMPotential(s, 10 + n, 20.5 + n, embed, dens))
  return pots


def make_pairs(pair_list, trace):
  pots = []
  for n, (a, b) in enumerate(pair_list):
    f = Traced("pair_%s_%s_%d" % (a, b, n), lambda r, n=n: (n + 1) * 1000.0 * math.exp(-r / 0.3) - 1.0 / (r + 0.5) ** 6, trace)
    pots.append(Potential(a, b, f))
  return pots


def well_formed():
  grids = [
    (5, 0.5, 5, 0.25),
    (1, 1.0, 1, 1.0),
    (4, 0.1, 8, 0.01),
    (9, 0.37, 3, 1e-3),
    (13, 2, 7, 1),       # integer step sizes
    (2, 1e6, 6, 123.456),
  ]
  systems = [
    (["Ag"], [("Ag", "Ag")]),
    (["Cu", "Al"], [("Al", "Cu"), ("Cu", "Cu")]),                 # missing Al-Al -> null potential
    (["Zr", "Al", "Cu"], [("Cu", "Al"), ("Zr", "Zr"), ("Al", "Zr"), ("Al", "Cu")]),  # duplicate Al-Cu, later wins
    (["B", "A"], [("A", "Xx"), ("Xx", "Xx")]),                    # pairs that are not part of the EAM species
    (["Fe", "Fe"], [("Fe", "Fe")]),                               # repeated species
    ([], []),
    (["U"], []),
  ]
  for gi, (nrho, drho, nr, dr) in enumerate(grids):
    for si, (species, pairs) in enumerate(systems):
      for fs in (False, True):
        trace = []
        eampots = make_eam(species, trace, fs)
        pairpots = make_pairs(pairs, trace)
        func = writeTABEAMFinnisSinclair if fs else writeTABEAM
        label = "wf/%d/%d/%s" % (gi, si, fs)
        run(label, func, nrho, drho, nr, dr, eampots, pairpots, trace=trace)
        run(label + "/title", func, nrho, drho, nr, dr, eampots, pairpots, title="A title %d" % gi, trace=trace)
  # Title handling
  trace = []
  eampots = make_eam(["Ni"], trace)
  for title in ["", "x" * 99, "x" * 100, "x" * 101, "y" * 250, "with\nnewline", u"ångström", 12, None]:
    run("title/%r" % (title,), writeTABEAM, 3, 0.1, 3, 0.1, eampots, [], title=title)


def malformed():
  def boom_at(limit, exc):
    def f(x):
      if x > limit:
        raise exc("boom %r" % (x,))
      return x
    return f

  cases = []

  # Callables that raise part way through, at different places in the file
  for where in ("pair", "embed", "dens"):
    for exc in (ValueError, ZeroDivisionError, KeyError):
      trace = []
      embed = Traced("embed", boom_at(0.5, exc) if where == "embed" else (lambda rho: rho), trace)
      dens = Traced("dens", boom_at(0.5, exc) if where == "dens" else (lambda r: r), trace)
      pair = Traced("pair", boom_at(0.5, exc) if where == "pair" else (lambda r: r), trace)
      densfs = {"Q": dens, "R": dens}
      cases.append(("raise/%s/%s" % (where, exc.__name__), writeTABEAM,
                    (6, 0.2, 6, 0.2,
                     [EAMPotential("Q", 1, 1.0, embed, dens), EAMPotential("R", 1, 1.0, embed, dens)],
                     [Potential("Q", "R", pair)]), trace))
      cases.append(("raise_fs/%s/%s" % (where, exc.__name__), writeTABEAMFinnisSinclair,
                    (6, 0.2, 6, 0.2,
                     [EAMPotential("Q", 1, 1.0, embed, densfs), EAMPotential("R", 1, 1.0, embed, densfs)],
                     [Potential("Q", "R", pair)]), trace))

  # Callables returning things that can't be formatted with %f
  for bad in ("string", None, 1 + 2j, [1.0]):
    trace = []
    good = Traced("good", lambda x: x, trace)
    badf = Traced("bad", lambda x, bad=bad: bad if x > 0 else 0.0, trace)
    cases.append(("badret/pair/%r" % (bad,), writeTABEAM, (5, 0.2, 5, 0.2, [EAMPotential("Q", 1, 1.0, good, good)], [Potential("Q", "Q", badf)]), trace))
    cases.append(("badret/embed/%r" % (bad,), writeTABEAM, (5, 0.2, 5, 0.2, [EAMPotential("Q", 1, 1.0, badf, good)], [Potential("Q", "Q", good)]), trace))
    cases.append(("badret/dens/%r" % (bad,), writeTABEAM, (5, 0.2, 5, 0.2, [EAMPotential("Q", 1, 1.0, good, badf)], [Potential("Q", "Q", good)]), trace))

  # Values which %f renders as nan/inf and numeric-like returns
  trace = []
  weird = Traced("weird", lambda x: [float("nan"), float("inf"), -float("inf"), True, 10 ** 30, -0.0][int(round(x)) % 6], trace)
  cases.append(("weird", writeTABEAM, (7, 1.0, 7, 1.0, [EAMPotential("Q", 1, 1.0, weird, weird)], [Potential("Q", "Q", weird)]), trace))

  # Bad grid arguments
  ident = lambda x: x
  one = [EAMPotential("Q", 1, 1.0, ident, ident)]
  onefs = [EAMPotential("Q", 1, 1.0, ident, {"Q": ident})]
  onepair = [Potential("Q", "Q", ident)]
  for nrho, drho, nr, dr in [
      (5.0, 0.1, 5, 0.1), (5, 0.1, 5.0, 0.1), ("5", 0.1, 5, 0.1), (5, 0.1, "5", 0.1),
      (5, "0.1", 5, 0.1), (5, 0.1, 5, "0.1"), (5, "a", 5, 0.1), (5, 0.1, 5, "a"),
      (5, None, 5, 0.1), (5, 0.1, 5, None), (None, 0.1, 5, 0.1), (5, 0.1, None, 0.1),
      (0, 0.1, 0, 0.1), (-3, 0.1, -2, 0.1), (True, 0.1, True, 0.1)]:
    cases.append(("grid/%r" % ((nrho, drho, nr, dr),), writeTABEAM, (nrho, drho, nr, dr, one, onepair), None))
    cases.append(("grid_fs/%r" % ((nrho, drho, nr, dr),), writeTABEAMFinnisSinclair, (nrho, drho, nr, dr, onefs, onepair), None))

  # Bad potential lists
  class NoSpecies(object):
    embeddingFunction = staticmethod(ident)
    electronDensityFunction = staticmethod(ident)

  class NoEmbed(object):
    species = "Q"
    electronDensityFunction = staticmethod(ident)

  class NoDens(object):
    species = "Q"
    embeddingFunction = staticmethod(ident)

  class HalfPair(object):
    speciesA = "Q"

  class NoEnergy(object):
    speciesA = "Q"
    speciesB = "Q"

  for name, eampots, pairpots in [
      ("nospecies", [NoSpecies()], onepair),
      ("noembed", [NoEmbed()], onepair),
      ("nodens", [NoDens()], onepair),
      ("halfpair", one, [HalfPair()]),
      ("noenergy", one, [NoEnergy()]),
      ("noenergy_nospecies", [NoSpecies()], [NoEnergy()]),
      ("halfpair_noembed", [NoEmbed()], [HalfPair()]),
      ("mixedspecies", [EAMPotential("Q", 1, 1.0, ident, ident), EAMPotential(3, 1, 1.0, ident, ident)], onepair),
      ("intspecies", [EAMPotential(4, 1, 1.0, ident, ident), EAMPotential(3, 1, 1.0, ident, ident)], [Potential(3, 4, ident)]),
      ("nonespecies", [EAMPotential(None, 1, 1.0, ident, ident)], []),
      ("emptyspecies", [EAMPotential("", 1, 1.0, ident, ident)], []),
      ("unhashable", [EAMPotential(["Q"], 1, 1.0, ident, ident)], []),
      ("mixedpair", one, [Potential("Q", 1, ident)]),
      ("eamnone", None, onepair),
      ("pairnone", one, None),
      ("eamgen", (p for p in one), onepair),
      ("pairgen", one, (p for p in onepair)),
      ("eamtuple", tuple(one), tuple(onepair)),
      ("notcallable", [EAMPotential("Q", 1, 1.0, 3.0, ident)], onepair),
      ("notcallable_pair", one, [Potential("Q", "Q", 3.0)]),
  ]:
    cases.append(("pots/" + name, writeTABEAM, (4, 0.5, 4, 0.5, eampots, pairpots), None))

  # Finnis-Sinclair density dictionary problems
  for name, eampots in [
      ("missing", [EAMPotential("Q", 1, 1.0, ident, {"Q": ident}), EAMPotential("R", 1, 1.0, ident, {"Q": ident, "R": ident})]),
      ("missing_first", [EAMPotential("Q", 1, 1.0, ident, {"R": ident}), EAMPotential("R", 1, 1.0, ident, {})]),
      ("notdict", [EAMPotential("Q", 1, 1.0, ident, ident)]),
      ("extra", [EAMPotential("Q", 1, 1.0, ident, {"Q": ident, "Zz": ident})]),
      ("mixedspecies", [EAMPotential("Q", 1, 1.0, ident, {"Q": ident}), EAMPotential(2, 1, 1.0, ident, {"Q": ident})]),
      ("nonespecies", [EAMPotential(None, 1, 1.0, ident, {None: ident})]),
      ("emptyspecies", [EAMPotential("", 1, 1.0, ident, {"": ident})]),
      ("nodens", [NoDens()]),
      ("nospecies", [NoSpecies()]),
  ]:
    cases.append(("fsdict/" + name, writeTABEAMFinnisSinclair, (4, 0.5, 4, 0.5, eampots, onepair), None))

  for label, func, args, trace in cases:
    run(label, func, *args, trace=trace)


def tabulate_helper():
  # _tabulateFunction is imported directly by the project's own unit tests
  for n in (0, 1, 2, 3, 4, 5, 7, 8, 9, 16, 17):
    for step in (1.0, 0.125, 3, 1e-7):
      rec = Recorder()
      trace = []
      try:
        rv = _dlpoly_writeTABEAM._tabulateFunction(rec, Traced("f", lambda x: x * x - 3.3, trace), n, step)
        log("tab", n, step, "OK", repr(rv), rec.calls, trace)
      except BaseException as e:
        log("tab", n, step, "EXC", type(e).__name__, str(e), rec.calls, trace)
  for n, step, f in [(5, 1.0, None), (5.5, 1.0, abs), ("5", 1.0, abs), (5, "x", abs), (5, None, abs), (3, 1.0, lambda x: "s"), (6, 1.0, lambda x: 1 / (4 - x))]:
    rec = Recorder()
    try:
      rv = _dlpoly_writeTABEAM._tabulateFunction(rec, f, n, step)
      log("tabbad", repr(n), repr(step), "OK", repr(rv), rec.calls)
    except BaseException as e:
      log("tabbad", repr(n), repr(step), "EXC", type(e).__name__, str(e), rec.calls)
  # A file object that fails
  class Broken(object):
    def write(self, s):
      raise IOError("broken " + repr(len(s)))
  try:
    _dlpoly_writeTABEAM._tabulateFunction(Broken(), abs, 5, 1.0)
  except BaseException as e:
    log("tabbroken", type(e).__name__, str(e))
  try:
    writeTABEAM(3, 1.0, 3, 1.0, [EAMPotential("Q", 1, 1.0, abs, abs)], [], out=Broken())
  except BaseException as e:
    log("writebroken", type(e).__name__, str(e))
  try:
    writeTABEAM(3, 1.0, 3, 1.0, [EAMPotential("Q", 1, 1.0, abs, abs)], [], out=None)
  except BaseException as e:
    log("writenone", type(e).__name__, str(e))


def main():
  well_formed()
  malformed()
  tabulate_helper()
  blob = "\n".join(LOG).encode("utf-8")
  print("records:", len(LOG))
  print("bytes:", len(blob))
  print("sha256:", hashlib.sha256(blob).hexdigest())


if __name__ == "__main__":
  main()

"""Differential script for twin B (atsim.potentials: writePotentials, plot*, TableReader).

Run with:
  /venv/bin/python -W ignore /tmp/wtpy.py /tmp/wt_r9_4 _twins/diffB.py

Only names that exist in the clean tree are used. One line is printed per case and a
final sha256 digest over all of them."""
import hashlib
import io
import math
import os
import pathlib
import shutil
import subprocess
import sys

import atsim.potentials
from atsim.potentials import Potential, potentialforms, plus, TableReader

WT = os.path.dirname(os.path.dirname(os.path.abspath(__file__)))
OUTDIR = os.path.join(WT, "_twins", "_outB")

digest = hashlib.sha256()

def record(label, *parts):
  h = hashlib.sha256()
  for p in parts:
    if isinstance(p, str):
      p = p.encode("utf-8")
    h.update(b"\x00" + p)
  line = "{} {}".format(h.hexdigest()[:16], label)
  print(line)
  if os.environ.get("DIFF_VERBOSE") and parts:
    print("      -> {!r}".format(parts[0][:100]))
  digest.update(line.encode("utf-8") + b"\n")

def outcome_of(_callee, *args, **kwargs):
  try:
    return "returned {!r}".format(_callee(*args, **kwargs))
  except BaseException as e:
    ctx = type(e.__context__).__name__ if e.__context__ is not None else "-"
    return "{}:{}:ctx={}".format(type(e).__name__, e, ctx)

class EventLog(object):
  """File like object which keeps an ordered log of writes, shared with function evaluations"""
  def __init__(self, failafter = None):
    self.events = []
    self.failafter = failafter
    self.nwrites = 0
  def write(self, s):
    self.nwrites += 1
    if self.failafter is not None and self.nwrites > self.failafter:
      self.events.append("write-fail")
      raise IOError("disk full")
    self.events.append("w:" + s)
  def func(self, inner, failat = None):
    def f(r):
      self.events.append("f:{!r}".format(r))
      if failat is not None and r >= failat:
        raise ValueError("cannot evaluate at {!r}".format(r))
      return inner(r)
    return f

class AnalyticBuck(object):
  def __init__(self, A, rho, C):
    self.A, self.rho, self.C = A, rho, C
  def __call__(self, r):
    return self.A * math.exp(-r/self.rho) - self.C/r**6
  def deriv(self, r):
    return -self.A/self.rho * math.exp(-r/self.rho) + 6.0*self.C/r**7

def make_potentials():
  buck_oo = potentialforms.buck(1633.00510, 0.327022, 3.948790)
  buck_uo = potentialforms.buck(693.648700, 0.327022, 0.0)
  buck_uu = potentialforms.buck(294.640000, 0.327022, 0.0)
  morse = potentialforms.morse(1.65, 2.369, 0.57745)
  uo = plus(buck_uo, morse)
  def softened(r):
    return 12.0 / (r + 0.5)**2 - 0.125 * r
  return {
    "basak" : [Potential("O", "O", buck_oo), Potential("U", "U", buck_uu), Potential("O", "U", uo)],
    "reverse" : [Potential("U", "O", uo), Potential("U", "U", buck_uu), Potential("O", "O", buck_oo)],
    "single" : [Potential("Xe", "B", softened)],
    "analytic" : [Potential("Mg", "O", AnalyticBuck(1428.5, 0.2945, 0.0)), Potential("Al", "O", AnalyticBuck(1114.9, 0.3118, 0.0)), Potential("O", "O", AnalyticBuck(2023.8, 0.2674, 13.83))],
    "lj" : [Potential("Ar", "Ar", potentialforms.lj(0.0104, 3.4)), Potential("Ar", "Kr", potentialforms.lj(0.0121, 3.52))],
    "empty" : [],
  }

def writepotentials_cases():
  pots = make_potentials()
  grids = [(6.5, 12), (10.0, 100), (15.0, 500), (4.0, 8), (12.0, 5), (1.0, 4), (7.25, 1), (3.0, 0), (5.0, 2)]
  for outputType in ["DL_POLY", "LAMMPS", "GULP"]:
    for name in sorted(pots):
      for cutoff, gridPoints in grids:
        out = io.StringIO()
        oc = outcome_of(atsim.potentials.writePotentials, outputType, pots[name], cutoff, gridPoints, out)
        record("writePotentials {} {} {} {}".format(outputType, name, cutoff, gridPoints), oc, out.getvalue())
        out = io.StringIO()
        oc = outcome_of(atsim.potentials.writePotentials, outputType = outputType, potentialList = pots[name], cutoff = cutoff, gridPoints = gridPoints, out = out)
        record("writePotentials kw {} {} {} {}".format(outputType, name, cutoff, gridPoints), oc, out.getvalue())

  # Argument checking: unsupported and odd tabulation types, bad arguments
  for outputType in ["lammps", "DLPOLY", "", None, 1, ("LAMMPS",), ["LAMMPS"], {"a":1}, "GULP ", b"GULP", "excel", "DL_POLY_EAM"]:
    out = io.StringIO()
    oc = outcome_of(atsim.potentials.writePotentials, outputType, pots["basak"], 10.0, 100, out)
    record("writePotentials bad type {!r}".format(outputType), oc, out.getvalue())
    # bad type reported before anything else is looked at
    oc = outcome_of(atsim.potentials.writePotentials, outputType, None, "x", None, None)
    record("writePotentials bad type and bad everything {!r}".format(outputType), oc)

  for outputType in ["DL_POLY", "LAMMPS", "GULP"]:
    for label, args in [
        ("potentials None", (None, 10.0, 100)),
        ("cutoff string", (pots["basak"], "10.0", 100)),
        ("gridpoints float", (pots["basak"], 10.0, 100.0)),
        ("gridpoints None", (pots["basak"], 10.0, None)),
        ("not potentials", ([1, 2], 10.0, 100)),
        ("negative grid", (pots["basak"], 10.0, -4)),
        ]:
      out = io.StringIO()
      oc = outcome_of(atsim.potentials.writePotentials, outputType, *(args + (out,)))
      record("writePotentials {} {}".format(outputType, label), oc, out.getvalue())
    oc = outcome_of(atsim.potentials.writePotentials, outputType, pots["basak"], 10.0, 100, None)
    record("writePotentials {} out None".format(outputType), oc)
    failing = EventLog(failafter = 0)
    oc = outcome_of(atsim.potentials.writePotentials, outputType, pots["basak"], 10.0, 100, failing)
    record("writePotentials {} failing out".format(outputType), oc, repr(failing.events))
    def bad(r):
      if r > 5.0:
        raise ArithmeticError("no value at {}".format(r))
      return 1.0/(r+1.0)
    log = EventLog()
    oc = outcome_of(atsim.potentials.writePotentials, outputType, [Potential("A", "B", bad)], 10.0, 100, log)
    record("writePotentials {} failing potential".format(outputType), oc, repr(log.events))

  oc = outcome_of(atsim.potentials.writePotentials)
  record("writePotentials no arguments", oc.replace("atsim.potentials.", ""))
  oc = outcome_of(atsim.potentials.writePotentials, "LAMMPS", [], 1.0, 10, io.StringIO(), None)
  record("writePotentials too many arguments", oc)
  oc = outcome_of(atsim.potentials.writePotentials, "LAMMPS", [], 1.0, 10, outfile = io.StringIO())
  record("writePotentials wrong keyword", oc)
  record("UnsupportedTabulationType", repr(atsim.potentials.UnsupportedTabulationType.__mro__), atsim.potentials.UnsupportedTabulationType.__module__)

  # default for `out` is the sys.stdout found when the package was imported
  code = ("import sys, io\n"
          "import atsim.potentials as ap\n"
          "real = sys.stdout\n"
          "sys.stdout = io.StringIO()\n"
          "ap.writePotentials('{}', [ap.Potential('A', 'B', ap.potentialforms.buck(1000.0, 0.3, 10.0))], 8.0, 16)\n"
          "captured = sys.stdout.getvalue()\n"
          "sys.stdout = real\n"
          "sys.stdout.write('captured=%r\\n' % captured)\n")
  for outputType in ["DL_POLY", "LAMMPS", "GULP", "OTHER"]:
    proc = subprocess.run([sys.executable, "-W", "ignore", "/tmp/wtpy.py", WT, "-c", code.format(outputType)],
      cwd = WT, stdout = subprocess.PIPE, stderr = subprocess.PIPE)
    err = proc.stderr.decode("utf-8")
    if "Traceback" in err:
      err = [l for l in err.splitlines() if l.strip()][-1]
    record("writePotentials default out {}".format(outputType), str(proc.returncode), proc.stdout, err)

def plot_cases():
  pots = make_potentials()
  funcs = {
    "buck" : potentialforms.buck(1633.00510, 0.327022, 3.948790),
    "softened" : pots["single"][0].potentialFunction,
    "linear" : lambda r: 3.0*r - 1.0,
    "intfunc" : lambda r: 7,
    "strfunc" : lambda r: "r={}".format(r),
  }
  ranges = [(0.1, 10.0, 50), (1.0, 2.0, 7), (0.0, 1.0, 3), (5, 10, 5), (10.0, 0.1, 11), (2.0, 2.0, 4), (1, 2, 1), (0.5, 3.5, 1000)]

  for fname in sorted(funcs):
    for lowx, highx, steps in ranges:
      label = "{} {} {} {}".format(fname, lowx, highx, steps)
      out = io.StringIO()
      oc = outcome_of(atsim.potentials.plotToFile, out, lowx, highx, funcs[fname], steps)
      record("plotToFile " + label, oc, out.getvalue())
      out = io.StringIO()
      oc = outcome_of(atsim.potentials.plotToFile, fileobj = out, lowx = lowx, highx = highx, func = funcs[fname], steps = steps)
      record("plotToFile kw " + label, oc, out.getvalue())

      potobj = Potential("A", "B", funcs[fname])
      out = io.StringIO()
      oc = outcome_of(atsim.potentials.plotPotentialObjectToFile, out, lowx, highx, potobj, steps)
      record("plotPotentialObjectToFile " + label, oc, out.getvalue())
      out = io.StringIO()
      oc = outcome_of(atsim.potentials.plotPotentialObjectToFile, fileobj = out, lowx = lowx, highx = highx, potentialObject = potobj, steps = steps)
      record("plotPotentialObjectToFile kw " + label, oc, out.getvalue())

  # default number of steps
  out = io.StringIO()
  oc = outcome_of(atsim.potentials.plotToFile, out, 0.5, 12.0, funcs["buck"])
  record("plotToFile default steps", oc, out.getvalue())
  out = io.StringIO()
  oc = outcome_of(atsim.potentials.plotPotentialObjectToFile, out, 0.5, 12.0, pots["basak"][2])
  record("plotPotentialObjectToFile default steps", oc, out.getvalue())

  # Interleaving of evaluations and writes, failures part way through
  for label, kwargs, failafter in [
      ("plain", {}, None), ("func fails", {"failat" : 1.5}, None), ("func fails at once", {"failat" : 0.0}, None),
      ("write fails", {}, 3), ("write fails at once", {}, 0)]:
    log = EventLog(failafter)
    oc = outcome_of(atsim.potentials.plotToFile, log, 1.0, 2.0, log.func(funcs["linear"], **kwargs), 8)
    record("plotToFile events " + label, oc, repr(log.events))
    log = EventLog(failafter)
    potobj = Potential("A", "B", log.func(funcs["linear"], **kwargs))
    oc = outcome_of(atsim.potentials.plotPotentialObjectToFile, log, 1.0, 2.0, potobj, 8)
    record("plotPotentialObjectToFile events " + label, oc, repr(log.events))

  # Bad arguments
  for label, args in [
      ("steps zero", (0.0, 1.0, funcs["linear"], 0)),
      ("steps negative", (0.0, 1.0, funcs["linear"], -3)),
      ("steps float", (0.0, 1.0, funcs["linear"], 4.0)),
      ("steps string", (0.0, 1.0, funcs["linear"], "4")),
      ("steps word", (0.0, 1.0, funcs["linear"], "four")),
      ("steps None", (0.0, 1.0, funcs["linear"], None)),
      ("lowx string", ("0.0", 1.0, funcs["linear"], 4)),
      ("highx None", (0.0, None, funcs["linear"], 4)),
      ("func None", (0.0, 1.0, None, 4)),
      ("func None no steps", (0.0, 1.0, None, 0)),
      ("func binary", (0.0, 1.0, lambda a, b: a, 4)),
      ]:
    log = EventLog()
    oc = outcome_of(atsim.potentials.plotToFile, *((log,) + args))
    record("plotToFile bad " + label, oc, repr(log.events))
    log = EventLog()
    oc = outcome_of(atsim.potentials.plotPotentialObjectToFile, *((log,) + args))
    record("plotPotentialObjectToFile bad " + label, oc, repr(log.events))
    oc = outcome_of(atsim.potentials.plotToFile, *((None,) + args))
    record("plotToFile fileobj None " + label, oc)

  # plot() and plotPotentialObject(): named files
  def readback(path):
    if not os.path.exists(path):
      return b"<nofile>"
    with open(path, "rb") as infile:
      data = infile.read()
    os.remove(path)
    return data

  os.chdir(OUTDIR)
  potobj = pots["basak"][2]
  n = 0
  for fname in ["buck", "softened", "intfunc"]:
    for lowx, highx, steps in ranges[:4]:
      for style in ["str", "relative", "path", "purepath_relative", "bytes"]:
        n += 1
        base = "plot{}.dat".format(n)
        full = os.path.join(OUTDIR, base)
        filename = {"str" : full, "relative" : base, "path" : pathlib.Path(full),
                    "purepath_relative" : pathlib.PurePosixPath(base), "bytes" : os.fsencode(full)}[style]
        oc = outcome_of(atsim.potentials.plot, filename, lowx, highx, funcs[fname], steps)
        record("plot {} {} {} {} {}".format(style, fname, lowx, highx, steps), oc, readback(full))
        oc = outcome_of(atsim.potentials.plot, filename = filename, lowx = lowx, highx = highx, func = funcs[fname], steps = steps)
        record("plot kw {} {} {} {} {}".format(style, fname, lowx, highx, steps), oc, readback(full))
        oc = outcome_of(atsim.potentials.plotPotentialObject, filename, lowx, highx, potobj, steps)
        record("plotPotentialObject {} {} {} {}".format(style, lowx, highx, steps), oc, readback(full))
        oc = outcome_of(atsim.potentials.plotPotentialObject, filename = filename, lowx = lowx, highx = highx, potentialObject = potobj, steps = steps)
        record("plotPotentialObject kw {} {} {} {}".format(style, lowx, highx, steps), oc, readback(full))

  full = os.path.join(OUTDIR, "default_steps.dat")
  oc = outcome_of(atsim.potentials.plot, full, 0.5, 12.0, funcs["buck"])
  record("plot default steps", oc, readback(full))
  oc = outcome_of(atsim.potentials.plotPotentialObject, pathlib.Path(full), 0.5, 12.0, potobj)
  record("plotPotentialObject default steps", oc, readback(full))

  # file descriptors are accepted by open()
  for plotter, subject in [(atsim.potentials.plot, funcs["buck"]), (atsim.potentials.plotPotentialObject, potobj)]:
    full = os.path.join(OUTDIR, "fd.dat")
    fd = os.open(full, os.O_WRONLY | os.O_CREAT | os.O_TRUNC)
    oc = outcome_of(plotter, fd, 1.0, 3.0, subject, 9)
    record("{} file descriptor".format(plotter.__name__), oc, readback(full))

  # an existing file is truncated even if evaluation then fails; file left closed
  class PathLikeRecorder(object):
    def __init__(self, path):
      self.path = path
      self.calls = 0
    def __fspath__(self):
      self.calls += 1
      return self.path
  class BadPathLike(object):
    def __fspath__(self):
      raise RuntimeError("no path today")
  class WrongPathLike(object):
    def __fspath__(self):
      return 42
  class StrSubclass(str):
    pass

  for plotter, subject in [(atsim.potentials.plot, funcs["buck"]), (atsim.potentials.plotPotentialObject, potobj)]:
    nm = plotter.__name__
    full = os.path.join(OUTDIR, "existing.dat")
    with open(full, "w") as outfile:
      outfile.write("previous contents\n")
    log = EventLog()
    failing = log.func(funcs["linear"], failat = 1.5)
    oc = outcome_of(plotter, full, 1.0, 2.0, failing if plotter is atsim.potentials.plot else Potential("A", "B", failing), 8)
    record(nm + " failing function", oc, readback(full))

    rec = PathLikeRecorder(full)
    oc = outcome_of(plotter, rec, 1.0, 2.0, subject, 6)
    record(nm + " custom PathLike", oc, readback(full), str(rec.calls > 0))

    oc = outcome_of(plotter, StrSubclass(full), 1.0, 2.0, subject, 6)
    record(nm + " str subclass", oc, readback(full))

    for label, filename in [
        ("missing directory", os.path.join(OUTDIR, "nodir", "x.dat")),
        ("missing directory Path", pathlib.Path(OUTDIR) / "nodir" / "x.dat"),
        ("directory", OUTDIR),
        ("directory Path", pathlib.Path(OUTDIR)),
        ("empty", ""),
        ("None", None),
        ("float", 1.5),
        ("list", [full]),
        ("tuple", (full,)),
        ("bad fd", -1),
        ("closed fd", 987654),
        ("bool", object()),
        ("fspath raises", BadPathLike()),
        ("fspath wrong type", WrongPathLike()),
        ("nul in name", "a\0b"),
        ("StringIO", io.StringIO()),
        ]:
      oc = outcome_of(plotter, filename, 1.0, 2.0, subject, 6)
      oc = oc.replace(OUTDIR, "<OUTDIR>")
      if "object at 0x" in oc:
        oc = oc.split("object at 0x")[0]
      record("{} bad filename {}".format(nm, label), oc)
  os.chdir(WT)

def tablereader_cases():
  tables = {
    "simple" : "0.0 1.0\n1.0 3.0\n2.0 2.0\n4.0 -1.0\n",
    "comments" : "# r E\n\n0.5 10.0\n  1.5   5.0  extra\n#2.0 0.0\n2.5 2.5\n",
    "unsorted" : "3.0 1.0\n1.0 2.0\n2.0 4.0\n",
    "tabs" : "0\t0\n10\t100\n",
    "single" : "1.0 1.0\n",
    "exponent" : "1e-1 2.5E2\n1e0 -1.25e-3\n",
  }
  xs = [-1.0, 0.0, 0.25, 0.5, 1.0, 1.5, 1.75, 2.0, 2.5, 3.0, 3.999, 4.0, 4.5, 10, 100.0]
  for name in sorted(tables):
    reader = TableReader(io.StringIO(tables[name]))
    vals = [outcome_of(reader, x) for x in xs]
    record("TableReader " + name, repr(vals), repr(list(reader.datReader)), type(reader.datReader).__name__)
    reader = TableReader(fileobject = io.StringIO(tables[name]))
    record("TableReader kw " + name, repr([outcome_of(reader, separation = x) for x in xs]))
    # through a Potential and plotting
    out = io.StringIO()
    oc = outcome_of(atsim.potentials.plotPotentialObjectToFile, out, 0.0, 5.0, Potential("A", "B", reader), 25)
    record("TableReader plotted " + name, oc, out.getvalue())
    out = io.StringIO()
    oc = outcome_of(atsim.potentials.writePotentials, "LAMMPS", [Potential("A", "B", reader)], 5.0, 20, out)
    record("TableReader tabulated " + name, oc, out.getvalue())

  for label, content in [("empty", ""), ("one column", "1.0\n2.0\n"), ("words", "a b\n"), ("only comments", "# nothing\n")]:
    oc = outcome_of(TableReader, io.StringIO(content))
    if "object at 0x" in oc:
      oc = oc.split("object at 0x")[0]
    record("TableReader malformed " + label, oc)
    if oc.startswith("returned"):
      record("TableReader malformed call " + label, outcome_of(TableReader(io.StringIO(content)), 1.0))
  record("TableReader None", outcome_of(TableReader, None))
  record("TableReader no args", outcome_of(TableReader))

def main():
  if os.path.exists(OUTDIR):
    shutil.rmtree(OUTDIR)
  os.makedirs(OUTDIR)
  try:
    writepotentials_cases()
    plot_cases()
    tablereader_cases()
  finally:
    os.chdir(WT)
    shutil.rmtree(OUTDIR)
  print("DIGEST", digest.hexdigest())

if __name__ == "__main__":
  main()

"""Differential script for twin A: the parsed views of ConfigParser.

Exercises pair / eam_embed / eam_density / eam_density_fs / potential_form /
table_form / species / tabulation / parse_pair_like / parsed_sections on the
shipped .aspot files and on a set of inline (well-formed and malformed)
configurations, then tabulates a few of the models through the potable
command line.  Prints one sha256 digest of everything observed."""
import glob
import hashlib
import io
import os
import sys
import tempfile

from atsim.potentials.config import ConfigParser, FilteredConfigParser, ConfigParserOverrideTuple
from atsim.potentials.tools import potable

ROOT = os.path.dirname(os.path.dirname(os.path.abspath(__file__)))

VIEWS = ["pair", "eam_embed", "eam_density", "eam_density_fs", "potential_form",
         "table_form", "species", "tabulation", "parsed_sections", "orphan_sections"]

PAIR_LIKE = ["Pair", "EAM-ADP-Dipole", "EAM-ADP-Quadrupole", "EAM-Density", "Nonexistent", "Potential-Form"]

INLINE = {
"pair_multi": u"""
[Tabulation]
target : LAMMPS
cutoff : 6.5
nr : 652

[Pair]
O-O  = as.buck 1633.01 0.327022 3.94879 >=3.0 as.zero
Si - O = >0.1 sum(as.buck 1000.0 0.3 0.0, >=1.0 as.constant 2.0 >2.0 my_form 1 2) >=5.0 as.zero
Si-Si: product(as.constant 2.0, as.polynomial 1.0 2.0 3.0)

[Potential-Form]
my_form(r, A , B) = A*r + B
other( r_ij,A,  B,C ) :  A + B + C*r_ij

[Species]
O.charge = -2
O.atomic_mass = 15.999
Si.atomic_number = 14
Si.lattice_type = fcc
Si.custom = 3

[Extra-Section]
foo = bar
""",
"eam_std": u"""
[Tabulation]
target : setfl
nr : 500
dr : 0.01
nrho : 500
drho : 0.01

[Pair]
Al-Al = as.buck 100.0 0.3 1.0
Cu-Al = as.buck 200.0 0.3 2.0
Cu-Cu = as.buck 300.0 0.3 3.0
Ag-Cu = as.buck 300.0 0.3 3.0

[EAM-Embed]
Al = as.sqrt -1.0
Cu  = as.sqrt -2.0
Ag = as.polynomial 0.0 1.0 2.0

[EAM-Density]
Cu = dens 2.0 3.0
Al = dens 1.0 2.0
Ag = >=0 dens 1.0 2.0 >=3.0 as.zero

[Potential-Form]
dens(r, a, b) = a*exp(-b*r)
""",
"eam_fs": u"""
[Tabulation]
target : setfl_fs
nr : 400
dr : 0.01
nrho : 300
drho : 0.01

[Pair]
Al-Al = as.buck 100.0 0.3 1.0
Al-Fe = as.buck 200.0 0.3 2.0
Fe-Fe = as.buck 300.0 0.3 3.0

[EAM-Embed]
Al = as.sqrt -1.0
Fe = as.sqrt -2.0

[EAM-Density]
Al->Al = dens 1.0 2.0
Fe -> Al = dens 1.5 2.0
Al->Fe = dens 2.5 2.0
Fe->Fe = >=0.5 dens 3.0 2.0

[Potential-Form]
dens(r, a, b) = a*exp(-b*r)
""",
"adp": u"""
[Tabulation]
target : eam_adp
nr : 300
dr : 0.02
nrho : 300
drho : 0.02

[Pair]
Al-Al = as.buck 100.0 0.3 1.0
Cu-Al = as.buck 200.0 0.3 2.0
Cu-Cu = as.buck 300.0 0.3 3.0

[EAM-Embed]
Al = as.sqrt -1.0
Cu = as.sqrt -2.0

[EAM-Density]
Al = dens 1.0 2.0
Cu = dens 2.0 3.0

[EAM-ADP-Dipole]
Al-Al = as.polynomial 0.0 0.1
Al-Cu = as.polynomial 0.0 0.2
Cu-Cu = as.polynomial 0.0 0.3

[EAM-ADP-Quadrupole]
Al-Al = as.polynomial 0.0 0.01
Cu-Al = as.polynomial 0.0 0.02
Cu-Cu = as.polynomial 0.0 0.03

[Potential-Form]
dens(r, a, b) = a*exp(-b*r)
""",
"table_forms": u"""
[Pair]
A-B = tf

[Table-Form: tf ]
interpolation : cubic_spline
x : 0.0 1.0 2.0 3.0
y : 3.0 2.0 1.0 0.0

[Table-Form:tf2]
xy : 0.0 1.0 1.0 2.0 2.0 3.0
""",
"variables": u"""
[Variables]
A = 1000.0
rho = 0.3

[Pair]
O-O = as.buck ${A} ${rho} 0.0
U-O = as.buck ${A} ${Variables:rho} 1.0
""",
# ---- malformed -------------------------------------------------------
"bad_pair_key3": u"""
[Pair]
A-B-C = as.buck 1.0 2.0 3.0
""",
"bad_pair_key1": u"""
[Pair]
A = as.buck 1.0 2.0 3.0
""",
"bad_pair_value": u"""
[Pair]
A-B = as.buck 1.0 2.0 3.0
B-B = as.buck 1.0 ( 3.0
""",
"bad_pair_value_empty": u"""
[Pair]
A-B =
""",
"bad_embed_value": u"""
[EAM-Embed]
A = as.sqrt 1.0
B = 1.0 as.sqrt

[EAM-Density]
A = >= dens 1.0
""",
"fs_bad_keys": u"""
[EAM-Density]
A->B = dens 1.0
A->B->C = dens 1.0
""",
"fs_bad_value": u"""
[EAM-Density]
A->B = dens 1.0 (
""",
"fs_mixed_keys": u"""
[EAM-Embed]
A = as.sqrt 1.0
[EAM-Density]
A = dens 1.0
A->B = dens 2.0
""",
"bad_signature": u"""
[Potential-Form]
ok(r, A) = A*r
1bad(r) = r
""",
"bad_signature2": u"""
[Potential-Form]
nobrackets = 1.0
""",
"bad_species_key": u"""
[Species]
O.charge = -2.0
Ocharge = 1.0
""",
"bad_species_value": u"""
[Species]
O.charge = minus_two
""",
"bad_species_int": u"""
[Species]
O.atomic_number = 8.5
""",
"bad_tabulation": u"""
[Tabulation]
target : LAMMPS
nr : 10
dr : 0.1
cutoff : 1.0
""",
"bad_tabulation2": u"""
[Tabulation]
target : DL_POLY
nr : ten
""",
"bad_table_form": u"""
[Table-Form:tf]
x : 0.0 1.0
y : 1.0
""",
"bad_table_form2": u"""
[Table-Form:tf]
xy : 0.0 1.0 a
""",
"bad_variable": u"""
[Pair]
O-O = as.buck ${missing} 1.0 0.0
""",
"empty": u"""
""",
"only_tabulation": u"""
[Tabulation]
target : lammps_eam_alloy
cutoff : 5.0
dr : 0.5
cutoff_rho : 10.0
drho : 0.1
""",
}

CONSTRUCTION_ERRORS = {
"dup_pair": u"""
[Pair]
A-B = as.buck 1.0 2.0 3.0
B-A = as.buck 1.0 2.0 3.0
""",
"dup_pair_bad_key": u"""
[Pair]
A-B = as.buck 1.0 2.0 3.0
AB = as.buck 1.0 2.0 3.0
""",
"dup_table_form": u"""
[Table-Form:tf]
xy : 0 1
[Table-Form: tf]
xy : 0 1
""",
"dup_option": u"""
[Pair]
A-B = as.buck 1.0 2.0 3.0
A-B = as.buck 1.0 2.0 3.0
""",
"no_header": u"""
A-B = as.buck 1.0 2.0 3.0
""",
}

out = []

def emit(*args):
  out.append(" | ".join(str(a) for a in args))

def observe(label, thunk):
  try:
    v = thunk()
    emit(label, "OK", type(v).__name__, repr(v))
  except SystemExit as e:
    emit(label, "EXIT", repr(e.code))
  except BaseException as e:
    emit(label, "EXC", type(e).__module__ + "." + type(e).__name__, str(e))

def observe_views(label, cp):
  for view in VIEWS:
    observe("{}.{}".format(label, view), lambda: getattr(cp, view))
    # second access (tabulation/table_form are cached)
    observe("{}.{}#2".format(label, view), lambda: getattr(cp, view))
  for section in PAIR_LIKE:
    observe("{}.parse_pair_like({})".format(label, section), lambda: cp.parse_pair_like(section))
  observe("{}.tabulation.fields".format(label), lambda: (cp.tabulation.target, cp.tabulation.nr, cp.tabulation.cutoff, cp.tabulation.nrho, cp.tabulation.cutoff_rho))
  observe("{}.raw.sections".format(label), lambda: [(s, list(cp.raw_config_parser[s].items())) for s in cp.raw_config_parser.sections()])

def make_cp(text, **kwargs):
  return ConfigParser(io.StringIO(text), **kwargs)

# 1. Shipped files
aspots = sorted(glob.glob(os.path.join(ROOT, "tests", "**", "*.aspot"), recursive=True))
for path in aspots:
  label = os.path.relpath(path, ROOT)
  with io.open(path, encoding="utf8") as infile:
    cp = ConfigParser(infile)
  observe_views(label, cp)

# 2. Inline configurations
for name in INLINE:
  try:
    cp = make_cp(INLINE[name])
  except BaseException as e:
    emit(name, "CONSTRUCT-EXC", type(e).__name__, str(e))
    continue
  observe_views(name, cp)

for name in CONSTRUCTION_ERRORS:
  observe("construct." + name, lambda: make_cp(CONSTRUCTION_ERRORS[name]).pair)

# 3. Overrides and additions change what the views see
OT = ConfigParserOverrideTuple
observe("override.pair", lambda: make_cp(INLINE["eam_std"], overrides=[OT(u"Pair", u"Al-Al", u"as.zero"), OT(u"Pair", u"Cu-Cu", None)]).pair)
observe("override.embed", lambda: make_cp(INLINE["eam_std"], overrides=[OT(u"EAM-Embed", u"Cu", None)], additional=[OT(u"EAM-Embed", u"Zn", u"as.sqrt 3.0")]).eam_embed)
observe("override.density_to_fs", lambda: make_cp(INLINE["eam_std"], additional=[OT(u"EAM-Density", u"Zn->Al", u"dens 3.0 1.0")]).eam_density_fs)
observe("override.density_to_fs.parsed_sections", lambda: make_cp(INLINE["eam_std"], additional=[OT(u"EAM-Density", u"Zn->Al", u"dens 3.0 1.0")]).parsed_sections)
observe("override.potform", lambda: make_cp(INLINE["eam_std"], additional=[OT(u"Potential-Form", u"f( r , A )", u" A*r ")]).potential_form)
observe("override.remove_all_potform", lambda: make_cp(INLINE["eam_std"], overrides=[OT(u"Potential-Form", u"dens(r,a,b)", None)]).potential_form)
observe("override.missing", lambda: make_cp(INLINE["eam_std"], overrides=[OT(u"Pair", u"Zn-Zn", u"as.zero")]).pair)
observe("override.duplicate", lambda: make_cp(INLINE["eam_std"], additional=[OT(u"Pair", u"Al-Al", u"as.zero")]).pair)

# 4. Views as seen through the species filter
for name in ["pair_multi", "eam_std", "eam_fs", "adp", "fs_mixed_keys", "bad_pair_value", "empty"]:
  for kwargs in [dict(exclude=["Al"]), dict(include=["Al", "Cu", "O", "Si"]), dict(), dict(include=[])]:
    fcp = FilteredConfigParser(make_cp(INLINE[name]), **kwargs)
    observe_views("{}/filtered{}".format(name, sorted(kwargs.items())), fcp)

# 5. Tabulations through the command line
def run_potable(label, text, extra):
  tmpdir = tempfile.mkdtemp()
  cfgname = os.path.join(tmpdir, "in.aspot")
  outname = os.path.join(tmpdir, "out.tab")
  with io.open(cfgname, "w", encoding="utf8") as outfile:
    outfile.write(text)
  stdout = sys.stdout
  stderr = sys.stderr
  sys.stdout = io.StringIO()
  sys.stderr = io.StringIO()
  try:
    try:
      p, args = potable._parse_command_line([cfgname, outname] + extra)
      try:
        potable._do_tabulation(p, args)
        status = "RETURNED"
      except potable.ConfigurationException as e:
        status = "CONFIG-ERROR {}: {}".format(type(e).__name__, e)
    except SystemExit as e:
      status = "EXIT {}".format(e.code)
    except BaseException as e:
      status = "EXC {}: {}".format(type(e).__name__, e)
    captured = sys.stdout.getvalue()
  finally:
    args = None
    sys.stdout = stdout
    sys.stderr = stderr
  data = b""
  if os.path.exists(outname):
    with open(outname, "rb") as infile:
      data = infile.read()
  emit("potable." + label, status, len(data), hashlib.sha256(data).hexdigest(), hashlib.sha256(captured.replace(tmpdir, "TMP").encode("utf8")).hexdigest())

for name, extras in [
    ("pair_multi", [[], ["--exclude-species", "Si"], ["--list-items"], ["--list-item-labels"], ["--override-item", "Tabulation:target=DL_POLY", "--override-item", "Tabulation:nr=656"], ["-e", "Tabulation:target=GULP"]]),
    ("eam_std", [[], ["--include-species", "Al", "Cu"], ["--exclude-species", "Ag", "Al"], ["--list-items", "--exclude-species", "Cu"]]),
    ("eam_fs", [[], ["--exclude-species", "Fe"], ["--include-species", "Fe"], ["-e", "Tabulation:target=DL_POLY_EAM_fs"]]),
    ("adp", [[], ["--exclude-species", "Cu"], ["--include-species", "Cu"]]),
    ("variables", [["-a", "Tabulation:target=LAMMPS", "Tabulation:cutoff=5.0", "Tabulation:nr=51"]]),
    ("bad_pair_value", [["-a", "Tabulation:target=LAMMPS", "Tabulation:cutoff=5.0", "Tabulation:nr=51"]]),
    ("fs_bad_keys", [["-a", "Tabulation:target=setfl_fs", "Tabulation:cutoff=5.0", "Tabulation:nr=51", "Tabulation:nrho=51", "Tabulation:cutoff_rho=5.0"]]),
    ("bad_signature", [["-a", "Tabulation:target=LAMMPS", "Tabulation:cutoff=5.0", "Tabulation:nr=51", "Pair:A-A=ok 1.0"]]),
  ]:
  for i, extra in enumerate(extras):
    run_potable("{}[{}]".format(name, i), INLINE[name], extra)

for path in aspots:
  with io.open(path, encoding="utf8") as infile:
    text = infile.read()
  run_potable(os.path.basename(path), text, ["--list-items"])

blob = "\n".join(out)
if "--dump" in sys.argv:
  print(blob)
print("observations:", len(out))
print("digest:", hashlib.sha256(blob.encode("utf8")).hexdigest())

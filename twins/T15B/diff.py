"""Differential script for twin B
(atsim/potentials/config/_eam_potential_builder.py and _pair_potential_builder.py).

Builds EAM potentials (standard and Finnis-Sinclair) and pair potentials through the
builder classes and through Configuration.read() for several models, including
under-specified and malformed ones.  Records attribute values, dictionary orders,
function values, exception types + messages, log records and tabulated output.
"""
import hashlib
import io
import logging
import os
import sys

if os.environ.get("PYTHONHASHSEED") != "0":
  os.environ["PYTHONHASHSEED"] = "0"
  # set iteration order depends on the str hash seed: pin it so that digests are reproducible.
  # (wtpy.py has already chdir()ed into the worktree)
  os.execv(sys.executable, [sys.executable, "-W", "ignore", "/tmp/wtpy.py", os.getcwd(), os.path.abspath(sys.argv[0])] + sys.argv[1:])

try:
  from collections.abc import Mapping
except ImportError:
  from collections import Mapping

from atsim.potentials.config import Configuration, ConfigParser
from atsim.potentials.config._potential_form_registry import Potential_Form_Registry
from atsim.potentials.config._modifier_registry import Modifier_Registry
from atsim.potentials.config._eam_potential_builder import EAM_Potential_Builder, EAM_Potential_Builder_FS
from atsim.potentials.config._pair_potential_builder import Pair_Potential_Builder, Pair_Potentials_From_Tuples_Builder
from atsim.potentials.referencedata import Reference_Data

OUT = []

def emit(*args):
  OUT.append(" | ".join(str(a) for a in args))

class Capture(logging.Handler):
  def emit(self, record):
    emit("LOG", record.name, record.levelname, record.getMessage())

root = logging.getLogger()
root.setLevel(logging.DEBUG)
root.handlers[:] = [Capture()]

def exc_chain(e):
  out = []
  while e is not None:
    out.append("{}:{}".format(type(e).__name__, e))
    e = e.__context__
  return out

POTFORM = """
[Potential-Form]
density(r, C) = r/(C^12)
bad(r, A) = A * nofunc(r)
"""

STD_1 = """
[Pair]
O-O = as.buck 1.0 0.2 0.0
Ga-O = as.buck 70.0 0.2 0.0
In-O = as.buck 36.0 0.20 0.0

[EAM-Density]
O : density 80000.0

[EAM-Embed]
Ga : as.sqrt -0.15449392139449653
In : as.sqrt -0.010691242237852016
""" + POTFORM

STD_2 = """
[Species]
A.atomic_mass = 1
A.atomic_number = 1
B.atomic_mass = 2
B.atomic_number = 2
B.lattice_constant = 3.25
B.lattice_type = bcc

[EAM-Embed]
B = as.zero
A = as.polynomial 0 1

[EAM-Density]
A = as.polynomial 0 2
B = as.polynomial 0 3 >2.0 as.zero

[Pair]
A-B = as.buck 100.0 0.3 1.0
"""

STD_UNKNOWN_SPECIES = """
[EAM-Embed]
Xx = as.zero
Al = as.polynomial 0 1

[EAM-Density]
Xx = as.polynomial 0 2
Al = as.polynomial 0 3

[Pair]
"""

STD_MASS_ONLY = """
[Species]
Xx.atomic_number = 130

[EAM-Embed]
Xx = as.zero

[EAM-Density]
Xx = as.polynomial 0 2

[Pair]
"""

STD_MANY = """
[EAM-Embed]
Zr = as.sqrt -1.0
Al = as.polynomial 0 1
Cu = as.polynomial 0 0.5 0.1

[EAM-Density]
Fe = as.polynomial 0 2
Ni = as.exponential 2.0 -0.5
U = as.polynomial 1.0
Al = as.polynomial 0 3
Ag = as.zero
Au = as.zero

[Pair]
Al-Fe = as.buck 100.0 0.3 1.0
Cu-Cu = as.buck 100.0 0.3 2.0
"""

STD_BAD_EMBED = """
[EAM-Embed]
Al = as.nothing 1 2

[EAM-Density]
Al = as.polynomial 0 3

[Pair]
"""

STD_BAD_DENS_MOD = """
[EAM-Embed]
Al = as.zero

[EAM-Density]
Al = nomod(as.polynomial 0 3)

[Pair]
"""

FS_1 = """
[Pair]
O-O = as.buck 1.0 0.2 0.0
Ga-O = as.buck 70.0 0.2 0.0
In-O = as.buck 36.0 0.20 0.0

[EAM-Density]
Ga->O : density 80000.0
In->O : density 70000.0
O->Ga : as.zero

[EAM-Embed]
Ga : as.sqrt -0.15449392139449653
In : as.sqrt -0.010691242237852016
O : as.zero
""" + POTFORM

FS_2 = """
[Pair]
Al-Al = as.buck 1.0 0.2 0.0
Al-Fe = as.buck 70.0 0.2 0.0
Fe-Fe = as.buck 36.0 0.20 0.0

[EAM-Density]
Al->Al : as.polynomial 0 1
Al->Fe : as.polynomial 0 2
Fe->Al : as.polynomial 0 3
Fe->Fe : as.polynomial 0 4
Cu->Ni : as.exponential 2.0 0.5

[EAM-Embed]
Fe : as.sqrt -2.0
Al : as.sqrt -1.0
"""

FS_DUP = """
[Pair]

[EAM-Density]
Al->Fe : as.polynomial 0 2
Fe->Al : as.polynomial 0 3
Al->fe : as.polynomial 0 4

[EAM-Embed]
Fe : as.sqrt -2.0
Al : as.sqrt -1.0
"""

PAIR_OK = """
[Pair]
O-O = as.buck 1633.010242995040 0.327022 3.948787
U-U = as.buck 294.640906285709 0.327022 0.0
O-U = as.buck 693.648700 0.327022 0.0 >3.0 as.zero
Mg-O = sum(as.buck 1.0 0.2 0.0, as.constant 0.25)
"""

PAIR_BAD = [
  ("unknown-form", "[Pair]\nA-B = as.buck 1 2 3\nC-D = as.nothing 1 2\n"),
  ("unknown-modifier", "[Pair]\nA-B = as.buck 1 2 3\nC-D = blah(as.buck 1 2 3)\n"),
  ("unknown-inner-form", "[Pair]\nC-D = sum(as.buck 1 2 3, as.nope 1)\n"),
  ("unknown-inner-modifier", "[Pair]\nC-D = sum(as.buck 1 2 3, wrong(as.buck 1 2 3))\n"),
  ("wrong-args", "[Pair]\nE-F = as.buck 1 2\n"),
  ("wrong-args-2", "[Pair]\nA-A = as.zero\nE-F = as.buck 1 2 3 4 >2 as.zero\n"),
  ("second-range-bad", "[Pair]\nE-F = as.buck 1 2 3 >2 as.who_knows 1\n"),
  ("bad-custom", "[Pair]\nE-F = bad 1.0\n" + POTFORM),
  ("spline-bad", "[Pair]\nE-F = spline(as.buck 1 2 3 >1.0 as.nospline >=2.0 as.zero)\n"),
]

def describe_func(f):
  vals = []
  for x in (0.5, 1.0, 2.5, 7.75):
    try:
      vals.append(repr(f(x)))
    except Exception as e:
      vals.append(type(e).__name__)
  return vals

def describe_eam(pots):
  for p in pots:
    emit("EAMPOT", p.species, repr(p.atomicNumber), repr(p.mass), repr(p.latticeConstant), repr(p.latticeType))
    emit("EMBED", type(p.embeddingFunction).__name__, describe_func(p.embeddingFunction))
    d = p.electronDensityFunction
    if isinstance(d, Mapping):
      emit("DENSKEYS", list(d.keys()))
      for k in d:
        emit("DENS", k, type(d[k]).__name__, describe_func(d[k]))
    else:
      emit("DENS", type(d).__name__, describe_func(d))

def registries(cp):
  return Potential_Form_Registry(cp, register_standard = True, register_pymath_functions = True), Modifier_Registry()

def run_builder(label, text, builder_cls, add_undefined, with_rd):
  emit("BUILDER", label, builder_cls.__name__, add_undefined, with_rd)
  try:
    cp = ConfigParser(io.StringIO(text))
    pfr, mr = registries(cp)
    if with_rd:
      b = builder_cls(cp, pfr, mr, Reference_Data(cp.species), add_undefined = add_undefined)
    else:
      b = builder_cls(cp, pfr, mr, add_undefined = add_undefined)
    emit("ATTR", b.add_undefined, b.eam_potentials is b.eam_potentials, len(b.eam_potentials))
    describe_eam(b.eam_potentials)
    for sp in ("Al", "Xx", "A", "B", "Ga"):
      for getter in ("_get_mass", "_get_atomic_number", "_get_lattice_constant", "_get_lattice_type"):
        try:
          emit("GET", getter, sp, repr(getattr(b, getter)(sp)))
        except Exception as e:
          emit("GETEXC", getter, sp, exc_chain(e))
  except Exception as e:
    emit("EXC", exc_chain(e))

EAM_MODELS = [
  ("std1", STD_1), ("std2", STD_2), ("std-unknown", STD_UNKNOWN_SPECIES), ("std-massonly", STD_MASS_ONLY),
  ("std-many", STD_MANY), ("std-bad-embed", STD_BAD_EMBED), ("std-bad-mod", STD_BAD_DENS_MOD),
  ("fs1", FS_1), ("fs2", FS_2), ("fs-dup", FS_DUP)]

for label, text in EAM_MODELS:
  for cls in (EAM_Potential_Builder, EAM_Potential_Builder_FS):
    for add_undefined in (True, False):
      for with_rd in (True, False):
        run_builder(label, text, cls, add_undefined, with_rd)

def describe_pairs(pots):
  for p in pots:
    emit("PAIRPOT", type(p).__name__, p.speciesA, p.speciesB, describe_func(p.energy), describe_func(p.force))

def run_pairs(label, text):
  emit("PAIRS", label)
  cp = ConfigParser(io.StringIO(text))
  pfr, mr = registries(cp)
  try:
    b = Pair_Potential_Builder(cp, pfr, mr)
    pots = b.potentials
    emit("SAME", pots is b.potentials)
    describe_pairs(pots)
  except Exception as e:
    emit("EXC", exc_chain(e))
  for section in ("Pair", "EAM-ADP-Dipole", "Some Section"):
    try:
      b = Pair_Potentials_From_Tuples_Builder(cp.pair, pfr, mr, section)
      emit("TATTR", b.log_section_name, b.potential_tuples is cp.pair or len(b.potential_tuples), b.potential_form_registry is pfr, b.modifier_registry is mr)
      pots = b.potentials
      emit("SAME", pots is b.potentials)
      describe_pairs(pots)
    except Exception as e:
      emit("EXC", exc_chain(e))
  try:
    b = Pair_Potentials_From_Tuples_Builder(cp.pair, pfr, mr)
    emit("DEFAULTSECTION", b.log_section_name, len(b.potentials))
  except Exception as e:
    emit("EXC", exc_chain(e))

run_pairs("ok", PAIR_OK)
run_pairs("empty", "[Pair]\n")
for label, text in PAIR_BAD:
  run_pairs(label, text)

# ADP dipole/quadrupole sections go through Pair_Potentials_From_Tuples_Builder with another section name
ADP = """
[Tabulation]
target : eam_adp
cutoff : 6.0
nr : 16
cutoff_rho : 3.0
nrho : 11

[EAM-Embed]
Al : as.sqrt -0.5
Cu : as.polynomial 0 0.1 0.2

[EAM-Density]
Al : as.exponential 1.0 -0.5
Cu : as.polynomial 0.0 1.0

[Pair]
Al-Al : as.buck 100.0 0.3 1.0
Cu-Al : as.buck 200.0 0.3 2.0
Cu-Cu : as.buck 300.0 0.3 3.0

[EAM-ADP-Dipole]
Al-Cu : {dipole}

[EAM-ADP-Quadrupole]
Al-Cu : {quadrupole}
"""

def tab(**kwargs):
  lines = ["[Tabulation]"]
  for k, v in kwargs.items():
    lines.append("{} : {}".format(k, v))
  return "\n".join(lines) + "\n"

FULL = [
  ("adp-ok", ADP.format(dipole = "as.polynomial 0.0 0.25", quadrupole = "as.polynomial 0 0 0.125")),
  ("adp-bad-dipole", ADP.format(dipole = "as.notthere 0.0 0.25", quadrupole = "as.polynomial 0 0 0.125")),
  ("adp-bad-quad-mod", ADP.format(dipole = "as.zero", quadrupole = "zzz(as.polynomial 0 0 0.125)")),
  ("adp-bad-quad-args", ADP.format(dipole = "as.zero", quadrupole = "as.buck 1.0")),
]
for target in ("setfl", "DL_POLY_EAM", "setfl_fs", "DL_POLY_EAM_fs"):
  for label, text in EAM_MODELS:
    FULL.append((target + "-" + label, tab(target = target, cutoff = 6.0, nr = 16, cutoff_rho = 3.0, nrho = 12) + text))
for target, nr in (("LAMMPS", 15), ("DLPOLY", 16), ("GULP", 9)):
  FULL.append((target + "-ok", tab(target = target, cutoff = 6.0, nr = nr) + PAIR_OK))
  for label, text in PAIR_BAD:
    FULL.append((target + "-" + label, tab(target = target, cutoff = 6.0, nr = nr) + text))

for label, text in FULL:
  emit("FULL", label)
  try:
    tabulation = Configuration().read(io.StringIO(text))
    buf = io.StringIO()
    tabulation.write(buf)
    data = buf.getvalue()
    emit("OUTPUT", type(tabulation).__name__, len(data), hashlib.sha256(data.encode("utf-8")).hexdigest())
  except Exception as e:
    emit("EXC", exc_chain(e))

text = "\n".join(OUT)
if "-v" in sys.argv or os.environ.get("TWIN_VERBOSE"):
  print(text)
print("lines", len(OUT))
print("digest", hashlib.sha256(text.encode("utf-8")).hexdigest())

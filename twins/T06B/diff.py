"""Differential script for twin B ([Table-Form:NAME] sections / _TableFormSection).

Builds many config files with well formed and malformed Table-Form sections,
records ConfigParser.table_form / duplicate checking / orphan_sections results
or the raised exception (type and message), tabulates some full models using
table forms and prints a sha256 digest of everything observed.
"""
import hashlib, io, itertools, random

from atsim.potentials.config import ConfigParser, Configuration

out = []
def rec(*a):
  out.append(repr(a))

def probe(text):
  try:
    cp = ConfigParser(io.StringIO(text))
  except Exception as e:
    return ("ctor-exc", type(e).__name__, type(e).__mro__[1].__name__, str(e))
  res = []
  try:
    tf = cp.table_form
    res.append(("ok", [(type(t).__name__, t.name, t.interpolation, t.x, t.y, type(t.x).__name__, type(t.y).__name__) for t in tf],
                type(tf).__name__, tf is cp.table_form))
  except Exception as e:
    res.append(("exc", type(e).__name__, type(e).__mro__[1].__name__, str(e)))
  res.append(("orphans", cp.orphan_sections, "parsed", cp.parsed_sections))
  return res

HEAD = "[Tabulation]\ntarget : LAMMPS\nnr : 20\ncutoff : 2.0\n\n"

bodies = {
  "xy": "xy : 0 1.0 1 2.5 2 3.5 3 -1e-3",
  "xy_multiline": "xy : 0.0 10.0\n     1.0 5.0\n     2.0\t2.5\n     3.0 1.25",
  "xy_odd": "xy : 0 1.0 1 2.5 2",
  "xy_empty": "xy :",
  "xy_bad": "xy : 0 1.0 one 2.5",
  "xy_bad2": "xy : 0 1.0 1 2.5 2 1,5",
  "xy_single": "xy : 4.0",
  "xy_pair": "xy : 4.0 5.0",
  "x_y": "x : 0 1 2 3\ny : 4 3 2 1",
  "y_x": "y : 4 3 2 1\nx : 0 1 2 3",
  "x_only": "x : 0 1 2 3",
  "y_only": "y : 0 1 2 3",
  "x_y_mismatch": "x : 0 1 2 3\ny : 4 3 2",
  "x_y_mismatch2": "x : 0\ny : 4 3 2",
  "x_bad": "x : 0 a 2 3\ny : 4 3 2 1",
  "y_bad": "x : 0 1 2 3\ny : 4 b 2 1",
  "x_y_bothbad": "x : 0 a 2 3\ny : 4 b 2 1",
  "x_y_empty": "x :\ny :",
  "x_y_xy": "x : 0 1\ny : 1 2\nxy : 0 1 1 2",
  "x_xy": "x : 0 1\nxy : 0 1 1 2",
  "y_xy": "y : 0 1\nxy : 0 1 1 2",
  "xy_x_bad": "xy : 0 q\nx : z",
  "none": "interpolation : cubic_spline",
  "empty": "",
  "spaced_keys": "x y : 0 1 1 2",
  "upper": "XY : 0 1 1 2",
  "upper_x": "X : 0 1\nY : 1 2",
  "nan_inf": "xy : 0 nan 1 inf 2 -inf 3 1e400",
  "interp_var": "xy : ${A} ${B} 1 2",
  "interp_bad_xy": "xy : ${NOPE} 1 1 2",
  "interp_bad_y": "x : 0 bad\ny : ${NOPE} 1",
  "interp_bad_x": "x : ${NOPE} bad\ny : also bad",
}
interps = [None, "cubic_spline", "linear", "  cubic_spline  ", "unknown_thing", ""]
names = ["tabulated", " spaced name ", "", "a:b", "T1"]

for (bk, body), interp in itertools.product(sorted(bodies.items()), interps):
  for name in (names if bk in ("xy", "x_y", "xy_odd", "none") else names[:1]):
    text = HEAD + "[Variables]\nA : 0.5\nB : 7\n\n[Table-Form:%s]\n" % name
    if interp is not None:
      text += "interpolation : %s\n" % interp
    text += body + "\n"
    rec(bk, interp, name, probe(text))

# Several table form sections, ordering, duplicates, near-miss section names
rnd = random.Random(12345)
sec_names = ["Table-Form:one", "Table-Form:two", "Table-Form: one ", "Table-Form:one ", "Table-Form :one", "Table-Form",
             "Table-Form:", "Table-Form: ", "table-form:one", "XTable-Form:one", "Table-Form:three", "Pair", "Species", "Other"]
for i in range(150):
  k = rnd.randint(1, 6)
  chosen = rnd.sample(sec_names, k)
  text = HEAD
  for j, sn in enumerate(chosen):
    text += "[%s]\n" % sn
    if sn == "Pair":
      text += "A-B : as.buck 1.0 0.1 0.0\n"
    elif sn == "Species":
      text += "A.charge : 1.0\n"
    elif sn == "Other":
      text += "k : v\n"
    else:
      n = rnd.randint(1, 5)
      vals = [round(rnd.uniform(-5, 5), rnd.randint(0, 6)) for _ in range(2*n)]
      if rnd.random() < 0.5:
        text += "xy : " + " ".join(repr(v) for v in vals) + "\n"
      else:
        text += "x : " + " ".join(repr(v) for v in vals[:n]) + "\n"
        text += "y : " + " ".join(repr(v) for v in vals[n:]) + "\n"
    text += "\n"
  rec("multi", i, chosen, probe(text))

# Full tabulations using table forms
MODEL = """[Tabulation]
target : {target}
cutoff : 6.0
nr : {nr}

[Pair]
O-O = as.buck 1633.010242995040 0.327022 3.948787
O-U = tabulated
U-U = >0 lin_tab >=3.0 as.zero

[Table-Form:tabulated]
{interp}
{data}

[Table-Form:lin_tab]
x : 0.0 1.0 2.0 3.0 7.0
y : 50.0 20.0 5.0 0.0 0.0
"""
datas = [
  "xy : 0.0 1939.29 0.5 400.0 1.0 90.0 2.0 12.0 3.0 1.0 4.0 -0.2 5.0 -0.05 6.0 0.0 7.0 0.0",
  "x : 0.0 0.5 1.0 2.0 3.0 4.0 5.0 6.0 7.0\ny : 1939.29 400.0 90.0 12.0 1.0 -0.2 -0.05 0.0 0.0",
  "xy : 0.0 1939.29 0.5 400.0 1.0",
  "x : 0.0 0.5\ny : 1.0",
]
for target, nr, interp, data in itertools.product(["LAMMPS", "DL_POLY", "GULP"], [12, 60],
                                                  ["", "interpolation : cubic_spline", "interpolation : linear", "interpolation : bogus"], datas):
  try:
    tab = Configuration().read(io.StringIO(MODEL.format(target=target, nr=nr, interp=interp, data=data)))
    s = io.StringIO()
    tab.write(s)
    rec("tab", target, nr, interp, data, hashlib.sha256(s.getvalue().encode()).hexdigest())
  except Exception as exc:
    rec("tab", target, nr, interp, data, "exc", type(exc).__name__, str(exc))

for f in ["docs/user_guide/example_files/basak_table_form.aspot"]:
  with open(f) as fp:
    rec("file", f, probe(fp.read()))
  with open(f) as fp:
    tab = Configuration().read(fp)
  s = io.StringIO()
  tab.write(s)
  rec("filetab", f, hashlib.sha256(s.getvalue().encode()).hexdigest())

n_exc = sum(1 for o in out if "exc'" in o)
print("records", len(out), "with-exceptions", n_exc)
print("digest", hashlib.sha256("\n".join(out).encode()).hexdigest())

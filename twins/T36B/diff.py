"""Differential script for twin B: ConfigParser._init_config_parser (read / overrides / additions),
the duplicate checks, `species` and the section properties.

Run:  /venv/bin/python -W ignore /tmp/wtpy.py /tmp/twin_36 _twins/diffB.py [-v]
"""
import io
import os
import sys

sys.path.insert(0, os.path.dirname(os.path.abspath(__file__)))
from _harness import rec, log, finish, potable, aspot_text, ASPOT_FILES, describe_exception

from atsim.potentials.config import ConfigParser, ConfigParserOverrideTuple

OT = ConfigParserOverrideTuple

PROPS = ["parsed_sections", "orphan_sections", "pair", "potential_form", "eam_embed", "eam_density", "eam_density_fs",
         "species", "table_form", "tabulation"]

def safe(fn):
  try:
    return fn()
  except Exception as e:
    return describe_exception(e)

def dump(cp):
  out = []
  raw = cp.raw_config_parser
  out.append([(s, safe(lambda: list(raw[s].items()))) for s in raw.sections()])
  out.append(list(raw.defaults().items()))
  for prop in PROPS:
    v = safe(lambda: getattr(cp, prop))
    if prop == "tabulation" and not isinstance(v, str):
      v = repr(v)
    out.append((prop, v))
  for section in ["Pair", "EAM-Embed", "Species", "Nope", "Variables", "Tabulation"]:
    out.append(("parse_pair_like", section, safe(lambda: cp.parse_pair_like(section))))
  return out

def make(text, **kwargs):
  return dump(ConfigParser(io.StringIO(text), **kwargs))

BASE = u"""[Variables]
A = 1000.0
rho  = 0.3
C = 32.0

[Tabulation]
target = LAMMPS
cutoff = 10.0
nr = 1001

[Potential-Form]
buck_morse(r, A, rho, C, D, gamma, r0) = as.buck(r,A,rho,C) + as.morse(r, gamma, r0, D)
f( r , A ) = A*r

[Species]
O.charge = -1.1104
O . atomic_mass = 15.999
U.atomic_number = 92
U.lattice_type = fcc
U.lattice_constant = 5.4
U.user thing = ${C}

[Pair]
O-O = as.buck ${A} ${rho} ${C}
U - O = >0 buck_morse 1.0 2.0 3.0 4.0 5.0 6.0 >=5 as.zero
U-U : as.constant 2.0

[My-Orphan]
k = v
"""

EAM = u"""[Tabulation]
target = setfl
nr = 100
dr = 0.05
nrho = 100
drho = 0.1

[EAM-Embed]
Al = as.sqrt 1.0
Cu : as.sqrt 2.0

[EAM-Density]
Al = as.constant 1.0
Cu = as.constant 2.0

[Pair]
Al-Al = as.zero
Cu-Al = as.zero
Cu-Cu = as.zero

[Table-Form:tf one]
x = 0 1 2 3 4 5
y = 3 4 5 6 7 8

[Table-Form: tf two ]
interpolation = cubic_spline
xy = 0 1 1 2 2 3 3 5 4 7 5 9
"""

FS = EAM.replace(u"[EAM-Density]\nAl = as.constant 1.0\nCu = as.constant 2.0\n",
                 u"[EAM-Density]\nAl->Al = as.constant 1.0\nCu -> Al = as.constant 2.0\nAl->Cu = as.constant 3.0\nCu->Cu = as.constant 4.0\n")

def variant(base, old, new):
  assert old in base, old
  return base.replace(old, new)

CASES = {
  "base" : BASE,
  "eam" : EAM,
  "fs" : FS,
  "empty" : u"",
  "only_vars" : u"[Variables]\nA=1\n",
  # duplicate pairs in the various spellings
  "dup_rev" : variant(BASE, u"U-U :", u"O-U : as.zero\nU-U :"),
  "dup_rev_first" : u"[Pair]\nB-A = as.zero\nA-B = as.zero\nC-C = as.zero\n",
  "dup_same_ws" : variant(BASE, u"U-U :", u"O - O : as.zero\nU-U :"),
  "dup_self" : u"[Pair]\nA-A = as.zero\nB-B = as.zero\nA-B = as.zero\nB-A=as.zero\n",
  "dup_case" : u"[Pair]\nA-b = as.zero\nB-a = as.zero\na-B = as.zero\n",
  "pair_badkey" : variant(BASE, u"U-U :", u"U-U-U : as.zero\nU-U :"),
  "pair_badkey_after_dup" : u"[Pair]\nA-B = as.zero\nB-A = as.zero\nXYZ = as.zero\n",
  "pair_badkey_before_dup" : u"[Pair]\nXYZ = as.zero\nA-B = as.zero\nB-A = as.zero\n",
  "pair_empty_species" : u"[Pair]\n-A = as.zero\nA- = as.zero\n",
  "pair_var_named_pair" : u"[Variables]\nA-B = 1\nB-A = 2\n[Pair]\nB-A = as.constant ${A-B}\n",
  "dup_tableform" : variant(EAM, u"[Table-Form: tf two ]", u"[Table-Form:  tf one  ]"),
  "dup_tableform_and_pair" : variant(variant(EAM, u"[Table-Form: tf two ]", u"[Table-Form:  tf one  ]"), u"Cu-Cu = as.zero", u"Al-Cu = as.zero"),
  "dup_option" : variant(BASE, u"U-U :", u"U-U : as.zero\nU-U :"),
  "dup_section" : BASE + u"\n[Pair]\nX-Y = as.zero\n",
  "no_header" : u"A = 1\n" + BASE,
  "garbage_line" : variant(BASE, u"[Pair]\n", u"[Pair]\nthis is not a key value line\n"),
  "bad_interp" : variant(BASE, u"${rho}", u"${nope}"),
  "bad_potform_sig" : variant(BASE, u"f( r , A ) = A*r", u"1f(r) = r"),
  "bad_multirange" : variant(BASE, u"U-U : as.constant 2.0", u"U-U : >>> as.constant"),
  # species
  "species_nodot" : variant(BASE, u"U.lattice_type = fcc", u"Ulattice_type = fcc"),
  "species_badfloat" : variant(BASE, u"O.charge = -1.1104", u"O.charge = minus one"),
  "species_badint" : variant(BASE, u"U.atomic_number = 92", u"U.atomic_number = 92.0"),
  "species_multi_dot" : variant(BASE, u"U.lattice_type = fcc", u"U.a.b.c = fcc\n.x = 1\nU. = 2"),
  "species_empty" : variant(BASE, u"O.charge = -1.1104\nO . atomic_mass = 15.999\nU.atomic_number = 92\nU.lattice_type = fcc\nU.lattice_constant = 5.4\nU.user thing = ${C}\n", u""),
  "species_vars_not_species" : u"[Variables]\nnodot = 1\n[Species]\nA.charge = ${nodot}\n",
  # eam
  "fs_mixed" : variant(FS, u"Al->Al = as.constant 1.0", u"Al = as.constant 1.0"),
  "fs_last_only" : variant(EAM, u"Cu = as.constant 2.0", u"Cu = as.constant 2.0\nCu->Al = as.constant 3.0"),
  "fs_bad" : variant(FS, u"Al->Al = as.constant 1.0", u"Al->Al->Al = as.constant 1.0"),
  "eam_density_empty" : variant(EAM, u"Al = as.constant 1.0\nCu = as.constant 2.0\n", u""),
  "tableform_bad" : variant(EAM, u"y = 3 4 5 6 7 8", u"y = 3 4"),
}

for name, text in sorted(CASES.items()):
  rec("case {}".format(name), make, text)

for f in ASPOT_FILES:
  rec("file {}".format(f), make, aspot_text(f))

# ---- overrides / additions / removals
OVERRIDES = {
  "ov_simple" : dict(overrides = [OT(u"Tabulation", u"nr", u"11"), OT(u"Pair", u"U-U", u"as.zero")]),
  "ov_ws_key" : dict(overrides = [OT(u"Pair", u" U\t- O ", u"as.zero"), OT(u"Potential-Form", u"f(r,A)", u"A+r")]),
  "ov_var" : dict(overrides = [OT(u"Variables", u"A", u"5.0"), OT(u"Variables", u"r h o", u"0.5")]),
  "ov_missing_key" : dict(overrides = [OT(u"Tabulation", u"nr", u"11"), OT(u"Pair", u"X-Y", u"as.zero")]),
  "ov_missing_section" : dict(overrides = [OT(u"Nope", u"nr", u"11")]),
  "ov_var_is_not_pair_key" : dict(overrides = [OT(u"Pair", u"A", u"11")]),
  "ov_missing_none_value" : dict(overrides = [OT(u"Pair", u"X-Y", None)]),
  "ov_int_value" : dict(overrides = [OT(u"Tabulation", u"nr", 11)]),
  "rm_one" : dict(overrides = [OT(u"Pair", u"U-O", None)]),
  "rm_all_pair" : dict(overrides = [OT(u"Pair", u"U-O", None), OT(u"Pair", u"O-O", None), OT(u"Pair", u"U - U", None)]),
  "rm_orphan_section" : dict(overrides = [OT(u"My-Orphan", u"k", None)]),
  "rm_then_override" : dict(overrides = [OT(u"Pair", u"U-O", None), OT(u"Pair", u"U-O", u"as.zero")]),
  "rm_twice" : dict(overrides = [OT(u"My-Orphan", u"k", None), OT(u"My-Orphan", u"k", None)]),
  "rm_var" : dict(overrides = [OT(u"Variables", u"C", None)]),
  "rm_all_vars" : dict(overrides = [OT(u"Variables", u"C", None), OT(u"Variables", u"A", None), OT(u"Variables", u"rho", None)]),
  "rm_empty_section_name" : dict(overrides = [OT(u"", u"C", None)]),
  "add_simple" : dict(additional = [OT(u"Pair", u"Th-O", u"as.zero"), OT(u"Tabulation", u"dr", u"0.01")]),
  "add_new_section" : dict(additional = [OT(u"Species", u"Th.charge", u"2.2"), OT(u"Brand New", u"k k", u"${A}"), OT(u"Brand New", u"l", u"m")]),
  "add_existing" : dict(additional = [OT(u"Pair", u"Th-O", u"as.zero"), OT(u"Pair", u"O - O", u"as.zero")]),
  "add_twice" : dict(additional = [OT(u"Pair", u"Th-O", u"as.zero"), OT(u"Pair", u"Th -O", u"as.zero")]),
  "add_dup_reversed_pair" : dict(additional = [OT(u"Pair", u"O-U", u"as.zero")]),
  "add_var" : dict(additional = [OT(u"Variables", u"NEW", u"1"), OT(u"Pair", u"Th-O", u"as.constant ${NEW}")]),
  "add_var_existing" : dict(additional = [OT(u"Variables", u"A", u"1")]),
  "add_key_that_is_var" : dict(additional = [OT(u"My-Orphan", u"A", u"not a var")]),
  "add_empty_section_name" : dict(additional = [OT(u"", u"Z", u"1")]),
  "add_tableform_dup" : dict(additional = [OT(u"Table-Form:a", u"xy", u"1 2"), OT(u"Table-Form: a ", u"xy", u"1 2")]),
  "ov_and_add" : dict(overrides = [OT(u"Pair", u"U-O", None)], additional = [OT(u"Pair", u"O-U", u"as.zero")]),
  "ov_added_key" : dict(overrides = [OT(u"Pair", u"Th-O", u"as.zero")], additional = [OT(u"Pair", u"Th-O", u"as.zero")]),
  "rm_section_then_add" : dict(overrides = [OT(u"My-Orphan", u"k", None)], additional = [OT(u"My-Orphan", u"k2", u"v2")]),
  "tuples_not_namedtuples" : dict(overrides = [(u"Pair", u"U-O", None)]),
  "generators" : dict(overrides = (o for o in [OT(u"Tabulation", u"nr", u"11")]), additional = iter([OT(u"Pair", u"Th-O", u"as.zero")])),
}

for name, kwargs in sorted(OVERRIDES.items()):
  rec("override {}".format(name), make, BASE, **kwargs)

rec("override eam rm density", make, EAM, overrides = [OT(u"EAM-Density", u"Al", None), OT(u"EAM-Density", u"Cu", None)])
rec("override eam fs add", make, EAM, additional = [OT(u"EAM-Density", u"Al->Cu", u"as.zero")])
rec("override zbl remove all tabulation", make, aspot_text("tests/lammps_resources/zbl_spline.aspot"), overrides = [
  OT(u"Tabulation", u"nr", None), OT(u"Tabulation", u"target", None), OT(u"Tabulation", u"cutoff", None)])

# a binary/odd file object
rec("fp list of lines", lambda: dump(ConfigParser(BASE.splitlines(True))))
rec("fp None", lambda: dump(ConfigParser(None)))

# ---- end to end through potable
for name in ["base", "eam", "fs", "dup_rev", "dup_tableform", "dup_option", "no_header", "species_nodot", "pair_badkey"]:
  potable("potable list {}".format(name), CASES[name], ["--list-items"])
potable("potable base tabulate", BASE, [], want_output = True)
potable("potable base tabulate override", BASE, ["--override-item", "Tabulation:nr=11", "Pair:U - U=as.constant 3.0", "--remove-item", "Pair:O-O"], want_output = True)
potable("potable base add", BASE, ["--add-item", "Pair:Th-O=as.constant 1.0", "Variables:Q=1", "-l"])
potable("potable base add dup", BASE, ["--add-item", "Pair:O-U=as.constant 1.0", "-l"])
potable("potable base add existing", BASE, ["--add-item", "Pair:U-O=as.constant 1.0", "-l"])
potable("potable base override missing", BASE, ["-e", "Pair:Th-O=as.constant 1.0", "-l"])
potable("potable base remove missing", BASE, ["-r", "Pair:Th-O", "-l"])
potable("potable eam tabulate", EAM, [], want_output = True)
potable("potable fs tabulate", variant(FS, u"target = setfl", u"target = setfl_fs"), [], want_output = True)
for f in ASPOT_FILES:
  potable("potable tabulate {}".format(f), aspot_text(f), ["-e", "Tabulation:nr=50"] if "Tabulation]" in aspot_text(f) and "\nnr " in aspot_text(f) else [], want_output = True)

finish()

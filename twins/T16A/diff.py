"""Differential script for twin A (GULP + Excel pair/EAM tabulation writers).

Prints a deterministic digest of everything produced through the public API.
Run with:  /venv/bin/python -W ignore /tmp/wtpy.py <worktree> _twins/diffA.py
"""
import hashlib
import io
import math

from openpyxl import load_workbook

import atsim.potentials as ap
from atsim.potentials import Potential, EAMPotential, potentialforms, writePotentials
from atsim.potentials import pair_tabulation, eam_tabulation
from atsim.potentials.config import Configuration

records = []


def rec(tag, value):
  records.append("{}::{!r}".format(tag, value))


class Recording_FP(object):
  """File-like object remembering each individual write() call"""

  def __init__(self):
    self.calls = []

  def write(self, s):
    self.calls.append(s)


class Boom(Exception):
  pass


def exploding(limit):
  def f(r):
    if r > limit:
      raise Boom("too far")
    return 1.0 / (1.0 + r)
  return f


def attempt(tag, func):
  try:
    rec(tag, func())
  except Exception as e:  # noqa
    rec(tag, "EXC " + type(e).__name__)


def dump_wb(wb):
  out = []
  for ws in wb.worksheets:
    out.append((ws.title, ws.dimensions, ws.max_row, ws.max_column))
    for row in ws.iter_rows():
      out.append(tuple((c.coordinate, c.data_type, c.value) for c in row))
  return out


# ---------------------------------------------------------------- GULP
def gt0(form):
  """`form` for r > 0 and zero at the origin (most forms are singular at r == 0)"""
  return ap.create_Multi_Range_Potential_Form(ap.Multi_Range_Defn(">", 0, form))


raw_buck = potentialforms.buck(1000.0, 0.23, 11.6)
buck = gt0(raw_buck)
lj = gt0(potentialforms.lj(0.1, 2.5))
bm = potentialforms.morse(0.8, 1.7, 0.2)
morse = potentialforms.morse(1.5, 2.0, 0.3)
poly = potentialforms.polynomial(0.0, 1.0, -0.5)

pot_sets = {
  "one": [Potential(u"Au", u"B", buck)],
  "three": [Potential(u"O", u"U", buck), Potential(u"U", u"U", morse), Potential(u"O", u"O", lj)],
  "rev": [Potential(u"Zr", u"Al", poly), Potential(u"Al", u"Al", lj)],
  "bm": [Potential(u"Mg", u"O", bm), Potential(u"O", u"O", poly)],
  "singular": [Potential(u"Mg", u"O", bm), Potential(u"O", u"O", raw_buck)],
  "empty": [],
}

for name, pots in sorted(pot_sets.items()):
  for cutoff, nr in [(10.0, 500), (6.5, 14), (3, 2), (12.25, 101), (5.0, 0), (5.0, 1), (7, 3)]:
    def run(pots=pots, cutoff=cutoff, nr=nr):
      fp = Recording_FP()
      tab = pair_tabulation.GULP_PairTabulation(pots, cutoff, nr)
      try:
        tab.write(fp)
      except Exception as e:
        return ("EXC", type(e).__name__, fp.calls)
      return (tab.target, tab.type, tab.nr, tab.cutoff, tab.dr if nr != 1 else None, fp.calls)
    attempt("gulp-class {} {} {}".format(name, cutoff, nr), run)

    def run2(pots=pots, cutoff=cutoff, nr=nr):
      sio = io.StringIO()
      writePotentials('GULP', pots, cutoff, nr, sio)
      return sio.getvalue()
    attempt("gulp-writePotentials {} {} {}".format(name, cutoff, nr), run2)

# Failing evaluation part way through: nothing may reach fp
for limit in [-1.0, 0.0, 2.0, 9.99]:
  def run(limit=limit):
    fp = Recording_FP()
    pots = [Potential(u"A", u"B", lj), Potential(u"B", u"B", exploding(limit))]
    tab = pair_tabulation.GULP_PairTabulation(pots, 10.0, 50)
    try:
      tab.write(fp)
    except Exception as e:
      return ("EXC", type(e).__name__, str(e), fp.calls)
    return fp.calls
  attempt("gulp-boom {}".format(limit), run)

# Malformed potential objects
attempt("gulp-badobj", lambda: pair_tabulation.GULP_PairTabulation([object()], 10.0, 5).write(Recording_FP()))
attempt("gulp-none", lambda: pair_tabulation.GULP_PairTabulation(None, 10.0, 5).write(Recording_FP()))
attempt("gulp-strnr", lambda: pair_tabulation.GULP_PairTabulation(pot_sets["one"], 10.0, "5").write(Recording_FP()))
attempt("gulp-nonefp", lambda: pair_tabulation.GULP_PairTabulation(pot_sets["one"], 10.0, 5).write(None))
attempt("unsupported", lambda: writePotentials('EXCEL', pot_sets["one"], 10.0, 5, io.StringIO()))

# Other pair tabulations share the base class
for cls in [pair_tabulation.LAMMPS_PairTabulation, pair_tabulation.DLPoly_PairTabulation]:
  def run(cls=cls):
    sio = io.StringIO()
    tab = cls(pot_sets["three"], 8.0, 20)
    tab.write(sio)
    return (tab.target, tab.dr, sio.getvalue())
  attempt("other " + cls.__name__, run)

# ---------------------------------------------------------------- Excel (objects)
for name, pots in sorted(pot_sets.items()):
  for cutoff, nr in [(5.0, 11), (6.5, 4), (3, 2), (5.0, 0), (5.0, 1)]:
    def run(pots=pots, cutoff=cutoff, nr=nr):
      tab = pair_tabulation.Excel_PairTabulation(pots, cutoff, nr)
      wb = tab.workbook
      same = tab.workbook is wb
      bio = io.BytesIO()
      tab.write(bio)
      bio.seek(0)
      wb2 = load_workbook(bio)
      return (tab.target, same, dump_wb(wb), dump_wb(wb2))
    attempt("excel-class {} {} {}".format(name, cutoff, nr), run)

attempt("excel-boom", lambda: dump_wb(pair_tabulation.Excel_PairTabulation(
  [Potential(u"A", u"B", exploding(2.0))], 5.0, 11).workbook))
attempt("excel-dup", lambda: dump_wb(pair_tabulation.Excel_PairTabulation(
  [Potential(u"A", u"B", lj), Potential(u"B", u"A", buck)], 5.0, 6).workbook))
attempt("excel-badobj", lambda: dump_wb(pair_tabulation.Excel_PairTabulation([object()], 5.0, 6).workbook))


def dens_a(r):
  return math.exp(-r)


def dens_b(r):
  return 2.0 * math.exp(-0.5 * r)


def embed_a(rho):
  return -math.sqrt(rho)


def embed_b(rho):
  return -0.5 * rho


eampots = [EAMPotential(u"Al", 13, 26.98, embed_a, dens_a), EAMPotential(u"Cu", 29, 63.55, embed_b, dens_b)]
pairpots = [Potential(u"Cu", u"Al", lj), Potential(u"Al", u"Al", buck), Potential(u"Cu", u"Cu", morse)]
for cutoff, nr, cutoff_rho, nrho in [(5.0, 11, 10.0, 6), (4.0, 3, 2.0, 9), (4.0, 2, 2.0, 2)]:
  def run(a=(cutoff, nr, cutoff_rho, nrho)):
    tab = eam_tabulation.Excel_EAMTabulation(pairpots, eampots, *a)
    bio = io.BytesIO()
    tab.write(bio)
    bio.seek(0)
    return (tab.target, dump_wb(tab.workbook), dump_wb(load_workbook(bio)))
  attempt("excel-eam {} {} {} {}".format(cutoff, nr, cutoff_rho, nrho), run)

fs_eampots = [
  EAMPotential(u"Al", 13, 26.98, embed_a, {u"Al": dens_a, u"Cu": dens_b}),
  EAMPotential(u"Cu", 29, 63.55, embed_b, {u"Cu": dens_b, u"Al": dens_a})]
for cutoff, nr, cutoff_rho, nrho in [(5.0, 11, 10.0, 6), (4.0, 3, 2.0, 9)]:
  def run(a=(cutoff, nr, cutoff_rho, nrho)):
    tab = eam_tabulation.Excel_FinnisSinclair_EAMTabulation(pairpots, fs_eampots, *a)
    return (tab.target, dump_wb(tab.workbook))
  attempt("excel-eam-fs {} {} {} {}".format(cutoff, nr, cutoff_rho, nrho), run)

# ---------------------------------------------------------------- through Configuration
configs = {
  "gulp1": u"""[Tabulation]
target : GULP
dr : 0.01
cutoff : 5

[Pair]
O-O : as.polynomial 0 1
Al-O : >0 as.buck 1000.0 0.3 32.0
""",
  "gulp2": u"""[Tabulation]
target : GULP
nr : 37
cutoff : 7.5

[Pair]
U-O : as.exponential 1761.775 2.8
O-O : >0 as.buck 9547.96 0.2192 32.0
Zr-U : >0 as.lj 0.01 3.0
U-U : >0 as.zero >=1.5 as.morse 1.2 2.0 0.5
""",
  "excel": u"""[Tabulation]
target : excel
dr : 0.25
cutoff : 5

[Pair]
O-O : as.polynomial 0 1
Al-O : as.polynomial 0 2
Al-Al : >0 as.buck 1000.0 0.3 32.0
""",
  "excel_eam": u"""[Tabulation]
target : excel_eam
dr : 0.5
cutoff : 5
drho : 0.25
cutoff_rho : 3

[Pair]
O-O : as.polynomial 0 1
Al-O : as.polynomial 0 2

[EAM-Density]
O : as.polynomial 0 3
Al : as.polynomial 0 4

[EAM-Embed]
O : as.polynomial 0 5
Al : as.polynomial 0 6
""",
  "excel_eam_fs": u"""[Tabulation]
target : excel_eam_fs
dr : 0.5
cutoff : 5
drho : 0.5
cutoff_rho : 5

[Pair]
O-O : as.polynomial 0 1
Al-O : as.polynomial 0 2

[EAM-Density]
Al->O : as.polynomial 0 3
Al->Al : as.polynomial 0 4

[EAM-Embed]
O : as.polynomial 0 5
Al : as.polynomial 0 6
""",
}

for name, cfg in sorted(configs.items()):
  def run(cfg=cfg):
    tab = Configuration().read(io.StringIO(cfg))
    if tab.target.startswith("excel"):
      bio = io.BytesIO()
      tab.write(bio)
      bio.seek(0)
      return (type(tab).__name__, dump_wb(load_workbook(bio)))
    sio = io.StringIO()
    tab.write(sio)
    return (type(tab).__name__, sio.getvalue())
  attempt("config " + name, run)

h = hashlib.sha256()
for r in records:
  h.update(r.encode("utf-8"))
  h.update(b"\n")
print("records", len(records))
print("excs", sum(1 for r in records if "EXC" in r))
print("digest", h.hexdigest())

"""Differential script for twin C (potable query actions and FilteredConfigParser._check_tuple).

Calls every function of atsim.potentials.tools.potable._query_actions (public actions and the
private listing helpers) on plain and species-filtered parsers for pair, EAM, Finnis-Sinclair,
ADP, table-form, [Variables] and orphan-section models, in different section orders; exercises
FilteredConfigParser (pair / eam_embed / eam_density / eam_density_fs / _check_tuple) with many
include / exclude lists and container types; and runs the command line with query and
filter options.  Return values (order preserved), stdout text, exception types/messages and
tabulated output bytes are digested.
"""
import contextlib
import io
import os
import sys

sys.path.insert(0, os.path.dirname(os.path.abspath(__file__)))
import harness
from harness import res, run_cli, guarded, captured_logs, Digest

from atsim.potentials.config import ConfigParser, FilteredConfigParser, Configuration
from atsim.potentials.tools.potable import _query_actions as qa

FILES = [
  res("docs", "user_guide", "example_files", "morelon.aspot"),
  res("docs", "user_guide", "example_files", "standard_eam.aspot"),
  res("docs", "user_guide", "example_files", "finnis_sinclair_eam.aspot"),
  res("docs", "user_guide", "example_files", "basak_table_form.aspot"),
  res("docs", "user_guide", "example_files", "exp_spline.aspot"),
  res("docs", "user_guide", "example_files", "Ag_sutton.aspot"),
  res("docs", "user_guide", "example_files", "basak_custom_potential_form_a.aspot"),
  res("docs", "quick_start", "basak.aspot"),
  res("tests", "lammps_resources", "CRG_U_Th.aspot"),
  res("tests", "lammps_resources", "Al_Cu_adp.aspot"),
  res("tests", "lammps_resources", "AlFe_setfl_fs.aspot"),
  res("tests", "lammps_resources", "zbl_spline.aspot"),
  res("tests", "dl_poly_resources", "CRG_Ce.aspot"),
  res("tests", "config", "config_resources", "setfl.aspot"),
  res("tests", "config", "config_resources", "spinel.aspot"),
]

TEXTS = {
  "empty": u"",
  "only_pair": u"[Pair]\nA-B = as.zero\n",
  "only_orphan": u"[Whatever]\nk = v\nk2 : v2\n[Another]\n",
  "reordered": u"""[Orphan-One]
a = 1

[EAM-Density]
B = as.polynomial 0 3
A = as.polynomial 0 2

[Table-Form:zz]
interpolation : cubic_spline
x : 0 1 2 3 4
y : 4 3 2 1 0

[Pair]
B-A = as.buck 1000 0.3 0
A-A = zz
C-A = as.zero
C-C = as.zero

[Species]
A.atomic_number = 3

[Potential-Form]
f(r, a ,  b) = a*r + b

[EAM-Embed]
B = as.sqrt -1
C = as.zero
A = f 1 2

[Table-Form:aa]
interpolation : cubic_spline
xy : 0 1 1 0 2 0 3 0

[Tabulation]
nr : 11
target : setfl
cutoff : 4.0

[Orphan-Two]
b : 2
c = 3
""",
  "fs_density": u"""[EAM-Density]
A->B = as.polynomial 0 3
B -> A = as.polynomial 0 2
B->B = as.zero
A->A = as.zero
C->A = as.zero

[EAM-Embed]
A = as.zero
B = as.zero
""",
  "variables": u"""[Variables]
A_OO = 1633.0
rho = 0.327
nr = 17

[Tabulation]
target : GULP
cutoff : 5.0

[Pair]
O-O = as.buck ${A_OO} ${rho} 3.948787
U-O = as.buck 693.6 ${rho} 0.0
""",
  "bad_interpolation": u"""[Tabulation]
target : GULP

[Pair]
O-O = as.buck ${missing} 0.3 0.0
""",
  "dipole_only": u"""[EAM-ADP-Dipole]
A-B = as.zero
[EAM-ADP-Quadrupole]
A-A = as.zero
[Critical]
x = 1
""",
}

FILTERS = [
  None,
  ("exclude", []), ("include", []),
  ("exclude", ["O"]), ("include", ["O"]),
  ("exclude", ["A"]), ("include", ["A"]), ("include", ["A", "B"]), ("include", ["B", "A"]), ("exclude", ["B", "C"]),
  ("include", ("U", "O")), ("exclude", {"Th"}), ("include", {"Al": 1, "Fe": 2}), ("include", "AB"), ("exclude", "Cu"),
  ("include", ["Mg", "O", "Al"]), ("exclude", ["Ga", "In"]),
]

KEYS = ["Tabulation:target", "Tabulation:nr", "Tabulation:missing", "Pair:O-O", "Pair:A-B", "Pair:B-A", "EAM-Density:A->B",
        "EAM-Density:B->A", "EAM-Embed:A", "Table-Form:zz:x", "Table-Form:tabulated:interpolation", "Table-Form:zz", "Orphan-Two:c",
        "Variables:rho", "Tabulation:rho", "Pair:rho", "nocolon", "", ":", "Pair:", ":O-O", "Missing:key", "Potential-Form:f(r,a,b)",
        "Potential-Form:f(r, a ,  b)", "Species:A.atomic_number"]


def open_source(src):
  if src in TEXTS:
    return io.StringIO(TEXTS[src])
  return open(src)


def make_cp(src, flt):
  with open_source(src) as fp:
    cp = ConfigParser(fp)
  if flt is not None:
    kind, species = flt
    cp = FilteredConfigParser(cp, **{kind: species})
  return cp


def with_stdout(fn, *args):
  buf = io.StringIO()
  with contextlib.redirect_stdout(buf):
    r = guarded(fn, *args)
  return (r, buf.getvalue())


def species_of(entries):
  return [p.species if isinstance(p.species, str) else tuple(p.species) for p in entries]


def query_everything(d, label, cp):
  for name in ("_list_items", "_list_item_labels", "_list_plot_item_labels", "_list_pair", "_list_potential_form",
               "_list_tabulation", "_list_eam_dens", "_list_eam_embed", "_list_table_forms"):
    d.add("{}:{}".format(label, name), guarded(getattr(qa, name), cp))
  d.add(label + ":orphans", guarded(lambda: qa._parse_raw(cp, cp.orphan_sections)))
  d.add(label + ":parse_raw_fixed", guarded(qa._parse_raw, cp, ["Pair", "Nope", "Tabulation"]))
  d.add(label + ":parse_raw_empty", guarded(qa._parse_raw, cp, []))
  for section in ("Pair", "Tabulation", "Variables", "DEFAULT", "Nope", "Species", "Table-Form:zz", ""):
    d.add("{}:_list_section:{}".format(label, section), guarded(qa._list_section, cp, section))
  d.add(label + ":action_list_items", with_stdout(qa.action_list_items, cp))
  d.add(label + ":action_list_item_labels", with_stdout(qa.action_list_item_labels, cp))
  for key in KEYS:
    d.add("{}:_item_value:{}".format(label, key), guarded(qa._item_value, cp, key))
    d.add("{}:action_item_value:{}".format(label, key), with_stdout(qa.action_item_value, cp, key))


def filtered_views(d, label, cp):
  for attr in ("pair", "eam_embed", "eam_density", "eam_density_fs"):
    d.add("{}:{}".format(label, attr), guarded(lambda: species_of(getattr(cp, attr))))
  d.add(label + ":passthrough", guarded(lambda: (sorted(cp.parsed_sections), cp.orphan_sections, cp.tabulation.target, sorted(cp.species))))


def main():
  d = Digest()

  sources = FILES + sorted(TEXTS)
  for src in sources:
    name = os.path.relpath(src, harness.WT) if src not in TEXTS else "text:" + src
    for flt in FILTERS:
      label = "{}|{}".format(name, flt if not isinstance(flt, tuple) or not isinstance(flt[1], (set, dict)) else (flt[0], sorted(flt[1])))
      r = guarded(make_cp, src, flt)
      if r[0] != "ok":
        d.add(label + ":make", r)
        continue
      cp = make_cp(src, flt)
      if flt is None or flt in (("exclude", ["O"]), ("include", ["A", "B"]), ("include", [])):
        query_everything(d, label, cp)
      filtered_views(d, label, cp)

  # _check_tuple directly
  with open_source("reordered") as fp:
    base = ConfigParser(fp)
  check_inputs = [(), ("A",), ("A", "B"), ("B", "A"), ("A", "A"), ("C", "A", "B"), ["A", "Z"], "AB", "", ("AB",), (None,), (1, 2),
                  (("A",),), 5, None, iter(["A", "Z", "B"]), {"A": 1}, {"A", "B"}]
  ctor_args = [dict(), dict(exclude=None), dict(include=None), dict(exclude=[]), dict(include=[]), dict(exclude=["A"]), dict(include=["A"]),
               dict(include=["A", "B"]), dict(exclude=["A", "B"]), dict(include="AB"), dict(exclude="AB"), dict(include=("A",), exclude=[]),
               dict(include=[], exclude=["B"]), dict(include=["A"], exclude=["B"]), dict(include={"A", "B"}), dict(exclude={"A": 0}),
               dict(include=5), dict(exclude=5), dict(include=[None, 1])]
  for kwargs in ctor_args:
    kl = repr(sorted((k, sorted(v) if isinstance(v, (set, dict)) else v) for k, v in kwargs.items()))
    r = guarded(FilteredConfigParser, base, **kwargs)
    if r[0] != "ok":
      d.add("ctor:" + kl, r)
      continue
    fcp = FilteredConfigParser(base, **kwargs)
    for ci in check_inputs:
      if hasattr(ci, "__next__"):
        ci = iter(["A", "Z", "B"])
      il = repr(sorted(ci)) if isinstance(ci, (set, dict)) else ("<iter>" if hasattr(ci, "__next__") else repr(ci))
      rest = None
      r = guarded(fcp._check_tuple, ci)
      if hasattr(ci, "__next__"):
        rest = list(ci)      # how much of the iterator was consumed (short-circuit position)
      d.add("check:{}:{}".format(kl, il), (r, rest))
    filtered_views(d, "ctor:" + kl, fcp)

  # Tabulation through filtered parsers (written bytes)
  def tabulate(src, flt):
    cp = make_cp(src, flt)
    tabulation = Configuration().read_from_parser(cp)
    buf = io.StringIO()
    tabulation.write(buf)
    import hashlib
    data = buf.getvalue().encode("utf-8")
    return (type(tabulation).__name__, len(data), hashlib.sha256(data).hexdigest())

  for src, flt in [("reordered", None), ("reordered", ("exclude", ["C"])), ("reordered", ("include", ["A", "B"])), ("reordered", ("include", ["B"])),
                   ("reordered", ("exclude", ["A"])), ("variables", ("exclude", ["U"])), ("variables", ("include", ["U"])),
                   (res("docs", "user_guide", "example_files", "finnis_sinclair_eam.aspot"), ("include", ["B"])),
                   (res("docs", "user_guide", "example_files", "finnis_sinclair_eam.aspot"), ("exclude", ["B"])),
                   (res("docs", "user_guide", "example_files", "standard_eam.aspot"), ("exclude", ["A"]))]:
    with captured_logs() as logs:
      r = guarded(tabulate, src, flt)
    d.add("tabulate:{}|{}".format(os.path.basename(src), flt), (r, logs))

  # Command line
  morelon = res("docs", "user_guide", "example_files", "morelon.aspot")
  crg = res("tests", "lammps_resources", "CRG_U_Th.aspot")
  adp = res("tests", "lammps_resources", "Al_Cu_adp.aspot")
  cli = [
    ([morelon, "-l"], False), ([morelon, "--list-item-labels"], False), ([morelon, "--item-value", "Pair:O-U"], False),
    ([morelon, "--item-value", "Pair:U-O"], False), ([morelon, "--item-value", "bad"], False),
    ([crg, "-l"], False), ([crg, "--list-item-labels", "--exclude-species", "U"], False), ([crg, "--item-value", "EAM-Embed:Th"], False),
    ([crg, "--item-value", "Potential-Form:density(r,n)"], False),
    ([adp, "--list-item-labels"], False), ([adp, "--item-value", "EAM-ADP-Dipole:Al-Cu"], False), ([adp, "--item-value", "Table-Form:ro_Cu:interpolation"], False),
    (["r.aspot", "-l"], False), (["r.aspot", "--list-item-labels"], False), (["r.aspot", "--item-value", "Table-Form:aa:xy"], False),
    (["r.aspot", "--include-species", "A", "B"], True), (["r.aspot", "--exclude-species", "C", "A"], True),
    (["r.aspot", "--include-species", "C"], True), (["r.aspot", "--include-species"], True), (["r.aspot", "--exclude-species"], True),
    (["v.aspot", "-l"], False), (["v.aspot", "--list-item-labels"], False), (["v.aspot", "--item-value", "Variables:nr"], False),
    (["v.aspot", "--item-value", "Pair:O-O"], False), (["b.aspot", "-l"], False), (["b.aspot", "--item-value", "Pair:O-O"], False),
    (["v.aspot", "--exclude-species", "U"], True),
  ]
  tmp = {"r.aspot": TEXTS["reordered"], "v.aspot": TEXTS["variables"], "b.aspot": TEXTS["bad_interpolation"]}
  for argv, want_out in cli:
    r = run_cli(argv, out_name="o.tab", want_out=want_out, tmp_files=tmp)
    d.add("cli:" + repr(r["argv"]), sorted(r.items()))

  d.finish()


if __name__ == "__main__":
  main()

"""Differential script for twin B (LAMMPS table writer, Potential, gradient/num_deriv/deriv).
Prints one sha256 digest over all outputs / exception type names."""
import hashlib, io, os, sys
from decimal import Decimal
from fractions import Fraction

import atsim.potentials as P
from atsim.potentials import _lammps_writeTABLE as L
from atsim.potentials import _util as U
from atsim.potentials.pair_tabulation import LAMMPS_PairTabulation
from atsim.potentials.config import Configuration

H = hashlib.sha256()
NCASE = [0]

def rec(label, thunk):
  NCASE[0] += 1
  try:
    v = thunk()
    s = "OK:" + repr(v)
  except BaseException as e:
    s = "EXC:" + type(e).__name__ + ":" + str(e)
  H.update(("%s=>%s\n" % (label, s)).encode("utf-8"))

class Rec(io.StringIO):
  def __init__(self):
    super().__init__()
    self.calls = []
  def write(self, s):
    self.calls.append(s)
    return super().write(s)

class Boom(Exception):
  pass

class Trace(object):
  def __init__(self, f, log, name, fail_at=None, with_deriv=False, with_deriv2=False):
    self.f, self.log, self.name, self.fail_at = f, log, name, fail_at
    self.n = 0
    if with_deriv:
      self.deriv = self._deriv
    if with_deriv2:
      self.deriv2 = self._deriv2
  def __call__(self, r):
    self.n += 1
    self.log.append((self.name, "E", repr(r)))
    if self.fail_at is not None and self.n == self.fail_at:
      raise Boom("fail")
    return self.f(r)
  def _deriv(self, r):
    self.log.append((self.name, "D", repr(r)))
    return -2.0 * self.f(r) / r
  def _deriv2(self, r):
    self.log.append((self.name, "D2", repr(r)))
    return 6.0 * self.f(r) / (r * r)

class Duck(object):
  def __init__(self, a, b, log):
    self.speciesA, self.speciesB, self.log = a, b, log
  def energy(self, r):
    self.log.append(("duck", "E", repr(r)))
    return 1.0 / r
  def force(self, r):
    self.log.append(("duck", "F", repr(r)))
    return 1.0 / (r * r)

def pots(log=None, fail_at=None, deriv=False, h=None):
  log = [] if log is None else log
  kw = {} if h is None else {"h": h}
  return [
    P.Potential("Gd", "O", Trace(P.buck(1000.0, 0.3, 32.0), log, "buck", fail_at), **kw),
    P.Potential("O", "O", Trace(lambda r: 4.0 / r ** 2, log, "inv2", None, deriv, deriv), **kw),
    P.Potential(u"Zr", 7, Trace(P.plus(P.bornmayer(900.0, 0.25), P.coul(2.0, -2.0)), log, "bm", None), **kw),
  ]

def run_write(minr, maxr, grid, plist_factory):
  log = []
  out = Rec()
  try:
    L.writePotentials(plist_factory(log), minr, maxr, grid, out)
    status = "ok"
  except BaseException as e:
    status = type(e).__name__ + ":" + str(e)
  return (status, out.calls, log)

# 1. module-level writer on a grid of (valid + malformed) arguments
for minr, maxr in ((0.1, 6.5), (1, 10), (0.0, 1.0), (2.0, 2.0), (5.0, 1.0), (Fraction(1, 10), 3.0), (Decimal("0.5"), 3.0),
                   (Decimal("0.5"), Decimal("3.0")), ("0.1", 3.0), (0.1, None), (float("nan"), 2.0), (0.5, float("inf"))):
  for grid in (1, 2, 3, 10, 65, 0, -3, 4.0, 2.5, "5", None, True):
    rec("w/%r/%r/%r" % (minr, maxr, grid), lambda: run_write(minr, maxr, grid, lambda log: pots(log)))

# 2. failure part way through
for fail_at in (1, 2, 3, 4, 5, 9, 15, 16):
  rec("fail/%d" % fail_at, lambda: run_write(0.5, 5.0, 5, lambda log: pots(log, fail_at)))

# 3. misc potential lists
rec("deriv", lambda: run_write(0.5, 5.0, 7, lambda log: pots(log, None, True)))
rec("h", lambda: run_write(0.5, 5.0, 7, lambda log: pots(log, None, False, 1e-3)))
rec("h0", lambda: run_write(0.5, 5.0, 7, lambda log: pots(log, None, False, 0.0)))
rec("hstr", lambda: run_write(0.5, 5.0, 7, lambda log: pots(log, None, False, "a")))
rec("duck", lambda: run_write(0.5, 5.0, 7, lambda log: [Duck("A", "B", log), Duck(1, None, log)]))
rec("gen", lambda: run_write(0.5, 5.0, 4, lambda log: (p for p in pots(log))))
rec("empty", lambda: run_write(0.5, 5.0, 4, lambda log: []))
rec("one", lambda: run_write(0.5, 5.0, 4, lambda log: pots(log)[:1]))
rec("notiter", lambda: run_write(0.5, 5.0, 4, lambda log: 5))
rec("badpot", lambda: run_write(0.5, 5.0, 4, lambda log: [object()]))
rec("badpot0", lambda: run_write(0.5, 5.0, 0, lambda log: [object()]))
rec("returns-str", lambda: run_write(0.5, 5.0, 4, lambda log: [P.Potential("A", "B", lambda r: "x")]))
rec("returns-int", lambda: run_write(0.5, 5.0, 4, lambda log: [P.Potential("A", "B", lambda r: 3)]))
rec("returns-none", lambda: run_write(0.5, 5.0, 4, lambda log: [P.Potential("A", "B", lambda r: None)]))
rec("linesep", lambda: repr(os.linesep))

# 4. _writeSinglePotential directly
def single():
  res = []
  for minr, maxr, grid in ((0.1, 6.5, 5), (0.1, 6.5, 1), (0.1, 6.5, 0), (1, 2, 3), ("a", 2, 3), (1, 2, "3"), (1, 2, 2.0)):
    log = []
    out = Rec()
    try:
      L._writeSinglePotential(pots(log)[1], minr, maxr, grid, out)
      res.append(("ok", out.calls, log))
    except BaseException as e:
      res.append((type(e).__name__, str(e), out.calls, log))
  return res
rec("single", single)

# 5. Potential object + _util functions
def potential_api():
  res = []
  log = []
  for p in pots(log, None, True) + pots(log, None, False, 1e-4):
    res.append((p.speciesA, p.speciesB, p.potentialFunction.name, type(p._derivFunction).__name__, hasattr(p._derivFunction, "deriv")))
    for r in (0.5, 1.0, 2.75, 10, Fraction(3, 2)):
      res.append((p.energy(r), p.force(r)))
  res.append(log)
  for ctor in (lambda: P.Potential("A", "B"), lambda: P.Potential("A", "B", None).force(1.0), lambda: P.Potential("A", "B", None).energy(1.0),
               lambda: P.Potential("A", "B", abs, h="q").force(1.0), lambda: P.Potential("A", "B", abs, 0).force(1.0),
               lambda: P.Potential("A", "B", abs).force("x"), lambda: P.Potential("A", "B", abs).force(None)):
    try:
      res.append(repr(ctor()))
    except BaseException as e:
      res.append((type(e).__name__, str(e)))
  return res
rec("potential", potential_api)

def util_api():
  res = []
  log = []
  fs = [Trace(lambda r: r ** 3, log, "c"), Trace(lambda r: r ** 3, log, "cd", None, True), Trace(lambda r: r ** 3, log, "cdd", None, True, True),
        Trace(lambda r: r ** 3, log, "c2", None, False, True), Trace(lambda r: r ** 3, log, "cf", 2)]
  for f in fs:
    for r in (0.0, 1.0, -2.5, 3, 1e8, 1e-9, Fraction(1, 3)):
      for h in (None, 1e-6, 1e-3, 1, 0.0, Fraction(1, 1000)):
        for fn in (U.num_deriv, U.deriv, P.num_deriv, P.deriv):
          try:
            res.append(repr(fn(r, f) if h is None else fn(r, f, h)))
          except BaseException as e:
            res.append((type(e).__name__, str(e)))
        try:
          g = U.gradient(f) if h is None else U.gradient(f, h)
          res.append((type(g).__name__, hasattr(g, "deriv"), sorted(vars(g)), g._h, g._wrapped is f, repr(g(r))))
          if hasattr(g, "deriv"):
            res.append(repr(g.deriv(r)))
            gg = P.gradient(g)
            res.append((hasattr(gg, "deriv"), repr(gg(r))))
        except BaseException as e:
          res.append((type(e).__name__, str(e)))
  res.append(log)
  for bad in (lambda: U.num_deriv("a", abs), lambda: U.num_deriv(1.0, None), lambda: U.num_deriv(1.0, abs, "h"), lambda: U.num_deriv(None, None, None),
              lambda: U.deriv(1.0, None), lambda: U.gradient(None)(1.0), lambda: U.gradient(abs, None)(1.0), lambda: U.num_deriv(1.0, lambda r: "s"),
              lambda: U.num_deriv(1.0, lambda r: 1 / 0, "h")):
    try:
      res.append(repr(bad()))
    except BaseException as e:
      res.append((type(e).__name__, str(e)))
  # combinators built on gradient()
  for comb in (P.plus(P.buck(1000.0, 0.3, 32.0), P.coul(1, -2)), P.product(P.buck(1000.0, 0.3, 32.0), lambda r: r), P.pow(lambda r: r, P.constant(2.0))):
    for r in (0.7, 1.9, 4.0):
      res.append(repr(comb(r)))
      if hasattr(comb, "deriv"):
        res.append(repr(comb.deriv(r)))
      if hasattr(comb, "deriv2"):
        res.append(repr(comb.deriv2(r)))
      res.append(repr(P.Potential("A", "B", comb).force(r)))
  return res
rec("util", util_api)

# 6. via tabulation class, public writePotentials(), and legacy wrapper
def via_class(cutoff, nr):
  out = Rec()
  LAMMPS_PairTabulation(pots(), cutoff, nr).write(out)
  return out.calls
def via_public(cutoff, nr):
  out = Rec()
  P.writePotentials("LAMMPS", pots(), cutoff, nr, out)
  return out.calls
def via_legacy(cutoff, nr):
  out = Rec()
  P._LAMMPS_writePotentials(pots(), cutoff, nr, out)
  return out.calls
for cutoff, nr in ((6.5, 8), (10.0, 1001), (3.3, 44), (6.5, 2), (6.5, 1), (6.5, 0), (0.0, 5), (-2.0, 5)):
  rec("cls/%r/%r" % (cutoff, nr), lambda: via_class(cutoff, nr))
  rec("pub/%r/%r" % (cutoff, nr), lambda: via_public(cutoff, nr))
  rec("leg/%r/%r" % (cutoff, nr), lambda: via_legacy(cutoff, nr))

# 7. via .ini configuration
INI = u"""[Tabulation]
target : LAMMPS
cutoff : %s
nr : %s

[Pair]
O-O : as.buck 9547.96 0.2192 32.0
U-O : sum(as.buck 1761.775 0.35643 0.0, as.constant 1.5)
Zr-O : as.polynomial 1.0 -2.0 0.5 >2.0 as.zero
Si-O : product(as.bornmayer 10.0 0.5, as.coul 1.0 -2.0)
"""
def via_ini(cutoff, nr):
  tab = Configuration().read(io.StringIO(INI % (cutoff, nr)))
  out = Rec()
  tab.write(out)
  return (tab.target, tab.type, tab.nr, tab.cutoff, out.calls)
for cutoff, nr in (("6.5", "12"), ("10.0", "500"), ("4", "7"), ("2.5", "2")):
  rec("ini/%s/%s" % (cutoff, nr), lambda: via_ini(cutoff, nr))

print("cases", NCASE[0])
print("digest", H.hexdigest())

"""Differential script for twin A (core library / writers lint clean-ups).

Run with:  /venv/bin/python -W ignore /tmp/wtpy.py /tmp/wt_r8_4 _twins/diffA.py
Prints one sha256 digest over everything that was produced.
"""
import hashlib
import inspect
import io
import itertools
import math
import os
import tempfile

import atsim.potentials as ap
from atsim.potentials import _tablereaders, _util, potentialforms, potentialfunctions
from atsim.potentials import _dlpoly_writeTABLE, _lammps_writeTABLE, _lammpsWriteEAM
from atsim.potentials.referencedata import Reference_Data
from atsim.potentials.config import Configuration, ConfigParser, Potential_Form_Registry

LOG = []


def rec(label, thunk):
  try:
    v = thunk()
    LOG.append("%s => %r" % (label, v))
  except BaseException as e:  # noqa - we want the type of *anything* raised
    LOG.append("%s !! %s: %s" % (label, type(e).__name__, e))


# ---------------------------------------------------------------- table readers
TABLES = {
  "plain": "0.0 1.0\n1.0 3.0\n2.0 -1.0\n4.0 8.5\n",
  "comments": "# header\n\n   \n2.0 4.0 99 ignored\n#x\n1.0   2.0\n0.5\t1.0\n\n",
  "unsorted": "3 9\n1 1\n2 4\n1 0.5\n",
  "single": "1.5 2.5\n",
  "bad": "1.0\n2.0 3.0\n",
  "nonnumeric": "a b\n",
  "empty": "",
  "hashonly": "#\n#\n",
}
XS = [-1.0, 0.0, 0.25, 0.5, 1.0, 1.5, 2.0, 3.0, 3.999, 4.0, 4.5, 100.0]

for name, txt in sorted(TABLES.items()):
  def mk(txt=txt):
    return _tablereaders.DatReader(io.StringIO(txt))
  rec("DatReader[%s] list" % name, lambda: list(mk()))
  for x in XS:
    rec("DatReader[%s].getValue(%r)" % (name, x), lambda: mk().getValue(x))
    rec("DatReader[%s]._findIndex(%r)" % (name, x), lambda: mk()._findIndex(x))
  rec("TableReader[%s]" % name, lambda: [ap.TableReader(io.StringIO(txt))(x) for x in XS])
  # converters
  for ic, oc in [(None, None), (lambda v: v * 2.0, None), (None, lambda v: v + 1.0), (math.sqrt, abs)]:
    rec("DatReader[%s] conv(%s,%s)" % (name, ic is not None, oc is not None),
        lambda: list(_tablereaders.DatReader(io.StringIO(txt), ic, oc)))
    rec("DatReader[%s] conv(%s,%s) values" % (name, ic is not None, oc is not None),
        lambda: [_tablereaders.DatReader(io.StringIO(txt), inputConvert=ic, outputConvert=oc).getValue(x) for x in XS])

rec("TableReaderBase abstract", lambda: _tablereaders.TableReaderBase(io.StringIO("")))
xp = _tablereaders._XProxy([(1, 2), (3, 4)])
rec("_XProxy", lambda: (len(xp), xp[0], xp[1], type(xp).__mro__[1:] == (object,)))
rec("_XProxy idx", lambda: xp[2])

# ---------------------------------------------------------------- _util / potentialforms
for fname in ["buck", "bornmayer", "coul", "constant", "exponential", "hbnd", "lj", "morse", "sqrt", "zbl", "zero", "polynomial"]:
  fac = getattr(potentialforms, fname)
  sig = inspect.signature(getattr(potentialfunctions, fname))
  nparams = len([p for p in sig.parameters.values() if p.kind == p.POSITIONAL_OR_KEYWORD]) - 1
  args = [1.5, 0.3, 2.0, 3.0, 4.0, 5.0][:max(nparams, 0)]
  if fname == "polynomial":
    args = [1.0, 2.0, 3.0]
  def ev(fac=fac, args=args):
    f = fac(*args)
    g = _util.gradient(f)
    g2 = _util.gradient(g)
    out = []
    for r in [0.5, 1.0, 2.25]:
      out.append((f(r), g(r), g2(r), hasattr(f, "deriv"), hasattr(g, "deriv"), type(g).__name__))
    return out
  rec("potentialforms.%s%r" % (fname, tuple(args)), ev)
  rec("potentialforms.%s kw" % fname, lambda: fac(*args)(1.0, nonsense=2))

rec("_rpartial kw", lambda: _util._rpartial(lambda *a, **k: (a, sorted(k.items())), 1, 2, z=3)(0, y=4))
rec("_rpartial nokw", lambda: _util._rpartial(lambda *a, **k: (a, sorted(k.items())), 1, z=3)(0))
rec("num_deriv", lambda: (_util.num_deriv(1.0, math.exp), _util.deriv(2.0, math.sin, 1e-4)))
rec("gradient no deriv", lambda: (hasattr(_util.gradient(math.exp), "deriv"), _util.gradient(math.exp, 1e-3)(0.0)))
rec("_iscallable members", lambda: [n for n, _o in inspect.getmembers(potentialforms, potentialforms._iscallable)])
rec("_iscallable misc", lambda: [potentialforms._iscallable(o) for o in
                                 (potentialforms.buck, potentialforms.buck4, potentialforms._FunctionFactory, potentialforms.Callable, len, 1, None)])
rec("is_potential", lambda: [potentialforms.is_potential(o) for o in (potentialforms.buck, potentialforms.buck4, len)])
rec("public names potentialforms", lambda: sorted(n for n in vars(potentialforms) if not n.startswith("_") and n not in ("sys",)))
rec("bases", lambda: [c.__mro__ for c in (potentialforms._FunctionFactory, _util._GradientWrapper, ap.TableReader, Reference_Data)])

# ---------------------------------------------------------------- reference data
for extra in [None, {}, {"Xx": {"atomic_mass": 1.5}}, {"Al": {"atomic_mass": 99.0, "colour": "grey"}}]:
  rd = Reference_Data() if extra is None else Reference_Data(extra)
  for sp, prop in itertools.product(["Al", "U", "Xx", "Zz", ""], ["atomic_mass", "atomic_number", "colour", "lattice_type", "nope"]):
    rec("Reference_Data(%r).get(%r,%r)" % (extra, sp, prop), lambda: rd.get(sp, prop))
rec("Reference_Data(None)", lambda: Reference_Data(None).get("Al", "atomic_mass"))
rec("Reference_Data shared default", lambda: Reference_Data().extra_data is Reference_Data().extra_data)

# ---------------------------------------------------------------- pair writers
def pots(order):
  table = {
    "A": ap.Potential("Mg", "O", potentialforms.morse(1.5, 2.0, 0.5)),
    "B": ap.Potential("O", "O", potentialforms.buck(22764.0, 0.149, 27.88)),
    "C": ap.Potential("Xe", "O", ap.plus(potentialforms.lj(0.1, 3.0), potentialforms.coul(1.0, -2.0))),
    "D": ap.Potential("Al", "Al", lambda r: 1.0 / (r + 1.0) ** 2),
  }
  return [table[k] for k in order]


for order in ["A", "AB", "BA", "CDA", "", "DCBA", "DA", "AD"]:
  for typ in ["DL_POLY", "LAMMPS", "GULP", "dlpoly", "Excel", None]:
    for cutoff, grid in [(10.0, 12), (6.5, 8), (4.0, 10), (5.0, 4), (5.0, 7)]:
      def w():
        out = io.StringIO()
        ap.writePotentials(typ, pots(order), cutoff, grid, out)
        return hashlib.sha256(out.getvalue().encode()).hexdigest(), len(out.getvalue())
      rec("writePotentials(%r,%s,%r,%r)" % (typ, order, cutoff, grid), w)

for grid in [4, 8, 6, 0]:
  def w2():
    out = io.StringIO()
    _dlpoly_writeTABLE.writePotentials(pots("AD"), 8.0, grid, out)
    return out.getvalue()
  rec("dlpoly writePotentials grid=%d" % grid, w2)

class _Raising(object):
  speciesA = "A"
  speciesB = "B"
  def energy(self, r):
    if r > 3.0:
      raise ValueError("boom %r" % r)
    return r
  def force(self, r):
    return -r

def w3():
  out = io.StringIO()
  try:
    _dlpoly_writeTABLE.writePotentials([_Raising()], 8.0, 8, out)
  finally:
    LOG.append("partial:%r" % out.getvalue())
rec("dlpoly raising", w3)
rec("UnsupportedTabulationType", lambda: (ap.UnsupportedTabulationType.__mro__, ap.UnsupportedTabulationType.__doc__,
                                         _dlpoly_writeTABLE.WritePotentialException.__mro__, _dlpoly_writeTABLE.WritePotentialException.__doc__))

# plot helpers (with open ...)
def plots():
  d = tempfile.mkdtemp()
  p1 = os.path.join(d, "a.dat")
  p2 = os.path.join(d, "b.dat")
  ap.plot(p1, 0.1, 2.0, potentialforms.buck(1000.0, 0.3, 10.0), 7)
  ap.plotPotentialObject(p2, 0.1, 2.0, pots("A")[0], 5)
  return open(p1).read(), open(p2).read()
rec("plot", plots)

# ---------------------------------------------------------------- EAM writers
def eampots(species, fs=False):
  out = []
  for i, s in enumerate(species):
    def embed(rho, i=i):
      return -math.sqrt(rho) * (i + 1)
    if fs:
      dens = dict((o, (lambda r, i=i, j=j: math.exp(-r * (1 + 0.1 * i + 0.01 * j)))) for j, o in enumerate(species))
    else:
      dens = lambda r, i=i: math.exp(-r * (i + 1))
    out.append(ap.EAMPotential(s, 10 + i, 20.5 + i, embed, dens, 4.05 + i, ["fcc", "bcc", "hcp"][i % 3]))
  return out


def pairs_for(species, skip=()):
  out = []
  for a, b in itertools.combinations_with_replacement(species, 2):
    if (a, b) in skip:
      continue
    out.append(ap.Potential(b, a, potentialforms.morse(1.2 + 0.1 * len(out), 2.5, 0.4)))
  return out


COMMENTS = ["default", ["one", "two", "three"], ("t1", "t2"), ["a", "b", "c", "d", "e"], [], "xyz", None, 5]
for species in [["Al"], ["Al", "Cu"], ["Cu", "Al"], ["Ag", "Cu", "Al"]]:
  for skip in [(), (("Al", "Cu"),), (("Al", "Al"),)]:
    for comments in COMMENTS:
      for fn_name, fs in [("writeSetFL", False), ("writeSetFLFinnisSinclair", True)]:
        for cutoff in [None, 0, 5.5]:
          def w4():
            out = io.StringIO()
            kw = {}
            if comments != "default":
              kw["comments"] = comments
            if cutoff is not None:
              kw["cutoff"] = cutoff
            getattr(ap, fn_name)(6, 0.5, 7, 0.25, eampots(species, fs), pairs_for(species, skip), out, **kw)
            return hashlib.sha256(out.getvalue().encode()).hexdigest(), out.getvalue()[:80]
          rec("%s(%s,skip=%r,comments=%r,cutoff=%r)" % (fn_name, species, skip, comments, cutoff), w4)

rec("setfl defaults FS list()", lambda: list(inspect.signature(ap.writeSetFLFinnisSinclair).parameters["comments"].default))
rec("setfl defaults list()", lambda: list(inspect.signature(ap.writeSetFL).parameters["comments"].default))

for species in [["Al"], ["Cu", "Al"]]:
  def w5():
    out = io.StringIO()
    ap.writeFuncFL(7, 0.5, 9, 0.3, eampots(species), pairs_for(species), out, title="t " + species[0])
    return out.getvalue()
  rec("writeFuncFL(%s)" % species, w5)

for scale in [True, False]:
  def w6():
    out = io.StringIO()
    _lammpsWriteEAM._writeSetFLPairPots(4, 0.5, tuple(eampots(["Cu", "Al", "Ag"])), pairs_for(["Al", "Ag"]), out, scale_r=scale)
    return out.getvalue()
  rec("_writeSetFLPairPots scale=%r" % scale, w6)

def w7():
  out = io.StringIO()
  ap.writeTABEAM(5, 0.5, 6, 0.4, eampots(["Al", "Cu"]), pairs_for(["Al", "Cu"]), out, "title")
  ap.writeTABEAMFinnisSinclair(5, 0.5, 6, 0.4, eampots(["Al", "Cu"], True), pairs_for(["Al", "Cu"]), out, "title")
  return out.getvalue()
rec("TABEAM", w7)

# ---------------------------------------------------------------- via configuration front end
CFG_PAIR = u"""[Tabulation]
target : %s
cutoff : 6.0
nr : %d

[Pair]
O-O : as.buck 22764.0 0.149 27.88
Mg-O : sum(as.buck 1280 0.3 0.0, as.coul 2 -2)
Mg-Mg : >=0 as.morse 1.2 2.5 0.4 >=0.8 as.polynomial 1 2 3
"""
CFG_EAM = u"""[Tabulation]
target : %s
cutoff : 5.0
nr : 9
cutoff_rho : 10.0
nrho : 6

[EAM-Embed]
Al : as.sqrt -1.0
Cu : as.sqrt -2.0

[EAM-Density]
%s

[Pair]
Al-Al : as.morse 1.2 2.5 0.4
Cu-Al : as.morse 1.3 2.4 0.5

[Species]
Al.lattice_constant : 4.05
Xx.atomic_mass : 3.0
"""
for target, nr in [("LAMMPS", 11), ("DLPOLY", 12), ("DLPOLY", 10), ("GULP", 5), ("nonsense", 5)]:
  def w8():
    tab = Configuration().read(io.StringIO(CFG_PAIR % (target, nr)))
    out = io.StringIO()
    tab.write(out)
    return hashlib.sha256(out.getvalue().encode()).hexdigest()
  rec("config pair %s %d" % (target, nr), w8)

for target, dens in [("setfl", "Al : as.exponential 1.0 -1.0\nCu : as.exponential 2.0 -1.5"),
                     ("DL_POLY_EAM", "Al : as.exponential 1.0 -1.0\nCu : as.exponential 2.0 -1.5"),
                     ("setfl_fs", "Al->Al : as.exponential 1.0 -1.0\nCu->Al : as.exponential 2.0 -1.5"),
                     ("DL_POLY_EAM_fs", "Al->Cu : as.exponential 1.0 -1.0\nCu->Cu : as.exponential 2.0 -1.5"),
                     ("setfl", "Al : as.exponential 1.0 -1.0\nZz : as.exponential 2.0 -1.5")]:
  def w9():
    tab = Configuration().read(io.StringIO(CFG_EAM % (target, dens)))
    out = io.StringIO()
    tab.write(out)
    return hashlib.sha256(out.getvalue().encode()).hexdigest()
  rec("config eam %s / %s" % (target, dens.splitlines()[1]), w9)

rec("registry", lambda: Potential_Form_Registry(ConfigParser(io.StringIO(CFG_PAIR % ("LAMMPS", 5))), True, True).registered)

blob = "\n".join(LOG)
print("records:", len(LOG))
print("errors :", sum(1 for l in LOG if " !! " in l))
print("digest :", hashlib.sha256(blob.encode("utf-8")).hexdigest())
if os.environ.get("TWIN_DUMP"):
  open(os.environ["TWIN_DUMP"], "w").write(blob)

"""Differential script for twin A.

Exercises [Tabulation] parsing (cutoff / nr / dr combinations for r and rho,
target synonyms, malformed values), _get_or_none conversions, and the
override / additional-item processing of ConfigParser through the public API.
Prints a deterministic sha256 digest of everything observed.
"""
import glob
import hashlib
import io
import itertools
import os
import sys

from atsim.potentials.config import ConfigParser, Configuration
from atsim.potentials.config._config_parser import ConfigParserOverrideTuple as OT

ROOT = os.path.dirname(os.path.dirname(os.path.abspath(__file__)))

LOG = []


def rec(label, thunk):
  try:
    v = thunk()
    LOG.append("{} => OK {!r}".format(label, v))
  except Exception as e:  # noqa
    LOG.append("{} => EXC {} {} | {}".format(
      label, type(e).__name__,
      [c.__name__ for c in type(e).__mro__], str(e)))


def tab_props(cp):
  t = cp.tabulation
  return (t.target, t.cutoff, t.nr, t.cutoff_rho, t.nrho, repr(t), str(t))


def parse_tab(text, overrides=(), additional=()):
  cp = ConfigParser(io.StringIO(text), overrides=list(overrides), additional=list(additional))
  return tab_props(cp)


def tabulate(text, overrides=(), additional=()):
  cp = ConfigParser(io.StringIO(text), overrides=list(overrides), additional=list(additional))
  tabulation = Configuration().read_from_parser(cp)
  out = io.StringIO()
  tabulation.write(out)
  return (tabulation.target, tabulation.nr, tabulation.dr, tabulation.cutoff,
          hashlib.sha256(out.getvalue().encode("utf8")).hexdigest())


PAIR = u"""
[Pair]
O-O = as.buck 1000.0 0.3 32.0
U-O = as.buck 2000.0 0.2 0.0
"""

# 1. All combinations of the r-grid and rho-grid options ---------------------
values = {
  "nr": [None, "0", "1", "2", "8", "-3", "abc", "1.5"],
  "dr": [None, "0.1", "0", "-0.1", "x", "1e-2"],
  "cutoff": [None, "0.7", "0", "-1.0", "ten", "6.5"],
}
for nr, dr, cutoff in itertools.product(values["nr"], values["dr"], values["cutoff"]):
  lines = ["[Tabulation]"]
  for k, v in (("nr", nr), ("dr", dr), ("cutoff", cutoff)):
    if v is not None:
      lines.append("{} : {}".format(k, v))
  text = "\n".join(lines) + "\n" + PAIR
  rec("rgrid nr={} dr={} cutoff={}".format(nr, dr, cutoff), lambda: parse_tab(text))

for nrho, drho, cutoff_rho in itertools.product(
    [None, "0", "1", "5", "-2", "q"], [None, "0.25", "0", "-1", "z"], [None, "1.0", "0.0", "-2", "big"]):
  lines = ["[Tabulation]", "target : setfl", "nr : 5", "dr: 0.5"]
  for k, v in (("nrho", nrho), ("drho", drho), ("cutoff_rho", cutoff_rho)):
    if v is not None:
      lines.append("{} = {}".format(k, v))
  text = "\n".join(lines) + "\n" + PAIR
  rec("rhogrid nrho={} drho={} cutoff_rho={}".format(nrho, drho, cutoff_rho), lambda: parse_tab(text))

# 2. Targets, synonyms, empty / missing sections ------------------------------
for target in ["LAMMPS", "DLPOLY", "DL_POLY", "GULP", "setfl", "lammps_eam_alloy", "LAMMPS_eam_alloy",
               "setfl_fs", "DL_POLY_EAM", "excel", "nonsense", "", "  LAMMPS  "]:
  text = "[Tabulation]\ntarget : {}\nnr : 11\ndr : 0.25\n".format(target) + PAIR
  rec("target {!r}".format(target), lambda: parse_tab(text))
  rec("tabulate target {!r}".format(target), lambda: tabulate(text))

rec("no tabulation section", lambda: parse_tab(PAIR))
rec("empty tabulation section", lambda: parse_tab("[Tabulation]\n" + PAIR))
rec("tabulation only target", lambda: parse_tab("[Tabulation]\ntarget: GULP\n" + PAIR))
rec("variables in tabulation", lambda: parse_tab(
  "[Variables]\nN : 21\nD : 0.5\n[Tabulation]\nnr : ${N}\ndr : ${D}\ntarget : ${T}\n" + PAIR))
rec("variables named like options", lambda: parse_tab(
  "[Variables]\ncutoff : 3.0\nnr : 7\ntarget : GULP\n[Tabulation]\ndr : 0.5\n" + PAIR))
rec("variables good", lambda: parse_tab(
  "[Variables]\nN : 21\nD : 0.5\nT : DL_POLY\n[Tabulation]\nnr : ${N}\ndr : ${D}\ntarget : ${T}\n" + PAIR))
rec("whitespace keys", lambda: parse_tab("[Tabulation]\n n r  : 21\ncut off : 4.0\n" + PAIR))
rec("duplicate option", lambda: parse_tab("[Tabulation]\nnr : 21\nnr : 22\n" + PAIR))
rec("duplicate section", lambda: parse_tab("[Tabulation]\nnr : 21\n[Tabulation]\ndr : 22\n" + PAIR))
rec("garbage", lambda: parse_tab("nr : 21\n" + PAIR))

# 3. Overrides and additional items ---------------------------------------------
BASE = u"""[Tabulation]
target : LAMMPS
nr : 11
dr : 0.5

[Variables]
A : 1000.0
""" + PAIR + u"""
[Potential-Form]
f(r, a) = a*r
"""

override_cases = {
  "none": ([], []),
  "override nr": ([OT("Tabulation", "nr", "21")], []),
  "override target synonym": ([OT("Tabulation", "target", "DL_POLY")], []),
  "remove dr, add cutoff": ([OT("Tabulation", "dr", None)], [OT("Tabulation", "cutoff", "4.0")]),
  "remove all tabulation": ([OT("Tabulation", "target", None), OT("Tabulation", "nr", None), OT("Tabulation", "dr", None)], []),
  "remove then add back": ([OT("Tabulation", "target", None), OT("Tabulation", "nr", None), OT("Tabulation", "dr", None)],
                           [OT("Tabulation", "nr", "5"), OT("Tabulation", "cutoff", "2.0")]),
  "override missing key": ([OT("Tabulation", "cutoff", "3.0")], []),
  "override missing section": ([OT("Nowhere", "cutoff", "3.0")], []),
  "override missing with None": ([OT("Tabulation", "cutoff", None)], []),
  "add existing": ([], [OT("Tabulation", "nr", "15")]),
  "add existing spaced": ([], [OT("Tabulation", " n r ", "15")]),
  "add new section": ([], [OT("Species", "O.charge", "-2.0"), OT("Tabulation", "cutoff_rho", "10.0"), OT("Tabulation", "nrho", "6")]),
  "add variable": ([], [OT("Variables", "B", "12.0")]),
  "add existing variable": ([], [OT("Variables", "A", "12.0")]),
  "override variable": ([OT("Variables", "A", "1.0")], []),
  "remove variable": ([OT("Variables", "A", None)], []),
  "override pair": ([OT("Pair", "O-O", "as.buck ${A} 0.4 0.0")], []),
  "override pair spaced": ([OT("Pair", "O - O", "as.buck ${A} 0.4 0.0")], []),
  "add dup then ok": ([], [OT("Pair", "Th-O", "as.buck 1.0 0.3 0.0"), OT("Pair", "Th-O", "as.buck 1.0 0.3 0.0")]),
  "override bad int": ([OT("Tabulation", "nr", "eleven")], []),
  "override order": ([OT("Tabulation", "nr", "9"), OT("Tabulation", "nr", "7")], [OT("Tabulation", "nrho", "3"), OT("Tabulation", "drho", "1.0")]),
  "two errors": ([OT("Tabulation", "zzz", "9")], [OT("Tabulation", "nr", "3")]),
}

for label, (ov, add) in override_cases.items():
  def run():
    cp = ConfigParser(io.StringIO(BASE), overrides=list(ov), additional=list(add))
    raw = cp.raw_config_parser
    dump = [(s, [(k, raw[s][k]) for k in raw[s]]) for s in raw.sections()]
    dump.append(("Variables", [(k, raw["Variables"][k]) for k in raw["Variables"]]))
    return (tab_props(cp), dump, cp.pair, cp.parsed_sections, cp.orphan_sections, cp.species)
  rec("override " + label, run)
  rec("override tabulate " + label, lambda: tabulate(BASE, ov, add))

# 4. Real model files: tabulation properties and full output ----------------------
files = sorted(glob.glob(os.path.join(ROOT, "tests", "**", "*.aspot"), recursive=True) +
               glob.glob(os.path.join(ROOT, "docs", "**", "*.aspot"), recursive=True))
for fn in files:
  rel = os.path.relpath(fn, ROOT)
  with open(fn) as infile:
    text = infile.read()
  rec("file tab " + rel, lambda: parse_tab(text))
  rec("file small " + rel, lambda: tabulate(
    text, [], []))

digest = hashlib.sha256("\n".join(LOG).encode("utf8")).hexdigest()
if "-v" in sys.argv:
  print("\n".join(LOG))
print("records:", len(LOG))
print("DIGEST", digest)

"""Differential script for twin B (atsim/potentials/config/_tabulation_factories.py).

Run with:  /venv/bin/python -W ignore /tmp/wtpy.py /tmp/wt_r11_4 _twins/diffB.py
Prints a sha256 digest over: the TABULATION_FACTORIES table (keys, order, factory and tabulation
classes, object identity structure), extract_cutoffs()/extract_tabulation_args() of every factory for
many [Tabulation] sections (results, exception types + messages, log records with logger names) and
the bytes / spreadsheet cells written by every target through Configuration.read().
"""
import hashlib
import io
import itertools
import logging
import os

from atsim.potentials.config import Configuration, ConfigParser
from atsim.potentials.config import _tabulation_factories as tf

RECORDS = []


class _Capture(logging.Handler):
  def emit(self, record):
    RECORDS.append("LOG {} {} {}".format(record.name, record.levelname, record.getMessage()))


root = logging.getLogger()
root.handlers[:] = [_Capture()]
root.setLevel(logging.INFO)

PAIR_MODEL = u"""
[Pair]
O-O = as.buck 1633.0 0.327 3.95
Mg-O = as.buck 2457.0 0.261 0.0
Al-Mg = as.bornmayer 1000.0 0.3
"""

PAIR_MODEL_REORDERED = u"""
[Pair]
Al-Mg = as.bornmayer 1000.0 0.3
O-Mg = as.buck 2457.0 0.261 0.0
O-O = as.buck 1633.0 0.327 3.95
"""

EAM_MODEL = u"""
[Species]
A.atomic_mass = 1
A.atomic_number = 1
B.atomic_mass = 2
B.atomic_number = 2

[EAM-Embed]
A = as.polynomial 0 1
B = as.sqrt -0.25

[EAM-Density]
A = as.polynomial 0 2
B = as.polynomial 0 3 0.5

[Pair]
A-A = as.buck 500.0 0.3 1.0
B-A = as.bornmayer 200.0 0.25
"""

EAM_FS_MODEL = u"""
[Species]
A.atomic_mass = 1
A.atomic_number = 1
B.atomic_mass = 2
B.atomic_number = 2

[EAM-Embed]
B = as.polynomial 0 1
A = as.sqrt -0.5

[EAM-Density]
A->B = as.polynomial 0 3
B->A = as.polynomial 0 2
B->B = as.polynomial 0 5
A->A = as.polynomial 1 0.5

[Pair]
B-B = as.buck 300.0 0.3 0.0
A-B = as.bornmayer 200.0 0.25
"""

ADP_MODEL = EAM_MODEL + u"""
[EAM-ADP-Dipole]
A-B = as.polynomial 0 0.1
A-A = as.bornmayer 2.0 0.5

[EAM-ADP-Quadrupole]
B-A = as.polynomial 0.5 0.2
B-B = as.bornmayer 1.0 0.75
"""

MODELS = {
  "LAMMPS": PAIR_MODEL, "DLPOLY": PAIR_MODEL, "GULP": PAIR_MODEL_REORDERED, "excel": PAIR_MODEL,
  "setfl": EAM_MODEL, "setfl_fs": EAM_FS_MODEL, "DL_POLY_EAM": EAM_MODEL, "DL_POLY_EAM_fs": EAM_FS_MODEL,
  "excel_eam": EAM_MODEL, "excel_eam_fs": EAM_FS_MODEL, "eam_adp": ADP_MODEL}

SYNONYMS = {"lammps_eam_alloy": "setfl", "LAMMPS_eam_alloy": "setfl", "DL_POLY": "DLPOLY"}


def tab_section(target, **kv):
  lines = [u"[Tabulation]"]
  if target is not None:
    lines.append(u"target : {}".format(target))
  for k in sorted(kv):
    if kv[k] is not None:
      lines.append(u"{} : {}".format(k, kv[k]))
  return u"\n".join(lines) + u"\n"


def outcome(func):
  try:
    return "OK " + func()
  except Exception as e:  # noqa
    return "EXC {} {}".format(type(e).__name__, e)


def describe_table():
  table = tf.TABULATION_FACTORIES
  RECORDS.append("TABLE type {} len {}".format(type(table).__name__, len(table)))
  RECORDS.append("TABLE distinct factories {}".format(len(set(id(f) for f in table.values()))))
  for key, factory in table.items():
    RECORDS.append("TABLE {!r} {} {!r} {} {} {}".format(
      key, type(factory).__name__, factory.tabulation_target, factory.tabulation_class.__name__,
      factory.tabulation_type, getattr(getattr(factory, "eam_builder_class", None), "__name__", None)))
  RECORDS.append("TABLE Configuration copy {}".format(sorted(Configuration()._tabulation_factories) == sorted(table)))
  for name in ["PairTabulationFactory", "EAMTabulationFactory", "DLPOLY_PairTabulationFactory", "LAMMPS_PairTabulationFactory",
               "ADP_EAMTabulationFactory", "RCutoffTuple", "R_Rho_CutoffTuple", "TABULATION_FACTORIES"]:
    RECORDS.append("NAME {} {}".format(name, hasattr(tf, name)))
  RECORDS.append("MRO " + repr([[c.__name__ for c in type(f).__mro__] for f in table.values()]))
  RECORDS.append("TUPLES {} {}".format(tf.RCutoffTuple._fields, tf.R_Rho_CutoffTuple._fields))


def cutoffs_of(factory, text):
  cp = ConfigParser(io.StringIO(text))
  c = factory.extract_cutoffs(cp)
  return "{} {!r} {}".format(type(c).__name__, tuple(c), [type(v).__name__ for v in c])


def args_of(factory, text):
  from atsim.potentials.config._potential_form_registry import Potential_Form_Registry
  from atsim.potentials.config._modifier_registry import Modifier_Registry
  cp = ConfigParser(io.StringIO(text))
  c = factory.extract_cutoffs(cp)
  pfr = Potential_Form_Registry(cp, register_standard=True, register_pymath_functions=True)
  mr = Modifier_Registry()
  pots = factory.extract_potential_objects(cp, pfr, mr)
  args = factory.extract_tabulation_args(cp, c, pots, pfr, mr)
  bits = []
  for a in args:
    if isinstance(a, list):
      bits.append([(type(p).__name__, getattr(p, "speciesA", None), getattr(p, "speciesB", None), getattr(p, "species", None)) for p in a])
    else:
      bits.append((type(a).__name__, a))
  return repr(bits)


def cells(wb):
  h = hashlib.sha256()
  nrows = []
  for ws in wb.worksheets:
    h.update(ws.title.encode("utf-8"))
    n = 0
    for row in ws.iter_rows(values_only=True):
      n += 1
      h.update(repr(row).encode("utf-8"))
    nrows.append((ws.title, n))
  return "{} {}".format(nrows, h.hexdigest())


def tabulate(text):
  tabulation = Configuration().read(io.StringIO(text))
  bits = [type(tabulation).__name__, tabulation.target, tabulation.type, repr(tabulation.nr), repr(tabulation.cutoff), repr(tabulation.dr)]
  if hasattr(tabulation, "nrho"):
    bits.extend([repr(tabulation.nrho), repr(tabulation.cutoff_rho), repr(tabulation.drho)])
  if hasattr(tabulation, "workbook"):
    bits.append(cells(tabulation.workbook))
    out = io.BytesIO()
    tabulation.write(out)
    bits.append(str(out.getvalue()[:2]))
  else:
    out = io.StringIO()
    tabulation.write(out)
    data = out.getvalue()
    bits.append(str(len(data.splitlines())))
    bits.append(hashlib.sha256(data.encode("utf-8")).hexdigest())
  return " ".join(bits)


R_GRIDS = [dict(), dict(nr="2"), dict(nr="3"), dict(nr="4"), dict(nr="5"), dict(nr="8"), dict(nr="12", cutoff="5.5"),
           dict(cutoff="3.5"), dict(cutoff="0.7", dr="0.1"), dict(nr="16", dr="0.25"), dict(nr="1"), dict(nr="0"), dict(nr="-8"),
           dict(nr="6", cutoff="2.0"), dict(cutoff="1.1", dr="0.1")]
RHO_GRIDS = [dict(), dict(nrho="2"), dict(nrho="3"), dict(nrho="4"), dict(nrho="7", cutoff_rho="3.0"), dict(cutoff_rho="0.7", drho="0.1"),
             dict(nrho="12", drho="0.5"), dict(cutoff_rho="20.0"), dict(nrho="1"), dict(nrho="0")]


def main():
  describe_table()

  # extract_cutoffs()/extract_tabulation_args() called directly on every factory in the table
  for key, factory in tf.TABULATION_FACTORIES.items():
    is_eam = isinstance(factory, tf.EAMTabulationFactory)
    rho_grids = RHO_GRIDS if is_eam else [dict(), dict(nrho="3", cutoff_rho="2.0"), dict(nrho="1")]
    for rgrid, rhogrid in itertools.product(R_GRIDS, rho_grids):
      kv = dict(rgrid)
      kv.update(rhogrid)
      text = tab_section(key, **kv) + MODELS[key]
      RECORDS.append("CUTOFFS {} {!r} -> {}".format(key, sorted(kv.items()), outcome(lambda: cutoffs_of(factory, text))))
    # no [Tabulation] section at all
    RECORDS.append("CUTOFFS {} nosection -> {}".format(key, outcome(lambda: cutoffs_of(factory, MODELS[key]))))
    for kv in [dict(nr="8", cutoff="3.0", nrho="6", cutoff_rho="2.5"), dict()]:
      text = tab_section(key, **kv) + MODELS[key]
      RECORDS.append("ARGS {} {!r} -> {}".format(key, sorted(kv.items()), outcome(lambda: args_of(factory, text))))

  # End to end through Configuration (target look-up, synonyms, unknown targets, default target)
  small = [dict(nr="8", cutoff="3.0", nrho="6", cutoff_rho="2.5"), dict(nr="12", dr="0.25", cutoff_rho="0.7", drho="0.1"),
           dict(nr="4", cutoff="1.0", nrho="2", cutoff_rho="1.0"), dict(nr="2", cutoff="1.0", nrho="3", cutoff_rho="1.0"),
           dict(nr="3", cutoff="1.0"), dict(nr="20", cutoff="4.0", nrho="5", cutoff_rho="9.0")]
  for key in list(tf.TABULATION_FACTORIES) + sorted(SYNONYMS) + ["lammps", "Excel", "SETFL", "", None]:
    model = MODELS.get(SYNONYMS.get(key, key), PAIR_MODEL)
    for kv in small:
      text = tab_section(key, **kv) + model
      RECORDS.append("E2E {!r} {!r} -> {}".format(key, sorted(kv.items()), outcome(lambda: tabulate(text))))
  # defaults (1001 rows) once per text target
  for key in ["LAMMPS", "GULP", "setfl", "setfl_fs", "DL_POLY_EAM", "DL_POLY_EAM_fs", "eam_adp", "DLPOLY"]:
    text = tab_section(key) + MODELS[key]
    RECORDS.append("E2E-DEFAULT {!r} -> {}".format(key, outcome(lambda: tabulate(text))))
  RECORDS.append("E2E-NOSECTION -> {}".format(outcome(lambda: tabulate(PAIR_MODEL))))

  if os.environ.get("TWIN_DUMP"):
    with open(os.environ["TWIN_DUMP"], "w") as dump:
      dump.write(u"\n".join(RECORDS))
  digest = hashlib.sha256(u"\n".join(RECORDS).encode("utf-8")).hexdigest()
  print("records:", len(RECORDS))
  print("digest:", digest)


main()

"""Differential script for twin B (r / rho grid iterators become methods of
the tabulation base classes).

Exercises every consumer of the r / rho grid iterators: GULP pair tabulation
and the Excel pair / EAM / EAM-FS workbooks, built both directly and through
`Configuration.read()` from .ini text, with varied nr / cutoff / nrho values
including degenerate and malformed ones.  Prints a sha256 digest.
"""
import hashlib
import io
import math

from atsim.potentials import EAMPotential, Potential
from atsim.potentials.config import Configuration
from atsim.potentials.eam_tabulation import (Excel_EAMTabulation,
                                             Excel_FinnisSinclair_EAMTabulation,
                                             SetFL_EAMTabulation,
                                             TABEAM_EAMTabulation)
from atsim.potentials.pair_tabulation import (DLPoly_PairTabulation,
                                              Excel_PairTabulation,
                                              GULP_PairTabulation,
                                              LAMMPS_PairTabulation)

LOG = []


def log(*items):
  LOG.append(repr(items))


class Traced(object):
  def __init__(self, name, func):
    self.name = name
    self.func = func

  def __call__(self, x):
    LOG.append("call %s %r" % (self.name, x))
    return self.func(x)


def workbook_dump(wb):
  rows = []
  for ws in wb.worksheets:
    rows.append(("sheet", ws.title, ws.max_row, ws.max_column))
    for row in ws.iter_rows():
      rows.append(tuple(c.value for c in row))
  return rows


def attempt(label, thunk):
  try:
    log(label, "ok", thunk())
  except Exception as e:
    log(label, "exc", type(e).__name__, str(e))


def write_text(tab):
  out = io.StringIO()
  try:
    tab.write(out)
  finally:
    log("partial", out.getvalue())
  return out.getvalue()


def props(tab):
  names = ["type", "target", "nr", "cutoff", "dr", "nrho", "cutoff_rho", "drho"]
  res = []
  for n in names:
    try:
      res.append((n, getattr(tab, n)))
    except Exception as e:
      res.append((n, type(e).__name__))
  return res


def pairs(species):
  res = []
  i = 0
  for a in species:
    for b in species:
      if a <= b:
        i += 1
        sc = float(i)
        res.append(Potential(b, a, Traced("pair%s%s" % (a, b), lambda r, sc=sc: sc * math.exp(-r) - 0.25 * r)))
  return res


def eams(species, fs):
  res = []
  for n, sp in enumerate(species):
    if fs:
      d = dict((o, Traced("dens%s>%s" % (sp, o), lambda r, k=n + m: (k + 1.0) * math.exp(-0.5 * r))) for m, o in enumerate(species))
    else:
      d = Traced("dens%s" % sp, lambda r, k=n: (k + 1.0) * math.exp(-0.5 * r))
    res.append(EAMPotential(sp, n + 1, 2.0 * n + 1, Traced("embed%s" % sp, lambda rho, k=n: -(k + 1.0) * math.sqrt(rho)), d))
  return res


GRIDS = [
    # cutoff, nr, cutoff_rho, nrho
    (10.0, 11, 5.0, 6),
    (2.5, 4, 100.0, 3),
    (7, 8, 3, 4),          # integer cutoffs
    (1.0, 2, 1.0, 2),
    (1.0, 1, 1.0, 1),      # division by zero in grids
    (1.0, 0, 1.0, 0),      # empty grids
    (3.3, 5.0, 1.0, 3),    # float nr
    (3.3, 5, 1.0, 3.0),    # float nrho
    ("x", 3, 1.0, 3),      # bad cutoff
    (1.0, 3, None, 3),     # bad cutoff_rho
    (0.0, 3, 0.0, 3),
    (-2.0, 3, -1.0, 3),
]

for species in (["O"], ["U", "O"], ["Gd", "Ce", "O"]):
  for cutoff, nr, cutoff_rho, nrho in GRIDS:
    tag = "%s|%r" % (",".join(species), (cutoff, nr, cutoff_rho, nrho))

    tab = GULP_PairTabulation(pairs(species), cutoff, nr)
    log("gulp props " + tag, props(tab))
    attempt("gulp " + tag, lambda: write_text(tab))

    tab = Excel_PairTabulation(pairs(species), cutoff, nr)
    log("xl props " + tag, props(tab))
    attempt("xl " + tag, lambda: workbook_dump(tab.workbook))
    # second access must use the cached workbook (no further function calls)
    attempt("xl again " + tag, lambda: workbook_dump(tab.workbook))

    tab = Excel_EAMTabulation(pairs(species), eams(species, False), cutoff, nr, cutoff_rho, nrho)
    log("xleam props " + tag, props(tab))
    attempt("xleam " + tag, lambda: workbook_dump(tab.workbook))
    attempt("xleam again " + tag, lambda: workbook_dump(tab.workbook))

    tab = Excel_FinnisSinclair_EAMTabulation(pairs(species), eams(species, True), cutoff, nr, cutoff_rho, nrho)
    log("xlfs props " + tag, props(tab))
    attempt("xlfs " + tag, lambda: workbook_dump(tab.workbook))

    # Non-FS potentials given to FS tabulation (malformed: density is not a dict)
    tab = Excel_FinnisSinclair_EAMTabulation(pairs(species), eams(species, False), cutoff, nr, cutoff_rho, nrho)
    attempt("xlfs bad " + tag, lambda: workbook_dump(tab.workbook))

    # Tabulations which share the base classes but not the iterators
    for cls in (LAMMPS_PairTabulation, DLPoly_PairTabulation):
      tab = cls(pairs(species), cutoff, nr)
      log(cls.__name__ + " props " + tag, props(tab))
      attempt(cls.__name__ + " " + tag, lambda: write_text(tab))
    for cls in (SetFL_EAMTabulation, TABEAM_EAMTabulation):
      tab = cls(pairs(species), eams(species, False), cutoff, nr, cutoff_rho, nrho)
      log(cls.__name__ + " props " + tag, props(tab))
      attempt(cls.__name__ + " " + tag, lambda: write_text(tab))

# Excel binary output: check it is a readable workbook with the same content
import openpyxl
for species in (["U", "O"],):
  tab = Excel_EAMTabulation(pairs(species), eams(species, False), 6.0, 7, 2.0, 5)
  out = io.BytesIO()
  tab.write(out)
  out.seek(0)
  log("xleam roundtrip", workbook_dump(openpyxl.load_workbook(out)))
  tab = Excel_PairTabulation(pairs(species), 6.0, 7)
  out = io.BytesIO()
  tab.write(out)
  out.seek(0)
  log("xl roundtrip", workbook_dump(openpyxl.load_workbook(out)))

# Through the configuration layer
CFG_PAIR = u"""[Tabulation]
target : {target}
cutoff : {cutoff}
{nr_or_dr}

[Pair]
O-O : as.buck 1633.00510 0.327022 3.948790
U-O : as.buck 693.648700 0.327022 0.0
U-U : as.bornmayer 18600.0 0.27468

[Species]
U.atomic_number : 92
"""

CFG_EAM = u"""[Tabulation]
target : {target}
cutoff : {cutoff}
{nr_or_dr}
cutoff_rho : {cutoff_rho}
{nrho_or_drho}

[Pair]
Al-Al : as.buck 1000.0 0.3 0.0
Cu-Al : as.bornmayer 900.0 0.29
Cu-Cu : as.buck 1200.0 0.25 1.0

[EAM-Embed]
Al : as.sqrt -1.5
Cu : as.sqrt -2.5

[EAM-Density]
Al : dens 2.0 0.5
Cu : dens 3.0 0.25

[Potential-Form]
dens(r, A, B) = A*exp(-B*r)
"""

CFG_EAM_FS = CFG_EAM.replace("Al : dens 2.0 0.5\nCu : dens 3.0 0.25",
                             "Al->Al : dens 2.0 0.5\nAl->Cu : dens 2.5 0.5\nCu->Al : dens 2.75 0.4\nCu->Cu : dens 3.0 0.25")


def from_cfg(text):
  return Configuration().read(io.StringIO(text))


for cutoff, nr_or_dr in [("10.0", "nr : 11"), ("6.5", "dr : 0.5"), ("2.0", "nr : 3"), ("3.0", "dr : 0.7"), ("1.0", "nr : 1"), ("1.0", "nr : 2.5"), ("abc", "nr : 3")]:
  for target in ("GULP", "excel"):
    tag = "cfg %s %s %s" % (target, cutoff, nr_or_dr)

    def go():
      tab = from_cfg(CFG_PAIR.format(target=target, cutoff=cutoff, nr_or_dr=nr_or_dr))
      res = [props(tab)]
      if target == "GULP":
        res.append(write_text(tab))
      else:
        res.append(workbook_dump(tab.workbook))
      return res
    attempt(tag, go)

  for cutoff_rho, nrho_or_drho in [("50.0", "nrho : 6"), ("3.0", "drho : 0.75"), ("1.0", "nrho : 1")]:
    for target, template in (("excel_eam", CFG_EAM), ("excel_eam_fs", CFG_EAM_FS)):
      tag = "cfg %s %s %s %s %s" % (target, cutoff, nr_or_dr, cutoff_rho, nrho_or_drho)

      def go():
        tab = from_cfg(template.format(target=target, cutoff=cutoff, nr_or_dr=nr_or_dr, cutoff_rho=cutoff_rho, nrho_or_drho=nrho_or_drho))
        return [props(tab), workbook_dump(tab.workbook)]
      attempt(tag, go)

blob = "\n".join(LOG).encode("utf-8")
print("records", len(LOG), "bytes", len(blob))
print("sha256", hashlib.sha256(blob).hexdigest())

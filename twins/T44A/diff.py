"""Differential script for twin A.

Exercises atsim.potentials.gradient / deriv / num_deriv and the potential-form
function factories (atsim.potentials.potentialforms.*) through the public API and
prints a sha256 digest of everything observed.
"""
from __future__ import print_function

import hashlib
import io
import math

import atsim.potentials as ap
from atsim.potentials import potentialforms as pforms
from atsim.potentials import potentialfunctions as pfuncs
from atsim.potentials import gradient, deriv, num_deriv, Potential
from atsim.potentials.config import Configuration

LOG = []


def rec(*items):
  LOG.append(" | ".join(str(i) for i in items))


def attempt(label, f, *args, **kwargs):
  try:
    v = f(*args, **kwargs)
    rec(label, "OK", repr(v))
    return v
  except Exception as e:  # noqa
    rec(label, "EXC", type(e).__name__, str(e))
    return None


RS = [0.05, 0.3, 0.75, 1.0, 1.6, 2.5, 3.3333, 7.0, 11.5]
HS = [0.1e-5, 1e-6, 1e-3, 0.25]

# ---------------------------------------------------------------- plain callables


def cubic(r):
  return 3.0 * r**3 - 2.0 * r + 1.5


class OnlyCall(object):
  def __call__(self, r):
    return math.exp(-r / 0.3) * 1000.0


class WithDeriv(object):
  def __call__(self, r):
    return r**4

  def deriv(self, r):
    return 4.0 * r**3


class WithBoth(WithDeriv):
  def deriv2(self, r):
    return 12.0 * r**2


class OnlyDeriv2(object):
  """No deriv() but has deriv2()"""

  def __call__(self, r):
    return r**3

  def deriv2(self, r):
    return 6.0 * r + 1000.0  # deliberately 'wrong' so that the route taken shows


class DerivRaisesAttributeError(object):
  """deriv() exists but raises AttributeError when *called*"""

  def __call__(self, r):
    return r**2

  def deriv(self, r):
    return self.no_such_attribute

  def deriv2(self, r):
    raise AttributeError("from deriv2")


class DerivNone(object):
  """deriv attribute is present but is None"""
  deriv = None
  deriv2 = None

  def __call__(self, r):
    return 2.0 * r


class DynamicAttrs(object):
  """Attributes supplied through __getattr__"""

  def __call__(self, r):
    return r**5

  def __getattr__(self, name):
    if name == "deriv":
      return lambda r: 5.0 * r**4
    if name == "deriv2":
      return lambda r: 20.0 * r**3
    raise AttributeError(name)


class PropertyRaises(object):
  """deriv is a property that raises something other than AttributeError"""

  def __call__(self, r):
    return r

  @property
  def deriv(self):
    raise ValueError("property exploded")


def func_with_attrs(r):
  return math.sin(r)


func_with_attrs.deriv = lambda r: math.cos(r)

plain_callables = [
    ("cubic", cubic),
    ("lambda", lambda r: 1.0 / r),
    ("OnlyCall", OnlyCall()),
    ("WithDeriv", WithDeriv()),
    ("WithBoth", WithBoth()),
    ("OnlyDeriv2", OnlyDeriv2()),
    ("DerivRaisesAttributeError", DerivRaisesAttributeError()),
    ("DerivNone", DerivNone()),
    ("DynamicAttrs", DynamicAttrs()),
    ("func_with_attrs", func_with_attrs),
    ("math.sqrt", math.sqrt),
    ("not_callable", 12.5),
    ("None", None),
]


def exercise_callable(name, f):
  for h in HS:
    for r in RS:
      attempt("deriv %s h=%r r=%r" % (name, h, r), deriv, r, f, h)
      attempt("num_deriv %s h=%r r=%r" % (name, h, r), num_deriv, r, f, h)
  for r in RS:
    attempt("deriv-default %s r=%r" % (name, r), deriv, r, f)
    attempt("num_deriv-default %s r=%r" % (name, r), num_deriv, r, f)

  for h in [None] + HS:
    if h is None:
      g = attempt("gradient %s" % name, lambda: type(gradient(f)).__name__) and gradient(f)
    else:
      g = attempt("gradient %s h=%r" % (name, h), lambda: type(gradient(f, h)).__name__) and gradient(f, h)
    if not g:
      continue
    rec("gradient-caps", name, h, hasattr(g, "deriv"), hasattr(g, "deriv2"), callable(g))
    for r in RS:
      attempt("g(r) %s h=%r r=%r" % (name, h, r), g, r)
      if hasattr(g, "deriv"):
        attempt("g.deriv(r) %s h=%r r=%r" % (name, h, r), g.deriv, r)
      attempt("deriv(g) %s h=%r r=%r" % (name, h, r), deriv, r, g)
    # gradient of gradient (and once more)
    gg = gradient(g) if h is None else gradient(g, h)
    rec("gradient2-caps", name, h, hasattr(gg, "deriv"), hasattr(gg, "deriv2"))
    ggg = gradient(gg)
    rec("gradient3-caps", name, h, hasattr(ggg, "deriv"), hasattr(ggg, "deriv2"))
    for r in RS:
      attempt("gg(r) %s h=%r r=%r" % (name, h, r), gg, r)
      attempt("ggg(r) %s h=%r r=%r" % (name, h, r), ggg, r)


for name, f in plain_callables:
  exercise_callable(name, f)

# property raising non-AttributeError: should propagate from every entry point
pr = PropertyRaises()
attempt("PropertyRaises deriv", deriv, 1.0, pr)
attempt("PropertyRaises gradient()", lambda: gradient(pr)(1.0))
attempt("PropertyRaises factory", lambda: pforms._FunctionFactory is not None and ap.plus(pr, cubic)(1.0))

# attribute added to / removed from the wrapped callable *after* gradient() was taken
late = WithDeriv()
g_late = gradient(late)
rec("late-before", hasattr(g_late, "deriv"), repr(g_late(2.0)))
late.deriv2 = lambda r: 12.0 * r**2
rec("late-after-add", hasattr(g_late, "deriv"), repr(g_late(2.0)), hasattr(gradient(late), "deriv"))
late2 = WithBoth()
g_late2 = gradient(late2)
rec("late2-before", hasattr(g_late2, "deriv"), repr(g_late2(2.0)), repr(g_late2.deriv(2.0)))
late2.deriv = lambda r: -1.0
late2.deriv2 = lambda r: -2.0
rec("late2-after", hasattr(g_late2, "deriv"), repr(g_late2(2.0)), repr(g_late2.deriv(2.0)))

# ---------------------------------------------------------------- potential forms

form_args = [
    ("buck", (1000.0, 0.3, 32.0)),
    ("buck", (18003.7572, 0.205204, 133.5381)),
    ("bornmayer", (1000.0, 0.1)),
    ("coul", (2.4, -1.2)),
    ("constant", (2.0,)),
    ("exponential", (3.0, 2.5)),
    ("hbnd", (100.0, 50.0)),
    ("lj", (0.25, 2.5)),
    ("morse", (1.2, 1.8, 0.6)),
    ("polynomial", (1.0, -3.0, 0.5)),
    ("polynomial", ()),
    ("polynomial", (5.0,)),
    ("sqrt", (-0.15449392139449653,)),
    ("tang_toennies", (143.48, 1.9, 127.0, 2600.0, 45000.0)),
    ("zbl", (14, 8)),
    ("zero", ()),
    ("exp_spline", (1.0, -0.2, 0.03, -0.004, 0.0005, -0.00006, 0.1)),
    # Wrong numbers of arguments
    ("buck", (1000.0, 0.3)),
    ("buck", (1000.0, 0.3, 32.0, 4.0)),
    ("zero", (1.0,)),
    ("lj", ("a", "b")),
]

for fname, args in form_args:
  factory = getattr(pforms, fname)
  rec("factory", fname, type(factory).__name__, getattr(factory, "is_potential", None), pforms.is_potential(factory))
  inst = attempt("instantiate %s%r" % (fname, args), lambda: factory(*args) and None)
  try:
    inst = factory(*args)
  except Exception as e:  # noqa
    rec("instantiate-exc", fname, type(e).__name__)
    continue
  rec("inst-caps", fname, hasattr(inst, "deriv"), hasattr(inst, "deriv2"), callable(inst))
  g = gradient(inst)
  gg = gradient(g)
  rec("inst-grad-caps", fname, hasattr(g, "deriv"), hasattr(gg, "deriv"))
  pot = Potential("A", "B", inst)
  pot_h = Potential("B", "A", inst, 1e-3)
  for r in RS:
    attempt("%s%r(r=%r)" % (fname, args, r), inst, r)
    if hasattr(inst, "deriv"):
      attempt("%s%r.deriv(r=%r)" % (fname, args, r), inst.deriv, r)
    if hasattr(inst, "deriv2"):
      attempt("%s%r.deriv2(r=%r)" % (fname, args, r), inst.deriv2, r)
    attempt("%s%r grad(r=%r)" % (fname, args, r), g, r)
    attempt("%s%r gradgrad(r=%r)" % (fname, args, r), gg, r)
    attempt("%s%r deriv()(r=%r)" % (fname, args, r), deriv, r, inst)
    attempt("%s%r num_deriv()(r=%r)" % (fname, args, r), num_deriv, r, inst)
    attempt("%s%r energy(r=%r)" % (fname, args, r), pot.energy, r)
    attempt("%s%r force(r=%r)" % (fname, args, r), pot.force, r)
    attempt("%s%r force_h(r=%r)" % (fname, args, r), pot_h.force, r)
  # Keyword arguments / extra positional arguments at call time
  attempt("%s%r extra-arg" % (fname, args), inst, 1.0, 2.0)
  attempt("%s%r no-arg" % (fname, args), inst)

# _FunctionFactory over user supplied functions (the config sub-system does this for [Potential-Form] entries)
for name, f in plain_callables[:10]:
  def _shim(f):
    class Shim(object):
      def __call__(self, r, scale):
        return scale * f(r)
    s = Shim()
    if hasattr(f, "deriv") and f.deriv is not None:
      s.deriv = lambda r, scale: scale * f.deriv(r)
    if hasattr(f, "deriv2") and f.deriv2 is not None:
      s.deriv2 = lambda r, scale: scale * f.deriv2(r)
    return s
  fact = pforms._FunctionFactory(_shim(f))
  inst = fact(2.0)
  rec("shim-caps", name, hasattr(inst, "deriv"), hasattr(inst, "deriv2"))
  for r in RS[:4]:
    attempt("shim %s r=%r" % (name, r), inst, r)
    attempt("shim-grad %s r=%r" % (name, r), gradient(inst), r)
    attempt("shim-gradgrad %s r=%r" % (name, r), gradient(gradient(inst)), r)

# buck4 (spline based potential form built on two function factories)
attempt("buck4", lambda: type(pforms.buck4(11272.6, 0.1363, 134.0, 1.2, 2.1, 2.6)).__name__)
b4 = pforms.buck4(11272.6, 0.1363, 134.0, 1.2, 2.1, 2.6)
rec("buck4-caps", hasattr(b4, "deriv"), hasattr(b4, "deriv2"))
for r in RS:
  attempt("buck4 r=%r" % r, b4, r)
  attempt("buck4 grad r=%r" % r, gradient(b4), r)
  attempt("buck4 gradgrad r=%r" % r, gradient(gradient(b4)), r)

# ---------------------------------------------------------------- tabulation through writePotentials
pots = [
    Potential("O", "O", pforms.buck(1000.0, 0.3, 32.0)),
    Potential("U", "O", ap.plus(pforms.bornmayer(1761.775, 0.35642), cubic)),
    Potential("Gd", "O", cubic),
    Potential("Ce", "O", WithDeriv(), 1e-4),
    Potential("Zr", "O", OnlyDeriv2()),
]
for target in ["LAMMPS", "DL_POLY", "GULP", "nonsense"]:
  for cutoff, npts in [(6.5, 20), (10.0, 101), (2.0, 7)]:
    out = io.StringIO()
    try:
      ap.writePotentials(target, pots, cutoff, npts, out)
      rec("writePotentials", target, cutoff, npts, hashlib.sha256(out.getvalue().encode("utf-8")).hexdigest())
    except Exception as e:  # noqa
      rec("writePotentials-exc", target, cutoff, npts, type(e).__name__, str(e))

# ---------------------------------------------------------------- configuration files
CONFIGS = [
    u"""[Tabulation]
target : LAMMPS
cutoff : 6.0
nr : 40

[Pair]
O-O = as.buck 1633.00510 0.327022 3.948790
U-O = as.bornmayer 1761.775 0.35642
U-U = own_form 294.640 0.327022
Gd-O = >0 as.zbl 64 8 >=0.8 as.polynomial 1.0 2.0 0.5 >=2.0 own_form 100.0 0.3

[Potential-Form]
own_form(r, A, rho) = A * exp(-r/rho)
""",
    u"""[Tabulation]
target : DL_POLY
cutoff : 8.0
nr : 33

[Pair]
Si-O = spline(as.zbl 14 8 >=0.8 exp_spline >=1.4 bks 2.4 -1.2 18003.7572 0.2052048149 133.5381)
O-O = as.lj 0.25 2.5
Si-Si = as.tang_toennies 143.48 1.9 127.0 2600.0 45000.0

[Potential-Form]
bks(r, qi, qj, A, rho, C) = as.coul(r, qi,qj) + as.buck(r, A, rho, C)
""",
    u"""[Tabulation]
target : GULP
cutoff : 5.0
dr : 0.25

[Pair]
A-B = as.morse 1.2 1.8 0.6
B-B = as.hbnd 100.0 50.0
A-A = as.buck4 11272.6 0.1363 134.0 1.2 2.1 2.6
""",
    u"""[Tabulation]
target : setfl
cutoff_rho : 10.0
nrho : 25
cutoff : 6.0
nr : 30

[Pair]
Al-Al = as.morse 1.2 1.8 0.6
Al-O = as.buck 1000.0 0.3 10.0
O-O = as.zero

[EAM-Density]
Al : density 2.0
O : as.exponential 0.5 2.0

[EAM-Embed]
Al : as.sqrt -0.5
O : as.polynomial 0.0 -0.1 0.01

[Potential-Form]
density(r, C) = C/r^2
""",
    u"""[Tabulation]
target : LAMMPS
cutoff : 6.0
nr : 40

[Pair]
O-O = as.buck 1633.00510 0.327022
""",
    u"""[Tabulation]
target : LAMMPS
cutoff : 6.0
nr : 40

[Pair]
O-O = as.nosuchform 1.0
""",
]

for i, cfg in enumerate(CONFIGS):
  try:
    tab = Configuration().read(io.StringIO(cfg))
    for p in getattr(tab, "potentials", []):
      pf_ = p.potentialFunction
      rec("cfg", i, p.speciesA, p.speciesB, hasattr(pf_, "deriv"), hasattr(pf_, "deriv2"),
          repr(p.energy(1.3)), repr(p.force(1.3)), repr(gradient(gradient(pf_))(1.3)))
    out = io.StringIO()
    tab.write(out)
    rec("cfg-out", i, hashlib.sha256(out.getvalue().encode("utf-8")).hexdigest(), len(out.getvalue()))
  except Exception as e:  # noqa
    rec("cfg-exc", i, type(e).__name__, str(e))

blob = "\n".join(LOG).encode("utf-8")
print("records:", len(LOG))
print("digest:", hashlib.sha256(blob).hexdigest())
if __import__("os").environ.get("TWIN_DUMP"):
  with open(__import__("os").environ["TWIN_DUMP"], "wb") as fh:
    fh.write(blob)

"""Differential script for twin A (record types of atsim/potentials/config/_common.py).

Run with:  /venv/bin/python -W ignore /tmp/wtpy.py /tmp/wt_r6_2 _twins/diffA.py
Prints a per-section digest and a final sha256 over everything that was observed."""
import copy
import glob
import hashlib
import io
import logging
import os
import pickle
import sys
import tempfile

logging.disable(logging.CRITICAL)

from atsim.potentials.config import _common
from atsim.potentials.config import ConfigParser, Configuration, FilteredConfigParser, ConfigParserOverrideTuple

OUT = []

def emit(section, *items):
  line = section + " | " + " | ".join(str(i) for i in items)
  OUT.append(line)

def attempt(section, label, func):
  try:
    v = func()
    emit(section, label, "OK", repr(v))
  except SystemExit as e:
    emit(section, label, "SystemExit", e.code)
  except BaseException as e:
    emit(section, label, "EXC", type(e).__name__, str(e))

# ---------------------------------------------------------------- 1. the record types themselves
RECORDS = ["SpeciesTuple", "EAMFSDensitySpeciesTuple", "EAMEmbedTuple", "EAMDensityTuple", "PairPotentialTuple",
  "PotentialFormInstanceTuple", "PotentialFormSignatureTuple", "PotentialFormTuple", "MultiRangeDefinitionTuple",
  "PotentialModifierTuple", "TableFormTuple"]

def record_checks():
  S = "records"
  for name in RECORDS:
    cls = getattr(_common, name)
    n = len(cls._fields)
    vals = tuple("v%d" % i for i in range(n))
    inst = cls(*vals)
    emit(S, name, "name", cls.__name__, cls.__qualname__, cls.__module__)
    emit(S, name, "fields", cls._fields, cls._field_defaults, cls.__slots__, cls.__doc__)
    emit(S, name, "mro", [c.__name__ for c in cls.__mro__], issubclass(cls, tuple))
    emit(S, name, "repr", repr(inst), str(inst), "{}".format(inst), "%s" % (inst,))
    emit(S, name, "asdict", type(inst._asdict()).__name__, list(inst._asdict().items()))
    emit(S, name, "tuple", tuple(inst), list(inst), len(inst), inst[0], inst[-1], inst[0:2])
    emit(S, name, "eq", inst == vals, vals == inst, inst != vals, hash(inst) == hash(vals), inst == cls(*vals), inst == cls(*reversed(vals)))
    emit(S, name, "dictkey", {inst: 1}[vals], {vals: 2}[inst])
    emit(S, name, "unpack", [x for x in inst], inst.count("v0"), inst.index("v0"))
    emit(S, name, "getattr", [getattr(inst, f) for f in cls._fields])
    emit(S, name, "descr_doc", [getattr(cls, f).__doc__ for f in cls._fields])
    emit(S, name, "replace", repr(inst._replace(**{cls._fields[-1]: None})), repr(inst._replace()))
    emit(S, name, "make", repr(cls._make(vals)), repr(cls._make(iter(vals))))
    emit(S, name, "kw", repr(cls(**dict(zip(cls._fields, vals)))))
    emit(S, name, "getnewargs", inst.__getnewargs__(), hasattr(inst, "__dict__"))
    emit(S, name, "match_args", getattr(cls, "__match_args__", None))
    emit(S, name, "copy", repr(copy.copy(inst)), repr(copy.deepcopy(inst)), type(copy.deepcopy(inst)) is cls)
    attempt(S, name + " too few", lambda: cls(*vals[:-1]))
    attempt(S, name + " too many", lambda: cls(*(vals + ("x",))))
    attempt(S, name + " bad kw", lambda: cls(*vals, nosuch=1))
    attempt(S, name + " bad replace", lambda: inst._replace(nosuch=1))
    attempt(S, name + " bad make", lambda: cls._make(vals[:-1]))
    attempt(S, name + " setattr", lambda: setattr(inst, cls._fields[0], 1))
    attempt(S, name + " newattr", lambda: setattr(inst, "zzz", 1))
    attempt(S, name + " pickle", lambda: pickle.loads(pickle.dumps(inst)))
    attempt(S, name + " lt", lambda: (inst < cls(*reversed(vals)), sorted([cls(*reversed(vals)), inst])))
    attempt(S, name + " add", lambda: inst + (1, 2))
  emit(S, "module names", sorted(n for n in dir(_common) if isinstance(getattr(_common, n), type) and issubclass(getattr(_common, n), tuple)))
  emit(S, "cross eq", _common.EAMEmbedTuple("a", "b") == _common.PairPotentialTuple("a", "b"),
    _common.SpeciesTuple("a", "b") == _common.EAMFSDensitySpeciesTuple("a", "b"),
    _common.EAMEmbedTuple is _common.EAMDensityTuple, _common.EAMDensityTuple is _common.PairPotentialTuple)
  def f(a, *args): pass
  def g(*args): pass
  def h(): pass
  for fn in (f, g, h, lambda r, A, rho: 0):
    attempt(S, "make_potential_form_tuple_from_function", lambda: _common.make_potential_form_tuple_from_function("nm", fn))

# ---------------------------------------------------------------- 2. parsing
INLINE = {
"pair_simple" : u"""[Pair]
O-O : as.buck 1000.0 0.3 32.0
Mg-O : as.bornmayer 1200 0.3
""",
"pair_multirange" : u"""[Pair]
O-O : as.buck 1000.0 0.3 32.0 >= 2.0 as.zero > 3 as.constant 2.0
Mg-O : >1 as.bornmayer 1200 0.3 >=4.5 as.zero
""",
"pair_modifiers" : u"""[Pair]
A-B : sum(as.buck 1000.0 0.3 32.0 >= 2.0 as.zero, as.constant 1.0 >3 as.constant 2.0)
B-B : >= 0.5 product(as.constant 2.0, as.polynomial 1 2 3) > 6 as.zero
C-B : spline(as.buck 1000.0 0.1 32.0 >=1.0 exp_spline >=2.0 as.buck 10.0 0.5 2.0)
""",
"eam" : u"""[Tabulation]
target : setfl
nr : 20
dr : 0.1
nrho : 20
drho : 0.1

[EAM-Embed]
U : as.sqrt -1.806 >= 3.0 as.polynomial 0 1
O : as.sqrt -0.690

[EAM-Density]
U : as.exponential 3450.995 -2 >2 as.zero
O : as.exponential 106.856 -3

[Pair]
O-O : as.buck 830.283 0.352856 3.884372
U-O : as.buck 448.779 0.387758 0.0
U-U : as.buck 18600 0.2747 0.0
""",
"eam_fs" : u"""[Tabulation]
target : setfl_fs
nr : 20
dr : 0.1
nrho : 20
drho : 0.1

[EAM-Embed]
Al : as.sqrt -1.0
Fe : as.sqrt -2.0

[EAM-Density]
Al->Al : as.exponential 1.0 -2
Al->Fe : as.exponential 2.0 -2 >= 1.5 as.zero
Fe->Al : as.exponential 3.0 -2
Fe->Fe : as.exponential 4.0 -2

[Pair]
Al-Al : as.buck 830.283 0.352856 3.884372
Fe-Al : as.buck 448.779 0.387758 0.0
Fe-Fe : as.buck 18600 0.2747 0.0
""",
"table_forms" : u"""[Tabulation]
target : LAMMPS
cutoff : 3.0
nr : 13

[Table-Form:tabulated]
interpolation : cubic_spline
x : 0.0 1.0 2.0 3.0
y : 4.0 2.0 1.0 0.0

[Table-Form:other]
interpolation : cubic_spline
xy : 0.0 4.0 1.0 2.0
     2.0 1.5 3.0 0.5

[Pair]
O-O : tabulated
U-O : sum(other, as.constant 1.0)
""",
"potential_forms" : u"""[Potential-Form]
buck_morse(r_ij, A,rho,C,D,gamma,r0) : as.buck(r_ij, A,rho,C) + as.morse(r_ij, gamma,r0,D)
density(r_ij, n) : (n/r_ij^8) * (1/2)*(1+erf(20*(r_ij-1.5)))

[Pair]
Th-O : buck_morse 315.544 0.395903 0.0 0.62614 1.85960 2.49788 >= 5 as.zero
""",
"bad_range" : u"""[Pair]
O-O : as.buck 1000.0 0.3 32.0 => 2.0 as.zero
""",
"bad_species" : u"""[Pair]
OO : as.buck 1000.0 0.3 32.0
""",
"bad_fs_species" : u"""[EAM-Density]
Al-Fe : as.exponential 2.0 -2
""",
"dup_pair" : u"""[Pair]
O-U : as.buck 1000.0 0.3 32.0
U-O : as.buck 1000.0 0.3 32.0
""",
"dup_table" : u"""[Table-Form:a]
interpolation : cubic_spline
x : 0 1
y : 0 1

[Table-Form:a]
interpolation : cubic_spline
x : 0 1
y : 0 1
""",
"bad_table" : u"""[Table-Form:a]
interpolation : cubic_spline
x : 0 1 2
y : 0 1
""",
"unbalanced" : u"""[Pair]
A-B : sum(as.buck 1000.0 0.3 32.0, as.constant 1.0
""",
"spline_bad_order" : u"""[Tabulation]
target : LAMMPS
cutoff : 3.0
nr : 13
[Pair]
C-B : spline(as.buck 1000.0 0.1 32.0 >=2.0 exp_spline >=1.0 as.buck 10.0 0.5 2.0)
""",
"spline_two_parts" : u"""[Tabulation]
target : LAMMPS
cutoff : 3.0
nr : 13
[Pair]
C-B : spline(as.buck 1000.0 0.1 32.0 >=2.0 exp_spline)
""",
"empty" : u"",
}

PROPS = ["pair", "eam_embed", "eam_density", "eam_density_fs", "table_form", "potential_form", "tabulation", "species",
  "parsed_sections", "orphan_sections"]

def describe_parser(S, label, cp):
  for prop in PROPS:
    attempt(S, "%s.%s" % (label, prop), lambda: getattr(cp, prop))

def walk(node, depth = 0):
  """Flatten a parsed potential-form-instance chain, touching every field by name, index and unpacking"""
  res = []
  while node is not None:
    if hasattr(node, "modifier"):
      modifier, potential_forms, start, nxt = node
      res.append((depth, "mod", modifier, None if start is None else (start.range_type, start.start, start[0], tuple(start))))
      for pf in potential_forms:
        res.extend(walk(pf, depth + 1))
    else:
      potential_form, parameters, start, nxt = node
      res.append((depth, "pf", potential_form, list(parameters), None if start is None else (start.range_type, start.start)))
      assert node.next is nxt and node[3] is nxt
    node = nxt
  return res

def parser_checks():
  S = "parse"
  for label in sorted(INLINE):
    def mk():
      return ConfigParser(io.StringIO(INLINE[label]))
    try:
      cp = mk()
    except BaseException as e:
      emit(S, label, "ctor EXC", type(e).__name__, str(e))
      continue
    describe_parser(S, label, cp)
    for prop in ("pair", "eam_embed", "eam_density", "eam_density_fs"):
      try:
        for species, pfi in getattr(cp, prop):
          emit(S, label, prop, "walk", tuple(species), walk(pfi))
      except BaseException as e:
        emit(S, label, prop, "walk EXC", type(e).__name__)
  files = sorted(glob.glob("tests/**/*.aspot", recursive = True) + glob.glob("docs/**/*.aspot", recursive = True))
  for fname in files:
    with open(fname) as infile:
      try:
        cp = ConfigParser(infile)
      except BaseException as e:
        emit(S, fname, "ctor EXC", type(e).__name__, str(e))
        continue
      describe_parser(S, fname, cp)
  # overrides and filtering
  with open("tests/lammps_resources/CRG_U_Th.aspot") as infile:
    cp = ConfigParser(infile,
      overrides = [ConfigParserOverrideTuple("Pair", "O-O", "as.buck 1.0 2.0 3.0 >= 3 as.zero"), ConfigParserOverrideTuple("EAM-Embed", "Th", None)],
      additional = [ConfigParserOverrideTuple("Pair", "Pu-O", "sum(as.buck 1 2 3, as.constant 2 >4 as.zero)")])
    describe_parser(S, "override", cp)
    describe_parser(S, "filter_incl", FilteredConfigParser(cp, include = ["O", "U"]))
    describe_parser(S, "filter_excl", FilteredConfigParser(cp, exclude = ["U"]))
  return files

# ---------------------------------------------------------------- 3. tabulation through the public API / CLI
def tabulate_cp(cp):
  tabulation = Configuration().read_from_parser(cp)
  d = tempfile.mkdtemp()
  out = os.path.join(d, "out.tab")
  with tabulation.open_fp(out) as outfile:
    tabulation.write(outfile)
  res = []
  for root, dirs, fnames in os.walk(d):
    for fn in sorted(fnames):
      with open(os.path.join(root, fn), "rb") as f:
        res.append((fn, hashlib.sha256(f.read()).hexdigest()))
  return res

SMALL_GRID = {
  "pair" : [ConfigParserOverrideTuple("Tabulation", "nr", "150"), ConfigParserOverrideTuple("Tabulation", "dr", None)],
}

def tabulation_checks(files):
  S = "tabulate"
  for label in sorted(INLINE):
    def run():
      return tabulate_cp(ConfigParser(io.StringIO(INLINE[label])))
    attempt(S, label, run)
  for fname in files:
    def run():
      with open(fname) as infile:
        return tabulate_cp(ConfigParser(infile))
    attempt(S, fname, run)
  for target in ["LAMMPS", "DL_POLY", "GULP", "excel", "nosuch"]:
    def run():
      with open("docs/user_guide/example_files/morelon_buck4_spline.aspot") as infile:
        cp = ConfigParser(infile, overrides = [ConfigParserOverrideTuple("Tabulation", "target", target)])
        if target == "excel":
          t = Configuration().read_from_parser(cp)
          return type(t).__name__
        return tabulate_cp(cp)
    attempt(S, "target " + target, run)
  # potable command line
  from atsim.potentials.tools import potable
  import contextlib
  for args in (["--list-items"], ["--list-item-labels"], ["--item-value", "Pair:O-O"], ["--include-species", "O", "--list-items"],
               ["-e", "Pair:O-O=as.zero", "--list-items"], ["-e", "PairO-O", "--list-items"], ["-r", "Pair:O-O", "--list-items"]):
    def run():
      buf = io.StringIO()
      err = io.StringIO()
      code = None
      with contextlib.redirect_stdout(buf), contextlib.redirect_stderr(err):
        try:
          p, a = potable._parse_command_line(["tests/lammps_resources/CRG_U_Th.aspot"] + args)
          try:
            potable._do_tabulation(p, a)
          except _common.ConfigurationException as e:
            p.error("configuration error - {}".format(e))
        except SystemExit as e:
          code = e.code
      return (code, hashlib.sha256(buf.getvalue().encode()).hexdigest(), err.getvalue()[-200:])
    attempt(S, "potable " + " ".join(args), run)

def main():
  record_checks()
  files = parser_checks()
  tabulation_checks(files)
  sections = {}
  for line in OUT:
    sections.setdefault(line.split(" | ", 1)[0], hashlib.sha256()).update((line + "\n").encode("utf-8"))
  if "-v" in sys.argv:
    for line in OUT:
      print(line)
  for k in sorted(sections):
    print("section %-10s lines=%5d sha256=%s" % (k, sum(1 for l in OUT if l.startswith(k + " | ")), sections[k].hexdigest()))
  print("TOTAL sha256=%s" % hashlib.sha256("\n".join(OUT).encode("utf-8")).hexdigest())

main()

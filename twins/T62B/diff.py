"""Differential script for twin B (Multi_Range_Defn / range markers in atsim/potentials/_multi_range_potential_form.py).

Run with:  /venv/bin/python -W ignore /tmp/wtpy.py /tmp/wt_r6_2 _twins/diffB.py
Prints a per-section digest and a final sha256 over everything that was observed."""
import copy
import glob
import hashlib
import io
import itertools
import logging
import os
import sys
import tempfile

logging.disable(logging.CRITICAL)

from atsim.potentials import Multi_Range_Defn, create_Multi_Range_Potential_Form, potentialforms, Potential
from atsim.potentials import _multi_range_potential_form as mrpf
from atsim.potentials.config import ConfigParser, Configuration, ConfigParserOverrideTuple
from atsim.potentials.config._potential_form_registry import Potential_Form_Registry
from atsim.potentials.config import Modifier_Registry
from atsim.potentials.config._potential_form_builder import Potential_Form_Builder

OUT = []

def emit(section, *items):
  OUT.append(section + " | " + " | ".join(str(i) for i in items))

def attempt(section, label, func):
  try:
    emit(section, label, "OK", repr(func()))
  except BaseException as e:
    emit(section, label, "EXC", type(e).__name__, str(e))

class Analytic(object):
  """callable with analytical first derivative"""
  def __init__(self, m): self.m = m
  def __call__(self, r): return self.m * r * r
  def deriv(self, r): return 2.0 * self.m * r
  def __repr__(self): return "Analytic(%r)" % self.m

class Analytic2(Analytic):
  def deriv2(self, r): return 2.0 * self.m
  def __repr__(self): return "Analytic2(%r)" % self.m

def plain(r):
  return 3.0 * r + 1.0

class StrLike(str):
  pass

RS = [-1.0, -0.5, 0.0, 0.25, 0.5, 1.0, 1.5, 1.9999999, 2.0, 2.0000001, 2.5, 3.0, 3.5, 4.0, 10.0, float("inf"), float("-inf")]

def defn_checks():
  S = "defn"
  pfs = [plain, Analytic(2.0), Analytic2(0.5), potentialforms.buck(1000.0, 0.3, 32.0), "a string", None]
  for rtype in [">", ">=", u">", u">=", StrLike(">="), "=>", "", None, 1]:
    for start in [0, 0.0, 2.5, float("-inf"), None, "x"]:
      for pf in pfs:
        label = "%r %r %r" % (rtype, start, pf if not callable(pf) or isinstance(pf, Analytic) else getattr(pf, "__name__", type(pf).__name__))
        d = Multi_Range_Defn(rtype, start, pf)
        emit(S, label, "attrs", repr(d.range_type), repr(d.start), d.potential_form is pf, d.range_type is rtype, d.start is start,
          d.has_deriv, d.has_deriv2, type(d.range_type).__name__)
        emit(S, label, "cmp", d.range_type == ">", d.range_type == ">=", ">" == d.range_type, ">=" == d.range_type)
        if callable(pf):
          attempt(S, label + " deriv", lambda: [d.deriv(r) for r in (0.5, 1.0, 2.0)])
          attempt(S, label + " deriv2", lambda: [d.deriv2(r) for r in (0.5, 1.0, 2.0)])
  d = Multi_Range_Defn(">", 1.0, plain)
  for name in ("range_type", "start", "potential_form", "has_deriv", "has_deriv2"):
    attempt(S, "set " + name, lambda: setattr(d, name, 5))
    attempt(S, "del " + name, lambda: delattr(d, name))
    emit(S, "descr", name, type(getattr(Multi_Range_Defn, name)).__name__, getattr(Multi_Range_Defn, name).fset, getattr(Multi_Range_Defn, name).fdel)
  attempt(S, "kwargs ignored", lambda: Multi_Range_Defn(">", 1.0, plain, a = 1, b = 2).start)
  attempt(S, "kw ctor", lambda: Multi_Range_Defn(potential_form = plain, start = 2, range_type = ">=").range_type)
  attempt(S, "missing arg", lambda: Multi_Range_Defn(">", 1.0))
  attempt(S, "too many", lambda: Multi_Range_Defn(">", 1.0, plain, 4))
  attempt(S, "eq identity", lambda: (d == Multi_Range_Defn(">", 1.0, plain), d == d, d != d, hash(d) == hash(d), len({d, d, Multi_Range_Defn(">", 1.0, plain)})))
  c = copy.copy(d)
  emit(S, "copy", c is d, c.range_type, c.start, c.potential_form is plain, c.deriv(1.0), c.deriv2(1.0))
  emit(S, "class", Multi_Range_Defn.__name__, Multi_Range_Defn.__module__, [k.__name__ for k in Multi_Range_Defn.__mro__])
  emit(S, "private", d._range_type, d._start, d._potential_form is plain, type(d._deriv_callable).__name__, type(d._deriv2_callable).__name__)

def form_checks():
  S = "form"
  pf_by_name = {"plain": plain, "an": Analytic(2.0), "an2": Analytic2(0.5), "buck": potentialforms.buck(1000.0, 0.3, 32.0), "zero": potentialforms.zero()}
  specs = [
    [],
    [(">", 0.0, "plain")],
    [(">=", 0.0, "plain")],
    [(">", 2.0, "an"), (">", 0.0, "plain")],
    [(">=", 2.0, "an"), (">=", 0.0, "plain")],
    [(">", 2.0, "an"), (">=", 2.0, "an2"), (">", 0.0, "plain")],
    [(">=", 2.0, "an"), (">", 2.0, "an2"), (">", 0.0, "plain")],
    [(">", 2.0, "plain"), (">", 2.0, "an"), (">=", 2.0, "an2"), (">=", 2.0, "buck")],
    [(">=", 3.0, "zero"), (">", 1.0, "buck"), (">=", 2.0, "an2"), (">", float("-inf"), "plain")],
    [(u">", 0, "buck"), (StrLike(">="), 0, "an"), ("=>", 0, "an2"), ("", 0.0, "plain")],
    [(">", 1, "plain"), (">=", 1.0, "an"), (">", 3, "zero"), (">=", 3, "an2"), (">", 2, "buck")],
  ]
  for i, spec in enumerate(specs):
    for perm_i, perm in enumerate(itertools.islice(itertools.permutations(spec), 6)):
      for kwargs in ({}, {"default_value": -7.5}):
        defns = [Multi_Range_Defn(rt, st, pf_by_name[pf]) for (rt, st, pf) in perm]
        label = "spec%d perm%d %s" % (i, perm_i, sorted(kwargs.items()))
        form = create_Multi_Range_Potential_Form(*defns, **kwargs)
        emit(S, label, "class", type(form).__name__, form.default_value, hasattr(form, "deriv"), hasattr(form, "deriv2"))
        order = [(defns.index(d), d.range_type, d.start) for d in form.range_defns]
        emit(S, label, "order", order)
        attempt(S, label + " call", lambda: [form(r) for r in RS])
        attempt(S, label + " search", lambda: [None if form._range_search(r) is None else defns.index(form._range_search(r)) for r in RS])
        if hasattr(form, "deriv"):
          attempt(S, label + " deriv", lambda: [form.deriv(r) for r in RS])
        if hasattr(form, "deriv2"):
          attempt(S, label + " deriv2", lambda: [form.deriv2(r) for r in RS])
        # reassign the definitions in reverse through the setter
        form.range_defns = tuple(reversed(defns))
        emit(S, label, "reorder", [(defns.index(d), d.range_type, d.start) for d in form.range_defns])
        attempt(S, label + " call2", lambda: [form(r) for r in RS])
        # Use via Potential
        pot = Potential("A", "B", form)
        attempt(S, label + " potential", lambda: [(pot.energy(r), pot.force(r)) for r in RS[2:-2]])
  attempt(S, "bad kw", lambda: create_Multi_Range_Potential_Form(Multi_Range_Defn(">", 0, plain), blah = 1))
  attempt(S, "bad kw2", lambda: mrpf.Multi_Range_Potential_Form(default_value = 1.0, blah = 2.0, aargh = 3))
  attempt(S, "mixed start types", lambda: create_Multi_Range_Potential_Form(Multi_Range_Defn(">", 0, plain), Multi_Range_Defn(">", "x", plain)))
  attempt(S, "none start", lambda: create_Multi_Range_Potential_Form(Multi_Range_Defn(">", 0, plain), Multi_Range_Defn(">", None, plain)))
  attempt(S, "same none start", lambda: [d.range_type for d in create_Multi_Range_Potential_Form(Multi_Range_Defn(">", None, plain), Multi_Range_Defn(">=", None, plain)).range_defns])
  attempt(S, "cmp", lambda: [mrpf._range_defn_cmp(Multi_Range_Defn(a, 1, plain), Multi_Range_Defn(b, s, plain))
    for a in (">", ">=", "x", None) for b in (">", ">=", "x", None) for s in (0, 1, 2)])

CONFIGS = {
"multirange" : u"""[Tabulation]
target : LAMMPS
cutoff : 6.0
nr : 61

[Pair]
O-O : as.buck 1000.0 0.3 32.0 >= 2.0 as.zero > 3 as.constant 2.0 >=3 as.constant 4.0
Mg-O : >1 as.bornmayer 1200 0.3 >=4.5 as.zero
Mg-Mg : >=1 as.bornmayer 1200 0.3 >1 as.constant 5
""",
"nested" : u"""[Tabulation]
target : DL_POLY
cutoff : 6.0
nr : 64

[Pair]
A-B : sum(as.buck 1000.0 0.3 32.0 >= 2.0 as.zero, as.constant 1.0 >3 as.constant 2.0)
B-B : >= 0.5 product(as.constant 2.0, as.polynomial 1 2 3) > 6 as.zero
C-B : spline(as.buck 1000.0 0.1 32.0 >=1.0 exp_spline >=2.0 as.buck 10.0 0.5 2.0)
C-C : spline(as.buck 1000.0 0.1 32.0 >1.0 buck4_spline 1.5 >2.0 as.buck 10.0 0.5 2.0) >= 5 as.zero
""",
"gulp" : u"""[Tabulation]
target : GULP
cutoff : 6.0
nr : 31

[Pair]
O-O : as.polynomial 5.0 -1.0 0.25 >= 2.0 as.zero > 3 as.constant 2.0
U-O : >=0 as.polynomial 1200 -2 >=0 as.zero
""",
"eam" : u"""[Tabulation]
target : setfl
nr : 30
dr : 0.1
nrho : 30
drho : 0.1

[EAM-Embed]
U : as.sqrt -1.806 >= 3.0 as.polynomial 0 1 > 3.0 as.polynomial 1 1
O : as.sqrt -0.690

[EAM-Density]
U : as.exponential 3450.995 -2 >2 as.zero
O : >= 0.5 as.exponential 106.856 -3

[Pair]
O-O : as.buck 830.283 0.352856 3.884372
U-O : as.buck 448.779 0.387758 0.0 > 2.5 as.zero
U-U : as.buck 18600 0.2747 0.0
""",
"bad_marker" : u"""[Tabulation]
target : LAMMPS
cutoff : 6.0
nr : 61

[Pair]
O-O : as.buck 1000.0 0.3 32.0 => 2.0 as.zero
""",
"bad_start" : u"""[Tabulation]
target : LAMMPS
cutoff : 6.0
nr : 61

[Pair]
O-O : as.buck 1000.0 0.3 32.0 >= abc as.zero
""",
}

def tabulate_cp(cp):
  tabulation = Configuration().read_from_parser(cp)
  d = tempfile.mkdtemp()
  out = os.path.join(d, "out.tab")
  with tabulation.open_fp(out) as outfile:
    tabulation.write(outfile)
  with open(out, "rb") as f:
    return hashlib.sha256(f.read()).hexdigest()

def config_checks():
  S = "config"
  for label in sorted(CONFIGS):
    attempt(S, label, lambda: tabulate_cp(ConfigParser(io.StringIO(CONFIGS[label]))))
    def describe():
      cp = ConfigParser(io.StringIO(CONFIGS[label]))
      builder = Potential_Form_Builder(Potential_Form_Registry(cp, register_standard = True), Modifier_Registry())
      res = []
      for pp in cp.pair:
        form = builder.create_potential_function(pp.potential_form_instance)
        res.append((tuple(pp.species), type(form).__name__, [(d.range_type, d.start, type(d.range_type).__name__, d.has_deriv, d.has_deriv2) for d in form.range_defns],
          [form(r) for r in RS[2:-2]]))
      return res
    attempt(S, label + " forms", describe)
  files = sorted(glob.glob("tests/**/*.aspot", recursive = True) + glob.glob("docs/**/*.aspot", recursive = True))
  for fname in files:
    def run():
      with open(fname) as infile:
        return tabulate_cp(ConfigParser(infile))
    attempt(S, fname, run)

def main():
  defn_checks()
  form_checks()
  config_checks()
  sections = {}
  for line in OUT:
    sections.setdefault(line.split(" | ", 1)[0], hashlib.sha256()).update((line + "\n").encode("utf-8"))
  if "-v" in sys.argv:
    for line in OUT:
      print(line)
  for k in sorted(sections):
    print("section %-10s lines=%5d sha256=%s" % (k, sum(1 for l in OUT if l.startswith(k + " | ")), sections[k].hexdigest()))
  print("TOTAL sha256=%s" % hashlib.sha256("\n".join(OUT).encode("utf-8")).hexdigest())

main()

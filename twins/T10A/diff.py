"""Differential script for twin A (shared species pair-key helper).

Exercises every consumer of the sorted species-pair key: setfl / setfl_fs / ADP
pair blocks, TABEAM / TABEAM-FS pair blocks and the Excel 'Pair' sheet, with
varied element orders, reversed / duplicated / missing pair potentials and
malformed (non-orderable) species labels.  Prints a sha256 digest.
"""
import hashlib
import io
import itertools
import math

from atsim.potentials import (EAMPotential, Potential, writeSetFL,
                              writeSetFLFinnisSinclair, writeTABEAM,
                              writeTABEAMFinnisSinclair)
from atsim.potentials.eam_tabulation import (ADP_EAMTabulation,
                                             Excel_EAMTabulation,
                                             Excel_FinnisSinclair_EAMTabulation)
from atsim.potentials.pair_tabulation import Excel_PairTabulation

LOG = []


def log(*items):
  LOG.append(repr(items))


class Traced(object):
  """Callable that records every call so evaluation order enters the digest"""

  def __init__(self, name, func):
    self.name = name
    self.func = func

  def __call__(self, x):
    LOG.append("call %s %r" % (self.name, x))
    return self.func(x)


def embed(scale):
  return Traced("embed%s" % scale, lambda rho: -scale * math.sqrt(rho))


def dens(scale):
  return Traced("dens%s" % scale, lambda r: scale * math.exp(-0.7 * r))


def pairfunc(a, b, scale):
  return Traced("pair%s%s%s" % (a, b, scale), lambda r: scale / (r + 0.3) ** 2)


def make_eam(species_list, fs=False):
  pots = []
  for n, sp in enumerate(species_list):
    if fs:
      d = dict((other, dens(1.0 + n + 0.1 * m)) for m, other in enumerate(species_list))
    else:
      d = dens(1.0 + n)
    pots.append(EAMPotential(sp, 10 + n, 20.5 + n, embed(1.0 + n), d, 3.0 + n, ['fcc', 'bcc', 'hcp', 'sc'][n % 4]))
  return pots


def run(label, thunk):
  out = io.StringIO()
  try:
    thunk(out)
    log(label, "ok", out.getvalue())
  except Exception as e:
    log(label, "exc", type(e).__name__, str(e), out.getvalue())


def workbook_dump(wb):
  rows = []
  for ws in wb.worksheets:
    rows.append(("sheet", ws.title))
    for row in ws.iter_rows():
      rows.append(tuple(c.value for c in row))
  return rows


SPECIES_SETS = [
    ["Al"],
    ["Cu", "Al"],
    ["Al", "Cu"],
    ["Zr", "Al", "Cu"],
    ["b", "B", "a"],
    ["Fe", "Fe"],
]

GRIDS = [(5, 0.1, 6, 0.25), (3, 0.5, 9, 0.125), (1, 1.0, 1, 1.0)]


def pair_variants(species):
  combos = list(itertools.combinations_with_replacement(species, 2))
  # all, given in construction order
  yield "all", [Potential(a, b, pairfunc(a, b, 1.0 + i)) for i, (a, b) in enumerate(combos)]
  # reversed species labels and reversed list order
  yield "rev", [Potential(b, a, pairfunc(b, a, 2.0 + i)) for i, (a, b) in enumerate(reversed(combos))]
  # duplicates: A-B then B-A (later one should win in dict based lookups)
  dup = []
  for i, (a, b) in enumerate(combos):
    dup.append(Potential(a, b, pairfunc(a, b, 3.0 + i)))
    dup.append(Potential(b, a, pairfunc(b, a, 4.0 + i)))
  yield "dup", dup
  # missing: only first pair
  yield "missing", [Potential(combos[0][0], combos[0][1], pairfunc(combos[0][0], combos[0][1], 5.0))]
  yield "none", []
  # extra unrelated pair
  yield "extra", [Potential("Xx", species[0], pairfunc("Xx", species[0], 6.0))]


for species in SPECIES_SETS:
  for nrho, drho, nr, dr in GRIDS:
    for vname, _ in pair_variants(species):
      def fresh():
        return dict(pair_variants(species))[vname]
      tag = "%s|%s|%s" % (",".join(species), (nrho, drho, nr, dr), vname)

      eam = make_eam(species)
      pp = fresh()
      run("setfl " + tag, lambda out: writeSetFL(nrho, drho, nr, dr, eam, pp, out, ["c1", "c2"]))

      eam = make_eam(species)
      pp = fresh()
      run("tabeam " + tag, lambda out: writeTABEAM(nrho, drho, nr, dr, eam, pp, out, "title " + tag))

      eam = make_eam(species, fs=True)
      pp = fresh()
      run("setfl_fs " + tag, lambda out: writeSetFLFinnisSinclair(nrho, drho, nr, dr, eam, pp, out, ["only one"], cutoff=2.5))

      eam = make_eam(species, fs=True)
      pp = fresh()
      run("tabeam_fs " + tag, lambda out: writeTABEAMFinnisSinclair(nrho, drho, nr, dr, eam, pp, out, "fs " + tag))

      if nr > 1 and nrho > 1:
        eam = make_eam(species)
        pp = fresh()
        dip = dict(pair_variants(species))["missing"]
        quad = dict(pair_variants(species))["rev"]
        tab = ADP_EAMTabulation(pp, eam, dip, quad, dr * (nr - 1), nr, drho * (nrho - 1), nrho)
        run("adp " + tag, tab.write)

        pp = fresh()
        tab = Excel_PairTabulation(pp, dr * (nr - 1), nr)
        try:
          log("excel_pair " + tag, workbook_dump(tab.workbook))
        except Exception as e:
          log("excel_pair " + tag, "exc", type(e).__name__, str(e))

        eam = make_eam(species)
        pp = fresh()
        tab = Excel_EAMTabulation(pp, eam, dr * (nr - 1), nr, drho * (nrho - 1), nrho)
        try:
          log("excel_eam " + tag, workbook_dump(tab.workbook))
        except Exception as e:
          log("excel_eam " + tag, "exc", type(e).__name__, str(e))

# Malformed species labels: un-orderable mixtures, None, ints, tuples
BAD = [
    (["Al", 1], [("Al", 1)]),
    ([None, "Al"], [("Al", "Al")]),
    (["Al", "Cu"], [("Al", None)]),
    (["Al", "Cu"], [(1, 2)]),
    ([2, 1], [(1, 2), (2, 2)]),
    ([("A", 1), ("A", 0)], [(("A", 1), ("A", 0))]),
    (["Al", "Cu"], [("Cu", 3.5), ("Al", "Cu")]),
]
for species, pairs in BAD:
  tag = "bad|%r|%r" % (species, pairs)

  def mkpp():
    return [Potential(a, b, pairfunc(a, b, 1.5 + i)) for i, (a, b) in enumerate(pairs)]
  eam = make_eam(species)
  pp = mkpp()
  run("setfl " + tag, lambda out: writeSetFL(4, 0.1, 4, 0.1, eam, pp, out))
  eam = make_eam(species)
  pp = mkpp()
  run("tabeam " + tag, lambda out: writeTABEAM(4, 0.1, 4, 0.1, eam, pp, out))
  eam = make_eam(species, fs=True)
  pp = mkpp()
  run("setfl_fs " + tag, lambda out: writeSetFLFinnisSinclair(4, 0.1, 4, 0.1, eam, pp, out))
  eam = make_eam(species, fs=True)
  pp = mkpp()
  run("tabeam_fs " + tag, lambda out: writeTABEAMFinnisSinclair(4, 0.1, 4, 0.1, eam, pp, out))
  eam = make_eam(species)
  tab = ADP_EAMTabulation(mkpp(), eam, mkpp(), mkpp(), 0.3, 4, 0.3, 4)
  run("adp " + tag, tab.write)
  tab = Excel_PairTabulation(mkpp(), 0.3, 4)
  try:
    log("excel_pair " + tag, workbook_dump(tab.workbook))
  except Exception as e:
    log("excel_pair " + tag, "exc", type(e).__name__, str(e))

# Objects lacking speciesA / speciesB
class NoSpecies(object):
  def energy(self, r):
    return 1.0
eam = make_eam(["Al", "Cu"])
run("setfl nospecies", lambda out: writeSetFL(4, 0.1, 4, 0.1, eam, [NoSpecies()], out))
run("tabeam nospecies", lambda out: writeTABEAM(4, 0.1, 4, 0.1, eam, [NoSpecies()], out))

blob = "\n".join(LOG).encode("utf-8")
print("records", len(LOG), "bytes", len(blob))
print("sha256", hashlib.sha256(blob).hexdigest())

"""Ext A: minus() potential modifier.

(a) prints the existing-behaviour digest (must be identical on clean and edited trees)
(b) demonstrates the minus() modifier: values, analytic derivatives vs finite differences,
    numerical fallback, error paths, agreement with Python API composition, determinism."""
import hashlib
import io
import os
import subprocess
import sys

sys.path.insert(0, os.path.dirname(os.path.abspath(__file__)))
import common_digest as cd

d, _lines = cd.digest()
print("EXISTING-BEHAVIOUR DIGEST:", d)

from atsim.potentials import _modifiers, plus, product
from atsim.potentials import potentialforms as pforms
from atsim.potentials.config import Configuration
from atsim.potentials.config._common import ConfigurationException
from atsim.potentials.config._modifier_registry import Modifier_Registry

if not hasattr(_modifiers, "minus"):
  print("NEW FEATURE: minus() modifier absent (clean tree)")
  sys.exit(0)

assert Modifier_Registry()["minus"] is _modifiers.minus
assert sorted(Modifier_Registry()._modifiers) == ["minus", "pow", "product", "spline", "sum", "trans"]

MODEL = u"""[Tabulation]
target : LAMMPS
cutoff : 6.0
nr : 13

[Pair]
A-A : minus(as.buck 1000.0 0.3 32.0, as.morse 1.2 2.1 0.4)
A-B : minus(as.buck 1000.0 0.3 32.0, as.morse 1.2 2.1 0.4, as.polynomial 1.0 -3.0 0.5)
A-C : minus(born 800 0.25, disp 32.0)
A-D : minus(as.buck 1000.0 0.3 32.0, disp 32.0)
B-B : minus(sum(as.lj 0.1 2.5, as.constant 1), product(as.constant 2, minus(as.coul 1 -1, as.constant 0.5)))
B-C : >0 as.zero >=1.0 minus(as.buck 1000.0 0.3 32.0, >2.0 as.constant 3.0)
B-D : pow(minus(as.constant 9, as.polynomial 0 0.5), as.constant 2)
C-C : trans(minus(as.buck 1000.0 0.3 32.0, as.constant 1), as.constant 0.5)
C-D : minus( as.constant 5.0 ,
             as.constant 2.0, as.constant 4.0)

[Potential-Form]
born(r, A, rho) = A*exp(-r/rho)
disp(r, C) = C/r^6
"""

buck = pforms.buck(1000.0, 0.3, 32.0)
morse = pforms.morse(1.2, 2.1, 0.4)
poly = pforms.polynomial(1.0, -3.0, 0.5)
neg = lambda f: product(pforms.constant(-1.0), f)

def expect_AA(r): return buck(r) - morse(r)
def expect_AB(r): return buck(r) - morse(r) - poly(r)
def expect_AC(r):
  import math
  return 800*math.exp(-r/0.25) - 32.0/r**6
def expect_AD(r): return buck(r) - 32.0/r**6
def expect_BB(r): return (pforms.lj(0.1, 2.5)(r) + 1) - 2*(pforms.coul(1, -1)(r) - 0.5)
def expect_BC(r):
  if r < 1.0: return 0.0
  return buck(r) - (3.0 if r > 2.0 else 0.0)
def expect_BD(r): return (9 - 0.5*r)**2
def expect_CC(r): return buck(r+0.5) - 1
def expect_CD(r): return -1.0

expected = {("A","A"): expect_AA, ("A","B"): expect_AB, ("A","C"): expect_AC, ("A","D"): expect_AD,
  ("B","B"): expect_BB, ("B","C"): expect_BC, ("B","D"): expect_BD, ("C","C"): expect_CC, ("C","D"): expect_CD}

def fd1(f, r, h = 1e-5): return (f(r+h) - f(r-h))/(2*h)
def fd2(f, r, h = 1e-4): return (f(r+h) - 2*f(r) + f(r-h))/(h*h)
def close(a, b, tol): return abs(a-b) <= tol*max(1.0, abs(a), abs(b))

tab = Configuration().read(io.StringIO(MODEL))
RS = [0.35, 0.7, 1.05, 1.5, 1.95, 2.4, 3.1, 4.45, 5.9, 8.2]
nchecks = 0
for p in tab.potentials:
  f = p.potentialFunction
  e = expected[(p.speciesA, p.speciesB)]
  has_d, has_d2 = hasattr(f, "deriv"), hasattr(f, "deriv2")
  print("  {}-{} deriv={} deriv2={}".format(p.speciesA, p.speciesB, has_d, has_d2))
  for r in RS:
    assert close(f(r), e(r), 1e-12), (p.speciesA, p.speciesB, r, f(r), e(r))
    assert close(-p.force(r), fd1(e, r), 2e-6), (p.speciesA, p.speciesB, r, p.force(r), fd1(e, r))
    if has_d:
      assert close(f.deriv(r), fd1(e, r), 2e-6), (p.speciesA, p.speciesB, r, f.deriv(r), fd1(e, r))
    if has_d2:
      assert close(f.deriv2(r), fd2(e, r), 2e-4), (p.speciesA, p.speciesB, r, f.deriv2(r), fd2(e, r))
    nchecks += 1
# analytic derivatives offered exactly when a component offers them (same rule as sum())
pd = dict(((p.speciesA, p.speciesB), p.potentialFunction) for p in tab.potentials)
assert hasattr(pd[("A","A")], "deriv") and hasattr(pd[("A","A")], "deriv2")
assert hasattr(pd[("A","D")], "deriv") and hasattr(pd[("A","D")], "deriv2")
print("NEW FEATURE: minus() values/deriv/deriv2 agree with closed forms and finite differences at {} (potential, r) points".format(nchecks))

# pure cexprtk forms have no analytic derivative: minus() does not invent one at the modifier level (same as sum())
SUMMODEL = MODEL.replace("minus(born 800 0.25, disp 32.0)", "sum(born 800 0.25, disp 32.0)")
sd = dict(((p.speciesA, p.speciesB), p.potentialFunction) for p in Configuration().read(io.StringIO(SUMMODEL)).potentials)
assert hasattr(sd[("A","C")], "deriv") == hasattr(pd[("A","C")], "deriv")
assert hasattr(sd[("A","C")], "deriv2") == hasattr(pd[("A","C")], "deriv2")

# Same as composing through the Python API: a - b == plus(a, product(-1, b)), exactly the same derivative too
api = plus(buck, neg(morse))
for r in RS:
  assert close(pd[("A","A")](r), api(r), 1e-13)
  assert close(pd[("A","A")].deriv(r), api.deriv(r), 1e-12)
  assert close(pd[("A","A")].deriv2(r), api.deriv2(r), 1e-12)
print("NEW FEATURE: minus(a,b) == plus(a, product(constant(-1), b)) through the Python API")

# Tabulated LAMMPS force column is -dU/dr of the tabulated energy
out = io.StringIO(); tab.write(out)
text1 = out.getvalue()
rows = [l.split() for l in text1.splitlines() if len(l.split()) == 4 and l.split()[0].isdigit()]
assert len(rows) == 9*12
first = [r for r in rows[:12]]
for n, r, E, F in first:
  r = float(r)
  assert abs(float(E) - expect_AA(r)) <= 5.1e-9*max(1.0, abs(float(E))) and close(float(F), -fd1(expect_AA, r), 1e-5)  # printed to 8 d.p.
out = io.StringIO(); Configuration().read(io.StringIO(MODEL)).write(out)
assert out.getvalue() == text1
print("NEW FEATURE: table sha256", hashlib.sha256(text1.encode()).hexdigest())

# Error paths are configuration errors
for name, body in [
  ("one_arg", "A-B : minus(as.buck 1 0.2 3)"),
  ("nested_one_arg", "A-B : sum(as.constant 1, minus(as.constant 1))"),
  ("bad_form", "A-B : minus(as.nosuch 1, as.constant 1)"),
  ("bad_params", "A-B : minus(as.buck 1, as.constant 1)"),
  ("unknown_inner_modifier", "A-B : minus(nosuch(as.constant 1), as.constant 1)"),
  ("empty", "A-B : minus()"),
]:
  res = cd.outcome(cd.tabulate_text, u"[Pair]\n" + body + "\n")
  print("  error path {:24s} {}".format(name, res))
  assert res.startswith("CFGERR:"), res

# potable command line prints 'configuration error - ...'
import tempfile
with tempfile.TemporaryDirectory() as tmpdir:
  bad = os.path.join(tmpdir, "bad.aspot")
  with open(bad, "w") as f:
    f.write("[Pair]\nA-B : minus(as.constant 1)\n")
  res = cd.potable_cli([bad, os.path.join(tmpdir, "out.lmptab")])
  assert res.startswith("exit:2") and "configuration error - " in res, res
  assert not os.path.exists(os.path.join(tmpdir, "out.lmptab")) or os.path.getsize(os.path.join(tmpdir, "out.lmptab")) == 0
  print("  potable:", res.split("|")[-1])

# Hash seed independence (fresh processes)
if os.environ.get("DIFFA_CHILD") != "1":
  seen = set()
  for seed in ["0", "1", "12345"]:
    env = dict(os.environ, PYTHONHASHSEED = seed, DIFFA_CHILD = "1")
    o = subprocess.check_output([sys.executable, "-W", "ignore", "/tmp/wtpy.py", cd.WT, os.path.abspath(__file__)], env = env).decode()
    seen.add([l for l in o.splitlines() if l.startswith("NEW FEATURE: table sha256")][0])
  assert len(seen) == 1, seen
  print("NEW FEATURE: identical table for PYTHONHASHSEED 0, 1, 12345:", seen.pop().split()[-1])

"""Twin B (--check): (a) digest of existing behaviour, must be identical on clean and edited tree;
(b) demonstration of the new option. Run with:
  /venv/bin/python -W ignore /tmp/wtpy.py /tmp/wt_r7_2 _twins/diffB.py"""
OPTION = "--check"
# ---------------------------------------------------------------------------
# Common harness (identical in diffA.py, diffB.py and diffC.py)
# ---------------------------------------------------------------------------
import contextlib
import glob
import hashlib
import io
import logging
import os
import subprocess
import sys
import tempfile

WT = os.path.dirname(os.path.dirname(os.path.abspath(__file__)))
os.chdir(WT)

# Send the INFO chatter of potable to nowhere (basicConfig() inside main() then is a no-op)
logging.basicConfig(level=logging.INFO, stream=open(os.devnull, "w"))

from atsim.potentials.tools import potable
from atsim.potentials import potentialforms
from atsim.potentials.config import Configuration, ConfigParser, FilteredConfigParser

TMPDIR = tempfile.mkdtemp(prefix="twin_")


def run_potable(*argv, **kwargs):
  """Run potable's main() in-process. Returns (exit_code, stdout, error message from stderr, sha256 of output file or None)"""
  outname = kwargs.get("out", None)
  args = ["potable"] + list(argv)
  outpath = None
  if outname:
    outpath = os.path.join(TMPDIR, outname)
    if os.path.exists(outpath):
      os.remove(outpath)
    # OUTPUT_FILE goes directly after POTENTIAL_DEFN_FILE (the nargs='*' options would swallow it otherwise)
    args.insert(2, outpath)
  so, se = io.StringIO(), io.StringIO()
  old_argv = sys.argv
  sys.argv = args
  code = None
  try:
    with contextlib.redirect_stdout(so), contextlib.redirect_stderr(se):
      try:
        potable.main()
      except SystemExit as e:
        code = e.code
  finally:
    sys.argv = old_argv
  content = None
  if outpath and os.path.exists(outpath):
    with open(outpath, "rb") as infile:
      content = hashlib.sha256(infile.read()).hexdigest()
  # stderr from the 'potable: error:' line onwards (what comes before is argparse's usage text)
  errlines = [l for l in se.getvalue().splitlines() if l.strip()]
  start = [i for i, l in enumerate(errlines) if ": error: " in l]
  err = " | ".join(errlines[start[0]:]) if start else " | ".join(errlines[-1:])
  err = err.replace(TMPDIR, "TMP")
  return (code, so.getvalue(), err, content)


ASPOT_FILES = sorted(
  glob.glob("tests/*/*.aspot") + glob.glob("tests/config/config_resources/*.aspot") +
  glob.glob("docs/user_guide/example_files/*.aspot") + glob.glob("docs/quick_start/*.aspot"))


def existing_behaviour_digest():
  """Digest over a broad sample of behaviour that exists in the clean tree."""
  h = hashlib.sha256()
  nrec = [0]

  def rec(*items):
    nrec[0] += 1
    h.update(repr(items).encode("utf-8"))
    h.update(b"\n")

  for fname in ASPOT_FILES:
    # Query actions
    code, out, err, _ = run_potable(fname, "--list-items")
    rec(fname, "list-items", code, out, err)
    code, labels, err, _ = run_potable(fname, "--list-item-labels")
    rec(fname, "list-item-labels", code, labels, err)
    labels = labels.splitlines()
    for label in labels[:3] + labels[-2:]:
      rec(fname, "item-value", label, run_potable(fname, "--item-value", label))
    rec(fname, "item-value-missing", run_potable(fname, "--item-value", "Pair:Zz-Zz"))
    rec(fname, "item-value-malformed", run_potable(fname, "--item-value", "nonsense"))

    # Tabulation (smaller grids to keep this quick, where the file allows it)
    rec(fname, "tabulate", run_potable(fname, out="plain.out"))
    rec(fname, "no-outfile", run_potable(fname))
    species = sorted(set(s for l in labels if l.startswith("Pair:") for s in l[5:].split("-")))
    for s in species[:2]:
      rec(fname, "include", s, run_potable(fname, "--include-species", s, out="inc.out"))
      rec(fname, "exclude", s, run_potable(fname, "--exclude-species", s, out="exc.out"))
      rec(fname, "include-list", s, run_potable(fname, "--list-items", "--include-species", s))
    rec(fname, "include-unknown", run_potable(fname, "--include-species", "Zz", out="inc.out"))

    # Edits
    first_pair = [l for l in labels if l.startswith("Pair:")][:1]
    for label in first_pair:
      rec(fname, "remove", run_potable(fname, "--remove-item", label, out="rem.out"))
      rec(fname, "remove-list", run_potable(fname, "--remove-item", label, "--list-items"))
      rec(fname, "override", run_potable(fname, "--override-item", label + "=as.buck 1000.0 0.3 12.0", out="ovr.out"))
      rec(fname, "add-dup", run_potable(fname, "--add-item", label + "=as.zero", out="add.out"))
    rec(fname, "add", run_potable(fname, "--add-item", "Pair:Xx-Yy=as.lj 0.01 2.5", out="add.out"))
    rec(fname, "add-list", run_potable(fname, "--add-item", "Pair:Xx-Yy=as.lj 0.01 2.5", "--list-items"))
    rec(fname, "override-missing", run_potable(fname, "--override-item", "Pair:Zz-Zz=as.zero", out="x.out"))
    rec(fname, "override-malformed", run_potable(fname, "--override-item", "Pair:Zz-Zz", out="x.out"))
    rec(fname, "remove-malformed", run_potable(fname, "--remove-item", "PairZz", out="x.out"))
    rec(fname, "bad-target", run_potable(fname, "--override-item", "Tabulation:target=NOTATARGET", out="x.out"))
    rec(fname, "bad-nr", run_potable(fname, "--override-item", "Tabulation:nr=abc", out="x.out"))

  # Files that are malformed as a whole
  not_ini = write_model("digest_not_ini.aspot", u"this is not an ini file\n")
  dup_pair = write_model("digest_dup.aspot", u"[Pair]\nA-B : as.zero\nB - A : as.zero\n")
  for path in (not_ini, dup_pair):
    rec("malformed-file", run_potable(path, "--list-items"), run_potable(path, out="x.out"))

  # argparse level behaviour
  rec("mutex-1", run_potable(ASPOT_FILES[0], "--list-items", "--list-item-labels"))
  rec("mutex-2", run_potable(ASPOT_FILES[0], "--include-species", "A", "--exclude-species", "B"))
  rec("no-file", run_potable("does_not_exist.aspot", "--list-items"))
  rec("unknown-option", run_potable(ASPOT_FILES[0], "--no-such-option"))
  # abbreviated long options (argparse allows unambiguous prefixes)
  for abbrev in (["--it", "Pair:O-O"], ["--item-val", "Pair:O-O"], ["--list-item-l"], ["--list-i"], ["--l"], ["--i", "O"],
                 ["--in", "O", "--list-items"], ["--e", "O", "--list-items"], ["--r", "Pair:O-O", "--list-items"],
                 ["--o", "Pair:O-O=as.zero", "--list-items"], ["--a", "Pair:X-X=as.zero", "--list-items"]):
    rec("abbrev", abbrev, run_potable(ASPOT_FILES[0], *abbrev))

  # Python API: Configuration / FilteredConfigParser
  for fname in ASPOT_FILES:
    with open(fname) as infile:
      cp = ConfigParser(infile)
    rec(fname, "parsed_sections", sorted(cp.parsed_sections), cp.orphan_sections)
    try:
      tab = Configuration().read_from_parser(FilteredConfigParser(cp, exclude=["O"]))
      rec(fname, type(tab).__name__, [(p.speciesA, p.speciesB) for p in tab.potentials])
    except Exception as e:
      rec(fname, "exc", type(e).__name__, str(e))

  # Python API: a sample of potential forms with derivatives
  forms = [
    potentialforms.buck(1000.0, 0.3, 12.0), potentialforms.bornmayer(800.0, 0.25),
    potentialforms.lj(0.01, 2.5), potentialforms.morse(1.8, 2.4, 0.6),
    potentialforms.coul(1.0, -2.0), potentialforms.polynomial(1.0, -2.0, 0.5),
    potentialforms.zbl(92, 8), potentialforms.exponential(2.0, 1.5)]
  for f in forms:
    for r in (0.5, 1.0, 2.5, 7.25):
      rec("%.10e" % f(r), "%.10e" % f.deriv(r), "%.10e" % f.deriv2(r))

  return nrec[0], h.hexdigest()


def run_in_fresh_process(hashseed, *argv):
  """Run potable in a fresh interpreter with the given PYTHONHASHSEED, returns (returncode, stdout, message of the error line on stderr, stderr)"""
  env = dict(os.environ)
  env["PYTHONHASHSEED"] = str(hashseed)
  cmd = [sys.executable, "-W", "ignore", "/tmp/wtpy.py", WT, "-c", "from atsim.potentials.tools.potable import main; main()"] + list(argv)
  p = subprocess.run(cmd, env=env, stdout=subprocess.PIPE, stderr=subprocess.PIPE, universal_newlines=True)
  errlines = [l.split(": error: ", 1)[1] for l in p.stderr.splitlines() if ": error: " in l]
  return (p.returncode, p.stdout, errlines[-1].replace(TMPDIR, "TMP") if errlines else "", p.stderr)


def has_option(name):
  code, out, err, _ = run_potable("--help")
  return name in out


def check(label, condition):
  print("  [{}] {}".format("ok" if condition else "FAIL", label))
  if not condition:
    check.failures += 1
check.failures = 0


def write_model(name, text):
  path = os.path.join(TMPDIR, name)
  with open(path, "w") as outfile:
    outfile.write(text)
  return path

# ---------------------------------------------------------------------------
# Edit B: --check
# ---------------------------------------------------------------------------
PAIR_MODEL = u"""[Tabulation]
target : LAMMPS
cutoff : 6.0
nr : 13

[Pair]
U-O : as.buck 1761.775 0.35642 0.0
O-O : >=0 as.buck 9547.96 0.2192 32.0 >2.0 sum(as.constant 1.0, mine 2.0)
Gd-O : spline(>0 as.buck 1000.0 0.3 0.0 >1.0 exp_spline >2.0 as.buck 0 1 30.0)
Gd-Gd : tabbed

[Potential-Form]
mine(r, A) = A*exp(-r) + as.lj(r, 0.01, 2.0)

[Table-Form:tabbed]
interpolation : cubic_spline
x : 0.0 1.0 2.0 3.0 4.0 6.0
y : 5.0 3.0 2.0 1.0 0.5 0.0
"""

EAM_MODEL = u"""[Tabulation]
target : setfl
cutoff : 6.0
nr : 13
cutoff_rho : 10.0
nrho : 11

[Pair]
Cu-Al : as.lj 0.01 2.5

[EAM-Embed]
Cu : as.sqrt -1.5
Al : as.sqrt -2.0

[EAM-Density]
Cu : as.exponential 2.0 -2.0
Al : as.exponential 3.0 -2.0
"""

# (label, base model, text to replace, replacement): single structural mutations, every one malformed
MUTATIONS = [
  ("unknown target", PAIR_MODEL, "target : LAMMPS", "target : NOTATARGET"),
  ("unknown potential form", PAIR_MODEL, "as.buck 1761.775", "as.nosuchform 1761.775"),
  ("unknown modifier", PAIR_MODEL, "sum(as.constant", "nosuchmodifier(as.constant"),
  ("too many parameters", PAIR_MODEL, "as.buck 1761.775 0.35642 0.0", "as.buck 1761.775 0.35642 0.0 1.0"),
  ("too few parameters", PAIR_MODEL, "mine 2.0", "mine"),
  ("malformed pair key", PAIR_MODEL, "U-O :", "U-O-X :"),
  ("non-numeric nr", PAIR_MODEL, "nr : 13", "nr : thirteen"),
  ("nr, dr and cutoff", PAIR_MODEL, "nr : 13", "nr : 13\ndr : 0.5"),
  ("negative cutoff", PAIR_MODEL, "cutoff : 6.0", "cutoff : -6.0"),
  ("DL_POLY rows not divisible by 4", PAIR_MODEL, "target : LAMMPS", "target : DL_POLY"),
  ("exp_spline with parameters", PAIR_MODEL, "exp_spline", "exp_spline 1.0"),
  ("spline with wrong part count", PAIR_MODEL, " >2.0 as.buck 0 1 30.0)", ")"),
  ("unknown interpolation", PAIR_MODEL, "interpolation : cubic_spline", "interpolation : quintic_banana"),
  ("x and y lengths differ", PAIR_MODEL, "y : 5.0 3.0", "y : 3.0"),
  ("non-numeric table data", PAIR_MODEL, "y : 5.0 3.0", "y : 5.0 three"),
  ("unresolvable placeholder", PAIR_MODEL, "as.buck 1761.775", "as.buck ${NOTDEFINED}"),
  ("duplicate pair reversed", PAIR_MODEL, "Gd-Gd : tabbed", "Gd-Gd : tabbed\nO-U : as.zero"),
  ("duplicate potential form", PAIR_MODEL, "[Table-Form:tabbed]", "[Table-Form:mine]\nxy : 0 1 1 2 2 3 3 4\n\n[Table-Form:tabbed]"),
  ("unbalanced bracket", PAIR_MODEL, "mine 2.0)", "mine 2.0"),
  ("not an ini file", PAIR_MODEL, "[Tabulation]", "Tabulation"),
  ("missing [Pair]", PAIR_MODEL.split("[Pair]")[0], "nr : 13", "nr : 13"),
  ("missing [EAM-Embed]", EAM_MODEL, "[EAM-Embed]", "[Something-Else]"),
  ("missing [EAM-Density]", EAM_MODEL, "[EAM-Density]", "[Something-Else]"),
  ("non-numeric nrho", EAM_MODEL, "nrho : 11", "nrho : 1.5.2"),
  ("drho alone", EAM_MODEL, "cutoff_rho : 10.0\nnrho : 11", "drho : 0.1"),
  ("FS key in standard EAM", EAM_MODEL, "Al : as.exponential", "Al->Cu : as.exponential"),
  ("bad species property", EAM_MODEL, "[Pair]", "[Species]\nCu.atomic_mass : heavy\n\n[Pair]"),
]


def demonstrate_feature():
  print("valid models: --check succeeds whenever tabulation succeeds, says so once, writes nothing")
  valid = [(os.path.basename(f), f) for f in ASPOT_FILES]
  valid.append(("pair model", write_model("pair.aspot", PAIR_MODEL)))
  valid.append(("eam model", write_model("eam.aspot", EAM_MODEL)))
  for name, path in valid:
    tab = run_potable(path, out="tab.out")
    chk = run_potable(path, "--check")
    chk_out = run_potable(path, "--check", out="chk.out")
    check("{}: tabulation rc={} / --check rc={} {!r}".format(name, tab[0], chk[0], chk[1]),
          tab[0] == 0 and chk[0] == 0 and chk[1] == "configuration ok\n" and chk[2] == "")
    check("{}: OUTPUT_FILE given to --check is not created".format(name), chk_out[0] == 0 and chk_out[3] is None and chk_out[1] == chk[1])

  print("an existing OUTPUT_FILE is left alone")
  path = valid[-2][1]
  existing = write_model("existing.out", u"precious\n")
  r = run_potable(path, existing, "--check")
  with open(existing) as infile:
    check("content still there", r[0] == 0 and infile.read() == u"precious\n")

  print("malformed models (C16): same 'configuration error - ...' as tabulation gives, nothing on stdout, no file (C17)")
  for i, (label, base, old, new) in enumerate(MUTATIONS):
    assert old in base, label
    path = write_model("mut{}.aspot".format(i), base.replace(old, new, 1))
    tab = run_potable(path, out="mut_tab.out")
    chk = run_potable(path, "--check", out="mut_chk.out")
    ok = (chk[0] == 2 and chk[1] == "" and chk[2].startswith("potable: error: configuration error - ")
          and chk[2] == tab[2] and tab[0] == 2 and chk[3] is None)
    check("{}: {}".format(label, chk[2][15:110]), ok)

  print("filters and edits are applied before the check (C13/C14)")
  pair = valid[-2][1]
  broken = write_model("broken_gd.aspot", PAIR_MODEL.replace("Gd-O : spline(", "Gd-O : nosuchmodifier("))
  r = run_potable(broken, "--check")
  check("broken Gd-O entry is reported", r[0] == 2 and "configuration error - " in r[2])
  r = run_potable(broken, "--check", "--exclude-species", "Gd")
  check("... but not when Gd is filtered out (as for tabulation)", r[0] == 0 and r[1] == "configuration ok\n" and run_potable(broken, "--exclude-species", "Gd", out="f.out")[0] == 0)
  r = run_potable(broken, "--check", "--include-species", "U", "O")
  check("... or not included", r[0] == 0 and r[1] == "configuration ok\n")
  r = run_potable(broken, "--check", "--remove-item", "Pair:Gd-O")
  check("... or removed", r[0] == 0 and r[1] == "configuration ok\n")
  r = run_potable(broken, "--check", "--override-item", "Pair:Gd-O=as.zero")
  check("... or overridden", r[0] == 0 and r[1] == "configuration ok\n")
  r = run_potable(pair, "--check", "--override-item", "Pair:U-O=as.buck 1.0")
  check("override that breaks the model is reported", r[0] == 2 and "configuration error - " in r[2] and r[1] == "")
  r = run_potable(pair, "--check", "--add-item", "Pair : O - U=as.zero")
  r2 = run_potable(pair, "--check", "--add-item", "Pair:O-U=as.zero")
  check("adding a reversed duplicate is reported (C20)", r2[0] == 2 and "Multiple entries for the pair" in r2[2])
  r = run_potable(pair, "--check", "--override-item", "Pair:Zz-Zz=as.zero")
  check("overriding a missing item is reported (C14)", r[0] == 2 and "configuration error - " in r[2] and r == run_potable(pair, "--override-item", "Pair:Zz-Zz=as.zero", "--check"))
  r = run_potable(pair, "--check", "--remove-item", "nonsense")
  check("malformed --remove-item is reported", r[0] == 2 and "configuration error - malformed option" in r[2])
  r = run_potable(pair, "--check", "--override-item", "Tabulation:target=DL_POLY", "Tabulation:nr=16")
  check("option values the manual lists as valid are accepted (DL_POLY synonym, nr=16)", r[0] == 0 and r[1] == "configuration ok\n")

  print("usage errors come from argparse")
  for other in (["--list-items"], ["--list-item-labels"], ["--item-value", "Pair:U-O"]):
    r = run_potable(pair, "--check", *other)
    check("mutually exclusive with " + other[0], r[0] == 2 and "not allowed with argument" in r[2])
  r = run_potable("--check")
  check("POTENTIAL_DEFN_FILE still required", r[0] == 2 and "required" in r[2])

  print("--check only checks the configuration: evaluation failures still belong to tabulation (C17 unchanged)")
  domain = write_model("domain.aspot", PAIR_MODEL.replace("A*exp(-r)", "A*exp(-r) + pymath.log(3.0 - r)"))
  r = run_potable(domain, "--check")
  check("well-formed model whose formula leaves its domain at r >= 3 passes the check", r[0] == 0)
  try:
    t = run_potable(domain, out="domain.out")
    outcome = "rc={} {}".format(t[0], t[2][:80])
  except Exception as e:
    outcome = "{}: {}".format(type(e).__name__, e)
  target = os.path.join(TMPDIR, "domain.out")
  size = os.path.getsize(target) if os.path.exists(target) else None
  print("    tabulating it: {} ; output file size = {}".format(outcome, size))
  check("failed tabulation leaves no partial table", not size)

  print("determinism and purity (C12)")
  for path in (pair, valid[-1][1], broken):
    results = set()
    for seed in (0, 1, 2, 12345):
      rc, out, err, full = run_in_fresh_process(seed, path, "--check")
      check("seed {} {}: no traceback".format(seed, os.path.basename(path)), "Traceback" not in full)
      results.add((rc, out, err))
    inproc = run_potable(path, "--check")
    results.add((inproc[0], inproc[1], inproc[2].split(": error: ", 1)[-1]))
    check("{}: one distinct result {}".format(os.path.basename(path), sorted(results)[0][:2]), len(results) == 1)
  before = run_potable(pair, out="t1.out")[3]
  for i in range(3):
    run_potable(pair, "--check")
    run_potable(broken, "--check")
  after = run_potable(pair, out="t2.out")[3]
  check("tabulation bytes the same before and after checks of this and other models", before == after and before is not None)


if __name__ == "__main__":
  n, digest = existing_behaviour_digest()
  print("EXISTING-BEHAVIOUR DIGEST ({} records): {}".format(n, digest))
  if has_option(OPTION):
    print("FEATURE {} present".format(OPTION))
    demonstrate_feature()
    print("FEATURE CHECK FAILURES: {}".format(check.failures))
  else:
    print("FEATURE {} absent (clean tree)".format(OPTION))

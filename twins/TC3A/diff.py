"""Differential script for twin A: exp_spline value/deriv/deriv2 and _rpartial based potential-form factories."""
import hashlib
import io
import math
import random

import atsim.potentials as ap
from atsim.potentials import potentialfunctions as pf
from atsim.potentials import potentialforms as pforms
from atsim.potentials.spline import SplinePotential, Exp_Spline, Spline_Point
from atsim.potentials.config import Configuration

out = []

def rec(label, thunk):
  try:
    v = thunk()
    if isinstance(v, float):
      v = v.hex() if not math.isnan(v) else "nan"
    out.append("%s=%r" % (label, v))
  except Exception as e:
    out.append("%s!%s:%s" % (label, type(e).__name__, e))

rng = random.Random(20240612)
coeff_sets = [
  (0.0, 0.0, 0.0, 0.0, 0.0, 0.0, 0.0),
  (1.0, -2.0, 0.5, 0.25, -0.125, 0.01, 3.0),
  (3, -2, 1, 0, 0, 0, -7),
  (700.0, 10.0, 0.0, 0.0, 0.0, 0.0, 0.0),
  (1e-3, 1e3, -1e3, 1e2, -10.0, 1.0, -1e-9),
]
for i in range(25):
  coeff_sets.append(tuple(rng.uniform(-3, 3) for _ in range(7)))

rvals = [0.0, -0.0, 1.0, -1.5, 0.1, 2.5, 7.25, 1e-8, 30.0, 1e60, 1e100, float("inf"), float("nan"), 3, True]
for i in range(15):
  rvals.append(rng.uniform(-4, 6))

for ci, cs in enumerate(coeff_sets):
  form = pforms.exp_spline(*cs)
  for r in rvals:
    tag = "c%d r=%r" % (ci, r)
    rec(tag + " pf.v", lambda: pf.exp_spline(r, *cs))
    rec(tag + " pf.d", lambda: pf.exp_spline.deriv(r, *cs))
    rec(tag + " pf.d2", lambda: pf.exp_spline.deriv2(r, *cs))
    rec(tag + " form.v", lambda: form(r))
    rec(tag + " form.d", lambda: form.deriv(r))
    rec(tag + " form.d2", lambda: form.deriv2(r))

# Bad arguments - exception types
rec("bad str r", lambda: pf.exp_spline("a", 1.0, 2.0, 3.0, 4.0, 5.0, 6.0, 7.0))
rec("bad str r d2", lambda: pf.exp_spline.deriv2("a", 1.0, 2.0, 3.0, 4.0, 5.0, 6.0, 7.0))
rec("bad str r d2 int", lambda: pf.exp_spline.deriv2("a", 1, 2, 3, 4, 5, 6, 7))
rec("bad None r d2", lambda: pf.exp_spline.deriv2(None, 1.0, 2.0, 3.0, 4.0, 5.0, 6.0, 7.0))
rec("bad nargs", lambda: pf.exp_spline(1.0, 1.0))
rec("bad nargs d2", lambda: pf.exp_spline.deriv2(1.0, 1.0))
rec("form few args", lambda: pforms.exp_spline(1.0, 2.0)(1.0))
rec("form kw", lambda: pforms.exp_spline(1.0, 2.0, 3.0, 4.0, 5.0, 6.0)(1.0, C=2.0))
rec("form kw d2", lambda: pforms.exp_spline(1.0, 2.0, 3.0, 4.0, 5.0, 6.0).deriv2(0.5, C=2.0))
rec("form bad kw", lambda: pforms.exp_spline(1.0, 2.0, 3.0, 4.0, 5.0, 6.0, 7.0)(1.0, Z=2.0))
rec("attrs", lambda: sorted(a for a in dir(pforms.exp_spline(*coeff_sets[1])) if a.startswith("deriv")))
rec("is_potential", lambda: (pf.exp_spline.is_potential, pforms.exp_spline.is_potential))

# numpy array input
import numpy as np
arr = np.linspace(0.1, 3.0, 7)
rec("np v", lambda: pf.exp_spline(arr[0], *coeff_sets[1]))
rec("np d2", lambda: pf.exp_spline.deriv2(arr[3], *coeff_sets[1]).hex())

# Other factories built with _rpartial (value, deriv, deriv2, keyword use)
for name, args in [("buck", (1000.0, 0.3, 32.0)), ("bornmayer", (1000.0, 0.3)), ("coul", (1.0, -2.0)),
                   ("constant", (2.5,)), ("exponential", (2.0, 3.0)), ("hbnd", (10.0, 20.0)), ("lj", (0.1, 2.5)),
                   ("morse", (1.2, 1.5, 0.5)), ("polynomial", (1.0, 2.0, 3.0, 4.0)), ("sqrt", (4.0,)),
                   ("zbl", (92, 8)), ("zero", ())]:
  f = getattr(pforms, name)(*args)
  for r in (0.5, 1.0, 2.75):
    rec("%s %r v" % (name, r), lambda: f(r))
    rec("%s %r d" % (name, r), lambda: f.deriv(r))
    rec("%s %r d2" % (name, r), lambda: f.deriv2(r))
rec("rpartial kw", lambda: pforms.buck(1000.0, 0.3)(1.0, C=3.0))
rec("rpartial kw dup", lambda: pforms.buck(1000.0, 0.3, 32.0)(1.0, C=3.0))
rec("rpartial keywords attr", lambda: pforms.buck(1000.0, 0.3).keywords)

# Spline objects that are built on exp_spline
for (a, b, dx, ax) in [(pforms.bornmayer(1000.0, 0.3), pforms.buck(0.0, 1.0, 32.0), 1.0, 2.2),
                       (pforms.zbl(92, 8), pforms.buck(1761.775, 0.35, 0.0), 0.6, 1.4),
                       (pforms.constant(-1.0), pforms.lj(0.2, 2.0), 0.5, 1.9)]:
  sp = SplinePotential(a, b, dx, ax)
  rec("coeffs", lambda: [c.hex() for c in sp.splineCoefficients])
  for i in range(40):
    r = 0.2 + i * 0.07
    rec("sp v %d" % i, lambda: sp(r))
    rec("sp d %d" % i, lambda: sp.deriv(r))
    rec("sp d2 %d" % i, lambda: sp.deriv2(r))

# Through the config/potable machinery
cfg = u"""[Tabulation]
target : LAMMPS
cutoff : 6.0
nr : 400

[Pair]
O-U : spline(>0 as.zbl 92 8 >=0.8 exp_spline >=1.4 as.buck 1761.775 0.35 0.0)
O-O : >0 as.bornmayer 1000.0 0.3 >=1.0 as.exp_spline 1.0 -2.0 0.5 0.25 -0.125 0.01 3.0 >=2.0 as.buck 0.0 1.0 32.0
"""
def tab():
  cp = Configuration()
  t = cp.read(io.StringIO(cfg))
  o = io.StringIO()
  t.write(o)
  return hashlib.sha256(o.getvalue().encode("utf-8")).hexdigest()
rec("potable", tab)

blob = "\n".join(out)
print(len(out), hashlib.sha256(blob.encode("utf-8")).hexdigest())

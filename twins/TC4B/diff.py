"""Differential script for twin B: query actions (_query_actions), Configuration
factory (config/_configuration.py) and action_tabulate (_actions.py)."""
import hashlib, io, os, sys, tempfile, logging, contextlib, shutil, glob

WT = os.getcwd()
EX = os.path.join(WT, "docs", "user_guide", "example_files")
RES = os.path.join(WT, "tests", "config", "config_resources")
QS = os.path.join(WT, "docs", "quick_start")

from atsim.potentials.tools.potable import _query_actions, _actions
from atsim.potentials.config import Configuration, ConfigParser, FilteredConfigParser, ConfigParserOverrideTuple

h = hashlib.sha256()
lines = []
def rec(*a):
  s = " | ".join(str(x) for x in a)
  lines.append(s)
  h.update(s.encode("utf8") + b"\n")

def attempt(tag, f, *args):
  out = io.StringIO()
  try:
    with contextlib.redirect_stdout(out):
      r = f(*args)
    rec(tag, "ok", repr(r), repr(out.getvalue()))
  except Exception as e:
    rec(tag, "exc", type(e).__name__, str(e), repr(out.getvalue()))

class LevelHandler(logging.Handler):
  def __init__(self):
    logging.Handler.__init__(self); self.levels = []
  def emit(self, record):
    self.levels.append((record.name, record.levelname))
handler = LevelHandler()
logging.getLogger().addHandler(handler)
logging.getLogger().setLevel(logging.INFO)

INLINE = {
"minimal" : u"""[Pair]
O-O = as.buck 1.0 0.2 0.0
""",
"empty" : u"",
"vars-only" : u"""[Variables]
A = 1.0
B = 2.0
""",
"vars+pair" : u"""[Variables]
A = 1.0

[Tabulation]
target : GULP
cutoff : 5.0
nr : 12

[Pair]
B-A = as.buck ${A} 0.2 0.0
A-A = as.buck 2.0 0.3 0.0

[Potential-Form]
zz(r, a) = a*r
aa(r, b) = b/r
""",
"orphans" : u"""[Zebra]
z = 1
a = 2

[Pair]
O-O = as.buck 1.0 0.2 0.0

[Apple]
q : r
""",
"eam-fs-dens" : u"""[Tabulation]
target : setfl_fs
nr : 10
nrho : 10
cutoff : 5.0
cutoff_rho : 5.0

[EAM-Embed]
B : as.sqrt 2.0
A : as.sqrt 1.0

[EAM-Density]
B->A : as.constant 1.0
A->B : as.constant 2.0
A->A : as.constant 3.0
B->B : as.constant 4.0

[Pair]
A-B : as.buck 1.0 0.2 0.0
""",
"table-form" : u"""[Pair]
O-O : tf 1.0

[Table-Form:tf(r, s)]
interpolation : cubic_spline
x : 0.0 1.0 2.0 3.0
y : 3.0 2.0 1.0 0.0

[Table-Form:other]
interpolation : cubic_spline
xy : 0.0 1.0 2.0 3.0

[Variables]
foo = bar
""",
"no-target" : u"""[Tabulation]
cutoff : 3.0
nr : 9

[Pair]
Si-O = as.buck 100.0 0.3 1.0
O-O = as.buck 200.0 0.2 2.0
""",
"bad-target" : u"""[Tabulation]
target : NOT_A_TARGET
[Pair]
O-O = as.buck 1.0 0.2 0.0
""",
"dlpoly" : u"""[Tabulation]
target : DL_POLY
cutoff : 4.0
nr : 16

[Pair]
O-O = as.buck 1.0 0.2 0.0
U-O = as.bornmayer 10.0 0.3
""",
}

def parsers():
  for name in sorted(INLINE):
    yield name, lambda name=name: ConfigParser(io.StringIO(INLINE[name]))
  files = sorted(glob.glob(os.path.join(EX, "*.aspot"))) + sorted(glob.glob(os.path.join(RES, "*.aspot"))) + [os.path.join(QS, "basak.aspot")]
  for f in files:
    def mk(f=f):
      with open(f) as infile:
        return ConfigParser(infile)
    yield os.path.basename(f), mk

for name, mk in parsers():
  try:
    cp = mk()
  except Exception as e:
    rec(name, "parser-exc", type(e).__name__, str(e))
    continue
  attempt(name+":_list_items", _query_actions._list_items, cp)
  attempt(name+":_list_item_labels", _query_actions._list_item_labels, cp)
  attempt(name+":_list_plot_item_labels", _query_actions._list_plot_item_labels, cp)
  attempt(name+":_list_table_forms", _query_actions._list_table_forms, cp)
  attempt(name+":_parse_raw", _query_actions._parse_raw, cp, cp.orphan_sections)
  for fn in ("_list_pair", "_list_potential_form", "_list_tabulation", "_list_eam_dens", "_list_eam_embed"):
    attempt(name+":"+fn, getattr(_query_actions, fn), cp)
  attempt(name+":_list_section-missing", _query_actions._list_section, cp, "No-Such-Section")
  attempt(name+":action_list_items", _query_actions.action_list_items, cp)
  attempt(name+":action_list_item_labels", _query_actions.action_list_item_labels, cp)
  for key in ["Tabulation:target", "Pair:O-O", "Pair:o-o", "Variables:A", "Tabulation", "", ":", "a:b:c",
              "Table-Form:tf(r, s):x", "Table-Form:other:xy", "Nope:key", "Pair:", ":Pair"]:
    attempt(name+":_item_value:"+key, _query_actions._item_value, cp, key)
    attempt(name+":action_item_value:"+key, _query_actions.action_item_value, cp, key)
  # filtered parsers
  for kw in [dict(include = []), dict(exclude = []), dict(include = ["O"]), dict(exclude = ["O", "A"])]:
    try:
      fcp = FilteredConfigParser(mk(), **kw)
    except Exception as e:
      rec(name, "filter-exc", kw, type(e).__name__, str(e)); continue
    attempt(name+":filtered:%r" % (sorted(kw.items()),), _query_actions._list_items, fcp)

# Configuration factory + action_tabulate
TARGETS = [None, "LAMMPS", "GULP", "DL_POLY", "DLPOLY", "setfl", "setfl_fs", "funcfl", "DL_POLY_EAM", "DL_POLY_EAM_fs", "excel", "lammps", "", "NOPE"]
def with_target(mk, target):
  cp0 = mk()
  has = cp0.raw_config_parser.has_option("Tabulation", "target")
  t = ConfigParserOverrideTuple(section = "Tabulation", key = "target", value = target)
  if target is None:
    return mk() if not has else None
  if has:
    return_cp = lambda: mk_over(mk, [t], [])
  else:
    return_cp = lambda: mk_over(mk, [], [t])
  return return_cp()

def mk_over(mk, overrides, additional):
  # re-read source text through the public ConfigParser with overrides
  src = mk.__defaults__[0]
  if src in INLINE:
    return ConfigParser(io.StringIO(INLINE[src]), overrides = overrides, additional = additional)
  with open(src) as infile:
    return ConfigParser(infile, overrides = overrides, additional = additional)

def tabulate_digest(cp, use_action):
  tmpd = tempfile.mkdtemp()
  del handler.levels[:]
  try:
    fname = os.path.join(tmpd, "out.tab")
    if use_action:
      r = _actions.action_tabulate(cp, fname)
      res = repr(r)
    else:
      tab = Configuration().read_from_parser(cp)
      res = type(tab).__name__
      with tab.open_fp(fname) as out:
        tab.write(out)
    files = []
    for f in sorted(os.listdir(tmpd)):
      with open(os.path.join(tmpd, f), "rb") as fh:
        data = fh.read()
      # xlsx (zip) files embed timestamps - only record their presence
      files.append((f, hashlib.sha256(data).hexdigest() if not data.startswith(b"PK") else "zip-container"))
    return ("ok", res, files, list(handler.levels))
  except Exception as e:
    return ("exc", type(e).__name__, str(e).replace(tmpd, "<TMP>"), sorted(os.listdir(tmpd)), list(handler.levels))
  finally:
    shutil.rmtree(tmpd)

for name, mk in parsers():
  if name in ("empty",):
    pass
  for target in TARGETS:
    for use_action in (False, True):
      try:
        cp = with_target(mk, target)
      except Exception as e:
        rec(name, target, "cp-exc", type(e).__name__, str(e)); continue
      if cp is None:
        continue
      rec(name, target, use_action, *tabulate_digest(cp, use_action))

# Configuration.read directly from file objects
for name in sorted(INLINE):
  del handler.levels[:]
  try:
    tab = Configuration().read(io.StringIO(INLINE[name]))
    out = io.StringIO()
    try:
      tab.write(out)
      rec("read", name, type(tab).__name__, hashlib.sha256(out.getvalue().encode()).hexdigest(), list(handler.levels))
    except Exception as e:
      rec("read", name, type(tab).__name__, "write-exc", type(e).__name__, str(e), list(handler.levels))
  except Exception as e:
    rec("read", name, "exc", type(e).__name__, str(e), list(handler.levels))

# action_tabulate into a non existent directory
del handler.levels[:]
try:
  _actions.action_tabulate(ConfigParser(io.StringIO(INLINE["dlpoly"])), "/nonexistent-dir-xyz/out.tab")
  rec("nodir", "ok")
except Exception as e:
  rec("nodir", type(e).__name__, str(e), list(handler.levels))

if "-v" in sys.argv:
  print("\n".join(lines))
print("records:", len(lines))
print("DIGEST", h.hexdigest())
